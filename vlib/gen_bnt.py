"""Case generation for the modular / number-theoretic bn functions and the scalar
recodings (C09).  Pure data: corner sets lifted to the digit width of the build,
structured families (extreme moduli, Fibonacci pairs, pseudoprimes, run-length
scalars) and seeded random.  The judgement is made by the TLA+ trace
specification (tla/model/BntSpec.tla), never here; the little arithmetic below
(Miller-Rabin, Fibonacci, cube roots of unity) only *selects inputs*."""
from vlib.gen_bn import hx

# ---------------------------------------------------------------- input selection helpers
_SMALL = [2, 3, 5, 7, 11, 13, 17, 19, 23, 29, 31, 37, 41, 43, 47, 53, 59, 61, 67, 71]


def _is_prime(n, rng=None):
    if n < 2:
        return False
    for p in _SMALL:
        if n % p == 0:
            return n == p
    d, s = n - 1, 0
    while d % 2 == 0:
        d //= 2
        s += 1
    for a in _SMALL[:16]:
        x = pow(a, d, n)
        if x in (1, n - 1):
            continue
        for _ in range(s - 1):
            x = x * x % n
            if x == n - 1:
                break
        else:
            return False
    return True


def _next_prime(n):
    n += 1
    while not _is_prime(n):
        n += 1
    return n


def _rand_prime(bits, rng):
    while True:
        p = rng.getrandbits(bits) | (1 << (bits - 1)) | 1
        if _is_prime(p):
            return p


CARMICHAEL = [561, 1105, 1729, 2465, 2821, 6601, 8911, 41041, 825265, 321197185, 5394826801,
              232250619601, 9746347772161,
              # Chernick (6k+1)(12k+1)(18k+1)
              (6 * 1515 + 1) * (12 * 1515 + 1) * (18 * 1515 + 1)]
# psi_k: least strong pseudoprimes to the first k prime bases, and other classics
STRONG_PSP = [2047, 3277, 4033, 4681, 8321, 1373653, 25326001, 3215031751, 2152302898747,
              3474749660383, 341550071728321, 3825123056546413051, 318665857834031151167461,
              3317044064679887385961981, 1194649, 12327121, 3057601, 5173601, 486737, 74593, 9080191,
              4759123141, 1122004669633, 21652684502221]
NIST_PRIMES = [2 ** 192 - 2 ** 64 - 1, 2 ** 224 - 2 ** 96 + 1, 2 ** 256 - 2 ** 224 + 2 ** 192 + 2 ** 96 - 1,
               2 ** 384 - 2 ** 128 - 2 ** 96 + 2 ** 32 - 1, 2 ** 521 - 1, 2 ** 255 - 19, 2 ** 127 - 1, 2 ** 89 - 1,
               2 ** 61 - 1, 2 ** 31 - 1, 2 ** 256 - 2 ** 32 - 977, 2 ** 448 - 2 ** 224 - 1, 2 ** 607 - 1]
# p * (2p - 1), p prime = 1 mod 4, 861 bits: a strong pseudoprime to the bases 2, 3, 5 and 7 (found by search)
SPSP_861 = 0x10a40f7fd145e4202121f9347de687be47d1f7a8ddd3d6066e9a1744654b799676e1308d480921ca39b04600d47c7b648051be1bcdafc0f177485c9a456d6a6c4cf6f125bb82b06e47d89dcbced47955ffe58eca2f82835a989f053766f654bcf3c9d19b4ac9db779e380925
K256_N = 0xFFFFFFFFFFFFFFFFFFFFFFFFFFFFFFFEBAAEDCE6AF48A03BBFD25E8CD0364141
BN256_N = 0xB64000000000FF2F2200000085FD547FD8001F44B6B7F4B7C2BC818F7B6BEF99


def _chernick(bits, rng):
    """a Carmichael number (6k+1)(12k+1)(18k+1) with factors of about `bits` bits"""
    k = rng.getrandbits(bits - 4) | (1 << (bits - 5))
    while True:
        k += 1
        if _is_prime(6 * k + 1) and _is_prime(12 * k + 1) and _is_prime(18 * k + 1):
            return (6 * k + 1) * (12 * k + 1) * (18 * k + 1)


def _fib_pairs(maxbits):
    a, b = 1, 2
    out = []
    while b.bit_length() <= maxbits:
        out.append((b, a))
        a, b = b, a + b
    return out


def _cube_root_of_unity(n):
    g = 2
    while True:
        x = pow(g, (n - 1) // 3, n)
        if x != 1:
            return x
        g += 1


def barrett_subtractions(a, m, wbits):
    """Simulate the quotient estimate of Barrett reduction (HAC 14.42, as in bn_mod_barrt) and return
    the number of final subtractions it needs; used only to SELECT inputs reaching the rare second one."""
    B = 1 << wbits
    k = max(1, (m.bit_length() + wbits - 1) // wbits)
    if a < m or (a.bit_length() + wbits - 1) // wbits > 2 * k:
        return 0
    mu = B ** (2 * k) // m
    q3 = ((a // B ** (k - 1)) * mu) // B ** (k + 1)
    t = (a % B ** (k + 1)) - ((q3 * m) % B ** (k + 1))
    if t < 0:
        t += B ** (k + 1)
    return t // m


def barrett_reach(wbits, k, rng, want, tries=4000):
    """(a, m) with m of k digits (small top digit) and a just above a large multiple of m"""
    B = 1 << wbits
    out = []
    for _ in range(tries):
        m = B ** (k - 1) * rng.randint(1, 3) + rng.getrandbits(rng.randint(1, wbits * (k - 1)))
        j = (B ** (2 * k) - 1) // m - rng.getrandbits(rng.randint(1, 16))
        a = j * m + rng.getrandbits(rng.randint(1, 8))
        if 0 <= a < B ** (2 * k) and m > 1 and barrett_subtractions(a, m, wbits) >= 2:
            out.append((a, m))
            if len(out) >= want:
                break
    return out


def extreme_moduli(wbits, maxdigs, rng):
    """moduli with extreme digits: all-ones, 2^k, 2^k +- 1, top digit 1 / 2^(w-1) / all ones, dense random"""
    B = 1 << wbits
    out = set()
    for d in sorted({1, 2, 3, maxdigs // 2, maxdigs - 1, maxdigs}):
        if d < 1:
            continue
        nb = d * wbits
        out |= {B ** d - 1, B ** d - 2, B ** d - 3, B ** (d - 1), B ** (d - 1) + 1, B ** (d - 1) + 2,
                (1 << (nb - 1)), (1 << (nb - 1)) + 1, (1 << (nb - 1)) - 1, (1 << (nb - 1)) + 3,
                (B ** d - 1) - (B - 1) * B ** (d // 2),           # a zero digit in the middle
                B ** (d - 1) * (B - 1) + 1, B ** (d - 1) * (B // 2) + 1,
                rng.getrandbits(nb) | 1 | (1 << (nb - 1)), rng.getrandbits(nb) | (1 << (nb - 1)),
                rng.getrandbits(max(1, nb - wbits // 2)) | 1}
        for k in (nb - 1, nb - wbits // 2, nb - 3):
            if k > 1:
                out |= {(1 << k) - 1, (1 << k) + 1, (1 << k)}
    out |= {1, 2, 3, 4, 5, 7, 8, 9, 15, 16, 17, 255, 256, 257}
    return sorted(m for m in out if 0 < m < B ** maxdigs)


def run_scalars(maxbits, rng, n_rand):
    """scalars with long runs of ones / zeros and alternating patterns, 1..maxbits bits"""
    out = {1, 2, 3, 4, 5, 6, 7, 8, 15, 16, 17, 0x55, 0xAA, 0xFF, 0x100, 0x101}
    for nb in sorted({2, 3, 7, 8, 9, 15, 16, 17, 31, 32, 33, 63, 64, 65, 127, 128, 129, 255, 256, 257, 511, 512,
                      maxbits - 1, maxbits}):
        if nb < 1 or nb > maxbits:
            continue
        ones = (1 << nb) - 1
        out |= {ones, 1 << (nb - 1), (1 << (nb - 1)) + 1, ones - 1, ones ^ (1 << (nb // 2)),
                (1 << (nb - 1)) | ((1 << (nb // 2)) - 1),                 # 1 0..0 1..1
                ones ^ ((1 << (nb // 2)) - 1),                            # 1..1 0..0
                int("01" * nb, 2) & ones, int("10" * nb, 2) & ones, int("0111" * nb, 2) & ones,
                int("0001" * nb, 2) & ones, int("011" * nb, 2) & ones, int("00111111" * nb, 2) & ones}
    for _ in range(n_rand):
        nb = rng.randint(1, maxbits)
        v = rng.getrandbits(nb)
        out.add(v)
        # random run-length pattern
        s, bit = "", 1
        while len(s) < nb:
            s += str(bit) * rng.randint(1, 12)
            bit ^= 1
        out.add(int(s[:nb], 2))
    return sorted(v for v in out if 0 < v < (1 << maxbits))


class Gen:
    def __init__(self, wbits, digs, rng, tier):
        self.w = wbits
        self.digs = digs
        self.rng = rng
        self.quick = tier == "quick"
        self.tiny = wbits == 8
        self.B = 1 << wbits
        self.maxbits = wbits * digs
        self.cases = []
        self.stats = {}

    def add(self, op, al, *args):
        self.cases.append(" ".join([op, str(al)] + [a if isinstance(a, str) else hx(a) for a in args]))
        self.stats[op] = self.stats.get(op, 0) + 1

    def n(self, q, t):
        return q if self.quick else t

    def used(self, m):
        return max(1, (m.bit_length() + self.w - 1) // self.w)

    # ------------------------------------------------------------ reductions
    def reductions(self):
        rng = self.rng
        mods = extreme_moduli(self.w, self.digs, rng)
        if not self.tiny:
            mods += [p for p in NIST_PRIMES if p.bit_length() <= self.maxbits] + [K256_N, BN256_N]
        if self.quick and len(mods) > 40:
            keep = set(mods[:10] + mods[-12:])
            mods = sorted(keep | set(rng.sample(mods, 18 if not self.tiny else 40)))
        elif not self.tiny and len(mods) > 64:
            mods = sorted(set(mods[:12] + mods[-20:]) | set(rng.sample(mods, 32)))
        lim = self.B ** (2 * self.digs)
        for m in mods:
            R = self.B ** self.used(m)
            vals = {0, 1, 2, m - 1, m, m + 1, 2 * m - 1, 2 * m, 2 * m + 1, (m - 1) * (m - 1), m * m - 1, m * m,
                    R - 1, R, R + 1, m * R - 1, m * R, (m - 1) * R, R * R - 1,
                    rng.randrange(m), rng.randrange(m * m), rng.randrange(m * R),
                    m * rng.randrange(1, m + 1), (self.B - 1) * m,
                    rng.getrandbits(self.w * (2 * self.used(m) + 1)), rng.getrandbits(2 * self.maxbits)}
            vals = sorted(v for v in vals if 0 <= v < lim)
            if not self.tiny:
                vals = sorted(set(vals[:3]) | set(rng.sample(vals, min(len(vals), self.n(13, 17)))))
            for a in vals:
                al = rng.choice([0, 0, 1])
                for s in (1, -1):
                    if s < 0 and (a == 0 or rng.random() < (0.0 if a <= 2 * m else 0.5)):
                        continue
                    self.add("bn_mod_basic", al, s * a, m)
                    if s > 0 or rng.random() < 0.25:
                        self.add("bn_mod_barrt", al, s * a, m)
                        self.add("bn_mod_pmers", al, s * a, m)
                    if m % 2 == 1:
                        self.add("bn_mod_monty_conv", al, s * a, m)
                if m % 2 == 1 and a < m * R:
                    self.add("bn_mod_monty_basic", al, a, m)
                    self.add("bn_mod_monty_comba", al, a, m)
                    self.add("bn_mod_monty_back", al, a, m)
            if m % 2 == 0:      # even moduli are not admitted by the Montgomery family: must be reported
                self.add("bn_mod_monty_basic", 0, 1, m)
                self.add("bn_mod_monty_comba", 0, 1, m)
                self.add("bn_mod_monty_conv", 0, 1, m)
                self.add("bn_mod_monty_back", 0, 1, m)
        # operands for which Barrett's quotient estimate is two short (second final subtraction)
        reach = 0
        for k in sorted({2, 3, 4, self.digs // 2, self.digs}):
            for (a, m) in barrett_reach(self.w, k, rng, self.n(8, 40)):
                reach += 1
                self.add("bn_mod_barrt", rng.choice([0, 1]), a, m)
                self.add("bn_mod_pmers", 0, a, m)
        self.stats["barrett_two_subtractions"] = reach
        for op in ("bn_mod_basic", "bn_mod_barrt", "bn_mod_pmers", "bn_mod_monty_comba", "bn_mod_monty_basic",
                   "bn_mod_monty_conv", "bn_mod_monty_back"):
            self.add(op, 0, 5, 0)          # zero modulus
            self.add(op, 0, 5, -7)         # negative modulus
        if self.tiny:
            # all a < 2^10 (and negatives) against all moduli < 2^7 / a sample in quick
            ms = sorted(set(rng.sample(range(1, 128), self.n(24, 60))) | {1, 2, 3, 127})
            for m in ms:
                for a in (range(0, 1024) if not self.quick else rng.sample(range(0, 1024), 40)):
                    for s in (1, -1):
                        if s < 0 and (a == 0 or rng.random() < 0.97):
                            continue
                        self.add("bn_mod_barrt", 0, s * a, m)
                        self.add("bn_mod_pmers", 0, s * a, m)
                    if m % 2 == 1 and a < m * 256:
                        self.add("bn_mod_monty_comba", 0, a, m)
                        self.add("bn_mod_monty_basic", 0, a, m)

    # ------------------------------------------------------------ exponentiation, inverse
    def powers(self):
        rng = self.rng
        mods = extreme_moduli(self.w, self.digs, rng)
        if not self.tiny:
            mods += [p for p in NIST_PRIMES if p.bit_length() <= self.maxbits]
        mods = [m for m in mods if m >= 1]
        nm = self.n(28, 60)
        if len(mods) > nm:
            mods = sorted(set(mods[:8]) | set(rng.sample(mods, nm - 8)))
        for m in mods:
            nb = m.bit_length()
            exps = [0, 1, 2, 3, -1, -2, m - 1, -(m - 1), rng.getrandbits(nb), -rng.getrandbits(nb) - 1,
                    rng.getrandbits(nb + self.w + 3) | (1 << (nb + self.w + 2)),        # longer than the modulus
                    (1 << min(self.maxbits, 2 * nb)) - 1, (1 << (nb - 1)), rng.getrandbits(20), rng.getrandbits(33),
                    rng.getrandbits(min(self.maxbits, 140)), rng.getrandbits(min(self.maxbits, 300))]
            if self.quick:
                exps = exps[:8] + rng.sample(exps[8:], 4)
            bases = [0, 1, 2, m - 1, m, m + 1, rng.randrange(m) if m > 1 else 0, -rng.randrange(1, m + 1),
                     rng.getrandbits(2 * nb), 6]
            for b in exps:
                for a in rng.sample(bases, self.n(3, 6)):
                    al = rng.choice([0, 0, 1])
                    for op in ("bn_mxp_basic", "bn_mxp_slide", "bn_mxp_monty"):
                        self.add(op, al, a, b, m)
            for dg in (0, 1, 2, 3, self.B - 1, self.B // 2, rng.randrange(self.B)):
                self.add("bn_mxp_dig", 0, rng.choice(bases), dg, m)
            for _ in range(self.n(3, 8)):
                self.add("bn_mxp_sim", 0, rng.choice(bases), abs(rng.choice(exps)), rng.choice(bases),
                         abs(rng.choice(exps)), m)
            self.add("bn_mxp_sim", 0, 3, 0, 5, 0, m)
            # many terms: the routine handles blocks of eight and the leftover terms separately (seed C09-w2)
            if m >= 2:
                for cnt in rng.sample([1, 2, 7, 8, 9, 15, 16, 17, 24, 25], self.n(4, 10)):
                    terms = []
                    for _ in range(cnt):
                        terms += [rng.choice(bases), abs(rng.choice(exps))]
                    self.add("bn_mxp_sim_lot", 0, str(cnt), m, *terms)
            # inverses
            if m >= 2:
                cand = [1, 2, 3, m - 1, m + 1, 2 * m + 1, m // 2, m // 2 + 1, rng.randrange(1, m), rng.randrange(1, m),
                        rng.getrandbits(nb + 9) + 1, 0, m, 2 * m, 6, 10]
                for a in cand:
                    self.add("bn_mod_inv", rng.choice([0, 0, 1]), a, m)
                    if a > 0 and rng.random() < 0.08:
                        self.add("bn_mod_inv", 0, -a, m)
                for n in (1, 2, 3, 7):
                    xs = [rng.randrange(1, m) for _ in range(n)]
                    self.add("bn_mod_inv_sim", 0, str(n), m, *xs)
                    if n >= 2 and rng.random() < 0.5:
                        xs[rng.randrange(n)] *= -1
                        self.add("bn_mod_inv_sim", 0, str(n), m, *xs)
        # CRT exponentiation: distinct odd primes, qi = q^-1 mod p
        sizes = [b for b in (8, 13, 16, 24, 31, 32, 33, 64, 128, 256, 512) if 2 * b <= self.maxbits and b <= self.maxbits // 2]
        for b in sizes:
            for _ in range(self.n(2, 6)):
                p, q = _rand_prime(b, rng), _rand_prime(b, rng)
                if p == q:
                    continue
                qi = pow(q, -1, p)
                a = rng.randrange(p * q)
                for (x, y) in ((rng.randrange(p - 1), rng.randrange(q - 1)), (0, 0), (1, 1), (p - 2, q - 2)):
                    self.add("bn_mxp_crt", 0, a, x, y, p, q, qi)
        if self.tiny:
            # all (a, b) below 32 for every modulus below 64
            for m in (range(1, 64) if not self.quick else rng.sample(range(1, 64), 10)):
                for a in range(0, 32, 1 if not self.quick else 5):
                    for b in range(-8, 24, 1 if not self.quick else 3):
                        self.add("bn_mxp_slide", 0, a, b, m)
                        self.add("bn_mxp_monty", 0, a, b, m)
                        self.add("bn_mxp_basic", 0, a, b, m)
                for a in range(-m, 2 * m + 1):
                    if a >= 0 or a % 7 == 0:
                        self.add("bn_mod_inv", 0, a, m)

    # ------------------------------------------------------------ gcd family
    def gcd_pairs(self):
        rng = self.rng
        B, w = self.B, self.w
        pairs = []
        fibs = _fib_pairs(self.maxbits)
        pairs += fibs if not self.quick else fibs[::max(1, len(fibs) // 40)] + fibs[-6:]
        for (x, y) in list(pairs[-10:]):
            g = rng.getrandbits(self.w) | 1
            if (x * g).bit_length() <= self.maxbits:
                pairs.append((x * g, y * g))
        for d in range(2, self.digs + 1):
            if self.quick and not self.tiny and d not in (2, 3, 5, 8, 11, 15, 16):
                continue
            for _ in range(self.n(2, 6)):
                top = rng.randrange(1, B) * B ** (d - 1)
                lo1, lo2 = rng.randrange(B ** (d - 1)), rng.randrange(B ** (d - 1))
                pairs.append((top + lo1, top + lo2))                    # equal top digits
                pairs.append((top + lo1, top + (lo1 ^ rng.randrange(1, B))))  # differ only in the lowest digit
                pairs.append((top + lo1, top + lo1 + 1))
                x = rng.getrandbits(d * w) | (1 << (d * w - 1))
                pairs.append((x, rng.getrandbits(rng.randint(1, d * w))))
                pairs.append((x, rng.randrange(1, B)))                  # multi-digit against one digit
                pairs.append((x, x >> (w // 2)))
                pairs.append((x, x - rng.randrange(1, B)))
                g = rng.getrandbits(rng.randint(1, (d * w) // 2))
                pairs.append((g * rng.getrandbits((d * w) // 2), g * rng.getrandbits((d * w) // 2)))
                pairs.append((B ** d - 1, B ** (d - 1) - 1))
                pairs.append((B ** d - 1, B ** d - B))
                pairs.append(((B // 2) * B ** (d - 1), (B // 2) * B ** (d - 1) - 1))
                q = rng.randrange(1, 1 << (w // 2 + 1))                 # quotient patterns around 2^(w/2)
                y = rng.getrandbits((d - 1) * w + w // 2) | 1
                pairs.append((q * y + rng.randrange(y), y))
        pairs += [(0, 0), (0, 5), (5, 0), (1, 1), (1, B - 1), (B, B), (B - 1, B), (B ** 2 - 1, B + 1), (2, 4), (12, 18)]
        return [(a, b) for (a, b) in pairs if a.bit_length() <= self.maxbits and b.bit_length() <= self.maxbits]

    def gcds(self):
        rng = self.rng
        pairs = self.gcd_pairs()
        for (a, b) in pairs:
            for (x, y) in ((a, b), (b, a)):
                al = rng.choice([0, 0, 1, 2])
                for op in ("bn_gcd_basic", "bn_gcd_lehme", "bn_gcd_binar"):
                    self.add(op, al, x, y)
                for op in ("bn_gcd_ext_basic", "bn_gcd_ext_lehme", "bn_gcd_ext_binar"):
                    self.add(op, 0, x, y)
                if rng.random() < 0.3:
                    self.add("bn_lcm", rng.choice([0, 1, 2]), x if x.bit_length() <= self.maxbits // 2 else x >> (x.bit_length() // 2),
                             y if y.bit_length() <= self.maxbits // 2 else y >> (y.bit_length() // 2))
            # signs (the magnitude operations must agree; cofactors are for the given operands)
            if rng.random() < self.n(0.08, 0.2) and a and b:
                sa, sb = rng.choice([(-1, 1), (1, -1), (-1, -1)])
                for op in ("bn_gcd_basic", "bn_gcd_lehme", "bn_gcd_binar", "bn_gcd_ext_basic", "bn_gcd_ext_lehme",
                           "bn_gcd_ext_binar", "bn_lcm"):
                    if op == "bn_lcm" and a.bit_length() + b.bit_length() > 2 * self.maxbits:
                        continue
                    self.add(op, 0, sa * a, sb * b)
            if rng.random() < 0.3:
                dg = rng.choice([0, 1, 2, self.B - 1, self.B // 2, rng.randrange(self.B), b % self.B])
                self.add("bn_gcd_dig", 0, a, dg)
                self.add("bn_gcd_ext_dig", 0, a, dg)
                if a and rng.random() < 0.2:
                    self.add("bn_gcd_ext_dig", 0, -a, dg)
        # lattice vectors for GLV-style decompositions: 1 < a < b coprime
        for bits in [b for b in (8, 16, 24, 32, 48, 64, 128, 256, 512) if b <= self.maxbits]:
            for _ in range(self.n(2, 6)):
                n = _rand_prime(bits, rng)
                while n % 3 != 1:
                    n = _rand_prime(bits, rng)
                self.add("bn_gcd_ext_mid", 0, _cube_root_of_unity(n), n)
                self.add("bn_gcd_ext_mid", 0, rng.randrange(2, n), n)
        if not self.tiny:
            self.add("bn_gcd_ext_mid", 0, _cube_root_of_unity(K256_N), K256_N)
            self.add("bn_gcd_ext_mid", 0, _cube_root_of_unity(BN256_N), BN256_N)
        if self.tiny:
            # exhaustive small pairs for every variant, then two- and three-digit pairs for the Lehmer loop
            lim = 64 if self.quick else 1024
            step = 1
            for a in range(0, lim, step):
                for b in range(0, lim, step):
                    if not self.quick and (a >= 256 or b >= 256) and rng.random() < 0.9:
                        continue
                    for op in ("bn_gcd_basic", "bn_gcd_lehme", "bn_gcd_binar", "bn_gcd_ext_basic", "bn_gcd_ext_lehme",
                               "bn_gcd_ext_binar"):
                        self.add(op, 0, a, b)
            for _ in range(self.n(2500, 40000)):
                d1, d2 = rng.choice([(2, 2), (3, 2), (3, 3), (4, 3), (4, 4), (2, 1), (5, 4), (8, 8), (8, 5)])
                a, b = rng.getrandbits(8 * d1), rng.getrandbits(8 * d2)
                if rng.random() < 0.3:
                    b = (a >> 8 << 8) | rng.getrandbits(8)
                self.add("bn_gcd_lehme", 0, a, b)
                self.add("bn_gcd_ext_lehme", 0, a, b)
                if rng.random() < 0.25:
                    self.add("bn_gcd_ext_binar", 0, a, b)
                    self.add("bn_gcd_ext_basic", 0, a, b)
                    self.add("bn_gcd_binar", 0, a, b)

    # ------------------------------------------------------------ symbols and square roots
    def symbols(self):
        rng = self.rng
        odd = [m for m in extreme_moduli(self.w, self.digs, rng) if m % 2 == 1]
        if not self.tiny:
            odd += [p for p in NIST_PRIMES if p.bit_length() <= self.maxbits] + \
                   [c for c in CARMICHAEL + STRONG_PSP if c % 2 == 1]
        if self.tiny:
            odd = sorted(set(odd[:4]) | set(rng.sample(odd, 8)))
        elif self.quick and len(odd) > 50:
            odd = sorted(set(odd[:10]) | set(rng.sample(odd, 40)))
        for b in odd:
            nb = b.bit_length()
            avals = {0, 1, 2, 3, 4, 5, b - 1, b, b + 1, b - 2, 2 * b, b // 2, rng.randrange(b), rng.randrange(b),
                     rng.getrandbits(nb + 10), rng.getrandbits(max(1, nb // 2)), 3 * 5 * 7, b * 3 + 2}
            if nb >= 8:
                g = rng.randrange(2, 1 << (nb // 2))
                avals.add(g * rng.randrange(1, 1 << (nb // 2)))
            for a in sorted(avals):
                self.add("bn_smb_jac", 0, a, b)
                if a and rng.random() < 0.4:
                    self.add("bn_smb_jac", 0, -a, b)
                if _is_prime(b) and b > 2:
                    self.add("bn_smb_leg", 0, a, b)
                    if a and rng.random() < 0.3:
                        self.add("bn_smb_leg", 0, -a, b)
        self.add("bn_smb_jac", 0, 3, 8)      # even / negative second argument: invalid
        self.add("bn_smb_jac", 0, 3, -7)
        self.add("bn_smb_jac", 0, 3, 0)
        self.add("bn_smb_leg", 0, 3, -7)
        if self.tiny:
            # one-digit and multi-digit second arguments (the approximation loop); kept small: see the
            # known finding on arch_tzcnt for 8/16-bit digits, which makes this family uninformative there
            for b in range(1, 256, 8 if not self.quick else 32):
                for a in rng.sample(range(0, b + 2), min(b + 2, 4)):
                    self.add("bn_smb_jac", 0, a, b)
            for _ in range(self.n(40, 400)):
                d = rng.choice([2, 2, 3, 4, 8])
                b = rng.getrandbits(8 * d) | 1
                a = rng.getrandbits(8 * rng.randint(1, d + 1))
                self.add("bn_smb_jac", 0, a, b)
        # integer square roots
        vals = {0, 1, 2, 3, 4, 5, 8, 9, 15, 16, 17, 24, 25, 26}
        for nb in sorted({7, 8, 9, 15, 16, 17, self.w - 1, self.w, self.w + 1, 2 * self.w - 1, 2 * self.w, 2 * self.w + 1,
                          self.maxbits // 2, self.maxbits - 1, self.maxbits}):
            if nb < 2 or nb > self.maxbits:
                continue
            for _ in range(self.n(3, 10)):
                r = rng.getrandbits(nb // 2) | (1 << (nb // 2 - 1)) if nb >= 4 else 1
                vals |= {r * r, r * r - 1, r * r + 1, r * r + 2 * r, r * r + 2 * r + 1, rng.getrandbits(nb)}
            vals |= {(1 << nb) - 1, 1 << (nb - 1), (1 << (nb - 1)) + 1, (1 << (nb - 1)) - 1}
        for a in sorted(v for v in vals if 0 <= v < (1 << self.maxbits)):
            self.add("bn_srt", rng.choice([0, 0, 1]), a)
        self.add("bn_srt", 0, -4)
        if self.tiny:
            for a in range(0, 1 << (12 if self.quick else 16)):
                self.add("bn_srt", 0, a)

    # ------------------------------------------------------------ primality
    def primes(self):
        rng = self.rng
        cands = set(range(0, 260 if self.quick else 1200))
        cands |= set(c for c in CARMICHAEL + STRONG_PSP)
        for bits in (8, 12, 16, 20, 31, 32, 33, 48, 63, 64, 65, 96, 127, 128, 160, 192, 250, 256, 300, 384, 500, 512):
            if 2 * bits > self.maxbits and bits > self.maxbits:
                continue
            for _ in range(self.n(1, 3)):
                if bits <= self.maxbits:
                    p = _rand_prime(bits, rng)
                    cands |= {p, p + 2, p - 2}
                if 2 * bits <= self.maxbits:
                    p = _rand_prime(bits, rng)
                    q = _next_prime(p)
                    cands |= {p * p, p * q, p * _next_prime(q)}      # squares of primes, two close primes
        if not self.tiny:
            cands |= set(p for p in NIST_PRIMES if p.bit_length() <= self.maxbits)
            cands |= {_chernick(22, rng), _chernick(40, rng), _chernick(70, rng) if not self.quick else _chernick(30, rng)}
            cands |= {SPSP_861, (2 ** 127 - 1) * (2 ** 89 - 1), (2 ** 61 - 1) ** 2, (2 ** 521 - 1) * 3, 2 ** 521 + 1}
        cands = sorted(c for c in cands if c.bit_length() <= self.maxbits)
        for a in cands:
            self.add("bn_is_prime", 0, a)
            self.add("bn_is_prime_basic", 0, a)
            self.add("bn_is_prime_rabin", 0, a)
            if a > 2 and (a.bit_length() <= 300 or rng.random() < self.n(0.2, 1.0)):
                self.add("bn_is_prime_solov", 0, a)
        if self.tiny:
            for a in range(0, 1 << (13 if self.quick else 16)):
                self.add("bn_is_prime", 0, a)
                if a % 2 == 1 and a > 2 and a < (64 if self.quick else 512):
                    self.add("bn_is_prime_solov", 0, a)
        # generators
        if self.tiny:
            gb = [8, 9, 12, 15, 16, 17, 24, 31, 32, 33, 48, 63, 64]
            sb = [8, 12, 16, 24, 32, 48]
            tb = [32, 40, 48, 56, 64]
        else:
            gb = [8, 16, 31, 32, 33, 63, 64, 65, 100, 128, 192, 256, 384, 512]
            sb = [8, 16, 32, 48, 64, 96, 128]
            tb = [96, 128, 160, 192, 256, 384, 512]     # below 2 * digit bits the generator does not terminate
        for b in gb:
            for _ in range(self.n(2, 6)):
                self.add("bn_gen_prime_basic", 0, str(b))
        for b in sb:
            for _ in range(self.n(2, 6)):
                self.add("bn_gen_prime_safep", 0, str(b))
        for b in tb:
            for _ in range(self.n(3, 10)):
                self.add("bn_gen_prime_stron", 0, str(b))
        # factoring (Pollard p-1) and divisibility
        fs = [15, 21, 35, 91, 221, 8051, 4, 6, 1000, 561, 1105]
        if not self.tiny and not self.quick:
            fs += [_rand_prime(20, rng) * _rand_prime(24, rng), 2 ** 61 - 1, (2 ** 31 - 1) * 65537]
        elif not self.tiny:
            fs += [(2 ** 31 - 1) * 65537]
        for a in fs:
            self.add("bn_factor", 0, a)
        for _ in range(self.n(60, 300)):
            c = rng.getrandbits(rng.randint(1, self.maxbits // 2)) + 1
            k = rng.getrandbits(rng.randint(1, self.maxbits // 2))
            self.add("bn_is_factor", 0, c, c * k)
            self.add("bn_is_factor", 0, c, c * k + rng.randrange(1, c + 1))
            if rng.random() < 0.2:
                self.add("bn_is_factor", 0, -c, c * k)
                self.add("bn_is_factor", 0, c, -c * k)

    # ------------------------------------------------------------ interpolation / evaluation
    def polys(self):
        rng = self.rng
        for bits in [b for b in (3, 8, 16, 31, 32, 64, 128, 256, 512, 1024) if b <= self.maxbits]:
            for _ in range(self.n(3, 10)):
                m = _rand_prime(bits, rng) if rng.random() < 0.7 else (rng.getrandbits(bits) | (1 << (bits - 1)))
                for n in (1, 2, 3, 5, 8, 11):
                    roots = [rng.randrange(m) for _ in range(n)]
                    if rng.random() < 0.3:
                        roots[rng.randrange(n)] = 0
                    if rng.random() < 0.3:
                        roots[rng.randrange(n)] = roots[0]             # repeated root
                    self.add("bn_lag", 0, str(n), m, *roots)
                    coefs = [rng.randrange(m) for _ in range(n)]
                    if rng.random() < 0.3:
                        coefs[-1] = 0
                    x = rng.choice([0, 1, m - 1, rng.randrange(m), rng.randrange(m)])
                    self.add("bn_evl", 0, str(n), x, m, *coefs)
        self.add("bn_evl", 0, "0", 5, 7)

    # ------------------------------------------------------------ recodings
    def recodings(self):
        rng = self.rng
        ks = run_scalars(self.maxbits, rng, self.n(40, 300 if self.tiny else 150))
        if self.quick and len(ks) > 90:
            ks = sorted(set(ks[:20]) | set(rng.sample(ks, 70)))
        big = 4 * self.maxbits + 64
        for k in ks:
            nb = k.bit_length()
            for w in range(2, 9):
                if rng.random() < 0.25:
                    cap_naf, cap_slw, cap_win = nb + 1, nb, -(-nb // w)      # exactly sufficient
                else:
                    cap_naf = cap_slw = cap_win = big
                s = rng.choice([1, 1, 1, -1])
                self.add("bn_rec_naf", 0, s * k, str(w), str(cap_naf))
                self.add("bn_rec_slw", 0, s * k, str(w), str(cap_slw))
                if nb >= w:
                    self.add("bn_rec_win", 0, s * k, str(w), str(cap_win))
                # regular recoding: odd scalars below 2^n; n is the declared length
                ko = k | 1
                for n in sorted({ko.bit_length(), ko.bit_length() + rng.randint(1, 9)}):
                    if n <= self.maxbits and (not self.quick or rng.random() < 0.6):
                        l = -(-n // (w - 1))
                        self.add("bn_rec_reg", 0, ko, str(n), str(w), str(rng.choice([l + 1, big])))
                if k % 2 == 0 and nb <= self.maxbits - 1:
                    self.add("bn_rec_reg", 0, k, str(nb + 1), str(w), str(big))
            l = rng.choice(ks)
            self.add("bn_rec_jsf", 0, k, l, str(big))
            self.add("bn_rec_jsf", 0, k, k, str(big))
            self.add("bn_rec_jsf", 0, k, rng.getrandbits(nb) + 1, str(2 * (nb + 1) + 2))
        # insufficient capacities must be reported, nothing may be written outside
        for k in ks[:: max(1, len(ks) // 12)]:
            nb = k.bit_length()
            self.add("bn_rec_naf", 0, k, "4", str(nb))
            self.add("bn_rec_slw", 0, k, "4", str(max(0, nb - 1)))
            if nb >= 4:
                self.add("bn_rec_win", 0, k, "4", str(-(-nb // 4) - 1))
            self.add("bn_rec_reg", 0, k | 1, str(nb), "4", str(-(-nb // 3)))
            self.add("bn_rec_jsf", 0, k, k, str(2 * nb))
        # the second scalar much longer than the first: the capacity needed is 2 * (max bits + 1)
        self.add("bn_rec_jsf", 0, 3, (1 << 40) - 1, "20")
        self.add("bn_rec_jsf", 0, 5, (1 << 15) + 1, "12")
        # scalars shorter than the window (fixed-window form), one per width in quick
        for w in (range(2, 9) if not self.quick else (2, 5, 8)):
            self.add("bn_rec_win", 0, 1, str(w), str(big))
        for op in ("bn_rec_naf", "bn_rec_slw", "bn_rec_win"):
            self.add(op, 0, 0, "4", str(big))
        self.add("bn_rec_jsf", 0, 0, 0, str(big))
        self.add("bn_rec_jsf", 0, 0, 5, str(big))
        self.add("bn_rec_jsf", 0, 5, 0, str(big))
        if self.tiny:
            hi = 1 << (11 if self.quick else 16)
            for k in range(1, hi):
                for w in range(2, 9):
                    self.add("bn_rec_naf", 0, k, str(w), "64")
                    if self.quick or k < 4096 or k % 7 == 0:
                        self.add("bn_rec_slw", 0, k, str(w), "64")
                        if k.bit_length() >= w:
                            self.add("bn_rec_win", 0, k, str(w), "64")
                    if k % 2 == 1 and (self.quick or k < 8192 or k % 5 == 0):
                        self.add("bn_rec_reg", 0, k, str(max(k.bit_length(), 1)), str(w), "64")
                        self.add("bn_rec_reg", 0, k, "16", str(w), "64")
            lim = 48 if self.quick else 256
            for k in range(0, lim):
                for l in range(0, lim):
                    self.add("bn_rec_jsf", 0, k, l, "64")
            for _ in range(self.n(1500, 30000)):
                self.add("bn_rec_jsf", 0, rng.getrandbits(rng.randint(1, 16)), rng.getrandbits(rng.randint(1, 16)), "64")

    def glv(self):
        rng = self.rng
        for (name, n) in (("SECG_K256", K256_N), ("BN_P256", BN256_N)):
            lam = _cube_root_of_unity(n)
            ks = [0, 1, 2, n - 1, n - 2, n // 2, n // 2 + 1, lam, n - lam, (1 << 128) - 1, 1 << 128, (1 << 255) % n,
                  (1 << 200) - 1]
            ks += [rng.randrange(n) for _ in range(self.n(60, 400))]
            ks += [rng.getrandbits(rng.randint(1, 255)) for _ in range(self.n(20, 100))]
            for k in ks:
                self.add("bn_rec_glv", 0, name, k % n, lam)
                if k and rng.random() < 0.15:
                    self.add("bn_rec_glv", 0, name, -(k % n), lam)


def frb_cases(g, wbits):
    """bn_rec_frb: every sign combination of scalar and parameter, sub = 1..4, digits zero / maximal (cof = 0);
    the Barreto-Naehrig lattice for parameters of both signs with n = n(x) (cof = 1)"""
    rng = g.rng
    xs = [2, -2, 3, -7, 255, -255, (1 << 16) + 1, -((1 << 16) + 1)]
    if wbits >= 64:
        xs += [0x4080000000000001, -0x4080000000000001, -0x600000000058F98A, (1 << 62) + (1 << 55) + 1, rng.getrandbits(60) | 1,
               -(rng.getrandbits(63) | (1 << 62))]
    for x in xs:
        ax = abs(x)
        for sub in (1, 2, 3, 4):
            top = ax ** sub
            ks = [0, 1, ax - 1, ax, ax + 1, top - 1, top // 2, ax ** (sub - 1), rng.randrange(top), rng.randrange(top)]
            if sub > 1:
                ks += [d0 + d1 * ax for d0 in (0, ax - 1) for d1 in (1, ax - 1)]             # a zero / maximal digit
            for k in ks:
                if k < top and k.bit_length() <= wbits * g.digs:
                    for sg in (1, -1):
                        g.add("bn_rec_frb", 0, sg * k, x, 1, str(sub), "0")
        # BN lattice
        n = 36 * x ** 4 + 36 * x ** 3 + 18 * x ** 2 + 6 * x + 1
        if n > 1 and n.bit_length() <= wbits * g.digs and ax > 2:
            for k in [0, 1, n - 1, n // 2, 6 * x * x % n, rng.randrange(n), rng.randrange(n), rng.randrange(n)]:
                g.add("bn_rec_frb", 0, k, x, n, "4", "1")
                if k:
                    g.add("bn_rec_frb", 0, -k, x, n, "4", "1")


def gen_cases(wbits, digs, rng, tier, glv=False):
    g = Gen(wbits, digs, rng, tier)
    g.reductions()
    g.powers()
    g.gcds()
    g.symbols()
    g.primes()
    g.polys()
    g.recodings()
    frb_cases(g, wbits)
    if glv:
        g.glv()
    return g.cases, dict(g.stats)
