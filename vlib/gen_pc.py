"""Case generation for the pairing groups (C12): elements inside / next to / outside the three groups,
scalars.  Pure INPUT data for harness/drv_pc.c; every judgement is made by tla/trace/PcTrace."""
from vlib import gen_ep, gen_ep2
from vlib.gen_ep import hx, BASIC, PROJC, JACOB

BUDGET = gen_ep2.Budget(None)


# --------------------------------------------------------------------------
# G1 point tokens (drv_pc.c: set_point1)
# --------------------------------------------------------------------------
def rep1(cv, sys, rng, force=None):
    kind = force or rng.choice(["a", "a", "z", "t"])
    if sys == BASIC or kind == "a":
        return ""
    letter = "p" if sys == PROJC else "j"
    if kind == "t":
        return "/" + letter.upper()
    return "/%s%x" % (letter, rng.choice([2, 3, cv.p - 1, rng.randrange(2, cv.p)]))


def g1_point(cv, m, sys, rng, force=None):
    if m % cv.n == 0:
        return "inf"
    return "m" + hx(m) + rep1(cv, sys, rng, force)


def members(cv, rng, nrand):
    n = cv.n
    return [1, -1, 2, 3, n - 1, n - 2, (n + 1) // 2] + [rng.randrange(4, n - 3) for _ in range(nrand)]


# --------------------------------------------------------------------------
# validity predicates
# --------------------------------------------------------------------------
def valid_cases(cv, rng, quick):
    c = cv.spec
    out = []
    nm = 2 if quick else 8
    seeds = [rng.randrange(2, 1 << 64) for _ in range(3 if quick else 10)]
    anysys = lambda: rng.choice([BASIC, cv.sys])      # affine or the build's projective system
    # ---- G1: members, identity, off-curve coordinates, curve points not constructed from the generator
    #      (cofactor 1: members; cofactor > 1: non-members w.h.p.), cofactor-part and small-order points,
    #      member + small-order point
    for m in members(cv, rng, nm):
        out.append("g1_is_valid %s 0 %s" % (c, g1_point(cv, m, anysys(), rng)))
    out.append("g1_is_valid %s 0 inf" % c)
    for _ in range(4 if quick else 16):
        x, y = rng.randrange(cv.p), rng.randrange(cv.p)
        if rng.random() < 0.25:
            x, y = rng.choice([(0, y), (x, 0), (0, 0), (1, 1)])
        out.append("g1_is_valid %s 0 xy%x,%x%s" % (c, x, y, rep1(cv, anysys(), rng)))
    for (x, y) in [(0, 0), (1, 0), (2, 0), (rng.randrange(cv.p), 0), (0, 1), (0, 2)]:       # degenerate coordinates, affine
        out.append("g1_is_valid %s 0 xy%x,%x" % (c, x, y))
    for sd in seeds:
        out.append("g1_is_valid %s 0 c%x%s" % (c, sd, rep1(cv, anysys(), rng)))
        out.append("g1_is_valid %s 0 r%x%s" % (c, sd + 2, rep1(cv, anysys(), rng)))
    for ell in cv.ells1:
        for sd in seeds[:2 if quick else 5]:
            out.append("g1_is_valid %s 0 o%x,%x%s" % (c, ell, sd, rep1(cv, anysys(), rng)))
            out.append("g1_is_valid %s 0 s%x,%x,%s%s" % (c, ell, sd, hx(rng.randrange(1, cv.n)), rep1(cv, anysys(), rng)))
    # ---- G2: members (generator multiples and [h2]Q), identity, off-curve, random twist points, cofactor part,
    #      small order, member + small-order point
    for m in members(cv, rng, nm):
        out.append("g2_is_valid %s 0 %s" % (c, gen_ep2.point_token(cv, m, anysys(), rng)))
    for t in ("inf", gen_ep2.inf_token(cv.sys, rng)):
        out.append("g2_is_valid %s 0 %s" % (c, t))
    out += gen_ep2.offcurve_cases(cv, rng, 4 if quick else 16, op="g2_is_valid", systems=(BASIC, cv.sys))
    for sd in seeds:
        for kind in ("c", "r", "h"):
            out.append("g2_is_valid %s 0 %s" % (c, gen_ep2.seed_token(kind, sd + 4 * (kind == "r"), cv, anysys(), rng)))
    for ell in cv.ells2[:3 if quick else 8]:
        for sd in seeds[:1 if quick else 4]:
            out.append("g2_is_valid %s 0 %s" % (c, gen_ep2.seed_token("o", sd, cv, anysys(), rng, ell=ell)))
            out.append("g2_is_valid %s 0 s%x,%x,%s%s" % (c, ell, sd, hx(rng.randrange(1, cv.n)),
                                                      gen_ep2.rep_suffix(cv, anysys(), rng)))
    # ---- GT: pairing values (members), 1, 0, arbitrary field elements, -(member), easy-part powers (cyclotomic,
    #      order not dividing r), their r-th powers, member * such an element; two events with the class verified
    for m in members(cv, rng, nm)[:5 if quick else 99]:
        out.append("gt_is_valid %s 0 g%s" % (c, hx(m % cv.n)))
    out.append("gt_is_valid %s 0 one" % c)
    if BUDGET.take(c, "gtvalid-zero"):
        out.append("gt_is_valid %s 0 zero" % c)
    for sd in seeds[:2 if quick else 8]:
        out.append("gt_is_valid %s 0 u%x" % (c, sd))
        out.append("gt_is_valid %s 0 e%x" % (c, sd))
        out.append("gt_is_valid %s 0 t%x" % (c, sd + 1))
        out.append("gt_is_valid %s 0 x%s,%x" % (c, hx(rng.randrange(1, cv.n)), sd + 2))
    out.append("gt_is_valid %s 0 n%s" % (c, hx(rng.randrange(1, cv.n))))
    full = ["g%s" % hx(rng.randrange(1, cv.n)), "e%x" % seeds[-1]] + ([] if quick else ["u%x" % seeds[0], "t%x" % seeds[1], "x5,%x" % seeds[2]])
    for t in full:
        out.append("gt_is_valid %s 1 %s" % (c, t))
    return out


# --------------------------------------------------------------------------
# multiplication / exponentiation
# --------------------------------------------------------------------------
def gt_scalars(cv, rng, quick):
    """0, +-1, 2, r-1, r, r+1, 2r, negative, digit boundary, random, longer than r"""
    n = cv.n
    S = [0, 1, -1, 2, 3, n - 1, n, n + 1, 2 * n, 2 * n + 1, -n, -(n + 1), -(n - 1), (1 << cv.dgb) - 1, 1 << cv.dgb,
         (1 << cv.dgb) + 1, -(1 << cv.dgb), 1 << (n.bit_length() - 1), (1 << n.bit_length()) - 1, 1 << n.bit_length(),
         n // 2, (n + 1) // 2, rng.randrange(1, n), rng.randrange(1, n), -rng.randrange(1, n)]
    for bits in ([300, 400] if quick else [260, 300, 384, 512, 700]):
        v = rng.getrandbits(bits) | (1 << (bits - 1))
        S += [v, -v + 1]
    return S


def mul_cases(cv, rng, quick):
    """Returns (G1 cases, G2 cases, GT cases)."""
    c = cv.spec
    n = cv.n
    g1, g2, gt = [], [], []
    corners = gen_ep2.scalar_corners(cv, rng, nrand=4 if quick else 10, nlong=3 if quick else 8)
    per = 8 if quick else 40
    ms = [m for m in members(cv, rng, 3) if m % n]

    def ks():
        return rng.sample(corners, min(per, len(corners)))

    def p1():
        return g1_point(cv, rng.choice(ms), cv.sys, rng, force=rng.choice(["a", "a", "z"]))

    def p2():
        return gen_ep2.mul_point(cv, rng, ms)
    dm = (1 << cv.dgb) - 1
    digs = [0, 1, 2, 3, dm, dm - 1, 1 << (cv.dgb - 1), dm // 3, rng.getrandbits(cv.dgb), rng.getrandbits(cv.dgb)]
    frb = gen_ep2.frb_corners(cv, rng, per=1, variants=not quick)
    # one-digit scalars of both signs (the routines have shortcuts for them), output distinct from and aliased to the input
    D = 1 << cv.dgb
    one_digit = [2, -2, 3, -3, 5, -5, D - 1, -(D - 1), (D >> 1) + 1, -((D >> 1) + 1), D, -D, D + 1, -(D + 1)]
    for g, pt, out in (("g1", p1, g1), ("g2", p2, g2)):
        for op in ("mul", "mul_sec", "mul_any"):
            for k in ks() + (frb if g == "g2" and op != "mul_any" else []):
                out.append("%s_%s %s %d %s %s" % (g, op, c, rng.choice([0, 0, 1]), pt(), hx(k)))
            for k in (one_digit if op == "mul" or not quick else rng.sample(one_digit, 4)):
                for al in ((0, 1) if op == "mul" else (rng.choice([0, 1]),)):
                    out.append("%s_%s %s %d %s %s" % (g, op, c, al, pt(), hx(k)))
            out.append("%s_%s %s 0 inf %s" % (g, op, c, hx(rng.choice(corners))))
        for k in ks():
            out.append("%s_mul_gen %s 0 %s" % (g, c, hx(k)))
        fixed = pt().split("/")[0]
        for k in ks():
            out.append("%s_mul_fix %s 0 %s %s" % (g, c, fixed, hx(k)))
        for d in digs[:6 if quick else 10]:
            out.append("%s_mul_dig %s %d %s %x" % (g, c, rng.choice([0, 1]), pt(), d))
        for _ in range(5 if quick else 30):
            k, m = rng.choice(corners), rng.choice(corners)
            out.append("%s_mul_sim %s %d %s %s %s %s" % (g, c, rng.choice([0, 0, 1, 2]), pt(), hx(k), pt(), hx(m)))
            out.append("%s_mul_sim_gen %s %d %s %s %s" % (g, c, rng.choice([0, 2]), hx(rng.choice(corners)), pt(), hx(m)))
        out.append("%s_mul_sim %s 0 %s 0 %s %s" % (g, c, pt(), pt(), hx(rng.choice(corners))))
        out.append("%s_mul_sim %s 0 %s %s inf %s" % (g, c, pt(), hx(rng.choice(corners)), hx(rng.choice(corners))))
        for cnt in (list(range(0, 4)) + [11] if quick else list(range(0, 6)) + [11, 12, 16]):
            for _ in range(1 if quick else 3):
                kk = corners if cnt < 10 or g == "g2" or not quick else [k for k in corners if abs(k) < n]
                parts = []
                for _i in range(cnt):
                    parts += [pt() if rng.random() < 0.9 else "inf", hx(rng.choice(kk))]
                out.append(("%s_mul_sim_lot %s 0 %d " % (g, c, cnt)) + " ".join(parts))
        for cnt in (1, 2, 3):
            parts = []
            for _i in range(cnt):
                parts += [pt(), "%x" % rng.choice(digs)]
            out.append(("%s_mul_sim_dig %s 0 %d " % (g, c, cnt)) + " ".join(parts))
    # ---- GT
    S = gt_scalars(cv, rng, quick)
    pg = 6 if quick else 30

    def el():
        return "g" + hx(rng.choice([1, 2, n - 1, rng.randrange(1, n), rng.randrange(1, n)]))
    for op in ("gt_exp", "gt_exp_sec"):
        for k in rng.sample(S, min(pg, len(S))) + (frb if op == "gt_exp" or not quick else frb[:4]):
            gt.append("%s %s %d %s %s" % (op, c, rng.choice([0, 0, 1]), el(), hx(k)))
        for k in (one_digit[:8] if op == "gt_exp" or not quick else one_digit[:2]):
            gt.append("%s %s %d %s %s" % (op, c, 0 if k > 0 else rng.choice([0, 1]), el(), hx(k)))
        gt.append("%s %s 0 one %s" % (op, c, hx(rng.choice(S))))
    for k in rng.sample(S, min(pg, len(S))) + frb[:(6 if quick else len(frb))]:
        gt.append("gt_exp_gen %s 0 %s" % (c, hx(k)))
    for d in digs[:5 if quick else 10]:
        gt.append("gt_exp_dig %s %d %s %x" % (c, rng.choice([0, 1]), el(), d))
    for _ in range(4 if quick else 20):
        gt.append("gt_exp_sim %s 0 %s %s %s %s" % (c, el(), hx(rng.choice(S)), el(), hx(rng.choice(S))))
    gt.append("gt_exp_sim %s 0 %s 0 %s %s" % (c, el(), el(), hx(rng.choice(S))))
    # one exponent trivial (0 or a multiple of r), the other short / sparse, even and odd (the routine falls back to a
    # single exponentiation there)
    for z in (0, n, 2 * n):
        for k in [6, 8, 2, 7, 1 << 63, (1 << 64) - 2, (1 << 100) + (1 << 7), -((1 << 70) + 8), -6][: (5 if quick and z else 9)]:
            gt.append("gt_exp_sim %s 0 %s %s %s %s" % (c, el(), hx(z), el(), hx(k)))
            if z == 0 or not quick:
                gt.append("gt_exp_sim %s 0 %s %s %s %s" % (c, el(), hx(k), el(), hx(z)))
    return g1, g2, gt
