"""Case generation for the extension-field towers (C10).

Pure input data.  The selectable primes, the tower constants (u^2, u^3, xi =
fp2_mul_nor(1), x3 = fp3_mul_nor(1)) and the operation table are learnt from the
driver (`drv_fpx --list`, `--ops`); which levels are fields for a prime is
estimated here ONLY to decide what to drive - the "tower" events make the TLA+
specification re-establish it (Tower!TLevelIsField at every level).  Every
judgement is made by tla/model/FpxSpec.tla.

Case line:  <sel> <op> <alias> <args...>
  element token = [c:|n:|k:|K:|s:]<coef>,...,<coef>   (see harness/drv_fpx.c)
"""
import random

LEVELS = [2, 3, 4, 6, 8, 9, 12, 16, 18, 24, 48, 54]
# base-field multiplications of one generic product (cost model for the budgets)
UNIT = {2: 5, 3: 11, 4: 25, 6: 55, 8: 125, 9: 121, 12: 275, 16: 625, 18: 605, 24: 1375, 48: 6875, 54: 6655}
CUBIC_BASE = (3, 9, 18, 54)
# levels with a conversion to the cyclotomic subgroup; quadratic top level
CYC_LEVELS = (2, 8, 12, 16, 18, 24, 48, 54)


def hx(v):
    if v == 0:
        return "0"
    return ("-" if v < 0 else "") + "%x" % abs(v)


# ----------------------------------------------------------------------------
# which towers are fields (input selection only)
# ----------------------------------------------------------------------------
def _polmul(a, b, d, nr, p):
    """product in Fp[x]/(x^d - nr), nr in Fp"""
    r = [0] * (2 * d - 1)
    for i, x in enumerate(a):
        if x:
            for j, y in enumerate(b):
                r[i + j] = (r[i + j] + x * y) % p
    for i in range(2 * d - 2, d - 1, -1):
        r[i - d] = (r[i - d] + r[i] * nr) % p
    return r[:d]


def _polpow(a, e, d, nr, p):
    r = [1] + [0] * (d - 1)
    for bit in bin(e)[2:]:
        r = _polmul(r, r, d, nr, p)
        if bit == "1":
            r = _polmul(r, a, d, nr, p)
    return r


def admitted_levels(p, qnr, cnr, xi, x3):
    """levels whose defining polynomials are irreducible for the constants the library uses"""
    out = []
    one2, one3 = [1, 0], [1, 0, 0]
    if qnr != 0:
        out.append(2)
        q = p * p
        nsq = _polpow(xi, (q - 1) // 2, 2, qnr % p, p) != one2
        ncu = (q - 1) % 3 == 0 and _polpow(xi, (q - 1) // 3, 2, qnr % p, p) != one2
        if nsq:
            out += [4, 8, 16]
        if ncu:
            out.append(6)
        if nsq and ncu:
            out += [12, 24, 48]
    if cnr != 0 and p % 3 == 1:
        out.append(3)
        q = p ** 3
        nsq = _polpow(x3, (q - 1) // 2, 3, cnr % p, p) != one3
        ncu = _polpow(x3, (q - 1) // 3, 3, cnr % p, p) != one3
        if ncu:
            out.append(9)
        if ncu and nsq:
            out += [18, 54]
    return sorted(out)


# ----------------------------------------------------------------------------
# elements
# ----------------------------------------------------------------------------
def tok(cs):
    return ",".join(hx(c) for c in cs)


class Gen:
    def __init__(self, sel, p, wbits, rng, ops, tw=0, ext=False):
        self.ext = ext            # field-size sweep: sparse forms of the towers above degree 12, both fp18 shapes
        self.nsp = 0
        self.sel = sel
        self.p = p
        self.wbits = wbits
        self.rng = rng
        self.ops = ops            # {lvl: {f: kind}}
        self.tw = tw              # twist type the sparse fp12 forms will see (1 = D, else M)
        self.L = []
        self.tail = []            # cases that meet a recorded finding go last
        self.k = 0

    def line(self, op, al, *args):
        self.L.append(" ".join([self.sel, op, str(al)] + [str(a) for a in args]))

    def rnd(self, n):
        return [self.rng.randrange(self.p) for _ in range(n)]

    def rtok(self, n):
        return tok(self.rnd(n))

    def corners(self, n, nrand=3):
        """0, 1, basis vectors, base-field and subfield elements, a zero in every position,
        a single non-zero coefficient in every position, p-1 everywhere, raw corner forms, random"""
        p, rng = self.p, self.rng
        E = [[0] * n, [1] + [0] * (n - 1), [p - 1] + [0] * (n - 1), [2] + [0] * (n - 1), [rng.randrange(p)] + [0] * (n - 1),
             [p - 1] * n, [1] * n]
        for i in range(1, n):
            E.append([0] * i + [1] + [0] * (n - i - 1))             # basis vectors
        for i in range(n):
            v = self.rnd(n)
            v[i] = 0
            E.append(v)                                             # zero in position i
            E.append([0] * i + [rng.randrange(1, p)] + [0] * (n - i - 1))   # only position i
        # subfield elements: the leading d coefficients for every d | n that is a level below
        for d in (2, 3, 4, 6, 8, 9, 12, 18, 24):
            if d < n and n % d == 0:
                E.append(self.rnd(d) + [0] * (n - d))
        # upper half only / lower half only (sparse line-function shapes)
        E.append([0] * (n // 2) + self.rnd(n - n // 2))
        for _ in range(nrand):
            E.append(self.rnd(n))
        toks = [tok(v) for v in E]
        # raw forms: Montgomery digits 1 and p-1 in every coefficient, one raw 1 among zeros
        toks.append(",".join(["r:1"] * n))
        toks.append(",".join(["r:" + hx(p - 1)] * n))
        toks.append(",".join(["r:1"] + ["0"] * (n - 1)))
        return toks

    def nonzero(self, n):
        v = self.rnd(n)
        if not any(v):
            v[0] = 1
        return tok(v)

    def sparse(self, n):
        """an operand of the sparse multiplication of level n (None: level has none)"""
        z = {6: [4, 5], 9: [6, 7, 8], 8: [4, 5],
             12: [2, 3, 4, 5, 10, 11] if self.tw == 1 else [4, 5, 6, 7, 10, 11],
             18: [6, 7, 8, 9, 10, 11, 15, 16, 17]}.get(n)
        if self.ext:
            # the shapes alternate (the twist type a sweep build installs is the library's choice: the
            # specification decides from the logged type / operand which shape the call was entitled to)
            self.nsp += 1
            alt = self.nsp % 2
            z = {16: [list(range(8, 12)), list(range(4, 8))][alt],
                 24: [list(range(16, 24)), list(range(8, 16))][alt],
                 48: list(range(16, 32)) + list(range(40, 48)),
                 54: list(range(18, 36)) + list(range(45, 54)),
                 18: [[6, 7, 8, 9, 10, 11, 15, 16, 17], [3, 4, 5, 6, 7, 8, 15, 16, 17]][alt]}.get(n, z)
        if z is None:
            return None
        v = self.rnd(n)
        for i in z:
            v[i] = 0
        return v


def exps_small():
    return [0, 1, 2, 3, -1, -2, 5, 0x10001, -0x10001]


def frobenius_ok(p, n):
    """False where the library's Frobenius of level n is a recorded finding (C10-frb-p-2-mod-3, C10-fp54-frb):
    there fpN_frb itself is still driven (and keyed), but not the operations that are built on it
    (conversion to / test of the cyclotomic subgroup and everything fed by them, squares and roots)"""
    return not (n == 54 or (p % 3 == 2 and n in (4, 6, 8, 12, 16, 24, 48)))


def gen_level(G, n, tier, scale=1.0, heavy=True):
    """all case lines of one level of one tower.  scale: fraction of the nominal counts;
    heavy: include the exponentiation-bound checks (exp, full Frobenius, roots)"""
    rng, p = G.rng, G.p
    ops = G.ops.get(n, {})
    quick = tier == "quick"
    unit = UNIT[n]

    def cnt(x, lo=1):
        return max(lo, int(round(x * scale)))

    FRB_BOUND = ("conv_cyc", "test_cyc", "inv_cyc", "sqr_cyc", "sqr_cyc_basic", "sqr_cyc_lazyr", "sqr_pck", "sqr_pck_basic",
                 "sqr_pck_lazyr", "back_cyc", "back_cyc_sim", "exp_cyc", "exp_cyc_sim", "exp_cyc_sps", "srt", "is_sqr")
    frb_ok = frobenius_ok(p, n)

    def has(f):
        return f in ops and (frb_ok or f not in FRB_BOUND)

    def op(f):
        return "fp%d_%s" % (n, f)

    C = G.corners(n, nrand=3 if quick else 8)
    full_C = C
    if quick and unit > 300:
        # the high levels see a thinner corner set in the quick tier (thorough: all of it)
        C = C[:10] + rng.sample(C[10:-4], 10) + C[-4:]
    # cheap ops see every corner; product-bound ops a sample whose size follows the level cost
    nprod = cnt(min(len(C) * 3, (60000 if quick else 250000) // unit), 10)

    def sample_pairs(m):
        prs = [(C[0], C[0]), (C[0], C[-4]), (C[1], C[-4]), (C[-4], C[1]), (C[5], C[5]), (C[-4], C[-4])]
        while len(prs) < m:
            prs.append((rng.choice(C), rng.choice(C)))
        return prs[:max(m, 6)]

    k = 0
    # ---------------------------------------------------------------- binary
    for f in ("add", "add_basic", "add_integ", "sub", "sub_basic", "sub_integ"):
        if has(f):
            for (a, b) in sample_pairs(cnt(len(C) if f in ("add", "sub") else len(C) // 3, 8)):
                G.line(op(f), k % 5, a, b)
                k += 1
    for f in ("mul", "mul_basic", "mul_integ", "mul_lazyr"):
        if has(f):
            for (a, b) in sample_pairs(nprod if f == "mul" else max(8, nprod // 3)):
                G.line(op(f), k % 5, a, b)
                k += 1
    if has("mul_unr"):
        for (a, b) in sample_pairs(max(8, nprod // 3)):
            G.line(op("mul_unr"), 3 if a == b and k % 2 else 0, a, b)
            k += 1
    for f in ("mul_dxs", "mul_dxs_basic", "mul_dxs_lazyr"):
        if has(f) and G.sparse(n) is not None:
            m = max(8, nprod // 3)
            for j in range(m):
                b = G.sparse(n)
                if j % 5 == 4:                       # sparser still: one more coefficient zero
                    b[rng.randrange(n)] = 0
                if j == 0:
                    b = [0] * n
                if j == 1:
                    b = [1] + [0] * (n - 1)
                a = C[j % len(C)] if j % 2 else G.rtok(n)
                G.line(op(f), (0, 1, 0, 2)[j % 4], a, tok(b))
    # ---------------------------------------------------------------- unary
    for f in ("neg", "dbl", "dbl_basic", "dbl_integ", "copy", "mul_art", "mul_nor", "mul_nor_basic", "mul_nor_integ"):
        if has(f):
            for a in C:
                G.line(op(f), k % 2, a)
                k += 1
    for f in ("sqr", "sqr_basic", "sqr_integ", "sqr_lazyr", "sqr_unr"):
        if has(f):
            cs = C if unit <= 300 else C[:8] + rng.sample(C, min(len(C), max(8, nprod // 2)))
            for a in cs:
                G.line(op(f), k % 2, a)
                k += 1
    if has("inv"):
        cs = C if unit <= 300 else C[:8] + rng.sample(C, min(len(C), max(8, nprod // 2)))
        for a in cs:
            G.line(op("inv"), k % 2, a)
            k += 1
    if has("inv_sim"):
        for j in range(cnt(8, 4)):
            m = 1 + j % 4
            xs = [G.nonzero(n) if rng.random() < 0.7 else rng.choice(C[1:]) for _ in range(m)]
            xs = [x for x in xs]
            if j % 4 == 3:
                xs[rng.randrange(m)] = C[0]
            G.line(op("inv_sim"), j % 2, m, *xs)
    # ---------------------------------------------------------------- small constants
    m = (1 << G.wbits) - 1
    digs = [0, 1, 2, 3, 1 << (G.wbits - 1), m, rng.getrandbits(G.wbits), rng.getrandbits(G.wbits // 2)]
    for f in ("mul_dig", "add_dig", "sub_dig"):
        if has(f):
            for a in (C[0], C[1], C[5], C[-4], C[-5]):
                for d in digs:
                    G.line(op(f), k % 2, a, hx(d))
                    k += 1
    for d in digs:
        if has("set_dig"):
            G.line(op("set_dig"), 0, hx(d))
        if has("cmp_dig"):
            G.line(op("cmp_dig"), 0, tok([d % p] + [0] * (n - 1)), hx(d))
            v = [d % p] + [0] * (n - 1)
            v[rng.randrange(1, n)] = 1
            G.line(op("cmp_dig"), 0, tok(v), hx(d))
            G.line(op("cmp_dig"), 0, rng.choice(C), hx(d))
    # ---------------------------------------------------------------- comparison / predicates
    if has("cmp"):
        for i in range(n):
            v = G.rnd(n)
            w = list(v)
            w[i] = (w[i] + 1) % p
            G.line(op("cmp"), 0, tok(v), tok(w))
            G.line(op("cmp"), 0, tok(v), tok(v))
        G.line(op("cmp"), 3, C[-4], C[-4])
        G.line(op("cmp"), 0, C[0], C[0])
        G.line(op("cmp"), 0, C[0], C[1])
    if has("is_zero"):
        for a in C[:8] + C[-3:]:
            G.line(op("is_zero"), 0, a)
        for i in range(n):
            G.line(op("is_zero"), 0, tok([0] * i + [1] + [0] * (n - i - 1)))
    for f in ("zero", "rand"):
        if has(f):
            G.line(op(f), 0)
            G.line(op(f), 0)
    # ---------------------------------------------------------------- Frobenius
    if has("frb"):
        xs = [G.rtok(n), rng.choice(C[7:])]
        pows = list(range(0, n + 2)) + [2 * n, 2 * n + 1]
        if quick and unit > 300:
            pows = sorted(set([0, 1, 2, 3, n // 2, n // 2 + 1, n - 1, n, n + 1]))
        for j in pows:
            for a in xs[:(2 if unit <= 700 else 1)]:
                G.line(op("frb"), k % 2, a, j, 0)
                k += 1
        # additive, multiplicative, fixes the base field: covered by the semilinear oracle; the
        # p-th power itself (balanced square-and-multiply) on a few, Tower!TFrb verbatim on fewer
        if heavy:
            for j in ((1, 2) if unit <= 300 else (1,)):
                G.line(op("frb"), 0, G.rtok(n), j, 1)
            if unit <= 60 or (not quick and unit <= 300):
                G.line(op("frb"), 0, G.rtok(n), 1, 2)
        for a in (C[0], C[1], C[4]):
            G.line(op("frb"), 0, a, 1, 0)
    if has("mul_frb") and n == 2:
        for a in (G.rtok(2), C[1]):
            for j in range(1, 6):
                G.line(op("mul_frb"), k % 2, a, 1, j)
                k += 1
            for j in range(1, 5):
                G.line(op("mul_frb"), k % 2, a, 2, j)
                k += 1
    # ---------------------------------------------------------------- cyclotomic subgroup
    cyc = (lambda: "c:" + G.nonzero(n)) if has("conv_cyc") else ((lambda: "n:" + G.nonzero(n)) if n == 4 else None)
    ncyc = cnt(6 if unit <= 700 else 3, 2)
    if has("conv_cyc"):
        for a in [C[1], C[0], C[2]] + [G.rtok(n) for _ in range(ncyc)] + rng.sample(C[7:], 3):
            G.line(op("conv_cyc"), k % 2, a)
            k += 1
    if has("test_cyc"):
        for a in [C[0], C[1], C[2], G.rtok(n), rng.choice(C[7:])] + [cyc() for _ in range(ncyc)] + \
                (["n:" + G.nonzero(n)] if n in (12, 18, 48) else []):
            G.line(op("test_cyc"), 0, a)
    if has("inv_cyc") and cyc:
        for a in [C[1], C[2], G.rtok(n)] + [cyc() for _ in range(ncyc)]:
            G.line(op("inv_cyc"), k % 2, a)
            k += 1
    for f in ("sqr_cyc", "sqr_cyc_basic", "sqr_cyc_lazyr"):
        if has(f):
            for a in [C[1], C[2], G.rtok(n)] + [cyc() for _ in range(ncyc)]:
                G.line(op(f), k % 2, a)
                k += 1
    if n in (12, 18):
        for f in ("sqr_pck", "sqr_pck_basic", "sqr_pck_lazyr"):
            if has(f):
                for a in [C[1]] + [cyc() for _ in range(ncyc)]:
                    G.line(op(f), k % 2, a)
                    k += 1
        if has("back_cyc"):
            for a in [C[1]] + ["k:" + G.nonzero(n) for _ in range(ncyc)] + ["K:" + G.nonzero(n) for _ in range(2)]:
                G.line(op("back_cyc"), k % 2, a)
                k += 1
        if has("back_cyc_sim"):
            for j in range(cnt(4, 2)):
                m = 1 + j % 4
                xs = [("k:" if rng.random() < 0.7 else "K:") + G.nonzero(n) for _ in range(m)]
                if j == 1:
                    xs[0] = C[1]
                G.line(op("back_cyc_sim"), j % 2, m, *xs)
    # ---------------------------------------------------------------- exponentiation
    fb = p.bit_length()
    big = [p, -p, rng.getrandbits(fb), p - 1, rng.getrandbits(fb + 1) | (1 << fb)]
    mid = [rng.getrandbits(64) | (1 << 63), -rng.getrandbits(62)]
    if has("exp") and heavy:
        bases = [G.rtok(n), C[1], C[0], rng.choice(C[7:])] + ([cyc()] if cyc and n != 4 else [])
        for a in bases:
            for x in exps_small():
                G.line(op("exp"), k % 2, a, hx(x))
                k += 1
        # wide exponents: cost 1.5 * bits products each
        nb = cnt((3 if unit <= 60 else (2 if unit <= 300 else 1)) * (1 if quick else 2), 1)
        for x in (mid[:1] + big)[:nb + 1]:
            G.line(op("exp"), 0, bases[0] if x != -p else G.nonzero(n), hx(x))
        if cyc and n != 4:
            G.line(op("exp"), 0, cyc(), hx(mid[0]))
    if has("exp_dig") and heavy:
        for a in [G.rtok(n)] + ([cyc()] if cyc else []):
            for d in [0, 1, 2, 3, 5, 0xffff] + ([m, rng.getrandbits(G.wbits)] if unit <= 60 or not quick else []):
                G.line(op("exp_dig"), k % 2, a, hx(d))
                k += 1
    if has("exp_cyc") and heavy:
        for x in exps_small()[:7] + mid + big[:cnt((2 if unit <= 300 else 1) * (1 if quick else 2), 1)]:
            G.line(op("exp_cyc"), k % 2, cyc(), hx(x))
            k += 1
        G.line(op("exp_cyc"), 0, C[1], hx(mid[0]))
    if has("exp_cyc_sim") and heavy:
        # the dodecic variant is written for elements of order dividing r when a pairing curve is set
        gt = (lambda: "g:" + G.nonzero(n)) if (n == 12 and G.sel.startswith("E")) else cyc
        G.line(op("exp_cyc_sim"), 0, gt(), hx(mid[0]), gt(), hx(rng.getrandbits(60)))
        G.line(op("exp_cyc_sim"), 1, gt(), hx(3), gt(), hx(0))
        G.line(op("exp_cyc_sim"), 0, gt(), hx(0), gt(), hx(5))
        G.line(op("exp_cyc_sim"), 0, gt(), hx(-7), gt(), hx(-5))
        G.tail.append(G.sel + " " + " ".join([op("exp_cyc_sim"), "0", gt(), hx(7), gt(), hx(-5)]))
        G.tail.append(G.sel + " " + " ".join([op("exp_cyc_sim"), "0", gt(), hx(-mid[0]), gt(), hx(11)]))
        if unit <= 300 and not quick:
            G.line(op("exp_cyc_sim"), 0, gt(), hx(rng.getrandbits(fb)), gt(), hx(rng.getrandbits(fb - 3)))
        if gt is not cyc:
            # cyclotomic, but not of order r (meets a recorded finding: last)
            G.tail.append(G.sel + " " + " ".join([op("exp_cyc_sim"), "0", cyc(), hx(5), cyc(), hx(9)]))
    if has("exp_cyc_sps") and heavy and n in (12, 18):
        forms = [[0], [1], [5], [0, 3], [2, -5, 10], [0, -4, 9, 20], [3, 7, -11, 40, 62], [0, 1, 2, 3],
                 [0, -1, 5, -62, 63]]
        for j, sp in enumerate(forms):
            G.line(op("exp_cyc_sps"), j % 2, cyc(), j % 3 == 2 and 1 or 0, len(sp), *sp)
        G.line(op("exp_cyc_sps"), 0, C[1], 0, 3, 0, 3, 9)
    # ---------------------------------------------------------------- squares and roots
    if has("srt") and heavy:
        nsq = cnt({2: 12, 3: 6, 4: 3, 8: 1, 16: 1}.get(n, 1) * (1 if quick else 2), 1)
        ins = [C[0], C[1], C[2], C[3]] + ["s:" + G.nonzero(n) for _ in range(nsq)] + [G.rtok(n) for _ in range(nsq)]
        if unit <= 60:
            ins += C[7:] if not quick else rng.sample(C[7:], 8)
        for a in ins:
            G.line(op("srt"), k % 2, a)
            k += 1
            if has("is_sqr") and (unit <= 60 or a.startswith("s:") or rng.random() < 0.3):
                G.line(op("is_sqr"), 0, a)
    return G.L


def tower_lines(sel, levels):
    """one 'tower' event per level, so that the field tests spread over the shards"""
    return ["%s tower %d" % (sel, n) for n in levels]


def spread(lines, specials):
    """distribute the expensive lines evenly through the case list"""
    if not specials:
        return lines
    out, step = [], max(1, len(lines) // (len(specials) + 1))
    j = 0
    for i, ln in enumerate(lines):
        out.append(ln)
        if (i + 1) % step == 0 and j < len(specials):
            out.append(specials[j])
            j += 1
    out += specials[j:]
    return out


def parse_ops(text):
    ops = {}
    for ln in text.splitlines():
        f = ln.split()
        if len(f) == 3 and f[0].isdigit():
            ops.setdefault(int(f[0]), {})[f[1]] = f[2]
    return ops


def parse_list(text):
    """[(id, p, qnr, cnr, xi, x3)]"""
    res = []
    for ln in text.splitlines():
        f = ln.split()
        if len(f) == 9 and f[0].isdigit():
            res.append((int(f[0]), int(f[1], 16), int(f[2]), int(f[3]), [int(f[4], 16), int(f[5], 16)],
                        [int(x, 16) for x in f[6:9]]))
    return res


def parse_any(text):
    """the 'A' line of --list: (ok, fp id, embedding degree, ep2 twist type, ep3 twist type) of ep_param_set_any_pairf"""
    for ln in text.splitlines():
        f = ln.split()
        if len(f) == 6 and f[0] == "A":
            return tuple(int(x) for x in f[1:])
    return (0, 0, 0, 0, 0)
