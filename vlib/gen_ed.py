"""Case generation for twisted Edwards curves (C17): points (prime-order subgroup, the 8-torsion and
their sums), representations, scalars, encodings, tiny curves.  Pure INPUT data for harness/drv_ed.c;
every judgement is made by the TLA+ trace specification (tla/trace/EdTrace), never here.  The little
number theory below (affine Edwards arithmetic on Python integers, square roots, point counting over
F_p for p < 256) only serves to CONSTRUCT inputs; if it were wrong the spec would reject the resulting
events (operands off the curve, witness of the wrong order), not accept wrong ones."""
import math
import random

BASIC, PROJC, EXTND = 1, 2, 3

NEG = {BASIC: ["ed_neg", "ed_neg_basic", "ed_neg_projc"], PROJC: ["ed_neg", "ed_neg_basic", "ed_neg_projc"],
       EXTND: ["ed_neg", "ed_neg_basic", "ed_neg_projc"]}
DBL = ["ed_dbl", "ed_dbl_basic", "ed_dbl_projc", "ed_dbl_extnd"]
ADD = ["ed_add", "ed_add_basic", "ed_add_projc", "ed_add_extnd"]
SUB = ["ed_sub", "ed_sub_basic", "ed_sub_projc"]          # + ed_sub_extnd in EXTND builds (it relies on ed_neg_projc keeping T)
MUL_VAR = ["ed_mul", "ed_mul_basic", "ed_mul_slide", "ed_mul_monty", "ed_mul_lwnaf", "ed_mul_lwreg"]
MUL_FIX = ["ed_mul_fix", "ed_mul_fix_basic", "ed_mul_fix_combs", "ed_mul_fix_combd", "ed_mul_fix_lwnaf"]
MUL_SIM = ["ed_mul_sim", "ed_mul_sim_basic", "ed_mul_sim_trick", "ed_mul_sim_inter", "ed_mul_sim_joint"]


def hx(v):
    if v == 0:
        return "0"
    return ("-" if v < 0 else "") + "%x" % abs(v)


def cap(cv, op):
    """bits of |k| a multiplication routine can process (input classification only; EdSpec has its own definition):
    no routine reduces k modulo n; w-NAF / window recodings use buffers of RLC_FP_BITS + 1 entries, ed_mul_fix_basic a
    table of bits(n) entries, the combs RLC_DEPTH * ceil(bits(n) / RLC_DEPTH) bit positions; binary NAF, ladder,
    single digit and sim_lot are unlimited"""
    if op in ("ed_mul_basic", "ed_mul_monty", "ed_mul_dig", "ed_mul_sim_lot"):
        return 1 << 30
    if op == "ed_mul_fix_basic":
        return cv.n.bit_length()
    comb = cv.dep * -(-cv.n.bit_length() // cv.dep)
    if op in ("ed_mul_fix_combs", "ed_mul_fix_combd", "ed_mul_fix", "ed_mul_gen"):
        return comb
    if op == "ed_mul_sim_gen":
        return min(comb, cv.fpb)
    return cv.fpb


def op_sys(op, add):
    if op.endswith("_basic") and not op.startswith("ed_mul"):
        return BASIC
    if op.endswith("_projc"):
        return EXTND if (op == "ed_neg_projc" and add == EXTND) else PROJC
    if op.endswith("_extnd"):
        return EXTND
    return add


# --------------------------------------------------------------------------
# arithmetic for input construction
# --------------------------------------------------------------------------
def sqrt_mod(a, p):
    """a square root of a mod p (Tonelli-Shanks), None if a is not a square"""
    a %= p
    if a == 0:
        return 0
    if pow(a, (p - 1) // 2, p) != 1:
        return None
    if p % 4 == 3:
        return pow(a, (p + 1) // 4, p)
    q, s = p - 1, 0
    while q % 2 == 0:
        q //= 2
        s += 1
    z = 2
    while pow(z, (p - 1) // 2, p) != p - 1:
        z += 1
    m, c, t, r = s, pow(z, q, p), pow(a, q, p), pow(a, (q + 1) // 2, p)
    while t != 1:
        i, t2 = 0, t
        while t2 != 1:
            t2 = t2 * t2 % p
            i += 1
        b = pow(c, 1 << (m - i - 1), p)
        m, c, t, r = i, b * b % p, t * b * b % p, r * b % p
    return r


def _is_prime(n):
    if n < 2:
        return False
    for d in range(2, int(math.isqrt(n)) + 1):
        if n % d == 0:
            return False
    return True


class EdCurve:
    def __init__(self, spec, p, a, d, g, n, h, add, fpb, bnbits, wd, dep, dgb, name=""):
        self.spec, self.p, self.a, self.d, self.g, self.n, self.h = spec, p, a % p, d % p, g, n, h
        self.add, self.fpb, self.bnbits, self.wd, self.dep, self.dgb = add, fpb, bnbits, wd, dep, dgb
        self.name = name or spec
        self.tors = None        # [(point, order)] of the h-torsion subgroup (incl. the neutral element)
        self.points = None      # tiny worlds: every point of the curve

    # affine unified law on Python integers
    def addp(self, P, Q):
        p = self.p
        t = self.d * P[0] * Q[0] * P[1] * Q[1] % p
        return ((P[0] * Q[1] + P[1] * Q[0]) * pow(1 + t, -1, p) % p,
                (P[1] * Q[1] - self.a * P[0] * Q[0]) * pow(1 - t, -1, p) % p)

    def neg(self, P):
        return ((-P[0]) % self.p, P[1])

    def mul(self, k, P):
        if k < 0:
            return self.neg(self.mul(-k, P))
        R = (0, 1)
        for bit in bin(k)[2:]:
            R = self.addp(R, R)
            if bit == "1":
                R = self.addp(R, P)
        return R

    def on(self, P):
        x, y, p = P[0], P[1], self.p
        return (self.a * x * x + y * y - 1 - self.d * x * x * y * y) % p == 0

    def x_of(self, y):
        """a root x of the curve equation for the given y, or None"""
        p = self.p
        den = (self.d * y * y - self.a) % p
        if den == 0:
            return None
        return sqrt_mod((y * y - 1) * pow(den, -1, p), p)

    def order_of(self, P):
        Q, o = P, 1
        while Q != (0, 1):
            Q = self.addp(Q, P)
            o += 1
            if o > 64:
                return None
        return o

    def find_torsion(self, rng):
        """the h-torsion subgroup (cyclic of order h for the curves used here) as [(point, order)]"""
        for _ in range(2000):
            y = rng.randrange(2, self.p)
            x = self.x_of(y)
            if x is None:
                continue
            T = self.mul(self.n, (x, y))
            if self.order_of(T) == self.h:
                pts = [self.mul(i, T) for i in range(self.h)]
                self.tors = [(P, self.order_of(P)) for P in pts]
                return self.tors
        raise RuntimeError("no point of order h found")

    def random_point(self, rng):
        """a uniformly chosen curve point (any coset of the prime-order subgroup)"""
        while True:
            y = rng.randrange(self.p)
            x = self.x_of(y)
            if x is not None:
                return ((-x) % self.p, y) if rng.random() < 0.5 else (x, y)


ED25519_P = 2 ** 255 - 19
ED25519 = dict(p=ED25519_P, a=ED25519_P - 1,
               d=(-121665 * pow(121666, -1, ED25519_P)) % ED25519_P,
               g=(0x216936D3CD6E53FEC0A4E231FDD6DC5C692CC7609525A7B2C9562D608F25D51A,
                  0x6666666666666666666666666666666666666666666666666666666666666658),
               n=2 ** 252 + 27742317777372353535851937790883648493, h=8)


def val(le):
    return sum(b << (8 * i) for i, b in enumerate(le))


def curve_from_probe(e):
    """the curve behind a curve_probe event of drv_ed (only edwards25519 exists: its constants are input data here)"""
    c = ED25519
    if val(e["p"]) != c["p"] or val(e["n"]["d"]) != c["n"]:
        raise ValueError("unknown Edwards curve selected by %s" % e["curve"])
    return EdCurve(e["curve"], c["p"], c["a"], c["d"], c["g"], c["n"], c["h"], e["add"], e["fpb"], e["bnbits"],
                   e["wd"], e["dep"], e["dgb"])


# --------------------------------------------------------------------------
# tiny worlds: complete twisted Edwards curves over 8-bit primes, order h*n, n prime
# --------------------------------------------------------------------------
def tiny_world(p, a, d, add, want_h=8, fpb=8, bnbits=32, wd=5, dep=4, dgb=8):
    a %= p
    d %= p
    if a == 0 or d == 0 or a == d:
        return None
    if pow(a, (p - 1) // 2, p) != 1 or pow(d, (p - 1) // 2, p) != p - 1:
        return None                       # complete curves only (a square, d non-square)
    sq = {}
    for x in range(p):
        sq.setdefault(x * x % p, []).append(x)
    pts = []
    for y in range(p):
        den = (d * y * y - a) % p
        for x in sq.get((y * y - 1) * pow(den, -1, p) % p, []):
            pts.append((x, y))
    order = len(pts)
    if order % want_h or order >= (1 << fpb):
        return None
    n = order // want_h
    if not _is_prime(n) or n <= want_h:
        return None
    # no fixed-base comb table entry sum_{j in S} 2^(l*j) G may be the neutral element (impossible for cryptographic
    # orders; ed_mul_pre_combs / _combd cannot normalise it, see C17-normsim-neutral)
    l = -(-n.bit_length() // dep)
    e2 = -(-l // 2)
    for S in range(1, 1 << dep):
        c = sum(1 << (l * j) for j in range(dep) if (S >> j) & 1)
        if c % n == 0 or (c << e2) % n == 0:
            return None
    cv = EdCurve("", p, a, d, None, n, want_h, add, fpb, bnbits, wd, dep, dgb)
    g = None
    for P in pts:
        Q = cv.mul(want_h, P)
        if Q != (0, 1):
            g = Q
            break
    if g is None:
        return None
    cv.g = g
    # the torsion subgroup must be cyclic of order h (a point of order h exists)
    T = None
    for P in pts:
        R = cv.mul(n, P)
        if cv.order_of(R) == want_h:
            T = R
            break
    if T is None:
        return None
    cv.tors = [(cv.mul(i, T), cv.order_of(cv.mul(i, T))) for i in range(want_h)]
    cv.points = pts
    cv.spec = "t:" + ":".join("%x" % v for v in (p, a, d, g[0], g[1], n, want_h))
    cv.name = "%d*x^2+y^2=1+%d*x^2*y^2/F_%d(#=%d*%d)" % (a if a != p - 1 else -1, d, p, want_h, n)
    return cv


def tiny_worlds(add, count=3, **kw):
    """a = -1 over p = 1 mod 4 (the shape of edwards25519, cofactor 8), a general square a, and a cofactor-4 curve"""
    out = []
    for p in (241, 229, 197, 233, 193, 181):                # p = 1 mod 4: -1 is a square
        for d in range(2, p):
            w = tiny_world(p, p - 1, d, add, want_h=8, **kw)
            if w:
                out.append(w)
                break
        if len(out) >= count - 1:
            break
    for p in (251, 239, 227):                                 # p = 3 mod 4: a general square a, cofactor 4
        done = False
        for a in range(2, 12):
            for d in range(2, p):
                w = tiny_world(p, a, d, add, want_h=4, **kw)
                if w:
                    out.append(w)
                    done = True
                    break
            if done:
                break
        if done:
            break
    return out


# --------------------------------------------------------------------------
# scalars
# --------------------------------------------------------------------------
def scalar_corners(cv, rng, nrand=6, nlong=4, maxbits=None):
    """corner set relative to the subgroup order n (as for C03)"""
    n, b = cv.n, cv.n.bit_length()
    top = maxbits or cv.bnbits
    S = {0, 1, -1, 2, -2, 3, -3, n - 2, n - 1, n, n + 1, 2 * n - 1, 2 * n, 2 * n + 1, -n, -(n - 1),
         -(n + 1), -2 * n, 3 * n, -(2 * n + 1), 8 * n, 8 * n + 1}
    js = {1, 2, 3, 4, 5, 7, 8, 9, cv.dgb - 1, cv.dgb, cv.dgb + 1, 2 * cv.dgb - 1, 2 * cv.dgb, 2 * cv.dgb + 1,
          b // 2, b - 2, b - 1, b, b + 1, cv.fpb - 1, cv.fpb, cv.fpb + 1, cv.fpb + 2}
    for j in js:
        if 0 < j < top:
            for dl in (-1, 0, 1):
                v = (1 << j) + dl
                if v.bit_length() <= top:
                    S.add(v)
            S.add(-((1 << j) + 1))
    ones = (1 << b) - 1
    S |= {ones, ones // 3, ones // 3 * 2, ones // 3 % n, (ones // 3 * 2) % n}
    S |= {(1 << (b - 1)) + 1, (1 << b) - (1 << (b // 2)), ((1 << (b // 2)) - 1) << (b // 4),
          (1 << (b - 1)) | ((1 << (b // 3)) - 1), n - (1 << (b // 2)), n ^ ((1 << (b // 2)) - 1)}
    r = math.isqrt(n)
    S |= {r, r + 1, n // 2, n // 2 + 1, n // 3}
    for _ in range(nrand):
        S.add(rng.randrange(1, n))
        S.add(-rng.randrange(1, n))
    for _ in range(nlong):
        bits = rng.randint(b + 1, top)
        v = rng.getrandbits(bits) | (1 << (bits - 1))
        S.add(v if rng.random() < 0.7 else -v)
    return sorted(v for v in S if abs(v).bit_length() <= top)


# --------------------------------------------------------------------------
# points and representations
# --------------------------------------------------------------------------
def zs(cv, rng):
    p = cv.p
    return rng.choice([2, 3, p - 1, p - 2, rng.randrange(2, p), rng.randrange(2, p)])


def rep(cv, sys, rng, force=None):
    """representation suffix valid for an operation of system sys"""
    if force == "a":
        return ""
    if sys == BASIC:
        return rng.choice(["", "", "/P", "/E"])
    c = force or rng.choice("aaPEppee")
    if c == "a":
        return ""
    if c in "PE":
        return "/" + c
    return "/%s%x" % (c, zs(cv, rng))


def tok(cv, P, sys, rng, force=None):
    if P is None:
        return "inf"
    if P == (0, 1) and rng.random() < 0.4 and force is None:
        return "inf"
    return "%x,%x%s" % (P[0], P[1], rep(cv, sys, rng, force))


def alias2(rng):
    return rng.choice([0, 0, 0, 1, 2])


def point_pool(cv, rng, nrand=2):
    """curve points of every kind: neutral, subgroup (G, small multiples, -G = (n-1)G, halves, random), the
    torsion points, sums of torsion and subgroup points, uniformly random curve points"""
    n = cv.n
    ms = [0, 1, 2, 3, n - 1, n - 2, (n + 1) // 2, (n - 1) // 2] + [rng.randrange(4, n) for _ in range(nrand)]
    sub = [cv.mul(m, cv.g) for m in ms]
    tors = [P for (P, o) in cv.tors if o > 1]
    mixed = [cv.addp(rng.choice(sub[1:]), T) for T in tors]
    rnd = [cv.random_point(rng) for _ in range(nrand)]
    return sub, tors, mixed, rnd


def pair_set(cv, rng, pool, quick):
    """ordered pairs: everything with the neutral element, equal and opposite operands, the torsion points among
    themselves and with subgroup points, a sample of the rest"""
    sub, tors, mixed, rnd = pool
    allp = sub + tors + mixed + rnd
    pairs = []
    for P in allp:
        pairs += [(P, P), (P, cv.neg(P)), (P, (0, 1)), ((0, 1), P)]
    pairs += [(S, T) for S in tors for T in tors]
    for T in tors:
        pairs += [(T, rng.choice(sub[1:])), (rng.choice(sub[1:]), T), (T, rng.choice(mixed)), (rng.choice(rnd), T)]
    rest = [(P, Q) for P in allp for Q in allp]
    pairs += rng.sample(rest, min(len(rest), 40 if quick else 400))
    return pairs


def group_cases(cv, rng, pairs, per_pair=1, ops=None):
    """add / sub in every exported variant"""
    out = []
    ops = ops or (ADD + SUB + (["ed_sub_extnd"] if cv.add == EXTND else []))
    for (P, Q) in pairs:
        for op in (ops if per_pair is None else rng.sample(ops, min(per_pair, len(ops)))):
            s = op_sys(op, cv.add)
            al = alias2(rng)
            if P == Q and rng.random() < 0.5:
                al = rng.choice([3, 4])
                out.append("%s %s %d %s %s" % (op, cv.spec, al, tok(cv, P, s, rng), "inf"))
                continue
            out.append("%s %s %d %s %s" % (op, cv.spec, al, tok(cv, P, s, rng), tok(cv, Q, s, rng)))
    return out


def unary_cases(cv, rng, pts, per_point=2):
    out = []
    ops = NEG[cv.add] + DBL + ["ed_norm", "ed_copy", "ed_blind"]
    for P in pts:
        for op in rng.sample(ops, min(per_point, len(ops))):
            s = op_sys(op, cv.add)
            if op == "ed_norm":
                s = PROJC
            if op == "ed_blind" and cv.p < 1000:
                continue                                  # random blinding factor is 0 with probability 1/p
            out.append("%s %s %d %s" % (op, cv.spec, rng.choice([0, 1]), tok(cv, P, s, rng)))
    return out


def query_cases(cv, rng, pairs, pts, noff):
    out = []
    p = cv.p
    for (P, Q) in pairs:
        out.append("ed_cmp %s 0 %s %s" % (cv.spec, tok(cv, P, PROJC, rng), tok(cv, Q, PROJC, rng)))
        if rng.random() < 0.5:                            # the same point in two representations
            out.append("ed_cmp %s 0 %s %s" % (cv.spec, tok(cv, P, PROJC, rng), tok(cv, P, PROJC, rng)))
    for P in pts:
        out.append("ed_is_infty %s 0 %s" % (cv.spec, tok(cv, P, PROJC, rng)))
        out.append("ed_on_curve %s 0 %s" % (cv.spec, tok(cv, P, PROJC, rng)))
    out.append("ed_is_infty %s 0 inf" % cv.spec)
    out.append("ed_is_infty %s 0 0,1/p%x" % (cv.spec, zs(cv, rng)))
    out.append("ed_set_infty %s 0" % cv.spec)
    for _ in range(noff):                                 # off-curve: perturbed coordinates, (0,0), z = 0, bad T
        P = rng.choice(pts)
        Q = rng.choice([((P[0] + 1) % p, P[1]), (P[0], (P[1] + 1) % p), (P[1], P[0]), (0, 0), (1, 1),
                        (rng.randrange(p), rng.randrange(p))])
        out.append("ed_on_curve %s 0 %s" % (cv.spec, tok(cv, Q, PROJC, rng, force=rng.choice("aPEpe"))))
    P = rng.choice(pts)
    out.append("ed_on_curve %s 0 %x,%x/p0" % (cv.spec, P[0], P[1]))
    out.append("ed_on_curve %s 0 %x,%x/t%x" % (cv.spec, P[0], P[1], zs(cv, rng)))
    out.append("ed_on_curve %s 0 %x,%x/t1" % (cv.spec, P[0], P[1]))
    return out


def norm_sim_cases(cv, rng, pts, count, nprobe=1):
    """ed_norm_sim.  The neutral element is handled only in place and with Z = 1 (see C17-normsim-neutral): the random
    lists contain it in that form, `nprobe` cases probe the other forms."""
    out = []
    for _ in range(count):
        k = rng.randint(1, 6)
        al = rng.choice([0, 1])
        ps = [tok(cv, rng.choice(pts), PROJC, rng, force=rng.choice("aPEppee")) for _ in range(k)]
        if al == 1 and rng.random() < 0.4:
            ps[rng.randrange(k)] = "inf"
        ps = [t if t.split("/")[0] != "0,1" else "inf" for t in ps]
        if al == 0 and "inf" in ps:
            al = 1
        out.append("ed_norm_sim %s %d %d %s" % (cv.spec, al, k, " ".join(ps)))
    probes = ["ed_norm_sim %s 1 2 0,1/p%x %s" % (cv.spec, zs(cv, rng), tok(cv, pts[1], PROJC, rng, force="p")),
              "ed_norm_sim %s 0 2 %s inf" % (cv.spec, tok(cv, pts[1], PROJC, rng, force="p"))]
    return out + probes[:nprobe]


def witness_cases(cv, sub_pts):
    out = ["witness %s 0 %x,%x %d" % (cv.spec, P[0], P[1], o) for (P, o) in cv.tors if o > 1]
    out += ["witness %s 0 %x,%x 0" % (cv.spec, P[0], P[1]) for P in sub_pts]
    out.append("ed_param %s 0" % cv.spec)
    return out


# --------------------------------------------------------------------------
# multiplications
# --------------------------------------------------------------------------
def mul_cases(cv, rng, ks_for, pts, ops=None):
    out = []
    for op in (ops or (MUL_VAR + MUL_FIX + ["ed_mul_gen", "ed_mul_dig"])):
        P = rng.choice(pts)
        ptok = tok(cv, P, cv.add, rng, force="a" if op in MUL_FIX else None)
        for k in ks_for(op):
            if op == "ed_mul_gen":
                out.append("%s %s 0 %s" % (op, cv.spec, hx(k)))
            elif op == "ed_mul_dig":
                out.append("%s %s %d %s %s" % (op, cv.spec, rng.choice([0, 1]), tok(cv, rng.choice(pts), cv.add, rng),
                                                hx(abs(k) & ((1 << cv.dgb) - 1))))
            elif op in MUL_FIX:
                out.append("%s %s 0 %s %s" % (op, cv.spec, ptok, hx(k)))
            else:
                out.append("%s %s %d %s %s" % (op, cv.spec, rng.choice([0, 1]), tok(cv, rng.choice(pts), cv.add, rng), hx(k)))
        if op in ("ed_mul", "ed_mul_gen") and not ops:
            # one-digit scalars of both signs (dispatcher shortcuts), output distinct from / aliased to the input
            D = 1 << cv.dgb
            for k in [2, -2, 3, -3, D - 1, -(D - 1), (D >> 1) + 1, -((D >> 1) + 1), D, -D, D + 1, -(D + 1)]:
                if op == "ed_mul":
                    for al in (0, 1):
                        out.append("%s %s %d %s %s" % (op, cv.spec, al, tok(cv, rng.choice(pts), cv.add, rng), hx(k)))
                else:
                    out.append("%s %s 0 %s" % (op, cv.spec, hx(k)))
    return out


def sim_cases(cv, rng, kpairs_for, pts, ops=None):
    out = []
    for op in (ops or (MUL_SIM + ["ed_mul_sim_gen"])):
        for (k, m) in kpairs_for(op):
            P, Q = rng.choice(pts), rng.choice(pts)
            if op == "ed_mul_sim_gen":
                out.append("%s %s %d %s %s %s" % (op, cv.spec, rng.choice([0, 2]), hx(k), tok(cv, Q, cv.add, rng), hx(m)))
            else:
                al = rng.choice([0, 0, 1, 2, 3])
                out.append("%s %s %d %s %s %s %s" % (op, cv.spec, al, tok(cv, P, cv.add, rng), hx(k),
                                                     tok(cv, Q, cv.add, rng) if al != 3 else "inf", hx(m)))
    return out


def lot_cases(cv, rng, ks, pts, counts, per_count=1):
    out = []
    for cnt in counts:
        for _ in range(per_count):
            args = []
            for _ in range(cnt):
                args += [tok(cv, rng.choice(pts), cv.add, rng), hx(rng.choice(ks))]
            out.append("ed_mul_sim_lot %s 0 %d %s" % (cv.spec, cnt, " ".join(args)))
    return out


# --------------------------------------------------------------------------
# compression, byte formats, hashing
# --------------------------------------------------------------------------
def be(v, n):
    return "%0*x" % (2 * n, v)


def codec_cases(cv, rng, pts, quick):
    out = []
    fb = (cv.fpb + 7) // 8
    p = cv.p
    for P in pts:
        for Q in (P, cv.neg(P)):
            out.append("ed_pck_upk %s 0 %x,%x" % (cv.spec, Q[0], Q[1]))
            for pack in (0, 1):
                out.append("ed_bin_rt %s 0 %s %d" % (cv.spec, tok(cv, Q, PROJC, rng), pack))
        out.append("ed_pck %s %d %x,%x" % (cv.spec, rng.choice([0, 1]), P[0], P[1]))
        out.append("ed_upk %s %d %x %d" % (cv.spec, rng.choice([0, 1]), P[1], rng.choice([0, 1])))
        # write with exact, generous and short buffers
        for pack in (0, 1):
            need = 1 if P == (0, 1) else (fb + 1 if pack else 2 * fb + 1)
            for ln in {need, need + rng.randint(1, 9), max(0, need - 1), rng.randrange(0, need)}:
                out.append("ed_write_bin %s 0 %s %d %d" % (cv.spec, tok(cv, P, PROJC, rng), pack, ln))
        # read: valid encodings ...
        if P != (0, 1):
            out.append("ed_read_bin %s 0 04%s%s" % (cv.spec, be(P[1], fb), be(P[0], fb)))
            out.append("ed_read_bin %s 0 %02x%s" % (cv.spec, rng.choice([2, 3]), be(P[1], fb)))
            # ... and invalid ones: wrong tag, wrong length, x off the curve, coordinates not below p
            bad = [("05", be(P[1], fb) + be(P[0], fb)), ("02", be(P[1], fb) + be(P[0], fb)), ("04", be(P[1], fb)),
                   ("00", be(P[1], fb)), ("01", be(P[1], fb)), ("04", be(P[1], fb) + be((P[0] + 1) % p, fb)),
                   ("04", be(P[1], fb) + be(P[0], fb) + "00"), ("04", be(P[1], fb) + be(P[0], fb)[:-2]),
                   ("03", be(P[1], fb)[:-2]), ("02", be(P[1], fb) + "00")]
            if P[1] + p < (1 << (8 * fb)):
                bad += [("04", be(P[1] + p, fb) + be(P[0], fb)), ("02", be(P[1] + p, fb))]
            if P[0] + p < (1 << (8 * fb)):
                bad.append(("04", be(P[1], fb) + be(P[0] + p, fb)))
            for (t, body) in (bad if not quick else rng.sample(bad, 5)):
                out.append("ed_read_bin %s 0 %s%s" % (cv.spec, t, body))
    # y for which no x exists, y = p, y = p - 1 ... ; one-byte encodings
    cnt = 0
    while cnt < (4 if quick else 16):
        y = rng.randrange(p)
        if cv.x_of(y) is None:
            out.append("ed_read_bin %s 0 %02x%s" % (cv.spec, rng.choice([2, 3]), be(y, fb)))
            cnt += 1
    for y in (p, p + 1, (1 << (8 * fb)) - 1, p - 1, 0, 1, 2):
        if y < (1 << (8 * fb)):
            out.append("ed_read_bin %s 0 %02x%s" % (cv.spec, rng.choice([2, 3]), be(y, fb)))
    out += ["ed_read_bin %s 0 %s" % (cv.spec, b) for b in ("00", "01", "02", "04", ".", "0000")]
    return out


def map_cases(cv, rng, count):
    out = []
    msgs = [".", "00", "61", "616263"] + ["%0*x" % (2 * n, rng.getrandbits(8 * n)) for n in (1, 7, 31, 32, 33, 64, 100)]
    for i in range(count):
        m = msgs[i % len(msgs)] if i < len(msgs) else "%0*x" % (2 * (i % 70 + 1), rng.getrandbits(8 * (i % 70 + 1)))
        if i % 2 == 0:
            out.append("ed_map %s 0 %s" % (cv.spec, m))
        else:
            dst = rng.choice(["52454c4943", "51554f4f5558", "%0*x" % (20, rng.getrandbits(80)), "."])
            out.append("ed_map_dst %s 0 %s %s" % (cv.spec, m, dst))
    out.append("ed_rand %s 0" % cv.spec)
    return out
