"""Case generation for C06 (drv_enc.c).  Only INPUTS are produced here (plaintexts, mutation lists, crafted
encoded messages); every verdict is the TLA+ specification's."""
import hashlib
import itertools

HLEN = 32
P256_N = "ffffffff00000000ffffffffffffffffbce6faada7179e84f3b9cac2fc632551"
CURVES = [12, 13, 14, 15, 23, 24]


def hx(b):
    return b.hex() if b else "."


def seed(rng):
    return "%016x" % rng.getrandbits(64)


def plaintext(rng, n, cls):
    """cls: r random | z all zero | f all FF | lz leading zero bytes then random | lf leading FF"""
    if n == 0:
        return b""
    if cls == "z":
        return bytes(n)
    if cls == "f":
        return b"\xff" * n
    r = bytes(rng.getrandbits(8) for _ in range(n))
    if cls == "lz":
        z = max(1, n // 2)
        return bytes(z) + r[z:]
    if cls == "lf":
        return b"\xff" + r[1:]
    return r


CLASSES = ["r", "z", "f", "lz", "lf"]


def mgf1(sd, n):
    out = b""
    c = 0
    while len(out) < n:
        out += hashlib.sha256(sd + c.to_bytes(4, "big")).digest()
        c += 1
    return out[:n]


def xor(a, b):
    return bytes(x ^ y for x, y in zip(a, b))


def oaep_em(k, db, sd, y=0):
    """EM = Y || maskedSeed || maskedDB for an arbitrary data block db (k - HLEN - 1 bytes)"""
    mdb = xor(db, mgf1(sd, k - HLEN - 1))
    msd = xor(sd, mgf1(mdb, HLEN))
    return bytes([y]) + msd + mdb


def oaep_crafted(rng, k):
    """(label, EM) - encoded messages with one defect each, and unusual but valid ones"""
    lh = hashlib.sha256(b"").digest()
    n = k - 2 * HLEN - 2
    sd = bytes(rng.getrandbits(8) for _ in range(HLEN))
    m = plaintext(rng, 7, "r")

    def db(ps, sep, msg, lhash=lh):
        return lhash + ps + sep + msg
    out = []
    ps = bytes(n - len(m))
    out.append(("valid", oaep_em(k, db(ps, b"\x01", m), sd)))
    out.append(("valid-empty", oaep_em(k, db(bytes(n), b"\x01", b""), sd)))
    out.append(("valid-max", oaep_em(k, db(b"", b"\x01", plaintext(rng, n, "lz")), sd)))
    out.append(("valid-m-starts-01", oaep_em(k, db(bytes(n - 3), b"\x01", b"\x01\x00\x01"), sd)))
    out.append(("y-nonzero", oaep_em(k, db(ps, b"\x01", m), sd, y=1)))
    bad = bytearray(lh)
    bad[rng.randrange(HLEN)] ^= 1 << rng.randrange(8)
    out.append(("lhash-bit", oaep_em(k, db(ps, b"\x01", m, bytes(bad)), sd)))
    bad = bytearray(lh)
    bad[HLEN - 1] ^= 0x80
    out.append(("lhash-last", oaep_em(k, db(ps, b"\x01", m, bytes(bad)), sd)))
    bad = bytearray(lh)
    bad[0] ^= 0x01
    out.append(("lhash-first", oaep_em(k, db(ps, b"\x01", m, bytes(bad)), sd)))
    out.append(("sep-02", oaep_em(k, db(ps, b"\x02", m), sd)))
    out.append(("sep-ff", oaep_em(k, db(ps, b"\xff", m), sd)))
    out.append(("no-sep", oaep_em(k, db(bytes(n + 1), b"", b""), sd)))
    if len(ps) >= 2:
        p2 = bytearray(ps)
        p2[0] = 0x02
        out.append(("ps-nonzero-first", oaep_em(k, db(bytes(p2), b"\x01", m), sd)))
        p2 = bytearray(ps)
        p2[-1] = 0x80
        out.append(("ps-nonzero-last", oaep_em(k, db(bytes(p2), b"\x01", m), sd)))
    out.append(("zero", bytes(k)))
    out.append(("one", bytes(k - 1) + b"\x01"))
    return out


def pkcs1_crafted(rng, k):
    m = plaintext(rng, 5, "r")

    def nz(n):
        return bytes(rng.randrange(1, 256) for _ in range(n))
    out = [("valid", b"\x00\x02" + nz(k - 3 - len(m)) + b"\x00" + m),
           ("valid-ps8", b"\x00\x02" + nz(8) + b"\x00" + plaintext(rng, k - 11, "lz")),
           ("valid-empty", b"\x00\x02" + nz(k - 3) + b"\x00"),
           ("ps7", b"\x00\x02" + nz(7) + b"\x00" + plaintext(rng, k - 10, "r")),
           ("ps1", b"\x00\x02" + nz(1) + b"\x00" + plaintext(rng, k - 4, "r")),
           ("ps0", b"\x00\x02" + b"\x00" + plaintext(rng, k - 3, "r")),
           ("bt01", b"\x00\x01" + b"\xff" * (k - 3 - len(m)) + b"\x00" + m),
           ("bt00", b"\x00\x00" + nz(k - 3 - len(m)) + b"\x00" + m),
           ("first-nonzero", b"\x01\x02" + nz(k - 3 - len(m)) + b"\x00" + m),
           ("no-sep", b"\x00\x02" + nz(k - 2)),
           ("zero", bytes(k)), ("two", bytes(k - 1) + b"\x02")]
    return out


def basic_crafted(rng, k):
    m = plaintext(rng, 5, "r")
    out = [("valid", bytes(k - 1 - len(m)) + b"\xff" + m),
           ("valid-max", b"\x00\xff" + plaintext(rng, k - 2, "lz")),
           ("valid-empty", bytes(k - 1) + b"\xff"),
           ("marker-fe", bytes(k - 1 - len(m)) + b"\xfe" + m),
           ("marker-01", bytes(k - 1 - len(m)) + b"\x01" + m),
           ("first-nonzero", b"\x01" + bytes(k - 2 - len(m)) + b"\xff" + m),
           ("zero", bytes(k))]
    return out


def byte_muts(rng, n, per_pos, positions=None):
    """x<pos>:<xor> for the given positions (all by default), per_pos xor values each"""
    res = []
    for pos in (positions if positions is not None else range(n)):
        vals = set()
        while len(vals) < per_pos:
            vals.add(rng.choice([1, 0x80, 0xff, rng.randrange(1, 256)]))
        res += ["x%d:%02x" % (pos, v) for v in sorted(vals)]
    return res


def rsa_cases(rng, tier, pad, key="1024:c0601", bits=1024):
    quick = tier == "quick"
    k = bits // 8
    mx = {"oaep": k - 2 * HLEN - 2, "pkcs1": k - 11, "basic": k - 2}[pad]
    cases = []

    def line(m, cap, muts):
        return "rsa %s %s %s %d %s" % (key, seed(rng), hx(m), cap, " ".join(muts))
    # every admissible length, the content classes cycling; boundary lengths with every class
    lens = list(range(0, mx + 1))
    if quick and mx > 70:
        lens = sorted(set(list(range(0, 40)) + [rng.randrange(40, mx - 2) for _ in range(12)] + [mx - 2, mx - 1, mx]))
    for n in lens:
        cls = CLASSES if n in (1, 2, 8, mx - 1, mx) else [CLASSES[n % len(CLASSES)]]
        for c in cls:
            cases.append(line(plaintext(rng, n, c), 256, []))
    # too long, output capacity
    for n in (mx + 1, mx + 2, k, k + 1, 2 * k):
        cases.append(line(plaintext(rng, n, "r"), 256, []))
    cases.append(line(plaintext(rng, 5, "r"), k - 1, []))
    cases.append(line(plaintext(rng, 5, "r"), k, ["cap:4", "cap:5", "cap:0"]))
    # a plaintext with leading zero bytes into buffers between the length of the stripped integer and its own length
    cases.append(line(b"\x00\x00\x00\x41", k, ["cap:1", "cap:2", "cap:3", "cap:4"]))
    cases.append(line(b"\x00" * 7 + b"\x01\x02", k, ["cap:2", "cap:8", "cap:9"]))
    # mutations: every byte position of a ciphertext, wrong lengths, c + n
    nbase = 2 if quick else 6
    for b in range(nbase):
        m = plaintext(rng, [5, mx, 1, 17, 32, mx - 1][b % 6], ["r", "lz", "f", "z", "r", "r"][b % 6])
        muts = byte_muts(rng, k, 1 if quick else 3)
        extra = ["t", "T", "z", "a", "n", "len:0", "len:1", "len:%d" % (k // 2)]
        for c in range(0, len(muts), 32):
            cases.append(line(m, 256, muts[c:c + 32] + (extra if c == 0 else [])))
    for _ in range(4 if quick else 12):
        cases.append(line(plaintext(rng, rng.randrange(1, mx), "r"), 256, ["n"]))     # c + n fits in about half of the runs
    # crafted encoded messages
    for r in range(1 if quick else 4):
        crafted = {"oaep": oaep_crafted, "pkcs1": pkcs1_crafted, "basic": basic_crafted}[pad](rng, k)
        for c in range(0, len(crafted), 8):
            cases.append(line(plaintext(rng, 3, "r"), 256, ["raw:" + em.hex() for _, em in crafted[c:c + 8]]))
    return cases


def rsa_hunt_cases(rng, tier, key, bits):
    """OAEP round trips whose ENCODED message has a zero byte where the integer view loses it: the driver hunts for an
    encryption seed per class (1: first byte of the masked seed, 2: first byte of the masked data block); plus a few
    ordinary round trips at the boundary lengths for this key size"""
    quick = tier == "quick"
    k = bits // 8
    mx = k - 2 * HLEN - 2
    cases = []
    for j in range(2 if quick else 6):
        for cls in (1, 2):
            m = plaintext(rng, [4, mx, 1, 0 if mx > 0 else 1, mx - 1, 9][j % 6] if mx > 9 else 1, "r")
            cases.append("rsa %s hunt%d:4000:%s %s 256" % (key, cls, seed(rng)[:16], hx(m)))
    for n in sorted({1, 2, mx - 1, mx}):
        if n > 0:
            cases.append("rsa %s %s %s 256" % (key, seed(rng), hx(plaintext(rng, n, "r"))))
    return cases


def rabin_cases(rng, tier):
    quick = tier == "quick"
    cases = []
    for key, bits in ([("512:c0602", 512)] if quick else [("512:c0602", 512), ("1024:c0603", 1024)]):
        k = bits // 8
        mx = k - 10

        def line(m, cap, muts):
            return "rabin %s %s %s %d %s" % (key, seed(rng), hx(m), cap, " ".join(muts))
        for n in range(0, mx + 1):
            cls = CLASSES if n in (1, 7, 8, 9, mx) else [CLASSES[n % len(CLASSES)]]
            for c in cls:
                cases.append(line(plaintext(rng, n, c), 256, []))
        for n in (mx + 1, mx + 2, k, 2 * k):
            cases.append(line(plaintext(rng, n, "r"), 256, []))
        cases.append(line(plaintext(rng, 5, "r"), k - 1, []))
        for b in range(1 if quick else 3):
            m = plaintext(rng, [5, mx, 1][b], "r")
            muts = byte_muts(rng, k, 1 if quick else 3)
            extra = ["t", "T", "z", "a", "len:8", "len:7", "zero"]
            for c in range(0, len(muts), 32):
                cases.append(line(m, 256, muts[c:c + 32] + (extra if c == 0 else [])))
        # crafted roots: no marker, wrong marker, broken redundancy, valid
        m = plaintext(rng, 6, "r")
        fm = b"\xff" + m
        good = fm + fm[-8:] if len(fm) >= 8 else fm + bytes(8 - len(fm)) + fm
        crafted = [good, b"\xfe" + good[1:], b"\x01" + good, good[:-1] + bytes([good[-1] ^ 1]),
                   bytes(8) + b"\x01" + bytes(7) + b"\x01", b"\xff" + bytes(7) + b"\xff", bytes(7) + b"\x01" + bytes(7) + b"\x01"]
        cases.append(line(plaintext(rng, 3, "r"), 256, ["raw:" + c.hex() for c in crafted]))
    return cases


OPERANDS = ["0", "1", "2", "n-1", "n-2", "h", "r", "r"]


def hom_pairs(rng, quick):
    pairs = [("0", "0"), ("0", "1"), ("1", "n-1"), ("n-1", "n-1"), ("n-1", "2"), ("n-2", "1"), ("h", "h"), ("r", "r"),
             ("r", "n-1"), ("2", "2"), ("n-1", "0"), ("r", "0")]
    if not quick:
        pairs += [(a, b) for a in OPERANDS for b in OPERANDS]
    return pairs


def paillier_cases(rng, tier):
    quick = tier == "quick"
    cases = []
    for key in (["512:c0610", "384:c0611"] if quick else ["512:c0610", "384:c0611", "256:c0613", "128:c0614"]):
        for a, b in hom_pairs(rng, quick):
            cases.append("phpe %s %s %s %s" % (key, seed(rng), a, b))
    # Damgaard-Jurik: n^(s+1) must fit twice into the configured precision (BN_PRECI = 1024 bits)
    for key, ss in [("256:c0620", (1, 2, 3)), ("512:c0621", (1,)), ("320:c0622", (2,))] + ([] if quick else [("192:c0623", (1, 2, 3, 4))]):
        for s in ss:
            for a, b in hom_pairs(rng, quick):
                cases.append("ghpe %s %s %d %s %s" % (key, seed(rng), s, a, b))
    for key in (["128:512:c0630"] if quick else ["128:512:c0630", "64:256:c0632", "96:384:c0633"]):
        for a, b in hom_pairs(rng, quick):
            cases.append("shpe %s %s %s %s" % (key, seed(rng), a, b))
    return cases


def bdpe_cases(rng, tier):
    quick = tier == "quick"
    cases = []
    for t, bits, ks in [(11, 256, "c0640"), (3, 256, "c0641"), (251, 512, "c0642")] + ([] if quick else [(65521, 512, "c0643"), (5, 384, "c0644")]):
        ops = sorted(set([0, 1, t - 1, t - 2 if t > 2 else 0, t // 2, rng.randrange(t), rng.randrange(t)]))
        pairs = list(itertools.product(ops, ops))
        if t == 11:
            pairs = list(itertools.product(range(t), range(t))) if not quick else pairs
        rng.shuffle(pairs)
        if quick:
            pairs = pairs[:12]
        if t > 1000:
            pairs = pairs[:6]       # the decryption is an exhaustive search over the block
        for j, (a, b) in enumerate(pairs):
            cases.append("bdpe %d:%d:%s %s %d %d %s" % (t, bits, ks, seed(rng), a, b, "t T z a len:0" if j == 0 else ""))
    return cases


def ec_cases(rng, tier, curves=None):
    quick = tier == "quick"
    curves = curves or CURVES
    cases = []
    klens = [1, 16, 32, 33, 64, 100]
    for cid in curves:
        for j in range(3 if quick else 10):
            cases.append("ecdh %d %s %d" % (cid, seed(rng), klens[(j + cid) % len(klens)]))
        for j in range(2 if quick else 8):
            cases.append("ecmqv %d %s %d" % (cid, seed(rng), klens[(j + cid + 2) % len(klens)]))
    # ECIES: every plaintext length 0..100 on the first curve, a sample on the others
    for n in range(0, 101):
        cid = curves[0]
        cases.append("ecies %d %s %s %s 256" % (cid, "c0650", seed(rng), hx(plaintext(rng, n, CLASSES[n % len(CLASSES)]))))
    for cid in curves[1:]:
        for n in ([0, 15, 16, 33] if quick else [0, 1, 15, 16, 17, 31, 32, 33, 64, 100]):
            cases.append("ecies %d %s %s %s 256" % (cid, "c0651", seed(rng), hx(plaintext(rng, n, "r"))))
    # output capacity
    cases.append("ecies %d c0650 %s %s 47" % (curves[0], seed(rng), hx(plaintext(rng, 5, "r"))))
    cases.append("ecies %d c0650 %s %s 48 cap:4 cap:5 cap:15 cap:16" % (curves[0], seed(rng), hx(plaintext(rng, 5, "r"))))
    # mutations: every byte of ciphertext and tag, lengths, the ephemeral point
    for b, n in enumerate([5, 40] if quick else [5, 40, 0, 16, 100]):
        m = plaintext(rng, n, "r")
        cl = 16 * (n // 16 + 1) + 32
        muts = byte_muts(rng, cl, 1 if quick else 2)
        extra = ["len:0", "len:1", "len:16", "len:31", "len:32", "len:33", "len:%d" % (cl - 1), "len:%d" % (cl - 16), "a", "z", "T",
                 "R:neg", "R:dbl", "R:inf", "pad"]
        extra += ["R:x%d" % j for j in ([0, 7, 100, 255] if quick else range(0, 256, 9))]
        extra += ["R:y%d" % j for j in ([0, 128, 255] if quick else range(0, 256, 11))]
        allm = muts + extra
        for c in range(0, len(allm), 24):
            cases.append("ecies %d c0650 %s %s 256 %s" % (curves[b % 2], seed(rng), hx(m), " ".join(allm[c:c + 24])))
    # authentic ciphertexts with a damaged padding block
    for _ in range(6 if quick else 40):
        cases.append("ecies %d c0650 %s %s 256 pad" % (curves[0], seed(rng), hx(plaintext(rng, rng.randrange(16, 64), "r"))))
    return cases


def share_cases(rng, tier):
    quick = tier == "quick"
    cases = []
    qs = [P256_N, "0b", "fb", "1fffffffffffffff"] + ([] if quick else ["07", "fffffffffffffffffffffffffffffffffffffffffffffffffffffffefffffc2f"])
    for q in qs:
        for n in range(2, 6):
            for k in range(2, n + 1):
                for s in (["r", "0", "n-1"] if (quick and q != "0b") else ["r", "0", "1", "n-1", "r"]):
                    if quick and q not in (P256_N, "0b") and (n + k) % 2:
                        continue
                    cases.append("sss %s %s %s %d %d" % (q, seed(rng), s, k, n))
        cases.append("sss %s %s r 1 3" % (q, seed(rng)))
        cases.append("sss %s %s r 4 3" % (q, seed(rng)))
        cases.append("sss %s %s r 0 0" % (q, seed(rng)))
        for x, y in [("r", "r"), ("0", "r"), ("r", "0"), ("1", "n-1"), ("n-1", "n-1"), ("0", "0"), ("r", "r"), ("r", "r")]:
            cases.append("mt %s %s %s %s" % (q, seed(rng), x, y))
            cases.append("mt %s %s %s %s %d" % (q, seed(rng), x, y, rng.choice([1, 2])))      # result over an opened value
    return cases
