"""Case generation for the integer layer (C01): corner sets lifted to the digit
width of the build + division families + seeded random.  Pure data; the
judgement is made by the TLA+ trace specification, never here."""
import random


def digit_corners(wbits):
    m = 1 << wbits
    h = m >> 1
    return [0, 1, 2, h - 1, h, h + 1, m - 2, m - 1]


def from_digits(ds, wbits):
    v = 0
    for i, d in enumerate(ds):
        v |= d << (wbits * i)
    return v


def nat_corners(wbits, maxlen, rng, nrand=40, full_upto=2):
    """Naturals of 0..maxlen digits built from corner digits."""
    dc = digit_corners(wbits)
    out = {0}
    # every vector over the corner digits for short lengths
    def rec(prefix, n):
        if n == 0:
            out.add(from_digits(prefix, wbits))
            return
        for d in dc:
            rec(prefix + [d], n - 1)
    for L in range(1, full_upto + 1):
        rec([], L)
    for L in range(1, maxlen + 1):
        for d in dc[1:]:
            out.add(from_digits([d] * L, wbits))                 # all-equal
            for pos in (0, L // 2, L - 1):                        # single non-zero digit
                v = [0] * L
                v[pos] = d
                out.add(from_digits(v, wbits))
            for top in dc[1:]:                                    # top varied, rest fixed
                out.add(from_digits([d] * (L - 1) + [top], wbits))
    for _ in range(nrand):
        L = rng.randint(1, maxlen)
        out.add(rng.getrandbits(wbits * L))
        out.add(from_digits([rng.choice(dc) for _ in range(L)], wbits))
    return sorted(out)


def hx(v):
    if v == 0:
        return "0"
    return ("-" if v < 0 else "") + "%x" % abs(v)


def knuth_d_addback(a, b, wbits):
    """Simulate Knuth D on naturals a >= b > 0 (b of >= 2 digits); returns
    (number of qhat corrections, number of add-backs)."""
    B = 1 << wbits
    bd = []
    t = b
    while t:
        bd.append(t % B)
        t //= B
    n = len(bd)
    if n < 2:
        return 0, 0
    s = wbits - bd[-1].bit_length()
    a2, b2 = a << s, b << s
    ad = []
    t = a2
    while t:
        ad.append(t % B)
        t //= B
    bd = [(b2 >> (wbits * i)) % B for i in range(n)]
    m = len(ad) - n
    if m < 0:
        return 0, 0
    ad.append(0)
    corr = addb = 0
    for j in range(m, -1, -1):
        num = ad[j + n] * B + ad[j + n - 1]
        qh, rh = divmod(num, bd[n - 1])
        while qh >= B or qh * bd[n - 2] > B * rh + ad[j + n - 2]:
            qh -= 1
            rh += bd[n - 1]
            corr += 1
            if rh >= B:
                break
        # multiply and subtract
        borrow = 0
        carry = 0
        for i in range(n):
            p = qh * bd[i] + carry
            carry = p // B
            sub = ad[i + j] - (p % B) - borrow
            borrow = 1 if sub < 0 else 0
            ad[i + j] = sub % B
        sub = ad[j + n] - carry - borrow
        borrow = 1 if sub < 0 else 0
        ad[j + n] = sub % B
        if borrow:
            addb += 1
            c = 0
            for i in range(n):
                s2 = ad[i + j] + bd[i] + c
                ad[i + j] = s2 % B
                c = s2 // B
            ad[j + n] = (ad[j + n] + c) % B
    return corr, addb


def division_family(wbits, maxlen, rng, count):
    """Operand pairs built to force qhat = B-1, qhat off by one/two and add-back."""
    B = 1 << wbits
    dc = digit_corners(wbits)
    out = []
    tries = 0
    while len(out) < count and tries < count * 60:
        tries += 1
        n = rng.randint(2, max(2, maxlen // 2))
        m = rng.randint(0, maxlen - n)
        style = rng.randint(0, 4)
        if style == 0:
            bd = [rng.choice(dc) for _ in range(n - 1)] + [rng.choice([B >> 1, (B >> 1) + 1, B - 1, 1, 2])]
        elif style == 1:
            bd = [rng.getrandbits(wbits) for _ in range(n - 2)] + [B - 1, B >> 1]
        elif style == 2:
            bd = [0] * (n - 1) + [rng.choice([B >> 1, B - 1, 1])]
            bd[0] = rng.choice(dc)
        else:
            bd = [rng.getrandbits(wbits) for _ in range(n)]
        if bd[-1] == 0:
            bd[-1] = 1
        b = from_digits(bd, wbits)
        k = rng.randint(0, 3)
        if k == 0:      # dividend prefix equals divisor prefix
            a = (b << (wbits * m)) + rng.choice([-1, 0, 1]) * rng.getrandbits(wbits * max(1, m))
        elif k == 1:    # q with extreme digits, r extreme
            q = from_digits([rng.choice([B - 1, B - 2, 0, 1, B >> 1]) for _ in range(m + 1)], wbits)
            r = rng.choice([0, 1, b - 1, b - 2, b >> 1])
            a = q * b + max(0, r)
        elif k == 2:
            a = from_digits([rng.choice(dc) for _ in range(n + m)], wbits)
        else:
            a = (B ** (n + m)) - 1 - rng.getrandbits(wbits)
        if a < 0:
            a = -a
        if a.bit_length() > wbits * maxlen:
            a >>= (a.bit_length() - wbits * maxlen)
        out.append((a, b))
    return out


ALIAS_BIN = [0, 1, 2, 3, 4]


def capacity_cases(wbits, digs, cap, rng):
    """Results at the PHYSICAL capacity of a bn (cap digits): exactly cap digits must be computed or refused,
    cap + 1 digits must be refused (never stored) - carries out of the top digit, sub-digit shifts that spill
    into digit cap + 1, products of i x j digits with i + j in {cap, cap + 1}."""
    W = wbits
    ones = lambda n: (1 << (W * n)) - 1
    top = lambda n: 1 << (W * n - 1)
    out = []
    # shifts: operand of u digits, result length around cap digits, with and without a carry out of the top digit
    for u in (1, 2, digs, cap - 1):
        for a in (ones(u), top(u) + 1, (1 << (W * (u - 1))) | 1, top(u) | (top(u) >> 1) | 1):
            for rb in (W * cap - 1, W * cap, W * cap + 1, W * cap + W // 2, W * cap + W - 1, W * cap + W):
                k = rb - a.bit_length()
                if k >= 0:
                    for sg in (1, -1):
                        out.append("bn_lsh %d %s %d" % (rng.choice([0, 1]), hx(sg * a), k))
    # additions / doublings / digit forms that carry out of digit cap
    for a in (ones(cap), ones(cap) - 1, top(cap), top(cap) + 1, ones(cap - 1), top(cap) - 1):
        for b in (1, 2, ones(1), ones(cap), top(cap), a):
            out.append("bn_add %d %s %s" % (rng.choice(ALIAS_BIN), hx(a), hx(b)))
            out.append("bn_sub %d %s %s" % (rng.choice(ALIAS_BIN), hx(a), hx(-b)))
            out.append("bn_sub %d %s %s" % (rng.choice(ALIAS_BIN), hx(-a), hx(b)))
        out.append("bn_dbl %d %s" % (rng.choice([0, 1]), hx(a)))
        out.append("bn_dbl %d %s" % (rng.choice([0, 1]), hx(-a)))
        for d in (1, 2, ones(1), 1 << (W - 1)):
            out.append("bn_add_dig %d %s %x" % (rng.choice([0, 1]), hx(a), d))
            out.append("bn_sub_dig %d %s %x" % (rng.choice([0, 1]), hx(-a), d))
            out.append("bn_mul_dig %d %s %x" % (rng.choice([0, 1]), hx(a), d))
    # products and squares whose length is cap - 1, cap or cap + 1 digits
    for i in (1, 2, cap // 2 - 1, cap // 2, cap // 2 + 1, cap - 2, cap - 1):
        for j in (cap - i - 1, cap - i, cap - i + 1):
            if j < 1:
                continue
            for (x, y) in ((ones(i), ones(j)), (top(i), top(j)), (1 << (W * (i - 1)), 1 << (W * (j - 1))),
                           (ones(i), 1 << (W * (j - 1)))):
                for op in ("bn_mul", "bn_mul_basic", "bn_mul_comba", "bn_mul_karat"):
                    out.append("%s %d %s %s" % (op, rng.choice(ALIAS_BIN), hx(x), hx(y)))
    for i in (cap // 2 - 1, cap // 2, cap // 2 + 1):
        for x in (ones(i), top(i), 1 << (W * (i - 1)), 1 << (W * i - W // 2)):
            for op in ("bn_sqr", "bn_sqr_basic", "bn_sqr_comba", "bn_sqr_karat"):
                out.append("%s %d %s" % (op, rng.choice([0, 1]), hx(x)))
    for k in (W * cap - 1, W * cap, W * cap + 1, W * (cap + 1)):
        out.append("bn_set_2b 1 %s %d" % (hx(1), k))
    return out


def gen_cases(wbits, digs, rng, tier, cap=None):
    """Returns list of case lines (strings) for drv_bn."""
    quick = tier == "quick"
    maxlen = digs + 1          # one beyond the configured precision
    nats = nat_corners(wbits, digs, rng, nrand=30 if quick else 200, full_upto=1 if quick else 2)
    ints = nats + [-v for v in nats if v]
    cases = []

    def pick(n):
        return [rng.choice(ints) for _ in range(n)]

    small = [v for v in ints if abs(v).bit_length() <= 3 * wbits]
    # unary ops: every corner value
    un_ops = ["bn_sqr", "bn_sqr_basic", "bn_sqr_comba", "bn_sqr_karat", "bn_neg", "bn_abs",
              "bn_copy", "bn_dbl", "bn_hlv"]
    sel = ints if not quick else rng.sample(ints, min(len(ints), 250))
    for op in un_ops:
        for v in sel:
            cases.append("%s %d %s" % (op, rng.choice([0, 1]), hx(v)))
    for op in ["bn_bits", "bn_ham", "bn_is_zero", "bn_is_even", "bn_sign", "bn_get_dig", "bn_zero"]:
        for v in (sel if not quick else sel[:120]):
            cases.append("%s 0 %s" % (op, hx(v)))
    # shifts: every interesting count
    counts = sorted(set([0, 1, 2, 7, 8, 9, wbits - 1, wbits, wbits + 1, 2 * wbits - 1, 2 * wbits,
                         2 * wbits + 1, 3 * wbits, wbits * digs // 2, wbits * digs - 1,
                         wbits * digs, wbits * digs + 1]))
    for op in ["bn_lsh", "bn_rsh", "bn_mod_2b"]:
        for v in (sel if not quick else sel[:150]):
            for k in (counts if not quick else rng.sample(counts, 5)):
                if op == "bn_lsh" and abs(v).bit_length() + k > wbits * (digs + 1):
                    continue
                cases.append("%s %d %s %d" % (op, rng.choice([0, 1]), hx(v), k))
    for v in (sel if not quick else sel[:100]):
        for k in rng.sample(counts, 4):
            cases.append("bn_get_bit 0 %s %d" % (hx(v), k))
            if abs(v).bit_length() <= wbits * digs and k < wbits * digs:
                cases.append("bn_set_bit 1 %s %d %d" % (hx(v), k, rng.choice([0, 1])))
        cases.append("bn_set_2b 1 %s %d" % (hx(v), rng.choice(counts[:-2])))
    # digit forms
    dcs = digit_corners(wbits)
    for op in ["bn_add_dig", "bn_sub_dig", "bn_mul_dig", "bn_div_dig", "bn_div_rem_dig", "bn_cmp_dig",
               "bn_set_dig"]:
        for v in (sel if not quick else sel[:120]):
            for d in (dcs if not quick else rng.sample(dcs, 3)) + [rng.getrandbits(wbits)]:
                if op in ("bn_cmp_dig", "bn_set_dig"):
                    cases.append("%s 0 %s %s" % (op, hx(v), hx(d)))
                else:
                    cases.append("%s %d %s %s" % (op, rng.choice([0, 1]), hx(v), hx(d)))
    # binary ops: corner x corner (sampled), all alias patterns
    bin_ops = ["bn_add", "bn_sub", "bn_mul", "bn_mul_basic", "bn_mul_comba", "bn_mul_karat", "bn_div",
               "bn_cmp", "bn_cmp_abs"]
    npairs = 300 if quick else 6000
    for op in bin_ops:
        for _ in range(npairs):
            a, b = rng.choice(ints), rng.choice(ints)
            if rng.random() < 0.3:
                b = rng.choice(small)
            if rng.random() < 0.15:      # nearly equal magnitudes: borrow chains
                b = a + rng.choice([-1, 0, 1, 1 << wbits, -(1 << wbits)])
                if rng.random() < 0.5:
                    b = -b
            if abs(b).bit_length() > wbits * digs:
                b = rng.choice(ints)
            al = 0 if op.startswith("bn_cmp") else rng.choice(ALIAS_BIN)
            cases.append("%s %d %s %s" % (op, al, hx(a), hx(b)))
    # division: families + corners, all alias patterns, all sign combinations
    fam = division_family(wbits, digs, rng, 250 if quick else 5000)
    stats = dict(qhat_corrections=0, addbacks=0)
    for a, b in fam:
        if a >= b > 0:
            c, ab = knuth_d_addback(a, b, wbits)
            stats["qhat_corrections"] += 1 if c else 0
            stats["addbacks"] += 1 if ab else 0
        sa, sb = rng.choice([1, -1]), rng.choice([1, -1])
        cases.append("bn_div_rem %d %s %s" % (rng.choice(range(8)), hx(sa * a), hx(sb * b)))
        cases.append("bn_div %d %s %s" % (rng.choice(ALIAS_BIN), hx(sb * a), hx(sa * b)))
    for _ in range(300 if quick else 4000):
        a, b = rng.choice(ints), rng.choice(ints)
        cases.append("bn_div_rem %d %s %s" % (rng.choice(range(8)), hx(a), hx(b)))
    # zero dividend / divisor and |a| < |b| with every sign combination, every alias
    for al in range(8):
        for a in [0, 1, -1, 5, -5, (1 << wbits) - 1, -(1 << (2 * wbits))]:
            for b in [0, 1, -1, 2, -2, 7, -7, 1 << wbits, -(1 << wbits) - 1]:
                cases.append("bn_div_rem %d %s %s" % (al, hx(a), hx(b)))
    if cap:
        cases += capacity_cases(wbits, digs, cap, rng)
    rng.shuffle(cases)
    return cases, stats


def gen_histories(wbits, digs, cap, rng, tier, ns=4):
    """call histories for harness/relic_vm.c (model/Relic): programs of 8..30 calls over ns slots with
    every alias pattern; a slot whose last operation may have reported an error is re-set before use"""
    quick = tier == "quick"
    nats = nat_corners(wbits, digs, rng, nrand=20, full_upto=1)
    vals = nats + [-v for v in nats if v]
    lines = []

    def dg(v):
        return (abs(v).bit_length() + wbits - 1) // wbits
    for _ in range(150 if quick else 3000):
        lines.append("reset")
        cur = {s: 0 for s in range(1, ns + 1)}
        known = {s: True for s in range(1, ns + 1)}
        for _ in range(rng.randint(8, 30)):
            unk = [s for s in cur if not known[s]]
            r = rng.random()
            if unk or r < 0.25:
                s = unk[0] if unk else rng.randint(1, ns)
                v = rng.choice(vals)
                lines.append("set %d %s" % (s, hx(v)))
                cur[s], known[s] = v, True
                continue
            if r < 0.32:
                lines.append("getcode")
                continue
            op = rng.choice(["bn_add", "bn_sub", "bn_mul", "bn_div", "bn_sqr", "bn_neg", "bn_abs", "bn_copy", "bn_dbl",
                             "bn_lsh", "bn_rsh"])
            o, a, b = rng.randint(1, ns), rng.randint(1, ns), rng.randint(1, ns)
            k = rng.choice([0, 1, 7, 8, 9, wbits - 1, wbits, wbits + 1, 2 * wbits, wbits * (digs // 2)])
            x, y = cur[a], cur[b]
            res = None
            if op == "bn_add": res = x + y
            elif op == "bn_sub": res = x - y
            elif op == "bn_mul": res = x * y
            elif op == "bn_div": res = None if y == 0 else x // y
            elif op == "bn_sqr": res = x * x
            elif op == "bn_neg": res = -x
            elif op == "bn_abs": res = abs(x)
            elif op == "bn_copy": res = x
            elif op == "bn_dbl": res = 2 * x
            elif op == "bn_lsh": res = x << k
            elif op == "bn_rsh": res = (abs(x) >> k) * (1 if x >= 0 else -1)
            lim = 2 * digs if op in ("bn_mul", "bn_sqr") else digs
            if res is not None and dg(res) > cap + 2:
                continue                         # far beyond the capacity: keep the histories interesting
            lines.append("%s %d %d %d %d" % (op, o, a, b, k))
            if res is None or dg(res) > lim:
                known[o] = False                 # may have thrown: re-set before the next use
                cur[o] = 0
            else:
                cur[o] = res
    return lines
