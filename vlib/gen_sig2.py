"""Input generation for the second conformance part of C05: case lines for harness/drv_sig2.c
(proofs / signatures of knowledge, vBNN-IBS, ring signatures, Camenisch-Lysyanskaya, Pointcheval-Sanders,
homomorphic signatures).

A case line = keys, one honest signature and a list of mutation tokens (see the header of drv_sig2.c).
Python only chooses messages, seeds and WHICH mutations are applied; signatures are produced by the
library, the verdict on every (mutated) input is the trace spec's (tla/model/Sig2Spec.tla).  Long
mutation lists are cut into several case lines with the same seed (same keys, same signature)."""
from vlib.gen_sig import MSG_LENS, hx, rmsg, seed, flip

CHUNK = 10


def bn_muts(rng, name, nbits, nflips, full=True):
    """integer component of a signature: single-bit flips and the range substitutions of the quantifier"""
    bits = [0, nbits - 1] + rng.sample(range(1, nbits - 1), nflips)
    out = ["%s:bit:%d" % (name, b) for b in bits]
    out += ["%s:+n" % name, "%s:-n" % name]
    if full:
        out += ["%s:n-" % name, "%s:=0" % name, "%s:=n" % name, "%s:=1" % name, "%s:neg" % name, "%s:+nshl:%d" % (name, rng.choice([1, 64, 256, 700]))]
    return out


def pt_muts(rng, name, nflips, full=True, g2=False):
    """curve point component: coordinate bit flips, identity, negation, doubling, off-curve / out-of-subgroup"""
    out = ["%s:fx:%d" % (name, b) for b in [0] + rng.sample(range(1, 255), nflips)]
    out += ["%s:fy:%d" % (name, b) for b in rng.sample(range(0, 255), max(1, nflips))]
    out += ["%s:inf" % name, "%s:neg" % name]
    if full:
        out += ["%s:dbl" % name, "%s:gen" % name]
    out.append("%s:+T" % name if g2 else "%s:other" % name)
    return out


def msg_muts(rng, m, nflips, key="m"):
    """message mutations: single-bit flips, truncation, extension"""
    out = []
    if m:
        bits = sorted(set([0, 8 * len(m) - 1] + rng.sample(range(8 * len(m)), min(8 * len(m), nflips))))
        out += ["%s=%s" % (key, hx(flip(m, b))) for b in bits[:nflips + 2]]
        out.append("%s=%s" % (key, hx(m[:-1])))
    out.append("%s=%s" % (key, hx(m + b"\x00")))
    out.append("%s=%s" % (key, hx(m + rmsg(rng, 1))))
    return out


def lines(head, muts, chunk=CHUNK):
    """cut a mutation list into case lines; every line starts with the honest verification"""
    muts = [m for m in muts if m != "honest"]
    out = []
    for i in range(0, max(1, len(muts)), chunk):
        out.append("%s honest %s" % (head, " ".join(muts[i:i + chunk])))
    return out


def thin(rng, muts, k):
    """a sample of k mutations that keeps the range substitutions (+n, -n) and the identity points of the first components"""
    if len(muts) <= k:
        return muts
    must = [m for m in muts if m.endswith(":+n") or m.endswith(":-n")][:4]
    must += [m for m in muts if m.endswith(":inf")][:3]                 # identity points of the leading components
    rest = [m for m in muts if m not in must]
    return must + rng.sample(rest, max(0, k - len(must)))


def pick_lens(rng, quick, k):
    return [0, 200] + rng.sample(MSG_LENS[1:-1], k) if quick else list(MSG_LENS)


# ------------------------------------------------------------------ schemes over E(F_p)
def pok_cases(rng, ids, tier):
    quick = tier == "quick"
    nf = 1 if quick else 8
    out = []
    for ci, (cid, nbits) in enumerate(ids):
        muts = bn_muts(rng, "c", nbits, nf) + bn_muts(rng, "r", nbits, nf) + pt_muts(rng, "y", 1 if quick else 4)
        muts += ["cp:y:fy", "swap:c:r"]
        if quick and ci:
            muts = thin(rng, muts, 10)
        out += lines("pokdl %d %s" % (cid, seed(rng)), muts)
        muts = []
        for c in ("c0", "c1", "r0", "r1"):
            muts += bn_muts(rng, c, nbits, 1 if quick else 4, full=(c in ("c1", "r0") or not quick))
        muts += pt_muts(rng, "y0", 1 if quick else 2, full=not quick) + pt_muts(rng, "y1", 1 if quick else 2)
        muts += ["swap:y0:y1", "cp:y0:fy", "cp:y1:fy", "swap:c0:c1", "swap:r0:r1", "swap:c0:c1,swap:r0:r1,swap:y0:y1", "swap:c0:r0"]
        if quick:
            muts = thin(rng, muts, 16 if ci else 40)
        out += lines("pokor %d %s" % (cid, seed(rng)), muts)
    return out


def sok_cases(rng, ids, tier):
    quick = tier == "quick"
    nf = 1 if quick else 8
    out = []
    for ci, (cid, nbits) in enumerate(ids):
        m = rmsg(rng, rng.choice([5, 10, 20]))
        muts = bn_muts(rng, "c", nbits, nf) + bn_muts(rng, "s", nbits, nf) + pt_muts(rng, "y", 1 if quick else 4)
        muts += ["cp:y:fy", "swap:c:s"] + msg_muts(rng, m, 2 if quick else 8)
        if quick and ci:
            muts = thin(rng, muts, 10)
        out += lines("sokdl %d %s %s" % (cid, seed(rng), hx(m)), muts)
        for n in (pick_lens(rng, quick, 1 if ci else 3) if quick or ci in (0, len(ids) - 1) else [0, 64, 200]):
            m = rmsg(rng, n)
            out += lines("sokdl %d %s %s" % (cid, seed(rng), hx(m)), msg_muts(rng, m, 1)[: (2 if quick else 3)] + ["s:+n"])
        # the OR signature: implicit generator / explicit generators, witness for the first / the second statement
        variants = [(0, 0), (0, 1), (1, 0), (1, 1)]
        if quick:
            variants = [variants[ci % 4], variants[(ci + 3) % 4]]
        elif ci >= 2:
            variants = [variants[ci % 4]]
        for vi, (gflag, first) in enumerate(variants):
            m = rmsg(rng, rng.choice([5, 10, 20]))
            muts = []
            for c in ("c0", "c1", "s0", "s1"):
                muts += bn_muts(rng, c, nbits, 1 if quick else 4, full=(vi == 0 or not quick))
            muts += pt_muts(rng, "y0", 1, full=not quick) + pt_muts(rng, "y1", 1, full=not quick)
            muts += ["swap:y0:y1", "cp:y%d:fy" % (1 - first), "swap:c0:c1", "swap:s0:s1", "swap:c0:c1,swap:s0:s1,swap:y0:y1"]
            if gflag:
                muts += pt_muts(rng, "g0", 1, full=not quick) + pt_muts(rng, "g1", 1, full=not quick)
                muts += ["swap:g0:g1", "swap:g0:g1,swap:c0:c1,swap:s0:s1,swap:y0:y1"]
            muts += msg_muts(rng, m, 1 if quick else 6)
            if quick:
                muts = thin(rng, muts, 12 if ci else (40 if vi == 0 else 20))
            out += lines("sokor %d %s %d %d %s" % (cid, seed(rng), gflag, first, hx(m)), muts)
        for n in (pick_lens(rng, quick, 0 if ci else 2) if quick or ci in (0, len(ids) - 1) else [0, 64, 200]):
            m = rmsg(rng, n)
            out += lines("sokor %d %s %d %d %s" % (cid, seed(rng), rng.choice([0, 1]), rng.choice([0, 1]), hx(m)), msg_muts(rng, m, 1)[:2])
    return out


def vbnn_cases(rng, ids, tier):
    quick = tier == "quick"
    out = []
    for ci, (cid, nbits) in enumerate(ids):
        ident = rmsg(rng, 10)
        m = rmsg(rng, rng.choice([5, 10, 34]))
        muts = bn_muts(rng, "z", nbits, 1 if quick else 8) + bn_muts(rng, "hh", nbits, 1 if quick else 8)
        muts += pt_muts(rng, "R", 1 if quick else 4) + pt_muts(rng, "mpk", 1 if quick else 4)
        muts += ["cp:mpk:fmpk", "cp:R:fR", "fsig", "swap:z:hh", "swap:R:mpk"]
        muts += msg_muts(rng, m, 2 if quick else 10) + msg_muts(rng, ident, 2 if quick else 8, key="id")
        muts += ["id=%s,m=%s" % (hx(ident[:-1]), hx(ident[-1:] + m)), "id=.", "m=."]     # the same concatenation, split elsewhere
        if quick and ci:
            muts = thin(rng, muts, 14)
        out += lines("vbnn %d %s %s %s" % (cid, seed(rng), hx(ident), hx(m)), muts)
        for n in (pick_lens(rng, quick, 0 if ci else 2) if quick or ci in (0, len(ids) - 1) else [0, 64, 200]):
            m = rmsg(rng, n)
            ident = rmsg(rng, rng.choice([0, 1, 10, 64]))
            out += lines("vbnn %d %s %s %s" % (cid, seed(rng), hx(ident), hx(m)), msg_muts(rng, m, 1)[:2] + ["z:+n"])
    return out


def ring_entry_muts(rng, j, nbits, quick, names=("c", "s")):
    muts = []
    for c in names:
        for k in (0, 1):
            muts += bn_muts(rng, "%s%d%d" % (c, j, k), nbits, 1 if quick else 6, full=not quick)[: (3 if quick else 99)]
    return muts


def ring_cases(rng, ids, tier):
    """ERS / SMLERS / ETRS"""
    quick = tier == "quick"
    out = []
    for ci, (cid, nbits) in enumerate(ids):
        sizes = [1, 3] if quick else ([1, 2, 3, 4] if ci == 0 else [2])
        for size in sizes:
            m = rmsg(rng, rng.choice([5, 10, 20]))
            muts = bn_muts(rng, "td", nbits, 1 if quick else 8) + pt_muts(rng, "pp", 1, full=not quick)
            for j in (sorted(set([0, size - 1])) if not quick else [0]):
                muts += ring_entry_muts(rng, j, nbits, quick)
                muts += pt_muts(rng, "h%d" % j, 1, full=not quick) + pt_muts(rng, "pk%d" % j, 1, full=not quick)
                muts += ["cp:pk%d:fpk" % j]
            muts += ["ring:drop"] + msg_muts(rng, m, 1 if quick else 6)
            if size > 1:
                muts += ["ring:rot", "swap:pk0:pk1", "swap:h0:h1", "swap:c00:c10", "swap:h0:h1,swap:pk0:pk1", "cp:pk%d:fpk" % (size - 1),
                         "h0:dbl,td:bit:0"]
            if quick:
                muts = thin(rng, muts, 30)
            out += lines("ers %d %s %d %s" % (cid, seed(rng), size, hx(m)), muts, chunk=8)
        for n in pick_lens(rng, quick, 1):
            m = rmsg(rng, n)
            out += lines("ers %d %s 2 %s" % (cid, seed(rng), hx(m)), msg_muts(rng, m, 1)[:3])
        # same-message linkable version
        for size in ([2] if quick else ([1, 3] if ci == 0 else [2])):
            m = rmsg(rng, rng.choice([5, 10, 20]))
            muts = bn_muts(rng, "td", nbits, 1, full=not quick) + ["pp:dbl"]
            for j in (sorted(set([0, size - 1])) if not quick else [0]):
                muts += ring_entry_muts(rng, j, nbits, quick, names=("d", "t"))
                if not quick and j == 0:
                    muts += ring_entry_muts(rng, j, nbits, quick)
                muts += pt_muts(rng, "tau%d" % j, 1, full=not quick) + ["pk%d:dbl" % j, "h%d:neg" % j, "cp:pk%d:fpk" % j, "c%d0:+n" % j, "s%d1:bit:3" % j]
            muts += ["ring:drop"] + msg_muts(rng, m, 1 if quick else 6)
            if size > 1:
                muts += ["ring:rot", "swap:pk0:pk1", "swap:tau0:pk0", "swap:d00:c00", "swap:tau0:tau1", "tau0:dbl,tau1:dbl"]
            if quick:
                muts = thin(rng, muts, 30)
            if size > 1:
                # the tag of EVERY member is verified, not only the first one's (seed C05-w2)
                muts += [x for x in ["tau%d:dbl" % (size - 1), "tau%d:neg" % (size - 1)] + pt_muts(rng, "tau%d" % (size - 1), 1, full=False)
                         if x not in muts]
            out += lines("smlers %d %s %d %s" % (cid, seed(rng), size, hx(m)), muts, chunk=6)
        for n in (pick_lens(rng, quick, 0 if ci else 1) if quick or ci == 0 else [0, 200]):
            m = rmsg(rng, n)
            out += lines("smlers %d %s 2 %s" % (cid, seed(rng), hx(m)), msg_muts(rng, m, 1)[: (1 if quick else 2)])
        # threshold version: plans of sign / extend / join steps
        plans = ([(3, "s"), (3, "se"), (3, "su"), (4, "sue")] if quick or ci else
                 [(2, "s"), (4, "s"), (3, "se"), (3, "see"), (3, "su"), (4, "sue"), (4, "sueu"), (4, "suu")])
        for mx, plan in plans:
            m = rmsg(rng, rng.choice([5, 10, 20]))
            size = len(plan)
            hon = 1 + plan.count("u")
            left = mx - plan.count("e")
            muts = ["thres:%d" % t for t in range(0, size + 2) if t != hon]
            muts += msg_muts(rng, m, 1)[:2]
            if left > 0:
                muts += bn_muts(rng, "td0", nbits, 1, full=False) + bn_muts(rng, "y0", nbits, 1, full=False)
                muts += ["td%d:bit:7" % (left - 1), "y%d:=0" % (left - 1)]
                if left > 1:
                    muts += ["swap:td0:td1", "swap:y0:y1", "swap:td0:td1,swap:y0:y1"]
            muts += bn_muts(rng, "ry0", nbits, 1, full=False) + ["h0:dbl", "h0:neg", "h0:inf", "pk0:dbl", "cp:pk0:fpk", "c00:+n", "s01:bit:9", "pp:dbl", "pp:other"]
            if size > 1:
                muts += ["ring:rot", "ring:drop", "swap:pk0:pk1", "swap:h0:h1", "swap:ry0:ry1", "h%d:dbl" % (size - 1), "ry%d:bit:3" % (size - 1),
                         "ring:drop,thres:%d" % max(1, hon - 1)]
            if quick:
                muts = muts[:4] + rng.sample(muts[4:], min(len(muts) - 4, 10))
            out += lines("etrs %d %s %d %s %s" % (cid, seed(rng), mx, plan, hx(m)), muts, chunk=5)
        for n in (pick_lens(rng, quick, 0 if ci else 1) if quick or ci == 0 else [0, 200]):
            m = rmsg(rng, n)
            out += lines("etrs %d %s 2 s %s" % (cid, seed(rng), hx(m)), msg_muts(rng, m, 1)[: (1 if quick else 2)])
    return out


# ------------------------------------------------------------------ pairing-based schemes
NB = 254      # flips below the bit length of the group order of the 256-bit pairing curves


def g2_all(rng, names, quick):
    muts = []
    for i, k in enumerate(names):
        muts += pt_muts(rng, k, 1, full=(i == 0 or not quick), g2=True)
    return muts


def cl_cases(rng, tier):
    quick = tier == "quick"
    out = []
    m = rmsg(rng, rng.choice([5, 10, 20]))
    muts = []
    for c in ("a", "b", "c"):
        muts += pt_muts(rng, c, 1 if quick else 6)
    muts += g2_all(rng, ["x", "y"], quick)
    muts += ["swap:x:y", "swap:a:b", "swap:b:c", "a:dbl,b:dbl,c:dbl", "a:neg,b:neg,c:neg", "x:inf,c:inf", "y:inf,b:inf", "x:inf,y:inf,b:inf,c:inf",
             "a:inf,b:inf,c:inf", "a:dbl,b:dbl"]
    muts += msg_muts(rng, m, 2 if quick else 10)
    if quick:
        muts = thin(rng, muts, 40)
    muts += ["forge:b", "m=.,forge:b"]
    out += lines("cls %s %s" % (seed(rng), hx(m)), muts, chunk=14)
    for n in pick_lens(rng, quick, 2):
        m = rmsg(rng, n)
        out += lines("cls %s %s" % (seed(rng), hx(m)), msg_muts(rng, m, 1)[:3])
    # scheme B
    m = rmsg(rng, rng.choice([5, 10, 20]))
    muts = []
    for c in ("a", "A", "b", "B", "c"):
        muts += pt_muts(rng, c, 1 if quick else 4, full=(c in ("a", "B") or not quick))
    muts += bn_muts(rng, "r", NB, 2 if quick else 10)
    muts += g2_all(rng, ["z", "x", "y"], quick)
    muts += ["swap:x:y", "swap:y:z", "swap:a:A", "swap:b:B", "a:dbl,A:dbl,b:dbl,B:dbl,c:dbl", "z:inf,A:inf", "z:inf,A:inf,B:inf", "A:dbl,B:dbl"]
    muts += msg_muts(rng, m, 2 if quick else 10)
    if quick:
        muts = thin(rng, muts, 46)
    muts += ["forge:b", "forge:B", "forge:A", "a:inf,A:inf,b:inf,B:inf,c:inf"]
    out += lines("cli %s %s" % (seed(rng), hx(m)), muts, chunk=12)
    for n in pick_lens(rng, quick, 1):
        m = rmsg(rng, n)
        out += lines("cli %s %s" % (seed(rng), hx(m)), msg_muts(rng, m, 1)[:3])
    # scheme C
    for l in ([3] if quick else [1, 2, 3, 4]):
        ms = [rmsg(rng, rng.choice([0, 1, 5, 20, 64])) for _ in range(l)]
        muts = pt_muts(rng, "a", 1, full=not quick) + pt_muts(rng, "b", 1, full=not quick) + pt_muts(rng, "c", 1)
        muts += g2_all(rng, ["x", "y"], True)
        for j in range(l - 1):
            muts += pt_muts(rng, "A%d" % j, 1, full=False) + pt_muts(rng, "B%d" % j, 1, full=False)
            muts += pt_muts(rng, "z%d" % j, 1, full=False, g2=True)
        if l > 2:
            muts += ["swap:z0:z1", "swap:A0:A1", "swap:B0:B1", "swap:A0:A1,swap:B0:B1,swap:z0:z1", "swap:A0:A1,swap:B0:B1,swap:z0:z1,m1=%s,m2=%s" % (hx(ms[2]), hx(ms[1]))]
        for j in range(l):
            muts += msg_muts(rng, ms[j], 1, key="m%d" % j)[:2]
        if l > 1:
            muts += ["m0=%s,m1=%s" % (hx(ms[1]), hx(ms[0])), "a:dbl,b:dbl,c:dbl," + ",".join("A%d:dbl,B%d:dbl" % (j, j) for j in range(l - 1))]
        if quick:
            muts = thin(rng, muts, 40)
        muts += ["forge:b", "a:inf,b:inf,c:inf," + ",".join("A%d:inf,B%d:inf" % (j, j) for j in range(l - 1))]
        for j in range(l - 1):
            muts += ["forge:B%d" % j, "forge:A%d" % j]
        out += lines("clb %s %d %s" % (seed(rng), l, " ".join(hx(x) for x in ms)), muts, chunk=11)
    return out


def rnd_scalar(rng, nbytes=32):
    return rmsg(rng, nbytes)


def ps_cases(rng, tier):
    quick = tier == "quick"
    out = []
    m = rnd_scalar(rng, rng.choice([5, 31, 32]))
    muts = pt_muts(rng, "a", 1 if quick else 6) + pt_muts(rng, "b", 1 if quick else 6)
    muts += bn_muts(rng, "m0", NB, 2 if quick else 10)
    muts += g2_all(rng, ["g", "x", "y0"], quick)
    muts += ["swap:x:y0", "swap:g:x", "swap:a:b", "a:dbl,b:dbl", "a:neg,b:neg", "g:inf,x:inf,y0:inf", "g:inf,x:inf,y0:inf,b:inf", "x:inf,y0:inf,b:inf",
             "x:inf,y0:inf", "g:dbl,x:dbl,y0:dbl", "g:neg,x:neg,y0:neg", "g:neg"]
    if quick:
        muts = thin(rng, muts, 38)
    muts += ["a:inf,b:inf", "a:inf,b:inf,x:inf,y0:inf"]
    out += lines("pss %s %s" % (seed(rng), hx(m)), muts, chunk=14)
    for n in ([0, 64] if quick else [0, 1, 31, 32, 33, 64, 100]):
        out += lines("pss %s %s" % (seed(rng), hx(rnd_scalar(rng, n))), ["m0:bit:0", "m0:+n"])
    for l in ([3] if quick else [1, 2, 3, 4]):
        ms = [rnd_scalar(rng, rng.choice([0, 1, 16, 32, 40])) for _ in range(l)]
        muts = pt_muts(rng, "a", 1, full=not quick) + pt_muts(rng, "b", 1, full=not quick)
        muts += g2_all(rng, ["g", "x"], True)
        for j in range(l):
            muts += pt_muts(rng, "y%d" % j, 1, full=False, g2=True)[: (3 if quick else 9)]
            muts += bn_muts(rng, "m%d" % j, NB, 1, full=False)[:3]
        if l > 1:
            muts += ["swap:m0:m1", "swap:y0:y1", "swap:m0:m1,swap:y0:y1", "swap:x:y0"]
        muts += ["a:dbl,b:dbl", "g:inf,x:inf,b:inf," + ",".join("y%d:inf" % j for j in range(l)),
                 "g:inf,x:inf," + ",".join("y%d:inf" % j for j in range(l)), "x:inf,b:inf," + ",".join("y%d:inf" % j for j in range(l))]
        if quick:
            muts = thin(rng, muts, 35)
        muts += ["a:inf,b:inf"]
        out += lines("psb %s %d %s" % (seed(rng), l, " ".join(hx(x) for x in ms)), muts, chunk=12)
    # two-party versions
    m0, m1 = rnd_scalar(rng, 32), rnd_scalar(rng, 32)
    muts = pt_muts(rng, "a", 1, full=not quick) + pt_muts(rng, "b0", 1, full=not quick) + pt_muts(rng, "b1", 1, full=False)
    muts += bn_muts(rng, "m00", NB, 1, full=False) + bn_muts(rng, "m01", NB, 1, full=False)
    muts += g2_all(rng, ["g", "x", "y0"], quick)
    muts += ["swap:b0:b1", "swap:m00:m01", "m00:bit:0,m01:bit:0", "a:dbl,b0:dbl,b1:dbl", "a:dbl,b0:dbl", "x:inf,y0:inf,b0:inf,b1:inf",
             "g:inf,x:inf,y0:inf", "g:inf,x:inf,y0:inf,b0:inf,b1:inf", "swap:x:y0", "g:neg", "g:neg,x:neg,y0:neg"]
    if quick:
        muts = thin(rng, muts, 38)
    muts += ["a:inf,b0:inf,b1:inf", "a:inf,b0:neg,swap:b0:b1"]
    out += lines("mpss %s %s %s" % (seed(rng), hx(m0), hx(m1)), muts, chunk=14)
    for l, vflag in ([(2, 0), (2, 1)] if quick else [(1, 0), (2, 0), (3, 0), (1, 1), (2, 1), (3, 1)]):
        ms = [rnd_scalar(rng, rng.choice([1, 16, 32])) for _ in range(2 * l)]
        muts = ["a:inf", "a:dbl", "a:fx:3", "b0:neg", "b1:other", "swap:b0:b1", "a:dbl,b0:dbl,b1:dbl", "g:+T", "g:neg", "x:dbl", "x:inf", "x:fx:%d" % rng.randrange(255)]
        for j in range(l):
            muts += ["m%d0:bit:%d" % (j, rng.randrange(100)), "m%d1:+n" % j, "swap:m%d0:m%d1" % (j, j), "y%d:neg" % j, "y%d:+T" % j, "y%d:inf" % j]
        if l > 1:
            muts += ["swap:m00:m10", "swap:m00:m10,swap:m01:m11", "swap:y0:y1", "swap:m00:m10,swap:m01:m11,swap:y0:y1"]
        if quick:
            muts = thin(rng, muts, 17)
        muts += ["a:inf,b0:inf,b1:inf"]
        out += lines("mpsb %s %d %d %s" % (seed(rng), l, vflag, " ".join(hx(x) for x in ms)), muts, chunk=10)
    return out


def ascii_str(rng, n):
    return bytes(rng.choice(b"abcdefghijklmnopqrstuvwxyz0123456789-_/.") for _ in range(n))


def lhs_cases(rng, tier):
    quick = tier == "quick"
    out = []
    # the dataset identifier plays the role of the message text: lengths from 0 to several hash blocks
    dlens = [0, 19, 200] if quick else [0, 1, 19, 55, 56, 64, 119, 120, 128, 200]
    shapes = [(2, 2), (1, 3)] if quick else [(1, 1), (2, 2), (1, 3), (3, 3), (2, 3)]
    for S, L in shapes:
        data = ascii_str(rng, 19)
        muts = pt_muts(rng, "sig", 1 if quick else 6) + bn_muts(rng, "m", NB, 1 if quick else 8)
        for j in range(S):
            muts += bn_muts(rng, "mu%d" % j, NB, 1, full=False) + pt_muts(rng, "pk%d" % j, 1, full=(j == 0), g2=True)
            muts += ["mu%d:bit:1,m:bit:1" % j, "id%d=%s" % (j, hx(ascii_str(rng, 6))), "f:%d:0:%x" % (j, rng.randrange(1, 1 << 24)), "flen:%d:%d" % (j, L - 1)]
        if S > 1:
            muts += ["swap:mu0:mu1", "swap:pk0:pk1", "swap:mu0:mu1,swap:pk0:pk1"]
        muts += msg_muts(rng, data, 1, key="data")[:3]
        muts = [x for x in muts if "flen" not in x or L > 1]
        muts = [x for x in muts if x != "data=" + hx(data + b"\x00")]
        if quick:
            muts = thin(rng, muts, 26)
        out += lines("mklhs %s %d %d %s" % (seed(rng), S, L, hx(data)), muts, chunk=9)
    for n in dlens:
        data = ascii_str(rng, n)
        out += lines("mklhs %s 1 1 %s" % (seed(rng), hx(data)), ["data=" + hx(data + b"x"), "sig:neg"])
    # more signers than labels: the verifier's normalisation runs over the wrong count
    out += lines("mklhs %s 2 1 %s" % (seed(rng), hx(ascii_str(rng, 8))), ["sig:neg", "m:bit:0"])
    for S, L in ([(1, 2), (2, 1)] if quick else [(1, 1), (1, 3), (2, 2), (3, 2)]):
        data = ascii_str(rng, 19)
        muts = pt_muts(rng, "r", 1, full=not quick) + pt_muts(rng, "s", 1, g2=True) + bn_muts(rng, "m", NB, 1, full=False) + ["h:dbl", "h:other", "h:inf"]
        for j in range(S):
            for c in ("sig", "a", "c"):
                muts += pt_muts(rng, "%s%d" % (c, j), 1, full=False)[: (3 if quick else 9)]
            for c in ("z", "y", "pk"):
                muts += pt_muts(rng, "%s%d" % (c, j), 1, full=False, g2=True)[: (3 if quick else 9)]
            muts += ["f:%d:0:%x" % (j, rng.randrange(1, 1 << 24)), "z%d:dbl" % j, "y%d:dbl" % j, "pk%d:dbl" % j, "swap:a%d:c%d" % (j, j), "swap:z%d:y%d" % (j, j)]
        if S > 1:
            muts += ["swap:a0:a1", "swap:y0:y1", "swap:z0:z1,swap:sig0:sig1", "swap:pk0:pk1"]
        muts += msg_muts(rng, data, 1, key="data")[:3]
        muts = [x for x in muts if x != "data=" + hx(data + b"\x00")]
        if quick:
            muts = thin(rng, muts, 30)
        out += lines("cmlhs %s 1 %d %d %s" % (seed(rng), S, L, hx(data)), muts, chunk=8)
    for n in dlens:
        data = ascii_str(rng, n)
        out += lines("cmlhs %s 1 1 1 %s" % (seed(rng), hx(data)), ["data=" + hx(data + b"x")])
    return out


def memory_cases(cases, limit=None):
    """the sub-cases that stress buffer sizing (identity points: 1-byte encodings; empty strings; thresholds and ring sizes;
    every shape of the homomorphic verifiers): run once more with the AddressSanitizer build of the library"""
    out = []
    shapes = set()
    for ln in cases:
        t = ln.split()
        if "honest" not in t:
            continue
        k = t.index("honest")
        head, muts = t[:k], t[k + 1:]
        keep = [m for m in muts if ":inf" in m or m.startswith("thres:") or "ring:drop" in m or m.endswith("=.") or m.startswith("flen:")]
        shape = (head[0],) + tuple(head[2:-1])          # homomorphic verifiers: (bls,) signers, labels - once per shape
        if keep or (head[0] in ("mklhs", "cmlhs") and shape not in shapes):
            shapes.add(shape)
            out.append(" ".join(head + ["honest"] + keep))
    return out if limit is None else out[:limit]


def all_cases(rng, ids, tier):
    """ids: [(curve id, bits of the group order)] accepted by ep_param_set; quick uses the first and the last of them"""
    quick = tier == "quick"
    ec_ids = ids if not quick else ([ids[0], ids[-1]] if len(ids) > 1 else ids)
    ring_ids = ids[:1] if quick else ([ids[0], ids[-1]] if len(ids) > 1 else ids)
    return (pok_cases(rng, ec_ids, tier) + sok_cases(rng, ec_ids, tier) + vbnn_cases(rng, ec_ids, tier)
            + ring_cases(rng, ring_ids, tier) + cl_cases(rng, tier) + ps_cases(rng, tier) + lhs_cases(rng, tier))
