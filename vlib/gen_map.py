"""Input generation for C13 (hashing to curve groups): messages and uniform byte strings.
Python only chooses INPUTS here (which bytes to feed); what the maps must return is decided by
tla/model/MapSpec.tla.  The exceptional field elements are computed from the constants the library
reports in its map_params event (Z = ep_map_u, the curve / isogenous-curve coefficients)."""
import random


def le(v):
    return int.from_bytes(bytes(v), "little")


class CurveInfo:
    """abstract values of the constants of a map_params event"""

    def __init__(self, e):
        self.spec = e["curve"]
        self.p = le(e["p"])
        self.mont = e["mont"]
        self.R = 1 << (8 * e["w"] * e["fd"])
        self.a = self.val(e["ca"])
        self.b = self.val(e["cb"])
        self.Z = self.val(e["mu"])
        self.L = (e["fpp"] + e["lvl"] + 7) // 8
        self.rndsz = e["rndsz"]
        self.ctmap = e["ctmap"] == 1
        self.pairf = e.get("pairf", 0)
        self.h = le(e["h"]["d"])
        self.n = le(e["n"]["d"])
        if self.ctmap:
            self.A, self.B = self.val(e["ia"]), self.val(e["ib"])
        else:
            self.A, self.B = self.a, self.b
        self.sswu = self.ctmap or (self.a != 0 and self.b != 0)
        self.swift = self.a == 0 and self.b != 0 and self.p % 3 == 1 and e["super"] == 0

    def val(self, raw):
        v = le(raw)
        return v * pow(self.R, -1, self.p) % self.p if self.mont else v

    def g(self, x):
        return (x * x * x + self.A * x + self.B) % self.p


def sqrt_mod(a, p):
    """a square root of a mod p or None (input generation only)"""
    a %= p
    if a == 0:
        return 0
    if pow(a, (p - 1) // 2, p) != 1:
        return None
    if p % 4 == 3:
        return pow(a, (p + 1) // 4, p)
    q, s = p - 1, 0
    while q % 2 == 0:
        q //= 2
        s += 1
    z = 2
    while pow(z, (p - 1) // 2, p) != p - 1:
        z += 1
    m, c, t, r = s, pow(z, q, p), pow(a, q, p), pow(a, (q + 1) // 2, p)
    while t != 1:
        i, t2 = 0, t
        while t2 != 1:
            t2 = t2 * t2 % p
            i += 1
        b = pow(c, 1 << (m - i - 1), p)
        m, c = i, b * b % p
        t, r = t * c % p, r * b % p
    return r


def exceptional_u(cv):
    """field elements at which the maps take their exceptional branch"""
    p, out = cv.p, [0]
    if cv.sswu:
        # tv1 = Z^2 u^4 + Z u^2 = 0  <=>  u = 0 or Z u^2 = -1
        r = sqrt_mod(-pow(cv.Z, -1, p), p)
        if r is not None:
            out += [r, p - r]
    else:
        # (1 + u^2 g(Z)) (1 - u^2 g(Z)) = 0
        gz = cv.g(cv.Z)
        for s in (1, -1):
            r = sqrt_mod(s * pow(gz, -1, p), p)
            if r is not None:
                out += [r, p - r]
    return out


def enc(cv, u, k=0):
    """L-byte big-endian string that reduces to u: u + k p"""
    v = u + k * cv.p
    if v >= 1 << (8 * cv.L):
        v = u
    return v.to_bytes(cv.L, "big")


def hx(b):
    return b.hex() if b else "."


def uniform_cases(cv, rng, nrand, ops=("ep_map_rnd",)):
    """uniform strings for the direct entry point"""
    L, p = cv.L, cv.p
    kmax = ((1 << (8 * L)) - 1) // p
    exc = exceptional_u(cv)
    small = [1, 2, 3, p - 1, p - 2, (p - 1) // 2, (p + 1) // 2]
    pairs = []
    for u in exc:
        pairs += [(enc(cv, u), enc(cv, u)), (enc(cv, u, rng.randrange(1, kmax + 1)), enc(cv, rng.randrange(p))),
                  (enc(cv, rng.randrange(p)), enc(cv, u, kmax))]
    pairs += [(enc(cv, 0), enc(cv, 0)), (enc(cv, 0, 1), enc(cv, 0, kmax)), (enc(cv, 0, 2), enc(cv, 1))]
    pairs += [(b"\xff" * L, b"\xff" * L), (b"\xff" * L, enc(cv, 0))]
    for u in small:
        pairs.append((enc(cv, u, rng.randrange(0, kmax + 1)), enc(cv, rng.choice(small), rng.randrange(0, kmax + 1))))
    # equal elements (the sum is a doubling) and opposite elements (the sum is the identity)
    for _ in range(2):
        u = rng.randrange(1, p)
        pairs += [(enc(cv, u), enc(cv, u, 1)), (enc(cv, u), enc(cv, p - u)), (enc(cv, u, kmax), enc(cv, p - u, 1))]
    if exc[1:]:
        pairs.append((enc(cv, exc[1]), enc(cv, p - exc[1])))
    # parity classes of u (sign rule) with random values
    for _ in range(nrand):
        pairs.append((rng.randbytes(L), rng.randbytes(L)))
    out = []
    for op in ops:
        for (x, y) in pairs:
            s = x + y
            if cv.rndsz > 2 * L:                # SwiftEC builds: one more byte carrying the sign bit
                s += bytes([rng.randrange(256)])
            out.append("%s %s %s" % (op, cv.spec, hx(s)))
        # longer than needed (the surplus is ignored by the two-element maps), shorter (refused), empty
        out.append("%s %s %s" % (op, cv.spec, hx(rng.randbytes(cv.rndsz + 5))))
        out.append("%s %s %s" % (op, cv.spec, hx(rng.randbytes(cv.rndsz - 1))))
        out.append("%s %s ." % (op, cv.spec))
    return out


def swift_uniform_cases(cv, rng, nrand):
    """uniform strings for the SwiftEC entry point (EP_MAP = SWIFT builds): t1 = 0, t2 = 0, both sign bits"""
    L, p = cv.L, cv.p
    out = []
    pairs = [(0, 0), (0, rng.randrange(1, p)), (rng.randrange(1, p), 0), (1, 1), (p - 1, 1), (1, p - 1)]
    pairs += [(rng.randrange(p), rng.randrange(p)) for _ in range(nrand)]
    for (t1, t2) in pairs:
        for s in (0, 1):
            out.append("ep_map_rnd %s %s" % (cv.spec, hx(enc(cv, t1) + enc(cv, t2) + bytes([rng.randrange(128) * 2 + s]))))
    out.append("ep_map_rnd %s %s" % (cv.spec, hx(rng.randbytes(cv.rndsz - 1))))
    return out


# message lengths: empty, tiny, around every SHA-256 block boundary of the first expand_message_xmd hash input
# (Z_pad(64) || msg || 3 bytes || DST' of 6-7 bytes, then 9 bytes of padding) up to several blocks
def message_lengths():
    ls = set([0, 1, 2, 3, 5, 8, 16, 31, 32, 33, 63, 64, 65, 127, 128, 129, 191, 192, 193, 255, 256, 257, 299, 300])
    for k in range(1, 6):
        for d in range(-3, 4):
            v = 64 * k - 19 + d          # 64 + len + 3 + 7 + 9 = 64 (k + 1)  <=>  len = 64 k - 19
            if 0 <= v <= 300:
                ls.add(v)
    return sorted(ls)


def message(rng, n, kind):
    if kind == 0:
        return bytes(n)
    if kind == 1:
        return b"\xff" * n
    if kind == 2:
        return bytes((i * 7 + 1) & 0xff for i in range(n))
    return rng.randbytes(n)


def message_cases(spec, ops, rng, lengths, per_len=1):
    out = []
    for n in lengths:
        for j in range(per_len):
            m = message(rng, n, rng.choice([0, 1, 2, 3, 3, 3]) if n else 0)
            for op in ops:
                out.append("%s %s %s" % (op, spec, hx(m)))
    return out
