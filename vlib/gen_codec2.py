"""Case generation for the external representations of binary-field elements and binary-curve points
(C07, second part; harness/drv_codec2.c).  Pure INPUT data: the little GF(2^m) arithmetic (vlib/gen_fb.BField)
only serves to CONSTRUCT interesting inputs (points of the curve in several representations, abscissae without
a point, the point of order two, coordinates with coefficients at or above x^m); every judgement is made by the
TLA+ trace specification (tla/model/Codec2Spec.tla).

Case line:  <op> <sel> <args...>   (see harness/drv_codec2.c)"""
from vlib.gen_fb import BField, TINY_POLYS, tiny_curves

ALPHA = "0123456789ABCDEFGHIJKLMNOPQRSTUVWXYZabcdefghijklmnopqrstuvwxyz+/"
VALID_RADIX = (2, 4, 8, 16, 32, 64)
INVALID_RADIX = (0, 1, 3, 5, 6, 7, 9, 10, 12, 15, 17, 24, 31, 33, 36, 48, 62, 63, 65, 100, 128, 256, 65536, 1 << 31)


def hx(v):
    return "%x" % v


def hb(bs):
    return bs.hex() if bs else "."


def be(v, n):
    return (v & ((1 << (8 * n)) - 1)).to_bytes(n, "big")


def from_le(bs):
    return int.from_bytes(bytes(bs), "little")


def numeral(v, radix):
    if v == 0:
        return "0"
    ds = []
    while v:
        ds.append(ALPHA[v % radix])
        v //= radix
    return "".join(reversed(ds))


# --------------------------------------------------------------------------
# curves (input construction only)
# --------------------------------------------------------------------------
class BC:
    """y^2 + xy = x^3 + a x^2 + b over GF(2^m), m odd"""

    def __init__(self, sel, F, a, b, G, n, h, digs):
        self.sel, self.F, self.a, self.b, self.G, self.n, self.h, self.digs = sel, F, a, b, G, n, h, digs
        self.m, self.fb = F.m, F.fb

    def rhs(self, x):
        F = self.F
        x2 = F.sqr(x)
        return F.mul(x2, x) ^ F.mul(self.a, x2) ^ self.b

    def on(self, P):
        F = self.F
        return F.sqr(P[1]) ^ F.mul(P[0], P[1]) == self.rhs(P[0])

    def neg(self, P):
        return (P[0], P[0] ^ P[1])

    def order_two(self):
        return (0, self.F.sqrt(self.b))

    def lift(self, x):
        """a point with abscissa x, or None (half-trace: m is odd)"""
        F = self.F
        if x == 0:
            return self.order_two()
        c = F.mul(self.rhs(x), F.sqr(F.inv(x)))
        if F.trace(c):
            return None
        z = F.halftrace(c)
        return (x, F.mul(x, z))

    def bit(self, P):
        """the bit of the packed form: bit 0 of y/x"""
        if P[0] == 0:
            return 0
        return self.F.mul(P[1], self.F.inv(P[0])) & 1

    def next_on(self, x):
        while True:
            P = self.lift(x)
            if P is not None and x:
                return P
            x = (x + 1) & ((1 << self.m) - 1)

    def next_off(self, x):
        while True:
            if x and self.lift(x) is None:
                return x
            x = (x + 1) & ((1 << self.m) - 1)

    def add(self, P, Q):
        F = self.F
        if P is None:
            return Q
        if Q is None:
            return P
        if P[0] == Q[0]:
            if P[1] != Q[1] or P[0] == 0:
                return None
            l = P[0] ^ F.mul(P[1], F.inv(P[0]))
            x3 = F.sqr(l) ^ l ^ self.a
            return (x3, F.sqr(P[0]) ^ F.mul(l ^ 1, x3))
        l = F.mul(P[1] ^ Q[1], F.inv(P[0] ^ Q[0]))
        x3 = F.sqr(l) ^ l ^ P[0] ^ Q[0] ^ self.a
        return (x3, F.mul(l, P[0] ^ x3) ^ x3 ^ P[1])


    def mul(self, k, P):
        R = None
        for b in bin(k)[2:]:
            R = self.add(R, R)
            if b == "1":
                R = self.add(R, P)
        return R


def probe_cases(sels):
    return ["curve_probe %s" % s for s in sels]


def field_from_probe(e):
    return BField(e["sel"], e["m"], from_le(e["f"]), 8 * e["w"], e["fd"])


def curve_from_probe(e):
    F = field_from_probe(e)
    G = (from_le(e["G"]["x"]), from_le(e["G"]["y"]))
    return BC(e["sel"], F, from_le(e["ca"]), from_le(e["cb"]), G, from_le(e["n"]["d"]), from_le(e["h"]["d"]), e["digs"])


def tiny_sels():
    """the tiny world of C16: GF(2^17), 8-bit digits: its two curves and its field polynomials"""
    return [cv.sel for cv in tiny_curves()], list(TINY_POLYS)


# --------------------------------------------------------------------------
# field elements
# --------------------------------------------------------------------------
def unreduced(F, rng, base):
    """values below 2^(8 fb) with a coefficient at or above x^m"""
    m, top = F.m, 8 * F.fb
    if top == m:
        return []
    vs = [1 << b for b in range(m, top)]
    vs += [base | (1 << m), base ^ F.f, (1 << top) - 1, F.f, (1 << m) | 1, base | (1 << (top - 1))]
    vs += [rng.getrandbits(top) | (1 << rng.randrange(m, top)) for _ in range(3)]
    return sorted(set(v for v in vs if v.bit_length() > m and v < (1 << top)))


def gen_fb(F, digs, rng, tier, budget=1.0):
    quick = tier == "quick"
    c, m, fb = F.sel, F.m, F.fb
    cases = []
    vals = F.corners(rng, nrand=int((4 if quick else 24) * budget))
    few = vals[:8] + vals[-2:]
    # ---- binary
    for j, v in enumerate(vals):
        for ln in (sorted({0, 1, fb - 1, fb, fb + 1, 2 * fb}) if (j < 6 or not quick) else (fb,)):
            cases.append("fb_write_bin %s %s %d" % (c, hx(v), ln))
        cases.append("fb_read_bin %s %s" % (c, hb(be(v, fb))))
    v0 = vals[-1]
    for ln in range(0, fb + 3):                                       # every length around the valid one
        cases.append("fb_read_bin %s %s" % (c, hb((be(v0, fb) + b"\0\0\0")[:ln])))
        cases.append("fb_read_bin %s %s" % (c, hb((b"\0\0\0" + be(v0, fb))[3 + fb - ln:] if ln <= fb + 3 else b"")))
        cases.append("fb_read_bin %s %s" % (c, hb(b"\0" * ln)))
    for v in unreduced(F, rng, v0):                                    # coefficients at or above x^m
        cases.append("fb_read_bin %s %s" % (c, hb(be(v, fb))))
    # ---- text
    tvals = vals if not quick else few + vals[8:-2][::3]
    for v in tvals:
        for radix in VALID_RADIX:
            nm = numeral(v, radix)
            cases.append("fb_size_str %s %s %d" % (c, hx(v), radix))
            for ln in sorted({0, 1, len(nm), len(nm) + 1, len(nm) + 2}):
                cases.append("fb_write_str %s %s %d %d" % (c, hx(v), radix, ln))
            cases.append("fb_read_str %s %s %d" % (c, hb(nm.encode() + b"\0"), radix))
    for v in few:
        for radix in VALID_RADIX:
            nm = numeral(v, radix).encode()
            rd = lambda s: cases.append("fb_read_str %s %s %d" % (c, hb(s), radix))
            rd(nm)                                                     # the length is the limit, no terminator
            rd(nm.lower() + b"\0")                                     # below radix 36 letters fold
            rd(b"00" + nm + b"\0")                                     # leading zeros
            rd(b"-" + nm + b"\0")                                      # a sign means nothing in characteristic two
            rd(nm + b"\0" + b"1")                                      # the terminator ends the numeral
            mid = len(nm) // 2
            bad = (ALPHA[radix] if radix < 64 else "!").encode()
            rd(nm[:mid] + bad + nm[mid:] + b"\0")                      # a character that is no digit of the radix
            rd(nm + b" \0")
            rd(b" " + nm + b"\0")
        for radix in INVALID_RADIX:
            cases.append("fb_size_str %s %s %d" % (c, hx(v), radix))
            cases.append("fb_write_str %s %s %d %d" % (c, hx(v), radix, m + 2))
            cases.append("fb_read_str %s %s %d" % (c, hb(b"101\0"), radix))
    for _ in range(int((40 if quick else 400) * budget)):              # seeded random: element x radix x buffer
        v = rng.getrandbits(rng.choice((m, m, m - 1, rng.randrange(1, m + 1))))
        radix = rng.choice(VALID_RADIX)
        nm = numeral(v, radix)
        cases.append("fb_size_str %s %s %d" % (c, hx(v), radix))
        cases.append("fb_write_str %s %s %d %d" % (c, hx(v), radix, len(nm) + 1 + rng.choice((0, 0, 0, 1, -1, 9))))
        cases.append("fb_read_str %s %s %d" % (c, hb(nm.encode() + rng.choice((b"\0", b"", b"\0\0"))), radix))
        cases.append("fb_write_bin %s %s %d" % (c, hx(v), fb))
        cases.append("fb_read_bin %s %s" % (c, hb(be(rng.getrandbits(8 * fb), fb))))
    for radix in VALID_RADIX + INVALID_RADIX[:6]:
        rd = lambda s: cases.append("fb_read_str %s %s %d" % (c, hb(s), radix))
        rd(b"")
        rd(b"\0")
        rd(b"-")
        rd(b"-\0")
        for v in [(1 << m) - 1, 1 << m, (1 << m) | 1, (1 << (m + 1)) - 1, 1 << (8 * fb), F.f, 1 << (m + 70)]:
            rd(numeral(v, min(max(radix, 2), 64)).encode() + b"\0")     # degree m - 1 (the largest), then too large
        lr = max(1, radix.bit_length() - 1)
        rd(b"1" * ((F.wbits * digs) // lr + 40) + b"\0")               # longer than the integer precision
        rd(b"0" * 50 + b"1\0")
    return cases


# --------------------------------------------------------------------------
# points
# --------------------------------------------------------------------------
def pt_tok(P, rep=""):
    if P is None:
        return "inf"
    return "%x,%x%s" % (P[0], P[1], rep)


def mutations(enc):
    out = []
    for i in range(len(enc)):
        for b in (0x00, 0xFF, enc[i] ^ 0x01):
            if b != enc[i]:
                out.append(enc[:i] + bytes([b]) + enc[i + 1:])
    return out


def reps(cv, rng, full=True):
    F = cv.F
    zs = [2, 3, (1 << F.m) - 1, 1 << (F.m - 1), F.rnd(rng) | 1]
    out = ["", "/P", "/p%x" % rng.choice(zs), "/p%x" % (F.rnd(rng) | 2)]
    if full:
        out += ["/p%x" % z for z in zs[:4]] + ["/h"]
    return out


def point_set(cv, rng, nrand):
    G = cv.G
    T = cv.order_two()
    pts = [T, G, cv.neg(G)]
    P = G
    for _ in range(4):                                                # 2G .. 5G
        P = cv.add(P, G)
        pts.append(P)
    pts.append(cv.neg(pts[3]))                                        # -2G
    pts.append(cv.add(G, T))                                          # outside the subgroup of prime order
    pts += [cv.next_on(1), cv.next_on((1 << (cv.m - 1)) | 5), cv.next_on((1 << cv.m) - 40)]
    for _ in range(nrand):
        Q = cv.next_on(cv.F.rnd(rng))
        pts += [Q, cv.neg(Q)] if rng.random() < 0.5 else [Q]
    for _ in range(max(1, nrand // 3)):                               # [h]Q: random points of the subgroup of prime order
        Q = cv.next_on(cv.F.rnd(rng))
        for _ in range(cv.h.bit_length() - 1):
            Q = cv.add(Q, Q)
        pts.append(Q)
    for k in ([rng.getrandbits(40)] if nrand < 10 else [rng.getrandbits(40), rng.randrange(1, cv.n), cv.n - 2]):
        pts.append(cv.mul(k, G))                                      # scalar multiples of G
    seen, out = set(), []
    for Q in pts:
        if Q is not None and Q not in seen:
            seen.add(Q)
            out.append(Q)
    return out


def gen_eb(cv, rng, tier, budget=1.0):
    quick = tier == "quick"
    c, F, m, fb = cv.sel, cv.F, cv.m, cv.fb
    cases = []
    pts = point_set(cv, rng, int((4 if quick else 24) * budget))
    T = cv.order_two()
    # ---- writers
    for tok in ("inf", "inf0p"):
        for pack in (0, 1):
            cases.append("eb_size_bin %s %s %d" % (c, tok, pack))
            for ln in (0, 1, 2, fb + 1, 2 * fb + 2):
                cases.append("eb_write_bin %s %s %d %d" % (c, tok, pack, ln))
    for j, P in enumerate(pts):
        for rep in reps(cv, rng, full=(j < 5 or not quick)):
            for pack in (0, 1):
                size = 1 + fb * (1 if pack else 2)
                cases.append("eb_size_bin %s %s %d" % (c, pt_tok(P, rep), pack))
                for ln in (sorted({0, 1, size - 1, size, size + 1}) if rep in ("", "/h") or rep.startswith("/p") and j < 5
                           else (size - 1, size)):
                    cases.append("eb_write_bin %s %s %d %d" % (c, pt_tok(P, rep), pack, ln))
        for al in (0, 1):
            cases.append("eb_pck %s %s %d" % (c, pt_tok(P), al))
            for bit in (0, 1):
                cases.append("eb_upk %s %s %d %d" % (c, hx(P[0]), bit, al))
    offs = sorted({cv.next_off(s) for s in (1, 2, F.rnd(rng), F.rnd(rng), (1 << m) - 40, 1 << (m - 1))})
    for x in offs:                                                    # abscissae without a point
        for bit in (0, 1):
            cases.append("eb_upk %s %s %d 0" % (c, hx(x), bit))
        cases.append("eb_upk %s %s 1 1" % (c, hx(x)))

    # ---- reader
    def rd(bs):
        cases.append("eb_read_bin %s %s" % (c, hb(bs)))
    rd(b"")
    for P in pts:
        x, y = be(P[0], fb), be(P[1], fb)
        for tag in (2, 3):
            rd(bytes([tag]) + x)                                       # both points over x
        rd(b"\4" + x + y)
        rd(b"\4" + x + be(P[0] ^ P[1], fb))                            # the opposite point
        rd(b"\4" + x + be(P[1] ^ 1, fb))                               # wrong ordinate: off the curve
        rd(b"\4" + y + x)                                              # coordinates swapped
    P = pts[len(pts) // 2]
    x, y = be(P[0], fb), be(P[1], fb)
    for body in (b"", x, x + y):                                       # every tag byte on a valid body
        for tag in range(256):
            rd(bytes([tag]) + body)
    for tag in (0, 2, 3, 4, 6):                                        # every length 0..L+2
        for ln in range(0, 2 * fb + 4):
            rd((bytes([tag]) + x + y + b"\0\0\0")[:ln])
    for Q in ([P] if quick else pts[1:5]):
        xq, yq = be(Q[0], fb), be(Q[1], fb)
        for full in (b"\4" + xq + yq, bytes([2 + cv.bit(Q)]) + xq, bytes([3 - cv.bit(Q)]) + xq):
            muts = mutations(full)
            if quick:
                muts = muts[:6] + rng.sample(muts[6:], min(len(muts) - 6, 60))
            for mu in muts:
                rd(mu)
        rd(b"\0" + b"\4" + xq + yq)                                     # leading / trailing garbage
        rd(b"\4" + xq + yq + b"\0")
        rd(b"\2" + xq + b"\0")
        rd(b"\0" + b"\2" + xq)
        rd(b"\6" + xq + yq)                                            # hybrid forms are not accepted
        rd(b"\7" + xq + yq)
    for bad in unreduced(F, rng, P[0]):                                # coordinates with coefficients at or above x^m
        bb = be(bad, fb)
        for tag in (2, 3):
            rd(bytes([tag]) + bb)
        rd(b"\4" + bb + y)
        rd(b"\4" + x + bb)
        rd(b"\4" + bb + bb)
    if 8 * fb > m:
        for Q in pts[:6]:                                              # a valid point with a coordinate + f: must not be reduced
            rd(b"\4" + be(Q[0] ^ F.f, fb) + be(Q[1], fb))
            rd(b"\4" + be(Q[0], fb) + be(Q[1] ^ F.f, fb))
            rd(b"\4" + be(Q[0] ^ F.f, fb) + be(Q[1] ^ F.f, fb))
            rd(bytes([2 + cv.bit(Q)]) + be(Q[0] ^ F.f, fb))
            rd(bytes([3 - cv.bit(Q)]) + be(Q[0] ^ F.f, fb))
            rd(b"\4" + be(Q[0] | (1 << (8 * fb - 1)), fb) + be(Q[1], fb))
    for x0 in offs:                                                    # x with no point on the curve
        xb = be(x0, fb)
        rd(b"\2" + xb)
        rd(b"\3" + xb)
        rd(b"\4" + xb + y)
        rd(b"\4" + xb + be(0, fb))
        rd(b"\4" + xb + be(1, fb))
        rd(b"\4" + xb + xb)
    # seeded random: abscissae (about half have no point), the points over them in random representations, random
    # strings of the three valid lengths
    top = 1 << (8 * fb)
    for j in range(int((60 if quick else 600) * budget)):
        xv = F.rnd(rng)
        Q = cv.lift(xv)
        xb = be(xv, fb)
        rd(b"\2" + xb)
        rd(b"\3" + xb)
        cases.append("eb_upk %s %s %d %d" % (c, hx(xv), j % 2, j // 2 % 2))
        if Q is None:
            rd(b"\4" + xb + be(F.rnd(rng), fb))
            continue
        if j % 3 == 0:
            Q = cv.neg(Q)
        rd(b"\4" + xb + be(Q[1], fb))
        rd(b"\4" + xb + be(Q[1] ^ (1 << rng.randrange(8 * fb)), fb))    # one bit of the ordinate flipped (may leave the field)
        rd(b"\4" + be(Q[0] ^ (1 << rng.randrange(8 * fb)), fb) + be(Q[1], fb))
        rep = rng.choice(["", "/P", "/p%x" % (F.rnd(rng) | 2), "/p%x" % (F.rnd(rng) | 2), "/h"])
        for pack in (0, 1):
            size = 1 + fb * (1 if pack else 2)
            cases.append("eb_write_bin %s %s %d %d" % (c, pt_tok(Q, rep), pack, size + rng.choice((0, 0, 0, 1, -1, 7))))
        cases.append("eb_pck %s %s %d" % (c, pt_tok(Q), j % 2))
        for ln in (1, fb + 1, 2 * fb + 1):
            rd(bytes([rng.choice((0, 2, 3, 4, 4, rng.randrange(256)))]) + bytes(rng.randrange(256) for _ in range(ln - 1)))
    # x = 0: the point of order two (0, sqrt b); only bit 0 is canonical
    rd(b"\2" + be(0, fb))
    rd(b"\3" + be(0, fb))
    rd(b"\4" + be(0, fb) + be(T[1], fb))
    rd(b"\4" + be(0, fb) + be(0, fb))
    rd(b"\4" + be(0, fb) + be(T[1] ^ 1, fb))
    rd(b"\4" + be(T[1], fb) + be(0, fb))
    return cases


def gen_tiny_eb(cv, rng, tier):
    """tiny world GF(2^17) (a field element is three bytes): dense samples of strings of every length, of abscissae
    and of points"""
    quick = tier == "quick"
    c, F, m, fb = cv.sel, cv.F, cv.m, cv.fb
    cases = []

    def rd(bs):
        cases.append("eb_read_bin %s %s" % (c, hb(bs)))
    for t in range(256):
        rd(bytes([t]))
    top = 1 << (8 * fb)
    n1 = 600 if quick else 20000
    for _ in range(n1):                                                # compressed forms over random 24-bit abscissae
        xv = rng.randrange(top) if rng.random() < 0.3 else rng.randrange(1 << m)
        rd(bytes([rng.choice((2, 3))]) + be(xv, fb))
    for _ in range(n1 // 4):
        rd(bytes([rng.randrange(256)]) + be(rng.randrange(1 << m), fb))
    xs = range(1 << m) if not quick else [rng.randrange(1 << m) for _ in range(500)]
    for xv in xs:                                                      # thorough: EVERY abscissa, both bits
        for bit in (0, 1):
            cases.append("eb_upk %s %s %d %d" % (c, hx(xv), bit, 0))
    pts = []
    for _ in range(400 if quick else 6000):
        P = cv.next_on(rng.randrange(1 << m))
        pts.append(P if rng.random() < 0.5 else cv.neg(P))
    for j, P in enumerate(pts):
        x, y = be(P[0], fb), be(P[1], fb)
        rd(b"\4" + x + y)
        if j % 4 == 0:
            rd(b"\4" + x + be(P[1] ^ (1 << rng.randrange(8 * fb)), fb))   # one bit of the ordinate flipped (may leave the field)
            rd(b"\4" + be(P[0] ^ (1 << rng.randrange(8 * fb)), fb) + y)
            rd(bytes([rng.randrange(256)]) + x + y)
        rep = rng.choice(["", "", "/P", "/p%x" % (rng.randrange(2, 1 << m)), "/p%x" % (rng.randrange(2, 1 << m)), "/h"])
        for pack in (0, 1):
            size = 1 + fb * (1 if pack else 2)
            cases.append("eb_write_bin %s %s %d %d" % (c, pt_tok(P, rep), pack, size if j % 8 else size - 1 + (j // 8) % 3))
        if j % 2 == 0:
            cases.append("eb_pck %s %s %d" % (c, pt_tok(P), j % 4 // 2))
    for _ in range(300 if quick else 5000):                            # random strings of every length
        ln = rng.randrange(0, 2 * fb + 4)
        rd(bytes(rng.randrange(256) for _ in range(ln)))
    for _ in range(300 if quick else 5000):                            # random pairs: nearly all off the curve
        rd(b"\4" + be(rng.randrange(1 << m), fb) + be(rng.randrange(1 << m), fb))
    return cases


def gen_tiny_fb(F, rng, tier):
    """tiny world: dense samples of 3-byte strings and of elements through the text forms"""
    quick = tier == "quick"
    c, m, fb = F.sel, F.m, F.fb
    cases = []
    top = 1 << (8 * fb)
    for _ in range(300 if quick else 4000):
        cases.append("fb_read_bin %s %s" % (c, hb(be(rng.randrange(top), fb))))
    for _ in range(100 if quick else 1000):
        ln = rng.randrange(0, fb + 3)
        cases.append("fb_read_bin %s %s" % (c, hb(bytes(rng.randrange(256) for _ in range(ln)))))
    for _ in range(100 if quick else 3000):
        v = rng.getrandbits(rng.randrange(1, m + 1))
        radix = rng.choice(VALID_RADIX)
        nm = numeral(v, radix)
        cases.append("fb_write_str %s %s %d %d" % (c, hx(v), radix, len(nm) + rng.choice((0, 1, 1, 1, 2))))
        cases.append("fb_read_str %s %s %d" % (c, hb(nm.encode() + b"\0"), radix))
        cases.append("fb_write_bin %s %s %d" % (c, hx(v), fb))
    for v in range(0, 70 if quick else 1100):                          # every small element x every radix 0..70
        for radix in range(0, 71) if (not quick or v % 9 == 0) else VALID_RADIX:
            cases.append("fb_size_str %s %s %d" % (c, hx(v), radix))
            if radix in VALID_RADIX or v % 9 == 0:
                nm = numeral(v, min(max(radix, 2), 64))             # an invalid radix: any numeral will do
                cases.append("fb_write_str %s %s %d %d" % (c, hx(v), radix, len(nm) + 1))
                cases.append("fb_read_str %s %s %d" % (c, hb(nm.encode() + b"\0"), radix))
    return cases
