"""Shared machinery of bin/check: build cache, TLC runner, trace validation,
evidence writer, known-findings loader.  See DESIGN.md section 2."""
import fcntl
import hashlib
import json
import os
import re
import shutil
import subprocess
import sys
import time

ROOT = "/verif"
# VERIF_REPO / VERIF_BUILD: private source tree and build/evidence area, used ONLY for
# mutation experiments (a scratch worktree of /repo); registered checks never set them.
REPO = os.environ.get("VERIF_REPO", "/repo")
BUILD = os.environ.get("VERIF_BUILD", os.path.join(ROOT, "build"))
TLA = os.path.join(ROOT, "tla")
HARNESS = os.path.join(ROOT, "harness")
EVID = os.path.join(ROOT, "evidence") if "VERIF_BUILD" not in os.environ else os.path.join(BUILD, "evidence")
TLAJAR = "/opt/veriftools/tla/tla2tools.jar"
TLACP = TLAJAR + ":/opt/veriftools/tla/CommunityModules-deps.jar"
GUARD = "RELIC_VERIF"
NCPU = min(16, os.cpu_count() or 4)


class InfraError(Exception):
    """Something in the machinery itself failed (exit 2, never a VIOLATION)."""


def log(*a):
    print("[check]", *a, flush=True)


def sh(cmd, timeout=600, cwd=None, env=None, check=False, stdin=None):
    e = dict(os.environ)
    if env:
        e.update(env)
    try:
        p = subprocess.run(cmd, shell=isinstance(cmd, str), cwd=cwd, env=e, input=stdin,
                           stdout=subprocess.PIPE, stderr=subprocess.STDOUT,
                           timeout=timeout, text=True, errors="replace")
        rc, out = p.returncode, p.stdout
    except subprocess.TimeoutExpired as ex:
        rc = 124
        out = ex.stdout or ""
        if isinstance(out, bytes):
            out = out.decode(errors="replace")
        out += "\n[timeout after %ss]" % timeout
    if check and rc != 0:
        raise InfraError("command failed (%s): %s\n%s" % (rc, cmd, out[-3000:]))
    return rc, out


# --------------------------------------------------------------------------
# build cache
# --------------------------------------------------------------------------
_COMMON = ["-DTESTS=0", "-DBENCH=0", "-DSHLIB=OFF", "-DSTLIB=ON",
           "-DCMAKE_BUILD_TYPE=RelWithDebInfo"]
_TINY_WITH = "BN;DV;FP;MD;EP;FPX;EPX;PP;PC;EB;FB;EC"

CONFIGS = {
    # the pinned configuration (all defaults)
    "std256": dict(args=[]),
    "w8p8": dict(args=["-DWSIZE=8", "-DARCH=", "-DBN_PRECI=32", "-DFP_PRIME=8",
                        "-DFB_POLYN=17", "-DWITH=" + _TINY_WITH]),
    "w8p16": dict(args=["-DWSIZE=8", "-DARCH=", "-DBN_PRECI=64", "-DFP_PRIME=16",
                         "-DFB_POLYN=17", "-DWITH=" + _TINY_WITH]),
    "w8bn": dict(args=["-DWSIZE=8", "-DARCH=", "-DBN_PRECI=64", "-DFP_PRIME=16",
                        "-DFB_POLYN=17", "-DWITH=BN;DV;MD"]),
    "ep-basic": dict(args=["-DEP_METHD=BASIC;LWNAF;COMBS;INTER;SSWUM"]),
    "ep-jacob": dict(args=["-DEP_METHD=JACOB;LWNAF;COMBS;INTER;SSWUM"]),
    "b12-381": dict(args=["-DFP_PRIME=381", "-DFP_QNRES=on"]),
    "ed255": dict(args=["-DFP_PRIME=255"]),
    "rsapd-basic": dict(args=["-DCP_RSAPD=BASIC"]),
    "rsapd-pkcs1": dict(args=["-DCP_RSAPD=PKCS1"]),
    "multi": dict(args=["-DMULTI=PTHREAD"]),
    "dyn": dict(args=["-DALLOC=DYNAMIC"]),
    "asan": dict(args=["-DCMAKE_C_COMPILER=clang"],
                 cflags="-fsanitize=address,undefined -fno-omit-frame-pointer -fno-sanitize-recover=undefined",
                 cc="clang"),
}


_ASAN_FLAGS = "-fsanitize=address,undefined -fno-omit-frame-pointer -fno-sanitize-recover=undefined"


def config(cfg):
    """configuration record; '<name>-asan' derives the clang ASan+UBSan variant of <name>"""
    if cfg in CONFIGS:
        return CONFIGS[cfg]
    if cfg.endswith("-asan") and cfg[:-5] in CONFIGS:
        base = CONFIGS[cfg[:-5]]
        return dict(args=base["args"] + ["-DCMAKE_C_COMPILER=clang"],
                    cflags=(base.get("cflags", "") + " " + _ASAN_FLAGS).strip(), cc="clang")
    m = re.match(r"^fp(\d+)(q?)(-asan)?$", cfg)
    if m:
        # generic field-size variant of the pinned configuration ("sweep" builds): fp315, fp638, fp381q (FP_QNRES=on) ...
        args = ["-DFP_PRIME=" + m.group(1)] + (["-DFP_QNRES=on"] if m.group(2) else [])
        if m.group(3):
            return dict(args=args + ["-DCMAKE_C_COMPILER=clang"], cflags=_ASAN_FLAGS, cc="clang")
        return dict(args=args)
    raise InfraError("unknown configuration " + cfg)


def _hash_tree():
    h = hashlib.sha256()
    roots = ["src", "include", "cmake", "CMakeLists.txt", "test", "preset"]
    for r in roots:
        p = os.path.join(REPO, r)
        if os.path.isfile(p):
            h.update(r.encode())
            h.update(open(p, "rb").read())
            continue
        for d, dirs, files in os.walk(p):
            dirs.sort()
            for f in sorted(files):
                fp = os.path.join(d, f)
                h.update(fp.encode())
                try:
                    h.update(open(fp, "rb").read())
                except OSError:
                    pass
    return h.hexdigest()[:16]


_SRC_HASH = None


def src_hash():
    global _SRC_HASH
    if _SRC_HASH is None:
        _SRC_HASH = _hash_tree()
    return _SRC_HASH


class Lock:
    def __init__(self, name):
        os.makedirs(os.path.join(BUILD, "locks"), exist_ok=True)
        self.path = os.path.join(BUILD, "locks", name + ".lock")

    def __enter__(self):
        self.f = open(self.path, "w")
        fcntl.flock(self.f, fcntl.LOCK_EX)
        return self

    def __exit__(self, *a):
        fcntl.flock(self.f, fcntl.LOCK_UN)
        self.f.close()


def build_relic(cfg, extra_args=None, tag=None):
    """Build librelic_s.a of /repo's working tree in configuration cfg.
    Returns the build directory (include/ and lib/librelic_s.a inside)."""
    c = config(cfg)
    name = tag or cfg
    h = src_hash()
    bdir = os.path.join(BUILD, "relic", "%s-%s" % (name, h))
    lib = os.path.join(bdir, "lib", "librelic_s.a")
    with Lock("relic-" + name):
        if os.path.exists(lib) and os.path.exists(os.path.join(bdir, ".ok")):
            os.utime(os.path.join(bdir, ".ok"))
            return bdir
        # evict older hashes of this configuration
        base = os.path.join(BUILD, "relic")
        os.makedirs(base, exist_ok=True)
        for d in os.listdir(base):
            # exactly <name>-<16 hex digits>: "ed255" must not evict "ed255-extnd-..."
            if re.fullmatch(re.escape(name) + r"-[0-9a-f]{16}", d) and d != os.path.basename(bdir):
                # a build of another source state may still be in use by a running check: only
                # builds not used for two hours are evicted
                okf = os.path.join(base, d, ".ok")
                try:
                    age = time.time() - os.path.getmtime(okf)
                except OSError:
                    age = 1e9
                if age > 7200:
                    shutil.rmtree(os.path.join(base, d), ignore_errors=True)
        shutil.rmtree(bdir, ignore_errors=True)
        cflags = "-Wno-error -D%s %s" % (GUARD, c.get("cflags", ""))
        args = ["cmake", "-G", "Ninja", "-S", REPO, "-B", bdir] + _COMMON + \
               ["-DCFLAGS=" + cflags.strip()] + c["args"] + (extra_args or [])
        t0 = time.time()
        env = {"CFLAGS": ""}
        rc, out = sh(args, timeout=300, env=env)
        if rc != 0:
            raise InfraError("cmake configure failed for %s:\n%s" % (cfg, out[-3000:]))
        rc, out = sh(["cmake", "--build", bdir, "-j", str(NCPU)], timeout=900)
        if rc != 0 or not os.path.exists(lib):
            raise InfraError("build failed for %s:\n%s" % (cfg, out[-4000:]))
        open(os.path.join(bdir, ".ok"), "w").write("ok")
        log("built %s in %.1fs" % (name, time.time() - t0))
    return bdir


def cc_harness(cfg, name, sources, bdir=None, extra=None, wraps=None, objs_first=None):
    """Compile a harness program against the configuration's static library."""
    bdir = bdir or build_relic(cfg)
    c = config(cfg) if (cfg in CONFIGS or cfg.endswith("-asan") or re.match(r"^fp\d+q?$", cfg)) else {}
    cc = c.get("cc", "gcc")
    exe = os.path.join(bdir, "h_" + name)
    srcs = [s if os.path.isabs(s) else os.path.join(HARNESS, s) for s in sources]
    deps = srcs + [os.path.join(HARNESS, f) for f in os.listdir(HARNESS) if f.endswith(".h")]
    with Lock("cc-%s-%s" % (os.path.basename(bdir), name)):
        if os.path.exists(exe):
            mt = os.path.getmtime(exe)
            if all(os.path.getmtime(d) <= mt for d in deps):
                return exe
        cmd = [cc, "-O1", "-g", "-Wno-error", "-D" + GUARD, "-I", os.path.join(bdir, "include"),
               "-I", os.path.join(REPO, "include"), "-I", os.path.join(REPO, "include", "low"),
               "-I", HARNESS]
        if c.get("cflags"):
            cmd += c["cflags"].split()
        cmd += (extra or [])
        cmd += ["-o", exe] + srcs + (objs_first or []) + [os.path.join(bdir, "lib", "librelic_s.a")]
        for w in (wraps or []):
            cmd.append("-Wl,--wrap=" + w)
        cmd += ["-lm", "-lpthread"]
        rc, out = sh(cmd, timeout=300)
        if rc != 0:
            raise InfraError("harness compile failed (%s/%s):\n%s" % (cfg, name, out[-4000:]))
    return exe


# --------------------------------------------------------------------------
# TLC
# --------------------------------------------------------------------------
TLALIB_ACC = os.path.join(BUILD, "tlalib")     # .tla + BigNat.class (accelerated)
TLALIB_PURE = os.path.join(TLA, "lib")         # .tla only (pure definitions)


def setup_tlalib():
    """Compile the Java overrides and assemble the accelerated library dir.
    Files are replaced atomically and only when the source is newer, so TLC
    processes started by concurrent checks never see a half-written module."""
    with Lock("tlalib"):
        os.makedirs(TLALIB_ACC, exist_ok=True)
        newest = 0
        for f in os.listdir(TLALIB_PURE):
            src = os.path.join(TLALIB_PURE, f)
            newest = max(newest, os.path.getmtime(src))
            if f.endswith(".tla"):
                dst = os.path.join(TLALIB_ACC, f)
                if not os.path.exists(dst) or os.path.getmtime(src) > os.path.getmtime(dst):
                    tmp = dst + ".tmp%d" % os.getpid()
                    shutil.copy2(src, tmp)
                    os.replace(tmp, dst)
        stamp = os.path.join(TLALIB_ACC, ".stamp")
        if os.path.exists(stamp) and os.path.getmtime(stamp) >= newest:
            return True
        javas = [os.path.join(TLALIB_PURE, f) for f in os.listdir(TLALIB_PURE) if f.endswith(".java")]
        if javas and shutil.which("javac"):
            tmpd = os.path.join(TLALIB_ACC, ".javac%d" % os.getpid())
            os.makedirs(tmpd, exist_ok=True)
            rc, out = sh(["javac", "-nowarn", "-cp", TLAJAR, "-d", tmpd] + javas, timeout=120)
            if rc != 0:
                raise InfraError("javac failed:\n" + out[-3000:])
            for f in os.listdir(tmpd):
                os.replace(os.path.join(tmpd, f), os.path.join(TLALIB_ACC, f))
            shutil.rmtree(tmpd, ignore_errors=True)
        open(stamp, "w").write("ok")
    return True


class TlcResult:
    def __init__(self, rc, out, wall):
        self.rc = rc
        self.out = out
        self.wall = wall
        m = re.search(r"(\d[\d,]*) states generated, (\d[\d,]*) distinct states found", out)
        self.generated = int(m.group(1).replace(",", "")) if m else 0
        self.distinct = int(m.group(2).replace(",", "")) if m else 0
        m = re.search(r"depth of the complete state graph search is (\d+)", out)
        self.depth = int(m.group(1)) if m else 0
        self.ok = (rc == 0 and "No error has been found" in out)
        self.invariant_violated = None
        m = re.search(r"Invariant (\S+) is violated", out)
        if m:
            self.invariant_violated = m.group(1)
        m = re.search(r"Action property (\S+) is violated", out)
        if m:
            self.invariant_violated = m.group(1)
        self.prints = re.findall(r"^<<\"@@\", (.*)>>$", out, re.M)

    def coverage(self):
        """per-action 'taken:generated' counts from -coverage output"""
        cov = {}
        for m in re.finditer(r"^<(\w+) line \d+, col \d+ to line \d+, col \d+ of module (\w+)>: (\d+):(\d+)", self.out, re.M):
            cov[m.group(1)] = (int(m.group(3)), int(m.group(4)))
        return cov


def tlc(spec, cfg=None, workers=NCPU, timeout=1200, env=None, pure=False, libs=None,
        simulate=None, depth=None, coverage=False, heap="8g", extra=None, metadir=None,
        deadlock=False, seed=None):
    """Run TLC on spec (absolute path or relative to /verif/tla)."""
    setup_tlalib()
    if not os.path.isabs(spec):
        spec = os.path.join(TLA, spec)
    sdir = os.path.dirname(spec)
    cfg = cfg or spec[:-4] + ".cfg"
    if not os.path.isabs(cfg):
        cfg = os.path.join(TLA, cfg)
    lib = [TLALIB_PURE if pure else TLALIB_ACC, os.path.join(TLA, "model"),
           os.path.join(TLA, "trace"), os.path.join(TLA, "gen")] + (libs or [])
    if metadir:
        md = metadir
        os.makedirs(md, exist_ok=True)
    else:
        import tempfile
        os.makedirs(os.path.join(BUILD, "tlc"), exist_ok=True)
        md = tempfile.mkdtemp(prefix=os.path.basename(spec)[:-4] + "-", dir=os.path.join(BUILD, "tlc"))
    cmd = ["java", "-Xss512m", "-Xmx" + heap, "-XX:+UseParallelGC",
           "-DTLA-Library=" + ":".join(lib), "-cp", TLACP, "tlc2.TLC",
           "-workers", str(workers), "-metadir", md, "-noGenerateSpecTE", "-config", cfg]
    if simulate:
        cmd += ["-simulate", "num=%d" % simulate]
    if depth:
        cmd += ["-depth", str(depth)]
    if coverage:
        cmd += ["-coverage", "1"]
    if deadlock:
        cmd += ["-deadlock"]
    if seed is not None:
        cmd += ["-seed", str(seed)]
    cmd += (extra or [])
    cmd.append(spec)
    t0 = time.time()
    rc, out = sh(cmd, timeout=timeout, cwd=sdir, env=env)
    shutil.rmtree(md, ignore_errors=True)
    return TlcResult(rc, out, time.time() - t0)


def tlc_mc(spec, cfg=None, **kw):
    """Model-check and insist on success; returns TlcResult.  A violated
    invariant of a design-level model on the unchanged spec is an
    infrastructure error unless the caller handles it."""
    r = tlc(spec, cfg, **kw)
    return r


# --------------------------------------------------------------------------
# trace validation
# --------------------------------------------------------------------------
def write_ndjson(path, events):
    with open(path, "w") as f:
        for e in events:
            f.write(json.dumps(e, separators=(",", ":")))
            f.write("\n")


def read_ndjson(path):
    """events of a trace file; a line cut short by a crash (followed by the CRASH/TIMEOUT event the
    signal handler wrote on its own line) is dropped"""
    out = []
    with open(path, errors="replace") as f:
        lines = [ln.strip() for ln in f]
    lines = [ln for ln in lines if ln]
    for j, line in enumerate(lines):
        try:
            out.append(json.loads(line))
        except ValueError:
            nxt = lines[j + 1] if j + 1 < len(lines) else ""
            if '"op":"CRASH"' in nxt or '"op":"TIMEOUT"' in nxt or j + 1 == len(lines):
                continue
            raise
    return out


class TraceVerdict:
    def __init__(self):
        self.accepted = 0          # events consumed in total
        self.rejected = []         # list of (event dict, shard file, index)
        self.known = []            # KNOWN-FINDING keys printed by the spec
        self.infra = []            # infrastructure failures (text)
        self.counters = {}         # branch label -> count (from the spec)
        self.wall = 0.0


def validate_trace(spec, events, workdir, shards=NCPU, timeout=900, env=None, cfg=None,
                   heap="3g", min_per_shard=200, seg_start=None, continue_after=False, _depth=0):
    """Validate a list of events with a trace specification.
    The spec reads IOEnv.TRACE, consumes events one per step and must print
    <<"@@", "REACHED", n>> from its POSTCONDITION (n = events consumed);
    <<"@@", "KF", key>> for each known finding; <<"@@","CNT",label,n>>."""
    from concurrent.futures import ThreadPoolExecutor
    os.makedirs(workdir, exist_ok=True)
    n = len(events)
    v = TraceVerdict()
    if n == 0:
        return v
    k = max(1, min(shards, n // min_per_shard if n >= min_per_shard else 1))
    per = (n + k - 1) // k
    parts = []
    if seg_start is None:
        chunks = [events[i * per:(i + 1) * per] for i in range(k)]
    else:
        # histories: cut only where an independent segment starts
        chunks, cur = [], []
        for j, e in enumerate(events):
            if cur and len(cur) >= per and j in seg_start:
                chunks.append(cur)
                cur = []
            cur.append(e)
        if cur:
            chunks.append(cur)
    for i, chunk in enumerate(chunks):
        if not chunk:
            continue
        p = os.path.join(workdir, "shard%02d.ndjson" % i)
        write_ndjson(p, chunk)
        parts.append((p, chunk))

    def one(pc):
        p, chunk = pc
        e = dict(env or {})
        e["TRACE"] = p
        r = tlc(spec, cfg, workers=1, timeout=timeout, env=e, heap=heap)
        return p, chunk, r

    t0 = time.time()
    with ThreadPoolExecutor(max_workers=min(len(parts), NCPU)) as ex:
        results = list(ex.map(one, parts))
    v.wall = time.time() - t0
    for p, chunk, r in results:
        reached = None
        for pr in r.prints:
            m = re.match(r'"REACHED", (\d+)', pr)
            if m:
                reached = int(m.group(1))
            m = re.match(r'"KF", (.*)$', pr)
            if m:
                v.known.append(m.group(1))
            m = re.match(r'"CNT", "([^"]*)", (\d+)', pr)
            if m:
                v.counters[m.group(1)] = v.counters.get(m.group(1), 0) + int(m.group(2))
        if reached is None:
            v.infra.append("TLC gave no verdict on %s (rc=%s):\n%s" % (p, r.rc, r.out[-2500:]))
            continue
        v.accepted += reached
        if reached < len(chunk):
            v.rejected.append((chunk[reached], p, reached))
            rest = chunk[reached + 1:]
            if continue_after and rest and _depth < 12:
                # stateless trace specs: keep validating what follows the rejected event,
                # so that one rejection does not leave the rest of the shard unexamined
                sub = validate_trace(spec, rest, workdir + "-c%d" % _depth, shards=1, timeout=timeout, env=env,
                                     cfg=cfg, heap=heap, min_per_shard=min_per_shard, continue_after=True,
                                     _depth=_depth + 1)
                v.accepted += sub.accepted
                v.rejected += sub.rejected
                v.known += sub.known
                v.infra += sub.infra
        elif reached > len(chunk):
            v.infra.append("TLC reached %d > %d on %s" % (reached, len(chunk), p))
    return v


# --------------------------------------------------------------------------
# known findings
# --------------------------------------------------------------------------
def known_findings(prop):
    p = os.path.join(ROOT, "known_findings.json")
    if not os.path.exists(p):
        return []
    return [k for k in json.load(open(p)) if k.get("property") == prop and k.get("status") == "known"]


# --------------------------------------------------------------------------
# evidence
# --------------------------------------------------------------------------
class Evidence:
    def __init__(self, prop, tier, seed):
        self.prop = prop
        self.tier = tier
        self.seed = seed
        self.t0 = time.time()
        self.cov = dict(states=0, transitions=0, traces_validated_against_impl=0,
                        evaluations=0, distinct_nontrivial=0, rule="", samples=[],
                        exhaustive=False, trusted_base=[], mc_runs=[], configs=[],
                        known_findings=[], parts={})
        self.assumptions = []
        self.violations = 0

    def add_mc(self, name, r, constants=""):
        self.cov["states"] += r.distinct
        self.cov["transitions"] += r.generated
        self.cov["mc_runs"].append(dict(spec=name, distinct=r.distinct, generated=r.generated,
                                        depth=r.depth, wall_s=round(r.wall, 1), constants=constants,
                                        ok=r.ok))

    def add_samples(self, items, limit=4):
        for it in items[:limit]:
            s = json.dumps(it)
            if len(s) > 1500:
                s = s[:1500] + "...(truncated)"
                self.cov["samples"].append(s)
            else:
                self.cov["samples"].append(it)

    def write(self):
        os.makedirs(EVID, exist_ok=True)
        d = dict(property_id=self.prop, tier=self.tier, seed=self.seed, level="model_checking",
                 coverage=self.cov, assumptions=self.assumptions,
                 wall_s=round(time.time() - self.t0, 1), violations=self.violations)
        tmp = os.path.join(EVID, self.prop + ".json.tmp")
        json.dump(d, open(tmp, "w"), indent=1)
        os.replace(tmp, os.path.join(EVID, self.prop + ".json"))


TRUSTED = ["TLC 1.8.0 (tla2tools.jar) and the CommunityModules Json/IOUtils/Bitwise overrides",
           "BigNat.java evaluation accelerator (cross-checked against the pure TLA+ definitions: MCBigNat)",
           "gcc/clang and cmake building /repo's working tree",
           "the projection code of the C harness (harness/vh.h): it only serialises raw object fields and bn_write_bin/fp_prime_back-style read-outs"]


def report_violation(prop, replay_path, what=""):
    print("VIOLATION property=%s replay=%s %s" % (prop, replay_path, what), flush=True)


def save_replay(prop, obj, name=None):
    d = os.path.join(BUILD, "replay")
    os.makedirs(d, exist_ok=True)
    p = os.path.join(d, "%s-%s.json" % (prop, name or str(int(time.time()))))
    json.dump(obj, open(p, "w"), indent=1)
    return p


# --------------------------------------------------------------------------
# driver execution
# --------------------------------------------------------------------------
def run_driver(exe, cases, trace, timeout=900, env=None, max_restarts=25, args=None):
    """Run a case driver; on CRASH/TIMEOUT events restart after the offending
    case.  cases: path of the case file; returns the list of events."""
    start = 0
    restarts = 0
    errlog = trace + ".stderr"
    while True:
        cmd = [exe, cases, trace, str(start)] + (args or [])
        e = dict(os.environ)
        e.update(env or {})
        e.setdefault("ASAN_OPTIONS", "detect_leaks=0:abort_on_error=1:handle_abort=0")
        e.setdefault("UBSAN_OPTIONS", "halt_on_error=1:abort_on_error=1:print_stacktrace=1")
        with open(errlog, "a") as ef:
            try:
                p = subprocess.run(cmd, env=e, stdout=ef, stderr=ef, timeout=timeout)
                rc = p.returncode
            except subprocess.TimeoutExpired:
                raise InfraError("driver %s exceeded %ss overall" % (exe, timeout))
        if rc == 0:
            break
        if rc in (3, 4) or rc < 0:
            # find the index of the abnormal case from the last line
            last = None
            with open(trace, "rb") as f:
                try:
                    f.seek(-4096, 2)
                except OSError:
                    f.seek(0)
                tail = [t for t in f.read().decode(errors="replace").strip().split("\n") if t.strip()]
            try:
                last = json.loads(tail[-1])
            except Exception:
                last = None
            if rc < 0 and not (last and last.get("op") in ("CRASH", "TIMEOUT")):
                # killed without our handler (e.g. sanitizer abort): synthesise the event
                idx = (last.get("i", start - 1) + 1) if last else start
                with open(trace, "a") as f:
                    f.write(json.dumps({"op": "CRASH", "i": idx, "sig": -rc}) + "\n")
                last = {"op": "CRASH", "i": idx}
            if rc in (3, 4) and (not last or "i" not in last):
                # the fatal-signal handler ran but its event did not reach the trace (a multi-threaded driver dying before
                # the first event): the abnormal end belongs to the first case not yet executed (seed C19-w1)
                with open(trace, "a") as f:
                    f.write(json.dumps({"op": "CRASH", "i": start, "sig": rc}) + "\n")
                last = {"op": "CRASH", "i": start}
            if not last or "i" not in last:
                raise InfraError("driver %s died (rc=%s) without an event; see %s" % (exe, rc, errlog))
            start = last["i"] + 1
            restarts += 1
            if restarts > max_restarts:
                raise InfraError("driver %s: too many abnormal cases" % exe)
            continue
        raise InfraError("driver %s failed rc=%s; see %s\n%s" % (exe, rc, errlog,
                                                                open(errlog).read()[-2000:]))
    return read_ndjson(trace)


def write_known_file(prop, workdir):
    """ndjson of the known-finding keys enabled for this property (read by the
    trace spec through IOEnv.KNOWN); always at least one (dummy) line."""
    p = os.path.join(workdir, "known.ndjson")
    ks = known_findings(prop)
    with open(p, "w") as f:
        f.write(json.dumps({"key": "-"}) + "\n")
        for k in ks:
            f.write(json.dumps({"key": k["key"]}) + "\n")
    return p


def workdir(prop, tier):
    d = os.path.join(BUILD, "work", "%s-%s" % (prop, tier))
    shutil.rmtree(d, ignore_errors=True)
    os.makedirs(d, exist_ok=True)
    return d


# --------------------------------------------------------------------------
# one complete code -> spec conformance pass (steps 4-6 of DESIGN.md 2.6)
# --------------------------------------------------------------------------
# collect mode (used by C08): Conformance.run only records what it would execute
COLLECT = None


class Conformance:
    """Execute case lines with a driver built for `cfg`, validate the recorded
    events with a trace spec, confirm rejections by re-running the case alone."""

    def __init__(self, prop, ev, wd):
        self.prop = prop
        self.ev = ev
        self.wd = wd
        self.known_file = write_known_file(prop, wd)
        self.violations = []       # (replay path, text)
        self.known_hits = {}       # key -> count
        self.infra = []

    def run(self, label, cfg, driver_name, driver_srcs, cases, spec, shards=NCPU, extra_cc=None,
            wraps=None, env=None, driver_timeout=900, tlc_timeout=900, driver_args=None,
            bdir=None, nontrivial=None, min_per_shard=200, seg_start=None, case_seg_start=None,
            heap="3g", stateless=True, objs_first=None, event_map=None, event_filter=None,
            max_restarts=25, spec_cfg=None):
        if COLLECT is not None:
            COLLECT.append(dict(prop=self.prop, label=label, cfg=cfg, driver_name=driver_name,
                                driver_srcs=driver_srcs, cases=list(cases), extra_cc=extra_cc, wraps=wraps,
                                driver_args=driver_args, custom_bdir=bdir is not None))
            return [], TraceVerdict()
        bdir = bdir or build_relic(cfg)
        exe = cc_harness(cfg, driver_name, driver_srcs, bdir=bdir, extra=extra_cc, wraps=wraps,
                         objs_first=objs_first)
        d = os.path.join(self.wd, label)
        os.makedirs(d, exist_ok=True)
        cpath = os.path.join(d, "cases.txt")
        with open(cpath, "w") as f:
            f.write("\n".join(cases) + "\n")
        t0 = time.time()
        events = run_driver(exe, cpath, os.path.join(d, "trace.ndjson"), timeout=driver_timeout,
                            args=driver_args, max_restarts=max_restarts)
        if event_map:
            events = [event_map(e) for e in events]
        all_events = events
        if event_filter:
            events = event_filter(events)
        t1 = time.time()
        tenv = dict(env or {})
        tenv["KNOWN"] = self.known_file
        cuts = None
        if case_seg_start is not None:
            # event indices at which an independent history (segment) begins
            S = set(i for i, ln in enumerate(cases) if case_seg_start(ln))
            cuts = set(j for j, e in enumerate(events)
                       if e.get("i") in S and (j == 0 or events[j - 1].get("i") != e.get("i")))
        v = validate_trace(spec, events, os.path.join(d, "tlc"), shards=shards, env=tenv,
                           timeout=tlc_timeout, min_per_shard=min_per_shard, seg_start=cuts, heap=heap,
                           continue_after=(case_seg_start is None and stateless), cfg=spec_cfg)
        log("%s/%s: %d cases, %d events, driver %.1fs, validation %.1fs, accepted %d, rejected %d"
            % (self.prop, label, len(cases), len(events), t1 - t0, v.wall, v.accepted, len(v.rejected)))
        for k in v.known:
            key = k.split(",")[0].strip().strip('"')
            self.known_hits[key] = self.known_hits.get(key, 0) + 1
        for msg in v.infra:
            self.infra.append(msg)
        # confirm each rejection by running the case alone (in parallel; beyond a cap the remaining
        # rejections are not re-run - at least the confirmed ones are reported)
        from concurrent.futures import ThreadPoolExecutor
        CAP = 48
        # one confirmation per CASE (a case may yield several events; the re-run judges all of them again)
        seen_ci, distinct = set(), []
        for item in v.rejected:
            ci = item[0].get("i", -1)
            key = ci if (0 <= ci < len(cases) and item[0].get("op") not in ("CRASH", "TIMEOUT")) else ("x", len(distinct))
            if key not in seen_ci:
                seen_ci.add(key)
                distinct.append(item)
        todo = distinct[:CAP]
        if len(distinct) > CAP:
            log("%s/%s: %d rejected cases, confirming the first %d" % (self.prop, label, len(distinct), CAP))

        def confirm(item):
            (e, shard, idx) = item
            ci = e.get("i", -1)
            line = cases[ci] if 0 <= ci < len(cases) else None
            confirmed = True
            ev2 = [e]
            infra = []
            if line is not None and e.get("op") not in ("CRASH", "TIMEOUT"):
                rd = os.path.join(d, "confirm%d" % ci)
                os.makedirs(rd, exist_ok=True)
                cp = os.path.join(rd, "cases.txt")
                if case_seg_start is not None:
                    # a history: re-run from the start of the independent segment
                    s0 = ci
                    while s0 > 0 and not case_seg_start(cases[s0]):
                        s0 -= 1
                    line = "\n".join(cases[s0:ci + 1])
                open(cp, "w").write(line + "\n")
                ev2 = run_driver(exe, cp, os.path.join(rd, "trace.ndjson"), timeout=300, args=driver_args)
                if event_map:
                    ev2 = [event_map(x) for x in ev2]
                if event_filter:
                    ev2 = event_filter(ev2)
                v2 = validate_trace(spec, ev2, os.path.join(rd, "tlc"), shards=1, env=tenv, timeout=600,
                                    cfg=spec_cfg)
                confirmed = bool(v2.rejected)
                if v2.infra:
                    infra = v2.infra
                    confirmed = False
                if not confirmed and not infra and case_seg_start is None and ci > 0:
                    # the outcome may depend on what the process did before (library context left by earlier
                    # cases): re-run growing windows of the preceding cases and judge the last case again
                    wsz = 8
                    while not confirmed:
                        w0 = max(0, ci - wsz)
                        window = cases[w0:ci + 1]
                        open(cp, "w").write("\n".join(window) + "\n")
                        evw = run_driver(exe, cp, os.path.join(rd, "trace.ndjson"), timeout=1200, args=driver_args)
                        if event_map:
                            evw = [event_map(x) for x in evw]
                        if event_filter:
                            evw = event_filter(evw)
                        last = [x for x in evw if x.get("i") == len(window) - 1]
                        if last:
                            vw = validate_trace(spec, last, os.path.join(rd, "tlcw"), shards=1, env=tenv,
                                                timeout=600, cfg=spec_cfg)
                            if vw.rejected and not vw.infra:
                                confirmed, line, ev2 = True, "\n".join(window), last
                        if w0 == 0:
                            break
                        wsz *= 8
            return e, ci, line, confirmed, ev2, infra

        with ThreadPoolExecutor(max_workers=8) as ex:
            results = list(ex.map(confirm, todo))
        for e, ci, line, confirmed, ev2, infra in results:
            self.infra.extend(infra)
            rp = save_replay(self.prop, dict(property=self.prop, label=label, cfg=cfg,
                                              driver=driver_name, driver_srcs=driver_srcs, spec=spec,
                                              extra_cc=extra_cc, wraps=wraps, env=env, spec_cfg=spec_cfg,
                                              driver_args=driver_args, case=line, event=ev2[0] if ev2 else e),
                             name="%s-%s" % (label, ci))
            if confirmed:
                self.violations.append((rp, "op=%s case=%r" % (e.get("op"), line)))
            elif not infra:
                self.infra.append("rejection of case %r in %s did not repeat" % (line, label))
        self.ev.cov["traces_validated_against_impl"] += v.accepted
        self.ev.cov["evaluations"] += len(all_events)
        seen = set()
        nt = 0
        for e in events:
            k = json.dumps({x: y for x, y in e.items() if x != "i"}, sort_keys=True)
            if k in seen:
                continue
            seen.add(k)
            if nontrivial is None or nontrivial(e):
                nt += 1
        self.ev.cov["distinct_nontrivial"] += nt
        self.ev.cov["parts"][label] = dict(cfg=cfg, cases=len(cases), events=len(events),
                                           accepted=v.accepted, distinct_nontrivial=nt,
                                           rejected=len(v.rejected))
        if cfg not in self.ev.cov["configs"]:
            self.ev.cov["configs"].append(cfg)
        if events:
            self.ev.add_samples([events[0], events[len(events) // 2]], limit=2)
        return events, v

    def finish(self):
        """Print KNOWN-FINDING / VIOLATION lines, write evidence, return exit code."""
        if COLLECT is not None:
            return 0
        kf = {k["key"]: k for k in known_findings(self.prop)}
        for key, n in sorted(self.known_hits.items()):
            what = kf.get(key, {}).get("what", key)
            print("KNOWN-FINDING: property=%s %s [%s, %d events]" % (self.prop, what, key, n), flush=True)
            self.ev.cov["known_findings"].append(dict(key=key, events=n))
        for rp, txt in self.violations:
            report_violation(self.prop, rp, txt)
        self.ev.violations = len(self.violations)
        self.ev.write()
        if self.violations:
            return 1
        if self.infra:
            for m in self.infra:
                print("INFRA-ERROR:", m, flush=True)
            return 2
        return 0


def replay_generic(path, objs_first=None, event_map=None):
    """bin/check <ID> --replay <file>: re-execute one recorded case."""
    r = json.load(open(path))
    prop = r["property"]
    wd = workdir(prop, "replay")
    ev = Evidence(prop, "quick", 0)
    c = Conformance(prop, ev, wd)
    if r.get("case") is None:
        print("replay file has no executable case (abnormal execution): %s" % r.get("event"))
        report_violation(prop, path)
        return 1
    events, v = c.run("replay", r["cfg"], r["driver"], r["driver_srcs"], r["case"].split("\n"), r["spec"],
                      shards=1, extra_cc=r.get("extra_cc"), wraps=r.get("wraps"), env=r.get("env"),
                      driver_args=r.get("driver_args"), objs_first=objs_first, event_map=event_map,
                      stateless=False, spec_cfg=r.get("spec_cfg"))
    for key, n in c.known_hits.items():
        print("KNOWN-FINDING: property=%s %s" % (prop, key))
    if c.violations:
        report_violation(prop, path)
        return 1
    return 2 if c.infra else 0


def run_models(ev, runs, parallel=3):
    """Model-check a list of (module, cfg, constants text, pure) design-level
    specs; a failing model is an infrastructure error (the model is part of
    the machinery: on the unchanged spec it must hold)."""
    from concurrent.futures import ThreadPoolExecutor
    if COLLECT is not None:
        return

    def one(run):
        mod, cfg, consts, pure = run[:4]
        kw = run[4] if len(run) > 4 else {}
        w = max(2, NCPU // parallel)
        return run, tlc("model/%s.tla" % mod, "model/%s.cfg" % cfg, workers=w, timeout=3000,
                        pure=pure, **kw)

    with ThreadPoolExecutor(max_workers=parallel) as ex:
        res = list(ex.map(one, runs))
    for run, r in res:
        ev.add_mc(run[1], r, run[2])
        if not r.ok:
            raise InfraError("model %s/%s failed (rc=%s):\n%s" % (run[0], run[1], r.rc, r.out[-3000:]))
        log("model %s: %d distinct states, %.1fs" % (run[1], r.distinct, r.wall))
