"""Input generation for C05 (signature schemes): case lines for harness/drv_sig.c.

A case line = one key pair, one honest signature and the mutation list of the property's
quantifier.  Python only chooses messages, seeds and WHICH mutations are applied (and builds
mutated messages / encoded-message strings); signatures are produced by the library, the
verdict on every (mutated) triple is the trace spec's (tla/model/SigSpec.tla)."""
import hashlib

# every SHA-256 padding class: empty, short, 55/56 (length field no longer fits), block boundaries, several blocks
MSG_LENS = [0, 1, 2, 31, 32, 33, 55, 56, 57, 63, 64, 65, 100, 119, 120, 127, 128, 129, 183, 184, 191, 192, 200]
DIGEST_LENS = [0, 1, 20, 28, 31, 32, 33, 48, 64]


def hx(b):
    return b.hex() if b else "."


def rmsg(rng, n):
    return bytes(rng.getrandbits(8) for _ in range(n))


def seed(rng):
    return rmsg(rng, 8).hex()


def flip(m, bit):
    b = bytearray(m)
    b[bit // 8] ^= 1 << (bit % 8)
    return bytes(b)


def msg_muts(rng, m, nflips, quick=True):
    """message mutations: single-bit flips, truncation, extension, zero prefix"""
    out = []
    if m:
        bits = list(range(8 * len(m)))
        pick = [0, 8 * len(m) - 1] + rng.sample(bits, min(len(bits), nflips))
        for b in sorted(set(pick))[:nflips + 2]:
            out.append("m=" + hx(flip(m, b)))
        out.append("m=" + hx(m[:-1]))
        out.append("m=" + hx(m[1:]))
    out.append("m=" + hx(m + b"\x00"))
    out.append("m=" + hx(b"\x00" + m))
    out.append("m=" + hx(m + rmsg(rng, 1)))
    return out


EC_RANGE = ["r+n", "s+n", "n-s", "n-r", "r=0", "s=0", "r=n", "s=n", "r=1", "s=1", "-r", "-s", "swap"]
EC_KEYS = ["q=inf", "q=-q", "q=2q", "q=G", "q=foreign", "q=other", "infkey"]


def ec_cases(rng, scheme, ids, tier):
    """ECDSA / EC-Schnorr on every selectable curve"""
    quick = tier == "quick"
    out = []
    ecss = scheme == "ecss"
    for ci, (cid, nbits) in enumerate(ids):
        # A. the complete structural mutation list on one short message
        m = rmsg(rng, rng.choice([5, 10, 20]))
        muts = ["honest"] + EC_RANGE + EC_KEYS + (["k0"] if ecss else [])
        nb = 4 if quick else 24
        for comp in ("rx", "sx"):
            bits = [0, nbits - 1, nbits, nbits + 7] + rng.sample(range(1, nbits - 1), nb)
            muts += ["%s:%d" % (comp, b) for b in bits]
        for comp in ("qx", "qy"):
            muts += ["%s:%d" % (comp, b) for b in [0, 255] + rng.sample(range(1, 255), 2 if quick else 8)]
        muts += msg_muts(rng, m, 3 if quick else 12)
        if not ecss:
            # the same triple submitted in the other mode: with the digest it is valid, with the message it is not
            muts += ["f=1:" + hx(hashlib.sha256(m).digest()), "f=1:" + hx(m)]
        out.append("%s %d %s 0 %s %s" % (scheme, cid, seed(rng), hx(m), " ".join(muts)))
        # B. message lengths 0..200 (every padding class), honest + a few message mutations each
        lens = MSG_LENS if not quick else ([0, 200] + rng.sample(MSG_LENS[1:-1], 5))
        for n in lens:
            m = rmsg(rng, n)
            muts = ["honest"] + msg_muts(rng, m, 1 if quick else 4)[: (3 if quick else 12)] + ["n-s"]
            if ecss and not quick:
                muts.append("infkey")
            out.append("%s %d %s 0 %s %s" % (scheme, cid, seed(rng), hx(m), " ".join(muts)))
        # C. pre-hashed mode (ECDSA): digest lengths below, at and above the order length
        if not ecss:
            for n in (DIGEST_LENS if not quick else [0, 32] + rng.sample([1, 20, 28, 31, 33, 48, 64], 2)):
                d = rmsg(rng, n)
                muts = ["honest", "n-s", "f=0:" + hx(d)] + msg_muts(rng, d, 1)[:4]
                if n == 32 or not quick:
                    muts.append("infkey")
                if n > (nbits + 7) // 8:
                    # bits beyond the order length are not part of e: the altered triple IS valid
                    muts.append("m=" + hx(d[:-1] + bytes([d[-1] ^ 1])))
                out.append("ecdsa %d %s 1 %s %s" % (cid, seed(rng), hx(d), " ".join(muts)))
        # D. thorough: every single-bit flip of r and s on the first curve of each family
        if not quick and ci in (0, len(ids) - 1):
            m = rmsg(rng, 33)
            for comp in ("rx", "sx"):
                for lo in range(0, nbits, 32):
                    muts = ["honest"] + ["%s:%d" % (comp, b) for b in range(lo, min(nbits, lo + 32))]
                    out.append("%s %d %s 0 %s %s" % (scheme, cid, "d" + "%02x" % ci, hx(m), " ".join(muts)))
    return out


RSA_SIG = ["s+N", "zp:1", "zp:3", "droplast", "lz", "s=0", "s=1", "s=N", "s=N-1", "N-s", "q=foreign"]


def pkcs1_em(k, h, with_id=True, ps=None, tail=b"", bt=1, sep=0, pad=0xFF):
    did = bytes.fromhex("3031300d060960864801650304020105000420") if with_id else b""
    t = did + h + tail
    if ps is None:
        ps = k - 3 - len(t)
    return bytes([0, bt]) + bytes([pad]) * ps + bytes([sep]) + t


def mgf1(seed_, n):
    out = b""
    c = 0
    while len(out) < n:
        out += hashlib.sha256(seed_ + c.to_bytes(4, "big")).digest()
        c += 1
    return out[:n]


def pss_em(mhash, emlen, hh=None, db=None, trailer=0xBC, salt=b""):
    """PSS-shaped encoded message (input construction; the driver clears the leftmost bits and signs it raw)"""
    if hh is None:
        hh = hashlib.sha256(bytes(8) + mhash + salt).digest()
    if db is None:
        db = bytes(emlen - 32 - 2 - len(salt)) + b"\x01" + salt
    mask = mgf1(hh, emlen - 33)
    return bytes(a ^ b for a, b in zip(db, mask)) + hh + bytes([trailer])


def rsa_cases(rng, tier, pad, bits_list):
    """RSA with the build's padding (pad in {"pss", "pkcs1", "basic"})"""
    quick = tier == "quick"
    out = []
    for bits, kseed, brief in bits_list:
        k = (bits + 7) // 8
        for flag in (0, 1):
            lens = ([5] + (rng.sample(MSG_LENS, 3) if quick else MSG_LENS)) if flag == 0 else [32]
            if brief and quick:
                lens = lens[:1]
            for j, n in enumerate(lens):
                m = rmsg(rng, n)
                h = hashlib.sha256(m).digest() if flag == 0 else m
                muts = ["honest"]
                if j == 0 and brief and quick:
                    muts += ["s+N", "zp:1", "sx:0", "sx:%d" % (8 * k - 1), "emx:-1:01", "emx:1:01", "q=foreign"]
                elif j == 0:
                    muts += RSA_SIG
                    nb = 6 if quick else 40
                    muts += ["sx:%d" % b for b in [0, 8 * k - 1, 8 * k - 8] + rng.sample(range(1, 8 * k - 1), nb)]
                    # byte mutations of the ENCODED message (signed again with the private exponent)
                    offs = [0, 1, 2, 3, k - 1, k - 2, k - 33, k - 34, k - 35, k - 52, k - 53, k - 54] + rng.sample(range(k), 4 if quick else 24)
                    for o in sorted(set(x for x in offs if 0 <= x < k)):
                        for xx in ([0x01, 0x80] if not quick else [0x80 if o == 0 else rng.choice([0x01, 0x80, 0xFF])]):
                            muts.append("emx:%d:%02x" % (o, xx))
                    muts += ["emx:0:40", "emx:0:01", "emx:-1:01", "emx:-1:ff"]
                    if pad == "pss" and bits % 8 == 0:
                        # consistent maskedDB for a digest field that differs from Hash(M') in one byte (first / middle / last),
                        # other trailer, DB variants (01 marker replaced, non-zero padding byte, one salt byte)
                        el = k
                        H0 = hashlib.sha256(bytes(8) + h).digest()
                        muts.append("emp=" + pss_em(h, el).hex())                  # the canonical one: valid
                        for pos in (0, 15, 16, 31):
                            muts.append("emp=" + pss_em(h, el, hh=H0[:pos] + bytes([H0[pos] ^ 1]) + H0[pos + 1:]).hex())
                        muts.append("emp=" + pss_em(h, el, trailer=0xCC).hex())
                        muts.append("emp=" + pss_em(h, el, db=bytes(el - 34) + b"\x02").hex())
                        muts.append("emp=" + pss_em(h, el, db=bytes(el - 35) + b"\x01\x01").hex())
                        muts.append("emp=" + pss_em(h, el, db=b"\x00\x01" + bytes(el - 36) + b"\x01").hex())
                        muts.append("emp=" + pss_em(h, el, salt=b"\x00").hex())
                        muts.append("emp=" + pss_em(h, el, salt=b"\x5a").hex())
                    if pad == "pkcs1":
                        wid = flag == 0
                        # lax-scanner probes: short padding + trailing garbage, other block types, no separator ...
                        muts += ["em=" + pkcs1_em(k, h, wid, ps=k - 3 - (19 if wid else 0) - 32 - g, tail=bytes(g)).hex() for g in (1, 8)]
                        muts += ["em=" + pkcs1_em(k, h, wid, ps=8, tail=rmsg(rng, k - 3 - (19 if wid else 0) - 32 - 8)).hex(),
                                 "em=" + pkcs1_em(k, h, wid, bt=2).hex(), "em=" + pkcs1_em(k, h, wid, bt=0, pad=0).hex(),
                                 "em=" + pkcs1_em(k, h, wid, sep=0xFF).hex(),
                                 "em=" + pkcs1_em(k, h, not wid).hex(),
                                 "em=" + pkcs1_em(k - 1, h, wid).hex(),
                                 "em=" + (pkcs1_em(k, h, wid)[1:] + b"\x00").hex()]
                    if pad == "basic":
                        muts += ["em=" + (b"\xff" + h).hex(), "em=" + (b"\x01\xff" + h).hex(), "em=" + (b"\xfe" + h).hex(),
                                 "em=" + (b"\xff" + h + b"\x00").hex(), "em=" + (b"\xff" + h + rmsg(rng, 4)).hex(),
                                 "em=" + (b"\xff" + h[:-1]).hex(), "em=" + (b"\xff\xff" + h).hex(), "em=" + h.hex(),
                                 # payload longer than the verifier's stack buffer (max(msg_len, 32) + 8 bytes)
                                 "em=" + (b"\xff" + h + bytes(range(1, k - 40))).hex()]
                    muts += ["f=%d:%s" % (1 - flag, hx(h if flag == 0 else m)), "f=%d:%s" % (1 - flag, hx(m))]
                    if flag == 0 and not brief:
                        # digest-length variants in pre-hashed mode.  PSS: only the empty one - for 0 < len != 32 cp_rsa_ver
                        # hashes / compares uninitialised stack bytes, the verdict is not a function of the inputs
                        muts += ["f=1:."] + (["f=1:" + hx(h[:31]), "f=1:" + hx(h + b"\x00")] if pad != "pss" else [])
                mm = msg_muts(rng, m, 1 if quick else 4)
                if pad == "pss" and flag == 1:
                    mm = [x for x in mm if len(x) == 2 + 64]      # see above: other digest lengths read uninitialised memory
                muts += mm[: (3 if quick else 10)]
                if pad == "pss" and (j < 2 or not quick):
                    muts.append("emtop")
                if pad == "pkcs1" and flag == 0 and k == 61:
                    # k = tLen + 10: no valid signature exists; keep this class apart from the representative-range mutations
                    muts = [x for x in muts if x not in ("s+N", "zp:1", "zp:3", "lz")]
                out.append("rsa %d %s %d %s %s" % (bits, kseed, flag, hx(m), " ".join(muts)))
        if pad == "pss" and not quick and bits == 522:
            # the top bit of the encoded message is a data bit of maskedDB here (1 valid bit in the leading digit):
            # clearing it leaves a maskedDB with fewer digits than the mask; about half of the messages have it set
            for i in range(12):
                out.append("rsa %d %s 0 %02x%02x honest emx:0:01 emx:1:01" % (bits, kseed, i, (7 * i + 1) & 255))
    return out


BLS_MUTS = ["honest", "s=inf", "s=-s", "s=2s", "s=H", "s=foreign", "q=foreign", "q=inf", "infpair", "q=-q", "q=2q", "q+T"]


def bls_cases(rng, tier):
    quick = tier == "quick"
    out = []
    lens = [5] + (rng.sample(MSG_LENS, 2) if quick else MSG_LENS[::2])
    for j, n in enumerate(lens):
        m = rmsg(rng, n)
        muts = list(BLS_MUTS) if j == 0 else ["honest", "q+T", "infpair"]
        nb = 2 if quick else 8
        if j == 0:
            for comp in ("sx", "sy", "qx"):
                muts += ["%s:%d" % (comp, b) for b in [0, 255] + rng.sample(range(1, 255), nb)]
        muts += msg_muts(rng, m, 1 if quick else 3)[: (3 if quick else 8)]
        out.append("bls %s %s %s" % (seed(rng), hx(m), " ".join(muts)))
    return out


INV_MUTS = ["honest", "s=inf", "s=-s", "s=2s", "s=foreign", "q=foreign", "q=inf", "infkey", "q=-q", "q=2q"]


def inv_cases(rng, tier, scheme):
    """Boneh-Boyen ("bbs": signature in G1, key in G2) and ZSS ("zss": signature in G2, key in G1)"""
    quick = tier == "quick"
    out = []
    for flag in (0, 1):
        lens = ([5] + (rng.sample(MSG_LENS, 2) if quick else MSG_LENS[::3])) if flag == 0 else ([32, 40] if quick else [0, 1, 31, 32, 33, 40, 64])     # beyond the digest length: EVERY byte counts (seed C05-w1)
        for j, n in enumerate(lens):
            m = rmsg(rng, n)
            muts = list(INV_MUTS) if j == 0 else ["honest", "infkey"]
            if j == 0:
                muts.append("q+T" if scheme == "bbs" else "s+T")
                nb = 1 if quick else 6
                for comp in ("sx", "sy", "qx", "qy"):
                    muts += ["%s:%d" % (comp, b) for b in [0, 255] + rng.sample(range(1, 255), nb)]
                h = hashlib.sha256(m).digest() if flag == 0 else m
                muts += ["f=%d:%s" % (1 - flag, hx(h)), "f=%d:%s" % (1 - flag, hx(m))] if flag == 0 else []
            muts += msg_muts(rng, m, 1 if quick else 3)[: (3 if quick else 8)]
            out.append("%s %s %d %s %s" % (scheme, seed(rng), flag, hx(m), " ".join(muts)))
    return out
