"""C11, extension part (gate C11_EXT=1): the twisted curves over F_p3 / F_p4 / F_p8 (ep3_*, ep4_*, ep8_*), which exist
only in builds at the other pairing field sizes ("fpNNN" configurations of core.build_relic).  Same classes of points,
scalars and alias patterns as the F_p2 part (vlib/props/C11.py, gen_ep2); oracle tla/model/EpNSpec = lib/CurveX over
the tower of lib/Tower that the library reveals."""
import os

from vlib import core, gen_ep2, gen_epn
from vlib.gen_ep import hx

SPEC = "trace/EpNTrace.tla"
DRV = ["drv_epn.c"]

# (configuration, extension degree, identifiers ep_param_set accepts on the unchanged tree with a twist over F_p^N):
# include/relic_ep.h: B24_P315 = 25, B24_P317 = 26, K16_P330 = 27, K18_P508 = 36, B24_P509 = 37, K18_P638 = 45,
# SG18_P638 = 46.  A set of this list that can no longer be selected is a VIOLATION (BADCURVE), a configuration that
# does not build or offers no identifier on the unchanged tree is reported as skipped.
SETS_QUICK = [("fp315", 4, [25], "slice")]
# thorough: fp315 "mid" + fp508 "small" (run to the end on the repaired tree: 1993 events accepted); C11_EXT_SETS=<n> extends
# the list to the further quartic / cubic sets (fp330, fp638, fp317, fp509), which have not been run to the end yet.
_DEEP = [("fp315", 4, [25], "mid"), ("fp508", 3, [36], "small"), ("fp330", 4, [27], "small"),
         ("fp638", 3, [45, 46], "small"), ("fp317", 4, [26], "small"), ("fp509", 4, [37], "small")]
SETS_THOROUGH = _DEEP[:int(os.environ.get("C11_EXT_SETS", "2"))] + [
                 # not selectable in the portable configuration on the unchanged tree (ep8_curve_set_twist / ep4_curve_set_twist
                 # throw ERR_NO_PRECI reading the cofactor with the default BN_PRECI): reported as skipped
                 ("fp575", 8, [], "small"), ("fp766", 4, [], "small")]

HEAP = dict(heap="2g")


def MC_RUNS(quick):
    # thorough tier only (about 3 min with 4 workers): the quick slice has a budget of about one minute
    if quick:
        return []
    return [("MCCurveX4", "MCCurveX4", "the definition (lib/CurveX over lib/Tower) is a group law over a QUARTIC tower as EpNSpec builds it: "
                                       "F_81 = F_3[u]/(u^2+1)[v]/(v^2-(1+u)), both levels fields; 6 curves y^2 = x^3 + a x + b with a in {1, v, "
                                       "u v}, b in {0, 1, v, 1 + u v}; closure, identity, inverse on ALL points, commutativity on all pairs (Q, R) "
                                       "with R from every 3rd point, the 2-torsion and O, associativity with R, S from every 16th point, "
                                       "[#E]Q = O, XMulB = XMulNat, [k+1]Q = [k]Q + Q; on the curves over F_3 the 3-power Frobenius is an "
                                       "additive map over F_81 and pi^2 - [t]pi + [p] = 0 on ALL points", False, HEAP)]


def nontrivial(e):
    if e.get("op") in ("curve_probe", "restart", "BADCURVE"):
        return False
    pts = [e[k] for k in ("P", "Q") if k in e] + list(e.get("ps", []))
    if not any(any(any(c) for c in p["z"]) for p in pts):
        return False
    ks = [e[k] for k in ("k", "m") if k in e] + list(e.get("ks", []))
    if ks and all(sum(k["d"]) <= 1 for k in ks):
        return False
    return True


def discover(cfg, N, wd):
    exe = core.cc_harness(cfg, "ep%dx" % N, DRV, extra=["-DEPN=%d" % N])
    d = os.path.join(wd, "probe-%s-%d" % (cfg, N))
    os.makedirs(d, exist_ok=True)
    cp = os.path.join(d, "cases.txt")
    open(cp, "w").write("\n".join(gen_ep2.probe_cases(range(1, 80))) + "\n")
    evs = core.run_driver(exe, cp, os.path.join(d, "trace.ndjson"), timeout=600)
    return [gen_epn.CurveN(e, cfg) for e in evs if e.get("op") == "curve_probe" and e.get("ok") == 1]


LEVELS = {
    #          rand mult, pairs, seedpairs, per_op scalars, nsim, frb multiples, cof seeds, offcurve, normsim
    "slice": dict(nm=1, npairs=10, nseed=4, per_op=0, nsim=1, nfrb=1, ncof=1, noff=4, nns=4, lots=(2,), nrandk=1, nlong=1),
    "small": dict(nm=1, npairs=12, nseed=6, per_op=2, nsim=1, nfrb=1, ncof=1, noff=6, nns=6, lots=(0, 2, 3), nrandk=1, nlong=1),
    "mid":   dict(nm=2, npairs=30, nseed=16, per_op=5, nsim=2, nfrb=2, ncof=2, noff=12, nns=10, lots=(0, 1, 2, 3, 11), nrandk=2, nlong=2),
    "full":  dict(nm=3, npairs=60, nseed=40, per_op=12, nsim=4, nfrb=3, ncof=3, noff=30, nns=20, lots=(0, 1, 2, 3, 4, 11), nrandk=4, nlong=3),
}


def cases_for(cv, rng, level):
    """(group-law cases, multiplication cases, Frobenius / cofactor cases) for one parameter set"""
    L = LEVELS[level]
    N = cv.N
    seeds = [rng.randrange(2, 1 << 64) for _ in range(2 if level == "slice" else 4)]
    ms = gen_ep2.base_multiples(cv, rng, L["nm"])
    pairs = [(a, b) for a in ms for b in ms]
    special = [(a, b) for (a, b) in pairs if (a - b) % cv.n == 0 or (a + b) % cv.n == 0 or a == 0 or b == 0]
    rest = [pq for pq in pairs if pq not in special]
    if level == "slice":
        special = rng.sample(special, 14) + [(0, 0), (1, 1), (1, -1), (2, cv.n - 2)]
    pairs = special + rng.sample(rest, min(len(rest), L["npairs"]))
    g = gen_ep2.group_cases(cv, rng, pairs, seeds, L["nseed"])
    un = gen_ep2.unary_cases(cv, rng, ms if level != "slice" else [0, 1, -1, 2, cv.n - 1, ms[-1]], seeds)
    g += un if level != "slice" else rng.sample(un, 60)
    g += gen_ep2.cmp_cases(cv, rng, rng.sample(pairs, min(len(pairs), 40 if level != "slice" else 16)), seeds)
    g = gen_epn.convall(cv, rng, g)
    g += gen_epn.offcurve_cases(cv, rng, L["noff"])
    g += gen_epn.normsim_cases(cv, rng, ms, seeds, L["nns"])
    rng.shuffle(g)

    # ---- scalar multiplication
    corners = gen_ep2.scalar_corners(cv, rng, nrand=L["nrandk"], nlong=L["nlong"])
    must = [0, cv.n, -cv.n, cv.n - 1, cv.n + 1, 1, -1, 2]
    if level == "slice":
        must = [0, cv.n, cv.n - 1]
    longk = [k for k in corners if abs(k).bit_length() > cv.fpb + 1]

    def ks_for(op):
        ks = list(must) + rng.sample(corners, min(len(corners), L["per_op"]))
        if level == "slice":
            ks = [rng.choice([0, cv.n, 2 * cv.n, -cv.n]), rng.choice([cv.n - 1, cv.n + 1, -1, 1, 2]),
                  rng.choice(corners)]
        if longk and op in ("ep2_mul", "ep2_mul_basic", "ep2_mul_slide", "ep2_mul_monty", "ep2_mul_lwnaf", "ep2_mul_lwreg",
                            "ep2_mul_fix", "ep2_mul_gen") and (level != "slice" or op in ("ep2_mul", "ep2_mul_slide")):
            ks.append(rng.choice(longk))
        return ks
    pms = [m for m in ms if m % cv.n != 0]
    frb = gen_epn.frb_corners(cv, rng, variants=level in ("mid", "full"), nrandpat=4 if level in ("mid", "full") else 1)
    if level == "slice":
        frb = rng.sample(frb, 2)
    elif level == "small":
        frb = rng.sample(frb, 5)
    m = gen_ep2.mul_cases(cv, rng, ks_for, pms, seeds)
    # the Frobenius-structured scalars for the routines that use the GLS recodings (and one plain routine)
    for op in ("ep2_mul", "ep2_mul_lwnaf", "ep2_mul_lwreg", "ep2_mul_basic"):
        for k in (frb if op != "ep2_mul_basic" else frb[:2]):
            m.append("%s %s %d %s %s" % (op, cv.spec, rng.choice([0, 0, 1]), gen_ep2.mul_point(cv, rng, pms, seeds), hx(k)))
    if level != "slice":
        for op in gen_ep2.MUL_VAR:      # identity as the point operand
            m.append("%s %s 0 %s %s" % (op, cv.spec, gen_ep2.inf_token(cv.sys, rng), hx(rng.choice(corners))))

    def kp_for(op):
        out = [(rng.choice(corners), rng.choice(corners)) for _ in range(L["nsim"])]
        if level != "slice":
            out += [(rng.choice(corners), 0), (cv.n, rng.choice(corners))]
            out += [(rng.choice(frb), rng.choice(frb))]
        return out
    m += gen_ep2.sim_cases(cv, rng, kp_for, pms)
    small = [k for k in corners if abs(k) < cv.n]
    m += gen_ep2.lot_cases(cv, rng, small if level in ("slice", "small") else corners, pms, L["lots"], per_count=1)
    m += gen_ep2.simdig_cases(cv, rng, pms, (2,) if level == "slice" else range(1, 4), per_count=1)
    m = gen_epn.convall(cv, rng, m)
    rng.shuffle(m)

    # ---- Frobenius on subgroup points, cofactor clearing on curve points outside the subgroup
    fm = [1, cv.n - 1, rng.randrange(cv.n)][:max(1, L["nfrb"])]
    powers = {"slice": (1, 2), "small": (0, 1, 3), "mid": (0, 1, 2, 3, 5), "full": (0, 1, 2, 3, 4, 7, N * 6)}[level]
    f = gen_ep2.frb_cases(cv, rng, fm, seeds[:1], powers=powers)
    f += gen_ep2.cof_cases(cv, rng, [0, 1][:L["ncof"]], seeds[:L["ncof"]])
    f = gen_epn.convall(cv, rng, f)
    rng.shuffle(f)
    return g, m, f


def run_ext(ev, conf, wd, rng, quick, cover):
    core.run_models(ev, MC_RUNS(quick))
    skipped = {}
    for (cfg, N, expected, level) in (SETS_QUICK if quick else SETS_THOROUGH):
        try:
            core.build_relic(cfg)
            curves = discover(cfg, N, wd)
        except core.InfraError as ex:
            if expected:
                raise
            skipped[cfg] = "does not build / probe in the portable configuration: " + str(ex)[-200:]
            continue
        have = set(c.spec for c in curves)
        missing = ["ep%d_is_infty id%d 0 inf" % (N, i) for i in expected if "id%d" % i not in have]
        if not curves and not expected:
            skipped[cfg] = "no parameter set with a twist over F_p^%d can be selected on the unchanged tree" % N
            continue
        cover["%s/ep%d" % (cfg, N)] = ["%s(k=%d,twist=%d)" % (c.spec, c.emb, c.tw) for c in curves]
        grp, mul, endo = list(missing), [], []
        for cv in curves:
            g, m, f = cases_for(cv, rng, level)
            grp += g
            mul += m
            endo += f
        for label, cases, heavy in (("grp", grp, False), ("mul", mul, True), ("endo", endo, True)):
            if cases:
                conf.run("%s-ep%d-%s" % (cfg, N, label), cfg, "ep%dx" % N, DRV, cases, SPEC, extra_cc=["-DEPN=%d" % N],
                         nontrivial=nontrivial, min_per_shard=1 if heavy else 12, driver_timeout=1500, tlc_timeout=2400,
                         heap="2g")
    if skipped:
        ev.cov["ext_skipped"] = skipped
    ev.cov["rule_ext"] = (
        "C11_EXT: the same classes on the twists over F_p3 (KSS18 / SG18), F_p4 (BLS24, KSS16) and F_p8 where selectable: group law "
        "in every coordinate system x representation (z in the base field, in a subfield, top coefficient only, random), "
        "comparison, normalisation incl. norm_sim with identity entries, every ep<N>_mul_* / _fix_* / _sim_* routine with the "
        "corner scalars relative to r and scalars structured in the phi(k)-dimensional Frobenius basis, Frobenius powers on "
        "subgroup points (generator multiples and [h2]c), cofactor map on curve points outside the subgroup")
