"""Case generation for the twists over F_p3 / F_p4 / F_p8 (C11, extension part; harness/drv_epn.c).  The point,
scalar and alias classes are those of gen_ep2 (the case lines are produced by gen_ep2's functions and rewritten
for the ep<N>_ interface: representation suffixes get N coefficients); own generators for what differs: off-curve
coordinates, simultaneous normalisation, scalars structured in the phi(k)-dimensional Frobenius basis.
Pure INPUT data; every judgement is made by tla/trace/EpNTrace."""
import re

from vlib import gen_ep2
from vlib.gen_ep import hx, BASIC, PROJC, JACOB, val

PHI = {16: 8, 18: 6, 24: 8, 48: 16}


class CurveN(gen_ep2.Curve2):
    def __init__(self, e, cfg):
        e = dict(e)
        e.setdefault("B12", -1)
        e.setdefault("BN", -2)
        gen_ep2.Curve2.__init__(self, e)
        self.N = e["N"]
        self.emb = e["emb"]
        self.cfg = cfg
        self.family = "k%d" % self.emb
        self.ells2 = []                 # no small-order tokens in drv_epn


def _coefs(cv, rng, count):
    """extra coefficients of a z coordinate: in the subfield (all zero), corner values, random"""
    how = rng.random()
    if how < 0.25:
        return [0] * count
    return [rng.choice([0, 1, cv.p - 1, rng.randrange(cv.p), rng.randrange(cv.p)]) for _ in range(count)]


_REP = re.compile(r"/([pj])([0-9a-f]+),([0-9a-f]+)")


def conv(cv, rng, line):
    """rewrite an ep2 case line for ep<N>"""
    N = cv.N

    def rep(m):
        z = [int(m.group(2), 16), int(m.group(3), 16)] + _coefs(cv, rng, N - 2)
        z = z[:N]
        if not any(z):
            z[-1] = 1
        if rng.random() < 0.15:         # only the top coefficient
            z = [0] * (N - 1) + [z[0] or 1]
        return "/" + m.group(1) + ",".join("%x" % c for c in z)
    line = _REP.sub(rep, line)
    assert line.startswith("ep2_")
    return "ep%d_" % N + line[4:]


def convall(cv, rng, lines):
    return [conv(cv, rng, ln) for ln in lines]


def offcurve_cases(cv, rng, count):
    """ep<N>_on_curve must say no for points off the curve, in every representation."""
    N, cases = cv.N, []
    op = "ep%d_on_curve" % N
    for _ in range(count):
        xs = [rng.randrange(cv.p) for _ in range(2 * N)]
        if rng.random() < 0.3:
            xs[rng.randrange(2 * N)] = 0
        if rng.random() < 0.2:           # coordinates in the base field
            xs = [xs[0]] + [0] * (N - 1) + [xs[N]] + [0] * (N - 1)
        s = rng.choice([BASIC, PROJC, JACOB])
        suffix = conv(cv, rng, "ep2_x " + gen_ep2.rep_suffix(cv, s, rng)).split(" ", 1)[1] if s != BASIC else ""
        cases.append("%s %s 0 xy%s%s" % (op, cv.spec, ",".join("%x" % v for v in xs), suffix.strip()))
    zero = [0] * N
    for (x, y) in [(zero, zero), ([1] + zero[1:], zero), (zero, [1] + zero[1:]), (zero, zero[:-1] + [1]),
                   ([rng.randrange(cv.p) for _ in range(N)], zero)]:
        cases.append("%s %s 0 xy%s" % (op, cv.spec, ",".join("%x" % v for v in list(x) + list(y))))
    return cases


def normsim_cases(cv, rng, ms, seeds, count, with_identity=True):
    """ep<N>_norm_sim in place on 1..6 points of one projective system (or affine), identities among them
    (library form, (0:1:0) / (1:1:0), all-zero triple with the system's tag)"""
    cases = []
    for i in range(count):
        n = rng.choice([1, 2, 3, 4, 6])
        s = rng.choice([PROJC, JACOB, PROJC, JACOB, BASIC])
        pts = []
        for j in range(n):
            if with_identity and rng.random() < 0.3:
                pts.append(gen_ep2.inf_token(s, rng))
            else:
                pts.append(gen_ep2.any_point(cv, s, rng, ms, seeds))
        if with_identity and i % 2 == 0 and not any(t.startswith("inf") for t in pts):
            pts[rng.randrange(n)] = gen_ep2.inf_token(s, rng)
        if not with_identity:
            pts = [t if not t.startswith("inf") else "m2" for t in pts]
        ident = any(t.startswith("inf") for t in pts)
        if ident and not gen_ep2.BUDGET.take(cv.spec, "normsim-infinity"):
            pts = [t if not t.startswith("inf") else "m3" for t in pts]
        cases.append(conv(cv, rng, "ep2_norm_sim %s 1 %d %s" % (cv.spec, n, " ".join(pts))))
    return cases


def frb_corners(cv, rng, variants=True, nrandpat=4):
    """Scalars with STRUCTURE in the Frobenius basis: k = sum c_i lam^i (mod r), lam = p mod r, i < phi(k): every single
    non-zero sub-scalar, all non-zero, a few random zero patterns; small, negative and medium coefficients."""
    n, lam, dims = cv.n, cv.p % cv.n, PHI.get(cv.emb, 4)
    bits = max(8, cv.n.bit_length() // dims)
    pats = [1 << i for i in range(dims)] + [(1 << dims) - 1] + [rng.randrange(1, 1 << dims) for _ in range(nrandpat)]
    out = []
    for pat in pats:
        cs = []
        for i in range(dims):
            if not (pat >> i) & 1:
                cs.append(0)
            else:
                cs.append(rng.choice([1, 2, 3, -1, -3, rng.getrandbits(bits // 2) | 1, -(rng.getrandbits(bits - 1) | 1),
                                      rng.getrandbits(bits) | (1 << (bits - 1))]))
        k = sum(c * pow(lam, i, n) for i, c in enumerate(cs)) % n
        if k:
            out.append(k)
            if variants:
                out.append(rng.choice([k + n, k + 2 * n, k - n]))
    return out


def slide_fit(cv, ks):
    return [k for k in ks if abs(k).bit_length() <= cv.fpb + 1]
