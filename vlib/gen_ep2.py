"""Case generation for the twists over F_p2 (C11; shared with C12's G2 part): points, representations,
scalars, curves.  Pure INPUT data for harness/drv_ep2.c / drv_pc.c; every judgement is made by the TLA+
trace specifications (tla/trace/Ep2Trace, PcTrace), never here.  The little arithmetic below (trial
division of the cofactor) only serves to CONSTRUCT interesting operands (points of small order); if it
were wrong the spec would see different points, not accept wrong outcomes."""
from vlib import gen_ep
from vlib.gen_ep import hx, BASIC, PROJC, JACOB, val

MUL_VAR = ["ep2_mul", "ep2_mul_basic", "ep2_mul_slide", "ep2_mul_monty", "ep2_mul_lwnaf", "ep2_mul_lwreg"]
MUL_FIX = ["ep2_mul_fix", "ep2_mul_fix_basic", "ep2_mul_fix_combs", "ep2_mul_fix_combd", "ep2_mul_fix_lwnaf"]
MUL_SIM = ["ep2_mul_sim", "ep2_mul_sim_basic", "ep2_mul_sim_trick", "ep2_mul_sim_inter", "ep2_mul_sim_joint"]


class Budget:
    """How many cases of an input class with a KNOWN wrong outcome (known finding) are generated per curve:
    the quick tier keeps a couple of witnesses per class (each rejected event costs a confirmation run),
    the thorough tier does not limit them."""

    def __init__(self, limit=None):
        self.limit, self.used = limit, {}

    def take(self, *key):
        if self.limit is None:
            return True
        n = self.used.get(key, 0)
        if n >= self.limit:
            return False
        self.used[key] = n + 1
        return True


BUDGET = Budget(None)


class Curve2(gen_ep.Curve):
    """What the generator knows about a pairing-friendly parameter set (from the driver's curve_probe event)."""

    def __init__(self, e):
        gen_ep.Curve.__init__(self, e["curve"], val(e["p"]), val(e["n"]["d"]), val(e["h2"]["d"]), e["endom"], e["add"],
                              e["fpb"], e["bnbits"], e["wd"], e["dep"], e["dgb"])
        self.h2 = self.h
        self.h1 = val(e["h1"]["d"])
        self.par = val(e["par"]["d"]) * (-1 if e["par"]["s"] else 1)
        self.family = "BN" if e["pf"] == e["BN"] else ("B12" if e["pf"] == e["B12"] else "other")
        self.tw = e["tw"]
        self.ells2 = small_factors(self.h2)
        self.ells1 = small_factors(self.h1)


def small_factors(h, bound=1 << 16):
    """prime factors of h below bound (trial division; input construction only)"""
    out, d = [], 2
    while d < bound and h > 1:
        if h % d == 0:
            out.append(d)
            while h % d == 0:
                h //= d
        d += 1 if d == 2 else 2
    return out


def probe_cases(ids):
    return ["curve_probe id%d" % i for i in ids]


# --------------------------------------------------------------------------
# points
# --------------------------------------------------------------------------
def rep_suffix(cv, sys, rng, force=None):
    """A representation suffix for a point operand of a routine working in system sys."""
    kind = force or rng.choice(["a", "a", "z", "z", "t"])
    if sys == BASIC or kind == "a":
        return ""
    letter = "p" if sys == PROJC else "j"
    if kind == "t":
        return "/" + letter.upper()
    z0 = rng.choice([0, 1, 2, cv.p - 1, rng.randrange(cv.p), rng.randrange(cv.p)])
    z1 = rng.choice([0, 1, cv.p - 1, rng.randrange(cv.p), rng.randrange(cv.p)])
    if z0 == 0 and z1 == 0:
        z1 = 1
    return "/%s%x,%x" % (letter, z0, z1)


inf_token = gen_ep.inf_token


def point_token(cv, m, sys, rng, force=None):
    """[m]G2 in a representation valid for system sys."""
    if m % cv.n == 0:
        return inf_token(sys, rng)
    return "m" + hx(m) + rep_suffix(cv, sys, rng, force)


def seed_token(kind, seed, cv, sys, rng, force=None, ell=None):
    """c<seed> curve point outside the subgroup, r<seed> = [r]c (cofactor part), h<seed> = [h2]c (member),
    o<ell>,<seed> = the ell-primary part of c (a point of small order ell^j, or the identity)"""
    if kind == "o":
        return "o%x,%x%s" % (ell, seed, rep_suffix(cv, sys, rng, force))
    return "%s%x%s" % (kind, seed, rep_suffix(cv, sys, rng, force))


def any_point(cv, sys, rng, ms, seeds, force=None):
    """an operand for the group law: a generator multiple or a curve point outside the subgroup"""
    if rng.random() < 0.6:
        return point_token(cv, rng.choice(ms), sys, rng, force)
    return seed_token(rng.choice(["c", "c", "r", "h"]), rng.choice(seeds), cv, sys, rng, force)


def base_multiples(cv, rng, nrand):
    return gen_ep.base_multiples(cv, rng, nrand)


# --------------------------------------------------------------------------
# group law
# --------------------------------------------------------------------------
ADD_OF = {BASIC: "ep2_add_basic", PROJC: "ep2_add_projc", JACOB: "ep2_add_jacob"}
DBL_OF = {BASIC: "ep2_dbl_basic", PROJC: "ep2_dbl_projc", JACOB: "ep2_dbl_jacob"}


def group_cases(cv, rng, pairs, seeds, nseed):
    """pairs: list of (m1, m2) multiples of G2; every explicit coordinate system + the default one;
    plus nseed pairs with curve points outside the subgroup (equal / opposite / unrelated)."""
    cases = []
    c = cv.spec
    ops = [("ep2_add", cv.sys), ("ep2_sub", cv.sys)] + [(ADD_OF[s], s) for s in (BASIC, PROJC, JACOB)]
    for (m1, m2) in pairs:
        for op, s in ops:
            al = rng.choice([0, 0, 1, 2])
            a = point_token(cv, m1, s, rng)
            b = point_token(cv, m2, s, rng)
            if (m1 - m2) % cv.n == 0 and rng.random() < 0.3:
                al = rng.choice([3, 4])         # the same object twice
            cases.append("%s %s %d %s %s" % (op, c, al, a, b))
    for _ in range(nseed):
        sd = rng.choice(seeds)
        kind = rng.choice(["c", "c", "r"])
        for op, s in ops:
            a = seed_token(kind, sd, cv, s, rng)
            how = rng.choice(["same", "same", "other", "gen", "inf"])
            if how == "same":                   # equal operands (and, through the parity of the seed, opposite ones)
                b = seed_token(kind, rng.choice([sd, sd ^ 1]), cv, s, rng)
            elif how == "other":
                b = seed_token(rng.choice(["c", "r", "h"]), rng.choice(seeds), cv, s, rng)
            elif how == "gen":
                b = point_token(cv, rng.choice([1, 2, cv.n - 1, rng.randrange(cv.n)]), s, rng)
            else:
                b = inf_token(s, rng)
            if rng.random() < 0.5:
                a, b = b, a
            cases.append("%s %s %d %s %s" % (op, c, rng.choice([0, 0, 1, 2]), a, b))
    return cases


def unary_cases(cv, rng, ms, seeds):
    cases = []
    c = cv.spec

    def pts(s, force=None):
        out = [point_token(cv, m, s, rng, force) for m in ms]
        out += [seed_token(rng.choice(["c", "r", "h"]), sd, cv, s, rng, force) for sd in seeds]
        return out
    for s in (BASIC, PROJC, JACOB):
        for t in pts(s):
            cases.append("%s %s %d %s" % (DBL_OF[s], c, rng.choice([0, 1]), t))
    for t in pts(cv.sys):
        cases.append("ep2_dbl %s %d %s" % (c, rng.choice([0, 1]), t))
    for _ in range(2):
        anysys = rng.choice([PROJC, JACOB])
        for t in pts(anysys):
            cases.append("ep2_neg %s %d %s" % (c, rng.choice([0, 1]), t))
        for t in pts(anysys) + pts(anysys, force="z"):
            cases.append("ep2_norm %s %d %s" % (c, rng.choice([0, 1]), t))
        for t in pts(anysys):
            cases.append("ep2_is_infty %s 0 %s" % (c, t))
            cases.append("ep2_on_curve %s 0 %s" % (c, t))
    return cases


def cmp_cases(cv, rng, pairs, seeds):
    cases = []
    for (m1, m2) in pairs:
        s1, s2 = rng.choice([BASIC, PROJC, JACOB]), rng.choice([BASIC, PROJC, JACOB])
        a, b = point_token(cv, m1, s1, rng), point_token(cv, m2, s2, rng)
        if (a.startswith("inf0") != b.startswith("inf0")) and not (a.startswith("inf") and b.startswith("inf")) \
                and not BUDGET.take(cv.spec, "cmp-zero-infinity"):
            a, b = a.replace("inf0", "inf"), b.replace("inf0", "inf")       # (0:1:0) / (1:1:0) instead of (0:0:0)
        cases.append("ep2_cmp %s 0 %s %s" % (cv.spec, a, b))
    for sd in seeds:
        s1, s2 = rng.choice([BASIC, PROJC, JACOB]), rng.choice([BASIC, PROJC, JACOB])
        cases.append("ep2_cmp %s 0 %s %s" % (cv.spec, seed_token("c", sd, cv, s1, rng),
                                             seed_token("c", rng.choice([sd, sd ^ 1, sd + 2]), cv, s2, rng)))
    return cases


def offcurve_cases(cv, rng, count, op="ep2_on_curve", systems=(BASIC, PROJC, JACOB)):
    """ep2_on_curve must say no for points off the curve, in every representation."""
    cases = []
    for _ in range(count):
        xs = [rng.randrange(cv.p) for _ in range(4)]
        if rng.random() < 0.3:
            xs[rng.randrange(4)] = 0
        s = rng.choice(list(systems))
        cases.append("%s %s 0 xy%x,%x,%x,%x%s" % (op, cv.spec, xs[0], xs[1], xs[2], xs[3], rep_suffix(cv, s, rng)))
    # degenerate coordinates: y = 0 (formulas that double or negate collapse to the identity there), x = 0, both, tiny values
    for (x0, x1, y0, y1) in [(0, 0, 0, 0), (1, 0, 0, 0), (2, 3, 0, 0), (0, 7, 0, 0), (0, 0, 1, 0), (0, 0, 0, 1), (1, 0, 1, 0),
                             (rng.randrange(cv.p), rng.randrange(cv.p), 0, 0)]:
        cases.append("%s %s 0 xy%x,%x,%x,%x" % (op, cv.spec, x0, x1, y0, y1))
    return cases


# --------------------------------------------------------------------------
# Frobenius, cofactor
# --------------------------------------------------------------------------
def frb_cases(cv, rng, ms, seeds, powers=(1, 2, 3)):
    """ep2_frb on subgroup points (generator multiples and members not constructed from the generator)"""
    cases = []
    for pw in powers:
        for m in ms:
            s = rng.choice([BASIC, PROJC, JACOB])
            cases.append("ep2_frb %s %d %s %d" % (cv.spec, rng.choice([0, 1]), point_token(cv, m, s, rng), pw))
        for sd in seeds:
            s = rng.choice([BASIC, PROJC, JACOB])
            cases.append("ep2_frb %s %d %s %d" % (cv.spec, rng.choice([0, 1]), seed_token("h", sd, cv, s, rng), pw))
    return cases


def cof_cases(cv, rng, ms, seeds):
    """ep2_mul_cof on points outside the subgroup (c), of the cofactor part (r), of small order (o), members, identity"""
    cases = []
    c = cv.spec
    for sd in seeds:
        for kind in ("c", "c", "r"):
            cases.append("ep2_mul_cof %s %d %s" % (c, rng.choice([0, 1]),
                                                   seed_token(kind, sd + (kind == "r"), cv, cv.sys, rng,
                                                              force=rng.choice(["a", "a", "z"]))))
    for ell in cv.ells2[:4]:
        cases.append("ep2_mul_cof %s 0 %s" % (c, seed_token("o", rng.choice(seeds), cv, cv.sys, rng, force="a", ell=ell)))
    for m in ms:
        cases.append("ep2_mul_cof %s %d %s" % (c, rng.choice([0, 1]), point_token(cv, m, cv.sys, rng, force=rng.choice(["a", "z"]))))
    return cases


# --------------------------------------------------------------------------
# scalar multiplication
# --------------------------------------------------------------------------
def scalar_corners(cv, rng, nrand=4, nlong=3, cap=None):
    """gen_ep.scalar_corners relative to the group order; cap limits the bit length (GT exponentiations are dear)"""
    ks = gen_ep.scalar_corners(cv, rng, nrand=nrand, nlong=nlong)
    if cap:
        ks = [k for k in ks if abs(k).bit_length() <= cap]
    return ks


def frb_corners(cv, rng, per=1, variants=True):
    """Scalars with STRUCTURE in the Frobenius basis: k = c0 + c1*lam + c2*lam^2 + c3*lam^3 (mod r) with lam = p mod r, the
    eigenvalue of the untwist-Frobenius-twist map on G2 / of the Frobenius on GT, for every zero / non-zero pattern of
    (c0..c3) - a random scalar has a zero sub-scalar with probability 2^-60 - small, negative and medium coefficients;
    also k + r, k + 2r and k - r."""
    n, lam = cv.n, cv.p % cv.n
    out = []
    for pat in range(1, 16):
        for _ in range(per):
            cs = []
            for i in range(4):
                if not (pat >> i) & 1:
                    cs.append(0)
                else:
                    cs.append(rng.choice([1, 2, 3, -1, -3, rng.getrandbits(40) | 1, -(rng.getrandbits(61) | 1),
                                          rng.getrandbits(62) | (1 << 61)]))
            k = sum(c * pow(lam, i, n) for i, c in enumerate(cs)) % n
            if k:
                out.append(k)
                if variants:
                    out.append(rng.choice([k + n, k + 2 * n, k - n]))
    return out


def mul_point(cv, rng, ms, seeds=None):
    if seeds and rng.random() < 0.2:
        return seed_token("h", rng.choice(seeds), cv, cv.sys, rng, force=rng.choice(["a", "a", "z"]))
    m = rng.choice(ms)
    if m % cv.n == 0:
        m = 1
    return point_token(cv, m, cv.sys, rng, force=rng.choice(["a", "a", "a", "z"]))


def mul_cases(cv, rng, ks_for, point_ms, seeds=None, ops=None, pre="ep2", frb=None):
    cases = []
    c = cv.spec
    for op in (ops or (MUL_VAR + MUL_FIX + ["ep2_mul_gen", "ep2_mul_dig"])):
        ks = ks_for(op)
        if frb and not op.endswith("_mul_dig"):
            ks = list(ks) + [k for k in frb if op != "ep2_mul_slide" or abs(k).bit_length() <= cv.fpb + 1]
        if op in ("ep2_mul", "ep2_mul_gen") and frb is not None:
            D = 1 << cv.dgb
            for k in [2, -2, 3, -3, D - 1, -(D - 1), (D >> 1) + 1, -((D >> 1) + 1), D, -D, D + 1, -(D + 1)]:
                if op == "ep2_mul":
                    for al in (0, 1):
                        cases.append("%s %s %d %s %s" % (op, c, al, mul_point(cv, rng, point_ms, seeds), hx(k)))
                else:
                    cases.append("%s %s 0 %s" % (op, c, hx(k)))
        if op in MUL_FIX or op.endswith("_mul_fix"):
            pts = [mul_point(cv, rng, point_ms) for _ in range(2)]
            pts = [p.split("/")[0] for p in pts]       # tables are built from affine points
            for i, k in enumerate(ks):
                cases.append("%s %s 0 %s %s" % (op, c, pts[i * len(pts) // max(1, len(ks))], hx(k)))
        elif op.endswith("_mul_gen"):
            for k in ks:
                cases.append("%s %s 0 %s" % (op, c, hx(k)))
        elif op.endswith("_mul_dig"):
            for k in ks:
                d = abs(k) & ((1 << cv.dgb) - 1)
                cases.append("%s %s %d %s %x" % (op, c, rng.choice([0, 1]), mul_point(cv, rng, point_ms, seeds), d))
        else:
            for k in ks:
                if op == "ep2_mul_slide" and abs(k).bit_length() > cv.fpb + 1 and not BUDGET.take(c, "slide-long-scalar"):
                    k = k % (cv.n << 1) - cv.n
                cases.append("%s %s %d %s %s" % (op, c, rng.choice([0, 0, 1]), mul_point(cv, rng, point_ms, seeds), hx(k)))
    return cases


def table_infinity(cv, op, mp, mq, k, m):
    """does the table of ep2_mul_sim_trick / _joint for P = [mp]G2, Q = [mq]G2 contain the identity (known finding)?"""
    if mp % cv.n == 0 or mq % cv.n == 0 or k == 0 or m == 0:
        return False
    if op.endswith("joint"):
        return (mp - mq) % cv.n == 0 or (mp + mq) % cv.n == 0
    w = 1 << (cv.wd // 2)
    return any((i * mp + j * mq) % cv.n == 0 for i in range(w) for j in range(w) if i * w + j >= 2)


def sim_cases(cv, rng, kpairs_for, point_ms, ops=None):
    cases = []
    c = cv.spec
    for op in (ops or (MUL_SIM + ["ep2_mul_sim_gen"])):
        for (k, m) in kpairs_for(op):
            if op.endswith("_mul_sim_gen"):
                cases.append("%s %s %d %s %s %s" % (op, c, rng.choice([0, 0, 2]), hx(k),
                                                    mul_point(cv, rng, point_ms + [0]), hx(m)))
                continue
            mp = rng.choice(point_ms + [0])
            mq = rng.choice([rng.choice(point_ms), rng.choice(point_ms), mp, -mp, 0])       # also Q = P, Q = -P, identity
            if op in ("ep2_mul_sim_trick", "ep2_mul_sim_joint") and table_infinity(cv, op, mp, mq, k, m) \
                    and not BUDGET.take(c, op, "sim-table-infinity"):
                mq = 7 * mp + 11 if mp else 5
            al = rng.choice([0, 0, 1, 2])
            if mp == mq and rng.random() < 0.4:
                al = 3
            cases.append("%s %s %d %s %s %s %s" % (op, c, al, point_token(cv, mp, cv.sys, rng, force="a"), hx(k),
                                                   point_token(cv, mq, cv.sys, rng, force=rng.choice(["a", "z"])),
                                                   hx(m)))
    return cases


def lot_cases(cv, rng, ks, point_ms, counts, per_count=1, op="ep2_mul_sim_lot"):
    cases = []
    for cnt in counts:
        for _ in range(per_count):
            parts = []
            prev = 1
            for i in range(cnt):
                m = rng.choice(point_ms + [0])
                if i > 0 and rng.random() < 0.15:
                    m = prev if rng.random() < 0.5 else -prev
                prev = m
                parts += [point_token(cv, m, cv.sys, rng, force=rng.choice(["a", "a", "z"])), hx(rng.choice(ks))]
            cases.append(("%s %s 0 %d " % (op, cv.spec, cnt)) + " ".join(parts))
    return cases


def simdig_cases(cv, rng, point_ms, counts, per_count=1, op="ep2_mul_sim_dig"):
    cases = []
    dm = (1 << cv.dgb) - 1
    digs = [0, 1, 2, 3, dm, dm - 1, 1 << (cv.dgb - 1), (1 << (cv.dgb - 1)) + 1, dm // 3, dm // 3 * 2]
    for cnt in counts:
        for _ in range(per_count):
            parts = []
            for i in range(cnt):
                m = rng.choice(point_ms + [0])
                d = rng.choice(digs + [rng.getrandbits(cv.dgb), rng.getrandbits(cv.dgb)])
                parts += [point_token(cv, m, cv.sys, rng, force=rng.choice(["a", "a", "z"])), "%x" % d]
            cases.append(("%s %s 0 %d " % (op, cv.spec, cnt)) + " ".join(parts))
    return cases
