"""Case generation and orchestration for the tau-adic recodings (bn_rec_tnaf_get / _mod / tnaf /
rtnaf) and the signed aligned column recoding (bn_rec_sac) - the C09 extension behind C09_EXT=1.
Pure data: corner scalars around the group orders of the Koblitz curves E_a(GF(2^m)), run-length
patterns, exhaustive small ranges, seeded random.  The judgement is made by the TLA+ trace
specification tla/model/TauSpec.tla, never here: the Lucas sequence below only *selects inputs*
(scalars at and around the group order); the specification computes the order itself."""
from vlib import core
from vlib.gen_bn import hx
from vlib.gen_bnt import run_scalars

SPEC = "trace/TauTrace.tla"
TINY_M = [5, 7, 11, 13, 17]
WIDTHS = list(range(2, 9))


def koblitz_order(mu, m):
    """order of the main subgroup of E_a(GF(2^m)), mu = (-1)^(1-a) (input selection only)"""
    v0, v1 = 2, mu
    for _ in range(m - 1):
        v0, v1 = v1, mu * v1 - 2 * v0
    vm = v1 if m >= 1 else v0
    return ((1 << m) + 1 - vm) // (2 if mu == 1 else 4)


def corner_scalars(mu, m, rng, n_rand, maxbits):
    n = koblitz_order(mu, m)
    out = {0, 1, 2, 3, 4, 5, 7, n - 2, n - 1, n, n + 1, n + 2, 2 * n - 1, 2 * n + 1, (n - 1) // 2, (n + 1) // 2,
           (1 << m) - 1, 1 << m, (1 << m) + 1, (1 << (m - 1)) - 1, 1 << (m - 1)}
    for j in {1, 2, 3, m // 4, m // 2 - 1, m // 2, m // 2 + 1, m - 3, m - 2, m - 1}:
        if j >= 1:
            out |= {1 << j, (1 << j) - 1, (1 << j) + 1}
    ones = (1 << m) - 1
    for pat in ("01", "10", "0111", "0001", "011", "00111111", "0000000011111111"):
        out.add(int(pat * m, 2) & ones)
        out.add(int(pat * m, 2) & (ones >> 2))
    out |= {ones ^ ((1 << (m // 2)) - 1), (1 << (m - 2)) | ((1 << (m // 2)) - 1), ones ^ (1 << (m // 2))}
    for _ in range(n_rand):
        out.add(rng.randrange(1, n))
        nb = rng.randint(1, m)
        s, bit = "", 1
        while len(s) < nb:
            s += str(bit) * rng.randint(1, max(2, m // 6))
            bit ^= 1
        out.add(int(s[:nb], 2))
    return sorted(v for v in out if 0 <= v < (1 << maxbits))


class Gen:
    def __init__(self, rng, quick):
        self.rng = rng
        self.quick = quick
        self.cases = []
        self.stats = {}

    def add(self, op, *args):
        self.cases.append(" ".join([op] + [a if isinstance(a, str) else hx(a) for a in args]))
        self.stats[op] = self.stats.get(op, 0) + 1

    def tables(self):
        for u in (1, -1):
            for w in WIDTHS:
                self.add("bn_rec_tnaf_get", str(u), str(w))

    def tau(self, k, u, m, ws, caps=("big",), mod=True, reg=True, neg=False):
        """one scalar through the partial reduction and the two recodings"""
        kb = k.bit_length()
        if mod:
            self.add("bn_rec_tnaf_mod", k, str(u), str(m))
            if neg and k:
                self.add("bn_rec_tnaf_mod", -k, str(u), str(m))
        for w in ws:
            for cap in caps:
                L = -(-(m + 2) // (w - 1)) + 1
                c = {"big": max(2 * kb, m) + 24, "min": kb + 1, "short": kb, "m8": m + 8}[cap]
                if cap == "m8" and kb > m:
                    continue
                self.add("bn_rec_tnaf", k, str(u), str(m), str(w), str(c))
                if reg:
                    cr = {"big": max(2 * kb, m) + 24, "min": kb + 1, "short": kb, "m8": max(L, kb + 1)}[cap]
                    self.add("bn_rec_rtnaf", k, str(u), str(m), str(w), str(cr))
            if neg and k:
                self.add("bn_rec_tnaf", -k, str(u), str(m), str(w), str(max(2 * kb, m) + 24))

    def tiny(self, maxbits):
        """B1: the tiny Koblitz worlds m = 5 .. 17: exhaustive small ranges, every width, both curves"""
        q = self.quick
        for m in TINY_M:
            for u in (1, -1):
                n = koblitz_order(u, m)
                lim = min(1 << (m + 2), 1 << 8 if q else 1 << 10)
                ks = set(range(lim)) if m <= 7 or not q else set(range(48))
                ks |= set(corner_scalars(u, m, self.rng, 12 if q else 100, maxbits))
                for k in sorted(ks):
                    if k >= (1 << maxbits):
                        continue
                    full = k < 16 or k in (n - 1, n, n + 1) or self.rng.random() < (0.04 if q else 0.3)
                    ws = WIDTHS if full else [2 + (k + m) % 7, 2 + (k * 3 + 1) % 7] + ([] if q else [2 + (k // 7) % 7])
                    caps = ("big", "min", "m8") if full else ("big",)
                    self.tau(k, u, m, ws, caps=caps, neg=(k % 5 == 1))
                # a capacity below the documented minimum must be refused
                for k in (1, 5, n - 1):
                    self.tau(k, u, m, [2, 4, 8], caps=("short",), mod=False)

    def wide(self, ms, maxbits):
        """B2: m = 283 (NIST K-283) and the other standard Koblitz degrees"""
        q = self.quick
        for m in ms:
            for u in (1, -1):
                n = koblitz_order(u, m)
                main = m == 283
                ks = corner_scalars(u, m, self.rng, (6 if q else 40) if main else (2 if q else 6), maxbits)
                extra = [v for v in run_scalars(min(maxbits // 2, 2 * m), self.rng, 4 if q else 12) if v not in ks]
                cut = (10 if main else 4) if q else (48 if main else 10)
                extra = self.rng.sample(extra, min(len(extra), cut))
                special = [0, 1, 2, 3, n - 1, n, n + 1, (1 << m) - 1]
                for idx, k in enumerate(ks + extra):
                    sp = k in special
                    if q and not sp:
                        if (not main and idx % 3) or (main and idx % 2):
                            continue
                        ws = [2 + (idx % 7)]
                    elif q:
                        ws = WIDTHS if k in (1, n - 1) else [2, 3, 5, 8]
                    elif sp or (main and idx % 5 == 0):
                        ws = WIDTHS
                    else:
                        ws = [2 + (idx % 7), 2 + ((idx * 5 + 3) % 7)] + ([2 + ((idx * 3 + 1) % 7)] if main else [])
                    caps = ("big", "min", "m8") if (sp and (not q or k in (1, n - 1))) else \
                        (("big", "m8") if idx % 3 == 0 else ("big",))
                    self.tau(k, u, m, ws, caps=caps, neg=(idx % 4 == 0), mod=(not q or sp or idx % 2 == 0))
                # scalars in the domain of the regular form (partial reduction with two odd coordinates) are
                # about a quarter of all: drive a run of consecutive scalars so that enough of them qualify
                base = self.rng.randrange(n // 2, n - 64)
                for k in range(base, base + ((12 if main else 4) if q else (64 if main else 16))):
                    w1 = 2 + (k % 7)
                    for w in ([w1] if q else [w1, 8 - (k % 3)]):
                        cap = max(2 * k.bit_length(), m) + 24
                        self.add("bn_rec_rtnaf", k, str(u), str(m), str(w), str(cap))

    def sac(self, wbits, maxbits):
        """signed aligned columns: ms sub-scalars of about n / (c ms) bits, the first one odd"""
        q = self.quick
        rng = self.rng
        shapes = [(1, 2), (1, 4), (1, 6), (2, 4), (2, 2), (1, 1), (1, 8), (3, 2)]
        nbits = [16, 33, 64] if wbits == 8 else [254, 256, 381, 158, 17, 64, 638]
        for (c, ms) in shapes:
            for n in nbits:
                sub = -(-n // (c * ms))                     # ceil: the length of a sub-scalar
                if sub + 2 > maxbits:
                    continue
                l0 = sub + 1
                for rep in range(3 if q else 12):
                    for cof in (0, 1):
                        xb = rng.choice([1, 2, sub // 2, sub - 1, sub])          # bits(x) + 1 <= l0
                        x = rng.getrandbits(max(1, xb)) | 1
                        if rep % 3 == 2:
                            x = -x
                        ks = []
                        for j in range(ms):
                            kind = (rep + j) % 6
                            nb = sub if kind < 3 else rng.randint(1, sub)
                            v = {0: rng.getrandbits(nb), 1: (1 << nb) - 1, 2: 1 << (nb - 1), 3: rng.getrandbits(nb),
                                 4: int(("01" * nb)[:nb], 2), 5: 0}[kind]
                            ks.append(v)
                        ks[0] |= 1
                        if rep == 1:
                            ks[0] = (1 << (l0 if cof == 0 else sub)) - 1      # k_1 as long as the recoding itself
                        if rep == 0:
                            ks[0] = 1
                        caps = [l0 + 1, l0 + 9, l0] if rep == 0 else [l0 + 1 + rng.randint(0, 4)]
                        for cap in caps:
                            self.add("bn_rec_sac", str(cap), str(c), str(n), str(cof), x, *ks)
                # the length follows the curve parameter / the sub-scalars when they are longer
                for cof in (0, 1):
                    x = rng.getrandbits(sub + 3) | (1 << (sub + 2))
                    ks = [rng.getrandbits(sub) | 1] + [rng.getrandbits(sub) for _ in range(ms - 1)]
                    self.add("bn_rec_sac", str(sub + 16), str(c), str(n), str(cof), x, *ks)
                    self.add("bn_rec_sac", str(l0 + 1), str(c), str(n), str(cof), x, *ks)
                x = 3
                ks = [rng.getrandbits(sub + 2) | 1 | (1 << (sub + 1))] + [rng.getrandbits(sub + 1) | (1 << sub)
                                                                           for _ in range(ms - 1)]
                self.add("bn_rec_sac", str(sub + 16), str(c), str(n), "1", x, *ks)
                self.add("bn_rec_sac", str(l0 + 1), str(c), str(n), "1", x, *ks)
        if wbits == 8:
            # exhaustive: two sub-scalars below 2^5, n = 8
            for k0 in range(1, 32, 2):
                for k1 in range(0, 32 if not q else 16):
                    self.add("bn_rec_sac", "12", "1", "8", "0", 3, k0, k1)


def gen_cases(wbits, digs, rng, tier):
    quick = tier == "quick"
    g = Gen(rng, quick)
    maxbits = wbits * digs
    g.tables()
    if wbits == 8:
        g.tiny(maxbits)
    else:
        g.wide([283] if quick else [283, 163, 233, 409, 571], maxbits)
        # the tiny worlds in the 64-bit build as well
        for m in ([7, 17] if quick else TINY_M):
            for u in (1, -1):
                ks = corner_scalars(u, m, rng, 6, maxbits)
                for k in (rng.sample(ks, 24) if quick else ks):
                    g.tau(k, u, m, [2 + k % 3, 5 + k % 4] if quick else WIDTHS)
    g.sac(wbits, maxbits)
    return g.cases, g.stats


def nontrivial(e):
    """non-trivial: a recoding of at least four digits, a multi-digit scalar, or a table of at least two entries"""
    if isinstance(e.get("ds"), list) and len(e["ds"]) >= 4:
        return True
    if isinstance(e.get("rows"), list) and e["rows"] and len(e["rows"][0]) >= 4:
        return True
    if isinstance(e.get("beta"), list) and len(e["beta"]) >= 2:
        return True
    k = e.get("k")
    return isinstance(k, dict) and k.get("u", 0) >= 2


def MC_RUNS(quick):
    runs = [("TauRecode", "TauRecode", "partial reduction, width-w tau-NAF and regular tau-NAF as coded, digit by digit: "
             "m = 5, 7, both curves, all k < 2^10, w = 2..4; representatives alpha_u for w = 2..8 by their definition",
             False)]
    if not quick:
        runs += [("TauRecode", "TauRecode_m11", "m = 5, 7, 11, all k < 2^12, w = 2..5", False)]
    return runs


def run_ext(ev, conf, rng, tier, stats):
    """the part of C09 behind C09_EXT=1: the design-level model (in parallel) and the two conformance batches"""
    import threading
    quick = tier == "quick"
    mc_err = []

    def models():
        try:
            core.run_models(ev, MC_RUNS(quick), parallel=1)
        except Exception as ex:           # noqa: BLE001
            mc_err.append(ex)

    th = threading.Thread(target=models)
    th.start()
    try:
        cases, stats["tau-w8"] = gen_cases(8, 8, rng, tier)
        conf.run("tau-w8", "w8bn", "tau", ["drv_tau.c"], cases, SPEC, nontrivial=nontrivial,
                 driver_timeout=1800, tlc_timeout=2400, max_restarts=400)
        cases, stats["tau-std256"] = gen_cases(64, 16, rng, tier)
        conf.run("tau-std256", "std256", "tau", ["drv_tau.c"], cases, SPEC, nontrivial=nontrivial,
                 driver_timeout=1800, tlc_timeout=2400, min_per_shard=40, max_restarts=400)
    finally:
        th.join()
    if mc_err:
        raise mc_err[0]
    ev.cov["rule_ext"] = ("tau-adic recodings: both curves (u = +1 / -1), every width 2..8; m = 5, 7, 11, 13, 17 in the "
                          "8-bit world (small ranges exhaustively) and m = 283 (and 163, 233, 409, 571 in the thorough "
                          "tier) at 64 bits; scalars 0, 1, 2, n-1, n, n+1, 2n+-1, 2^j, 2^j+-1, longer than the field, "
                          "negative, runs of ones / zeros, alternating, random; capacities generous, m + 8 and the "
                          "documented minimum; bn_rec_sac: 1..8 sub-scalars, splitting factors 1..3, order lengths "
                          "16..638, extreme sub-scalars, long curve parameter, both cof flags")
