"""Case generation for C14 (hashes, HMAC, KDF/MGF, XMD, AES-CBC).  Pure data:
message contents are spec-independent patterns; every judgement is made by the
TLA+ trace specification (tla/trace/MdTrace.tla), never here."""


def hx(b):
    return b.hex() if b else "."


def pat(n, salt=0):
    """byte i = (7 i + n + salt) mod 256, a full-period pattern that depends on the length"""
    return bytes((7 * i + n + salt) % 256 for i in range(n))


def rnd(rng, n):
    return bytes(rng.randrange(256) for _ in range(n))


def hash_cases(rng, tier):
    quick = tier == "quick"
    out = []
    # every length 0..300 / 0..400: every residue modulo the block size several times over,
    # in particular 55/56/63/64(/119/120/127/128) and 111/112/127/128(/239/240/255/256)
    for n in range(0, 301):
        out.append("md_map_sh256 " + hx(pat(n)))
        out.append("md_map_sh224 " + hx(pat(n, 1)))
    for n in range(0, 401):
        out.append("md_map_sh512 " + hx(pat(n, 2)))
        out.append("md_map_sh384 " + hx(pat(n, 3)))
    for n in range(0, 201 if quick else 301):
        out.append("md_map_b2s256 " + hx(pat(n, 4)))
        out.append("md_map_b2s160 " + hx(pat(n, 5)))
    # content corners at the padding boundaries: all-zero, all-ones, 0x80 (the pad byte) messages
    for n in (0, 1, 55, 56, 63, 64, 65, 111, 112, 119, 120, 127, 128, 129):
        for fill in (0x00, 0xff, 0x80):
            m = bytes([fill]) * n
            for f in ("sh224", "sh256", "sh384", "sh512", "b2s160", "b2s256"):
                out.append("md_map_%s %s" % (f, hx(m)))
    # seeded random content, random lengths (longer in the thorough tier)
    for _ in range(40 if quick else 600):
        n = rng.randrange(0, 600 if quick else 2000)
        f = rng.choice(["sh224", "sh256", "sh384", "sh512", "b2s160", "b2s256"])
        out.append("md_map_%s %s" % (f, hx(rnd(rng, n))))
    return out


def stream_cases(rng, tier):
    quick = tier == "quick"
    out = []
    # every 2-chunk split of every message up to the bound (one event per message)
    top = {"sha256": 130, "sha224": 70, "sha512": 140 if not quick else 70, "sha384": 40}
    if not quick:
        top = {"sha256": 200, "sha224": 130, "sha512": 260, "sha384": 260}
    for h, t in top.items():
        for n in range(0, t + 1):
            out.append("%s_splits %s" % (h, hx(pat(n, 6))))
    # scripted sessions with the context fields after every call
    for h, blk in (("sha256", 64), ("sha224", 64), ("sha512", 128), ("sha384", 128)):
        lens = [0, 1, blk - 9, blk - 8, blk - 1, blk, blk + 1, 2 * blk - 9, 2 * blk - 8, 2 * blk, 3 * blk + 5]
        if blk == 128:
            lens += [blk - 17, blk - 16, 2 * blk - 17, 2 * blk - 16]
        for n in lens:
            m = hx(pat(n, 7)) if n else "00"
            # one chunk; Result twice (idempotence); input after Result; Result again; reset and reuse
            out.append("%s_stream %s z i%d r r i1 r i0 z i%d r" % (h, m, n, min(n, 3)))
            # three chunks incl. an empty one
            a = n // 3
            out.append("%s_stream %s z i%d i0 i%d i%d r" % (h, m, a, n - 2 * a, a))
            # byte-at-a-time tail across the block boundary
            if n >= 4:
                out.append("%s_stream %s z i%d i1 i1 i1 i1 r" % (h, m, n - 4))
            # bit-oriented finish, then misuse
            out.append("%s_stream %s z i%d f%d:%d r f255:1 r" % (h, m, n, rng.randrange(256), rng.randrange(1, 8)))
        out.append("%s_stream 00 z f170:8 r" % h)           # FinalBits with length 8 is an error
        out.append("%s_stream 00 z f170:0 r i5 r" % h)      # length 0 is a no-op
        for _ in range(6 if quick else 60):                  # seeded 3..5-chunk splits of longer messages
            n = rng.randrange(blk, 4 * blk + 40)
            cuts = sorted(rng.randrange(0, n + 1) for _ in range(rng.randrange(2, 5)))
            parts, prev = [], 0
            for c in cuts + [n]:
                parts.append(c - prev)
                prev = c
            out.append("%s_stream %s z %s r" % (h, hx(rnd(rng, n)), " ".join("i%d" % p for p in parts)))
    return out


def mac_kdf_cases(rng, tier):
    quick = tier == "quick"
    out = []
    # HMAC: key lengths below / at / above the block size x message lengths at the padding boundaries
    mlens = [0, 1, 55, 56, 63, 64, 65, 119, 120, 200] if quick else list(range(0, 140)) + [200, 300]
    for kl in (0, 1, 31, 32, 33, 63, 64, 65, 127, 128, 129, 200):
        for ml in mlens if kl in (0, 1, 63, 64, 65, 200) or not quick else (0, 56, 64):
            out.append("md_hmac %s %s" % (hx(pat(ml, 8)), hx(pat(kl, 9))))
    # KDF2 / MGF1: output lengths incl. 0 and non-multiples of the digest size; input lengths
    # that put z || counter across the padding boundaries (51/52 + 4 = 55/56, 59/60 + 4 = 63/64)
    for f in ("md_kdf", "md_mgf"):
        for ol in (0, 1, 31, 32, 33, 63, 64, 65, 100) + (() if quick else (255, 256, 257, 1000)):
            for il in (0, 1, 20, 51, 52, 59, 60, 61, 130) if not quick or ol in (0, 1, 33, 64, 100) else (20, 52):
                out.append("%s %s %d" % (f, hx(pat(il, 10)), ol))
        # more than 255 / 256 blocks: the block counter leaves its low byte
        out.append("%s %s %d" % (f, hx(pat(20, 10)), 32 * 256 + 40))
        if not quick:
            out.append("%s %s %d" % (f, hx(pat(3, 10)), 32 * 255 + 1))
            out.append("%s %s %d" % (f, hx(pat(3, 10)), 32 * 257))
    return out


XMD_B = {"sh224": 28, "sh256": 32, "sh384": 48, "sh512": 64}


def xmd_cases(rng, tier):
    quick = tier == "quick"
    out = []
    for h, b in XMD_B.items():
        for dl in (0, 1, 16, 255):
            for ol in (0, 1, b - 1, b, b + 1, 2 * b, 2 * b + 5, 100):
                for ml in (0, 3, 64) if not quick or dl in (0, 255) else (3,):
                    out.append("md_xmd_%s %s %s %d" % (h, hx(pat(ml, 11)), hx(pat(dl, 12)), ol))
        # the limits: ell = 255 is the last admissible, ell = 256 and DST of 256 bytes must be refused
        out.append("md_xmd_%s %s %s %d" % (h, hx(pat(5, 11)), hx(pat(1, 12)), 255 * b + 1))
        out.append("md_xmd_%s %s %s %d" % (h, hx(pat(5, 11)), hx(pat(256, 12)), b))
        if not quick or h in ("sh256", "sh512"):
            out.append("md_xmd_%s %s %s %d" % (h, hx(pat(5, 11)), hx(pat(1, 12)), 255 * b))
            out.append("md_xmd_%s %s %s %d" % (h, hx(pat(5, 11)), hx(pat(1, 12)), 255 * b - 1))
        if not quick:
            out.append("md_xmd_%s %s %s %d" % (h, hx(pat(70, 11)), hx(pat(255, 12)), 40 * b + 7))
    return out


def aes_cases(rng, tier):
    quick = tier == "quick"
    out = []
    keys = {kl: pat(kl, 13) for kl in (16, 24, 32)}
    iv = pat(16, 14)
    for kl, k in keys.items():
        # plaintext lengths 0..64 (0..4 blocks): encrypt, then decrypt the ciphertext
        for n in range(0, 65):
            out.append("bc_aes_rt %s %s %s" % (hx(k), hx(iv if n % 2 else rnd(rng, 16)), hx(pat(n, 15))))
        # capacity: one byte short of / exactly the padded length
        for n in (0, 1, 15, 16, 17, 32):
            need = n + 16 - n % 16
            for cap in (need - 1, need, 0):
                out.append("bc_aes_cbc_enc %s %s %s %d" % (hx(k), hx(iv), hx(pat(n, 15)), cap))
        # decryption of every final-block pattern: valid paddings 1..16; 0; 17..; inconsistent bytes
        for pre in (0, 16) if quick else (0, 16, 48):
            prefix = pat(pre, 16)
            for p in range(0, 21):
                body = pat(16, 17)
                blk = body[:16 - p] + bytes([p]) * p if p <= 16 else body[:15] + bytes([p])
                if p == 0:
                    blk = body[:15] + b"\x00"
                out.append("bc_aes_craft %s %s %s" % (hx(k), hx(iv), hx(prefix + blk)))
            for p in (255, 128, 32):
                out.append("bc_aes_craft %s %s %s" % (hx(k), hx(iv), hx(prefix + pat(15, 18) + bytes([p]))))
            out.append("bc_aes_craft %s %s %s" % (hx(k), hx(iv), hx(prefix + bytes([p % 256 for p in [16] * 15 + [17]]))))
            for p in range(2, 17):                      # one wrong byte inside a padding of length p
                for pos in {16 - p, 16 - p + (p - 1) // 2, 14}:
                    if pos >= 15 or pos < 16 - p:
                        continue
                    blk = bytearray(pat(16 - p, 19) + bytes([p]) * p)
                    blk[pos] ^= rng.choice([1, 0x80, 0xff, p ^ (p - 1)])
                    if blk[pos] == p:
                        blk[pos] ^= 0x40
                    out.append("bc_aes_craft %s %s %s" % (hx(k), hx(iv), hx(prefix + bytes(blk))))
        # arbitrary ciphertexts: wrong lengths, random blocks
        for n in (0, 1, 15, 17, 31, 33):
            out.append("bc_aes_cbc_dec %s %s %s %d" % (hx(k), hx(iv), hx(rnd(rng, n)), n + 16))
        for _ in range(6 if quick else 60):
            n = 16 * rng.randrange(1, 5)
            out.append("bc_aes_cbc_dec %s %s %s %d" % (hx(k), hx(rnd(rng, 16)), hx(rnd(rng, n)), n))
        out.append("bc_aes_cbc_dec %s %s %s %d" % (hx(k), hx(iv), hx(rnd(rng, 32)), 31))      # capacity short
    # invalid key sizes
    for kl in (0, 1, 15, 17, 23, 25, 31, 33, 64):
        out.append("bc_aes_cbc_enc %s %s %s %d" % (hx(pat(kl, 13)), hx(iv), hx(pat(20, 15)), 64))
        out.append("bc_aes_cbc_dec %s %s %s %d" % (hx(pat(kl, 13)), hx(iv), hx(pat(32, 15)), 64))
    # seeded random keys / ivs / texts
    for _ in range(30 if quick else 400):
        kl = rng.choice([16, 24, 32])
        out.append("bc_aes_rt %s %s %s" % (hx(rnd(rng, kl)), hx(rnd(rng, 16)), hx(rnd(rng, rng.randrange(0, 100 if quick else 300)))))
    return out


def gen_cases(rng, tier):
    parts = dict(hash=hash_cases(rng, tier), stream=stream_cases(rng, tier), mac_kdf=mac_kdf_cases(rng, tier),
                 xmd=xmd_cases(rng, tier), aes=aes_cases(rng, tier))
    return parts
