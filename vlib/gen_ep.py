"""Case generation for prime curves (C03): points, representations, scalars,
curves.  Pure INPUT data for harness/drv_ep.c; every judgement is made by the
TLA+ trace specification (tla/trace/EpTrace), never here.  The little number
theory below (point counting over F_p for p < 256, cube roots of unity) only
serves to CONSTRUCT tiny curves and interesting scalars; if it were wrong the
spec would reject the resulting events, not accept wrong ones."""
import math
import random

BASIC, PROJC, JACOB = 1, 2, 3

MUL_VAR = ["ep_mul", "ep_mul_basic", "ep_mul_slide", "ep_mul_monty", "ep_mul_lwnaf", "ep_mul_lwreg"]
MUL_FIX = ["ep_mul_fix", "ep_mul_fix_basic", "ep_mul_fix_combs", "ep_mul_fix_combd", "ep_mul_fix_lwnaf"]
MUL_SIM = ["ep_mul_sim", "ep_mul_sim_basic", "ep_mul_sim_trick", "ep_mul_sim_inter", "ep_mul_sim_joint"]


def hx(v):
    if v == 0:
        return "0"
    return ("-" if v < 0 else "") + "%x" % abs(v)


# --------------------------------------------------------------------------
# curves
# --------------------------------------------------------------------------
class Curve:
    """What the generator knows about a selectable curve (from the driver's
    curve_probe event or from the tiny-world construction)."""

    def __init__(self, spec, p, n, h, endom, sys, fpb, bnbits, wd, dep, dgb, name=""):
        self.spec, self.p, self.n, self.h, self.endom = spec, p, n, h, endom
        self.sys, self.fpb, self.bnbits, self.wd, self.dep, self.dgb = sys, fpb, bnbits, wd, dep, dgb
        self.name = name or spec
        self.points = None          # tiny worlds with cofactor: every point of the curve as (x, y)

    def lwreg_cap(self):
        l = -(-self.n.bit_length() // (self.wd - 1))
        return (self.wd - 1) * (l + 1)

    def lwreg_buf_bits(self):
        l = -(-self.n.bit_length() // (self.wd - 1))
        return -(-(l * (self.wd - 1)) // self.dgb) * self.dgb


def val(le):
    return sum(b << (8 * i) for i, b in enumerate(le))


def curve_from_probe(e):
    cv = Curve(e["curve"], val(e["p"]), val(e["n"]["d"]), val(e["h"]["d"]), e["endom"], e["add"],
               e["fpb"], e["bnbits"], e["wd"], e["dep"], e["dgb"])
    cv.glv = [val(e[k]["d"]) for k in ("v10", "v20") if k in e]
    return cv


def glv_corners(cv, rng, per=2):
    """Scalars on the rounding boundaries of the two-dimensional decomposition: b_i = round(k*|v_i0| / 2^(bits+1))
    is computed as a truncating shift plus the rounding bit, so choose k with floor(..) ending in an all-ones digit
    and the rounding bit set (the +1 ripples through a whole digit), its neighbours, and exact ties."""
    out = set()
    bits = cv.n.bit_length()
    D = 1 << cv.dgb
    for v in getattr(cv, "glv", []):
        if v == 0:
            continue
        bmax = (cv.n * v) >> (bits + 1)                      # largest coefficient a scalar below n can give
        js = []
        if bmax >= D:
            js = [1, 2, max(1, bmax // D - 1)] + [rng.randrange(1, max(2, bmax // D)) for _ in range(per)]
        for j in js:
            F = j * D                                        # floor part j*D - 1 (all-ones low digit), rounding bit 1
            k = -((-(F * (1 << (bits + 1)) - (1 << bits))) // v)
            out |= {k, k - 1, k + 1}
        for t in [rng.randrange(1, max(2, bmax)) for _ in range(per)]:
            k = -((-(t * (1 << (bits + 1)) + (1 << bits))) // v)   # just at / above a tie t + 1/2
            out |= {k, k - 1}
    return sorted(k for k in out if 0 < k < cv.n)


def probe_cases(ids):
    return ["curve_probe id%d" % i for i in ids]


def _is_prime(n):
    if n < 2:
        return False
    for d in range(2, int(math.isqrt(n)) + 1):
        if n % d == 0:
            return False
    return True


def _points(p, a, b):
    sq = {}
    for y in range(p):
        sq.setdefault(y * y % p, []).append(y)
    pts = []
    for x in range(p):
        for y in sq.get((x * x * x + a * x + b) % p, []):
            pts.append((x, y))
    return pts


def _aff_add(P, Q, p, a):
    if P is None:
        return Q
    if Q is None:
        return P
    if P[0] == Q[0]:
        if (P[1] + Q[1]) % p == 0:
            return None
        l = (3 * P[0] * P[0] + a) * pow(2 * P[1], -1, p) % p
    else:
        l = (Q[1] - P[1]) * pow(Q[0] - P[0], -1, p) % p
    x = (l * l - P[0] - Q[0]) % p
    return (x, (l * (P[0] - x) - P[1]) % p)


def _aff_mul(k, P, p, a):
    R = None
    for bit in bin(k)[2:]:
        R = _aff_add(R, R, p, a)
        if bit == "1":
            R = _aff_add(R, P, p, a)
    return R


def comb_ok(n, dep, endom):
    """In a group of 7..8-bit order a fixed-base comb table entry sum_{j in S} 2^(l*j) G can be the
    identity; ep_mul_pre_combs (called when the curve is installed) then fails in ep_norm_sim, which
    cannot normalise the identity (see the known finding C03-sim-table-infinity).  This cannot happen
    for cryptographic orders; tiny worlds where it does are skipped."""
    l = -(-n.bit_length() // (2 * dep if endom else dep))
    for S in range(1, 1 << dep):
        if sum(1 << (l * j) for j in range(dep) if (S >> j) & 1) % n == 0:
            return False
    return True


def tiny_world(p, a, b, fpb=8, bnbits=32, wd=4, dep=5, dgb=8, sys=PROJC, endom=False, want_h=1):
    """Construct the spec of a tiny curve y^2 = x^3 + ax + b over F_p whose group has order h*n,
    n prime; returns None if the curve does not have that shape."""
    if (4 * a ** 3 + 27 * b * b) % p == 0:
        return None
    pts = _points(p, a, b)
    order = len(pts) + 1
    if order >= (1 << fpb) or order % want_h:
        return None
    n = order // want_h
    if not _is_prime(n) or (want_h > 1 and n <= want_h) or not comb_ok(n, dep, endom) or not comb_ok(n, dep, False):
        return None
    g = None
    for P in pts:
        Q = _aff_mul(want_h, P, p, a) if want_h > 1 else P
        if Q is not None and _aff_mul(n, Q, p, a) is None:
            g = Q
            break
    if g is None:
        return None
    fields = [p, a % p, b % p, g[0], g[1], n, want_h]
    if endom:
        if a % p != 0 or p % 3 != 1 or n % 3 != 1:
            return None
        beta = next(pow(c, (p - 1) // 3, p) for c in range(2, p) if pow(c, (p - 1) // 3, p) != 1)
        lam = None
        for cand in range(2, n):
            if (cand * cand + cand + 1) % n == 0 and _aff_mul(cand, g, p, a) == (beta * g[0] % p, g[1]):
                lam = cand
        if lam is None:
            return None
        fields += [beta, lam]
    c = Curve("t:" + ":".join("%x" % v for v in fields), p, n, want_h, 1 if endom else 0, sys, fpb,
              bnbits, wd, dep, dgb, name="y^2=x^3%+dx%+d/F_%d(n=%d,h=%d%s)" % (a if a < p // 2 else a - p, b, p, n,
                                                                              want_h, ",glv" if endom else ""))
    c.points = pts
    return c


def tiny_worlds(sys=PROJC, even=False, **kw):
    """A GLV curve (a = 0), an a = -3 curve, a generic-a curve and a curve with cofactor 3 (optionally
    one with cofactor 2), all of prime (sub)group order below 2^8 over 8-bit primes."""
    out = []
    w = tiny_world(241, 0, 13, endom=True, sys=sys, **kw)      # order 211, beta = 15, lambda = 14
    if w:
        out.append(w)

    def first(p, a_of, h=1):
        for b in range(1, p):
            w = tiny_world(p, a_of, b, sys=sys, want_h=h, **kw)
            if w:
                return w
        return None
    for w in (first(251, 251 - 3), first(239, 100), first(233, 7, h=3)):
        if w:
            out.append(w)
    if even:
        w = first(227, 5, h=2)          # a point of order two exists: (x0, 0)
        if w:
            out.append(w)
    return out


# --------------------------------------------------------------------------
# scalars
# --------------------------------------------------------------------------
def cube_roots_of_unity(n):
    if n % 3 != 1:
        return []
    for c in range(2, 200):
        l = pow(c, (n - 1) // 3, n)
        if l != 1:
            return [l, l * l % n]
    return []


def scalar_corners(cv, rng, nrand=8, nlong=6):
    """The corner set of DESIGN.md 2.4 relative to the group order n of curve cv."""
    n, b, top = cv.n, cv.n.bit_length(), cv.bnbits
    S = {0, 1, -1, 2, -2, 3, -3, n - 2, n - 1, n, n + 1, 2 * n - 1, 2 * n, 2 * n + 1, -n, -(n - 1),
         -(n + 1), -2 * n, 3 * n, 3 * n + 1, -(2 * n + 1)}
    js = {1, 2, 3, 4, 5, 7, 8, 9, cv.dgb - 1, cv.dgb, cv.dgb + 1, 2 * cv.dgb - 1, 2 * cv.dgb, 2 * cv.dgb + 1,
          b // 2 - 1, b // 2, b // 2 + 1, b - 2, b - 1, b, b + 1, b + 2, cv.fpb - 1, cv.fpb, cv.fpb + 1,
          cv.lwreg_cap() - 1, cv.lwreg_cap(), cv.lwreg_cap() + 1, cv.lwreg_buf_bits() - 1,
          cv.lwreg_buf_bits(), top - 2, top - 1}
    for j in js:
        if 0 < j < top:
            for d in (-1, 0, 1):
                v = (1 << j) + d
                if v.bit_length() <= top:
                    S.add(v)
            S.add(-((1 << j) + 1))
    S.add((1 << top) - 1)
    ones = (1 << b) - 1
    S |= {ones, ones // 3, ones // 3 * 2, ones // 3 % n, (ones // 3 * 2) % n}          # 0xFFFF, 0x5555, 0xAAAA
    S |= {(1 << (b - 1)) + 1, (1 << b) - (1 << (b // 2)), ((1 << (b // 2)) - 1) << (b // 4),
          (1 << (b - 1)) | ((1 << (b // 3)) - 1), ((1 << (b - 1)) - 1) ^ ((1 << (b // 2)) - 1),
          n - (1 << (b // 2)), n ^ ((1 << (b // 2)) - 1)}                                 # long zero / one runs
    r = math.isqrt(n)
    S |= {r - 1, r, r + 1, r * r, r * (r + 1), n // 2, n // 2 + 1, (n - 1) // 2, n // 3, 2 * n // 3,
          n - r, n + r}                                                                    # GLV boundaries
    for l in cube_roots_of_unity(n):
        S |= {l, l - 1, l + 1, n - l, (l * r) % n, l + n}
    for _ in range(nrand):
        S.add(rng.randrange(1, n))
        S.add(-rng.randrange(1, n))
    for _ in range(nlong):
        bits = rng.randint(b + 1, top)
        v = rng.getrandbits(bits) | (1 << (bits - 1))
        S.add(v if rng.random() < 0.7 else -v)
    return sorted(v for v in S if abs(v).bit_length() <= top)


def lwreg_filter(cv, ks, crash_budget):
    """ep_mul_lwreg on a curve without endomorphism overruns a stack buffer for scalars with more
    digits than its recoding buffer (known finding): keep only `crash_budget` such scalars per curve
    so that the driver is not restarted too often."""
    if cv.endom:
        return ks
    out, used = [], 0
    for k in ks:
        if abs(k).bit_length() > cv.lwreg_buf_bits():
            if used >= crash_budget:
                continue
            used += 1
        out.append(k)
    return out


# --------------------------------------------------------------------------
# points
# --------------------------------------------------------------------------
def rep_suffix(cv, sys, rng, force=None):
    """A representation suffix for a point operand of a routine working in system sys."""
    kind = force or rng.choice(["a", "a", "z", "z", "t"])
    if sys == BASIC or kind == "a":
        return ""
    letter = "p" if sys == PROJC else "j"
    if kind == "t":
        return "/" + letter.upper()
    z = rng.choice([2, 3, cv.p - 1, cv.p - 2, rng.randrange(2, cv.p), rng.randrange(2, cv.p)])
    return "/%s%x" % (letter, z)


def inf_token(sys, rng):
    """The identity in a form valid for system sys: the library form, the form the formulas produce
    ((0:1:0) / (1:1:0)) and the all-zero triple with a projective tag (ep_add_jacob's P + (-P))."""
    if sys == PROJC:
        return rng.choice(["inf", "infp", "inf0p"])
    if sys == JACOB:
        return rng.choice(["inf", "infj", "inf0j"])
    return "inf"


def point_token(cv, m, sys, rng, force=None):
    """[m]G in a representation valid for system sys."""
    if m % cv.n == 0:
        return inf_token(sys, rng)
    return "m" + hx(m) + rep_suffix(cv, sys, rng, force)


def base_multiples(cv, rng, nrand):
    n = cv.n
    ms = [0, 1, -1, 2, -2, 3, n - 1, n - 2, (n + 1) // 2, (n - 1) // 2]
    for _ in range(nrand):
        r = rng.randrange(4, n - 3)
        ms += [r, n - r]
    return ms


# --------------------------------------------------------------------------
# group-law cases
# --------------------------------------------------------------------------
def group_cases(cv, rng, pairs, systems=(BASIC, PROJC, JACOB)):
    """pairs: list of (m1, m2) multiples of G; every explicit coordinate system + the default one."""
    cases = []
    c = cv.spec
    ops = [("ep_add", cv.sys), ("ep_sub", cv.sys)]
    for s in systems:
        ops.append(({BASIC: "ep_add_basic", PROJC: "ep_add_projc", JACOB: "ep_add_jacob"}[s], s))
    for (m1, m2) in pairs:
        for op, s in ops:
            al = rng.choice([0, 0, 1, 2])
            a = point_token(cv, m1, s, rng)
            bq = point_token(cv, m2, s, rng)
            if (m1 - m2) % cv.n == 0 and rng.random() < 0.3:
                al = rng.choice([3, 4])         # the same object twice
            cases.append("%s %s %d %s %s" % (op, c, al, a, bq))
    return cases


def unary_cases(cv, rng, ms, systems=(BASIC, PROJC, JACOB)):
    cases = []
    c = cv.spec
    for m in ms:
        for s in systems:
            op = {BASIC: "ep_dbl_basic", PROJC: "ep_dbl_projc", JACOB: "ep_dbl_jacob"}[s]
            cases.append("%s %s %d %s" % (op, c, rng.choice([0, 1]), point_token(cv, m, s, rng)))
        cases.append("ep_dbl %s %d %s" % (c, rng.choice([0, 1]), point_token(cv, m, cv.sys, rng)))
        anysys = rng.choice([PROJC, JACOB])
        cases.append("ep_neg %s %d %s" % (c, rng.choice([0, 1]), point_token(cv, m, anysys, rng)))
        cases.append("ep_norm %s %d %s" % (c, rng.choice([0, 1]), point_token(cv, m, anysys, rng)))
        cases.append("ep_norm %s %d %s" % (c, rng.choice([0, 1]), point_token(cv, m, anysys, rng, force="z")))
        cases.append("ep_is_infty %s 0 %s" % (c, point_token(cv, m, anysys, rng)))
        cases.append("ep_on_curve %s 0 %s" % (c, point_token(cv, m, anysys, rng)))
    return cases


def cmp_cases(cv, rng, pairs):
    cases = []
    for (m1, m2) in pairs:
        s1, s2 = rng.choice([BASIC, PROJC, JACOB]), rng.choice([BASIC, PROJC, JACOB])
        cases.append("ep_cmp %s 0 %s %s" % (cv.spec, point_token(cv, m1, s1, rng), point_token(cv, m2, s2, rng)))
    return cases


def offcurve_cases(cv, rng, count):
    """ep_on_curve must say no for points off the curve, in every representation."""
    cases = []
    for _ in range(count):
        x, y = rng.randrange(cv.p), rng.randrange(cv.p)
        s = rng.choice([BASIC, PROJC, JACOB])
        cases.append("ep_on_curve %s 0 xy%x,%x%s" % (cv.spec, x, y, rep_suffix(cv, s, rng)))
    return cases


def xy_token(cv, P, sys, rng):
    return "xy%x,%x%s" % (P[0], P[1], rep_suffix(cv, sys, rng))


def group_cases_xy(cv, rng, pairs, ops=("ep_add", "ep_sub", "ep_add_jacob", "ep_add_basic", "ep_add_projc")):
    """Group law on ALL points of a tiny curve with cofactor (points given by coordinates)."""
    cases = []
    sysof = {"ep_add": cv.sys, "ep_sub": cv.sys, "ep_add_jacob": JACOB, "ep_add_basic": BASIC, "ep_add_projc": PROJC}
    for (P, Q) in pairs:
        for op in ops:
            s = sysof[op]
            a = xy_token(cv, P, s, rng) if P else inf_token(s, rng)
            b = xy_token(cv, Q, s, rng) if Q else inf_token(s, rng)
            cases.append("%s %s %d %s %s" % (op, cv.spec, rng.choice([0, 0, 1, 2]), a, b))
    return cases


def unary_cases_xy(cv, rng, pts):
    """Unary operations and comparisons on ALL points of a tiny curve with cofactor."""
    cases = []
    c = cv.spec
    for P in pts:
        for op, s in (("ep_dbl_basic", BASIC), ("ep_dbl_projc", PROJC), ("ep_dbl_jacob", JACOB), ("ep_dbl", cv.sys),
                      ("ep_neg", rng.choice([PROJC, JACOB])), ("ep_norm", rng.choice([PROJC, JACOB]))):
            cases.append("%s %s %d %s" % (op, c, rng.choice([0, 1]), xy_token(cv, P, s, rng)))
        Q = rng.choice(pts)
        s1, s2 = rng.choice([BASIC, PROJC, JACOB]), rng.choice([BASIC, PROJC, JACOB])
        cases.append("ep_cmp %s 0 %s %s" % (c, xy_token(cv, P, s1, rng), xy_token(cv, rng.choice([P, Q]), s2, rng)))
        cases.append("ep_on_curve %s 0 %s" % (c, xy_token(cv, P, s1, rng)))
    return cases


# --------------------------------------------------------------------------
# scalar multiplication cases
# --------------------------------------------------------------------------
def mul_point(cv, rng, ms):
    m = rng.choice(ms)
    if m % cv.n == 0:
        m = 1
    return point_token(cv, m, cv.sys, rng, force=rng.choice(["a", "a", "a", "z"]))


def mul_cases(cv, rng, ks_for, point_ms, ops=None, fixed_point=None):
    """ks_for(op) -> scalars to use with that routine."""
    cases = []
    c = cv.spec
    D = 1 << cv.dgb
    one_digit = [2, -2, 3, -3, D - 1, -(D - 1), (D >> 1) + 1, -((D >> 1) + 1), D, -D, D + 1, -(D + 1)]
    for op in (ops or (MUL_VAR + MUL_FIX + ["ep_mul_gen", "ep_mul_dig"])):
        ks = ks_for(op)
        if op in ("ep_mul", "ep_mul_gen") and not fixed_point:
            # the dispatchers have shortcuts for one-digit scalars: both signs, output distinct from / aliased to the input
            for k in one_digit:
                for al in ((0, 1) if op == "ep_mul" else (0,)):
                    if op == "ep_mul":
                        cases.append("%s %s %d %s %s" % (op, c, al, mul_point(cv, rng, point_ms), hx(k)))
                    else:
                        cases.append("%s %s 0 %s" % (op, c, hx(k)))
        if op == "ep_mul_lwreg":
            ks = lwreg_filter(cv, ks, 2)
        if op in MUL_FIX:
            # one table per point: group the scalars by point so that the driver's table cache works
            pts = [fixed_point or mul_point(cv, rng, point_ms) for _ in range(1 if fixed_point else 2)]
            for i, k in enumerate(ks):
                cases.append("%s %s 0 %s %s" % (op, c, pts[i * len(pts) // max(1, len(ks))], hx(k)))
        elif op == "ep_mul_gen":
            for k in ks:
                cases.append("%s %s 0 %s" % (op, c, hx(k)))
        elif op == "ep_mul_dig":
            for k in ks:
                d = abs(k) & ((1 << cv.dgb) - 1)
                cases.append("%s %s %d %s %x" % (op, c, rng.choice([0, 1]), fixed_point or mul_point(cv, rng, point_ms), d))
        else:
            for k in ks:
                cases.append("%s %s %d %s %s" % (op, c, rng.choice([0, 0, 1]),
                                                 fixed_point or mul_point(cv, rng, point_ms), hx(k)))
    return cases


def sim_cases(cv, rng, kpairs_for, point_ms, ops=None):
    cases = []
    c = cv.spec
    for op in (ops or (MUL_SIM + ["ep_mul_sim_gen"])):
        crash_budget = 1
        for (k, m) in kpairs_for(op):
            if op == "ep_mul_sim_trick" and k and m and 1 in (k % cv.n, m % cv.n):
                # known finding (bn_rec_win runs past its buffer: SIGSEGV); keep one such case per curve
                if crash_budget <= 0:
                    k, m = (k + 1 if k % cv.n == 1 else k), (m + 1 if m % cv.n == 1 else m)
                crash_budget -= 1
            if op == "ep_mul_sim_gen":
                cases.append("%s %s %d %s %s %s" % (op, c, rng.choice([0, 0, 2]), hx(k),
                                                    mul_point(cv, rng, point_ms + [0]), hx(m)))
                continue
            mp = rng.choice(point_ms + [0])
            mq = rng.choice([rng.choice(point_ms), mp, -mp, 0])       # also Q = P, Q = -P, identity
            al = rng.choice([0, 0, 1, 2])
            if mp == mq and rng.random() < 0.4:
                al = 3
            cases.append("%s %s %d %s %s %s %s" % (op, c, al, point_token(cv, mp, cv.sys, rng, force="a"), hx(k),
                                                   point_token(cv, mq, cv.sys, rng, force=rng.choice(["a", "z"])),
                                                   hx(m)))
    return cases


def lot_cases(cv, rng, ks, point_ms, counts, per_count=1):
    cases = []
    for cnt in counts:
        for _ in range(per_count):
            parts = []
            for i in range(cnt):
                m = rng.choice(point_ms + [0])
                if i > 0 and rng.random() < 0.15:
                    m = prev if rng.random() < 0.5 else -prev
                prev = m
                parts += [point_token(cv, m, cv.sys, rng, force=rng.choice(["a", "a", "z"])), hx(rng.choice(ks))]
            cases.append(("ep_mul_sim_lot %s 0 %d " % (cv.spec, cnt)) + " ".join(parts))
    return cases


def simdig_cases(cv, rng, point_ms, counts, per_count=1):
    cases = []
    dm = (1 << cv.dgb) - 1
    digs = [0, 1, 2, 3, dm, dm - 1, 1 << (cv.dgb - 1), (1 << (cv.dgb - 1)) + 1, dm // 3, dm // 3 * 2]
    for cnt in counts:
        for _ in range(per_count):
            parts = []
            for i in range(cnt):
                m = rng.choice(point_ms + [0])
                d = rng.choice(digs + [rng.getrandbits(cv.dgb), rng.getrandbits(cv.dgb)])
                parts += [point_token(cv, m, cv.sys, rng, force=rng.choice(["a", "a", "z"])), "%x" % d]
            cases.append(("ep_mul_sim_dig %s 0 %d " % (cv.spec, cnt)) + " ".join(parts))
    return cases
