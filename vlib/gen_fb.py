"""Case generation for binary fields and binary curves (C16): field elements
(0, 1, x, x^(m-1), all-ones, trace-0 / trace-1 elements, single bits at digit
boundaries, zero / all-ones digits, random), double-length reduction inputs,
exponents, curve points (identity, the point of order two, +-G multiples,
points outside the prime-order subgroup, projective / lambda forms) and scalars
(the C03 corner set relative to the group order).  Pure INPUT data for
harness/drv_fb.c: the little GF(2^m) arithmetic below only serves to CONSTRUCT
interesting inputs (elements of given trace, sqrt(b), tiny curves); every
judgement is made by the TLA+ trace specification (tla/model/FbSpec.tla).

Case line:  <sel> <op> <alias> <args...>   (see harness/drv_fb.c)"""
import random

from vlib import gen_ep

MUL = ["fb_mul", "fb_mul_basic", "fb_mul_integ", "fb_mul_lodah", "fb_mul_karat"]
SQR = ["fb_sqr", "fb_sqr_basic", "fb_sqr_quick", "fb_sqr_integ"]
INV = ["fb_inv", "fb_inv_basic", "fb_inv_binar", "fb_inv_exgcd", "fb_inv_almos", "fb_inv_itoht", "fb_inv_bruch",
       "fb_inv_ctaia", "fb_inv_lower"]
SRT = ["fb_srt", "fb_srt_basic", "fb_srt_quick"]
SLV = ["fb_slv", "fb_slv_basic", "fb_slv_quick"]
TRC = ["fb_trc", "fb_trc_basic", "fb_trc_quick"]
EXP = ["fb_exp", "fb_exp_basic", "fb_exp_slide", "fb_exp_monty"]
RDC = ["fb_rdc", "fb_rdc_basic", "fb_rdc_quick"]

# tiny world, thorough tier: the routines driven on EVERY element of the field (the defaults and the table / low-level paths)
FULL_OPS = ["fb_sqr", "fb_sqr_basic", "fb_inv", "fb_inv_basic", "fb_inv_binar", "fb_inv_itoht", "fb_inv_lower", "fb_srt",
            "fb_srt_basic", "fb_slv", "fb_slv_basic", "fb_trc", "fb_trc_basic"]

EB_UN = ["eb_neg", "eb_neg_basic", "eb_neg_projc", "eb_dbl", "eb_dbl_basic", "eb_dbl_projc", "eb_norm"]
EB_BIN = ["eb_add", "eb_add_basic", "eb_add_projc", "eb_sub", "eb_sub_basic", "eb_sub_projc"]
EB_MUL = ["eb_mul", "eb_mul_basic", "eb_mul_lodah", "eb_mul_lwnaf", "eb_mul_rwnaf", "eb_mul_halve"]
EB_FIX = ["eb_mul_fix", "eb_mul_fix_basic", "eb_mul_fix_combs", "eb_mul_fix_combd", "eb_mul_fix_lwnaf"]
EB_SIM = ["eb_mul_sim", "eb_mul_sim_basic", "eb_mul_sim_trick", "eb_mul_sim_inter", "eb_mul_sim_joint"]


def hx(v):
    if v == 0:
        return "0"
    return ("-" if v < 0 else "") + "%x" % abs(v)


# --------------------------------------------------------------------------
# GF(2)[x] / GF(2^m) on Python ints (input construction only)
# --------------------------------------------------------------------------
def clmul(a, b):
    r = 0
    while b:
        if b & 1:
            r ^= a
        a <<= 1
        b >>= 1
    return r


def pmod(a, f):
    df = f.bit_length()
    while a.bit_length() >= df:
        a ^= f << (a.bit_length() - df)
    return a


def pdivmod(a, f):
    q, df = 0, f.bit_length()
    while a.bit_length() >= df:
        s = a.bit_length() - df
        q ^= 1 << s
        a ^= f << s
    return q, a


def pgcd(a, b):
    while b:
        a, b = b, pmod(a, b)
    return a


class BField:
    def __init__(self, sel, m, f, wbits, fd):
        self.sel, self.m, self.f, self.wbits, self.fd = sel, m, f, wbits, fd
        self.fb = (m + 7) // 8

    def mul(self, a, b):
        return pmod(clmul(a, b), self.f)

    def sqr(self, a):
        return self.mul(a, a)

    def inv(self, a):
        r0, r1, t0, t1 = self.f, a, 0, 1
        while r1:
            q, r = pdivmod(r0, r1)
            r0, r1, t0, t1 = r1, r, t1, t0 ^ clmul(q, t1)
        return pmod(t0, self.f)

    def itr(self, a, k):
        for _ in range(k):
            a = self.sqr(a)
        return a

    def sqrt(self, a):
        return self.itr(a, self.m - 1)

    def trace(self, a):
        t, s = a, a
        for _ in range(self.m - 1):
            s = self.sqr(s)
            t ^= s
        return t & 1

    def halftrace(self, a):
        t, s = a, a
        for _ in range((self.m - 1) // 2):
            s = self.sqr(self.sqr(s))
            t ^= s
        return t

    def rnd(self, rng):
        return rng.getrandbits(self.m)

    def srt_half(self):
        """fb_srtn_low takes its table path (fb_sqrt_low) when an exponent of f is even; that path keeps the even-indexed
        coefficients in HALF = ceil((m div 2) / W) digits although there are ceil(m / 2) of them: one bit short when
        (m div 2) is a multiple of the digit size (m = 17 with 8-bit digits; 129, 257 with 64-bit digits)"""
        es = [i for i in range(1, self.m) if self.f >> i & 1]
        return (self.m // 2) % self.wbits == 0 and any(e % 2 == 0 for e in es)

    def irreducible(self):
        m, f = self.m, self.f
        x = 2
        if self.itr(x, m) != x:
            return False
        for q in range(2, m + 1):
            if m % q == 0 and all(q % d for d in range(2, q)):
                if pgcd(self.itr(x, m // q) ^ x, f) != 1:
                    return False
        return True

    # ------------------------------------------------------------ corner sets
    def corners(self, rng, nrand=0):
        m, w, fd = self.m, self.wbits, self.fd
        ones = (1 << m) - 1
        vs = [0, 1, 2, 3, 1 << (m - 1), ones, ones >> 1, (1 << (m - 1)) | 1, 1 << (m - 2), self.f ^ (1 << m),
              ones // 3, (ones // 3) << 1 & ones, ones ^ 1]
        for j in range(1, fd + 1):
            for b in (w * j - 1, w * j, w * j - 4, w * j + 1):
                if 0 <= b < m:
                    vs.append(1 << b)
            if w * j < m:
                vs.append((1 << (w * j)) - 1)
        dm = (1 << w) - 1
        for i in range(fd):
            base = rng.getrandbits(m)
            vs.append(base & ~(dm << (w * i)) & ones)            # digit i zero
            vs.append((base | (dm << (w * i))) & ones)           # digit i all ones
        # elements of trace 0 and of trace 1 (two each)
        need = {0: 2, 1: 2}
        while need[0] or need[1]:
            v = rng.getrandbits(m)
            t = self.trace(v)
            if need[t]:
                need[t] -= 1
                vs.append(v)
        for _ in range(nrand):
            vs.append(rng.getrandbits(m))
        out, seen = [], set()
        for v in vs:
            if v not in seen and v.bit_length() <= m:
                seen.add(v)
                out.append(v)
        return out

    def line(self, op, al, *args):
        return " ".join([self.sel, op, str(al)] + [str(a) for a in args])


def exponents(F, rng, quick):
    m = F.m
    q = (1 << m) - 1
    es = [0, 1, 2, 3, -1, -2, q - 1, q, q + 1, q + 2, -q, -(q - 1), 1 << (m - 1), (1 << (m - 1)) + 1,
          rng.getrandbits(m), -rng.getrandbits(m), rng.getrandbits(m // 2), rng.getrandbits(m + 1) | (1 << m),
          1 << (m + 1), (1 << (m + 2)) + 5, -((1 << (m + 1)) + 1)]
    if not quick:
        es += [rng.getrandbits(m) for _ in range(6)] + [q * q, -(q * q + 1), rng.getrandbits(2 * m)]
    return es


def rdc_inputs(F, rng, corners, n_rand):
    m = F.m
    top = 2 * m - 1                     # products of reduced elements have at most 2m - 1 bits
    ts = {0, 1, (1 << top) - 1, 1 << (top - 1), 1 << m, (1 << m) | 1, F.f, F.f << 1, F.f << (m - 2), (1 << m) - 1,
          ((1 << top) - 1) ^ ((1 << m) - 1)}
    for b in range(m - 2, top):
        if b % 7 == 0 or b >= top - 3 or abs(b - m) <= 2 or b % F.wbits in (0, F.wbits - 1):
            ts.add(1 << b)
    cs = corners[:14]
    for a in cs:
        for b in cs:
            ts.add(clmul(a, b))
    for _ in range(n_rand):
        ts.add(clmul(F.rnd(rng), F.rnd(rng)))
        ts.add(rng.getrandbits(top))
    # the whole double-length vector (2 * digits words): the routine takes a digit vector, not only products
    full = 2 * F.fd * F.wbits
    wide = {(1 << full) - 1, 1 << (full - 1), (1 << (full - 1)) | 1, ((1 << F.wbits) - 1) << (full - F.wbits),
            1 << (full - F.wbits), (1 << (full - F.wbits)) | (1 << top), (1 << full) - 1 - ((1 << m) - 1)}
    for _ in range(max(3, n_rand // 8)):
        wide.add(rng.getrandbits(full) | (1 << (full - 1 - rng.randrange(F.wbits))))
    return sorted(t for t in ts if t.bit_length() <= top) + sorted(wide)


def gen_field(F, rng, tier, exhaustive=False, ext=True, budget=1.0, full_variants=False):
    """All field-level case lines for one field.  exhaustive (tiny worlds): every element for the unary
    operations, corner + random pairs for the binary ones."""
    quick = tier == "quick"
    m = F.m
    L = [F.sel + " fb_select"]

    def nr(n):
        return max(1, int(n * budget))
    cs = F.corners(rng)
    small = cs[:13]
    allel = list(range(1 << m)) if exhaustive else None
    # ---- derived tables: every usable half-trace entry, sqrt(z) multiples
    for l in range((m + 7) // 8):
        for j in range(16):
            if all(8 * l + 2 * k + 1 < m for k in range(4) if j >> k & 1):
                L.append("%s tab_half %d %d" % (F.sel, l, j))
    for i in (range(256) if not quick else sorted(set([0, 1, 2, 3, 128, 255] + rng.sample(range(256), 40)))):
        L.append("%s tab_srz %d" % (F.sel, i))
    k = 0
    # ---- addition and every multiplication variant
    for gi, op in enumerate(["fb_add"] + MUL):
        pool = cs if gi <= 1 else small
        pairs = [(a, b) for a in pool for b in pool]
        if quick and len(pairs) > nr(260):
            keep = [(a, b) for a in small[:6] for b in small[:6]]
            pairs = keep + rng.sample(pairs, nr(260) - len(keep))
        pairs += [(F.rnd(rng), F.rnd(rng)) for _ in range(nr(80 if quick else 600))]
        if exhaustive:
            pairs += [(rng.randrange(1 << m), rng.randrange(1 << m)) for _ in range(nr(1500 if quick else 8000))]
        for (a, b) in pairs:
            al = k % 5
            k += 1
            L.append(F.line(op, al, hx(a), hx(b)))
    # ---- unary operations, every variant
    for group in (SQR, INV, SRT, SLV):
        for gi, op in enumerate(group):
            if exhaustive and not quick:
                ins = allel if (full_variants and op in FULL_OPS) else rng.sample(allel, nr(8000)) + cs
            elif exhaustive:
                ins = rng.sample(allel, nr(3000 if gi == 0 else 800)) + cs
            else:
                ins = cs + [F.rnd(rng) for _ in range(nr(25 if quick else 250))]
            for a in ins:
                if a == 1 and op in ("fb_inv", "fb_inv_exgcd", "fb_inv_lower"):
                    continue                    # meets a recorded finding: one case per routine, last
                if F.srt_half() and op in ("fb_srt", "fb_srt_quick") and a >> (m - 1):
                    continue                    # idem (tiny world only): two cases per routine, last
                L.append(F.line(op, k % 2, hx(a)))
                k += 1
    inv_one = [F.line(op, 0, "1") for op in ("fb_inv", "fb_inv_exgcd", "fb_inv_lower")]
    if F.srt_half():
        inv_one += [F.line(op, i, hx(v)) for op in ("fb_srt", "fb_srt_quick") for i, v in enumerate([1 << (m - 1), (1 << m) - 1])]
    for gi, op in enumerate(TRC):
        if exhaustive and not quick:
            ins = allel if (full_variants and op in FULL_OPS) else rng.sample(allel, nr(8000)) + cs
        elif exhaustive:
            ins = rng.sample(allel, nr(2000 if gi == 0 else 600)) + cs
        else:
            ins = cs + [F.rnd(rng) for _ in range(nr(25 if quick else 250))]
        for a in ins:
            L.append(F.line(op, 0, hx(a)))
    L.append(F.line("fb_copy", 0, hx(cs[6])))
    # simultaneous inversion
    nz = [c for c in cs if c]
    for i in range(nr(12 if quick else 60)):
        n = 1 + i % 8
        xs = [rng.choice(nz + [F.rnd(rng) | 1]) for _ in range(n)]
        if i % 6 == 5:
            xs[rng.randrange(n)] = 0
        L.append(F.line("fb_inv_sim", i % 2, n, *[hx(x) for x in xs]))
    # ---- exponentiation
    # Findings met on purpose by a FEW cases only (they go last): a^|x| = 1 with x < 0 (inversion of one),
    # exponents longer than m + 1 bits (recoding capacity of the sliding-window variant)
    es = exponents(F, rng, quick)
    q = (1 << m) - 1
    tail, hit_seen = [], set()
    bases = [0, 1, 2, q] + [F.rnd(rng) for _ in range(2 if quick else 5)]
    for oi, op in enumerate(EXP):
        for bi, a in enumerate(bases):
            for x in (es if a > 1 else es[:12]):
                hits = (x < 0 and (a == 1 or x % q == 0)) or (abs(x).bit_length() > m + 1 and op in ("fb_exp", "fb_exp_slide"))
                if hits:
                    kind = "one" if x < 0 and (a == 1 or x % q == 0) else "long"
                    if (op, kind) not in hit_seen and (kind == "one" or a > 1):
                        hit_seen.add((op, kind))
                        tail.append(F.line(op, k % 2, hx(a), hx(x)))
                    continue
                L.append(F.line(op, k % 2, hx(a), hx(x)))
                k += 1
    # ---- iterated squaring (negative counts = iterated square roots)
    ks_basic = [0, 1, 2, 3, 5, m - 1, m, m + 1, -1, -2, -(m - 1), -m]
    ks_quick = [1, 2, 5, m - 1, -1] if quick else [0, 1, 2, 3, 5, 8, m - 1, m, -1, -2, -(m - 1)]
    its = small[:8] + [F.rnd(rng) for _ in range(nr(3 if quick else 20))]
    srt_tail = []
    for kk in ks_basic:
        for a in its:
            if kk < 0 and F.srt_half():
                if len(srt_tail) < 1:
                    srt_tail.append(F.line("fb_itr_basic", 0, hx(1 << (m - 1)), -1))
                continue                        # iterated square roots meet the square-root finding (tiny world)
            L.append(F.line("fb_itr_basic", k % 2, hx(a), kk))
            k += 1
    for kk in ks_quick:
        if kk < 0 and F.srt_half():
            continue
        for a in cs + [F.rnd(rng) for _ in range(nr(5 if quick else 40))]:
            L.append(F.line("fb_itr_quick", k % 2, hx(a), kk))
            k += 1
    # ---- digit forms
    dm = (1 << F.wbits) - 1
    digs = [0, 1, 2, 3, 5, 1 << (F.wbits - 1), dm - 1, dm, rng.getrandbits(F.wbits), rng.getrandbits(F.wbits // 2)]
    if F.wbits >= m:
        digs = [d for d in digs if d.bit_length() <= m]
    for a in small + [F.rnd(rng) for _ in range(nr(4))]:
        for d in digs:
            L.append(F.line("fb_add_dig", k % 2, hx(a), hx(d)))
            L.append(F.line("fb_mul_dig", (k + 1) % 2, hx(a), hx(d)))
            k += 1
    # ---- comparison (fb_cmp_dig: also elements whose digits xor to the digit)
    for a in small:
        for b in small[:8]:
            L.append(F.line("fb_cmp", 0, hx(a), hx(b)))
        L.append(F.line("fb_cmp", 3, hx(a), hx(a)))
        L.append(F.line("fb_cmp", 0, hx(a), hx(a)))
    for d in digs[:6]:
        L.append(F.line("fb_cmp_dig", 0, hx(d), hx(d)))
        L.append(F.line("fb_cmp_dig", 0, hx(d ^ 1), hx(d)))
        L.append(F.line("fb_cmp_dig", 0, hx(F.rnd(rng)), hx(d)))
        if F.fd >= 2 and d in digs[:2]:
            # a non-constant element whose digits xor to d (meets a recorded finding: last)
            hi = rng.getrandbits(min(F.wbits, m - F.wbits * (F.fd - 1)) - 1) | 1
            v = (hi << (F.wbits * (F.fd - 1))) | (hi ^ d)
            tail.append(F.line("fb_cmp_dig", 0, hx(v), hx(d)))
    # ---- reductions
    ts = rdc_inputs(F, rng, cs, nr(40 if quick else 500))
    if quick and len(ts) > nr(260):
        wide = [t for t in ts if t.bit_length() > 2 * m - 1]
        rest = [t for t in ts if t.bit_length() <= 2 * m - 1]
        ts = rest[:12] + rng.sample(rest[12:], min(len(rest) - 12, nr(260) - 12)) + wide
    for op in RDC:
        for t in ts:
            if op == "fb_rdc_basic" and (t == 0 or (t.bit_length() > F.wbits * F.fd and pmod(t, F.f) == 0)):
                if t in (0, F.f << (m - 2)):
                    tail.append(F.line(op, 0, hx(t)))          # meets a recorded finding (SIGSEGV): last
                continue
            L.append(F.line(op, 0, hx(t)))
    # ---- binary encoding
    fb = F.fb
    for v in small[:8] + [F.rnd(rng) for _ in range(3)]:
        L.append(F.line("fb_write_bin", 0, hx(v), fb))
        L.append(F.line("fb_read_bin", 0, "%0*x" % (2 * fb, v)))
    L.append(F.line("fb_write_bin", 0, "1", fb + 1))
    L.append(F.line("fb_write_bin", 0, "1", fb - 1))
    L.append(F.line("fb_read_bin", 0, "%0*x" % (2 * (fb + 1), 1)))
    L.append(F.line("fb_read_bin", 0, "%0*x" % (2 * (fb - 1), 1)))
    for _ in range(4):
        L.append(F.line("fb_rand", 0))
    # ---- quadratic extension GF(2^2m)
    if ext:
        pool = small[:7] + [F.rnd(rng) for _ in range(nr(5 if quick else 30))]
        prs = [(rng.choice(pool), rng.choice(pool)) for _ in range(nr(40 if quick else 400))] + \
              [(0, 0), (1, 0), (0, 1), (1, 1), ((1 << m) - 1, (1 << m) - 1)]
        for i, (a0, a1) in enumerate(prs):
            b0, b1 = rng.choice(prs)
            L.append(F.line("fb2_mul", i % 5, hx(a0), hx(a1), hx(b0), hx(b1)))
            L.append(F.line("fb2_sqr", i % 2, hx(a0), hx(a1)))
            L.append(F.line("fb2_inv", i % 2, hx(a0), hx(a1)))
            L.append(F.line("fb2_mul_nor", i % 2, hx(a0), hx(a1)))
        # z^2 + z = c: solvable iff Tr(c1) = 0; both traces of c0
        for i in range(nr(24 if quick else 200)):
            a1 = F.rnd(rng)
            a1 ^= F.trace(a1)                   # Tr(a1) = 0 (Tr(1) = 1 for odd m)
            a0 = F.rnd(rng)
            if i % 2:
                a0 ^= F.trace(a0) ^ 1           # Tr(a0) = 1
            else:
                a0 ^= F.trace(a0)               # Tr(a0) = 0
            if i % 2 and i > 5:
                continue                        # Tr(a0) = 1 meets a recorded finding: three cases, last
            (tail if i % 2 else L).append(F.line("fb2_slv", i % 2 if i % 4 < 2 else 0, hx(a0), hx(a1)))
        L.append(F.line("fb2_slv", 0, "0", "0"))
    return L, inv_one + srt_tail + tail


# --------------------------------------------------------------------------
# curves
# --------------------------------------------------------------------------
class BCurve:
    def __init__(self, sel, F, a, b, gx, gy, n, h, kbl, conf, name=""):
        self.sel, self.F, self.a, self.b, self.gx, self.gy, self.n, self.h, self.kbl = sel, F, a, b, gx, gy, n, h, kbl
        self.conf = conf
        self.name = name or sel
        # view for gen_ep.scalar_corners
        self.ep = gen_ep.Curve(sel, 1 << F.m, n, h, kbl, 2, F.m, conf["bnbits"], conf["wd"], conf["dep"], 8 * conf["w"])
        self.points = None

    # affine group law on Python ints (construction of inputs for the tiny worlds only)
    def add(self, P, Q):
        F = self.F
        if P is None:
            return Q
        if Q is None:
            return P
        if P[0] == Q[0]:
            if P[1] != Q[1] or P[0] == 0:
                return None
            l = P[0] ^ F.mul(P[1], F.inv(P[0]))
            x3 = F.sqr(l) ^ l ^ self.a
            return (x3, F.sqr(P[0]) ^ F.mul(l ^ 1, x3))
        l = F.mul(P[1] ^ Q[1], F.inv(P[0] ^ Q[0]))
        x3 = F.sqr(l) ^ l ^ P[0] ^ Q[0] ^ self.a
        return (x3, F.mul(l, P[0] ^ x3) ^ x3 ^ P[1])

    def mul(self, k, P):
        R = None
        for bit in bin(k)[2:]:
            R = self.add(R, R)
            if bit == "1":
                R = self.add(R, P)
        return R

    def order_two(self):
        return (0, self.F.sqrt(self.b))


def parse_listing(out, cfg_sel_prefix="E"):
    """`drv_fb --list` -> (conf dict, [(fb id, pa, pb, pc, f)], [BCurve])"""
    conf, fbs, ebs = {}, [], []
    for ln in out.splitlines():
        t = ln.split()
        if not t:
            continue
        if t[0] == "conf":
            conf = {k: int(v) for k, v in (x.split("=") for x in t[1:])}
    for ln in out.splitlines():
        t = ln.split()
        if not t:
            continue
        if t[0] == "fb" and len(t) == 6:
            fbs.append((int(t[1]), int(t[2]), int(t[3]), int(t[4]), int(t[5], 16)))
        if t[0] == "eb" and len(t) == 10:
            f = int(t[2], 16)
            F = BField("E" + t[1], conf["m"], f, 8 * conf["w"], conf["fd"])
            ebs.append(BCurve("E" + t[1], F, int(t[3], 16), int(t[4], 16), int(t[5], 16), int(t[6], 16),
                              int(t[7], 16), int(t[8], 16), int(t[9]), conf))
    return conf, fbs, ebs


def rep_suffix(cv, rng, sys=2, force=None):
    kind = force or rng.choice(["a", "a", "z", "z", "t"])
    if sys == 1 or kind == "a":
        return ""
    if kind == "t":
        return "/P"
    F = cv.F
    z = rng.choice([2, 3, (1 << F.m) - 1, 1 << (F.m - 1), F.rnd(rng) | 1, F.rnd(rng) | 1])
    return "/p%x" % z


def pt(cv, mult, rng, sys=2, force=None, coset=False):
    """[mult]G (+ T when coset) in a representation valid for coordinate system sys"""
    if coset:
        return "s" + hx(mult) + rep_suffix(cv, rng, sys, force)
    if mult % cv.n == 0:
        return "inf"
    return "m" + hx(mult) + rep_suffix(cv, rng, sys, force)


def t2_token(cv, rng, sys=2, force=None):
    T = cv.order_two()
    return "xy%x,%x%s" % (T[0], T[1], rep_suffix(cv, rng, sys, force))


def base_multiples(cv, rng, nrand):
    n = cv.n
    ms = [0, 1, -1, 2, -2, 3, n - 1, n - 2, (n + 1) // 2, (n - 1) // 2]
    for _ in range(nrand):
        r = rng.randrange(4, n - 3)
        ms += [r, n - r]
    return ms


SYS = {"eb_add": 2, "eb_sub": 2, "eb_add_basic": 1, "eb_sub_basic": 1, "eb_add_projc": 2, "eb_sub_projc": 2,
       "eb_neg": 2, "eb_neg_basic": 1, "eb_neg_projc": 2, "eb_dbl": 2, "eb_dbl_basic": 1, "eb_dbl_projc": 2, "eb_norm": 2}


def group_cases(cv, rng, quick, scale=1.0):
    """Group law: every pair over {O, T, +-G, +-2G, 3G, (n-1)G, halves, random and opposite, coset points} x every
    variant x representation, alias patterns; unary operations; comparisons; curve membership."""
    c = cv.sel
    ms = base_multiples(cv, rng, 2 if quick else 6)
    # operands: ("m", k) multiple of G, ("s", k) = kG + T, ("t",) the point of order two
    ops_ = [("m", k) for k in ms] + [("t",), ("s", 1), ("s", -1), ("s", 2), ("s", rng.randrange(3, cv.n))]

    def tok(o, sys, force=None):
        if o[0] == "t":
            return t2_token(cv, rng, sys, force)
        return pt(cv, o[1], rng, sys, force, coset=(o[0] == "s"))

    def related(o1, o2):
        if o1[0] == "t" or o2[0] == "t":
            return o1[0] == o2[0] or "s" in (o1[0], o2[0])
        return (o1[1] - o2[1]) % cv.n == 0 or (o1[1] + o2[1]) % cv.n == 0 or o1[1] % cv.n == 0 or o2[1] % cv.n == 0
    pairs = [(a, b) for a in ops_ for b in ops_]
    if quick:
        special = [pq for pq in pairs if related(*pq)]
        rest = [pq for pq in pairs if not related(*pq)]
        pairs = special + rng.sample(rest, min(len(rest), int(50 * scale)))
    L = []
    for (o1, o2) in pairs:
        for op in EB_BIN:
            al = rng.choice([0, 0, 1, 2])
            s = SYS[op]
            a, b = tok(o1, s), tok(o2, s)
            if o1 == o2 and rng.random() < 0.3:
                al = rng.choice([3, 4])
                b = a
            L.append("%s %s %d %s %s" % (c, op, al, a, b))
    for o in ops_ + ops_:
        for op in EB_UN:
            s = SYS[op]
            L.append("%s %s %d %s" % (c, op, rng.choice([0, 1]), tok(o, s, force="z" if (op == "eb_norm" and rng.random() < 0.6) else None)))
        L.append("%s eb_is_infty 0 %s" % (c, tok(o, 2)))
        L.append("%s eb_on_curve 0 %s" % (c, tok(o, 2)))
        if cv.kbl:
            L.append("%s eb_frb %d %s" % (c, rng.choice([0, 1]), tok(o, 2)))
    # the identity as the projective addition returns it for P + (-P): all-zero triple tagged PROJC
    L.append("%s eb_is_infty 0 inf0p" % c)
    L.append("%s eb_norm 0 inf0p" % c)
    L.append("%s eb_add 0 inf0p %s" % (c, tok(("m", 3), 2)))
    # halving: points of the prime-order subgroup (always halvable), affine and lambda form; the identity;
    # the point of order two and coset points where they are halvable (cofactor 4)
    hl = [("m", k) for k in ms if k % cv.n] + [("m", rng.randrange(2, cv.n)) for _ in range(4 if quick else 30)]
    for o in hl:
        L.append("%s eb_hlv %d %s" % (c, rng.choice([0, 1]), tok(o, 1)))
        L.append("%s eb_hlv %d %s/h" % (c, rng.choice([0, 1]), tok(o, 1)))
    tail = ["%s eb_hlv 0 inf" % c]
    if cv.h % 4 == 0:
        L.append("%s eb_hlv 0 %s" % (c, t2_token(cv, rng, 1)))
        L.append("%s eb_hlv 0 %s" % (c, pt(cv, 5, rng, 1, coset=True)))
    # comparisons in every pair of representations
    cp = pairs if not quick else rng.sample(pairs, min(len(pairs), int(80 * scale)))
    for (o1, o2) in cp:
        L.append("%s eb_cmp 0 %s %s" % (c, tok(o1, rng.choice([1, 2])), tok(o2, rng.choice([1, 2]))))
    for o in ops_[:8]:
        L.append("%s eb_cmp 0 %s %s" % (c, tok(o, 2, "z"), tok(o, 2, "z")))
    # the lambda representation (raw halving output) against every other representation, equal and different points
    fin = [o for o in ops_ if tok(o, 1) not in ("inf",) and not tok(o, 1).startswith("xy")][:6]
    for j, o in enumerate(fin):
        other = fin[(j + 1) % len(fin)]
        for a, b in ((tok(o, 1) + "/h", tok(o, 2, "z")), (tok(o, 2, "z"), tok(o, 1) + "/h"), (tok(o, 1) + "/h", tok(o, 1) + "/h"),
                     (tok(o, 1) + "/h", tok(o, 1)), (tok(o, 1) + "/h", tok(other, 2, "z")), (tok(other, 1), tok(o, 1) + "/h")):
            L.append("%s eb_cmp 0 %s %s" % (c, a, b))
    # the all-zero projective identity against finite points (meets a recorded finding: last)
    tail.append("%s eb_cmp 0 inf0p %s" % (c, tok(("m", 2), 2, "z")))
    tail.append("%s eb_cmp 0 %s inf0p" % (c, tok(("m", 5), 2, "z")))
    L.append("%s eb_cmp 0 inf0p inf" % c)
    # off-curve points
    for _ in range(10 if quick else 60):
        L.append("%s eb_on_curve 0 xy%x,%x%s" % (c, cv.F.rnd(rng), cv.F.rnd(rng), rep_suffix(cv, rng, 2)))
    rng.shuffle(L)
    return ["%s eb_select" % c] + L, tail


def mul_cases(cv, rng, quick, scale=1.0):
    """Every scalar multiplication x the corner set of scalars relative to n."""
    c = cv.sel
    ep = cv.ep
    corners = gen_ep.scalar_corners(ep, rng, nrand=3 if quick else 12, nlong=2 if quick else 8)
    must = [0, 1, -1, 2, cv.n - 1, cv.n, cv.n + 1, 2 * cv.n, -cv.n]
    per_op = max(6, int((14 if quick else 0.6 * len(corners)) * scale))
    ms = [m for m in base_multiples(cv, rng, 2) if m % cv.n]

    # scalars with more bits than n meet a recorded finding in every routine but eb_mul_basic / eb_mul_halve
    # (no reduction modulo n): a few per routine, the rest of the budget goes to scalars up to bits(n)
    short = [k for k in corners if abs(k).bit_length() <= cv.n.bit_length()]
    long_ = [k for k in corners if abs(k).bit_length() > cv.n.bit_length()]

    def ks(nlong=1):
        if per_op >= len(short):
            base = list(short)
        else:
            base = rng.sample(must, min(len(must), per_op // 2)) + rng.sample(short, per_op - min(len(must), per_op // 2))
        return base + rng.sample(long_, min(nlong, len(long_)))

    def P(force=None):
        return pt(cv, rng.choice(ms), rng, 2, force=force or rng.choice(["a", "a", "a", "z"]))
    L = []
    NOPROJ = ("eb_mul_lodah", "eb_mul_halve") + (("eb_mul_rwnaf",) if cv.kbl else ())
    for op in EB_MUL:
        for k in ks(nlong=1 if op in ("eb_mul_lwnaf", "eb_mul_lodah", "eb_mul_basic", "eb_mul_halve") else 0):
            # a projective operand meets a recorded finding in the ladder, halving and right-to-left tau-NAF routines
            L.append("%s %s %d %s %s" % (c, op, rng.choice([0, 0, 1]), P("a" if op in NOPROJ else None), hx(k)))
        if op == "eb_mul":
            D = 1 << 64 if not hasattr(ep, "dgb") else 1 << ep.dgb
            for k in [2, -2, 3, -3, D - 1, -(D - 1), (D >> 1) + 1, -((D >> 1) + 1), D, -D, D + 1, -(D + 1)]:
                if abs(k) < cv.n:
                    for al in (0, 1):
                        L.append("%s %s %d %s %s" % (c, op, al, P("a"), hx(k)))
        if op in NOPROJ:
            L.append("%s %s 0 %s %s" % (c, op, P("z"), hx(rng.choice(short))))
        L.append("%s %s 0 inf %s" % (c, op, hx(rng.choice(short))))
    # points outside the prime-order subgroup (the order-two point, G + T): the generic routines
    for op in ("eb_mul_basic",) + (("eb_mul_lwnaf", "eb_mul_rwnaf") if not cv.kbl else ()):
        for k in rng.sample(must, 4) + [rng.randrange(cv.n)]:
            L.append("%s %s 0 %s %s" % (c, op, t2_token(cv, rng, 2 if op != "eb_mul_basic" else 1), hx(k)))
            L.append("%s %s 0 %s %s" % (c, op, pt(cv, 1, rng, 1, coset=True), hx(k)))
    for op in EB_FIX:
        pts = [P("a") for _ in range(1 if quick else 2)]
        kk = ks(nlong=1 if op in ("eb_mul_fix_basic", "eb_mul_fix_combs", "eb_mul_fix_lwnaf") else 0)
        for i, k in enumerate(kk):
            L.append("%s %s 0 %s %s" % (c, op, pts[i * len(pts) // len(kk)], hx(k)))
    for k in ks(nlong=0):
        L.append("%s eb_mul_gen 0 %s" % (c, hx(k)))
    dm = (1 << ep.dgb) - 1
    for d in [0, 1, 2, 3, dm, dm - 1, 1 << (ep.dgb - 1), rng.getrandbits(ep.dgb), rng.getrandbits(ep.dgb // 2)]:
        L.append("%s eb_mul_dig %d %s %x" % (c, rng.choice([0, 1]), P(), d))
    L.append("%s eb_mul_dig 0 inf 5" % c)
    nsim = max(3, int((5 if quick else 40) * scale))
    for op in EB_SIM + ["eb_mul_sim_gen"]:
        prs = [(rng.choice(short), rng.choice(short)) for _ in range(nsim)] + \
              [(rng.choice(short), 0), (0, rng.choice(short)), (cv.n, rng.choice(short))][:2 if quick else 3] + \
              ([(rng.choice(long_), rng.choice(short))] if op in ("eb_mul_sim_joint", "eb_mul_sim_inter") else []) + \
              ([(1, rng.choice(short))] if op in ("eb_mul_sim_trick", "eb_mul_sim_basic") else [])
        eqop = 0
        for (k, m) in prs:
            if op == "eb_mul_sim_gen":
                L.append("%s %s %d %s %s %s" % (c, op, rng.choice([0, 0, 2]), hx(k), pt(cv, rng.choice(ms + [0]), rng, 2), hx(m)))
                continue
            mp = rng.choice(ms + [0])
            mq = rng.choice([rng.choice(ms), mp, -mp, 0])
            if op in ("eb_mul_sim_joint", "eb_mul_sim_trick") and mp and k and m and \
                    any((i * mp * (1 if k > 0 else -1) + j * mq * (1 if m > 0 else -1)) % cv.n == 0
                        for i in range(4) for j in range(4) if i + j):
                # a table entry is the identity: meets a recorded finding; two such cases per routine
                eqop += 1
                if eqop > 2:
                    mq = mp * 5 + 7
            al = rng.choice([0, 0, 1, 2])
            if mp == mq and rng.random() < 0.4:
                al = 3
            L.append("%s %s %d %s %s %s %s" % (c, op, al, pt(cv, mp, rng, 2, "a"), hx(k),
                                                pt(cv, mq, rng, 2, rng.choice(["a", "z"])), hx(m)))
    rng.shuffle(L)
    return L


# --------------------------------------------------------------------------
# tiny worlds: GF(2^17), 8-bit digits
# --------------------------------------------------------------------------
# trinomials with an odd / even middle exponent, pentanomials with exponents on both sides of a digit boundary,
# all-odd exponents (the table-free square root) and mixed ones; each is re-checked for irreducibility by the
# spec (fb_select).  Polynomials with more than three basis elements of trace one are refused by the library.
TINY_POLYS = ["T3", "T5", "T6", "Q3,2,1", "Q8,7,1", "Q9,5,3", "Q8,3,1", "Q9,7,1"]


def poly_of(sel, m=17):
    es = [int(x) for x in sel[1:].split(",")]
    f = (1 << m) | 1
    for e in es:
        f |= 1 << e
    return f


def tiny_fields():
    return [BField(sel, 17, poly_of(sel), 8, 3) for sel in TINY_POLYS]


# curves over GF(2^17) = GF(2)[x]/(x^17 + x^3 + 1), found offline by point counting; everything about them (G on
# the curve, n prime, [n]G = O, Hasse, cofactor) is re-checked by the spec (eb_select):
#   a random curve with Tr(a) = 1: #E = 2 * 65563;  the Koblitz curve E_1: #E = 2 * 65587
TINY_CURVES = [("T3", 20919, 99867, 65563, 2, 0), ("T3", 1, 1, 65587, 2, 1)]
TINY_CONF = dict(m=17, w=1, fd=3, wd=4, dep=5, bnbits=32, add=2)


def tiny_curves():
    out = []
    for (psel, a, b, n, h, kbl) in TINY_CURVES:
        F = BField(psel, 17, poly_of(psel), 8, 3)
        cv = BCurve("", F, a, b, 0, 0, n, h, kbl, TINY_CONF)
        # a generator of the subgroup of order n: h times the first point found
        x = 2
        while True:
            x += 1
            c = F.mul(ERhs(F, a, b, x), F.sqr(F.inv(x)))          # y = x z, z^2 + z = rhs / x^2
            if F.trace(c):
                continue
            z = F.halftrace(c)
            G = cv.mul(h, (x, F.mul(x, z)))
            if G is not None and cv.mul(n, G) is None:
                break
        cv.gx, cv.gy = G
        cv.sel = "C%s:%x:%x:%x:%x:%x:%x" % (psel, a, b, G[0], G[1], n, h)
        F.sel = cv.sel
        cv.ep.spec = cv.sel
        cv.name = "y^2+xy=x^3+%xx^2+%x/GF(2^17)[%s](n=%d,h=%d%s)" % (a, b, psel, n, h, ",koblitz" if kbl else "")
        out.append(cv)
    return out


def ERhs(F, a, b, x):
    x2 = F.sqr(x)
    return F.mul(x2, x) ^ F.mul(a, x2) ^ b


def tiny_scalar_cases(cv, rng, quick, ops=None, count=None):
    """Tiny world: every routine on a dense / exhaustive set of scalars k in [-2n, 3n] and 2^j(+-1)."""
    n = cv.n
    c = cv.sel
    top = (1 << n.bit_length()) - 1             # scalars with more bits than n meet a recorded finding: a few only
    allk = list(range(-n - 40, top + 1)) if not quick else None
    corner = [0, 1, -1, 2, 3, n - 2, n - 1, n, n + 1, 2 * n - 1, 2 * n, 2 * n + 1, -n, -(n + 1), n // 2, (n + 1) // 2]
    for j in range(1, 18):
        corner += [(1 << j) - 1, 1 << j, (1 << j) + 1, -((1 << j) + 1)]
    longk = [k for k in corner if abs(k).bit_length() > n.bit_length()]
    corner = [k for k in corner if abs(k).bit_length() <= n.bit_length()]
    L = []
    G = "m1"
    for op in (ops or (EB_MUL + EB_FIX + ["eb_mul_gen"])):
        if quick:
            ks = corner + [rng.randrange(-n, top) for _ in range(count or 250)]
        else:
            ks = corner + (allk if op == "eb_mul_lwnaf" else
                           [rng.randrange(-n, top) for _ in range(count or (20000 if op in ("eb_mul_rwnaf", "eb_mul_halve") else 4000))])
        ks = ks + rng.sample(longk, 1)
        pts = [G, "m%x" % rng.randrange(2, n)]
        for i, k in enumerate(ks):
            if op == "eb_mul_gen":
                L.append("%s %s 0 %s" % (c, op, hx(k)))
            elif op in EB_FIX:
                L.append("%s %s 0 %s %s" % (c, op, pts[0 if i < len(ks) * 3 // 4 else 1], hx(k)))
            else:
                L.append("%s %s %d %s %s" % (c, op, rng.choice([0, 0, 1]), rng.choice(pts + [pts[1]]), hx(k)))
    # every routine on other points with a corner set of scalars
    for _ in range(20 if quick else 300):
        P = "m%x" % rng.randrange(1, n)
        for op in EB_MUL:
            L.append("%s %s 0 %s %s" % (c, op, P, hx(rng.choice(corner[:16]))))
    small = list(range(-n - 2, top + 1))
    for op in EB_SIM + ["eb_mul_sim_gen"]:
        eqop = 0
        for _ in range(120 if quick else 2500):
            k, m = rng.choice(small), rng.choice(small)
            if op == "eb_mul_sim_gen":
                L.append("%s %s 0 %s m%x %s" % (c, op, hx(k), rng.randrange(1, n), hx(m)))
            else:
                mp = rng.randrange(1, n)
                mq = rng.choice([rng.randrange(1, n), rng.randrange(1, n), mp, n - mp])
                if mq in (mp, n - mp) and op in ("eb_mul_sim_joint", "eb_mul_sim_trick") and k and m:
                    eqop += 1                   # a table entry is the identity: recorded finding, two cases per routine
                    if eqop > 2:
                        mq = (mp * 5 + 7) % n or 1
                if op == "eb_mul_sim_trick" and (abs(k) == 1 or abs(m) == 1):
                    k, m = k * 3 + 2, m * 3 + 2         # scalars shorter than the window: recorded finding (crash)
                L.append("%s %s %d m%x %s m%x %s" % (c, op, rng.choice([0, 0, 1, 2]), mp, hx(k), mq, hx(m)))
    rng.shuffle(L)
    return L
