"""Case generation for the prime-field layer (C02): residue corner sets that
depend on the modulus (0, 1, 2, p-1, p-2, (p+-1)/2, R mod p, R^-1 mod p, values
whose RAW Montgomery form has zero / all-ones digits, residues and non-residues,
elements of 2-power and 3-power order) + seeded random, for every operation,
algorithm variant and alias pattern.  Pure input data: the modulus is learnt
from the driver (`--list`) or chosen here for the tiny worlds; every judgement
is made by the TLA+ trace specification (tla/model/FpSpec.tla), never here.

Case line:  <sel> <op> <alias> <args...>   sel = P<id> | D<prime hex>
            value tokens: <hex> = residue value, r:<hex> = raw digits."""
import random

ADD = ["fp_add", "fp_add_basic", "fp_add_integ"]
SUB = ["fp_sub", "fp_sub_basic", "fp_sub_integ"]
MUL = ["fp_mul", "fp_mul_basic", "fp_mul_comba", "fp_mul_integ", "fp_mul_karat"]
NEG = ["fp_neg", "fp_neg_basic", "fp_neg_integ"]
DBL = ["fp_dbl", "fp_dbl_basic", "fp_dbl_integ"]
HLV = ["fp_hlv", "fp_hlv_basic", "fp_hlv_integ", "fp_trs"]
SQR = ["fp_sqr", "fp_sqr_basic", "fp_sqr_comba", "fp_sqr_integ", "fp_sqr_karat"]
INV = ["fp_inv", "fp_inv_basic", "fp_inv_binar", "fp_inv_monty", "fp_inv_exgcd",
       "fp_inv_divst", "fp_inv_jmpds", "fp_inv_lower"]
EXP = ["fp_exp", "fp_exp_basic", "fp_exp_slide", "fp_exp_monty"]
SMB = ["fp_smb", "fp_smb_basic", "fp_smb_binar", "fp_smb_divst", "fp_smb_jmpds", "fp_smb_lower"]
RDC_MONTY = ["fp_rdc", "fp_rdc_monty", "fp_rdc_monty_basic", "fp_rdc_monty_comba"]
DIGOPS = ["fp_add_dig", "fp_sub_dig", "fp_mul_dig", "fp_exp_dig"]


def is_prime(n):
    """input selection only (the spec re-checks primality of the installed modulus)"""
    if n < 2:
        return False
    for q in (2, 3, 5, 7, 11, 13, 17, 19, 23, 29, 31, 37):
        if n % q == 0:
            return n == q
    d, s = n - 1, 0
    while d % 2 == 0:
        d //= 2
        s += 1
    for a in (2, 3, 5, 7, 11, 13, 17, 19, 23, 29, 31, 37):
        x = pow(a, d, n)
        if x in (1, n - 1):
            continue
        for _ in range(s - 1):
            x = x * x % n
            if x == n - 1:
                break
        else:
            return False
    return True


def hx(v):
    if v == 0:
        return "0"
    return ("-" if v < 0 else "") + "%x" % abs(v)


class Field:
    def __init__(self, sel, p, wbits, fd, fbits, sparse=False):
        self.sel = sel
        self.p = p
        self.wbits = wbits
        self.fd = fd
        self.fbits = fbits
        self.sparse = sparse          # a pseudo-Mersenne form is installed (fp_rdc_quick usable)
        self.R = 1 << (wbits * fd)
        self.fb = (fbits + 7) // 8

    # ------------------------------------------------------------ corner sets
    def values(self, rng, nrand=0):
        """residue VALUES (tokens converted by the library)"""
        p, R = self.p, self.R
        vs = [0, 1, 2, 3, 4, p - 1, p - 2, p - 3, (p - 1) // 2, (p + 1) // 2, (p - 1) // 2 - 1,
              R % p, pow(R, -1, p), R * R % p, (p - R % p) % p, (1 << (self.wbits - 1)) % p,
              ((1 << self.wbits) - 1) % p, (1 << self.wbits) % p]
        # a non-residue, elements of 2-power order (Tonelli-Shanks), squares and non-squares
        z = next(x for x in range(2, 2000) if pow(x, (p - 1) // 2, p) == p - 1)
        s, t = 0, p - 1
        while t % 2 == 0:
            t //= 2
            s += 1
        g = pow(z, t, p)                       # order 2^s
        vs += [z, z * z % p, (p - z) % p, g, g * g % p, pow(g, 3, p)]
        for k in range(1, min(s, 6)):
            vs.append(pow(g, 1 << k, p))
        vs += [x * x % p for x in (3, 5, 7)] + [x * z % p for x in (4, 9)]
        if p % 3 == 1:                         # cubes, non-cubes, elements of 3-power order
            c = next(x for x in range(2, 2000) if pow(x, (p - 1) // 3, p) != 1)
            s3, t3 = 0, p - 1
            while t3 % 3 == 0:
                t3 //= 3
                s3 += 1
            h = pow(c, t3, p)
            vs += [c, c * c % p, pow(c, 3, p), h, h * h % p, pow(h, 3, p), pow(5, 3, p), 2 * pow(c, 3, p) % p]
        else:
            vs += [8, 27, pow(5, 3, p)]
        for _ in range(nrand):
            vs.append(rng.randrange(p))
        out, seen = [], set()
        for v in vs:
            v %= p
            if v not in seen:
                seen.add(v)
                out.append(v)
        return out

    def raws(self, rng, nrand=2):
        """RAW digit patterns below p: zero / all-ones digits in every position"""
        p, w, fd = self.p, self.wbits, self.fd
        m = (1 << w) - 1
        out = [1, 2, p - 1, p - 2, p >> 1]
        for j in range(1, fd + 1):
            out += [(1 << (w * j)) - 1, (1 << (w * j)) - 2, 1 << (w * (j - 1)), (1 << (w * j - 1))]
        for i in range(fd):
            for _ in range(nrand):
                base = rng.randrange(p)
                out.append(base & ~(m << (w * i)))                     # digit i zero
                out.append(base | (m << (w * i)))                      # digit i all ones
                top = (p >> (w * (fd - 1)))
                if top > 1 and i != fd - 1:
                    out.append(((top - 1) << (w * (fd - 1))) | (((1 << (w * (fd - 1))) - 1)))   # all ones below the top
        out += [int("55" * (w * fd // 8), 16), int("aa" * (w * fd // 8), 16)]
        res, seen = [], set()
        for r in out:
            if 0 <= r < p and r not in seen:
                seen.add(r)
                res.append(r)
        return res

    def tokens(self, rng, nrand=0):
        return [hx(v) for v in self.values(rng, nrand)] + ["r:" + hx(r) for r in self.raws(rng)]

    def rnd(self, rng):
        return hx(rng.randrange(self.p))

    def line(self, op, al, *args):
        return " ".join([self.sel, op, str(al)] + [str(a) for a in args])


def exponents(F, rng, wide=True):
    p, fb = F.p, F.fbits
    es = [0, 1, 2, 3, -1, -2, -3, p - 1, p - 2, p, p + 1, p + 2, (p - 1) // 2, (p + 1) // 4, -(p - 1), -(p - 2),
          -(p + 5), (1 << fb) - 1, 1 << fb, (1 << (fb + 1)) - 1, -((1 << (fb + 1)) - 1),
          rng.getrandbits(fb), -rng.getrandbits(fb), rng.getrandbits(max(2, fb // 2)), rng.getrandbits(fb + 1) | (1 << fb)]
    if wide:
        # longer than the field size by more than one bit
        es += [1 << (fb + 1), 2 * p + 3 if (2 * p + 3).bit_length() > fb + 1 else 4 * p + 1, p * p, -(p * p + 1)]
    return es


def rdc_inputs(F, rng, n_rand):
    """double-length values below p * R (the domain of Montgomery reduction)"""
    p, R = F.p, F.R
    raws = [0, 1, p - 1, p - 2, R % p, (p - 1) // 2] + F.raws(rng, 1)[:8]
    ts = {0, 1, p, p - 1, p + 1, R - 1, R, R + 1, p * R - 1, p * R - p, (p - 1) * (p - 1), (p - 1) * R, R * (p - 1) + (R - 1) if R * (p - 1) + (R - 1) < p * R else 0,
          p * (R - 1), p * p - 1, p * p}
    for x in raws:
        for y in raws:
            ts.add(x * y)
    for _ in range(n_rand):
        ts.add(rng.randrange(p * R))
        ts.add(rng.randrange(p) * rng.randrange(p))
    return sorted(t for t in ts if 0 <= t < p * R)


def gen_field(F, rng, tier, exhaustive=False, budget=1.0, bn_digits=16):
    """All case lines for one field.  exhaustive: the field is tiny (one 8-bit digit):
    enumerate residues / pairs instead of corner sets."""
    quick = tier == "quick"
    p = F.p
    L = [F.line("select", 0)]
    tail = []      # cases that meet a recorded finding go last (see gen_tiny / gen_params)
    toks = F.tokens(rng)
    small = toks[:12] + toks[-6:]
    allres = [hx(v) for v in range(p)] if exhaustive else None

    def nr(n):
        return max(1, int(n * budget))

    # ---------------------------------------------------------------- binary ops
    k = 0
    for group in (ADD, SUB, MUL):
        for gi, op in enumerate(group):
            if exhaustive:
                if quick:
                    # base op: a dense sample of all pairs; variants: thinner
                    n = nr(2500 if gi == 0 else 700)
                    pairs = [(hx(rng.randrange(p)), hx(rng.randrange(p))) for _ in range(n)]
                    pairs += [(a, b) for a in small[:8] for b in small[:8]]
                else:
                    # thorough: ALL pairs for the base operation on two of the primes and for the two
                    # distinct multiplication code paths on the largest; dense samples elsewhere
                    full = (gi == 0 and p in (251, 193)) or (op in ("fp_mul_basic", "fp_mul_comba") and p == 251)
                    pairs = [(a, b) for a in allres for b in allres] if full else \
                        [(hx(rng.randrange(p)), hx(rng.randrange(p))) for _ in range(20000 if gi == 0 else 6000)]
            else:
                cs = toks if gi == 0 else small
                pairs = [(a, b) for a in cs for b in cs]
                if quick and len(pairs) > nr(500):
                    keep = [(a, b) for a in small[:7] for b in small[:7]]
                    pairs = keep + rng.sample(pairs, nr(500) - len(keep))
                pairs += [(F.rnd(rng), F.rnd(rng)) for _ in range(nr(60 if quick else 400))]
            for (a, b) in pairs:
                al = k % 5
                k += 1
                L.append(F.line(op, al, a, b))
    # ---------------------------------------------------------------- unary ops
    for group in (NEG, DBL, HLV, SQR, INV):
        for op in group:
            ins = list(allres) if exhaustive else toks + [F.rnd(rng) for _ in range(nr(25 if quick else 200))]
            for a in ins:
                L.append(F.line(op, k % 2, a))
                k += 1
    # simultaneous inversion
    pool = (allres if exhaustive else toks)
    nz = [t for t in pool if t not in ("0", "r:0")]
    for i in range(nr(12 if quick else 60)):
        n = 1 + i % 8
        xs = [rng.choice(nz) for _ in range(n)]
        if i % 6 == 5:
            xs[rng.randrange(n)] = "0"
        L.append(F.line("fp_inv_sim", i % 2, n, *xs))
    # ---------------------------------------------------------------- exponentiation
    if exhaustive:
        es = list(range(-300, 601)) if not quick else \
            sorted(set([0, 1, 2, -1, -2, p - 1, p - 2, p, p + 1, -(p - 1), -p, 255, 256, 257, 511, 512, 513, 600, -300, -511, -512, -600]
                       + [rng.randrange(-300, 601) for _ in range(nr(30))]))
        bases = [hx(v) for v in ([0, 1, 2, p - 1, p - 2] + [rng.randrange(p) for _ in range(3 if quick else 4)])]
    else:
        es = exponents(F, rng)
        bases = ["0", "1", "2", hx(p - 1)] + [F.rnd(rng) for _ in range(2 if quick else 6)] + [rng.choice(toks[-6:])]
    for op in EXP:
        for a in bases:
            for x in es:
                wide = abs(x).bit_length() > F.fbits + 1 and op in ("fp_exp", "fp_exp_slide")
                (tail if wide else L).append(F.line(op, k % 2, a, hx(x)))
                k += 1
    # ---------------------------------------------------------------- roots and symbols
    ins = list(allres) if exhaustive else toks + [F.rnd(rng) for _ in range(nr(40 if quick else 300))] + \
        [hx(pow(rng.randrange(p), 2, p)) for _ in range(nr(10))] + [hx(pow(rng.randrange(p), 3, p)) for _ in range(nr(10))]
    for a in ins:
        L.append(F.line("fp_srt", k % 2, a))
        (tail if (p % 9 == 1 and (k + 1) % 2 == 1) else L).append(F.line("fp_crt", (k + 1) % 2, a))
        L.append(F.line("fp_is_sqr", 0, a))
        L.append(F.line("fp_is_cub", 0, a))
        k += 1
    for op in SMB:
        # fp_smb_binar reads digit FP_DIGS-2 (needs >= 2 digits); fp_smb_binar / fp_smb_divst keep signed
        # counters in dig_t and are unreliable with 8-bit digits (probe: ~0.1% of residues wrong at
        # WSIZE=8, none at WSIZE=32/64 on the same primes) - the 8-bit worlds are a vehicle, not a
        # configuration the property quantifies over, so these two variants are driven at 64 bits only
        if F.wbits == 8 and op in ("fp_smb_binar", "fp_smb_divst"):
            continue
        sm = ins if (exhaustive or op in ("fp_smb", "fp_smb_jmpds", "fp_smb_binar", "fp_smb_divst")) else ins[:len(toks) + 10]
        if not exhaustive:
            # values next to p, p/2, p/4, p/8 (top digits all ones / long carry chains in the divstep variants)
            kmax = 12 if quick else 300
            near = [(p >> sh) + d for sh in range(4) for d in range(-kmax, kmax + 1)]
            sm = sm + [hx(v) for v in near if 0 < v < p]
        for a in sm:
            # fp_smb_binar meets a recorded finding (wrong sign for inputs next to p on 2^255-19, secp256k1): last
            (tail if op == "fp_smb_binar" else L).append(F.line(op, 0, a))
    # ---------------------------------------------------------------- small-constant forms
    m = (1 << F.wbits) - 1
    digs = [0, 1, 2, 3, 5, 1 << (F.wbits - 1), m - 1, m, rng.getrandbits(F.wbits), rng.getrandbits(F.wbits // 2)]
    if exhaustive and not quick:
        digs = list(range(0, m + 1))
    das = (small if not exhaustive else [hx(v) for v in ([0, 1, 2, p - 1, (p - 1) // 2] + [rng.randrange(p) for _ in range(6 if quick else 3)])])
    for op in DIGOPS + ["fp_cmp_dig"]:
        for a in das:
            for d in digs:
                L.append(F.line(op, k % 2, a, hx(d)))
                k += 1
    for d in digs:
        L.append(F.line("fp_set_dig", 0, hx(d)))
        L.append(F.line("fp_prime_conv_dig", 0, hx(d)))
        # the element equal to this digit compares equal
        L.append(F.line("fp_cmp_dig", 0, hx(d % p), hx(d)))
    # ---------------------------------------------------------------- conversions
    R = F.R
    ns = [0, 1, -1, 2, p - 1, p, p + 1, -p, -(p - 1), -(p + 1), 2 * p + 1, R - 1, R, R + 1, -R, p * p - 1, p * p, -(p * p) - 7,
          R * R - 1, -(R * R - 1)] + [rng.getrandbits(F.wbits * j) * rng.choice((1, -1)) for j in (1, F.fd, F.fd + 1, 2 * F.fd) for _ in range(2 if quick else 8)]
    ns = [n for n in ns if abs(n).bit_length() <= F.wbits * bn_digits]
    for n in ns:
        L.append(F.line("fp_prime_conv", 0, hx(n)))
    conv_in = list(allres) if exhaustive else toks + [F.rnd(rng) for _ in range(nr(20))]
    for a in conv_in:
        L.append(F.line("fp_prime_back", 0, a))
        L.append(F.line("fp_is_zero", 0, a))
        L.append(F.line("fp_is_even", 0, a))
    # binary encoding
    fb = F.fb
    for v in [0, 1, p - 1, p, p + 1, (1 << (8 * fb)) - 1] + [rng.randrange(p) for _ in range(4)] + [rng.getrandbits(8 * fb) for _ in range(3)]:
        L.append(F.line("fp_read_bin", 0, "%0*x" % (2 * fb, v)))
    L.append(F.line("fp_read_bin", 0, "%0*x" % (2 * (fb + 1), 1)))
    if fb > 1:
        L.append(F.line("fp_read_bin", 0, "%0*x" % (2 * (fb - 1), 1)))
    L.append(F.line("fp_read_bin", 0, "."))
    for a in small[:8]:
        L.append(F.line("fp_write_bin", 0, a, fb))
    L.append(F.line("fp_write_bin", 0, "1", fb + 1))
    L.append(F.line("fp_write_bin", 0, "1", fb - 1))
    # ---------------------------------------------------------------- comparison
    cs = small if not exhaustive else [hx(v) for v in [0, 1, p - 1] + [rng.randrange(p) for _ in range(12)]]
    for a in cs:
        for b in cs:
            L.append(F.line("fp_cmp", 0, a, b))
        L.append(F.line("fp_cmp", 3, a, a))
    # ---------------------------------------------------------------- reductions
    ts = rdc_inputs(F, rng, nr(60 if quick else 600))
    for op in RDC_MONTY:
        # thorough: EVERY double-length value below p*R for the two Montgomery reductions on p = 251
        tt = range(0, p * R) if (exhaustive and not quick and p == 251 and op.startswith("fp_rdc_monty_")) else ts
        for t in tt:
            L.append(F.line(op, 0, hx(t)))
    # plain reductions: any double-length value
    tp = ts + [R * R - 1, R * R - p, p * R, p * R + 1] + [rng.getrandbits(2 * F.wbits * F.fd) for _ in range(nr(30 if quick else 300))]
    for t in tp:
        L.append(F.line("fp_rdc_basic", 0, hx(t)))
    if F.sparse:
        for t in tp:
            L.append(F.line("fp_rdc_quick", 0, hx(t)))
    for _ in range(5):
        L.append(F.line("fp_rand", 0))
    L.append(F.line("fp_zero", 0))
    L.append(F.line("fp_copy", 0, toks[5]))
    return L, tail


# the tiny worlds: one and two 8-bit digits.  Residue classes mod 8 / 16, 2-adicity and
# 3-adicity chosen so that every branch of the square/cube root algorithms is taken.
TINY8 = [251, 239, 229, 241, 193]            # 3 mod 8, 7 mod 8, 5 mod 8, 1 mod 16, 2-adicity 6


def tiny16_primes():
    cands = [0x7FED, 0x8003, 0xFFF1, 0x3001, 0xA001, 0x0101, 0xFFEF, 0xFFFD]
    # 2 * 3^9 + 1 = 39367: high 3-adicity; p = 4 mod 9 / 7 mod 9 / 1 mod 9 representatives
    cands += [39367, 0xFFD9, 0xC001]
    return [c for c in cands if is_prime(c) and 256 <= c < 65536]


def gen_tiny(wbits, fd, fbits, primes, rng, tier, exhaustive, budget=1.0, bn_digits=4):
    L, T = [], []
    for p in primes:
        F = Field("D" + hx(p), p, wbits, fd, fbits)
        a, b = gen_field(F, rng, tier, exhaustive=exhaustive, budget=budget, bn_digits=bn_digits)
        L += a
        T += b
    return L + T


def gen_params(listing, wbits, fd, fbits, rng, tier, budget=1.0, bn_digits=16):
    """listing: [(id, prime, sparse)] as printed by `drv_fp --list`"""
    L, T = [], []
    for (pid, p, sparse) in listing:
        F = Field("P%d" % pid, p, wbits, fd, fbits, sparse=bool(sparse))
        a, b = gen_field(F, rng, tier, budget=budget, bn_digits=bn_digits)
        L += a
        T += b
    return L + T
