"""Input generation for the third part of C07: binary codecs of extension-field and target-group elements
(harness/drv_codec3.c).  Python only builds INPUTS (coefficient vectors, byte strings, buffer lengths);
every verdict is TLC's (tla/trace/Codec3Trace)."""

LEVELS = [3, 4, 6, 8, 9, 12, 16, 18, 24, 48, 54]
PACKARG = {8, 12, 16, 18, 24, 48, 54}          # levels whose size/write take a pack flag
PACKED = {12, 18, 24, 48, 54}                  # levels whose reader knows a packed length
CONV = {8, 12, 16, 18, 24, 48, 54}             # levels with fpN_conv_cyc (input preparation)


def hx(v):
    return "%x" % v


def tok(cs):
    return ",".join(hx(c) for c in cs)


def be(v, n):
    return v.to_bytes(n, "big").hex()


def kind(n):
    return "q3" if n in (12, 18, 48) else ("c2" if n in (24, 54) else "none")


def zpow(k, b):
    return 2 * (b % 3) + b // 3 if k == "q3" else b // 2 + 3 * (b % 2)


def kept_blocks(n):
    k = kind(n)
    return [b for b in range(6) if zpow(k, b) not in (0, 3)]


def block_of_pow(n, pw):
    k = kind(n)
    return [b for b in range(6) if zpow(k, b) == pw][0]


class G:
    def __init__(self, sel, p, fb, rng):
        self.sel, self.p, self.fb, self.rng = sel, p, fb, rng
        self.L = []

    def line(self, *a):
        self.L.append(" ".join([self.sel] + [str(x) for x in a]))

    def rnd(self, n):
        return [self.rng.randrange(self.p) for _ in range(n)]

    def values(self, n, nrand, quick=False):
        p = self.p
        vs = [[0] * n, [1] + [0] * (n - 1), [p - 1] * n, [p - 1] + [0] * (n - 1)]
        pos = range(n) if (n <= 12 and not quick) or n <= 3 else sorted({self.rng.randrange(n), n - 1} if quick else {0, n - 1, self.rng.randrange(n), self.rng.randrange(n)})
        for i in pos:
            v = [0] * n
            v[i] = self.rng.choice([1, p - 1, self.rng.randrange(1, p)])
            vs.append(v)
        vs += [self.rnd(n) for _ in range(nrand)]
        return vs

    def enc(self, cs):
        return "".join(be(c, self.fb) for c in cs)


def lens_around(z, other=()):
    s = {0, 1, z - 1, z, z + 1, 2 * z}
    for o in other:
        s |= {o - 1, o, o + 1}
    return sorted(x for x in s if x >= 0)


def gen_plain(g, n, tier, scale=1.0):
    """full form: sizes, writers (every buffer length class), readers (valid, every length class, coefficients >= p)"""
    quick = tier == "quick"
    fb, p = g.fb, g.p
    z = n * fb
    zp = (2 * n // 3) * fb
    nr = max(1, int((2 if quick else 10) * scale))
    vals = g.values(n, nr, quick and g.fb > 1)
    for v in vals:
        g.line("size", n, 0, tok(v))
    for j, v in enumerate(vals):
        ls = lens_around(z, (zp,)) if j % 4 == 0 and not (quick and g.fb > 1 and j > 0) else ([z] if quick and g.fb > 1 else [z - 1, z, z + 1])
        for ln in ls:
            g.line("write", n, 0, ln, tok(v))
    if n in PACKARG and n != 54:
        # pack = 1 on elements outside the cyclotomic subgroup (random) and on 0, 1
        # (not at degree 54: fp54_test_cyc goes through fp54_frb, whose constant tables do not exist for these primes -
        #  known finding C10-fp54-frb, an out-of-table read under UBSan; the packed forms of fp54 are not driven)
        for j, v in enumerate(vals[:2] + vals[-nr:]):
            g.line("size", n, 1, tok(v))
            for ln in (lens_around(z, (zp, n // 2 * fb)) if j < 3 else [zp, z]):
                g.line("write", n, 1, ln, tok(v))
    # readers
    for v in vals:
        g.line("read", n, g.enc(v))
    v = vals[-1]
    s = g.enc(v)
    if n == 12 and fb > 1:
        lens = range(0, z + 3) if not quick else list(range(0, 3)) + [fb - 1, fb, fb + 1, 2 * fb, 6 * fb] + list(range(zp - 2, zp + 3)) + list(range(z - 2, z + 3)) + list(range(3 * fb, z, 23 * fb + 5))
    else:
        lens = sorted({0, 1, fb, fb + 1, z // 2, zp - 1, zp + 1, z - fb, z - 1, z + 1, z + fb, 2 * z} |
                      (set(range(0, z + 3)) if fb == 1 else set()))
    for ln in lens:
        if ln != z and not (n in PACKED and ln == zp):
            t = (s + s)[:2 * ln]
            g.line("read", n, t if t else "-")
    # one coefficient at or above the modulus
    top = (1 << (8 * fb)) - 1
    pos = range(n) if (n <= 12 and not quick) or fb == 1 or n <= 3 else sorted({0, g.rng.randrange(n), n - 1})
    for i in pos:
        for bad in ([p, top] if quick else [p, p + 1, top]):
            if bad > top:
                continue
            w = list(v)
            w[i] = bad
            g.line("read", n, g.enc(w))
    # all coefficients maximal / first byte replaced
    g.line("read", n, "ff" * z)
    g.line("read", n, "ff" + s[2:])
    g.line("read", n, s[:-2] + "ff")


def cyc_probe_cases(g, n, count, gt=False):
    """first pass: elements of the cyclotomic subgroup prepared by the library, written in full form
    (the bytes are INPUT material for the second pass; the specification judges every call again)"""
    L = []
    for j in range(count):
        if gt and j % 2 == 0:
            k = [0, 1, 2][j // 2] if j // 2 < 3 else g.rng.randrange(1 << (8 * g.fb))
            L.append("%s write 12 0 %d G:%x" % (g.sel, 12 * g.fb, k))
        else:
            L.append("%s write %d 0 %d c:%s" % (g.sel, n, n * g.fb, tok(g.rnd(n))))
    return L


def coefs_of(out, fb):
    return [int.from_bytes(bytes(out[i:i + fb]), "big") for i in range(0, len(out), fb)]


def gen_packed(g, n, cyc, tier, scale=1.0, gt=False):
    """cyc = flat coefficient vectors of cyclotomic elements (from the first pass).  Packed writers / sizes,
    packed readers: valid strings, damaged ones, strings that denote no element"""
    quick = tier == "quick"
    fb, p = g.fb, g.p
    m = n // 6
    z, zp = n * fb, (2 * n // 3) * fb
    kb = kept_blocks(n)
    pre = "gt" if gt else ""

    def packed(v):
        return [c for b in kb for c in v[b * m:(b + 1) * m]]
    rtok = lambda v: "r:0" if v == 0 else hx(v)
    one = [1] + [0] * (n - 1)
    els = [one] + cyc
    for j, v in enumerate(els):
        t = tok(v)
        for pk in (0, 1):
            g.line(pre + "size", n, pk, t)
        ls = lens_around(zp, (z,)) if j < 3 else [zp - 1, zp, zp + 1, z]
        for ln in ls:
            g.line(pre + "write", n, 1, ln, t)
        for ln in ([z - 1, z, z + 1, zp] if j < 3 else [z]):
            g.line(pre + "write", n, 0, ln, t)
    for j, v in enumerate(els):
        kc = packed(v)
        s = g.enc(kc)
        g.line(pre + "read", n, s)
        g.line(pre + "read", n, g.enc(v))
        if j == 0:
            continue
        nmut = len(kc) if (n == 12 and j == 1) else (3 if quick else 8)
        for i in (range(len(kc)) if nmut == len(kc) else sorted(g.rng.sample(range(len(kc)), nmut))):
            w = list(kc)
            w[i] = (w[i] + 1) % p                       # almost surely no longer in the subgroup
            g.line(pre + "read", n, g.enc(w))
            if j <= 2:
                w = list(kc)
                w[i] = p                                 # coefficient = modulus
                g.line(pre + "read", n, g.enc(w))
        # g2 = 0 / g2 = g3 = 0 / a single block kept / blocks swapped
        kpos = {zpow(kind(n), b): kb.index(b) for b in kb}
        for zero in ((1,), (1, 4), (4,), (2, 5), (1, 2, 4), (1, 4, 5)):
            w = list(kc)
            for pw in zero:
                w[kpos[pw] * m:(kpos[pw] + 1) * m] = [0] * m
            g.line(pre + "read", n, g.enc(w))
        w = kc[m:] + kc[:m]
        g.line(pre + "read", n, g.enc(w))
        if j <= 2:
            g.line(pre + "read", n, s[:-2])
            g.line(pre + "read", n, s + "00")
            g.line(pre + "read", n, "00" + s[:-2])
            g.line(pre + "read", n, "ff" + s[2:])
    # strings of the packed length with arbitrary reduced coefficients; the subgroup has about p^(n/3) of the
    # p^(2n/3) such strings, so these denote no element (tiny worlds: a few do)
    for _ in range(max(2, int((6 if quick else 40) * scale))):
        g.line(pre + "read", n, g.enc(g.rnd(2 * n // 3)))
    g.line(pre + "read", n, "00" * zp)
    g.line(pre + "read", n, "00" * (zp - 1) + "01")
    g.line(pre + "read", n, "ff" * zp)
    if n == 12 and not gt:
        # fp12_pck / fp12_upk on elements
        z2 = [0] * 2
        for j, v in enumerate(els + [g.rnd(12) for _ in range(3)] + [[0] * 12]):
            g.line("pck", 12, tok(v))
            g.line("upk", 12, tok(v))
            w = list(v)
            for pw in (0, 3):
                b = block_of_pow(12, pw)
                w[b * m:(b + 1) * m] = z2
            g.line("upk", 12, tok(w))
            g.line("pck", 12, tok(w))
            if j < 4:
                for i in g.rng.sample(range(12), 4):
                    u = list(w)
                    u[i] = (u[i] + 1) % p
                    g.line("upk", 12, tok(u))
