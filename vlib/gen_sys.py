"""Call histories across the integer / field / curve layers under changing parameter selections
(model/RelicSys, harness/relic_vm2.c).  Input generation only: which calls, which slots, which constants."""
from vlib import gen_ep

NS = 4
BN1 = ["bn_sqr", "bn_neg", "bn_abs", "bn_copy", "bn_dbl"]
BN2 = ["bn_add", "bn_sub", "bn_mul", "bn_div"]
FP1 = ["fp_neg", "fp_dbl", "fp_hlv", "fp_sqr", "fp_inv", "fp_copy", "ep_rhs"]
FP2 = ["fp_add", "fp_sub", "fp_mul"]
EP1 = ["ep_neg", "ep_dbl", "ep_norm", "ep_copy"]
EP2 = ["ep_add", "ep_sub"]
QRY = ["ep_eq", "ep_is_infty", "ep_on_curve", "fp_eq", "fp_is_zero"]


def hx(v):
    return ("-" if v < 0 else "") + "%x" % abs(v)


class ParSet:
    """a selectable parameter set: the selection line of the VM and the numbers the generator picks constants from"""

    def __init__(self, line, p, n):
        self.line, self.p, self.n = line, p, n


def probe_lines(ids):
    return ["param %d 0 0 0 0 0 0" % i for i in ids]


def parset_from_probe(e):
    v = lambda k: gen_ep.val(e[k]["d"])
    p = gen_ep.val(e["p"])
    n = v("n")
    return ParSet("param %d %s %s %s %s %s %s" % (e["id"], hx(p), hx(v("va")), hx(v("vb")), hx(v("vgx")), hx(v("vgy")),
                                                   hx(n)), p, n)


def tiny_parsets():
    out = []
    for w in gen_ep.tiny_worlds():
        if w.h != 1:
            continue
        f = w.spec.split(":")[1:8]            # p a b gx gy n h
        out.append(ParSet("plain " + " ".join(f), w.p, w.n))
    return out


def scalars(ps, rng, bits):
    n, p = ps.n, ps.p
    c = [0, 1, -1, 2, 3, -2, n - 1, n, n + 1, 2 * n, -n, n // 2, (n + 1) // 2, p - 1, p, p + 1, (p - 1) // 2,
         (1 << bits) - 1, 1 << (bits - 1), (1 << (bits + 40)) + 7, -((1 << (bits + 9)) - 3),
         int("55" * (bits // 8 or 1), 16), rng.getrandbits(bits), rng.getrandbits(bits // 2 or 1), -rng.getrandbits(bits),
         rng.randrange(1, n), rng.randrange(1, n), rng.randrange(1, p)]
    return c


def histories(parsets, rng, nseg, bits, prec_bits, max_mul=6, seg_len=(14, 40)):
    """nseg segments; each: reset, a selection, calls, now and then ANOTHER selection (the integer objects survive it,
    field elements and points are re-created), calls ..."""
    lines = []
    for _ in range(nseg):
        lines.append("reset")
        ps = rng.choice(parsets)
        lines.append(ps.line)
        bl = {s: 0 for s in range(1, NS + 1)}            # upper bound on the bit length of each integer slot
        muls = 0
        steps = rng.randint(*seg_len)
        fresh = 6                                        # calls that (re)create field elements / points first
        for _ in range(steps):
            r = rng.random()
            sl = lambda: rng.randint(1, NS)
            if fresh > 0:
                fresh -= 1
                k = fresh % 3
                if k == 0:
                    v = rng.choice([0, 1, ps.p - 1, (ps.p + 1) // 2, ps.p + 5, rng.randrange(ps.p), rng.randrange(ps.p)])
                    lines.append("fset %d %s" % (sl(), hx(v)))
                elif k == 1:
                    o = sl()
                    v = rng.choice(scalars(ps, rng, bits))
                    lines.append("bset %d %s" % (o, hx(v)))
                    bl[o] = abs(v).bit_length()
                else:
                    lines.append(rng.choice(["ep_gen %d 0 0 0 0" % sl(), "ep_mul_gen %d 0 0 %d 0" % (sl(), sl())]))
                continue
            if r < 0.05:
                ps = rng.choice(parsets)                 # re-selection in the middle of the history
                lines.append(ps.line)
                fresh = 5
                continue
            if r < 0.09:
                lines.append("getcode")
                continue
            if r < 0.17:
                o = sl()
                v = rng.choice(scalars(ps, rng, bits))
                lines.append("bset %d %s" % (o, hx(v)))
                bl[o] = abs(v).bit_length()
                continue
            if r < 0.22:
                v = rng.choice([0, 1, 2, ps.p - 1, (ps.p - 1) // 2, rng.randrange(ps.p)])
                lines.append("fset %d %s" % (sl(), hx(v)))
                continue
            if r < 0.34:                                 # integer layer (bounded so that no precision error occurs,
                op = rng.choice(BN1 + BN2 + ["bn_lsh", "bn_rsh"])      # except now and then on purpose)
                o, a, b = sl(), sl(), sl()
                k = rng.choice([0, 1, 7, 8, 9, 63, 64, 65])
                nb = {"bn_sqr": 2 * bl[a], "bn_mul": bl[a] + bl[b], "bn_add": max(bl[a], bl[b]) + 1,
                      "bn_sub": max(bl[a], bl[b]) + 1, "bn_dbl": bl[a] + 1, "bn_lsh": bl[a] + k}.get(op, bl[a])
                if nb > prec_bits and rng.random() < 0.9:
                    continue
                lines.append("%s %d %d %d %d 0" % (op, o, a, b, k))
                bl[o] = min(nb, 2 * prec_bits)
                continue
            if r < 0.50:
                op = rng.choice(FP1 + FP2 + FP2)
                lines.append("%s %d %d %d 0 0" % (op, sl(), sl(), sl()))
                continue
            if r < 0.60:                                 # between the layers
                op = rng.choice(["fp_conv", "fp_back", "ep_getx", "fp_exp", "fp_conv", "fp_back"])
                o, a, b = sl(), sl(), sl()
                lines.append("%s %d %d %d 0 0" % (op, o, a, b))
                if op == "fp_back":
                    bl[o] = ps.p.bit_length()
                continue
            if r < 0.78:
                op = rng.choice(EP1 + EP2 + EP2 + ["ep_gen", "ep_inf"])
                lines.append("%s %d %d %d 0 0" % (op, sl(), sl(), sl()))
                continue
            if r < 0.90:
                if muls >= max_mul:
                    continue
                muls += 1
                op = rng.choice(["ep_mul", "ep_mul", "ep_mul_gen", "ep_mul_sim"])
                if op == "ep_mul_sim":
                    muls += 1
                lines.append("%s %d %d %d %d %d" % (op, sl(), sl(), sl(), sl(), sl()))
                continue
            op = rng.choice(QRY)
            lines.append("%s 0 %d %d 0 0" % (op, sl(), sl()))
    return lines
