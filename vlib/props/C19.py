"""C19 - error handling and library context as a state machine (DESIGN.md section 4, C19)."""
import json
import random

from vlib import core


def tok_text(tok):
    if tok[0] == "open":
        return ("o" if tok[1] == "any" else "v") + ("f" if tok[2] else "a")
    if tok[0] == "throw":
        return "t1" if tok[1] == "E1" else "tc"
    return {"end": "e", "getcode": "gc", "getmsg": "gm"}[tok[0]]


def random_programs(rng, n, maxlen):
    alphabet = ["oa", "of", "va", "vf", "t1", "tc", "gc", "gm", "e"]
    weights = [3, 4, 3, 4, 5, 3, 2, 2, 7]
    out = []
    for _ in range(n):
        L = rng.randint(3, maxlen)
        out.append(" ".join(rng.choices(alphabet, weights)[0] for _ in range(L)))
    return out


def nontrivial(e):
    # non-trivial: the program throws inside a protected block at nesting depth >= 2
    d = 0
    deep = False
    for t in e.get("toks", []):
        if t[0] == "open":
            d += 1
        if t[0] == "throw" and d >= 2:
            deep = True
    return deep


def run(tier, seed):
    ev = core.Evidence("C19", tier, seed)
    wd = core.workdir("C19", tier)
    rng = random.Random(seed)
    quick = tier == "quick"
    ev.cov["trusted_base"] = core.TRUSTED
    ev.cov["rule"] = ("programs = every complete try/throw/catch/finally program of model/Err within the token budget "
                      "(TLC-generated, replayed with the real macros) + seeded random token streams; non-trivial = "
                      "throws inside a protected block at nesting depth >= 2; distinct by effective token list")
    runs = [("Err", "Err", "Budget=5 MaxDepth=3, repaired macro text, all programs", False),
            ("Err", "Err_b7", "Budget=7 MaxDepth=4 (VIEW without history)", False)]
    if not quick:
        runs.append(("Err", "Err_b9", "Budget=9 MaxDepth=4 (VIEW without history)", False))
    core.run_models(ev, runs)
    # spec -> code: every complete program of the model within the budget
    gcfg = "gen/ErrGen_b7.cfg" if quick else "gen/ErrGen_b8.cfg"
    g = core.tlc("gen/ErrGen.tla", gcfg, workers=core.NCPU, timeout=2400, heap="16g")
    if not g.ok:
        raise core.InfraError("ErrGen failed:\n" + g.out[-2000:])
    progs = sorted(set(json.loads(json.loads(x)) and x for x in g.prints))
    cases = [" ".join(tok_text(t) for t in json.loads(json.loads(x))) for x in progs]
    ev.cov["generated_programs"] = len(cases)
    ev.add_mc("ErrGen", g, "complete programs printed by the generator run")
    conf = core.Conformance("C19", ev, wd)
    conf.run("replay", "std256", "err_vm", ["err_vm.c"], cases, "trace/ErrTrace.tla",
             nontrivial=nontrivial, min_per_shard=100)
    # code -> spec: seeded random token streams, longer and deeper than the model bounds
    rnd = random_programs(rng, 4000 if quick else 60000, 40)
    conf.run("random", "std256", "err_vm", ["err_vm.c"], rnd, "trace/ErrTrace.tla", nontrivial=nontrivial,
             min_per_shard=100)
    ev.cov["exhaustive"] = True
    ev.cov["exhaustive_note"] = "all complete programs of the model within the generator's token budget were replayed"
    return conf.finish()


def replay(path, seed):
    return core.replay_generic(path)
