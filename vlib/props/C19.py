"""C19 - error handling and library context as a state machine (DESIGN.md section 4, C19)."""
import itertools
import json
import os
import random

from vlib import core, gen_sys


def tok_text(tok):
    if tok[0] == "open":
        return ("o" if tok[1] == "any" else "v") + ("f" if tok[2] else "a")
    if tok[0] == "throw":
        return "t1" if tok[1] == "E1" else "tc"
    return {"end": "e", "getcode": "gc", "getmsg": "gm"}[tok[0]]


def random_programs(rng, n, maxlen):
    alphabet = ["oa", "of", "va", "vf", "t1", "tc", "gc", "gm", "e"]
    weights = [3, 4, 3, 4, 5, 3, 2, 2, 7]
    out = []
    for _ in range(n):
        L = rng.randint(3, maxlen)
        out.append(" ".join(rng.choices(alphabet, weights)[0] for _ in range(L)))
    return out


def nontrivial(e):
    # non-trivial: the program throws inside a protected block at nesting depth >= 2
    d = 0
    deep = False
    for t in e.get("toks", []):
        if t[0] == "open":
            d += 1
        if t[0] == "throw" and d >= 2:
            deep = True
    return deep


def run(tier, seed):
    ev = core.Evidence("C19", tier, seed)
    wd = core.workdir("C19", tier)
    rng = random.Random(seed)
    quick = tier == "quick"
    ev.cov["trusted_base"] = core.TRUSTED
    ev.cov["rule"] = ("programs = every complete try/throw/catch/finally program of model/Err within the token budget "
                      "(TLC-generated, replayed with the real macros) + seeded random token streams; non-trivial = "
                      "throws inside a protected block at nesting depth >= 2; distinct by effective token list")
    runs = [("Err", "Err", "Budget=5 MaxDepth=3, repaired macro text, all programs", False),
            ("Err", "Err_b7", "Budget=7 MaxDepth=4 (VIEW without history)", False)]
    if not quick:
        runs.append(("Err", "Err_b9", "Budget=9 MaxDepth=4 (VIEW without history)", False))
    core.run_models(ev, runs)
    # spec -> code: every complete program of the model within the budget
    gcfg = "gen/ErrGen_b7.cfg"
    g = core.tlc("gen/ErrGen.tla", gcfg, workers=core.NCPU, timeout=2400, heap="16g")
    if not g.ok:
        raise core.InfraError("ErrGen failed:\n" + g.out[-2000:])
    prints = list(g.prints)
    if not quick:
        # deeper programs than the exhaustive budget: TLC random simulation of the same machine
        sm = core.tlc("gen/ErrGen.tla", "gen/ErrGen_b12.cfg", workers=8, timeout=1500, simulate=40000, depth=80,
                      seed=seed)
        prints += sm.prints
        ev.cov["simulated_programs"] = len(set(sm.prints))
    progs = sorted(set(json.loads(json.loads(x)) and x for x in prints))
    cases = [" ".join(tok_text(t) for t in json.loads(json.loads(x))) for x in progs]
    ev.cov["generated_programs"] = len(cases)
    ev.add_mc("ErrGen", g, "complete programs printed by the generator run")
    conf = core.Conformance("C19", ev, wd)
    conf.run("replay", "std256", "err_vm", ["err_vm.c"], cases, "trace/ErrTrace.tla",
             nontrivial=nontrivial, min_per_shard=100, stateless=False)
    # code -> spec: seeded random token streams, longer and deeper than the model bounds
    rnd = random_programs(rng, 4000 if quick else 60000, 40)
    conf.run("random", "std256", "err_vm", ["err_vm.c"], rnd, "trace/ErrTrace.tla", nontrivial=nontrivial,
             min_per_shard=100, stateless=False)
    context_half(conf, ev, wd, rng, quick)
    system_histories(conf, ev, wd, rng, quick)
    ev.cov["exhaustive"] = True
    ev.cov["exhaustive_note"] = "all complete programs of the model within the generator's token budget were replayed"
    return conf.finish()


EXPECTED_IDS = {"std256": [12, 13, 14, 15, 23, 24], "multi": [12, 13, 14, 15, 23, 24]}


def fresh_table(cfg, wd, label):
    """probe of a freshly initialised library, ONE PROCESS per parameter id"""
    exe = core.cc_harness(cfg, "ctx", ["drv_ctx.c"])
    d = os.path.join(wd, "fresh-" + label)
    os.makedirs(d, exist_ok=True)
    open(os.path.join(d, "ids.txt"), "w").write("ids\n")
    ids = core.run_driver(exe, os.path.join(d, "ids.txt"), os.path.join(d, "ids.ndjson"))[0]["ids"]
    # the sets of the pinned build are part of the histories whether or not the scan still finds them
    ids = sorted(set(ids) | set(EXPECTED_IDS.get(cfg, [])))
    table = []
    for i in ids:
        cp = os.path.join(d, "f%d.txt" % i)
        open(cp, "w").write("fresh %d\n" % i)
        table += core.run_driver(exe, cp, os.path.join(d, "f%d.ndjson" % i), timeout=300)
    tp = os.path.join(d, "fresh.ndjson")
    core.write_ndjson(tp, table)
    for t in table:
        if not t["items"] or any(it["k"] == "THROWN" for it in t["items"]):
            raise core.InfraError("fresh probe of parameter %s is incomplete" % t["id"])
    return ids, tp


def context_half(conf, ev, wd, rng, quick):
    """re-parameterisation histories, context switches, threads (code -> spec)"""
    core.run_models(ev, [("MCCtx", "MCCtx", "4 parameter ids (plain, endom, 2 pairing), 3 contexts, 2 threads, 5 steps; selection, "
                                            "core_set, throw / fetch, core_clean, core_init on the same memory", False)])
    # control: a core_init that leaves the sticky code of the first life must be refuted (SecondLifeIsFresh is not vacuous)
    c = core.tlc("model/MCCtx.tla", "model/MCCtx_ctl.cfg", workers=4, timeout=600)
    if c.invariant_violated != "SecondLifeIsFresh":
        raise core.InfraError("control model MCCtx_ctl: expected a counterexample to SecondLifeIsFresh, got %r" % c.invariant_violated)
    ev.cov["model_control_ctx"] = "core_init keeping the code of the first life refuted by TLC (SecondLifeIsFresh violated) as expected"
    ids, fresh = fresh_table("std256", wd, "std256")
    ev.cov["parameter_ids"] = ids
    cases = []
    # every ordered pair of selectable sets, then longer seeded sequences, then in-process re-init
    for a, b in itertools.product(ids, ids):
        cases.append("seq %d %d" % (a, b))
    for _ in range(6 if quick else 60):
        cases.append("seq " + " ".join(str(rng.choice(ids)) for _ in range(rng.randint(3, 8))))
    cases.append("seq " + " ".join(map(str, ids + ids[::-1])))
    for a in ids:
        cases.append("fresh %d" % a)
    # two contexts with different selections, switched back and forth
    pairs = list(itertools.permutations(ids, 2))
    for a, b in (rng.sample(pairs, 8) if quick else pairs):
        cases.append("two %d %d 2" % (a, b))
    # a caller-provided context in its second life (used, left with an unfetched error, cleaned, initialised again)
    for a, b in (rng.sample(pairs, 4) + [(ids[0], ids[0])] if quick else pairs + [(i, i) for i in ids]):
        cases.append("reinit %d %d" % (a, b))

    def nt(e):
        return e.get("pos", 0) > 1          # non-trivial: a probe after at least one earlier selection
    conf.run("reparam", "std256", "ctx", ["drv_ctx.c"], cases, "trace/CtxTrace.tla", shards=4,
             env={"FRESH": fresh}, nontrivial=nt, min_per_shard=40, driver_timeout=1200)
    # threads: each thread its own context and selection sequence, run concurrently
    mids, mfresh = fresh_table("multi", wd, "multi")
    tcases = []
    for _ in range(12 if quick else 400):
        tcases.append("thr " + " ".join(",".join(str(rng.choice(mids)) for _ in range(rng.randint(1, 3)))
                                        for _ in range(4)))
    conf.run("threads", "multi", "ctx", ["drv_ctx.c"], tcases, "trace/CtxTrace.tla", shards=4,
             env={"FRESH": mfresh}, nontrivial=lambda e: True, min_per_shard=40, driver_timeout=1800)


def sys_parsets(cfg, wd):
    """constants of every selectable set as a FRESH library reports them: one process per identifier"""
    exe = core.cc_harness(cfg, "relic_vm2", ["relic_vm2.c"])
    d = os.path.join(wd, "sysfresh-" + cfg)
    os.makedirs(d, exist_ok=True)
    out = []
    for i in EXPECTED_IDS[cfg]:
        cp = os.path.join(d, "p%d.txt" % i)
        open(cp, "w").write("reset\n" + gen_sys.probe_lines([i])[0] + "\n")
        evs = [e for e in core.run_driver(exe, cp, os.path.join(d, "p%d.ndjson" % i), timeout=120) if e.get("op") == "select"]
        if not evs or evs[0].get("err") != 0:
            # an expected set that a fresh library cannot select: keep it in the histories (the selection event is
            # then rejected by the trace specification), with constants that nothing can match
            out.append(gen_sys.ParSet("param %d 7 1 1 1 1 5" % i, 7, 5))
        else:
            out.append(gen_sys.parset_from_probe(evs[0]))
    return out


def system_histories(conf, ev, wd, rng, quick):
    """the library as ONE machine across integers, field and curve under changing selections (model/RelicSys)"""
    core.run_models(ev, [("MCRelicSys", "MCRelicSys", "one machine across the layers over F_11 (two curves), 2 slots per type, 3 calls "
                                                      "after the selection: cross-layer frame condition, KNOWN points on the "
                                                      "selected curve, residues reduced, sticky code", False)])
    nt = lambda e: e.get("op", "").startswith(("fp_", "ep_")) and e.get("err") == 0
    ss = lambda ln: ln == "reset"
    # shipped build: every identifier of the build, selections change in the middle of a history
    ps = sys_parsets("std256", wd)
    lines = gen_sys.histories(ps, rng, 40 if quick else 600, 256, 1024, max_mul=5)
    conf.run("sys-std256", "std256", "relic_vm2", ["relic_vm2.c"], lines, "trace/RelicSysTrace.tla",
             case_seg_start=ss, nontrivial=nt, min_per_shard=60, spec_cfg="trace/RelicSysTrace.cfg", heap="2g")
    # tiny worlds (8-bit digits, one-digit primes, directly installed curves): long histories, every scalar class
    tp = gen_sys.tiny_parsets()
    lines = gen_sys.histories(tp, rng, 150 if quick else 3000, 8, 32, max_mul=40, seg_len=(20, 60))
    conf.run("sys-w8p8", "w8p8", "relic_vm2", ["relic_vm2.c"], lines, "trace/RelicSysTrace.tla",
             case_seg_start=ss, nontrivial=nt, min_per_shard=300, spec_cfg="trace/RelicSysTrace_w8.cfg", heap="2g")
    ev.cov["system_histories"] = dict(sets_std256=[p.line.split()[1] for p in ps], tiny_sets=[p.line for p in tp])


def replay(path, seed):
    r = json.load(open(path))
    if r.get("label") in ("reparam", "threads"):
        # the fresh table is rebuilt from the current tree
        wd = core.workdir("C19", "replayfresh")
        ids, fresh = fresh_table(r["cfg"], wd, r["cfg"])
        r["env"] = {"FRESH": fresh}
        path = core.save_replay("C19", r, name="replay-tmp")
    return core.replay_generic(path)
