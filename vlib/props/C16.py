"""C16 - binary fields and binary curves compute in GF(2^m) and its curve groups
(DESIGN.md section 4, C16; the eb part of C18's parameter consistency)."""
import collections
import os
import random
import re

from vlib import core, gen_fb

SPEC = "trace/FbTrace.tla"
DRV = ["drv_fb.c"]
# curve identifiers eb_param_set accepts in the pinned build (include/relic_eb.h: NIST_B283 = 8, NIST_K283 = 9):
# one that can no longer be selected is a VIOLATION (the driver reports BADSEL, which the spec never accepts)
EXPECTED_EB = {"std256": [8, 9]}
EXPECTED_FB = {"std256": [19, 20]}          # NIST_283 (the polynomial of both curves), SQRT_283


def nontrivial(e):
    """Non-trivial: a field element other than 0 / 1 is involved, resp. a finite point and (for
    multiplications) a scalar other than 0, +-1."""
    op = e.get("op", "")
    if op in ("restart", "BADSEL"):
        return False
    if op.startswith("eb_"):
        pts = [e[k] for k in ("P", "Q") if k in e]
        if not any(any(p["z"]) for p in pts):
            return False
        ks = [e[k] for k in ("k", "m2") if isinstance(e.get(k), dict)]
        return not (ks and all(sum(k["d"]) <= 1 for k in ks))
    for k in ("a", "b", "t", "c"):
        v = e.get(k)
        if isinstance(v, list) and sum(1 for x in v if x) >= 1 and v != [1] + [0] * (len(v) - 1):
            return True
    return op in ("fb_select", "fb_inv_sim") or op.startswith("fb2_")


def MC_RUNS(quick):
    """(spec module, cfg, constants, pure?)"""
    runs = [("MCGF2m", "MCGF2m_small", "PURE lib/GF2m (no accelerator) vs a native-integer reference + field axioms: every "
                                       "operand pair of GF(8), GF(16), GF(32); irreducibility vs trial division below 300", True),
            ("MCGF2m", "MCGF2m_q", "ACCELERATED lib/GF2m (GF2m.class) against the same statements: every operand pair of "
                                   "GF(2^m), m = 3,4,5,7; irreducibility of every polynomial below 600", False),
            ("MCBinCurve", "MCBinCurve", "the definition (lib/BinCurve) is a group law: every curve y^2+xy=x^3+ax^2+b over "
                                         "GF(8), GF(16): all triples associative, the order-two point, halving, Koblitz Frobenius", False),
            ("FbLow", "FbLow", "fb_muln_low (Lopez-Dahab comb, 4-bit window), fb_mul1_low, fb_rdcn_low, fb_rdc1_low as coded, "
                               "8-bit digits: every pair of one-digit operands, every 2-digit a x 3 operands b, x^9+x+1: every "
                               "double-length value", False),
            ("FbLow", "FbLow_w4q", "fb_rdcn_low / fb_rdc1_low as coded, 4-bit digits: 3 trinomials + 4 pentanomials of degree 9, "
                                   "EVERY double-length value of degree <= 2m-2 against GModPoly", False)]
    if not quick:
        runs += [("MCGF2m", "MCGF2m_q", "PURE lib/GF2m: every operand pair of GF(2^m), m = 3,4,5,7", True),
                 ("MCGF2m", "MCGF2m", "ACCELERATED: every operand pair of GF(2^m), m = 3,4,5,7,8,9", False),
                 ("MCBinCurve", "MCBinCurve_m5", "GF(8) (second polynomial) and GF(32) (two field polynomials): every curve with a in "
                                                 "{0,1,x,x+1} (both trace classes) and every b", False),
                 ("FbLow", "FbLow_w8full", "comb multiplication, 8-bit digits: every 2-digit a x 16 operands b, 14 single digits", False),
                 ("FbLow", "FbLow_full", "fast reduction, 4-bit digits: 15 trinomials / pentanomials of degree 9..11, every "
                                         "double-length value", False)]
    return runs


def listing(cfg, extra):
    exe = core.cc_harness(cfg, "fbx" if extra else "fb", DRV, extra=extra)
    rc, out = core.sh([exe, "--list"], timeout=120)
    conf, fbs, ebs = gen_fb.parse_listing(out)
    if rc != 0 or not conf:
        raise core.InfraError("drv_fb --list failed in %s:\n%s" % (cfg, out[-1500:]))
    return conf, fbs, ebs


def _count_ops(ev, label, events):
    ev.cov.setdefault("ops", {})[label] = dict(collections.Counter(e.get("op") for e in events))


def wide_crosscheck(ev, wd, rng, quick):
    """The accelerator computes the definitions at full width: a seeded sample of 283-bit (quick: 113-bit)
    operations is evaluated twice by TLC - with GF2m.class / BigNat.class and from the pure library - and the
    printed results must coincide."""
    m = 113 if quick else 283
    f = (1 << 113) | (1 << 9) | 1 if quick else (1 << 283) | (1 << 12) | (1 << 7) | (1 << 5) | 1

    def seq(v):
        return "<<" + ",".join(str((v >> (8 * i)) & 255) for i in range((v.bit_length() + 7) // 8)) + ">>"
    ops = []
    for i in range(3 if quick else 2):
        a, b = rng.getrandbits(m), rng.getrandbits(m)
        ops.append("GMul(%s, %s, F)" % (seq(a), seq(b)))
        ops.append("GMulPoly(%s, %s)" % (seq(a), seq(b)))
        ops.append("GSqr(%s, F)" % seq(a))
        ops.append("GAdd(%s, %s)" % (seq(a), seq(b)))
        ops.append("GDivMod(%s, %s)" % (seq(rng.getrandbits(2 * m - 1)), seq(b | 1)))
    ops.append("GInv(%s, F)" % seq(rng.getrandbits(m if quick else 61)))
    d = os.path.join(wd, "wide")
    os.makedirs(d, exist_ok=True)
    body = "\n".join('ASSUME PrintT(<<"@@", %d, ToString(%s)>>)' % (i, o) for i, o in enumerate(ops))
    open(os.path.join(d, "WideGF2m.tla"), "w").write(
        "---- MODULE WideGF2m ----\nEXTENDS GF2m, TLC\nF == %s\n%s\nVARIABLE x\nInit == x = 0\nNext == x' = x\n====\n" % (seq(f), body))
    open(os.path.join(d, "WideGF2m.cfg"), "w").write("INIT Init\nNEXT Next\nCHECK_DEADLOCK FALSE\n")
    res = []
    for pure in (False, True):
        r = core.tlc(os.path.join(d, "WideGF2m.tla"), os.path.join(d, "WideGF2m.cfg"), pure=pure, workers=1, timeout=1200)
        got = dict((int(i), re.sub(r"\s+", "", v)) for i, v in re.findall(r'<<\s*"@@",\s*(\d+),\s*"([^"]*)"\s*>>', r.out))
        if not r.ok or len(got) < len(ops):
            raise core.InfraError("wide cross-check did not run (pure=%s):\n%s" % (pure, r.out[-2000:]))
        res.append([got[i] for i in range(len(ops))])
        ev.add_mc("WideGF2m-%s" % ("pure" if pure else "accelerated"), r, "%d operations at %d bits" % (len(ops), m))
    if res[0] != res[1]:
        raise core.InfraError("GF2m accelerator and pure definitions disagree on a wide sample:\n%s\n%s" % (res[0], res[1]))
    core.log("wide cross-check: %d operations at %d bits agree (accelerated vs pure)" % (len(ops), m))


def run(tier, seed):
    ev = core.Evidence("C16", tier, seed)
    wd = core.workdir("C16", tier)
    rng = random.Random(seed)
    quick = tier == "quick"
    ev.cov["trusted_base"] = core.TRUSTED + [
        "GF2m.java evaluation accelerator (GAdd, GMulPoly, GDivMod, GModPoly, GMul, GSqr, GInv; cross-checked against the "
        "pure TLA+ definitions: MCGF2m pure/accelerated + a full-width sample in every run)"]
    ev.cov["rule"] = (
        "field: corner elements (0, 1, x, x^(m-1), all ones, 0x55/0xAA patterns, f - x^m, single bits at digit boundaries, "
        "zero / all-ones digits, two elements of trace 0 and of trace 1) + seeded random, for every operation, algorithm "
        "variant and alias pattern; double-length reduction inputs (products of corners, single bits m-2..2m-2, multiples of f); "
        "exponents 0, +-1, 2^m-2..2^m+1, negatives, longer than m bits; every usable half-trace table entry and sqrt(z) multiple; "
        "tiny world GF(2^17), 8-bit digits, 8 field polynomials: every element for the unary operations (sampled in the quick "
        "tier); curves: every pair over {O, T=(0,sqrt b), +-G, +-2G, 3G, (n-1)G, halves, random and opposite, G+T coset points} "
        "x every variant x representation (affine, retagged, projective z in {2,3,all-ones,x^(m-1),random}), alias patterns; "
        "scalar multiplication: the C03 corner set relative to n x every routine x both curves of the build; tiny curves "
        "(random, Koblitz) over GF(2^17): dense / exhaustive scalars. Non-trivial = an element other than 0/1 resp. a finite "
        "point and a scalar other than 0,+-1; distinct by full event")
    ev.assumptions = [
        "ARITH=easy (portable C back-end) only; assembly back-ends are not built",
        "scalar multiplications are driven on points of the prime-order subgroup (the ladder, halving and tau-NAF routines "
        "reduce modulo the subgroup structure); eb_mul_basic / lwnaf / rwnaf also on the order-two point and on G + T",
        "eb_hlv is driven on halvable points (Tr(x) = Tr(a)) and the identity",
        "FB_KARAT = 0 in the pinned build: fb_mul_karat runs one Karatsuba level",
        "the tiny world has no Koblitz curve with a = 0 of prime subgroup order (#E_0(GF(2^17)) = 4*137*239): mu = -1 is covered by NIST-K283",
    ]
    # debugging aid: C16_PARTS=<label prefix>[,...] runs only those conformance parts (and no models)
    only = [x for x in os.environ.get("C16_PARTS", "").split(",") if x]
    # 1. design level + the definitions themselves
    if not only:
        core.run_models(ev, MC_RUNS(quick))
        wide_crosscheck(ev, wd, rng, quick)
    conf = core.Conformance("C16", ev, wd)
    cover = {}

    def part(label, cfg, cases, heavy=False, name="fb", extra=None, nofork=False, bdir=None, mps=None):
        if not cases or (only and not any(label.startswith(o) for o in only)):
            return
        events, _ = conf.run(label, cfg, name, DRV, cases, SPEC, extra_cc=extra, nontrivial=nontrivial, bdir=bdir,
                             min_per_shard=mps or (1 if heavy else 200), driver_timeout=2400, tlc_timeout=2400,
                             driver_args=["nofork"] if nofork else None, heap="4g")
        _count_ops(ev, label, events)

    # 2. B2: the pinned build, GF(2^283): both field polynomials, both curves
    X = ["-DVH_FBX"]
    cf, fbs, ebs = listing("std256", X)
    cover["std256"] = dict(fields=["F%d:%d,%d,%d" % f[:4] for f in fbs], curves=[c.sel for c in ebs])
    missing = ["E%d eb_select" % i for i in EXPECTED_EB["std256"] if "E%d" % i not in [c.sel for c in ebs]] + \
              ["F%d fb_select" % i for i in EXPECTED_FB["std256"] if i not in [f[0] for f in fbs]]
    fld, tails = list(missing), []
    for (fid, pa, pb, pc, f) in fbs:
        F = gen_fb.BField("F%d" % fid, cf["m"], f, 8 * cf["w"], cf["fd"])
        a, b = gen_fb.gen_field(F, rng, tier, budget=1.0 if fid == 19 else 0.5)
        fld += a
        tails += b
    part("std256-field", "std256", fld + tails, name="fbx", extra=X, nofork=True)
    grp, gt, mul = [], [], []
    for cv in ebs:
        a, b = gen_fb.group_cases(cv, rng, quick)
        grp += a
        gt += b
        mul += gen_fb.mul_cases(cv, rng, quick)
    part("std256-grp", "std256", grp + gt, name="fbx", extra=X, mps=60)
    part("std256-mul", "std256", mul, heavy=True, name="fbx", extra=X)
    # 3. B1: the tiny world GF(2^17), 8-bit digits
    tf = gen_fb.tiny_fields()
    cover["w8p8"] = dict(fields=[F.sel for F in tf])
    fld, tails = [], []
    for i, F in enumerate(tf):
        a, b = gen_fb.gen_field(F, rng, tier, exhaustive=True, ext=False, budget=1.0 if i in (0, 5) else 0.4,
                                full_variants=(i == 0))
        fld += a
        tails += b
    if quick:
        part("w8p8-field", "w8p8", fld + tails, nofork=True, mps=3000)
    else:
        # thorough: the exhaustive field (every element x 13 routines) in slices, the other fields together
        first = [ln for ln in fld if ln.startswith(tf[0].sel + " ")]
        rest = [ln for ln in fld if not ln.startswith(tf[0].sel + " ")]
        step = 600000
        for j in range(0, len(first), step):
            part("w8p8-field-%s-%d" % (tf[0].sel, j // step), "w8p8", first[j:j + step], nofork=True, mps=3000)
        part("w8p8-field", "w8p8", rest + tails, nofork=True, mps=3000)
    tc = gen_fb.tiny_curves()
    cover["w8p8"]["curves"] = [c.name for c in tc]
    grp, gt, mul, lod = [], [], [], []
    for cv in tc:
        a, b = gen_fb.group_cases(cv, rng, quick, scale=2.0)
        grp += a
        gt += b
        ops = [o for o in gen_fb.EB_MUL if o != "eb_mul_lodah"] + gen_fb.EB_FIX + ["eb_mul_gen"]
        mul += gen_fb.tiny_scalar_cases(cv, rng, quick, ops=ops)
        lod += [ln for ln in gen_fb.tiny_scalar_cases(cv, rng, quick, ops=["eb_mul_lodah"]) if " eb_mul_lodah " in ln]
    part("w8p8-grp", "w8p8", grp + gt, mps=300)
    part("w8p8-mul", "w8p8", mul, nofork=True, mps=300)
    # the Lopez-Dahab ladder blinds with random field elements: a zero has probability 2^-17 per draw in the tiny field
    # (2^-283 at full width); a separate build (RAND=CALL) whose driver supplies non-zero random bytes
    bdir = core.build_relic("w8p8", extra_args=["-DRAND=CALL"], tag="w8p8-call")
    part("w8p8-lodah", "w8p8", lod, nofork=True, bdir=bdir, mps=300)
    ev.cov["selected"] = cover
    return conf.finish()


def replay(path, seed):
    return core.replay_generic(path)
