"""C06 - encryption, key agreement and sharing invert correctly; bad input is rejected (DESIGN.md section 4, C06)."""
import collections
import os
import random

from vlib import core, gen_enc, gen_mpc

SPEC = "trace/EncTrace.tla"
WRAPS = ["rand_bytes"]
DRV = ["drv_enc.c"]
GEN_OPS = ("rsa_gen", "rabin_gen", "phpe_gen", "ghpe_gen", "shpe_gen", "bdpe_gen", "ec_gen", "pc_ref")


def nontrivial(e):
    # non-trivial: an encryption / decryption / key derivation / reconstruction judged against the definition
    # (key generation events and refused degenerate parameters do not count)
    if e.get("op") in GEN_OPS:
        return False
    if e.get("op") in ("sss", "sssx") and not e.get("recs"):
        return False
    return True


def MC_RUNS(quick):
    runs = [("Enc", "Enc_oaep", "pad_pkcs2 RSA_ENC/ENC_FIN/DEC as coded vs RFC 8017 7.1, toy 1-byte hash / MGF over bytes 0..3, k = 6: every "
                                "message of 0..2 bytes x every seed; every 6-byte string parsed", False),
            ("Enc", "Enc_pkcs1", "pad_pkcs1 RSA_ENC/DEC with the |PS| test vs RFC 8017 7.2, minimum padding 2, k = 7, bytes 0..3: every message "
                                 "and padding string; every 7-byte string parsed", False),
            ("Enc", "Enc_paillier", "Paillier, every n = p q <= 100 with gcd(n, phi) = 1: every m and unit r: L-function and CRT decryption "
                                    "as coded invert; products decrypt to sums mod n (all operand pairs for n <= 21, wrap pairs above)", False),
            ("Enc", "Enc_shamir", "mpc_sss_gen / mpc_sss_key as coded over Z_5, Z_7, n <= 4 shares, every threshold and every polynomial: "
                                  "every t-subset reconstructs; t-1 shares are consistent with every secret", False),
            ("Flows", "Flows", "cp_pdpub / cp_lvpub client steps as coded + pairing-based PSI over the abstract bilinear group Z_5 "
                               "(e(a,b) = ab): every input, secret and every single replaced response element; PSI sets of size <= 2", False),
            ("Flows", "Flows_prv", "cp_pdprv / cp_lvprv over Z_3: every input, blinding and single replaced response element", False)]
    if not quick:
        runs += [("Enc", "Enc_oaep_k7", "k = 7, messages of 0..3 bytes", False),
                 ("Enc", "Enc_paillier_big", "every n = p q <= 127, all operand pairs for n <= 33", False),
                 ("Flows", "Flows_r7", "Z_7, PSI sets of size <= 3", False),
                 ("Flows", "Flows_prv5", "private-input delegation over Z_5 (blinding points from {0, 2})", False)]
    return runs


# a configuration that MUST fail: the PKCS#1 v1.5 decoder exactly as coded never counts the padding string
EXPECTED = [("Enc", "Enc_pkcs1_ascoded", "CodedIsDefinition",
             "pad_pkcs1 RSA_DEC exactly as coded: counterexample = 00 02 00 M (empty padding string accepted)")]


def expect_violation(ev, mod, cfg, invariant, consts):
    r = core.tlc("model/%s.tla" % mod, "model/%s.cfg" % cfg, workers=4, timeout=1200)
    ev.add_mc(cfg, r, consts + " [expected counterexample: %s]" % invariant)
    rec = next(m for m in reversed(ev.cov["mc_runs"]) if m["spec"] == cfg)
    rec["expected_violation"] = invariant
    rec["ok"] = (r.invariant_violated == invariant)
    if r.invariant_violated != invariant:
        raise core.InfraError("model %s/%s: expected a counterexample to %s, got %r\n%s"
                              % (mod, cfg, invariant, r.invariant_violated, r.out[-2500:]))
    core.log("model %s: counterexample to %s found as expected (%d states, %.1fs)" % (cfg, invariant, r.distinct, r.wall))


def _verdicts(ev, label, events):
    c = collections.Counter()
    for e in events:
        op = e.get("op", "")
        if op.endswith("_dec"):
            c["%s:%s" % (op, "crash" if e.get("crash") else ("ok" if e.get("ret") == 0 else "refused"))] += 1
        else:
            c[op] += 1
    ev.cov.setdefault("verdicts", {})[label] = dict(sorted(c.items()))


def run(tier, seed):
    ev = core.Evidence("C06", tier, seed)
    wd = core.workdir("C06", tier)
    rng = random.Random(seed)
    quick = tier == "quick"
    ev.cov["trusted_base"] = core.TRUSTED + ["GNU ld --wrap interposition of rand_bytes (records the padding randomness of cp_rsa_enc)"]
    ev.cov["rule"] = (
        "RSA (per padding build): one 1024-bit key; every plaintext length 0..max (content classes random / all-zero / all-FF / "
        "leading zeros / leading FF, all classes at the boundary lengths), max+1.. refused, output capacities; every byte position of "
        "honest ciphertexts mutated (seeded xor values; one per position in quick), lengths k-1 / k+1 / 0, c + n, crafted encoded "
        "messages with one padding defect each re-encrypted with the public key. Rabin: the same over 512 (1024) bit keys. "
        "Paillier / Damgaard-Jurik s = 1..3(4) / subgroup Paillier / Benaloh: operand pairs over {0, 1, 2, n-1, n-2, n/2, random} incl. "
        "sums that wrap, combined ciphertexts decrypted. ECDH / ECMQV on every prime curve the build selects, key lengths 1..100; "
        "ECIES plaintext lengths 0..100, every byte of ciphertext and tag mutated, truncations, ephemeral point bit flips / -R / 2R / "
        "identity, authentic ciphertexts with damaged padding. Shamir: every (t, n) with 2 <= t <= n <= 5 over four (six) prime "
        "orders, every t-subset and (t-1)-subset; Beaver triples. non-trivial = every event except key generations; distinct by full event")
    ev.cov["schemes"] = {
        "constructive (definition evaluated in TLA+ with the logged private key)": [
            "RSA-OAEP (pinned)", "RSA PKCS#1 v1.5 encryption (thorough)", "RSA basic padding (thorough)", "Rabin", "Paillier",
            "Damgaard-Jurik (cp_ghpe)", "subgroup Paillier (cp_shpe, both encryptors)", "Benaloh", "ECDH", "ECMQV", "ECIES",
            "Shamir sharing (mpc_sss)", "Beaver triples (mpc_mt)"] + PC_CONSTRUCTIVE,
        "completeness_only (the library is its own witness)": PC_COMPLETENESS,
        "not_covered": PC_NOT_COVERED}
    ev.assumptions = ["MD_MAP = SHA-256, EC_CUR = PRIME, CP_CRT on (pinned); BN_PRECI = 1024 bounds n^(s+1) to 1088 bits",
                      "x-coordinates enter the KDF as the library encodes them (minimal big-endian; ECIES with a leading 00 when the top "
                      "bit is set) - the property's 'key defined by the protocol' is read with that encoding",
                      "the empty plaintext may be declined by cp_rsa_enc / cp_rabin_enc (an error, never wrong data)",
                      "cp_ecies_dec may decline when the output buffer is smaller than the ciphertext body",
                      "plaintexts outside the scheme's space (Paillier m >= n, Benaloh m >= t) are not judged"]
    core.run_models(ev, MC_RUNS(quick))
    if core.COLLECT is None:
        for x in EXPECTED:
            expect_violation(ev, *x)
    conf = core.Conformance("C06", ev, wd)

    def go(label, cfg, cases, shuffle=True, **kw):
        if shuffle:
            rng.shuffle(cases)
        events, _ = conf.run(label, cfg, "enc", DRV, cases, SPEC, wraps=WRAPS, nontrivial=nontrivial,
                             min_per_shard=12, tlc_timeout=3000, driver_timeout=2400, **kw)
        _verdicts(ev, label, events)

    go("rsa-oaep", "std256", gen_enc.rsa_cases(rng, tier, "oaep") + gen_enc.rsa_hunt_cases(rng, tier, "1024:c0601", 1024))
    # other modulus lengths (the byte / digit alignment of the encoded message changes): 592 and 656 bits
    go("rsa-oaep-592", "std256", gen_enc.rsa_hunt_cases(rng, tier, "592:c0611", 592), shuffle=False)
    if not quick:
        go("rsa-oaep-656", "std256", gen_enc.rsa_hunt_cases(rng, tier, "656:c0612", 656), shuffle=False)
    go("ec", "std256", gen_enc.ec_cases(rng, tier))
    go("hom", "std256", gen_enc.paillier_cases(rng, tier) + gen_enc.bdpe_cases(rng, tier) + gen_enc.rabin_cases(rng, tier), shuffle=False)
    go("share", "std256", gen_enc.share_cases(rng, tier))
    pc = pc_cases(rng, tier)
    if pc:
        go("pairing", "std256", pc, shuffle=False)
    if not quick:
        go("rsa-pkcs1", "rsapd-pkcs1", gen_enc.rsa_cases(rng, tier, "pkcs1"))
        go("rsa-basic", "rsapd-basic", gen_enc.rsa_cases(rng, tier, "basic"))
        pc = pc_cases(rng, tier)
        if pc:
            go("pairing-b12", "b12-381", pc, shuffle=False)
    if os.environ.get("C06_EXT") != "0":
        ext_run(ev, conf, wd, rng, tier)
    return conf.finish()


PC_CONSTRUCTIVE = []
PC_COMPLETENESS = ["Boneh-Franklin IBE (cp_ibe: round trip for lengths 1..32, refusals by length)",
                   "BGN (cp_bgn: G1 / G2 round trip, sum, product, sum of products)",
                   "SOK key agreement (cp_sokaka: both keys equal)",
                   "delegated pairing cp_pdpub / cp_pdprv / cp_lvpub / cp_lvprv (honest: e(P,Q) by the library's pc_map; every single "
                   "tampered response element must be rejected; flow logic model-checked in Flows)",
                   "set intersection cp_rsapsi / cp_shipsi / cp_pbpsi (output = exact intersection decided in TLA+)",
                   "pairing triples pc_map_tri / pc_map_lcl / bct / mpc (relation by the library's pc_map)"]
PC_NOT_COVERED = ["cp_ped (Pedersen commitments are not named by the property)", "g1/g2/gt_mul_* share multiplications (mpc_mt covers the "
                  "scalar protocol)"]


def pc_cases(rng, tier):
    quick = tier == "quick"
    sd = lambda: gen_enc.seed(rng)
    cases = []
    # identity orderings: different first byte, equal length differing in the last byte, one a proper prefix of the
    # other (in both argument orders), different lengths differing inside the common part, long
    for a, b, l in [("Alice", "Bob", 32), ("a", "b", 1), ("Alice", "Alicf", 16), ("x" * 40, "Bob", 100),
                    ("alice", "alice2", 32), ("alice2", "alice", 32), ("a", "ab", 16), ("node-17", "node", 20),
                    ("Bob", "Alice", 32), ("abc", "abd-long", 16), ("abd-long", "abc", 16)]:
        cases.append("sokaka %s %s %s %d" % (sd(), a, b, l))
    for n in (range(0, 35) if not quick else [0, 1, 2, 15, 16, 31, 32, 33, 64]):
        cases.append("ibe %s %s %s 256" % (sd(), rng.choice(["Alice", "Bob", "id"]), gen_enc.hx(gen_enc.plaintext(rng, n, gen_enc.CLASSES[n % 5]))))
    cases.append("ibe %s Alice %s 69" % (sd(), gen_enc.hx(gen_enc.plaintext(rng, 5, "r"))))
    cases.append("ibe %s Alice %s 70" % (sd(), gen_enc.hx(gen_enc.plaintext(rng, 5, "r"))))
    ops = [0, 1, 2, 5, 10, 31]
    pairs = [(a, b) for a in ops for b in ops]
    rng.shuffle(pairs)
    for a, b in pairs[:(6 if quick else 36)]:
        cases.append("bgn %s %d %d" % (sd(), a, b))
    for pr, ng in (("pdpub", 3), ("lvpub", 2), ("pdprv", 4), ("lvprv", 3)):
        for _ in range(2 if quick else 6):
            cases.append("pdel %s %s -1 g" % (pr, sd()))
        for j in range(ng):
            for kind in (["g", "u"] if quick else ["g", "u", "g", "g"]):
                cases.append("pdel %s %s %d %s" % (pr, sd(), j, kind))
    sets = [("-", "-"), ("-", "1,2,3"), ("1,2,3", "-"), ("1,2,3", "4,5,6"), ("1,2,3", "3,2,1"), ("1,2,3", "3,4,1"), ("7", "7"), ("7", "8"),
            ("1,2,3,4,5", "5"), ("ffffffffffffffffffffffffffffffff,2", "2,ffffffffffffffffffffffffffffffff,0")]
    for kind in ("rsa", "shi", "pb"):
        for x, y in (sets if not quick else sets[:2] + sets[3:7]):
            cases.append("psi %s %s %s %s" % (kind, sd(), x, y))
    for _ in range(2 if quick else 8):
        cases.append("pct %s" % sd())
    return cases


# ---------------------------------------------------------------------------------------------------------------
# extension (gate C06_EXT=1): secret-shared group multiplications g1_mul_* / g2_mul_* / gt_exp_* (lcl, bct, mpc) of
# relic_mpc_pc.c and the Pedersen commitment cp_ped_com: harness/drv_mpc.c, model/MpcSpec, trace/MpcTrace,
# design-level model MpcFlows
EXT_SPEC = "trace/MpcTrace.tla"
EXT_DRV = ["drv_mpc.c"]
EXT_HEAP = dict(heap="2g")


def EXT_MC_RUNS(quick):
    runs = [("MpcFlows", "MpcFlows", "share multiplication lcl / bct / mpc as coded over Z_5, first shares of x, P's logarithm, a, b "
                                     "over Z_5, second shares and c_2 over {0, 1, 4}: the opened values are x - a and p - b for both "
                                     "parties, the outputs add up to x p", False, EXT_HEAP),
            ("MpcFlows", "MpcFlows_bad", "Z_5, second shares {0, 4}, triple with c = ab + 1: the outputs NEVER add up to x p", False, EXT_HEAP)]
    if not quick:
        runs += [("MpcFlows", "MpcFlows_r5full", "Z_5, EVERY splitting of x, p, a, b, c", False, EXT_HEAP),
                 ("MpcFlows", "MpcFlows_r7", "Z_7, second shares {0, 1, 6}", False, EXT_HEAP),
                 ("MpcFlows", "MpcFlows_bad7", "Z_7, second shares {0, 1, 6}, c = ab + 3: never reconstructs", False, EXT_HEAP),
                 ("MpcFlows", "MpcFlows_r11", "Z_11, second shares {0, 10}", False, EXT_HEAP)]
    return runs


# controls with ONE broken step: must be refuted
EXT_EXPECTED = [("MpcFlows", "MpcFlows_bothadd", "Reconstruct", "control: both parties add the opened Q to their share of B"),
                ("MpcFlows", "MpcFlows_nocopy", "Reconstruct", "control: the broadcast does not replicate the opened values to the second party")]


def ext_nontrivial(e):
    # a complete run judged against [x]P, or a commitment judged against [x]G + [r]h
    if e.get("op") == "gmul":
        return True
    return e.get("op") == "ped" and e.get("ret") == 0


def ext_run(ev, conf, wd, rng, tier):
    quick = tier == "quick"
    core.run_models(ev, EXT_MC_RUNS(quick))
    if core.COLLECT is None:
        for x in EXT_EXPECTED:
            expect_violation(ev, *x)
    ev.cov["rule_ext"] = (
        "share multiplication g1_mul / g2_mul / gt_exp _lcl -> _bct -> _mpc, both parties of one run per event, on every "
        "pairing-friendly curve the build selects: triples from mpc_mt_gen and explicit triples c = ab mod n; every splitting class "
        "(zero share on either side, share n - 1 on either side, 1, random) of x, a, b, c and of the element's logarithm, one "
        "dimension at a time; values x, a, b, p in {0, 1, n - 1, small, random}; d = 0, d_i = 0, Q = identity, Q_i = identity, "
        "P_0 = -P_1, B_0 + Q = identity, all shares zero, all n - 1; output aliasing the opened element and not; deviating triples "
        "(c = ab + 1, ab - 1, ab + random) must not reconstruct. cp_ped_com: h in {G, 2G, -G, random}, r in {0, 1, n - 1, n, n + 1, "
        "random, 300 bits}, x in {1, 2, n - 1, random}, commitments equal to the identity, declined inputs h = O, x = 0, x >= n")
    sch = ev.cov.get("schemes", {})
    if sch:
        key = next(k for k in sch if k.startswith("constructive"))
        sch[key] = sch[key] + ["secret-shared group multiplication g1_mul / g2_mul / gt_exp _lcl, _bct, _mpc (R_0 + R_1 = [x]P by "
                               "lib/Curve, lib/CurveX, lib/Tower on the logged coordinates)",
                               "Pedersen commitment cp_ped_com (c = [x]G + [r]h)", "Shamir: every subset of every size >= 2"]
        sch["not_covered"] = []
    cover = {}

    def part(label, cfg, cases):
        if not cases:
            return
        c = collections.Counter(x[0].split("-")[0] if x[0].startswith("split") else x[0] for x in cases)
        cover[label] = dict(sorted(c.items()))
        conf.run(label, cfg, "mpc", EXT_DRV, [x[1] for x in cases], EXT_SPEC, nontrivial=ext_nontrivial,
                 min_per_shard=3, driver_timeout=1500, tlc_timeout=3000, heap="2g")

    def config(cfg, q, first_only=False):
        curves = gen_mpc.probe(cfg, wd, EXT_DRV)
        if not curves:
            raise core.InfraError("C06 extension: no pairing-friendly curve selectable in %s" % cfg)
        g1, g2, gt, ped = [], [], [], []
        for j, (cv, n) in enumerate(curves):
            if j > 0 and first_only:
                break
            if q:
                g1 += gen_mpc.gmul_cases(cv, n, 1, rng, 12 if j == 0 else 3)
                if j == 0:
                    g2 += gen_mpc.gmul_cases(cv, n, 2, rng, 5)
                    gt += gen_mpc.gmul_cases(cv, n, 3, rng, 2, cheap=True)
            else:
                g1 += gen_mpc.gmul_cases(cv, n, 1, rng, None)
                g2 += gen_mpc.gmul_cases(cv, n, 2, rng, None)
                gt += gen_mpc.gmul_cases(cv, n, 3, rng, 16, cheap=True) + gen_mpc.gmul_cases(cv, n, 3, rng, 4)
            ped += gen_mpc.ped_cases(cv, n, rng, q)
        part(cfg + "-mpc-g1", cfg, g1 + ped)
        part(cfg + "-mpc-g2gt", cfg, g2 + gt)
        ev.cov.setdefault("curves_ext", {})[cfg] = [cv for cv, _ in curves]

    config("std256", quick)
    if not quick:
        config("b12-381", True, first_only=True)
    ev.cov["classes_ext"] = cover
    # Shamir: every subset of EVERY size (supersets of a qualifying set qualify; the registered part runs sizes k and k - 1)
    sx = []
    for q in ["0b", "07", gen_enc.P256_N] + ([] if quick else ["fb", "1fffffffffffffff"]):
        for n in range(2, 6 if quick else 7):
            for k in range(2, n + 1):
                for s in (["r"] if quick else ["r", "0", "n-1"]):
                    sx.append("sssx %s %s %s %d %d" % (q, gen_enc.seed(rng), s, k, n))
    events, _ = conf.run("share-all-subsets", "std256", "enc", DRV, sx, SPEC, wraps=WRAPS, nontrivial=nontrivial,
                         min_per_shard=8, tlc_timeout=3000, driver_timeout=1200, heap="2g")
    ev.cov["sss_ext"] = {"events": len(events), "subsets": sum(len(e.get("recs", [])) for e in events)}


def replay(path, seed):
    return core.replay_generic(path)
