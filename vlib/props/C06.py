"""C06 - encryption, key agreement and sharing invert correctly; bad input is rejected (DESIGN.md section 4, C06)."""
import collections
import random

from vlib import core, gen_enc

SPEC = "trace/EncTrace.tla"
WRAPS = ["rand_bytes"]
DRV = ["drv_enc.c"]
GEN_OPS = ("rsa_gen", "rabin_gen", "phpe_gen", "ghpe_gen", "shpe_gen", "bdpe_gen", "ec_gen", "pc_ref")


def nontrivial(e):
    # non-trivial: an encryption / decryption / key derivation / reconstruction judged against the definition
    # (key generation events and refused degenerate parameters do not count)
    if e.get("op") in GEN_OPS:
        return False
    if e.get("op") == "sss" and not e.get("recs"):
        return False
    return True


def MC_RUNS(quick):
    runs = [("Enc", "Enc_oaep", "EME-OAEP encode + parser with byte-length bookkeeping, toy 1-byte hash / MGF over Z_4: k = 5, every "
                                "message of 0..2 bytes x every seed; every 5-byte string over {0,1,2,3} parsed", False),
            ("Enc", "Enc_pkcs1", "EME-PKCS1-v1_5 block 00 02 PS 00 M with minimum padding 2, k = 6, bytes {0,1,2,3}: every message, "
                                 "every padding string; every 6-byte string parsed", False),
            ("Enc", "Enc_paillier", "Paillier over every n = p q < 2^7 (p, q odd primes, gcd(n, phi) = 1): every m, r: Dec(Enc) = m, "
                                    "homomorphism incl. wrap", False),
            ("Enc", "Enc_shamir", "Shamir over Z_q, q in {5, 7}, n <= 4, every threshold t <= n, every polynomial of degree < t: every "
                                  "t-subset reconstructs, and t-1 shares are consistent with every secret", False),
            ("Flows", "Flows", "delegated pairing (public-input and private-input flavour) and set intersection as message flows over "
                               "the abstract bilinear group Z_r, r = 5, e(a,b) = ab, helper / sender deviates in at most one message", False)]
    if not quick:
        runs += [("Enc", "Enc_oaep_k6", "k = 6, messages of 0..3 bytes", False),
                 ("Enc", "Enc_paillier_big", "every n = p q < 2^9", False),
                 ("Flows", "Flows_r7", "r = 7", False)]
    return runs


def _verdicts(ev, label, events):
    c = collections.Counter()
    for e in events:
        op = e.get("op", "")
        if op.endswith("_dec"):
            c["%s:%s" % (op, "crash" if e.get("crash") else ("ok" if e.get("ret") == 0 else "refused"))] += 1
        else:
            c[op] += 1
    ev.cov.setdefault("verdicts", {})[label] = dict(sorted(c.items()))


def run(tier, seed):
    ev = core.Evidence("C06", tier, seed)
    wd = core.workdir("C06", tier)
    rng = random.Random(seed)
    quick = tier == "quick"
    ev.cov["trusted_base"] = core.TRUSTED + ["GNU ld --wrap interposition of rand_bytes (records the padding randomness of cp_rsa_enc)"]
    ev.cov["rule"] = (
        "RSA (per padding build): one 1024-bit key; every plaintext length 0..max (content classes random / all-zero / all-FF / "
        "leading zeros / leading FF, all classes at the boundary lengths), max+1.. refused, output capacities; every byte position of "
        "honest ciphertexts mutated (seeded xor values; one per position in quick), lengths k-1 / k+1 / 0, c + n, crafted encoded "
        "messages with one padding defect each re-encrypted with the public key. Rabin: the same over 512 (1024) bit keys. "
        "Paillier / Damgaard-Jurik s = 1..3(4) / subgroup Paillier / Benaloh: operand pairs over {0, 1, 2, n-1, n-2, n/2, random} incl. "
        "sums that wrap, combined ciphertexts decrypted. ECDH / ECMQV on every prime curve the build selects, key lengths 1..100; "
        "ECIES plaintext lengths 0..100, every byte of ciphertext and tag mutated, truncations, ephemeral point bit flips / -R / 2R / "
        "identity, authentic ciphertexts with damaged padding. Shamir: every (t, n) with 2 <= t <= n <= 5 over four (six) prime "
        "orders, every t-subset and (t-1)-subset; Beaver triples. non-trivial = every event except key generations; distinct by full event")
    ev.cov["schemes"] = {
        "constructive (definition evaluated in TLA+ with the logged private key)": [
            "RSA-OAEP (pinned)", "RSA PKCS#1 v1.5 encryption (thorough)", "RSA basic padding (thorough)", "Rabin", "Paillier",
            "Damgaard-Jurik (cp_ghpe)", "subgroup Paillier (cp_shpe, both encryptors)", "Benaloh", "ECDH", "ECMQV", "ECIES",
            "Shamir sharing (mpc_sss)", "Beaver triples (mpc_mt)"] + PC_CONSTRUCTIVE,
        "completeness_only (the library is its own witness)": PC_COMPLETENESS,
        "not_covered": PC_NOT_COVERED}
    ev.assumptions = ["MD_MAP = SHA-256, EC_CUR = PRIME, CP_CRT on (pinned); BN_PRECI = 1024 bounds n^(s+1) to 1088 bits",
                      "x-coordinates enter the KDF as the library encodes them (minimal big-endian; ECIES with a leading 00 when the top "
                      "bit is set) - the property's 'key defined by the protocol' is read with that encoding",
                      "the empty plaintext may be declined by cp_rsa_enc / cp_rabin_enc (an error, never wrong data)",
                      "cp_ecies_dec may decline when the output buffer is smaller than the ciphertext body",
                      "plaintexts outside the scheme's space (Paillier m >= n, Benaloh m >= t) are not judged"]
    core.run_models(ev, MC_RUNS(quick))
    conf = core.Conformance("C06", ev, wd)

    def go(label, cfg, cases, shuffle=True, **kw):
        if shuffle:
            rng.shuffle(cases)
        events, _ = conf.run(label, cfg, "enc", DRV, cases, SPEC, wraps=WRAPS, nontrivial=nontrivial,
                             min_per_shard=12, tlc_timeout=3000, driver_timeout=2400, **kw)
        _verdicts(ev, label, events)

    go("rsa-oaep", "std256", gen_enc.rsa_cases(rng, tier, "oaep"))
    go("ec", "std256", gen_enc.ec_cases(rng, tier))
    go("hom", "std256", gen_enc.paillier_cases(rng, tier) + gen_enc.bdpe_cases(rng, tier) + gen_enc.rabin_cases(rng, tier), shuffle=False)
    go("share", "std256", gen_enc.share_cases(rng, tier))
    pc = pc_cases(rng, tier)
    if pc:
        go("pairing", "std256", pc, shuffle=False)
    if not quick:
        go("rsa-pkcs1", "rsapd-pkcs1", gen_enc.rsa_cases(rng, tier, "pkcs1"))
        go("rsa-basic", "rsapd-basic", gen_enc.rsa_cases(rng, tier, "basic"))
        pc = pc_cases(rng, tier)
        if pc:
            go("pairing-b12", "b12-381", pc, shuffle=False)
    return conf.finish()


PC_CONSTRUCTIVE = []
PC_COMPLETENESS = []
PC_NOT_COVERED = ["cp_ibe", "cp_bgn", "cp_sokaka", "cp_pdpub/pdprv/lvpub/lvprv", "cp_rsapsi/shipsi/pbpsi", "mpc_pc", "cp_ped"]


def pc_cases(rng, tier):
    return []


def replay(path, seed):
    return core.replay_generic(path)
