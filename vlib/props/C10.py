"""C10 - extension-field towers compute in the quotient rings they denote (DESIGN.md section 4, C10)."""
import collections
import random

from vlib import core, gen_fpx

SPEC = "trace/FpxTrace.tla"
DRV = ["drv_fpx.c"]

# pairing-friendly curves whose towers are the object of the property, per build
PAIRING = {"std256": [("BN_P256", 27), ("SM9_P256", 28)], "b12-381": [("B12_P381", None)]}
FULL_LEVELS = [2, 3, 4, 6, 8, 9, 12, 18]
HIGH_LEVELS = [16, 24]
SWEEP_LEVELS = [48, 54]


def nontrivial(e):
    # non-trivial: an operand with at least two non-zero coefficients, or a tower / structural event
    for k in ("a", "b"):
        v = e.get(k)
        if isinstance(v, list) and sum(1 for c in v if any(c)) >= 2:
            return True
    return e.get("f") in ("tower", "inv_sim", "back_cyc_sim", "set_dig", "rand")


def probe(cfg):
    exe = core.cc_harness(cfg, "fpx", DRV)
    rc, out = core.sh([exe, "--list"], timeout=120)
    lst = gen_fpx.parse_list(out)
    rc2, out2 = core.sh([exe, "--ops"], timeout=60)
    ops = gen_fpx.parse_ops(out2)
    if rc != 0 or rc2 != 0 or not lst or not ops:
        raise core.InfraError("drv_fpx --list/--ops failed in %s:\n%s" % (cfg, (out + out2)[-1000:]))
    return lst, ops


def MC_RUNS(quick):
    runs = [("MCTowerFrb", "MCTowerFrb", "p = 7: balanced exponentiation = Tower!TExp and semilinear Frobenius = Tower!TFrb on all of "
                                         "F_p2, F_p3, lattices of F_p4/F_p6/F_p8/F_p9/F_p12/F_p18", False),
            ("MCTowerFrb", "MCTowerFrb_p11", "p = 11 (3 mod 8, 2 mod 3: the non-dividing branch at cubic levels)", False),
            ("MCTowerFrb", "MCTowerFrb_p13", "p = 13 (1 mod 12: every descent step taken)", False),
            ("TowerAlg", "TowerAlg", "p = 7: Karatsuba / complex squaring in F_p2 on ALL pairs; F_p6 Karatsuba, Chung-Hasan SQR2/SQR3, "
                                     "F_p12 Karatsuba + lazy structure, sparse products, Granger-Scott and Karabina squarings, "
                                     "decompression on lattices / the enumerated cyclotomic subgroup", False),
            ("TowerAlg", "TowerAlg_p11", "p = 11", False)]
    if not quick:
        runs += [("TowerAlg", "TowerAlg_p19", "p = 19", False), ("TowerAlg", "TowerAlg_p3", "p = 3 (u^2 = -1, xi = 1 + u)", False)]
    return runs


def _count_ops(ev, label, events):
    ev.cov.setdefault("ops", {})[label] = dict(collections.Counter(e.get("op") for e in events))


def cases_for(cfg, lst, ops, rng, tier):
    quick = tier == "quick"
    wbits = 64
    byid = {i: (p, q, c, xi, x3) for (i, p, q, c, xi, x3) in lst}
    lines, towers, admitted, tail = [], [], {}, []
    pair_ids = set()
    # 1. the pairing towers: every level, every operation
    for (name, pid) in PAIRING.get(cfg, []):
        if pid is None:
            # single-prime build: the id is whatever the list shows
            pid = lst[0][0]
        p, q, c, xi, x3 = byid[pid]
        pair_ids.add(pid)
        adm = gen_fpx.admitted_levels(p, q, c, xi, x3)
        admitted[name] = adm
        sel = "E%sd" % name
        G = gen_fpx.Gen(sel, p, wbits, rng, ops, tw=1)
        for n in FULL_LEVELS:
            if n in adm:
                gen_fpx.gen_level(G, n, tier, scale=1.0)
        for n in HIGH_LEVELS + ([] if quick else SWEEP_LEVELS):
            if n in adm:
                gen_fpx.gen_level(G, n, tier, scale=0.5 if n <= 24 else 0.2, heavy=(not quick and n <= 24))
        lines += G.L
        tail += G.tail
        towers += gen_fpx.tower_lines(sel, [n for n in adm if n <= (24 if quick else 54)])
        # the other sparse pattern of the dodecic multiplication (M-type twist)
        if 12 in adm:
            G2 = gen_fpx.Gen("E%sm" % name, p, wbits, rng, ops, tw=2)
            for f in ("mul_dxs", "mul_dxs_basic", "mul_dxs_lazyr"):
                for j in range(12 if quick else 40):
                    G2.line("fp12_" + f, (0, 1, 0, 2)[j % 4], G2.rtok(12), gen_fpx.tok(G2.sparse(12)))
            lines += G2.L
    # 2. every other selectable prime: the levels its residue classes admit with the library's constants
    for (pid, p, q, c, xi, x3) in lst:
        if pid in pair_ids:
            continue
        adm = gen_fpx.admitted_levels(p, q, c, xi, x3)
        admitted["P%d" % pid] = adm
        sel = "P%d" % pid
        G = gen_fpx.Gen(sel, p, wbits, rng, ops, tw=0)
        for n in adm:
            if n in (2, 3):
                gen_fpx.gen_level(G, n, tier, scale=0.5)
            elif n <= 12 and (not quick or n <= 6):
                gen_fpx.gen_level(G, n, tier, scale=0.25, heavy=not quick)
        lines += G.L
        tail += G.tail
        towers += gen_fpx.tower_lines(sel, [n for n in adm if n <= (6 if quick else 12)])
    return gen_fpx.spread(lines, towers) + tail, admitted


def run(tier, seed):
    ev = core.Evidence("C10", tier, seed)
    wd = core.workdir("C10", tier)
    rng = random.Random(seed)
    quick = tier == "quick"
    ev.cov["trusted_base"] = core.TRUSTED
    ev.cov["rule"] = ("cases = per selected prime and per tower level the prime admits: 0, 1, -1, every basis vector, base-field and "
                      "subfield elements, a zero in every coefficient position, a single non-zero coefficient in every position, "
                      "p-1 in every coefficient, raw Montgomery corner forms, seeded random; cyclotomic / norm-1 / compressed inputs "
                      "prepared by the library and read back raw; for every operation, algorithm variant and alias pattern the level "
                      "offers; Frobenius powers 0..degree+1 and 2*degree; exponents 0, +-1, +-2, small, 64-bit, p, -p, random full size; "
                      "an event is non-trivial when an operand has at least two non-zero coefficients; distinct by full event")
    core.run_models(ev, MC_RUNS(quick))
    conf = core.Conformance("C10", ev, wd)
    builds = ["std256"] + ([] if quick else ["b12-381"])
    ev.cov["towers"] = {}
    ev.assumptions = [
        "cyclotomic-subgroup, norm-1, compressed and square INPUTS are prepared with the library's own fpN_conv_cyc / inv+mul / "
        "fpN_sqr_pck / fpN_sqr and read back raw; the specification re-establishes every precondition on the raw input "
        "(x^Phi_n(p) = 1 through the Frobenius) before it demands the generic value",
        "Frobenius: Tower!TFrb verbatim (full=2) and the p-th power with balanced recursion (full=1) on a handful per level; the bulk "
        "through the semilinear form of TowerFrb.tla, which is model-checked equal to Tower!TFrb on small towers",
        "fpN_mul_frb of levels above 2, fpN_read_bin/write_bin/pck/upk (C09), fp*_exp_cyc_gls (declared, not defined) are not driven; "
        "sparse multiplications: fp6, fp8, fp9, fp12 (both twist patterns), fp18; compressed squarings/decompression: fp12, fp18",
        "which levels are fields for a prime is decided by the specification (tower events); levels the library's constants do not "
        "make a field (e.g. xi = 4 + u on NIST P-256) are not driven",
        "ARITH=easy (portable C back-end) only; FPX_QDR/CBC=INTEG, FPX_RDC=LAZYR defaults with every variant called by name",
        "tiny 8-bit worlds are not used: the tower constants of the fpx module are tuned per FP_PRIME size"]
    for cfg in builds:
        lst, ops = probe(cfg)
        cases, admitted = cases_for(cfg, lst, ops, rng, tier)
        ev.cov["towers"][cfg] = admitted
        events, _ = conf.run(cfg, cfg, "fpx", DRV, cases, SPEC, nontrivial=nontrivial, min_per_shard=100,
                             tlc_timeout=2400, driver_timeout=1200)
        _count_ops(ev, cfg, events)
    return conf.finish()


def replay(path, seed):
    return core.replay_generic(path)
