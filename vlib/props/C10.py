"""C10 - extension-field towers compute in the quotient rings they denote (DESIGN.md section 4, C10)."""
import collections
import os
import random

from vlib import core, gen_fpx

SPEC = "trace/FpxTrace.tla"
DRV = ["drv_fpx.c"]

# pairing-friendly curves whose towers are the object of the property, per build
PAIRING = {"std256": [("BN_P256", 27), ("SM9_P256", 28)], "b12-381": [("B12_P381", None)]}
FULL_LEVELS = [2, 3, 4, 6, 8, 9, 12, 18]
HIGH_LEVELS = [16, 24]
SWEEP_LEVELS = [48, 54]


def nontrivial(e):
    # non-trivial: an operand with at least two non-zero coefficients, or a tower / structural event
    for k in ("a", "b"):
        v = e.get(k)
        if isinstance(v, list) and sum(1 for c in v if any(c)) >= 2:
            return True
    return e.get("f") in ("tower", "inv_sim", "back_cyc_sim", "set_dig", "rand")


def probe(cfg):
    exe = core.cc_harness(cfg, "fpx", DRV)
    rc, out = core.sh([exe, "--list"], timeout=120)
    lst = gen_fpx.parse_list(out)
    rc2, out2 = core.sh([exe, "--ops"], timeout=60)
    ops = gen_fpx.parse_ops(out2)
    if rc != 0 or rc2 != 0 or not lst or not ops:
        raise core.InfraError("drv_fpx --list/--ops failed in %s:\n%s" % (cfg, (out + out2)[-1000:]))
    return lst, ops


def MC_RUNS(quick):
    runs = [("MCTowerFrb", "MCTowerFrb", "p = 7: balanced exponentiation = Tower!TExp, semilinear Frobenius = Tower!TFrb (p-th power) on ALL of "
                                         "F_p2, F_p3 and lattices of F_p4/F_p6/F_p8/F_p9/F_p12/F_p18", False),
            ("MCTowerFrb", "MCTowerFrb_p11", "p = 11 (3 mod 8; 3 does not divide p-1: g^p computed by exponentiation)", False),
            ("TowerAlg", "TowerAlg", "p = 7, u^2 = -1, xi = 2 + u: fp2 Karatsuba / complex squaring / mul_nor on ALL 49^2 pairs; fp6 Karatsuba, "
                                     "Chung-Hasan squaring, sparse and lazy-reduced (accumulators in [0, pR]) products on a 216 x 27 lattice; fp12 "
                                     "Karatsuba / complex squaring / lazy / both sparse patterns on a lattice; Granger-Scott, Karabina squaring "
                                     "and decompression on ALL Phi_12(7) = 2353 elements of the cyclotomic subgroup", False),
            ("TowerAlg", "TowerAlg_p13", "p = 13, u^2 = -2, xi = u (the p = 5 mod 8 forms): all 169^2 fp2 pairs, sextic lattice", False),
            ("TowerAlg", "TowerAlg_p19", "p = 19, xi = 1 + u (the p = 3 mod 8 forms): all 361^2 fp2 pairs, sextic lattice", False)]
    if not quick:
        runs += [("MCTowerFrb", "MCTowerFrb_p13", "p = 13 (12 | p-1: every descent step)", False),
                 ("TowerAlg", "TowerAlg_p11", "p = 11, xi = 4 + u, larger lattices, all Phi_12(11) = 14521 cyclotomic elements", False),
                 ("TowerAlg", "TowerAlg_p13full", "p = 13, quad/sextic/dodecic phases on the larger lattices", False),
                 ("TowerAlg", "TowerAlg_p19full", "p = 19, quad/sextic/dodecic phases on the larger lattices", False)]
    return runs


TINY_PRIMES = [7, 13, 19]        # one-digit primes for which the library's own search yields towers up to degree 12
TINY_CYC_OPS = ("back_cyc", "back_cyc_sim", "sqr_pck", "sqr_cyc", "test_cyc", "conv_cyc", "inv_cyc")


def tiny_cases(exe, ops, rng, tier):
    """B1: 8-bit world.  Degree 2 exhaustively (all pairs for p = 7), the cyclotomic subgroup of F_p12 densely
    (so that the rare coefficient patterns - g2 = 0 - occur), everything else as in the large towers."""
    quick = tier == "quick"
    rc, out = core.sh([exe, "--dense"] + ["%x" % q for q in TINY_PRIMES], timeout=60)
    lst = gen_fpx.parse_list(out)
    lines, towers, admitted, tail = [], [], {}, []
    for (_, p, q, c, xi, x3) in lst:
        adm = [n for n in gen_fpx.admitted_levels(p, q, c, xi, x3) if n <= 12]
        admitted["D%x" % p] = adm
        sel = "D%x" % p
        G = gen_fpx.Gen(sel, p, 8, rng, ops, tw=0)
        allv = [gen_fpx.tok([a, b]) for a in range(p) for b in range(p)]
        # degree 2: every element / every pair (p = 7) or a dense sample of pairs
        pairs = [(a, b) for a in allv for b in allv] if p <= 7 else \
            [(rng.choice(allv), rng.choice(allv)) for _ in range(800 if quick else 12000)]
        for f in ("mul", "mul_basic", "mul_integ", "add", "sub"):
            # all pairs for the default multiplication (p = 7; thorough: every variant), a sample for the others
            ps = pairs if (f == "mul" or not quick) else rng.sample(pairs, min(len(pairs), 400))
            for j, (a, b) in enumerate(ps):
                G.line("fp2_" + f, j % 5, a, b)
        for f in ("sqr", "sqr_basic", "sqr_integ", "inv", "mul_nor", "mul_nor_basic", "mul_nor_integ", "mul_art", "neg", "dbl",
                  "conv_cyc", "inv_cyc", "srt"):
            for j, a in enumerate(allv):
                G.line("fp2_" + f, j % 2, a)
        for a in allv:
            G.line("fp2_test_cyc", 0, a)
            G.line("fp2_is_sqr", 0, a)
            for k in (0, 1, 2, 3):
                G.line("fp2_frb", 0, a, k, 1 if k == 1 else 0)
        for n in adm:
            if n != 2:
                gen_fpx.gen_level(G, n, tier, scale=0.5 if quick else 1.0, heavy=(n <= 6))
        if 12 in adm:
            # many cyclotomic elements: the coefficient patterns that are rare at 256 bits occur here
            for j in range(120 if quick else 1500):
                G.line("fp12_back_cyc", j % 2, ("k:" if j % 3 else "K:") + G.nonzero(12))
                if j % 3 == 0:
                    G.line("fp12_sqr_cyc", j % 2, "c:" + G.nonzero(12))
                    G.line("fp12_sqr_pck", j % 2, "c:" + G.nonzero(12))
                    G.line("fp12_back_cyc_sim", 0, 3, *["K:" + G.nonzero(12) for _ in range(3)])
        lines += G.L
        towers += gen_fpx.tower_lines(sel, adm)
    lines = lines + towers
    rng.shuffle(lines)
    return lines + tail, admitted


def _count_ops(ev, label, events):
    ev.cov.setdefault("ops", {})[label] = dict(collections.Counter(e.get("op") for e in events))


def cases_for(cfg, lst, ops, rng, tier):
    quick = tier == "quick"
    wbits = 64
    byid = {i: (p, q, c, xi, x3) for (i, p, q, c, xi, x3) in lst}
    lines, towers, admitted, tail = [], [], {}, []
    pair_ids = set()
    # 1. the pairing towers: every level, every operation
    for (name, pid) in PAIRING.get(cfg, []):
        if pid is None:
            # single-prime build: the id is whatever the list shows
            pid = lst[0][0]
        p, q, c, xi, x3 = byid[pid]
        pair_ids.add(pid)
        adm = gen_fpx.admitted_levels(p, q, c, xi, x3)
        admitted[name] = adm
        sel = "E%sd" % name
        G = gen_fpx.Gen(sel, p, wbits, rng, ops, tw=1)
        first = name == PAIRING[cfg][0][0]
        for n in FULL_LEVELS:
            if n in adm:
                gen_fpx.gen_level(G, n, tier, scale=(1.0 if (first and cfg == "std256") else 0.6) if not quick else (0.7 if first else 0.4))
        # degrees 48 and 54 (thorough): on the first pairing prime of the 256-bit build only
        for n in HIGH_LEVELS + ([] if (quick or not first or cfg != "std256") else SWEEP_LEVELS):
            if n in adm:
                gen_fpx.gen_level(G, n, tier, scale=0.3 if n <= 24 else 0.15, heavy=(not quick and n <= 24))
        lines += G.L
        tail += G.tail
        towers += gen_fpx.tower_lines(sel, [n for n in adm if n <= (24 if (quick or not first or cfg != "std256") else 54)])
        # the other sparse pattern of the dodecic multiplication (M-type twist)
        if 12 in adm:
            G2 = gen_fpx.Gen("E%sm" % name, p, wbits, rng, ops, tw=2)
            for f in ("mul_dxs", "mul_dxs_basic", "mul_dxs_lazyr"):
                for j in range(12 if quick else 40):
                    G2.line("fp12_" + f, (0, 1, 0, 2)[j % 4], G2.rtok(12), gen_fpx.tok(G2.sparse(12)))
            lines += G2.L
    # 2. every other selectable prime: the levels its residue classes admit with the library's constants
    for (pid, p, q, c, xi, x3) in lst:
        if pid in pair_ids:
            continue
        adm = gen_fpx.admitted_levels(p, q, c, xi, x3)
        admitted["P%d" % pid] = adm
        sel = "P%d" % pid
        G = gen_fpx.Gen(sel, p, wbits, rng, ops, tw=0)
        for n in adm:
            if n in (2, 3):
                gen_fpx.gen_level(G, n, tier, scale=0.2 if quick else 1.0)
            elif n <= 12 and (not quick or n <= 6):
                gen_fpx.gen_level(G, n, tier, scale=0.15 if quick else 0.4, heavy=not quick)
        lines += G.L
        tail += G.tail
        towers += gen_fpx.tower_lines(sel, [n for n in adm if n <= (6 if quick else 12)])
    # stateless events: shuffle so that the expensive ones spread evenly over the TLC shards, then order
    # each block by selector (re-selecting a prime / curve costs the driver milliseconds per switch)
    lines = lines + towers
    rng.shuffle(lines)
    blk = max(1, len(lines) // 48)
    lines = [ln for i in range(0, len(lines), blk) for ln in sorted(lines[i:i + blk], key=lambda x: x.split(" ", 1)[0])]
    return lines + tail, admitted


def run(tier, seed):
    ev = core.Evidence("C10", tier, seed)
    wd = core.workdir("C10", tier)
    rng = random.Random(seed)
    quick = tier == "quick"
    ev.cov["trusted_base"] = core.TRUSTED
    ev.cov["rule"] = ("cases = per selected prime and per tower level the prime admits: 0, 1, -1, every basis vector, base-field and "
                      "subfield elements, a zero in every coefficient position, a single non-zero coefficient in every position, "
                      "p-1 in every coefficient, raw Montgomery corner forms, seeded random; cyclotomic / norm-1 / compressed inputs "
                      "prepared by the library and read back raw; for every operation, algorithm variant and alias pattern the level "
                      "offers; Frobenius powers 0..degree+1 and 2*degree; exponents 0, +-1, +-2, small, 64-bit, p, -p, random full size; "
                      "an event is non-trivial when an operand has at least two non-zero coefficients; distinct by full event")
    core.run_models(ev, MC_RUNS(quick), parallel=5 if quick else 4)
    conf = core.Conformance("C10", ev, wd)
    builds = ["std256"] + ([] if quick else ["b12-381"])
    ev.cov["towers"] = {}
    ev.assumptions = [
        "cyclotomic-subgroup, norm-1, compressed and square INPUTS are prepared with the library's own fpN_conv_cyc / inv+mul / "
        "fpN_sqr_pck / fpN_sqr and read back raw; the specification re-establishes every precondition on the raw input "
        "(x^Phi_n(p) = 1 through the Frobenius) before it demands the generic value",
        "Frobenius: Tower!TFrb verbatim (full=2) and the p-th power with balanced recursion (full=1) on a handful per level; the bulk "
        "through the semilinear form of TowerFrb.tla, which is model-checked equal to Tower!TFrb on small towers",
        "fpN_mul_frb of levels above 2, fpN_read_bin/write_bin/pck/upk (C09), fp*_exp_cyc_gls (declared, not defined) are not driven; "
        "sparse multiplications: fp6, fp8, fp9, fp12 (both twist patterns), fp18; compressed squarings/decompression: fp12, fp18",
        "which levels are fields for a prime is decided by the specification (tower events); levels the library's constants do not "
        "make a field (e.g. xi = 4 + u on NIST P-256) are not driven",
        "where the Frobenius map of a level is itself a recorded finding (levels over fp2 on primes = 2 mod 3; degree 54) fpN_frb is "
        "driven and keyed, but the operations built on it (conv_cyc/test_cyc and everything fed by them, is_sqr/srt) are not",
        "decompression is judged on its domain: four zero compressed coefficients are accepted only as the full element 1",
        "ARITH=easy (portable C back-end) only; FPX_QDR/CBC=INTEG, FPX_RDC=LAZYR defaults with every variant called by name",
        "8-bit world (w8p8): p = 7, 13, 19 - the one-digit primes for which fp_prime_set_dense's own search yields towers "
        "up to degree 12; exponentiations of cyclotomic elements are not driven there (they decompress internally and "
        "meet the recorded decompression finding with probability 1/p^2 per step)"]
    # B1: the 8-bit world (fp_prime_set_dense on one-digit primes whose towers the library's own search completes)
    exe8 = core.cc_harness("w8p8", "fpx", DRV)
    rc, out = core.sh([exe8, "--ops"], timeout=60)
    cases, admitted = tiny_cases(exe8, gen_fpx.parse_ops(out), rng, tier)
    ev.cov["towers"]["w8p8"] = admitted
    events, _ = conf.run("w8p8", "w8p8", "fpx", DRV, cases, SPEC, nontrivial=nontrivial, min_per_shard=500, tlc_timeout=2400)
    _count_ops(ev, "w8p8", events)
    # B2: the shipped configurations
    for cfg in builds:
        lst, ops = probe(cfg)
        cases, admitted = cases_for(cfg, lst, ops, rng, tier)
        ev.cov["towers"][cfg] = admitted
        events, _ = conf.run(cfg, cfg, "fpx", DRV, cases, SPEC, nontrivial=nontrivial, min_per_shard=100,
                             tlc_timeout=2400, driver_timeout=1200)
        _count_ops(ev, cfg, events)
    if os.environ.get("C10_EXT") != "0":
        ext_sweep(ev, conf, rng, tier)
    return conf.finish()


# ----------------------------------------------------------------------------
# field-size sweep (C10_EXT): the towers of the k = 8, 16, 18, 24, 48 families at their own primes
# ----------------------------------------------------------------------------
# build -> what the unchanged tree offers there (probe of 2026-09: fp_param id, residue classes, pairing curve)
SWEEP = collections.OrderedDict([
    ("fp315", "BLS24-P315, k = 24 (fp24 over fp8/fp4), p = 1 mod 8, u^2 = -13"),
    ("fp330", "KSS16-P330, k = 16 (fp16 over fp8/fp4), p = 5 mod 8, u^2 = -2"),
    ("fp354", "KSS18-P354, k = 18 (fp18 over fp9/fp3, D-type cubic twist), p = 5 mod 8"),
    ("fp544", "GMT8-P544, k = 8 (fp8 over fp4), p = 1 mod 8, M-type twist; xi is a cube: no fp6/fp12/fp24"),
    ("fp575", "BLS48-P575, k = 48 (fp48 over fp24), p = 3 mod 8, u^2 = -1"),
    ("fp317", "BLS24-P317, k = 24, p = 3 mod 8"),
])
SWEEP_QUICK = ["fp315"]
EXT_TOP = {"fp315": [24], "fp317": [24], "fp330": [16], "fp354": [18], "fp544": [8], "fp575": [48]}


def ext_cases(cfg, lst, anyp, ops, rng, tier):
    quick = tier == "quick"
    lines, towers, admitted, tail = [], [], {}, []
    sels = []
    if anyp[0]:
        sels.append(("A", anyp[1]))
    # the primes by themselves (no curve installed): every id in thorough, none in quick when a curve exists
    for (pid, p, q, c, xi, x3) in lst:
        if not (quick and anyp[0]):
            sels.append(("P%d" % pid, pid))
    byid = {i: (p, q, c, xi, x3) for (i, p, q, c, xi, x3) in lst}
    for (sel, pid) in sels:
        p, q, c, xi, x3 = byid[pid]
        adm = gen_fpx.admitted_levels(p, q, c, xi, x3)
        admitted["%s(id %d)" % (sel, pid)] = adm
        G = gen_fpx.Gen(sel, p, 64, rng, ops, tw=anyp[3] if sel == "A" else 0, ext=True)
        main = sel == "A" or not anyp[0]
        top = EXT_TOP.get(cfg, [])
        used = []
        for n in adm:
            if quick:
                # one small slice: the family's own tower levels only
                if not (n in top or (n in (4, 8) and 24 in top)):
                    continue
                sc, heavy = (0.25 if n >= 16 else 0.2), n < 16
            elif n in top:
                sc, heavy = ((0.4 if main else 0.12) if n <= 24 else 0.12), (main and n <= 24)
            elif n >= 48:
                # degrees 48 / 54 are driven in full on the 256-bit pairing prime; here only fp48 beside the k = 24 tower
                if not (main and cfg == "fp315" and n == 48):
                    continue
                sc, heavy = 0.08, False
            elif main:
                sc, heavy = (0.2 if n in (4, 8, 16, 24) else 0.12), n <= 8
            elif n in (4, 8):
                # the prime alone beside its curve: the levels whose Frobenius looks at the installed curve
                sc, heavy = 0.08, False
            else:
                continue
            sc *= float(os.environ.get("C10_EXT_SCALE", "1"))
            gen_fpx.gen_level(G, n, tier, scale=sc, heavy=heavy)
            used.append(n)
        lines += G.L
        tail += G.tail
        towers += gen_fpx.tower_lines(sel, used)
    lines = lines + towers
    rng.shuffle(lines)
    blk = max(1, len(lines) // 48)
    lines = [ln for i in range(0, len(lines), blk) for ln in sorted(lines[i:i + blk], key=lambda x: x.split(" ", 1)[0])]
    return lines + tail, admitted


def ext_sweep(ev, conf, rng, tier):
    quick = tier == "quick"
    only = os.environ.get("C10_EXT_ONLY")
    cfgs = SWEEP_QUICK if quick else list(SWEEP)
    if only:
        cfgs = only.split(",")
    ev.cov.setdefault("sweep", {})
    core.run_models(ev, [("SparseHi", "SparseHi", "p = 3: fp24_mul_dxs, fp16_mul_dxs, fp48_mul_dxs as coded (both operand shapes, chosen by the "
                          "zero test on b) = schoolbook product of the quotient ring, for ALL operands a and ALL sparse b, any non-residue; "
                          "outside the precondition the programs differ (control)", True)] +
                    ([] if quick else [("SparseHi", "SparseHi_p5", "p = 5: fp24_mul_dxs, fp16_mul_dxs over Z/5", True)]), parallel=2)
    ev.assumptions.append(
        "field-size sweep: the towers are driven with the build's own pairing-friendly curve installed by "
        "ep_param_set_any_pairf (selector A: the twist types the library chooses decide the sparse shapes of fp12/fp18) and, in "
        "the thorough tier, with every selectable prime alone (fp_param_set); a build that fails, offers no prime or whose curve "
        "selection fails on the unchanged tree is recorded under cov.sweep as skipped, never as a violation; compressed "
        "squarings / decompression of degrees 24, 48, 54 are not driven")
    for cfg in cfgs:
        try:
            lst, ops = probe(cfg)
            exe = core.cc_harness(cfg, "fpx", DRV)
            rc, out = core.sh([exe, "--list"], timeout=120)
            anyp = gen_fpx.parse_any(out)
        except core.InfraError as ex:
            ev.cov["sweep"][cfg] = dict(skipped="build / probe failed: " + str(ex)[-300:])
            core.log("C10 sweep %s skipped: %s" % (cfg, str(ex)[-200:]))
            continue
        cases, admitted = ext_cases(cfg, lst, anyp, ops, rng, tier)
        # every n-th case of the thorough sweep lists by default (the lists of six builds at full density take hours of TLC
        # time; the density that has been run to the end on the unchanged tree is 1/6 .. 1/8); C10_EXT_SAMPLE=1 = all of them
        samp = int(os.environ.get("C10_EXT_SAMPLE", "1" if quick else "6"))
        if samp > 1:
            cases = [c for j, c in enumerate(cases) if j % samp == 0 or " tower " in c]
        ev.cov["sweep"][cfg] = dict(what=SWEEP.get(cfg, ""), primes=[i for (i, *_r) in lst], towers=admitted,
                                    curve=("ep_param_set_any_pairf: fp id %d, k = %d, ep2 twist %d, ep3 twist %d" % anyp[1:]) if anyp[0]
                                    else "skipped: ep_param_set_any_pairf fails on the unchanged tree in this build (primes driven alone)")
        events, _ = conf.run("sweep-" + cfg, cfg, "fpx", DRV, cases, SPEC, nontrivial=nontrivial, min_per_shard=60,
                             tlc_timeout=3000, driver_timeout=1500, shards=int(os.environ.get("C10_EXT_SHARDS", core.NCPU)))
        _count_ops(ev, "sweep-" + cfg, events)


def replay(path, seed):
    return core.replay_generic(path)
