"""C13 - hashing to groups yields valid subgroup points per the documented map (DESIGN.md section 4, C13)."""
import os
import random

from vlib import core, gen_map

SPEC = "trace/MapTrace.tla"
DRV = ["drv_map.c"]
# curve identifiers ep_param_set accepts on the unchanged tree (NIST_P256, BSI_P256, SECG_K256, SM2_P256, BN_P256,
# SM9_P256; B12_P381): a curve that can no longer be selected makes the driver report BADCURVE, which the spec never
# accepts (a VIOLATION, not a discovery result)
EXPECTED = {"std256": [12, 13, 14, 15, 23, 24], "b12-381": [30]}
EB_IDS = [8, 9]             # NIST_B283, NIST_K283 (FB_POLYN = 283)
EP_METHD = {"swift": "-DEP_METHD=PROJC;LWNAF;COMBS;INTER;SWIFT", "basic": "-DEP_METHD=PROJC;LWNAF;COMBS;INTER;BASIC"}


def nontrivial(e):
    """a map call that returned a finite point"""
    if e.get("op") in ("map_params", "map_params2", "restart", "BADCURVE", "CRASH", "TIMEOUT"):
        return False
    if e.get("err", 1) != 0 or "R" not in e:
        return False
    z = e["R"]["z"]
    return any(any(c) if isinstance(c, list) else c for c in z)


def MC_RUNS(quick):
    sq = ("MCSqrtMod", "MCSqrtMod_small", "model/SqrtMod (p = 3 mod 4 shortcut, Tonelli-Shanks, F_p2 by the norm) against "
          "enumeration: every a in F_p for 58 odd primes up to 769 (2-adic valuations of p - 1 from 1 to 8), every "
          "element of F_p2 for p <= 23", False) if quick else \
         ("MCSqrtMod", "MCSqrtMod", "model/SqrtMod (p = 3 mod 4 shortcut, Tonelli-Shanks, F_p2 by the norm) against "
          "enumeration: every a in F_p for 61 odd primes up to 12289 (2-adic valuations of p - 1 from 1 to 12), every "
          "element of F_p2 for p <= 47", False)
    runs = [sq,
            ("HashToCurve", "HashToCurve", "TMPL_MAP_SSWU / TMPL_MAP_SVDW / TMPL_MAP_ISOGENY_MAP + sign fix as coded vs "
                                           "RFC 9380 6.6.2 / 6.6.1 / rational maps: every nonsingular curve over F_7, F_11, "
                                           "F_13 (one state each), every admissible Z, every u, Velu 2-isogenies from "
                                           "every rational 2-torsion point, three coordinate systems", True)]
    if not quick:
        runs.append(("HashToCurve", "HashToCurve_p19", "the same over F_5, F_17, F_19, F_23", True))
    return runs


def discover(cfg, wd, bdir=None, name="map"):
    """map_params events (as CurveInfo) of the curve identifiers ep_param_set accepts in this build"""
    exe = core.cc_harness(cfg, name, DRV, bdir=bdir)
    d = os.path.join(wd, "probe-" + os.path.basename(bdir or cfg))
    os.makedirs(d, exist_ok=True)
    cp = os.path.join(d, "cases.txt")
    open(cp, "w").write("\n".join("map_params id%d" % i for i in range(1, 72)) + "\n")
    evs = core.run_driver(exe, cp, os.path.join(d, "trace.ndjson"), timeout=300)
    return [gen_map.CurveInfo(e) for e in evs if e.get("op") == "map_params"]


def missing(cfg, curves):
    have = set(c.spec for c in curves)
    return ["map_params id%d" % i for i in EXPECTED.get(cfg, []) if "id%d" % i not in have]


def ep_cases(curves, rng, quick, nrand, every_length):
    """direct-entry and message cases for the prime curves of one build"""
    out = []
    lens = gen_map.message_lengths()
    for cv in curves:
        out.append("map_params %s" % cv.spec)
        out += gen_map.uniform_cases(cv, rng, nrand)
    for idx, n in enumerate(lens):
        for ci, cv in enumerate(curves):
            if not every_length and (idx + ci) % len(curves) != 0 and n not in (0, 1):
                continue
            ops = ["ep_map_sswum", "ep_map_basic"]
            if every_length or idx % 2 == 0 or n < 2:
                ops.append("ep_map_swift")
            if idx % 5 == 0:
                ops.append("ep_map")
            out += gen_map.message_cases(cv.spec, ops, rng, [n])
    return out


def msgs(rng, count):
    lens = gen_map.message_lengths()
    pick = [0, 1] + rng.sample(lens[2:], min(len(lens) - 2, max(0, count - 2)))
    return pick[:count] if count < len(pick) else pick


def run(tier, seed):
    ev = core.Evidence("C13", tier, seed)
    wd = core.workdir("C13", tier)
    rng = random.Random(seed)
    quick = tier == "quick"
    ev.cov["trusted_base"] = core.TRUSTED
    ev.cov["rule"] = (
        "direct entry (ep_map_rnd): uniform strings decoding to u = 0, to the zeros of the SSWU / SvdW denominators "
        "(Z u^2 = -1; u^2 g(Z) = +-1, computed from the constants the library reports), as u, u + k p and u + k_max p, "
        "all-zero, all-0xFF, p, multiples of p, +-1, +-2, (p+-1)/2, equal elements (doubling), opposite elements "
        "(identity), random, longer and shorter than required, empty; messages: lengths 0..300 incl. every SHA-256 "
        "block boundary of the first expand_message_xmd input, zero / 0xFF / counting / random content, through "
        "ep_map_sswum, ep_map_basic, ep_map_swift, ep_map (ep2_*, eb_map, ed_map(_dst) with tags of length 0, 1, 255, 256) "
        "on every selectable curve; each call repeated after unrelated calls. Non-trivial = returned a finite point; "
        "distinct by full event")
    core.run_models(ev, MC_RUNS(quick))
    conf = core.Conformance("C13", ev, wd)
    cover = {}

    def part(label, cfg, cases, bdir=None, name="map"):
        if not cases:
            return []
        cases = list(cases)
        rng.shuffle(cases)                       # spread the expensive events over the shards
        # debugging aids for mutation experiments (never set by registered runs): restrict the parts / cap the cases
        only = os.environ.get("VERIF_C13_ONLY")
        if only and label not in only.split(","):
            return []
        if os.environ.get("VERIF_C13_MAX"):
            cases = cases[:int(os.environ["VERIF_C13_MAX"])]
        evs, _ = conf.run(label, cfg, name, DRV, cases, SPEC, bdir=bdir, nontrivial=nontrivial, min_per_shard=1,
                          driver_timeout=1500, tlc_timeout=2400)
        for e in evs:
            if "curve" in e and e.get("op") not in ("BADCURVE",):
                k = "%s %s" % (e["op"], e["curve"])
                cover.setdefault(label, {})
                cover[label][k] = cover[label].get(k, 0) + 1
        return evs

    # ---- the pinned 256-bit build: every selectable prime curve, the twist of the pairing curve, binary curves
    curves = discover("std256", wd)
    cases = missing("std256", curves) + ep_cases(curves, rng, quick, 3 if quick else 24, not quick)
    part("std256-ep", "std256", cases)
    c2 = ["map_params2 pairf"]
    for op, cnt in (("ep2_map_sswum", 6 if quick else 40), ("ep2_map_basic", 3 if quick else 16),
                    ("ep2_map_swift", 3 if quick else 16), ("ep2_map", 1 if quick else 4)):
        c2 += gen_map.message_cases("pairf", [op], rng, msgs(rng, cnt))
    # the other pairing-friendly sets of the build (SM9_P256: M-type twist, positive curve parameter), selected by id
    for c in curves:
        if getattr(c, "pairf", 0) and c.spec not in ("id23",):
            sel = "pf" + c.spec[2:]
            c2.append("map_params2 " + sel)
            for op, cnt in (("ep2_map_sswum", 4 if quick else 24), ("ep2_map_basic", 2 if quick else 8),
                            ("ep2_map_swift", 2 if quick else 8), ("ep2_map", 1 if quick else 4)):
                c2 += gen_map.message_cases(sel, [op], rng, msgs(rng, cnt))
    part("std256-ep2", "std256", c2)
    cb = []
    for i in EB_IDS:
        cb += gen_map.message_cases("eb%d" % i, ["eb_map"], rng, msgs(rng, 5 if quick else 40))
    part("std256-eb", "std256", cb)
    # ---- EP_MAP = SWIFT: the SwiftEC direct entry point incl. t1 = 0, t2 = 0
    bdir = core.build_relic("std256", extra_args=[EP_METHD["swift"]], tag="std256-swift")
    cs = discover("std256", wd, bdir=bdir)
    cases = []
    for cv in cs:
        cases.append("map_params %s" % cv.spec)
        if cv.swift:
            cases += gen_map.swift_uniform_cases(cv, rng, 2 if quick else 16)
            cases += gen_map.message_cases(cv.spec, ["ep_map"], rng, msgs(rng, 2 if quick else 8))
        else:
            cases += gen_map.swift_uniform_cases(cv, rng, 0)[:2]
    part("std256-swift", "std256", missing("std256", cs) + cases, bdir=bdir)
    if not quick:
        # ---- EP_MAP = BASIC: try-and-increment through the direct entry point
        bdir = core.build_relic("std256", extra_args=[EP_METHD["basic"]], tag="std256-basic")
        cs = discover("std256", wd, bdir=bdir)
        cases = []
        for cv in cs:
            cases.append("map_params %s" % cv.spec)
            cases += ["ep_map_rnd %s %s" % (cv.spec, gen_map.hx(s)) for s in
                      [bytes(cv.L), b"\xff" * cv.L, gen_map.enc(cv, 0, 1), gen_map.enc(cv, cv.p - 1), rng.randbytes(cv.L + 9),
                       rng.randbytes(cv.L - 1)] + [rng.randbytes(cv.L) for _ in range(10)]]
            cases += gen_map.message_cases(cv.spec, ["ep_map"], rng, msgs(rng, 4))
        part("std256-basic", "std256", missing("std256", cs) + cases, bdir=bdir)
        # ---- BLS12-381: G1 (11-isogeny + SSWU, the RFC 9380 suite shape) and G2 (3-isogeny over F_p2)
        cs = discover("b12-381", wd)
        cases = missing("b12-381", cs) + ep_cases(cs, rng, True, 40, True) + ["rfc9380_bls12381g1 id30"]
        part("b12-381-ep", "b12-381", cases)
        c2 = ["map_params2 pairf"]
        for op, cnt in (("ep2_map_sswum", 24), ("ep2_map_basic", 8), ("ep2_map_swift", 8)):
            c2 += gen_map.message_cases("pairf", [op], rng, msgs(rng, cnt))
        part("b12-381-ep2", "b12-381", c2)
        # ---- Edwards 25519 (Elligator 2 + cofactor 8)
        ce = gen_map.message_cases("ed", ["ed_map"], rng, msgs(rng, 40))
        for dl in (0, 1, 5, 255, 256):
            for n in msgs(rng, 6):
                ce.append("ed_map_dst ed %s %s" % (gen_map.hx(gen_map.message(rng, n, 3)), gen_map.hx(rng.randbytes(dl))))
        part("ed255-ed", "ed255", ce)
    ev.cov["maps"] = dict(
        constructive=["ep_map_sswum / ep_map_rnd: SSWU (NIST_P256, BSI_P256, SM2_P256), SvdW (SECG_K256, BN_P256, SM9_P256), "
                      "SSWU + 11-isogeny (B12_P381, thorough)", "ep_map_basic (either root)", "ep_map_swift (a = 0 curves; "
                      "refusal elsewhere)", "ep2_map_sswum: SvdW on the BN_P256 twist, SSWU + 3-isogeny on the B12_P381 twist "
                      "(thorough), cofactor clearing as one effective scalar", "ep2_map_basic (either root)",
                      "eb_map (NIST_B283, NIST_K283; either root)",
                      "ed_map / ed_map_dst (edwards25519: Elligator 2 + rational map + [8]; ed255 build, thorough)"],
        validity_only=["ep2_map_swift"])
    ev.cov["events_by_op_and_curve"] = cover
    return conf.finish()


def replay(path, seed):
    return core.replay_generic(path)
