"""C15 - the deterministic random generator follows Hash_DRBG for every call history."""
import random

from vlib import core

WRAPS = ["md_map_sh256", "rand_bytes"]
SL = 55


def hx(b):
    return b.hex() if b else "."


def histories(rng, tier):
    """case lines; every history starts with inst or setstate (independent segments)"""
    quick = tier == "quick"
    out = []
    lens = [0, 1, 31, 32, 33, 55, 64, 65, 100, 255, 256, 257]
    seeds = [1, 20, 55, 64, 200]
    # instantiate with every seed length, then every generate length, reseed in between
    for sl in seeds:
        out.append("inst " + hx(bytes((i * 7 + sl) & 255 for i in range(sl))))
        for n in lens:
            out.append("gen %d" % n)
        out.append("seed " + hx(bytes((i * 13 + 1) & 255 for i in range(sl))))
        for n in rng.sample(lens, 5):
            out.append("gen %d" % n)
    # refused requests and the maximal one
    out.append("inst " + hx(b"relic-verif"))
    out += ["gen 65537", "gen 1", "gen 65536", "gen 70000", "gen 32", "seed .", "gen 5"]
    # the same requests made outside any try block (a refusal then only sets the error code and execution continues)
    out += ["gen_notry 65537", "gen 7", "gen_notry 16", "gen_notry 70000", "gen_notry 0", "gen 33", "gen_notry 65536", "gen 1"]
    # state corners: carry chains of V + H + C + ctr, counters around 2^8, 2^15, 2^16, 2^24, 2^31
    ff = "ff" * SL
    vs = [ff, "00" * SL, "ff" * 23 + "00" * 32, "00" * 23 + "ff" * 32, "ff" * 54 + "fe", "80" + "00" * 54,
          "7f" + "ff" * 54, "01" * SL]
    ctrs = [1, 2, 255, 256, 257, 32511, 32512, 32513, 32514, 32767, 32768, 40000, 65535, 65536, 65537,
            1 << 24, (1 << 24) + 255, (1 << 31) - 300]
    for v in vs:
        for c in (rng.sample(vs, 3) if quick else vs):
            for k in (rng.sample(ctrs, 6) if quick else ctrs):
                out.append("setstate %s %s %d" % (v, c, k))
                out += ["gen 1", "gen 33", "gen 0"]
    # integer sampling
    out.append("inst " + hx(b"bn-sampling"))
    for bits in [1, 2, 7, 8, 9, 63, 64, 65, 127, 128, 129, 255, 256, 257, 1023, 1024]:
        out.append("bn_rand %d %d" % (rng.randint(0, 1), bits))
    for b in [2, 3, 5, 255, 256, 257, (1 << 64) - 1, 1 << 64, (1 << 64) + 1, (1 << 255) - 19,
              (1 << 256) - 1, 1 << 1000] + [rng.getrandbits(rng.randint(2, 900)) | 2 for _ in range(20)]:
        out.append("bn_rand_mod %x" % b)
    # tiny bounds: a zero residue (rejected candidate) occurs with probability 1/b per draw
    for b in [2, 3, 5, 7, 11, 13]:
        out += ["bn_rand_mod %x" % b] * (25 if quick else 200)
    # seeded random histories
    for h in range(10 if quick else 200):
        out.append("inst " + hx(bytes(rng.getrandbits(8) for _ in range(rng.randint(1, 80)))))
        for _ in range(rng.randint(3, 12)):
            r = rng.random()
            if r < 0.6:
                out.append("gen %d" % rng.choice(lens + [rng.randint(0, 400)]))
            elif r < 0.75:
                out.append("seed " + hx(bytes(rng.getrandbits(8) for _ in range(rng.randint(1, 80)))))
            elif r < 0.9:
                out.append("bn_rand %d %d" % (rng.randint(0, 1), rng.randint(1, 600)))
            else:
                out.append("bn_rand_mod %x" % (rng.getrandbits(rng.randint(2, 600)) | 2))
    if not quick:
        # a real long history: the reseed counter crosses 2^15 by generate calls alone
        out.append("inst " + hx(b"long-history"))
        out += ["gen 1"] * 33000
    return out


def seg_line(line):
    return line.startswith("inst") or line.startswith("setstate")


def seg_event(e):
    return e.get("op") in ("inst", "setstate")


def nontrivial(e):
    # non-trivial: a generate/seed event (hash events are the bound oracle answers)
    return e.get("op") in ("gen", "inst", "seed", "bn_rand", "bn_rand_mod")


def run(tier, seed):
    ev = core.Evidence("C15", tier, seed)
    wd = core.workdir("C15", tier)
    rng = random.Random(seed)
    quick = tier == "quick"
    ev.cov["trusted_base"] = core.TRUSTED + ["GNU ld --wrap interposition of md_map_sh256 / rand_bytes"]
    ev.cov["rule"] = ("histories of inst/seed/gen/bn_rand/bn_rand_mod calls (every seed length class, generate lengths "
                      "around the digest length and the per-call limit, injected state corners for the carry chains "
                      "and counters around 2^8/2^15/2^16/2^24/2^31, seeded random histories); every SHA-256 call of the "
                      "generator is an event whose input must be the one SP 800-90A prescribes; non-trivial = API-level "
                      "events (not the bound hash events); distinct by full event")
    core.run_models(ev, [("Drbg", "Drbg", "L=3 bytes, H=1 byte, 32-bit intermediate (repaired code), corner V/C/H, counters to 2^24", False)])
    conf = core.Conformance("C15", ev, wd)
    cases = histories(rng, tier)
    conf.run("histories", "std256", "rand", ["drv_rand.c"], cases, "trace/DrbgTrace.tla", wraps=WRAPS,
             case_seg_start=seg_line, nontrivial=nontrivial, min_per_shard=400,
             driver_timeout=1800, tlc_timeout=2400)
    return conf.finish()


def replay(path, seed):
    return core.replay_generic(path)
