"""C12 - subgroup membership tests are exact; exponentiation / multiplication in G1, G2, GT equals the
repeated group operation (DESIGN.md section 4, C12)."""
import random

from vlib import core, gen_ep2, gen_pc
from vlib.props import C11

SPEC = "trace/PcTrace.tla"
DRV = ["drv_pc.c"]


def nontrivial(e):
    """Non-trivial: validity of something other than the identity; a multiplication of a finite element by a
    scalar other than 0, +-1."""
    op = e.get("op", "")
    if op in ("curve_probe", "restart", "BADCURVE"):
        return False
    if op.endswith("is_valid"):
        if "A" in e:
            flat = [b for f6 in e["A"] for f2 in f6 for f in f2 for b in f]
            return any(flat)
        z = e["P"]["z"]
        return any(any(c) if isinstance(c, list) else c for c in z)
    ks = [e[k] for k in ("k", "m") if k in e] + list(e.get("ks", []))
    if ks and all(sum(k["d"]) <= 1 for k in ks):
        return False
    return True


# the models are small: a modest heap keeps the JVMs out of the way of concurrently running checks
HEAP = dict(heap="2g")


def MC_RUNS(quick):
    runs = [("MCFrbTwist", "MCFrbTwist", "tiny BN world (x = -1: p = 19, r = 13, every b with #E(F_p) = 13, every xi = c + u that is "
                                         "neither a square nor a cube): on ALL 324 finite points of the twist of order 13 * 25 the "
                                         "endomorphism equation g2_is_valid evaluates ([x+1]Q + psi([x]Q) + psi^2([x]Q) = psi^3([2x]Q)) "
                                         "holds exactly for the 12 non-identity points annihilated by r; psi = [p] on them", False, HEAP)]
    if not quick:
        runs += [("MCCurveX", "MCCurveX", "the definitions the verdicts are computed with: lib/CurveX is a group law on every nonsingular "
                                     "curve over F_9; XMulB / PMulB / TPowB (balanced recursion) = XMulNat / PMulNat / TExp", False, HEAP),
                 ("MCFrbTwist", "MCFrbTwist_b12", "tiny BLS12 world (x = -2: p = 37, r = 13, F_p2 = F_37[u]/(u^2-2)): on ALL 1416 finite "
                                                  "points of the twist of order 13 * 109, psi(Q) = [x]Q exactly for the points "
                                                  "annihilated by r", False, HEAP)]
    return runs


def run(tier, seed):
    ev = core.Evidence("C12", tier, seed)
    wd = core.workdir("C12", tier)
    rng = random.Random(seed)
    quick = tier == "quick"
    ev.cov["trusted_base"] = core.TRUSTED
    ev.cov["rule"] = (
        "validity: G1 {members in every representation, identity, off-curve coordinates, curve points not constructed from the "
        "generator, cofactor-part points [r]Q, points of small prime order ell | h, member + small-order point}; G2 {members "
        "(generator multiples, [h2]Q), identities, off-curve, random twist points, cofactor part, small order ell | h2, member + "
        "small-order point}; GT {pairing values g^k, 1, 0, arbitrary F_p12 elements, -(g^k), easy-part powers (cyclotomic, order "
        "not dividing r), their r-th powers, g^k times such an element}; classes of the GT inputs verified by x^Phi12(p) on flagged "
        "events. Multiplication: the C03 corner scalars relative to r (0,+-1,2,r-1,r,r+1,2r,-r, 2^j(+-1) at digit / bits(r) "
        "boundaries, patterns, random below r, longer than r up to BN_PRECI bits) x g1/g2 _mul, _mul_sec, _mul_any, _mul_gen, "
        "_mul_fix, _mul_dig, _mul_sim, _mul_sim_gen, _mul_sim_lot (0..16 terms), _mul_sim_dig; gt_exp, gt_exp_sec, gt_exp_gen, "
        "gt_exp_dig, gt_exp_sim with exponents 0,+-1,2,r-1,r,r+1,2r,-r, digit boundary, random, 260..700 bits. "
        "Non-trivial = not the identity / scalar other than 0,+-1; distinct by full event")
    core.run_models(ev, MC_RUNS(quick))
    gen_pc.BUDGET = gen_ep2.Budget(1 if quick else None)
    gen_ep2.BUDGET = gen_ep2.Budget(2 if quick else None)
    conf = core.Conformance("C12", ev, wd)
    cover = {}

    def part(label, cfg, cases, per=1):
        if not cases:
            return
        conf.run(label, cfg, "pc", DRV, cases, SPEC, nontrivial=nontrivial,
                 min_per_shard=per, driver_timeout=1500, tlc_timeout=2400, heap="2g")

    def config(cfg, q):
        curves = C11.discover(cfg, wd, drv=DRV, name="pc")
        cover[cfg] = ["%s(%s,h1=%s,twist=%d)" % (c.spec, c.family, "1" if c.h1 == 1 else ">1", c.tw) for c in curves]
        have = set(c.spec for c in curves)
        valid = ["g1_is_valid id%d 0 inf" % i for i in C11.EXPECTED.get(cfg, []) if "id%d" % i not in have]
        g1, g2, gt = [], [], []
        for cv in curves:
            valid += gen_pc.valid_cases(cv, rng, q)
            a, b, c = gen_pc.mul_cases(cv, rng, q)
            g1 += a
            g2 += b
            gt += c
        for lst in (valid, g1, g2, gt):
            rng.shuffle(lst)
        part(cfg + "-valid", cfg, valid)
        part(cfg + "-g1", cfg, g1, per=20)
        part(cfg + "-g2", cfg, g2)
        part(cfg + "-gt", cfg, gt)

    config("std256", quick)
    if not quick:
        config("b12-381", True)
    ev.cov["curves"] = cover
    return conf.finish()


def replay(path, seed):
    return core.replay_generic(path)
