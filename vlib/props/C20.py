"""C20 - masked selection and regular exponentiation do not branch on secrets (DESIGN.md section 4, C20)."""
import json
import os
import random
import re

from vlib import core

# objects recompiled from the working tree with -fsanitize-coverage=trace-pc (primitives + algorithm bodies)
# (a) files holding the primitives: only the designated functions are observed
PRIMS = {"src/dv/relic_dv_util.c": ["dv_copy_sec", "dv_swap_sec", "dv_cmp_sec"],
         "src/relic_util.c": ["util_cmp_sec"],
         "src/fp/relic_fp_util.c": ["fp_copy_sec"]}
# (b) files holding the secret-scalar algorithm bodies and the regular recodings: every function is observed
ALGS = ["src/ep/relic_ep_mul.c", "src/bn/relic_bn_mxp.c", "src/fp/relic_fp_exp.c", "src/bn/relic_bn_rec.c",
        "src/epx/relic_ep2_mul.c", "src/pc/relic_pc_exp.c", "src/fpx/relic_fpx_exp.c", "src/eb/relic_eb_mul.c",
        "src/fb/relic_fb_exp.c", "src/ed/relic_ed_mul.c"]
INSTR = list(PRIMS) + ALGS
# functions whose blocks are hashed separately (len2/hash2): the known finding C20-sac-length-from-secret lives here
SEPARATE = {"bn_rec_sac"}
# not observed at block level: scalar decomposition helpers that are variable-time by construction (bn_mod,
# sign normalisation by comparison) and that the property does not claim: it speaks of the masked primitives and
# of the sequence of GROUP-LEVEL operations of the ladder / regular-recoding multiplications
EXCLUDE = {"bn_rec_frb"}
# group-level callees observed by name (wrapped when present in the build)
CALLEES = ["ep_add_projc", "ep_add_basic", "ep_add_jacob", "ep_dbl_projc", "ep_dbl_basic", "ep_dbl_jacob", "ep_sub",
           "ep_neg", "ep_norm", "ep_psi", "ep_tab", "ep_blind", "ep_norm_sim",
           "ep2_add_projc", "ep2_add_basic", "ep2_dbl_projc", "ep2_dbl_basic", "ep2_neg", "ep2_norm", "ep2_sub",
           "ep2_frb", "ep2_tab", "ep2_norm_sim", "ep2_blind",
           "fp12_mul_lazyr", "fp12_mul_basic", "fp12_sqr_lazyr", "fp12_sqr_basic", "fp12_sqr_cyc_lazyr",
           "fp12_sqr_cyc_basic", "fp12_inv_cyc", "fp12_frb", "fp12_sqr_pck_lazyr", "fp12_sqr_pck_basic", "fp12_back_cyc",
           "fp12_back_cyc_sim", "fp12_inv",
           "bn_mul_comba", "bn_sqr_comba", "bn_mul_basic", "bn_sqr_basic", "bn_mul_karat", "bn_sqr_karat",
           "bn_mod_monty_comba", "bn_mod_monty_basic", "bn_mod_monty_conv", "bn_mod_monty_back", "bn_mod_basic",
           "bn_mod_barrt", "bn_mod_pre_monty",
           "eb_add_basic", "eb_add_projc", "eb_dbl_basic", "eb_dbl_projc", "eb_frb", "eb_hlv", "eb_neg_basic", "eb_neg_projc",
           "eb_norm", "eb_norm_sim", "eb_tab", "fb_mul_lodah", "fb_mul_integ", "fb_mul_basic", "fb_mul_karat", "fb_sqr_quick",
           "fb_sqr_integ", "fb_sqr_basic", "fb_inv_basic", "fb_inv_exgcd", "fb_inv_itoht", "fb_inv_lower",
           "ed_add_basic", "ed_add_projc", "ed_add_extnd", "ed_dbl_basic", "ed_dbl_projc", "ed_dbl_extnd", "ed_neg_basic",
           "ed_neg_projc", "ed_norm", "ed_norm_sim", "ed_tab", "ed_sub_basic", "ed_sub_projc", "ed_sub_extnd",
           "fp_mul_comba", "fp_mul_integ", "fp_mul_basic", "fp_sqr_comba", "fp_sqr_integ", "fp_sqr_basic", "fp_inv_lower",
           "fp_inv_basic"]


def build_driver(cfg):
    bdir = core.build_relic(cfg)
    od = os.path.join(bdir, "ct_obj")
    os.makedirs(od, exist_ok=True)
    rc, nm = core.sh("nm -g --defined-only %s | awk '{print $3}'" % os.path.join(bdir, "lib", "librelic_s.a"), check=True)
    syms = set(nm.split())
    wraps = [c for c in CALLEES if c in syms]
    inc = os.path.join(od, "ct_wraps.inc")
    txt = "".join("WRAP(%s)\n" % w for w in wraps)
    if not os.path.exists(inc) or open(inc).read() != txt:
        open(inc, "w").write(txt)
    objs = []
    flags = ["-m64", "-Wno-error", "-D" + core.GUARD, "-O2", "-g", "-DNDEBUG", "-fsanitize-coverage=trace-pc",
             "-I", os.path.join(bdir, "include"), "-I", os.path.join(core.REPO, "include"),
             "-I", os.path.join(core.REPO, "include", "low"), "-I", os.path.join(core.REPO, "src", "tmpl")]
    for f in INSTR:
        src = os.path.join(core.REPO, f)
        if not os.path.exists(src):
            continue
        o = os.path.join(od, os.path.basename(f)[:-2] + ".o")
        if not os.path.exists(o) or os.path.getmtime(o) < os.path.getmtime(src):
            rc, out = core.sh(["gcc", "-c"] + flags + ["-o", o, src], timeout=300)
            if rc != 0:
                raise core.InfraError("instrumented compile of %s failed:\n%s" % (f, out[-2000:]))
        objs.append(o)
    exe = core.cc_harness(cfg, "ct", ["drv_ct.c"], bdir=bdir, extra=["-I", od, "-no-pie"], wraps=wraps, objs_first=objs)
    # address ranges of the observed functions in the linked (non-PIE) program
    want = set()
    for f in INSTR:
        o = os.path.join(od, os.path.basename(f)[:-2] + ".o")
        if not os.path.exists(o):
            continue
        if f in PRIMS:
            want |= set(PRIMS[f])
        else:
            rc, out = core.sh("nm --defined-only %s" % o, check=True)
            want |= set(l.split()[2] for l in out.split("\n") if len(l.split()) == 3 and l.split()[1] in "Tt")
    want -= EXCLUDE
    rc, out = core.sh("nm -S --defined-only %s" % exe, check=True)
    ranges = []
    for l in out.split("\n"):
        p = l.split()
        if len(p) == 4 and p[2] in "Tt" and p[3] in want:
            ranges.append((int(p[0], 16), int(p[0], 16) + int(p[1], 16), 1 if p[3] in SEPARATE else 0))
    ranges.sort()
    rf = os.path.join(od, "ranges.txt")
    open(rf, "w").write("".join("%x %x %d\n" % r for r in ranges))
    os.environ["CT_RANGES"] = rf
    return bdir, exe, wraps, objs


# NIST B-283 / K-283 (the binary curves of the pinned FB_POLYN = 283 configuration): id -> group order
EB_ORDERS = {8: 0x3FFFFFFFFFFFFFFFFFFFFFFFFFFFFFFFFFFEF90399660FC938A90165B042A7CEFADB307,
             9: 0x1FFFFFFFFFFFFFFFFFFFFFFFFFFFFFFFFFFE9AE2ED07577265DFF7F94451E061E163C61}


def scalars(rng, order, count):
    """secret scalars of ONE public bit length: bits(order), below the order"""
    b = order.bit_length()
    top = 1 << (b - 1)
    # order - 1 is left out: [k+1]P = O is the exceptional case of the x-only ladders (eb_mul_lodah recovers y by a
    # different route there), a single value the property's quantifier (random / extreme Hamming weight / long runs) does not name
    out = [top, top + 1, top + 2, order - 2, order - 3, top | ((1 << (b // 2)) - 1), top | (((1 << (b // 2)) - 1) << (b // 2 - 1))]
    out.append(top | int("55" * (b // 8), 16) & (top - 1))
    out.append(top | int("aa" * (b // 8), 16) & (top - 1))
    while len(out) < count:
        k = top | rng.getrandbits(b - 1)
        if k < order:
            out.append(k)
    return [k for k in out if top <= k < order][:count]


def short_scalars(rng, order, L, count):
    """secret scalars of the public bit length L < bits(order): extreme Hamming weights, alternating patterns, values on
    both sides of 2^bits(order) - order (where k + order carries into the next bit - the ladders add the order once or
    twice), seeded random"""
    top = 1 << (L - 1)
    T = (1 << order.bit_length()) - order
    out = [top, top + 1, (1 << L) - 1, top | (int("aa" * (L // 8 + 1), 16) & (top - 1)) | 1, top | (int("55" * (L // 8 + 1), 16) & (top - 1))]
    out += [T - 2, T - 1, T, T + 1, T + 2]
    while len(out) < count + 10:
        out.append(top | rng.getrandbits(L - 1))
    seen, res = set(), []
    for k in out:
        if k.bit_length() == L and 0 < k < order and k not in seen:
            seen.add(k)
            res.append(k)
    return res[:count]


def short_lengths(order):
    b = order.bit_length()
    T = (1 << b) - order
    return sorted(set(L for L in (64, 65, T.bit_length(), b // 2, b - 1) if 8 <= L < b))


def gen_cases(rng, quick, ids, orders):
    cases = []
    n_s = 12 if quick else 128
    # primitives: every condition bit x data class, for several lengths
    for n in (1, 4, 6, 16):
        data = ["0", "1", "f" * (16 * n), "1" + "0" * (16 * n - 1), "8" + "0" * (16 * n - 1), "%x" % rng.getrandbits(64 * n)]
        for alg in ("dv_copy_sec", "dv_swap_sec"):
            for bit in (0, 1):
                for a in data:
                    cases.append("%s %s/%d 0 %d %d %s %s" % (alg, alg, n, n, bit, a, rng.choice(data)))
        for alg in ("dv_cmp_sec", "util_cmp_sec"):
            for a in data:
                for b in (a, data[0], data[2], "%x" % (int(a, 16) ^ 1), "%x" % (int(a, 16) ^ (1 << (64 * n - 1)))):
                    cases.append("%s %s/%d 0 %d 0 %s %s" % (alg, alg, n, n, a, b))
        # byte buffers that are not digit-aligned (one or both) and whose length is not a multiple of the digit size
        for off in (1, 3, 7, 9, 12):
            for a in data:
                for b in (a, data[0], data[2], "%x" % (int(a, 16) ^ (1 << 70 if n > 1 else 1 << 20)), "%x" % (int(a, 16) ^ (1 << (64 * n - 1)))):
                    cases.append("util_cmp_sec util_cmp_sec/%d/o%d 0 %d %d %s %s" % (n, off, n, off, a, b))
    for bit in (0, 1):
        for a in ("0", "1", "f" * 64, "%x" % rng.getrandbits(256)):
            cases.append("fp_copy_sec fp_copy_sec 0 4 %d %s %s" % (bit, a, "%x" % rng.getrandbits(250)))
    # secret-scalar algorithms on every selectable curve
    for i in ids:
        ks = scalars(rng, orders[i], n_s)
        for alg in ("ep_mul_monty", "ep_mul_lwreg"):
            for k in ks:
                cases.append("%s %s/%d %d %x" % (alg, alg, i, i, k))
            # shorter secrets: one class per public bit length
            for L in short_lengths(orders[i]):
                for k in short_scalars(rng, orders[i], L, 6 if quick else 24):
                    cases.append("%s %s/%d/L%d %d %x" % (alg, alg, i, L, i, k))
        for k in ks[:6]:
            cases.append("ep_mul_lwnaf ctl-ep_mul_lwnaf/%d %d %x" % (i, i, k))
    for i in [x for x in ids if x in (23, 24)]:
        ks = scalars(rng, orders[i], n_s)
        for alg in ("g1_mul_sec", "g2_mul_sec", "gt_exp_sec", "ep2_mul_monty"):
            for k in (ks if alg != "gt_exp_sec" else ks[:max(6, n_s // 4)]):
                cases.append("%s %s/%d %d %x" % (alg, alg, i, i, k))
            if alg != "ep2_mul_monty":
                # secrets of the same bit length at or above the order (the hardened forms reduce the scalar themselves)
                b = orders[i].bit_length()
                for k in (orders[i] + 1, orders[i] + (1 << 200) + 5, orders[i] - (1 << 200) - 5, (1 << b) - 1):
                    if k.bit_length() == b:
                        cases.append("%s %s/%d %d %x" % (alg, alg, i, i, k))
            for L in short_lengths(orders[i]):
                if alg == "gt_exp_sec" and quick and L not in (64, 65):
                    continue
                for k in short_scalars(rng, orders[i], L, 5 if quick else 16):
                    cases.append("%s %s/%d/L%d %d %x" % (alg, alg, i, L, i, k))
        for k in ks[:4]:
            cases.append("ep2_mul_lwnaf ctl-ep2_mul_lwnaf/%d %d %x" % (i, i, k))
    # binary curves (Lopez-Dahab ladder) and binary-field exponentiation: eb parameter ids are passed negated
    for bid, order in EB_ORDERS.items():
        ks = scalars(rng, order, n_s)
        for k in ks:
            cases.append("eb_mul_lodah eb_mul_lodah/%d %d %x" % (bid, -bid, k))
        for L in short_lengths(order):
            for k in short_scalars(rng, order, L, 6 if quick else 24):
                cases.append("eb_mul_lodah eb_mul_lodah/%d/L%d %d %x" % (bid, L, -bid, k))
        for k in ks[:5]:
            cases.append("eb_mul_lwnaf ctl-eb_mul_lwnaf/%d %d %x" % (bid, -bid, k))
    for bid in list(EB_ORDERS)[:1]:
        xb = rng.getrandbits(280)
        for k in scalars(rng, (1 << 283) - 1, n_s):
            cases.append("fb_exp_monty fb_exp_monty/%d %d %x %x" % (bid, -bid, xb, k))
        for k in scalars(rng, (1 << 283) - 1, 4):
            cases.append("fb_exp_slide ctl-fb_exp_slide/%d %d %x %x" % (bid, -bid, xb, k))
    # integer / field exponentiation with secret exponents of one bit length
    m = (1 << 1023) | rng.getrandbits(1023) | 1
    base = rng.getrandbits(1000)
    for k in scalars(rng, (1 << 512) - 1, n_s):
        cases.append("bn_mxp_monty bn_mxp_monty/1024 0 %x %x %x" % (base, k, m))
    for k in scalars(rng, (1 << 512) - 1, 4):
        cases.append("bn_mxp_slide ctl-bn_mxp_slide/1024 0 %x %x %x" % (base, k, m))
    for k in scalars(rng, (1 << 256) - 1, n_s):
        cases.append("fp_exp_monty fp_exp_monty/%d %d %x %x" % (ids[0], ids[0], base % (1 << 250), k))
    for k in scalars(rng, (1 << 256) - 1, 4):
        cases.append("fp_exp_slide ctl-fp_exp_slide/%d %d %x %x" % (ids[0], ids[0], base % (1 << 250), k))
    return cases


def run(tier, seed):
    ev = core.Evidence("C20", tier, seed)
    wd = core.workdir("C20", tier)
    rng = random.Random(seed)
    quick = tier == "quick"
    ev.cov["trusted_base"] = core.TRUSTED + ["gcc -fsanitize-coverage=trace-pc instrumentation of the recompiled objects",
                                             "GNU ld --wrap of the group-level callees",
                                             "FNV-1a hash as the projection of the basic-block sequence"]
    ev.cov["rule"] = ("runs grouped in classes (algorithm, parameter set, public bit length); per class secrets of one bit "
                      "length: 2^(b-1), 2^(b-1)+1, n-1, n-2, long zero/one runs, alternating patterns, seeded random; primitives: "
                      "every condition bit x data class (zero, one, all-ones, top bit, first/last digit differing); non-trivial = "
                      "a run of a non-control class other than the class's reference run")
    core.run_models(ev, [("CtSchedule", "CtSchedule", "ladder, n = 251: every scalar below the order", False),
                         ("CtSchedule", "CtSchedule_reg", "regular w-NAF w = 4, n = 251: every scalar, both signs", False),
                         ("CtSchedule", "CtSchedule_reg3", "regular w-NAF w = 3, n = 211", False)])
    # the non-regular control must be refuted by TLC (the invariant is not vacuous)
    c = core.tlc("model/CtSchedule.tla", "model/CtSchedule_ctl.cfg", workers=2, timeout=300)
    if c.invariant_violated != "SameSchedule":
        raise core.InfraError("control model: double-and-add was not refuted (vacuous invariant?)")
    ev.cov["model_control"] = "double-and-add refuted by TLC (SameSchedule violated) as expected"
    bdir, exe, wraps, objs = build_driver("std256")
    ev.cov["instrumented_objects"] = [os.path.basename(o) for o in objs]
    ev.cov["wrapped_callees"] = wraps
    # parameter ids and group orders: discovered with the parameter dump driver
    pexe = core.cc_harness("std256", "param", ["drv_param.c"], bdir=bdir)
    d = os.path.join(wd, "ids")
    os.makedirs(d, exist_ok=True)
    open(os.path.join(d, "c.txt"), "w").write("ids\n")
    ids = core.run_driver(pexe, os.path.join(d, "c.txt"), os.path.join(d, "t.ndjson"))[0]["ep"]
    open(os.path.join(d, "c2.txt"), "w").write("".join("ep %d\n" % i for i in ids))
    orders = {}
    for e in core.run_driver(pexe, os.path.join(d, "c2.txt"), os.path.join(d, "t2.ndjson")):
        orders[e["id"]] = sum(b << (8 * j) for j, b in enumerate(e["r"]["d"]))
    cases = gen_cases(rng, quick, ids, orders)
    # classes contiguous, so that the trace spec's reference is the first run of each class
    cases.sort(key=lambda s: s.split()[1])
    conf = core.Conformance("C20", ev, wd)

    # the first line of each class starts an independent segment (the class's reference run)
    seen, seg_lines = set(), set()
    for ln in cases:
        c = ln.split()[1]
        if c not in seen:
            seg_lines.add(ln)
            seen.add(c)

    def case_seg(line):
        return line in seg_lines
    events, v = conf.run("ct", "std256", "ct", ["drv_ct.c"], cases, "trace/CtTrace.tla", bdir=bdir,
                         extra_cc=["-I", os.path.join(bdir, "ct_obj"), "-no-pie"], wraps=wraps, case_seg_start=case_seg,
                         nontrivial=lambda e: e.get("ctl") == 0, min_per_shard=60, driver_timeout=1800,
                         driver_args=None, objs_first=objs, event_map=add_ctl)
    if not quick:
        # Edwards forms in the 255-bit configuration
        try:
            bdir2, exe2, wraps2, objs2 = build_driver("ed255")
            n25519 = (1 << 252) + 27742317777372353535851937790883648493
            ecases = []
            for k in scalars(rng, n25519, 64):
                ecases.append("ed_mul_monty ed_mul_monty/25519 0 %x" % k)
                ecases.append("ed_mul_lwreg ed_mul_lwreg/25519 0 %x" % k)
            for k in scalars(rng, n25519, 5):
                ecases.append("ed_mul_lwnaf ctl-ed_mul_lwnaf/25519 0 %x" % k)
            ecases.sort(key=lambda s: s.split()[1])
            seen2, seg2 = set(), set()
            for ln in ecases:
                c = ln.split()[1]
                if c not in seen2:
                    seg2.add(ln)
                    seen2.add(c)
            ev2, v2 = conf.run("ct-ed255", "ed255", "ct", ["drv_ct.c"], ecases, "trace/CtTrace.tla", bdir=bdir2,
                               extra_cc=["-I", os.path.join(bdir2, "ct_obj"), "-no-pie"], wraps=wraps2,
                               case_seg_start=lambda ln: ln in seg2, nontrivial=lambda e: e.get("ctl") == 0,
                               min_per_shard=60, objs_first=objs2, event_map=add_ctl)
            events = events + ev2
        except core.InfraError as ex:
            ev.cov["parts"]["ct-ed255"] = dict(skipped=str(ex)[:300])
    # sensitivity of the observation: the non-regular controls must show differing observations
    ctl = {}
    for e in events:
        if e.get("ctl") == 1:
            ctl.setdefault(e["cls"], set()).add((e["len"], tuple(e["hash"])))
    ev.cov["controls"] = {k: len(vs) for k, vs in ctl.items()}
    blind = [k for k, vs in ctl.items() if len(vs) < 2]
    if blind:
        raise core.InfraError("observation is blind: control classes %s show a single observation" % blind)
    return conf.finish()


def add_ctl(e):
    e["ctl"] = 1 if str(e.get("cls", "")).startswith("ctl") else 0
    return e


def replay(path, seed):
    r = json.load(open(path))
    bdir, exe, wraps, objs = build_driver(r["cfg"])
    r["wraps"] = wraps
    r["extra_cc"] = ["-I", os.path.join(bdir, "ct_obj"), "-no-pie"]
    p2 = core.save_replay("C20", r, name="replay-tmp")
    return core.replay_generic(p2, objs_first=objs, event_map=add_ctl)
