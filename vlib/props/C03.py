"""C03 - prime-curve group law and every scalar multiplication equal [k]P
(DESIGN.md section 4, C03)."""
import os
import random

from vlib import core, gen_ep

SPEC = "trace/EpTrace.tla"
DRV = ["drv_ep.c"]
EP_METHD = {"basic": "-DEP_METHD=BASIC;LWNAF;COMBS;INTER;SSWUM", "jacob": "-DEP_METHD=JACOB;LWNAF;COMBS;INTER;SSWUM"}


# ep_mul_monty blinds its two ladder registers with ep_blind, i.e. multiplies by a RANDOM field element; over an
# 8-bit field that element is 0 with probability 1/p and the run degenerates - an artefact of the tiny field (2^-256
# at full width), not of the algorithm, and not repeatable.  The ladder is therefore checked at full width (B2) and
# in the design-level model (ScalarMul); in the tiny worlds it runs in a separate build (RAND=CALL) whose driver
# supplies a deterministic source of non-zero bytes (see drv_ep.c).
TINY_VAR = [op for op in gen_ep.MUL_VAR if op != "ep_mul_monty"]


def nontrivial(e):
    """Non-trivial: a finite point is involved and (for multiplications) a scalar other than 0, +-1."""
    if e.get("op") in ("curve_probe", "restart"):
        return False
    pts = [e[k] for k in ("P", "Q") if k in e] + list(e.get("ps", []))
    if not any(any(p["z"]) for p in pts):
        return False
    ks = [e[k] for k in ("k", "m") if k in e] + list(e.get("ks", []))
    if ks and all(sum(k["d"]) <= 1 for k in ks):
        return False
    return True


def MC_RUNS(quick):
    runs = [("MCCurve", "MCCurve", "the definition (lib/Curve) is a group law: every nonsingular curve over F_5, F_7, F_11", False),
            ("GroupLaw", "GroupLaw", "formula programs of relic_ep_add_tmpl.h / relic_ep_dbl_tmpl.h as coded (affine, projective "
                                     "RCB a=0/a=-3/generic incl. mixed and Z=1 shortcuts, Jacobian) + dispatch, ep_neg/norm/cmp vs the "
                                     "affine law: every nonsingular curve over F_5, F_7, F_11, every ordered pair of points, every "
                                     "representation (all z for p <= 7, z in {1,2,3,p-1} at 11): one state per curve, ~0.5M "
                                     "projective + ~0.5M Jacobian addition cases + 1.8M ep_cmp cases", False),
            ("ScalarMul", "ScalarMul", "multiplication algorithms and recodings as coded over Z_n (lwnaf, lwreg, monty, slide, basic, dig, "
                                       "combs, combd, fix_basic, fix_lwnaf, sim_inter/trick/joint/lot, GLV basis/imp/reg), n in {7,11,13}, "
                                       "w 2..5, depth 2..4, RLC_DIG in {8,64}, k in -2n..3n and 2^j(+-1), j <= 10: 212,823 scalar cases", False)]
    if not quick:
        runs += [("GroupLaw", "GroupLaw_p13", "every nonsingular curve over F_13, all z: 4.8M projective + 4.8M Jacobian addition "
                                              "cases + 3.0M ep_cmp cases", False),
                 ("ScalarMul", "ScalarMul_full", "n in {7,11,13,19,31} (GLV: 7..67), every base point: 2,499,313 scalar cases", False)]
    return runs


# curve identifiers ep_param_set accepts on the unchanged tree (include/relic_ep.h: NIST_P256, BSI_P256, SECG_K256,
# SM2_P256, BN_P256, SM9_P256; B12_P381): a curve of this list that can no longer be selected is a VIOLATION (the
# driver reports BADCURVE, which the spec never accepts), not a discovery result.
EXPECTED = {"std256": [12, 13, 14, 15, 23, 24], "ep-basic": [12, 13, 14, 15, 23, 24],
            "ep-jacob": [12, 13, 14, 15, 23, 24], "b12-381": [30]}


def missing_cases(cfg, curves):
    have = set(c.spec for c in curves)
    return ["ep_is_infty id%d 0 inf" % i for i in EXPECTED.get(cfg, []) if "id%d" % i not in have]


def discover(cfg, wd, bdir=None, name="ep"):
    """Which curve identifiers does ep_param_set accept in this build? (input discovery)"""
    exe = core.cc_harness(cfg, name, DRV, bdir=bdir)
    d = os.path.join(wd, "probe-" + os.path.basename(bdir or cfg))
    os.makedirs(d, exist_ok=True)
    cp = os.path.join(d, "cases.txt")
    open(cp, "w").write("\n".join(gen_ep.probe_cases(range(1, 72))) + "\n")
    evs = core.run_driver(exe, cp, os.path.join(d, "trace.ndjson"), timeout=300)
    return [gen_ep.curve_from_probe(e) for e in evs if e.get("op") == "curve_probe" and e.get("ok") == 1]


# ------------------------------------------------------------------ full width (B2)
def full_width(curves, rng, quick, grp_scale=1.0, mul_scale=1.0):
    """Returns (group-law cases, multiplication cases) grouped by curve."""
    grp, mul = [], []
    for cv in curves:
        # ---- group law: every pair of the base multiples (identity, +-G, +-2G, 3G, (n-1)G, halves, random, opposite)
        ms = gen_ep.base_multiples(cv, rng, 2 if quick else 6)
        pairs = [(a, b) for a in ms for b in ms]
        if quick:
            special = [(a, b) for (a, b) in pairs if (a - b) % cv.n == 0 or (a + b) % cv.n == 0 or a == 0 or b == 0]
            rest = [pq for pq in pairs if pq not in special]
            pairs = special + rng.sample(rest, min(len(rest), int(60 * grp_scale)))
        g = gen_ep.group_cases(cv, rng, pairs)
        g += gen_ep.unary_cases(cv, rng, ms + ms)
        g += gen_ep.cmp_cases(cv, rng, pairs if not quick else rng.sample(pairs, min(len(pairs), 120)))
        g += gen_ep.offcurve_cases(cv, rng, 12 if quick else 60)
        rng.shuffle(g)
        grp += g
        # ---- scalar multiplication: the corner set of scalars for every routine
        corners = gen_ep.scalar_corners(cv, rng, nrand=4 if quick else 12, nlong=3 if quick else 10)
        per_op = max(6, int((18 if quick else 0.6 * len(corners)) * mul_scale))

        must = [0, cv.n, 2 * cv.n, -cv.n, cv.n - 1, cv.n + 1, 1, -1]       # for EVERY routine: multiples of the order and their neighbours
        # ... and scalars with more DIGITS than the order / the field (one digit beyond, and close to the integer
        # precision), of both signs: recoding buffers are sized from the order, not from the scalar (seed C08-w1)
        nd = -(-cv.n.bit_length() // cv.dgb)
        must = [(1 << (cv.dgb * (nd + 1))) + 1, -((1 << (cv.bnbits - 2)) + 5)] + must
        must = [k for k in must if abs(k).bit_length() <= cv.bnbits]

        def ks_for(op, corners=corners, per_op=per_op, must=must):
            if per_op >= len(corners):
                return list(corners)
            return must + rng.sample(corners, per_op)
        pms = [m for m in ms if m % cv.n != 0]
        m = gen_ep.mul_cases(cv, rng, ks_for, pms)
        # identity as the point operand, 0 / n as the scalar, for every variable-base routine
        for op in gen_ep.MUL_VAR:
            m.append("%s %s 0 %s %s" % (op, cv.spec, gen_ep.inf_token(cv.sys, rng), gen_ep.hx(rng.choice(corners))))
        nsim = max(3, int((5 if quick else 40) * mul_scale))

        def kp_for(op, corners=corners, nsim=nsim):
            out = [(rng.choice(corners), rng.choice(corners)) for _ in range(nsim)]
            out += [(rng.choice(corners), 0), (0, rng.choice(corners)), (cv.n, rng.choice(corners))][:2 if quick else 3]
            return out
        m += gen_ep.sim_cases(cv, rng, kp_for, pms)
        if cv.endom:
            # rounding boundaries of the GLV decomposition, for every routine (each decomposes or may decompose k)
            gl = gen_ep.glv_corners(cv, rng, per=1 if quick else 4)
            if gl:
                m += gen_ep.mul_cases(cv, rng, lambda op, gl=gl: gl if not quick else rng.sample(gl, min(len(gl), 8)), pms)
                m += gen_ep.sim_cases(cv, rng, lambda op, gl=gl: [(rng.choice(gl), rng.choice(gl)) for _ in range(3)], pms)
        # many-term sums: the bucket method changes its window with the number of terms (w = max(2, bits(N) - 2))
        small = [k for k in corners if abs(k) < cv.n]
        m += gen_ep.lot_cases(cv, rng, small, pms, [33] if quick else [32, 33, 47, 70, 96], per_count=1)
        m += gen_ep.lot_cases(cv, rng, corners, pms, range(0, 6), per_count=1 if quick else 4)
        if cv.endom and not quick:
            m += gen_ep.lot_cases(cv, rng, corners, pms, [11, 14], per_count=1)      # Pippenger-style path (n > 10)
        elif cv.endom and cv.spec in ("id14",):
            m += gen_ep.lot_cases(cv, rng, [k for k in corners if abs(k) < cv.n], pms, [11], per_count=1)
        m += gen_ep.simdig_cases(cv, rng, pms, range(1, 5), per_count=1 if quick else 4)
        rng.shuffle(m)
        mul += m
    return grp, mul


# ------------------------------------------------------------------ tiny worlds (B1)
def tiny(worlds, rng, quick):
    """Returns a list of (world, group-law cases, multiplication cases)."""
    out = []
    for cv in worlds:
        grp, mul = [], []
        n = cv.n
        # ---- every ordered pair of points x {add, sub} (+ explicit systems on a sample)
        allm = list(range(n))
        pairs = [(a, b) for a in allm for b in allm]
        if quick:
            pairs = rng.sample(pairs, 700) + [(a, a) for a in rng.sample(allm, 20)] + \
                    [(a, n - a) for a in rng.sample(allm, 20)] + [(0, a) for a in rng.sample(allm, 10)] + \
                    [(a, 0) for a in rng.sample(allm, 10)]
        c = cv.spec
        g = []
        for (a, b) in pairs:
            for op in ("ep_add", "ep_sub"):
                g.append("%s %s %d %s %s" % (op, c, rng.choice([0, 0, 0, 1, 2]), gen_ep.point_token(cv, a, cv.sys, rng),
                                             gen_ep.point_token(cv, b, cv.sys, rng)))
        sample = pairs if quick else rng.sample(pairs, 6000)
        g += gen_ep.group_cases(cv, rng, sample[:400 if quick else 6000])
        g += gen_ep.unary_cases(cv, rng, allm if not quick else rng.sample(allm, 40) + [0, 1, n - 1])
        g += gen_ep.cmp_cases(cv, rng, sample[:300 if quick else 6000] + [(a, a) for a in allm[:60]])
        g += gen_ep.offcurve_cases(cv, rng, 40 if quick else 400)
        if cv.h > 1 and cv.points:
            # cofactor > 1: the group law on ALL points of the curve, not only the prime-order subgroup
            pts = [None] + cv.points
            pp = [(P, Q) for P in pts for Q in pts]
            g += gen_ep.group_cases_xy(cv, rng, pp if not quick else rng.sample(pp, 300), ops=("ep_add",))
            g += gen_ep.group_cases_xy(cv, rng, rng.sample(pp, 300 if quick else 8000))
            g += gen_ep.unary_cases_xy(cv, rng, cv.points if not quick else rng.sample(cv.points, 60) +
                                       [P for P in cv.points if P[1] == 0])
        rng.shuffle(g)
        grp += g
        # ---- every k in [-2n, 3n] and 2^j, 2^j +- 1 x every routine, on G and on other points
        ks = list(range(-2 * n, 3 * n + 1))
        for j in range(1, cv.bnbits):
            ks += [v for v in ((1 << j) - 1, 1 << j, (1 << j) + 1, -((1 << j) + 1)) if abs(v).bit_length() <= cv.bnbits]
        ks = sorted(set(ks))
        npts = 1 if quick else 3
        m = []
        for pi in range(npts):
            pm = 1 if pi == 0 else rng.randrange(2, n)
            pt = gen_ep.point_token(cv, pm, cv.sys, rng, force="a" if pi < 2 else "z")

            def ks_for(op, ks=ks):
                return ks if not quick else rng.sample(ks, 90)
            m += gen_ep.mul_cases(cv, rng, ks_for, [pm], fixed_point=pt,
                                  ops=TINY_VAR + gen_ep.MUL_FIX + ["ep_mul_dig"] + (["ep_mul_gen"] if pi == 0 else []))
        # every point x a corner set of scalars x every variable-base routine
        corners = [0, 1, -1, 2, 3, n - 1, n, n + 1, 2 * n - 1, 2 * n + 1, -n, -(n + 1), n // 2, 3 * n]
        for a in (allm if not quick else rng.sample(allm, 12)):
            for op in TINY_VAR:
                for k in (corners if not quick else rng.sample(corners, 4)):
                    m.append("%s %s %d %s %s" % (op, c, rng.choice([0, 1]), gen_ep.point_token(cv, a, cv.sys, rng), gen_ep.hx(k)))
        small = list(range(-n - 2, 2 * n + 3))

        def kp_for(op, small=small, ks=ks):
            cnt = 120 if quick else 2500
            return [(rng.choice(small), rng.choice(small)) for _ in range(cnt)] + \
                   [(rng.choice(ks), rng.choice(ks)) for _ in range(cnt // 4)]
        m += gen_ep.sim_cases(cv, rng, kp_for, list(range(1, n)))
        m += gen_ep.lot_cases(cv, rng, small + ks[-40:], list(range(1, n)), range(0, 6), per_count=10 if quick else 150)
        if cv.endom:
            m += gen_ep.lot_cases(cv, rng, small, list(range(1, n)), [11, 12, 17], per_count=2 if quick else 20)
        m += gen_ep.simdig_cases(cv, rng, list(range(1, n)), range(1, 5), per_count=10 if quick else 150)
        rng.shuffle(m)
        mul += m
        out.append((cv, grp, mul))
    return out


def tiny_monty(worlds, rng, quick):
    """ep_mul_monty in the tiny worlds (RAND=CALL build): every k in [-2n, 3n], 2^j, 2^j +- 1 on G and other points."""
    cases = []
    for cv in worlds:
        n = cv.n
        ks = list(range(-2 * n, 3 * n + 1))
        for j in range(1, cv.bnbits):
            ks += [v for v in ((1 << j) - 1, 1 << j, (1 << j) + 1, -((1 << j) + 1)) if abs(v).bit_length() <= cv.bnbits]
        ks = sorted(set(ks))
        for pi in range(1 if quick else 4):
            pm = 1 if pi == 0 else rng.randrange(2, n)
            pt = gen_ep.point_token(cv, pm, cv.sys, rng, force="a" if pi < 2 else "z")
            cases += gen_ep.mul_cases(cv, rng, lambda op: ks if not quick else rng.sample(ks, 150), [pm],
                                      fixed_point=pt, ops=["ep_mul_monty"])
        for a in (range(n) if not quick else rng.sample(range(n), 20)):
            for k in (0, 1, -1, 2, n - 1, n, n + 1, -n, 2 * n + 1, rng.randrange(n)):
                cases.append("ep_mul_monty %s %d %s %s" % (cv.spec, rng.choice([0, 1]),
                                                           gen_ep.point_token(cv, a, cv.sys, rng), gen_ep.hx(k)))
    rng.shuffle(cases)
    return cases


def run(tier, seed):
    ev = core.Evidence("C03", tier, seed)
    wd = core.workdir("C03", tier)
    rng = random.Random(seed)
    quick = tier == "quick"
    ev.cov["trusted_base"] = core.TRUSTED
    ev.cov["rule"] = (
        "group law: every pair over {O, +-G, +-2G, 3G, (n-1)G, (n+-1)/2 G, random and opposite} x every coordinate "
        "system x representation (affine, z=1 retagged, z in {2,3,p-1,p-2,random}), alias patterns; scalar "
        "multiplication: corner scalars relative to n (0,+-1,2,3,n-2..n+1,2n-1..2n+1,-n,3n, 2^j and 2^j+-1 at digit / "
        "bits(n) / recoding-capacity boundaries, 0x55/0xAA/0xFF patterns, long runs, sqrt(n) and cube-root-of-unity "
        "neighbourhoods, random below n and up to BN_PRECI bits) x every routine x every selectable curve; tiny "
        "worlds: every ordered pair of points x {add,sub}, every k in [-2n,3n] and 2^j(+-1) x every routine "
        "(sampled in the quick tier). Non-trivial = a finite point and a scalar other than 0,+-1; distinct by full event")
    core.run_models(ev, MC_RUNS(quick))
    conf = core.Conformance("C03", ev, wd)
    cover = {}

    def part(label, cfg, cases, bdir=None, heavy=False, name="ep"):
        if not cases:
            return
        conf.run(label, cfg, name, DRV, cases, SPEC, bdir=bdir, nontrivial=nontrivial,
                 min_per_shard=1 if heavy else 100, driver_timeout=1500, tlc_timeout=2400)

    # ---- B2: the pinned 256-bit build, every selectable curve
    curves = discover("std256", wd)
    cover["std256"] = [c.spec for c in curves]
    grp, mul = full_width(curves, rng, quick)
    part("std256-grp", "std256", missing_cases("std256", curves) + grp)
    part("std256-mul", "std256", mul, heavy=True)
    # ---- B1: tiny worlds, 8-bit field, near-exhaustive
    worlds = gen_ep.tiny_worlds(even=True)
    if len(worlds) < 3:
        raise core.InfraError("tiny world construction failed")
    cover["w8p8"] = [w.name for w in worlds]
    parts = tiny(worlds, rng, quick)
    if quick:
        part("w8p8-grp", "w8p8", sum((g for _, g, _ in parts), []))
        part("w8p8-mul", "w8p8", sum((m for _, _, m in parts), []))
    else:
        for i, (cv, g, m) in enumerate(parts):      # exhaustive: one pass per world keeps the shards small
            part("w8p8-grp-%d" % i, "w8p8", g)
            part("w8p8-mul-%d" % i, "w8p8", m)
    bdir = core.build_relic("w8p8", extra_args=["-DRAND=CALL"], tag="w8p8-call")
    part("w8p8-monty", "w8p8", tiny_monty(worlds, rng, quick), bdir=bdir)
    if not quick:
        # ---- other default coordinate systems (affine, Jacobian): full width and tiny
        for sysname, sysid in (("basic", gen_ep.BASIC), ("jacob", gen_ep.JACOB)):
            cfg = "ep-" + sysname
            cs = discover(cfg, wd)
            cover[cfg] = [c.spec for c in cs]
            grp, mul = full_width(cs, rng, True, mul_scale=1.5)
            part(cfg + "-grp", cfg, missing_cases(cfg, cs) + grp)
            part(cfg + "-mul", cfg, mul, heavy=True)
            bdir = core.build_relic("w8p8", extra_args=[EP_METHD[sysname]], tag="w8p8-" + sysname)
            ws = gen_ep.tiny_worlds(sys=sysid, even=True)
            parts = tiny(ws, rng, True)
            part("w8p8-%s-grp" % sysname, "w8p8", sum((g for _, g, _ in parts), []), bdir=bdir)
            part("w8p8-%s-mul" % sysname, "w8p8", sum((m for _, _, m in parts), []), bdir=bdir)
        # ---- BLS12-381 (pairing-friendly, cofactor > 1, GLV)
        cs = discover("b12-381", wd)
        cover["b12-381"] = [c.spec for c in cs]
        grp, mul = full_width(cs, rng, True, mul_scale=2.0)
        part("b12-381-grp", "b12-381", missing_cases("b12-381", cs) + grp)
        part("b12-381-mul", "b12-381", mul, heavy=True)
    ev.cov["curves"] = cover
    return conf.finish()


def replay(path, seed):
    return core.replay_generic(path)
