"""C01 - multi-precision integer arithmetic is exact (DESIGN.md section 4, C01)."""
import random

from vlib import core, gen_bn


def nontrivial(e):
    # non-trivial: an operand of two or more digits is involved
    return any(isinstance(e.get(k), dict) and e[k].get("u", 0) >= 2 for k in ("a", "b"))


def run(tier, seed):
    ev = core.Evidence("C01", tier, seed)
    wd = core.workdir("C01", tier)
    rng = random.Random(seed)
    quick = tier == "quick"
    ev.cov["trusted_base"] = core.TRUSTED
    ev.cov["rule"] = ("cases = corner digit vectors (0,1,2,2^(w-1)-1,2^(w-1),2^(w-1)+1,2^w-2,2^w-1 in every position, "
                      "lengths 0..precision) + Knuth-D division families + seeded random, all alias patterns and "
                      "algorithm variants; an event is non-trivial when an operand has >= 2 digits; distinct by full event")
    # 1. design level: digit-vector primitives, Knuth D, bn objects
    core.run_models(ev, MC_RUNS(quick))
    conf = core.Conformance("C01", ev, wd)
    # 2. B1: 8-bit digits (every carry / quotient-estimate corner is frequent)
    cases, st8 = gen_bn.gen_cases(8, 8, rng, tier, cap=18)
    conf.run("w8", "w8bn", "bn", ["drv_bn.c"], cases, "trace/BnTrace.tla", nontrivial=nontrivial)
    # 3. B2: the shipped 64-bit configuration
    cases, st64 = gen_bn.gen_cases(64, 16, rng, tier, cap=34)
    conf.run("std256", "std256", "bn", ["drv_bn.c"], cases, "trace/BnTrace.tla", nontrivial=nontrivial)
    # 4. call HISTORIES over numbered slots against the library-as-one-machine (model/Relic): frame condition,
    #    aliasing as slot choice, error outcomes, sticky code, usability after an error
    for label, cfg, wb, dg, cap, tcfg in (("hist-w8", "w8bn", 8, 8, 18, "trace/RelicTrace.cfg"),
                                          ("hist-std256", "std256", 64, 16, 34, "trace/RelicTrace_std256.cfg")):
        lines = gen_bn.gen_histories(wb, dg, cap, rng, tier)
        conf.run(label, cfg, "relic_vm", ["relic_vm.c"], lines, "trace/RelicTrace.tla",
                 env={"RELIC_TRACE_CFG": tcfg}, case_seg_start=lambda ln: ln == "reset",
                 nontrivial=lambda e: e.get("op", "").startswith("bn_"), min_per_shard=300, spec_cfg=tcfg)
    ev.cov["division_reach"] = dict(w8=st8, w64=st64,
                                    note="pairs for which a reference simulation of Knuth D takes the "
                                         "quotient-correction / add-back branch")
    return conf.finish()


def MC_RUNS(quick):
    """(spec module, cfg, constants, pure BigNat?)"""
    runs = [("Digits", "Digits", "W=2 (base 4), all vectors of <= 3 digits", False),
            ("Digits", "Digits_w3", "W=3 (base 8), all vectors of <= 2 digits", False),
            ("KnuthD", "KnuthD", "W=2, dividend <= 4 digits, divisor <= 3 digits, all pairs a >= b", False),
            ("KnuthD", "KnuthD_w3", "W=3, dividend <= 3 digits, divisor <= 2 digits", False),
            ("MCBigNat", "MCBigNat_small", "pure TLA+ BigNat vs native integers, operands <= 47", True),
            ("MCBigNat", "MCBigNat", "accelerated BigNat vs native integers, operands <= 255", False),
            ("MCRelic", "MCRelic", "library-as-one-machine: 2 slots, 7 values, 7 operations, 3 calls", False)]
    if not quick:
        runs += [("Digits", "Digits_w2l4", "W=2, all vectors of <= 4 digits", False),
                 ("KnuthD", "KnuthD_w4", "W=4 (base 16), dividend <= 3, divisor <= 2 digits", False),
                 ("MCBigNat", "MCBigNat", "pure TLA+ BigNat vs native integers, operands <= 255 (PURE)", True)]
    return runs


def replay(path, seed):
    return core.replay_generic(path)
