"""C02 - prime-field arithmetic realises Z/pZ with canonical results (DESIGN.md section 4, C02)."""
import collections
import random

from vlib import core, gen_fp

SPEC = "trace/FpTrace.tla"


def nontrivial(e):
    # non-trivial: a call on a field element other than 0 / 1 in raw form, or a multi-digit integer
    for k in ("a", "b", "t"):
        v = e.get(k)
        if isinstance(v, list) and sum(1 for x in v if x) >= 1 and v != [1] + [0] * (len(v) - 1):
            return True
    return e.get("op") in ("fp_prime_conv", "fp_read_bin", "fp_select", "fp_inv_sim")


def listing(cfg):
    """parameter ids accepted by fp_param_set in this build: [(id, prime, sparse)]"""
    exe = core.cc_harness(cfg, "fp", ["drv_fp.c"])
    rc, out = core.sh([exe, "--list"], timeout=120)
    res = []
    for ln in out.splitlines():
        f = ln.split()
        if len(f) == 3 and f[0].isdigit():
            res.append((int(f[0]), int(f[1], 16), int(f[2])))
    if rc != 0 or not res:
        raise core.InfraError("no parameter accepted by fp_param_set in %s:\n%s" % (cfg, out[-1000:]))
    return res


def MC_RUNS(quick):
    """(spec module, cfg, constants, pure BigNat?)"""
    runs = [("FpMonty", "FpMonty", "W=2 (base 4), every odd prime modulus of 1..3 digits, every residue pair / "
                                   "every double-length value below p*R", False),
            ("FpMonty", "FpMonty_w3", "W=3 (base 8), every odd prime modulus of 1..2 digits", False)]
    if not quick:
        runs += [("FpMonty", "FpMonty_w3l3", "W=3 (base 8), 3-digit moduli 67, 127, 257, all residue pairs (products, sums, differences, halves)", False)]
    return runs


def _count_ops(ev, label, events):
    ev.cov.setdefault("ops", {})[label] = dict(collections.Counter(e.get("op") for e in events))


def run(tier, seed):
    ev = core.Evidence("C02", tier, seed)
    wd = core.workdir("C02", tier)
    rng = random.Random(seed)
    quick = tier == "quick"
    ev.cov["trusted_base"] = core.TRUSTED
    ev.cov["rule"] = ("cases = for every selectable prime: residue corner set (0,1,2,p-1,p-2,(p+-1)/2,R mod p,R^-1 mod p, raw forms "
                      "with zero/all-ones digits, residues/non-residues, elements of 2- and 3-power order) + seeded random, for every "
                      "operation, algorithm variant and alias pattern; tiny one-digit fields enumerate all residues (thorough: all pairs); "
                      "an event is non-trivial when an operand is a field element other than raw 0/1 or a multi-digit integer; "
                      "distinct by full event")
    # 1. design level: Montgomery reduction / multiplication and the conditional corrections
    core.run_models(ev, MC_RUNS(quick))
    conf = core.Conformance("C02", ev, wd)
    # 2. B1: tiny worlds (8-bit digits): every residue of five one-digit primes, multi-digit carries in two digits
    cases = gen_fp.gen_tiny(8, 1, 8, gen_fp.TINY8, rng, tier, exhaustive=True, bn_digits=4)
    events, _ = conf.run("w8p8", "w8p8", "fp", ["drv_fp.c"], cases, SPEC, nontrivial=nontrivial, min_per_shard=2000)
    _count_ops(ev, "w8p8", events)
    cases = gen_fp.gen_tiny(8, 2, 16, gen_fp.tiny16_primes(), rng, tier, exhaustive=False,
                            budget=0.5 if quick else 2.0, bn_digits=8)
    events, _ = conf.run("w8p16", "w8p16", "fp", ["drv_fp.c"], cases, SPEC, nontrivial=nontrivial, min_per_shard=2000)
    _count_ops(ev, "w8p16", events)
    # 3. B2: the shipped configuration - every parameter id the build accepts
    builds = [("std256", 256)]
    if not quick:
        builds += [("ed255", 255), ("b12-381", 381)]
    ev.cov["primes"] = {"w8p8": ["%x" % p for p in gen_fp.TINY8], "w8p16": ["%x" % p for p in gen_fp.tiny16_primes()]}
    ev.assumptions = ["fp_smb_binar and fp_smb_divst are driven in the 64-bit-digit builds only (8-bit-digit worlds: "
                      "signed counters kept in dig_t; fp_smb_binar also needs >= 2 digits)",
                      "reduction variants are driven on their domain: Montgomery t < p*R; fp_rdc_quick only for "
                      "parameter ids that install a sparse form",
                      "ARITH=easy (portable C back-end) only; assembly back-ends are not built"]
    for cfg, bits in builds:
        lst = listing(cfg)
        ev.cov["primes"][cfg] = ["%d:%x" % (i, p) for (i, p, s) in lst]
        fd = (bits + 63) // 64
        cases = gen_fp.gen_params(lst, 64, fd, bits, rng, tier, bn_digits=16)
        events, _ = conf.run(cfg, cfg, "fp", ["drv_fp.c"], cases, SPEC, nontrivial=nontrivial, min_per_shard=1000)
        _count_ops(ev, cfg, events)
    return conf.finish()


def replay(path, seed):
    return core.replay_generic(path)
