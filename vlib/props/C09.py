"""C09 - modular and number-theoretic integer functions and scalar recodings are correct
(DESIGN.md section 4, C09)."""
import os
import random
import threading

from vlib import core, gen_bnt, gen_tau

SPEC = "trace/BntTrace.tla"
CHUNK = 300000


def nontrivial(e):
    """non-trivial: a multi-digit operand or modulus, or a recoding of at least four digits,
    or a generated / tested number of two or more digits"""
    for k in ("a", "b", "m", "k", "c"):
        v = e.get(k)
        if isinstance(v, dict) and v.get("u", 0) >= 2:
            return True
    if isinstance(e.get("ds"), list) and len(e["ds"]) >= 4:
        return True
    return False


def MC_RUNS(quick):
    """(spec module, cfg, constants, pure BigNat?)"""
    runs = [("Recode", "Recode", "NAF / regular (W=8 digit) / JSF as coded: all k < 2^10, w = 2..8; JSF all pairs < 2^6", False),
            ("Gcd", "Gcd", "Lehmer (digit 4 bits), extended Euclid and binary as coded: all pairs < 2^7", False),
            ("Gcd", "Gcd_w3", "digit 3 bits, all pairs < 2^7", False),
            ("ModRed", "ModRed", "Barrett / Montgomery / pseudo-Mersenne as coded: digit 2 bits, moduli < 2^6, operands < 2^10", False),
            ("MCJacobi", "MCJacobi", "reciprocity-law Jacobi vs multiplicative definition by Euler, odd n < 200", False)]
    if not quick:
        runs += [("Recode", "Recode_k12", "all k < 2^12, w = 2..8; JSF all pairs < 2^7", False),
                 ("Gcd", "Gcd_w2", "digit 2 bits, all pairs < 2^8", False),
                 ("Gcd", "Gcd_k10", "digit 4 bits, all pairs < 2^10", False),
                 ("ModRed", "ModRed_w3", "digit 3 bits, moduli < 2^7, operands < 2^12", False)]
    return runs


def run(tier, seed):
    ev = core.Evidence("C09", tier, seed)
    wd = core.workdir("C09", tier)
    rng = random.Random(seed)
    quick = tier == "quick"
    ev.cov["trusted_base"] = core.TRUSTED + [
        "BIsPrime is BigInteger.isProbablePrime(128) when accelerated: primality of candidates above 2^31 rests on it"]
    ev.cov["rule"] = ("cases = extreme moduli (all-ones, 2^k, 2^k+-1, zero digit inside, NIST/Mersenne primes) x operands "
                      "(0, 1, m-1, m, m+1, multiples, beyond m^2 / m*R, negatives) for every reduction; exponents 0, 1, "
                      "negative, longer than the modulus for every exponentiation; Fibonacci / equal-top-digit / "
                      "low-digit-only gcd pairs for every gcd variant; Carmichael numbers, strong pseudoprimes, prime "
                      "squares, close-prime products, primes of many sizes for every primality test; run-length scalars "
                      "and all widths 2..8 for every recoding; exhaustive small ranges in the 8-bit world; an event is "
                      "non-trivial when an operand has >= 2 digits or the recoding >= 4 digits; distinct by full event")
    # 1. design level (in parallel with the conformance runs)
    mc_err = []

    def models():
        try:
            core.run_models(ev, MC_RUNS(quick), parallel=2)
        except Exception as ex:           # noqa: BLE001
            mc_err.append(ex)

    th = threading.Thread(target=models)
    th.start()
    conf = core.Conformance("C09", ev, wd)
    stats = {}
    try:
        # 2. B1: 8-bit digits, exhaustive small ranges
        cases, stats["w8"] = gen_bnt.gen_cases(8, 8, rng, tier)
        for n, i in enumerate(range(0, len(cases), CHUNK)):
            conf.run("w8-%d" % n if len(cases) > CHUNK else "w8", "w8bn", "bnt", ["drv_bnt.c"], cases[i:i + CHUNK],
                     SPEC, nontrivial=nontrivial, driver_timeout=1800, tlc_timeout=2400)
        # 3. B2: the shipped 64-bit configuration, operands up to BN_PRECI = 1024 bits
        cases, stats["std256"] = gen_bnt.gen_cases(64, 16, rng, tier, glv=True)
        for n, i in enumerate(range(0, len(cases), CHUNK)):
            conf.run("std256-%d" % n if len(cases) > CHUNK else "std256", "std256", "bnt", ["drv_bnt.c"],
                     cases[i:i + CHUNK], SPEC, nontrivial=nontrivial, driver_timeout=1800, tlc_timeout=2400,
                     min_per_shard=100)
        # 4. extension (off until enabled): tau-adic recodings and signed aligned columns, vlib/gen_tau.py
        if os.environ.get("C09_EXT") != "0":
            gen_tau.run_ext(ev, conf, rng, tier, stats)
    finally:
        th.join()
    if mc_err:
        raise mc_err[0]
    ev.cov["cases_per_op"] = stats
    ev.assumptions.append("primality of numbers >= 2^31 is judged by BigInteger.isProbablePrime(128) (error < 2^-256)")
    ev.assumptions.append("bn_gen_prime_stron: only primality and bit length are observable; the Gordon structure "
                          "(large prime factors of p-1, p+1, r-1) is not decided")
    return conf.finish()


def replay(path, seed):
    return core.replay_generic(path)
