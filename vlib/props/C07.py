"""C07 - decoding validates untrusted bytes; encoding is canonical and round-trips
(DESIGN.md section 4, C07).  Spec: model/Codec (+ MCCodec exhaustive check), binding:
harness/drv_codec.c -> trace/CodecTrace (model/CodecSpec)."""
import os
import random
import threading

from vlib import core, gen_codec

DRV = ("codec", ["drv_codec.c"])
SPEC = "trace/CodecTrace.tla"
READS = ("bn_read_bin", "bn_read_raw", "bn_read_str", "fp_read_bin", "fp_read_str", "fp2_read_bin",
         "fp12_read_bin", "ep_read_bin", "ep_upk", "ep2_read_bin", "ed_read_bin")


def nontrivial(e):
    """a decode of a non-empty string, or an encode of a non-zero object into a non-empty buffer"""
    op = e.get("op", "")
    if op in READS:
        return len(e.get("in", [1])) > 0
    if op in ("curve_probe", "restart", "BADCURVE"):
        return False
    return e.get("len", 1) > 0


def probe(cfg, wd, specs=None):
    """which curves does ep_param_set accept in this build, and their parameters (input discovery)"""
    bdir = core.build_relic(cfg)
    exe = core.cc_harness(cfg, DRV[0], DRV[1], bdir=bdir)
    d = os.path.join(wd, "probe-" + cfg + ("-" + specs[0][:2] if specs else ""))
    os.makedirs(d, exist_ok=True)
    cp = os.path.join(d, "cases.txt")
    with open(cp, "w") as f:
        for sp in (specs or ["id%d" % i for i in range(1, 64)]):
            f.write("curve_probe %s\n" % sp)
    evs = core.run_driver(exe, cp, os.path.join(d, "trace.ndjson"), timeout=300)
    return [gen_codec.curve_from_probe(e) for e in evs if e.get("op") == "curve_probe" and e.get("ok") == 1]


def probe_pf(cfg, wd, rng, quick):
    """the pairing-friendly curve of the build with its twist: parameters and a few valid G2 points
    (taken from the library's uncompressed writer; they are inputs, the spec judges them again)"""
    cs = probe(cfg, wd, ["pf"])
    if not cs:
        return None, []
    bdir = core.build_relic(cfg)
    exe = core.cc_harness(cfg, DRV[0], DRV[1], bdir=bdir)
    d = os.path.join(wd, "probe2-" + cfg)
    os.makedirs(d, exist_ok=True)
    evs = core.read_ndjson(os.path.join(wd, "probe-" + cfg + "-pf", "trace.ndjson"))
    e0 = [e for e in evs if e.get("op") == "curve_probe" and e.get("ok") == 1][0]
    cv = cs[0]
    rinv = pow(1 << (8 * e0["w"] * e0["fd"]), -1, cv.p) if e0["mont"] == 1 else 1
    b2 = tuple(gen_codec.from_le(r) * rinv % cv.p for r in e0["b2"])
    pf = dict(p=cv.p, fb=cv.fb, qnr=e0["qnr"], b2=b2, n=cv.n)
    ks = [1, 2, 3, cv.n - 1] + [rng.randrange(1, cv.n) for _ in range(3 if quick else 12)]
    cp = os.path.join(d, "cases.txt")
    with open(cp, "w") as f:
        for k in ks:
            f.write("ep2_write_bin pf m%x 0 %d\n" % (k, 4 * cv.fb + 1))
    pts = []
    for e in core.run_driver(exe, cp, os.path.join(d, "trace.ndjson"), timeout=300):
        o = e.get("out", [])
        if e.get("op") == "ep2_write_bin" and e.get("err") == 0 and len(o) == 4 * cv.fb + 1 and o[0] == 4:
            v = [int.from_bytes(bytes(o[1 + i * cv.fb:1 + (i + 1) * cv.fb]), "big") for i in range(4)]
            pts.append(((v[0], v[1]), (v[2], v[3])))
    return pf, pts


def probe_ed(cfg, wd, rng, quick):
    """the Edwards curve of the build (if any): parameters and a few valid points from the uncompressed writer"""
    bdir = core.build_relic(cfg)
    exe = core.cc_harness(cfg, DRV[0], DRV[1], bdir=bdir)
    d = os.path.join(wd, "probe-ed-" + cfg)
    os.makedirs(d, exist_ok=True)
    cp = os.path.join(d, "cases.txt")
    open(cp, "w").write("curve_probe ed\n")
    evs = [e for e in core.run_driver(exe, cp, os.path.join(d, "trace.ndjson"), timeout=120) if e.get("ok") == 1]
    if not evs:
        return None, []
    e0 = evs[0]
    p = gen_codec.from_le(e0["p"])
    rinv = pow(1 << (8 * e0["w"] * e0["fd"]), -1, p) if e0["mont"] == 1 else 1
    fb = e0["fb"]
    n = gen_codec.from_le(e0["n"]["d"])
    ed = dict(p=p, fb=fb, n=n, a=gen_codec.from_le(e0["ea"]) * rinv % p, d=gen_codec.from_le(e0["ed"]) * rinv % p)
    ks = [1, 2, 3, n - 1] + [rng.randrange(1, n) for _ in range(3 if quick else 12)]
    with open(cp, "w") as f:
        for k in ks:
            f.write("ed_write_bin ed m%x 0 %d\n" % (k, 2 * fb + 1))
    pts = []
    for e in core.run_driver(exe, cp, os.path.join(d, "trace2.ndjson"), timeout=300):
        o = e.get("out", [])
        if e.get("op") == "ed_write_bin" and e.get("err") == 0 and len(o) == 2 * fb + 1 and o[0] == 4:
            y = int.from_bytes(bytes(o[1:1 + fb]), "big")
            x = int.from_bytes(bytes(o[1 + fb:]), "big")
            pts.append((x, y))
    return ed, pts


def MC_RUNS(quick):
    runs = [("MCCodec", "MCCodec", "F_251, y^2=x^3+x+60 (order 2*127): all byte strings of length <= 2 and all 3-byte "
             "strings with first byte in {0,2,3,4,5,255} through every decoder; all integers |v| <= 1023 x radix 2..64; "
             "all field elements and points through the encoders", False),
            ("MCCodec", "MCCodec_p13", "F_13, y^2=x^3+x (point (0,0) of order two), same invariants", False),
            ("MCCodec2", "MCCodec2", "G2 format: F_49 = F_7[i]/(i^2+1), y^2=x^3+1+i, all strings of length <= 5 over "
             "bytes {0..7,255} with first byte in {0,2,3,4,5,255}", False)]
    if not quick:
        runs += [("MCCodec", "MCCodec_full", "F_251: ALL 16.8 M byte strings of length <= 3", False),
                 ("MCCodec", "MCCodec_text", "F_251: all strings of length <= 2 as numerals in every radix", False),
                 ("MCCodec", "MCCodec_p241", "F_241 (p = 1 mod 16: Tonelli-Shanks loop), y^2=x^3+x+21", False),
                 ("MCCodec2", "MCCodec2_p11", "G2 format: F_121 = F_11[i]/(i^2+1), y^2=x^3+2+i", False),
                 ("MCCodec2", "MCCodec2_p13", "G2 format: F_169 = F_13[i]/(i^2+2), y^2=x^3+x+3i", False)]
    return runs


def run(tier, seed):
    ev = core.Evidence("C07", tier, seed)
    wd = core.workdir("C07", tier)
    rng = random.Random(seed)
    quick = tier == "quick"
    ev.cov["trusted_base"] = core.TRUSTED
    ev.cov["rule"] = ("per type (bn bin/raw/text, fp bin/text, fp2/fp12 uncompressed, ep and ep2 compressed/uncompressed, ep_pck/upk): "
                      "valid values incl. zero/identity/maximal, every buffer length around the advertised size, byte strings of "
                      "every length 0..L+2, every tag byte on a valid body, single-byte replacements 00/FF/^01, coordinates "
                      "p, p+1, 2^(8L)-1, abscissae without a point, negated/wrong ordinates, leading/trailing garbage, all "
                      "radices 2..64 (+ invalid) with negative/zero/maximal values; tiny world F_251: all strings of length "
                      "<= 1 (quick) / <= 2 and all 04xy (thorough) plus seeded samples of 3-byte strings; an event is "
                      "non-trivial when the input string / output buffer is non-empty; distinct by full event")
    # 1. design level (in the background: it only needs cores)
    mc_err = []

    def models():
        try:
            core.run_models(ev, MC_RUNS(quick), parallel=2)
        except Exception as ex:           # re-raised below
            mc_err.append(ex)
    th = threading.Thread(target=models)
    th.start()
    conf = core.Conformance("C07", ev, wd)
    # 2. B1: tiny world, a field element is one byte
    tp = probe("w8p8", wd, [gen_codec.tiny_spec(gen_codec.TINY251)])
    if not tp:
        raise core.InfraError("tiny world F_251 could not be installed in w8p8")
    bd, bc = tp[0].digs, tp[0].cap
    t251 = gen_codec.tiny_curve(gen_codec.TINY251, bd)
    cases = gen_codec.gen_tiny_strings(t251, rng, tier)
    cases += gen_codec.gen_tiny_text(rng, tier)
    cases += gen_codec.gen_bn(1, bd, bc, rng, tier)
    cases += gen_codec.gen_fp(t251, rng, tier)
    cases += gen_codec.gen_ep(t251, rng, tier)
    t241 = gen_codec.tiny_curve(gen_codec.TINY241, bd)
    cases += gen_codec.gen_ep(t241, rng, tier)
    cases += gen_codec.gen_fp(t241, rng, tier, text=False)
    conf.run("w8p8", "w8p8", DRV[0], DRV[1], cases, SPEC, nontrivial=nontrivial, min_per_shard=500)
    # 3. B2: the shipped configuration, every selectable prime curve
    curves = probe("std256", wd)
    ev.cov["curves"] = {"std256": [c.spec for c in curves]}
    if not curves:
        raise core.InfraError("no selectable prime curve in std256")
    cases = gen_codec.gen_bn(curves[0].w, curves[0].digs, curves[0].cap, rng, tier)
    for j, cv in enumerate(curves):
        cases += gen_codec.gen_fp(cv, rng, tier, text=(j == 0 or not quick))
        if cv.pp and (cv.pairf or j == 0):
            cases += gen_codec.gen_fpx(cv, rng, tier)
            cases += gen_codec.gen_fp2_packed(cv, rng, tier)
        cases += gen_codec.gen_ep(cv, rng, tier)
    pf, pts2 = probe_pf("std256", wd, rng, quick)
    if pf and pts2:
        cases += gen_codec.gen_ep2(pf, pts2, rng, tier)
    conf.run("std256", "std256", DRV[0], DRV[1], cases, SPEC, nontrivial=nontrivial, min_per_shard=300)
    # 4. thorough: other field sizes
    if not quick:
        for cfg in ("b12-381", "ed255"):
            cs = probe(cfg, wd)
            ev.cov["curves"][cfg] = [c.spec for c in cs]
            cases = []
            for j, cv in enumerate(cs):
                cases += gen_codec.gen_fp(cv, rng, tier, text=(j == 0))
                if cv.pp and cv.pairf:
                    cases += gen_codec.gen_fpx(cv, rng, tier)
                    cases += gen_codec.gen_fp2_packed(cv, rng, tier)
                cases += gen_codec.gen_ep(cv, rng, tier)
            pf, pts2 = probe_pf(cfg, wd, rng, quick)
            if pf and pts2:
                cases += gen_codec.gen_ep2(pf, pts2, rng, tier)
            ed, ptse = probe_ed(cfg, wd, rng, quick)
            if ed and ptse:
                cases += gen_codec.gen_ed(ed, ptse, rng, tier)
            if cases:
                conf.run(cfg, cfg, DRV[0], DRV[1], cases, SPEC, nontrivial=nontrivial, min_per_shard=300)
    th.join()
    if mc_err:
        raise mc_err[0]
    ev.cov["exhaustive"] = False
    return conf.finish()


def replay(path, seed):
    return core.replay_generic(path)
