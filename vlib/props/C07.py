"""C07 - decoding validates untrusted bytes; encoding is canonical and round-trips
(DESIGN.md section 4, C07).  Spec: model/Codec (+ MCCodec exhaustive check), binding:
harness/drv_codec.c -> trace/CodecTrace (model/CodecSpec).
Second part (binary fields and binary curves):
model/CodecB (+ MCCodecB), harness/drv_codec2.c -> trace/Codec2Trace (model/Codec2Spec)."""
import os
import random
import threading

from vlib import core, gen_codec

DRV = ("codec", ["drv_codec.c"])
SPEC = "trace/CodecTrace.tla"
# second part (binary fields and binary curves): harness/drv_codec2.c -> trace/Codec2Trace (model/Codec2Spec, model/CodecB)
DRV2 = ("codec2", ["drv_codec2.c"])
SPEC2 = "trace/Codec2Trace.tla"
READS2 = ("fb_read_bin", "fb_read_str", "eb_read_bin")
# curve identifiers eb_param_set accepts in the pinned build (include/relic_eb.h: NIST_B283 = 8, NIST_K283 = 9)
EXPECTED_EB = {"std256": ["E8", "E9"]}
READS = ("bn_read_bin", "bn_read_raw", "bn_read_str", "fp_read_bin", "fp_read_str", "fp2_read_bin",
         "fp12_read_bin", "ep_read_bin", "ep_upk", "ep2_read_bin", "ed_read_bin")


def nontrivial(e):
    """a decode of a non-empty string, or an encode of a non-zero object into a non-empty buffer"""
    op = e.get("op", "")
    if op in READS:
        return len(e.get("in", [1])) > 0
    if op in ("curve_probe", "restart", "BADCURVE"):
        return False
    return e.get("len", 1) > 0


def probe(cfg, wd, specs=None):
    """which curves does ep_param_set accept in this build, and their parameters (input discovery)"""
    bdir = core.build_relic(cfg)
    exe = core.cc_harness(cfg, DRV[0], DRV[1], bdir=bdir)
    d = os.path.join(wd, "probe-" + cfg + ("-" + specs[0][:2] if specs else ""))
    os.makedirs(d, exist_ok=True)
    cp = os.path.join(d, "cases.txt")
    with open(cp, "w") as f:
        for sp in (specs or ["id%d" % i for i in range(1, 64)]):
            f.write("curve_probe %s\n" % sp)
    evs = core.run_driver(exe, cp, os.path.join(d, "trace.ndjson"), timeout=300)
    return [gen_codec.curve_from_probe(e) for e in evs if e.get("op") == "curve_probe" and e.get("ok") == 1]


def probe_pf(cfg, wd, rng, quick):
    """the pairing-friendly curve of the build with its twist: parameters and a few valid G2 points
    (taken from the library's uncompressed writer; they are inputs, the spec judges them again)"""
    cs = probe(cfg, wd, ["pf"])
    if not cs:
        return None, []
    bdir = core.build_relic(cfg)
    exe = core.cc_harness(cfg, DRV[0], DRV[1], bdir=bdir)
    d = os.path.join(wd, "probe2-" + cfg)
    os.makedirs(d, exist_ok=True)
    evs = core.read_ndjson(os.path.join(wd, "probe-" + cfg + "-pf", "trace.ndjson"))
    e0 = [e for e in evs if e.get("op") == "curve_probe" and e.get("ok") == 1][0]
    cv = cs[0]
    rinv = pow(1 << (8 * e0["w"] * e0["fd"]), -1, cv.p) if e0["mont"] == 1 else 1
    b2 = tuple(gen_codec.from_le(r) * rinv % cv.p for r in e0["b2"])
    pf = dict(p=cv.p, fb=cv.fb, qnr=e0["qnr"], b2=b2, n=cv.n)
    ks = [1, 2, 3, cv.n - 1] + [rng.randrange(1, cv.n) for _ in range(3 if quick else 12)]
    cp = os.path.join(d, "cases.txt")
    with open(cp, "w") as f:
        for k in ks:
            f.write("ep2_write_bin pf m%x 0 %d\n" % (k, 4 * cv.fb + 1))
    pts = []
    for e in core.run_driver(exe, cp, os.path.join(d, "trace.ndjson"), timeout=300):
        o = e.get("out", [])
        if e.get("op") == "ep2_write_bin" and e.get("err") == 0 and len(o) == 4 * cv.fb + 1 and o[0] == 4:
            v = [int.from_bytes(bytes(o[1 + i * cv.fb:1 + (i + 1) * cv.fb]), "big") for i in range(4)]
            pts.append(((v[0], v[1]), (v[2], v[3])))
    return pf, pts


def probe_ed(cfg, wd, rng, quick):
    """the Edwards curve of the build (if any): parameters and a few valid points from the uncompressed writer"""
    bdir = core.build_relic(cfg)
    exe = core.cc_harness(cfg, DRV[0], DRV[1], bdir=bdir)
    d = os.path.join(wd, "probe-ed-" + cfg)
    os.makedirs(d, exist_ok=True)
    cp = os.path.join(d, "cases.txt")
    open(cp, "w").write("curve_probe ed\n")
    evs = [e for e in core.run_driver(exe, cp, os.path.join(d, "trace.ndjson"), timeout=120) if e.get("ok") == 1]
    if not evs:
        return None, []
    e0 = evs[0]
    p = gen_codec.from_le(e0["p"])
    rinv = pow(1 << (8 * e0["w"] * e0["fd"]), -1, p) if e0["mont"] == 1 else 1
    fb = e0["fb"]
    n = gen_codec.from_le(e0["n"]["d"])
    ed = dict(p=p, fb=fb, n=n, a=gen_codec.from_le(e0["ea"]) * rinv % p, d=gen_codec.from_le(e0["ed"]) * rinv % p)
    ks = [1, 2, 3, n - 1] + [rng.randrange(1, n) for _ in range(3 if quick else 12)]
    with open(cp, "w") as f:
        for k in ks:
            f.write("ed_write_bin ed m%x 0 %d\n" % (k, 2 * fb + 1))
    pts = []
    for e in core.run_driver(exe, cp, os.path.join(d, "trace2.ndjson"), timeout=300):
        o = e.get("out", [])
        if e.get("op") == "ed_write_bin" and e.get("err") == 0 and len(o) == 2 * fb + 1 and o[0] == 4:
            y = int.from_bytes(bytes(o[1:1 + fb]), "big")
            x = int.from_bytes(bytes(o[1 + fb:]), "big")
            pts.append((x, y))
    return ed, pts


def nontrivial2(e):
    op = e.get("op", "")
    if op in READS2:
        return len(e.get("in", [1])) > 0
    if op in ("curve_probe", "restart", "BADSEL"):
        return False
    if op in ("eb_pck", "eb_upk", "eb_size_bin", "fb_size_str"):
        return True
    return e.get("len", 1) > 0


def probe2(cfg, wd, sels):
    """which binary curves / fields this build selects, and their parameters (input discovery)"""
    from vlib import gen_codec2
    bdir = core.build_relic(cfg)
    exe = core.cc_harness(cfg, DRV2[0], DRV2[1], bdir=bdir)
    d = os.path.join(wd, "probe2b-" + cfg)
    os.makedirs(d, exist_ok=True)
    cp = os.path.join(d, "cases.txt")
    with open(cp, "w") as f:
        f.write("\n".join(gen_codec2.probe_cases(sels)) + "\n")
    evs = core.run_driver(exe, cp, os.path.join(d, "trace.ndjson"), timeout=300)
    return [e for e in evs if e.get("op") == "curve_probe" and e.get("ok") == 1]


def MC_RUNS2(quick):
    runs = [("MCCodecB", "MCCodecB", "binary format: every curve y^2+xy=x^3+ax^2+b over GF(8), GF(16): trace criterion, packed "
             "bit, encode/decode round trips, all strings of length <= 1 and tag x bytes below 2^(m+1) (+128, 255) of "
             "length 2, 3: accepted = canonical; field elements binary and text in every power-of-two radix", False)]
    if not quick:
        runs += [("MCCodecB", "MCCodecB_m5", "GF(8) (second polynomial), GF(32) (two polynomials): a in 0..7 (both trace classes), every b (552 curves)", False)]
    return runs


def part2(conf, ev, wd, rng, tier):
    """binary fields and binary curves (fb_*, eb_*): the pinned build GF(2^283) with NIST-B283 and NIST-K283, and the
    tiny world GF(2^17) of C16"""
    from vlib import gen_codec2 as g2
    quick = tier == "quick"
    ev.cov["rule_part2"] = (
        "binary fields / curves: field elements (C16 corner set + seeded random) through fb_write_bin (lengths 0, 1, fb-1, fb, "
        "fb+1, 2fb), fb_read_bin (every length 0..fb+2, every single coefficient at or above x^m, a+f, all ones), text in "
        "every radix 2,4,..,64 (size, buffer size-1/size/size+1, read back; no terminator, lower case, leading zeros, sign, "
        "foreign characters, degree m-1 / m / longer than the integer precision) and 24 invalid radices; points {O, (0,sqrt b), "
        "+-G, 2G..5G, -2G, G+T, first points over 1, x^(m-1)+5, 2^m-40, random +-} x {affine, retagged, Lopez-Dahab z in {2,3,"
        "all-ones,x^(m-1),random}, lambda form} x pack 0/1 x buffer 0,1,size-1,size,size+1; eb_pck/eb_upk in and out of place; "
        "strings: both tags over x, 04xy, opposite, wrong, swapped ordinate, every tag byte on bodies of length 1, fb+1, 2fb+1, "
        "every length 0..2fb+3 x 5 tags, single-byte replacements 00/FF/^01, leading/trailing bytes, hybrid tags, unreduced "
        "coordinates (single high bits, x+f, y+f), abscissae without a point, x = 0 with both bits; tiny world GF(2^17): all "
        "1-byte strings, dense samples of compressed / uncompressed / random strings, abscissae (thorough: every one), points")
    # the shipped configuration: both binary curves
    pr = probe2("std256", wd, ["E%d" % i for i in range(1, 40)])
    got = [e["sel"] for e in pr if e.get("curve") == 1]
    ev.cov.setdefault("curves", {})["std256-eb"] = got
    cases = []
    for sel in EXPECTED_EB["std256"]:
        if sel not in got:
            cases.append("eb_size_bin %s inf 0" % sel)       # BADSEL: a curve of the pinned build can no longer be selected
    for j, e in enumerate(x for x in pr if x.get("curve") == 1):
        cv = g2.curve_from_probe(e)
        cases += g2.gen_eb(cv, rng, tier)
        cases += g2.gen_fb(cv.F, e["digs"], rng, tier, budget=1.0 if j == 0 else 0.5)
    conf.run("std256-eb", "std256", DRV2[0], DRV2[1], cases, SPEC2, nontrivial=nontrivial2, min_per_shard=150, heap="2g")
    # the tiny world GF(2^17), 8-bit digits
    csel, psel = g2.tiny_sels()
    pr = probe2("w8p8", wd, csel + psel)
    if len(pr) < len(csel) + len(psel):
        raise core.InfraError("tiny world GF(2^17): %d of %d selections accepted" % (len(pr), len(csel) + len(psel)))
    cases = []
    for e in pr:
        if e.get("curve") == 1:
            cv = g2.curve_from_probe(e)
            cases += g2.gen_eb(cv, rng, tier)
            cases += g2.gen_tiny_eb(cv, rng, tier)
        else:
            F = g2.field_from_probe(e)
            k = psel.index(e["sel"])
            if quick and k not in (0, 4):
                continue
            cases += g2.gen_fb(F, e["digs"], rng, tier, budget=1.0 if k == 0 else 0.5)
            cases += g2.gen_tiny_fb(F, rng, tier)
    conf.run("w8p8-eb", "w8p8", DRV2[0], DRV2[1], cases, SPEC2, nontrivial=nontrivial2, min_per_shard=400, heap="2g")


# third part (extension-field and target-group element codecs): harness/drv_codec3.c -> trace/Codec3Trace
# (model/Codec3Spec, model/CodecX + MCCodecX); gated: C07_EXT=1
DRV3 = ("codec3", ["drv_codec3.c"])
SPEC3 = "trace/Codec3Trace.tla"
# (build, selector, levels with the full set, levels with packed forms driven)
EXT_SETS = {"quick": [("std256", "EBN_P256", [3, 4, 6, 8, 9, 12, 16, 18, 24, 48, 54], [12, 18, 24], 8)],
            "thorough": [("std256", "EBN_P256", [3, 4, 6, 8, 9, 12, 16, 18, 24, 48, 54], [12, 18, 24, 48], 8),
                         ("std256", "ESM9_P256", [3, 4, 6, 8, 9, 12, 16, 18, 24], [12, 18, 24], 8)]}


def nontrivial3(e):
    op = e.get("op", "")
    if op in ("read_bin", "gt_read_bin"):
        return len(e.get("in", [])) > 0
    if op in ("write_bin", "gt_write_bin"):
        return e.get("len", 0) > 0
    return op in ("size_bin", "gt_size_bin", "pck", "upk")


def MC_RUNS3(quick):
    return [("MCCodecX", "MCCodecX", "format of extension-field / target-group elements in F_7^12 (u^2 = -1, xi = 2 + u, one byte per "
             "coefficient): EVERY element of the cyclotomic subgroup (Phi_12(7) = 2353): packed and full round trips, advertised "
             "lengths, Karabina's completion from the four kept coefficients, g2 = g3 = 0 only for 1; 9072 packed strings over "
             "bytes {0,1,3,6,7,255}: accepted => cyclotomic and canonical; a lattice of arbitrary elements: full form only, "
             "wrong lengths refused", False)] + ([] if quick else [
            ("MCCodecX", "MCCodecX_full", "the same with packed strings over bytes {0,1,2,3,5,6,7,255} (53 k strings)", False)])


def _first_pass(cfg, wd, label, lines):
    """elements of the cyclotomic subgroup / of G_T prepared by the library (input material only)"""
    exe = core.cc_harness(cfg, DRV3[0], DRV3[1], bdir=core.build_relic(cfg))
    d = os.path.join(wd, "probe3-" + label)
    os.makedirs(d, exist_ok=True)
    cp = os.path.join(d, "cases.txt")
    with open(cp, "w") as f:
        f.write("\n".join(lines) + "\n")
    return core.run_driver(exe, cp, os.path.join(d, "trace.ndjson"), timeout=600)


def ext(conf, ev, wd, rng, tier):
    """C07_EXT=1: the design-level model of the packed format (in the background) and the conformance part"""
    err = []

    def models():
        try:
            core.run_models(ev, MC_RUNS3(tier == "quick"), parallel=2)
        except Exception as ex:           # re-raised below
            err.append(ex)
    t3 = threading.Thread(target=models)
    t3.start()
    try:
        part3(conf, ev, wd, rng, tier)
    finally:
        t3.join()
    if err:
        raise err[0]


def part3(conf, ev, wd, rng, tier):
    """extension-field elements fp3 .. fp54 and target-group elements (gt_* = the dodecic tower): size / write / read,
    full and packed (cyclotomic) forms, fp12_pck / fp12_upk"""
    from vlib import gen_codec3 as g3
    quick = tier == "quick"
    ev.cov["rule_part3"] = (
        "extension fields / G_T: per level N in 3,4,6,8,9,12,16,18,24,48,54 of the pairing tower: values {0, 1, p-1 everywhere, "
        "one non-zero coefficient in every position (sampled above degree 12), seeded random} through fpN_size_bin, fpN_write_bin "
        "(pack 0/1; buffer 0, 1, size-1, size, size+1, 2 size, the other format's length +-1) and fpN_read_bin (valid; every length "
        "0..12fb+2 at degree 12 (quick: bands), length classes elsewhere; p, p+1, 2^(8fb)-1 in every coefficient position; ff..ff); "
        "levels 12, 18, 24, 48 and gt_*: elements of the cyclotomic subgroup / e(g1,g2)^k (k = 0, 1, 2, random) prepared by the "
        "library: sizes and writers in both formats and all buffer classes, packed strings read back; every packed coefficient +1 "
        "(not cyclotomic), = p; g2 / g3 / other blocks zeroed, blocks rotated, truncated / extended / shifted strings, random "
        "reduced packed strings, all zero (the unit element), ff..ff; pack = 1 on elements outside the subgroup; fp12_pck / fp12_upk "
        "out of place and in place on cyclotomic, packed, damaged packed, arbitrary elements")
    for (cfg, sel, lvls, plv, ncyc) in EXT_SETS[tier]:
        hd = _first_pass(cfg, wd, sel, ["%s size 3 0 1,2,3" % sel])
        if not hd or hd[0].get("err") != 0:
            raise core.InfraError("selection %s failed in %s" % (sel, cfg))
        p, fb = gen_codec.from_le(hd[0]["p"]), hd[0]["fb"]
        g = g3.G(sel, p, fb, rng)
        nc = ncyc if not quick else 2
        probe = []
        for n in plv:
            probe += g3.cyc_probe_cases(g, n, nc if n <= 24 else 2)
        probe += g3.cyc_probe_cases(g, 12, 6 if quick else 14, gt=True)
        pe = [e for e in _first_pass(cfg, wd, sel + "-cyc", probe)]
        if len(pe) != len(probe) or any(e.get("err") != 0 for e in pe):
            raise core.InfraError("first pass (cyclotomic elements) failed for %s" % sel)
        cyc = {}
        for ln, e in zip(probe, pe):
            key = (e["lvl"], " G:" in ln)
            cyc.setdefault(key, []).append(g3.coefs_of(e["out"], fb))
        for n in lvls:
            g3.gen_plain(g, n, tier, scale=1.0 if n <= 12 else 0.4)
        for n in plv:
            g3.gen_packed(g, n, cyc[(n, False)], tier, scale=1.0 if n == 12 else 0.3)
        g3.gen_packed(g, 12, cyc[(12, True)], tier, gt=True)
        cases = g.L
        rng.shuffle(cases)
        conf.run("%s-fpx-%s" % (cfg, sel[1:]), cfg, DRV3[0], DRV3[1], cases, SPEC3, nontrivial=nontrivial3,
                 min_per_shard=40, heap="2g", tlc_timeout=2400)
    # The 8-bit tiny worlds (one byte per coefficient) are NOT driven: with RLC_FP_BYTES = 1 the two lengths of fp2_read_bin
    # (2 * fb full, fb + 1 packed) coincide, so every codec built on fp2 is ambiguous there by construction (model/Codec says
    # so for the fp2 packed form); the tiny tower is covered by the design-level model MCCodecX instead.


def MC_RUNS(quick):
    runs = [("MCCodec", "MCCodec", "F_251, y^2=x^3+x+60 (order 2*127): all byte strings of length <= 2 and all 3-byte "
             "strings with first byte in {0,2,3,4,5,255} through every decoder; all integers |v| <= 1023 x radix 2..64; "
             "all field elements and points through the encoders", False),
            ("MCCodec", "MCCodec_p13", "F_13, y^2=x^3+x (point (0,0) of order two), same invariants", False),
            ("MCCodec2", "MCCodec2", "G2 format: F_49 = F_7[i]/(i^2+1), y^2=x^3+1+i, all strings of length <= 5 over "
             "bytes {0..7,255} with first byte in {0,2,3,4,5,255}", False)]
    if not quick:
        runs += [("MCCodec", "MCCodec_full", "F_251: ALL 16.8 M byte strings of length <= 3", False),
                 ("MCCodec", "MCCodec_text", "F_251: all strings of length <= 2 as numerals in every radix", False),
                 ("MCCodec", "MCCodec_p241", "F_241 (p = 1 mod 16: Tonelli-Shanks loop), y^2=x^3+x+21", False),
                 ("MCCodec2", "MCCodec2_p11", "G2 format: F_121 = F_11[i]/(i^2+1), y^2=x^3+2+i", False),
                 ("MCCodec2", "MCCodec2_p13", "G2 format: F_169 = F_13[i]/(i^2+2), y^2=x^3+x+3i", False)]
    return runs


def run(tier, seed):
    ev = core.Evidence("C07", tier, seed)
    wd = core.workdir("C07", tier)
    rng = random.Random(seed)
    quick = tier == "quick"
    # second part (binary fields / curves): gated until it passes on the unchanged tree
    part2_on = os.environ.get("C07_PART2") != "0"                      # (C07_PART2=0: the first part only - a debugging aid)
    only2 = part2_on and os.environ.get("C07_PART2_ONLY") == "1"      # debugging aid: the second part alone
    ev.cov["trusted_base"] = core.TRUSTED
    if only2:
        ev.cov["trusted_base"] = core.TRUSTED + ["GF2m.java evaluation accelerator (cross-checked by C16)"]
        core.run_models(ev, MC_RUNS2(quick), parallel=2)
        conf = core.Conformance("C07", ev, wd)
        part2(conf, ev, wd, rng, tier)
        return conf.finish()
    ev.cov["rule"] = ("per type (bn bin/raw/text, fp bin/text, fp2/fp12 uncompressed, ep and ep2 compressed/uncompressed, ep_pck/upk): "
                      "valid values incl. zero/identity/maximal, every buffer length around the advertised size, byte strings of "
                      "every length 0..L+2, every tag byte on a valid body, single-byte replacements 00/FF/^01, coordinates "
                      "p, p+1, 2^(8L)-1, abscissae without a point, negated/wrong ordinates, leading/trailing garbage, all "
                      "radices 2..64 (+ invalid) with negative/zero/maximal values; tiny world F_251: all strings of length "
                      "<= 1 (quick) / <= 2 and all 04xy (thorough) plus seeded samples of 3-byte strings; an event is "
                      "non-trivial when the input string / output buffer is non-empty; distinct by full event")
    # 1. design level (in the background: it only needs cores)
    mc_err = []

    def models():
        try:
            core.run_models(ev, MC_RUNS(quick) + (MC_RUNS2(quick) if part2_on else []), parallel=2)
        except Exception as ex:           # re-raised below
            mc_err.append(ex)
    th = threading.Thread(target=models)
    th.start()
    conf = core.Conformance("C07", ev, wd)
    # 2. B1: tiny world, a field element is one byte
    tp = probe("w8p8", wd, [gen_codec.tiny_spec(gen_codec.TINY251)])
    if not tp:
        raise core.InfraError("tiny world F_251 could not be installed in w8p8")
    bd, bc = tp[0].digs, tp[0].cap
    t251 = gen_codec.tiny_curve(gen_codec.TINY251, bd)
    cases = gen_codec.gen_tiny_strings(t251, rng, tier)
    cases += gen_codec.gen_tiny_text(rng, tier)
    cases += gen_codec.gen_bn(1, bd, bc, rng, tier)
    cases += gen_codec.gen_fp(t251, rng, tier)
    cases += gen_codec.gen_ep(t251, rng, tier)
    t241 = gen_codec.tiny_curve(gen_codec.TINY241, bd)
    cases += gen_codec.gen_ep(t241, rng, tier)
    cases += gen_codec.gen_fp(t241, rng, tier, text=False)
    conf.run("w8p8", "w8p8", DRV[0], DRV[1], cases, SPEC, nontrivial=nontrivial, min_per_shard=500)
    # 3. B2: the shipped configuration, every selectable prime curve
    curves = probe("std256", wd)
    ev.cov["curves"] = {"std256": [c.spec for c in curves]}
    if not curves:
        raise core.InfraError("no selectable prime curve in std256")
    cases = gen_codec.gen_bn(curves[0].w, curves[0].digs, curves[0].cap, rng, tier)
    for j, cv in enumerate(curves):
        cases += gen_codec.gen_fp(cv, rng, tier, text=(j == 0 or not quick))
        if cv.pp and (cv.pairf or j == 0):
            cases += gen_codec.gen_fpx(cv, rng, tier)
            cases += gen_codec.gen_fp2_packed(cv, rng, tier)
        cases += gen_codec.gen_ep(cv, rng, tier)
    pf, pts2 = probe_pf("std256", wd, rng, quick)
    if pf and pts2:
        cases += gen_codec.gen_ep2(pf, pts2, rng, tier)
    conf.run("std256", "std256", DRV[0], DRV[1], cases, SPEC, nontrivial=nontrivial, min_per_shard=300)
    # 4. thorough: other field sizes
    if not quick:
        for cfg in ("b12-381", "ed255"):
            cs = probe(cfg, wd)
            ev.cov["curves"][cfg] = [c.spec for c in cs]
            cases = []
            for j, cv in enumerate(cs):
                cases += gen_codec.gen_fp(cv, rng, tier, text=(j == 0))
                if cv.pp and cv.pairf:
                    cases += gen_codec.gen_fpx(cv, rng, tier)
                    cases += gen_codec.gen_fp2_packed(cv, rng, tier)
                cases += gen_codec.gen_ep(cv, rng, tier)
            pf, pts2 = probe_pf(cfg, wd, rng, quick)
            if pf and pts2:
                cases += gen_codec.gen_ep2(pf, pts2, rng, tier)
            ed, ptse = probe_ed(cfg, wd, rng, quick)
            if ed and ptse:
                cases += gen_codec.gen_ed(ed, ptse, rng, tier)
            if cases:
                conf.run(cfg, cfg, DRV[0], DRV[1], cases, SPEC, nontrivial=nontrivial, min_per_shard=300)
    if part2_on:
        ev.cov["trusted_base"] = core.TRUSTED + ["GF2m.java evaluation accelerator (cross-checked by C16)"]
        part2(conf, ev, wd, rng, tier)
    # third part (extension-field / target-group element codecs): gated until the lead turns it on
    if os.environ.get("C07_EXT") != "0":
        ext(conf, ev, wd, rng, tier)
    th.join()
    if mc_err:
        raise mc_err[0]
    ev.cov["exhaustive"] = False
    return conf.finish()


def replay(path, seed):
    return core.replay_generic(path)
