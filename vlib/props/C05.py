"""C05 - signature schemes are complete and sound, including encoding checks (DESIGN.md section 4, C05)."""
import collections
import os
import random
import subprocess

from vlib import core, gen_sig, gen_sig2

SPEC = "trace/SigTrace.tla"
WRAPS = ["ep_map_sswum"]
VER_OPS = ("ecdsa_ver", "ecss_ver", "rsa_ver", "bls_ver", "bbs_ver", "zss_ver")
# second conformance part: the schemes driven by harness/drv_sig2.c and judged by tla/model/Sig2Spec.tla
SPEC2 = "trace/Sig2Trace.tla"
WRAPS2 = ["ep_map_sswum", "bn_rand_mod"]
VER_OPS2 = ("pokdl_ver", "pokor_ver", "sokdl_ver", "sokor_ver", "vbnn_ver", "ers_ver", "smlers_ver", "etrs_ver",
            "cls_ver", "cli_ver", "clb_ver", "pss_ver", "psb_ver", "mpss_ver", "mpsb_ver", "mklhs_ver", "cmlhs_ver")


def nontrivial(e):
    # non-trivial: a verification verdict on an honest or mutated triple (key generation / signing events
    # and skipped constructions do not count)
    return e.get("op") in VER_OPS


def nontrivial2(e):
    return e.get("op") in VER_OPS2


def curve_ids(cfg):
    """[(id, bits of the group order)] for every parameter id ep_param_set accepts in this build"""
    exe = core.cc_harness(cfg, "sig", ["drv_sig.c"], wraps=WRAPS)
    p = subprocess.run([exe, "--list"], stdout=subprocess.PIPE, stderr=subprocess.DEVNULL, text=True, timeout=120)
    res = []
    for ln in p.stdout.splitlines():
        f = ln.split()
        if len(f) == 2 and f[0].isdigit():
            res.append((int(f[0]), int(f[1])))
    if p.returncode != 0 or not res:
        raise core.InfraError("no curve accepted by ep_param_set in %s" % cfg)
    return res


def expect_violation(ev, mod, cfg, invariant, consts):
    """a model configuration that MUST fail (non-vacuity: the invariant detects the modelled defect)"""
    r = core.tlc("model/%s.tla" % mod, "model/%s.cfg" % cfg, workers=4, timeout=1200, extra=["-noGenerateSpecTE"])
    ev.add_mc(cfg, r, consts + " [expected counterexample: %s]" % invariant)
    rec = next(m for m in reversed(ev.cov["mc_runs"]) if m["spec"] == cfg)
    rec["expected_violation"] = invariant
    rec["ok"] = (r.invariant_violated == invariant)
    if r.invariant_violated != invariant:
        raise core.InfraError("model %s/%s: expected a counterexample to %s, got %r\n%s"
                              % (mod, cfg, invariant, r.invariant_violated, r.out[-2500:]))
    core.log("model %s: counterexample to %s found as expected (%d states, %.1fs)" % (cfg, invariant, r.distinct, r.wall))


def MC_RUNS(quick):
    runs = [("Sig", "Sig", "n in {7, 11, 13}: every key, nonce, digest, every (r, s) in -1..2n, every key object "
                           "(valid, identity, off-curve); guards as repaired (identity key rejected, key on curve, commitment "
                           "checked, s = 0 retried)", False),
            ("RsaPad", "RsaPad", "EMSA-PKCS1-v1_5 scanner as coded, k = 8 bytes, DigestInfo 30 02, 1-byte digest, "
                                 "minimum padding 2; every byte string over {00,01,02,30,FF} x every digest", False)]
    if not quick:
        runs += [("RsaPad", "RsaPad_k9", "k = 9 bytes, DigestInfo 30 00, minimum padding 3", False)]
    return runs


# configurations that MUST fail: (module, cfg, violated invariant, constants / what the counterexample is)
EXPECTED = [
    ("Sig", "Sig_ascoded", "EcdsaCodedIsDefinition",
     "guards exactly as coded in cp_ecdsa_ver: counterexample = identity public key, s = 1, r = x([z]G) mod n"),
    ("Sig", "Sig_ecss_ascoded", "EcssCodedIsDefinition",
     "guards exactly as coded in cp_ecss_ver (no key validation, no commitment check)"),
    ("Sig", "Sig_ecss_s0", "Complete",
     "cp_ecss_sig as coded does not retry s = 0 while cp_ecss_ver rejects s = 0 (probability 1/n per signature)"),
    ("RsaPad", "RsaPad_short", "AcceptsOnlyCanonical",
     "k = tLen + 10: the coded test counter >= 8 counts the separator, so a 7-byte padding string passes"),
    ("RsaPad", "RsaPad_basic", "AcceptsOnlyCanonical",
     "basic padding as coded: the payload length is not compared with the digest length"),
]


def _count(ev, label, events):
    c = collections.Counter((e.get("op"), e.get("ret")) for e in events if e.get("op") in VER_OPS + VER_OPS2)
    ev.cov.setdefault("verdicts", {})[label] = {"%s:%s" % k: v for k, v in sorted(c.items())}


def run(tier, seed):
    ev = core.Evidence("C05", tier, seed)
    wd = core.workdir("C05", tier)
    rng = random.Random(seed)
    quick = tier == "quick"
    ev.cov["trusted_base"] = core.TRUSTED + ["GNU ld --wrap interposition of ep_map_sswum (captures the hash-to-curve call of cp_bls_ver)"]
    ev.cov["rule"] = ("cases = per scheme and curve/key: one honest signature per message length class (0..200 bytes, every SHA-256 "
                      "padding class; both hash-then-sign and pre-hashed mode) + the mutation list of the quantifier applied to it "
                      "(single-bit flips of message, signature components and key coordinates - seeded subset in quick -, r+n, s+n, n-s, "
                      "n-r, 0, n, 1, negative, swapped, sig+N, zero-prefixed / shortened encodings, byte mutations and structural variants "
                      "of the ENCODED message re-signed with the private exponent, identity / off-curve / other-curve / foreign / negated "
                      "/ doubled keys, forged pairs for the identity key); every verdict is compared with the definition evaluated in TLA+; "
                      "non-trivial = verification events; distinct by full event")
    ev.cov["schemes"] = {
        "with_definitional_predicate": ["ECDSA (FIPS 186-4 6.4)", "EC-Schnorr (as coded + BSI TR-03111 validity clauses)",
                                        "RSA-PSS sLen=0 (RFC 8017 8.1.2/9.1.2)", "RSA PKCS#1 v1.5 (RFC 8017 8.2.2/9.2; thorough)",
                                        "RSA basic padding (re-encoding; thorough)", "BLS (ghost logarithm, G2 arithmetic over F_p^2 in the spec)",
                                        "Boneh-Boyen short signatures (cp_bbs, ghost logarithm)", "ZSS (cp_zss, ghost logarithm)"],
        "completeness_only": [],
        "not_covered": ["CL", "PS/mPS", "vBNN-IBS", "PoK/SoK", "ring signatures (ERS/SMLERS/ETRS)",
                        "homomorphic signatures (CMLHS/MKLHS)"]}
    ev.assumptions = ["pre-hashed RSA mode: the definition admits digests of exactly RLC_MD_LEN bytes (other lengths must be refused)",
                      "hash-to-curve output of cp_bls_ver is bound from the execution (input must equal the message); its correctness is C13",
                      "MD_MAP = SHA-256 (pinned); EC_CUR = PRIME",
                      "RSA moduli of 1024, 1023, 522 and 521 bits, PKCS#1 v1.5 also 488 bits (BN_PRECI = 1024 bounds the size in the pinned build)"]
    # 1. design level
    core.run_models(ev, MC_RUNS(quick))
    from concurrent.futures import ThreadPoolExecutor
    with ThreadPoolExecutor(max_workers=len(EXPECTED)) as ex:
        list(ex.map(lambda x: expect_violation(ev, *x), EXPECTED))
    # 2. conformance: one stateless trace per build, case lines shuffled so that the shards are balanced
    conf = core.Conformance("C05", ev, wd)
    ids = curve_ids("std256")
    ev.cov["curves"] = ["id%d(n:%d bits)" % c for c in ids]
    # (bits requested, key seed, brief): moduli of 1024, 1023, 521 and 522 bits (cp_rsa_gen multiplies two primes of bits/2 bits)
    keys = [(1024, "c0502", False), (1024, "c0526", True), (522, "01", True), (522, "04", True)]
    cases = (gen_sig.ec_cases(rng, "ecdsa", ids, tier) + gen_sig.ec_cases(rng, "ecss", ids, tier)
             + gen_sig.rsa_cases(rng, tier, "pss", keys) + gen_sig.bls_cases(rng, tier)
             + gen_sig.inv_cases(rng, tier, "bbs") + gen_sig.inv_cases(rng, tier, "zss"))
    rng.shuffle(cases)
    events, _ = conf.run("std256", "std256", "sig", ["drv_sig.c"], cases, SPEC, wraps=WRAPS, nontrivial=nontrivial,
                         min_per_shard=20, tlc_timeout=3000, driver_timeout=1800)
    _count(ev, "std256", events)
    if not quick:
        for cfg, pad in (("rsapd-pkcs1", "pkcs1"), ("rsapd-basic", "basic")):
            # PKCS#1 v1.5 additionally with k = tLen + 10 = 61 bytes: one byte too short for the standard's encoder
            cases = gen_sig.rsa_cases(rng, tier, pad, keys + ([(488, "07", True)] if pad == "pkcs1" else []))
            events, _ = conf.run(cfg, cfg, "sig", ["drv_sig.c"], cases, SPEC, wraps=WRAPS, nontrivial=nontrivial,
                                 min_per_shard=20, tlc_timeout=3000)
            _count(ev, cfg, events)
    # 3. second conformance part: PoK/SoK, vBNN-IBS, ring signatures, CL, PS, homomorphic signatures.
    # (C05_PART2=0 runs the first part only - a debugging aid)
    if os.environ.get("C05_PART2") == "0":
        return conf.finish()
    ev.cov["schemes"]["not_covered"] = []
    ev.cov["schemes"].update({
        "with_definitional_predicate_part2": [
            "PoK / SoK of a discrete logarithm and of one of two (cp_pokdl, cp_pokor, cp_sokdl, cp_sokor: Camenisch-Stadler, evaluated directly)",
            "vBNN-IBS (cp_vbnn, evaluated directly)",
            "extendable ring signatures (cp_ers; cp_smlers with the hash-to-curve point bound from the execution; cp_etrs with the "
            "interpolation in the exponent: ACCEPT only if at least t signed, ACCEPT if exactly t signed)",
            "Camenisch-Lysyanskaya A, B, C (cp_cls, cp_cli, cp_clb: ghost logarithms of the G2 keys)",
            "Pointcheval-Sanders single / block (cp_pss, cp_psb) and the two-party versions (cp_mpss, cp_mpsb: the output element of G_T "
            "is the unity iff the definition holds for the combined shares)",
            "multi-key homomorphic signatures (cp_mklhs: ghost logarithms of the keys, hash-to-curve points bound from the execution)",
            "context-hiding multi-key homomorphic signatures with BLS tags (cp_cmlhs: ghost logarithms of z_i, y_i, pk_i and of the "
            "combined S captured from the signer's random scalars; the G_T key elements are bound to their ghost exponents)"],
        "mutation_reject_only": [],
        "not_covered": ["cp_cmlhs with ECDSA tags (needs G2 = G1, not available on the pinned 256-bit pairing curve)",
                        "cp_cmlhs_onv / cp_mklhs_onv / *_off (offline-online variants of the two homomorphic verifiers)"]})
    ev.cov["rule"] += ("; part 2 (drv_sig2.c / Sig2Spec): per scheme one honest signature per message length class and shape (ring size, "
                       "block length, signers x labels, sign/extend/join plan) + per component the mutation list of the quantifier "
                       "(single-bit flips of message, of every integer component and of point coordinates, x + n, x - n, n - x, 0, n, 1, "
                       "-x, x + n 2^k, identity, negated, doubled, generator, off-curve and out-of-subgroup points, swapped / copied / "
                       "foreign components and keys, ring entries dropped, rotated, with a key replaced, other thresholds); every verdict is "
                       "compared with the definition evaluated in TLA+ after VERIFYING the ghost logarithms")
    ev.cov["trusted_base"].append("GNU ld --wrap interposition of bn_rand_mod (captures the random scalars of g2_rand / cp_cmlhs_sig: "
                                  "ghost logarithms, each VERIFIED by the spec against the logged group element)")
    ev.assumptions += ["part 2: the group order n of every curve is prime and G1 = E(F_p) has cofactor 1 on the pairing curve (cofactor checked per case)",
                       "part 2: hash-to-curve outputs of cp_smlers_ver / cp_mklhs_ver / cp_cmlhs_ver (inner BLS) are bound from the execution "
                       "(each call's input must be the expected string); correctness of the map is C13",
                       "part 2: the G_T elements hs[i][l] of a cp_cmlhs key are bound to the exponents x[i][l] returned by cp_cmlhs_gen "
                       "(pairing and G_T exponentiation are C09/C12)",
                       "part 2: messages that the scheme signs as elements of Z_n (CL, PS, homomorphic) are compared mod n; scalars that are "
                       "signature components must lie in [0, n)",
                       "part 2: an OR-proof / vBNN hash input whose point encodings are shorter than the buffer (identity points) is taken as zero padded"]
    cases2 = gen_sig2.all_cases(rng, ids, tier)
    rng.shuffle(cases2)
    events, _ = conf.run("std256-part2", "std256", "sig2", ["drv_sig2.c"], cases2, SPEC2, wraps=WRAPS2, nontrivial=nontrivial2,
                         min_per_shard=10, tlc_timeout=3000, driver_timeout=1800, heap="2g")
    _count(ev, "std256-part2", events)
    # the same verifiers once more with the AddressSanitizer build on the inputs that stress buffer sizing (identity points
    # have 1-byte encodings, empty strings, thresholds above the ring size, every shape of the homomorphic verifiers): an
    # abnormal end of a verification is an event of its own (or the crash field of a call that the driver runs in a child)
    if quick:
        return conf.finish()                 # (the sanitizer lane of these cases also runs under C08's thorough harvest)
    cases3 = gen_sig2.memory_cases(cases2)
    events, _ = conf.run("std256-asan-part2", "std256-asan", "sig2", ["drv_sig2.c"], cases3, SPEC2, wraps=WRAPS2, nontrivial=nontrivial2,
                         min_per_shard=10, tlc_timeout=3000, driver_timeout=1800, heap="2g", max_restarts=100)
    _count(ev, "std256-asan-part2", events)
    return conf.finish()


def replay(path, seed):
    return core.replay_generic(path)
