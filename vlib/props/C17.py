"""C17 - Edwards curves implement the twisted-Edwards group (DESIGN.md section 4, C17)."""
import collections
import os
import random

from vlib import core, gen_ed

SPEC = "trace/EdTrace.tla"
DRV = ["drv_ed.c"]
ED_METHD = {"projc": None, "extnd": "-DED_METHD=EXTND;LWNAF;COMBS;INTER", "basic": "-DED_METHD=BASIC;LWNAF;COMBS;INTER"}
TINY_WITH = "-DWITH=BN;DV;FP;MD;EP;FPX;EPX;PP;PC;EB;FB;EC;ED"
# Window parameters of the tiny worlds.  RLC_DEPTH = 4: with the default 5 and a 5-bit group order the comb tables hold
# [j]P for every j < 32, among them [n]P = O, which ed_norm_sim cannot normalise (C17-normsim-neutral) - impossible for a
# cryptographic order.  RLC_WIDTH = 5: ed_mul_lwreg's digit buffer reg[ceil((RLC_FP_BITS + 1) / (w - 1))] is one entry
# short of what bn_rec_reg writes whenever RLC_FP_BITS mod (w - 1) # 0 (true for 8 bits and w = 4, not for 255 bits).
TINY_WIN = ["-DRLC_DEPTH=4", "-DRLC_WIDTH=5"]


def nontrivial(e):
    """Non-trivial: a point other than the neutral element is involved and (for multiplications) a scalar other
    than 0, +-1; encodings longer than one byte."""
    if e.get("op") in ("curve_probe", "restart", "ed_set_infty"):
        return False
    pts = [e[k] for k in ("P", "Q", "R") if k in e] + list(e.get("ps", []))
    if pts and not any(any(p["x"]) for p in pts):
        return False
    if "bin" in e and "P" not in e and len(e["bin"]) <= 1:
        return False
    ks = [e[k] for k in ("k", "m") if k in e and e["op"] != "ed_param"] + list(e.get("ks", []))
    if ks and all(sum(k["d"]) <= 1 for k in ks):
        return False
    return True


def MC_RUNS(quick):
    runs = [("MCEdwards", "MCEdwards", "the definition (lib/Edwards) is an abelian group law on every complete twisted Edwards "
                                       "curve over F_5, F_7, F_11, F_13 (74 complete curves: all triples; 190 incomplete "
                                       "curves: the law is sound wherever defined), compression predicates", False),
            ("EdFormulas", "EdFormulas", "formula programs of relic_ed_add.c / relic_ed_dbl.c / relic_ed_neg.c / relic_ed_norm.c / "
                                         "relic_ed_cmp.c / ed_is_infty / ed_on_curve as coded (affine, projective, extended) vs the "
                                         "affine law: every complete curve over F_5, F_7, F_11, F_13, every ordered pair of points, "
                                         "Z1, Z2 in {1, 2, 3}; T Z = X Y on every extended output", False)]
    if not quick:
        runs += [("EdFormulas", "EdFormulas_p17", "every complete curve over F_17, Z1, Z2 in {1, 2, 3, 16}", False)]
    return runs


def build(kind, tiny=False):
    if tiny:
        args = [TINY_WITH] + TINY_WIN + ([ED_METHD[kind]] if ED_METHD[kind] else [])
        return "w8p8", core.build_relic("w8p8", extra_args=args, tag="w8p8-ed45-" + kind)
    if ED_METHD[kind] is None:
        return "ed255", core.build_relic("ed255")
    return "ed255", core.build_relic("ed255", extra_args=[ED_METHD[kind]], tag="ed255-" + kind)


def discover(cfg, bdir, wd):
    """Which curve identifiers does ed_param_set accept in this build? (input discovery)"""
    exe = core.cc_harness(cfg, "ed", DRV, bdir=bdir)
    d = os.path.join(wd, "probe-" + os.path.basename(bdir))
    os.makedirs(d, exist_ok=True)
    cp = os.path.join(d, "cases.txt")
    open(cp, "w").write("\n".join("curve_probe id%d" % i for i in range(1, 6)) + "\n")
    evs = core.run_driver(exe, cp, os.path.join(d, "trace.ndjson"), timeout=300)
    return [gen_ed.curve_from_probe(e) for e in evs if e.get("op") == "curve_probe" and e.get("ok") == 1]


def full_width(cv, rng, quick, scale=1.0, nlong=1):
    """(group-law / codec / map cases, multiplication cases) for one 255-bit build"""
    cv.find_torsion(rng)
    pool = gen_ed.point_pool(cv, rng, 1 if quick else 4)
    sub, tors, mixed, rnd = pool
    allp = sub + tors + mixed + rnd
    pairs = gen_ed.pair_set(cv, rng, pool, quick)
    g = gen_ed.witness_cases(cv, sub[1:])
    g += gen_ed.group_cases(cv, rng, pairs, per_pair=2 if quick else 5)
    g += gen_ed.unary_cases(cv, rng, allp + allp, per_point=3 if quick else 6)
    g += gen_ed.query_cases(cv, rng, pairs if not quick else rng.sample(pairs, 80), allp, 12 if quick else 60)
    g += gen_ed.norm_sim_cases(cv, rng, allp, 8 if quick else 40, nprobe=nlong)
    g += gen_ed.codec_cases(cv, rng, allp if not quick else rng.sample(allp, 10) + [(0, 1)], quick)
    g += gen_ed.map_cases(cv, rng, max(2, int((6 if quick else 40) * scale)))
    rng.shuffle(g)
    # ---- scalar multiplication: subgroup points only (the property claims [k]P there)
    corners = gen_ed.scalar_corners(cv, rng, nrand=3 if quick else 10, nlong=3 if quick else 8)
    m = mul_part(cv, rng, sub[1:], corners, per_op=max(4, int((9 if quick else 50) * scale)),
                 nsim=max(2, int((4 if quick else 25) * scale)), nlong=nlong, lots=(range(0, 5), 1 if quick else 3))
    return g, m


def mul_part(cv, rng, pts, corners, per_op, nsim, nlong, lots, dense=None, skip=()):
    """Multiplication cases.  No ed routine reduces the scalar modulo n and most recode it into fixed-size buffers or
    walk fixed-size tables (gen_ed.cap): every routine is exercised over its working range (`per_op` / `nsim` draws,
    or every scalar of `dense`), and probed with `nlong` scalars beyond it."""
    short = [k for k in corners if abs(k).bit_length() <= cv.n.bit_length()]

    def split(op):
        c = gen_ed.cap(cv, op)
        pool = dense if dense is not None else corners
        ok = [k for k in pool if abs(k).bit_length() <= c]
        bad = [k for k in corners if abs(k).bit_length() > c]
        if op == "ed_mul_lwreg" and cv.add == gen_ed.EXTND:
            bad += [k for k in ok if k % 2 == 0 and k != 0]     # even scalars: see C17-lwreg-extnd-even-t
            ok = [k for k in ok if k % 2 == 1 or k == 0]
        if op == "ed_mul_sim_trick":
            bad += [k for k in ok if abs(k) == 1]                # shorter than the window: see C17-simtrick-short-scalar
            ok = [k for k in ok if abs(k) != 1]
        return ok, bad

    def ks_for(op):
        ok, bad = split(op)
        sel = list(ok) if dense is not None else rng.sample(ok, min(per_op, len(ok)))
        nl = max(nlong, 1) if (op == "ed_mul_lwreg" and cv.add == gen_ed.EXTND) else nlong
        return sel + rng.sample(bad, min(nl, len(bad)))
    if cv.n < (1 << cv.wd):
        # ed_mul_slide normalises its table of odd multiples below 2^RLC_WIDTH with ed_norm_sim (under the ep module's
        # EP_MIXED): for a group order below 2^RLC_WIDTH (tiny worlds only) [n]P = O is a table entry and hits
        # C17-normsim-neutral
        skip = tuple(skip) + ("ed_mul_slide",)
    m = gen_ed.mul_cases(cv, rng, ks_for, pts,
                         ops=[op for op in gen_ed.MUL_VAR + gen_ed.MUL_FIX + ["ed_mul_gen", "ed_mul_dig"] if op not in skip])
    for op in [op for op in gen_ed.MUL_VAR if op not in skip]:          # the neutral element as the point operand
        m.append("%s %s 0 %s %s" % (op, cv.spec, rng.choice(["inf", "0,1", "0,1/P"]), gen_ed.hx(rng.choice(short))))

    def kp_for(op):
        ok, bad = split(op)
        sh = [k for k in ok if k in set(short)] or ok
        out = [(rng.choice(ok), rng.choice(ok)) for _ in range(nsim)]
        out += [(rng.choice(sh), rng.choice(sh)) for _ in range(nsim)]
        out += [(rng.choice(ok), 0), (0, rng.choice(ok))]
        if bad and nlong:
            out += [(rng.choice(bad), rng.choice(ok)), (rng.choice(ok), rng.choice(bad))][:nlong]
        if op == "ed_mul_sim_trick" and nlong:
            out += [(rng.choice([1, -1]), rng.choice(ok)), (rng.choice(ok), rng.choice([1, -1]))]
        return out
    m += gen_ed.sim_cases(cv, rng, kp_for, pts)
    m += gen_ed.lot_cases(cv, rng, short + [k for k in corners if abs(k).bit_length() <= 2 * cv.fpb + 8], pts, lots[0],
                          per_count=lots[1])           # no capacity limit: long scalars included
    rng.shuffle(m)
    return m


def tiny(cv, rng, quick, nlong=0):
    """near-exhaustive cases for a tiny world: every point of the curve (all cosets of the subgroup)"""
    pts = cv.points
    n = cv.n
    sub = [cv.mul(i, cv.g) for i in range(n)]
    pairs = [(P, Q) for P in pts for Q in pts]
    if quick:
        tors = [P for (P, o) in cv.tors]
        sel = [(S, T) for S in tors for T in tors]
        sel += [(P, P) for P in rng.sample(pts, 30)] + [(P, cv.neg(P)) for P in rng.sample(pts, 30)]
        sel += [(T, rng.choice(pts)) for T in tors] + [(rng.choice(pts), T) for T in tors]
        pairs = sel + rng.sample(pairs, 500)
    g = gen_ed.witness_cases(cv, sub[1:3])
    g += gen_ed.group_cases(cv, rng, pairs, per_pair=1 if not quick else 2)
    if not quick:
        g += gen_ed.group_cases(cv, rng, rng.sample(pairs, 6000), per_pair=None)
    g += gen_ed.unary_cases(cv, rng, pts if not quick else rng.sample(pts, 60) + [P for (P, o) in cv.tors],
                            per_point=2 if quick else 6)
    g += gen_ed.query_cases(cv, rng, rng.sample(pairs, 300 if quick else 6000), pts if not quick else rng.sample(pts, 50),
                            40 if quick else 400)
    g += gen_ed.norm_sim_cases(cv, rng, pts, 20 if quick else 400, nprobe=1 if nlong else 0)
    g += gen_ed.codec_cases(cv, rng, pts if not quick else rng.sample(pts, 25) + [P for (P, o) in cv.tors], quick)
    rng.shuffle(g)
    # ---- every k in [-2n, 3n], 2^j, 2^j +- 1 (up to the bignum precision for the unlimited routines) x every routine
    ks = list(range(-2 * n, 3 * n + 1))
    for j in range(1, cv.bnbits):
        ks += [v for v in ((1 << j) - 1, 1 << j, (1 << j) + 1, -((1 << j) + 1)) if abs(v).bit_length() <= cv.bnbits]
    ks = sorted(set(ks))
    m = mul_part(cv, rng, sub[1:], ks, per_op=40, nsim=40 if quick else 1200, nlong=nlong,
                 lots=(range(0, 6), 5 if quick else 100), dense=None if quick else ks)
    return g, m


def run(tier, seed):
    ev = core.Evidence("C17", tier, seed)
    wd = core.workdir("C17", tier)
    rng = random.Random(seed)
    quick = tier == "quick"
    ev.cov["trusted_base"] = core.TRUSTED
    ev.cov["rule"] = (
        "edwards25519 in three builds (ED_ADD = PROJC (default), EXTND, BASIC): group law on pairs over {O, +-G, 2G, 3G, "
        "(n-1)G, (n-2)G, (n+-1)/2 G, random subgroup points, the seven points of order 2/4/8 (order verified by the spec), "
        "torsion + subgroup sums, uniformly random curve points}: every point with itself, its negative and O, all torsion "
        "pairs, a sample of the rest x every exported add/sub/dbl/neg variant x representation (affine, z=1 retagged, "
        "z in {2,3,p-1,p-2,random}, valid T) x alias patterns; ed_cmp / ed_on_curve (off-curve, z=0, invalid T) / "
        "ed_is_infty / ed_norm(_sim); scalar multiplication on subgroup points: corner scalars relative to n "
        "(0,+-1,2,3,n-2..n+1,2n-1..2n+1,-n,3n,8n, 2^j and 2^j+-1 at digit / bits(n) / field-size boundaries, 0x55/0xAA/0xFF "
        "patterns, long runs, random below n and up to BN_PRECI bits) x every routine (var, fixed with each table builder, "
        "gen, dig, sim, sim_gen, sim_lot); pack/unpack and write/read round trips for P and -P, short buffers, invalid "
        "encodings (tags, lengths, y >= p, x >= p, y without x, (x,y) off the curve); ed_map / ed_map_dst called twice "
        "per message; tiny worlds (8-bit primes, cofactor 8 with a = -1 and cofactor 4 with a general a, installed by "
        "writing the public context fields): every ordered pair of curve points, every k in [-2n,3n] and 2^j(+-1) x every "
        "routine (sampled in the quick tier). Non-trivial = a point other than O is involved and a scalar other than "
        "0,+-1; distinct by full event")
    ev.assumptions = [
        "B1 tiny worlds are installed by writing the public context fields ed_a, ed_d, ed_g, ed_r, ed_h and rebuilding the "
        "generator table with ed_mul_pre (the module has no curve installer); ed_map / ed_param_get / ed_param_level are "
        "not available there (ed_id = 0) and are checked at full width only",
        "ed_sub_extnd is driven in the EXTND build only: it negates with ed_neg_projc, which maintains T only when "
        "ED_ADD = EXTND (RELIC's own tests use it the same way); ed_add_extnd / ed_dbl_extnd are driven in every build "
        "with the driver supplying a valid T",
        "the bit of x recorded by ed_pck / ed_write_bin is RELIC's own convention (parity of the stored, i.e. Montgomery, "
        "representation); the property claims the round trip, which is what is judged",
        "ed_map: membership in the prime-order subgroup ([n]P = O by the spec), on-curve and determinism are judged, not "
        "the Elligator-2 value itself (the property does not fix the map)",
        "ARITH=easy (portable C back-end) only"]
    core.run_models(ev, MC_RUNS(quick))
    conf = core.Conformance("C17", ev, wd)
    cover = {}
    ops = {}

    def part(label, cfg, cases, bdir, heavy=False):
        if not cases:
            return
        events, _ = conf.run(label, cfg, "ed", DRV, cases, SPEC, bdir=bdir, nontrivial=nontrivial,
                             min_per_shard=20 if heavy else 60, driver_timeout=1500, tlc_timeout=2400)
        ops[label] = dict(collections.Counter(e.get("op") for e in events))

    # ---- B2: edwards25519, every coordinate system as the build default
    # probes beyond a routine's scalar capacity per routine and build (each one is a known-finding candidate)
    NL = {"projc": 1, "extnd": 0, "basic": 0} if quick else {"projc": 2, "extnd": 1, "basic": 0}
    for kind, scale in (("projc", 1.0), ("extnd", 0.7), ("basic", 0.4)):
        cfg, bdir = build(kind)
        cvs = discover(cfg, bdir, wd)
        if not cvs:
            # edwards25519 can no longer be selected: a VIOLATION (BADCURVE is never accepted), not a discovery result
            part("ed255-%s-grp" % kind, cfg, ["ed_is_infty id1 0 inf"], bdir)
            continue
        cover["ed255-" + kind] = [c.spec for c in cvs]
        g, m = full_width(cvs[0], rng, quick, scale, nlong=NL[kind])
        if quick:           # one pass per build: the multiplications are spread evenly over the shards
            gm = g + m
            rng.shuffle(gm)
            part("ed255-%s" % kind, cfg, gm, bdir, heavy=True)
        else:
            part("ed255-%s-grp" % kind, cfg, g, bdir)
            part("ed255-%s-mul" % kind, cfg, m, bdir, heavy=True)
    # ---- B1: tiny worlds
    for kind in (("projc", "extnd") if quick else ("projc", "extnd", "basic")):
        cfg, bdir = build(kind, tiny=True)
        add = {"projc": gen_ed.PROJC, "extnd": gen_ed.EXTND, "basic": gen_ed.BASIC}[kind]
        worlds = gen_ed.tiny_worlds(add)
        if len(worlds) < 3:
            raise core.InfraError("tiny world construction failed")
        cover["w8p8-" + kind] = [w.name for w in worlds]
        G, M = [], []
        for wi, w in enumerate(worlds):
            if quick:
                if kind != "projc" and wi > 0:
                    continue
                g, m = tiny(w, rng, True)
            else:
                # exhaustive (every ordered pair of curve points, every scalar of the dense range) in the default build
                # and for one world of the extended build; sampled elsewhere
                full = kind == "projc" or (kind == "extnd" and wi == 0)
                g, m = tiny(w, rng, not full, nlong=1 if (kind == "projc" and wi == 0) else 0)
                if full:        # one pass per exhaustive world keeps the shards (and the memory of 16 TLC processes) small
                    part("w8p8-%s-grp-%d" % (kind, wi), cfg, g, bdir)
                    part("w8p8-%s-mul-%d" % (kind, wi), cfg, m, bdir)
                    continue
            G += g
            M += m
        if quick:
            part("w8p8-%s" % kind, cfg, G + M, bdir)
        else:
            part("w8p8-%s-grp" % kind, cfg, G, bdir)
            part("w8p8-%s-mul" % kind, cfg, M, bdir)
    ev.cov["curves"] = cover
    ev.cov["ops"] = ops
    return conf.finish()


def replay(path, seed):
    """bin/check C17 --replay <file>: re-execute one recorded case in the build it was recorded in (the label names the
    build: ed255-<projc|extnd|basic>[-grp|-mul], w8p8-<...>)."""
    import json
    r = json.load(open(path))
    f = r.get("label", "").split("-")
    kind = f[1] if len(f) > 1 and f[1] in ED_METHD else "projc"
    cfg, bdir = build(kind, tiny=(f[0] == "w8p8"))
    if r.get("case") is None:
        print("replay file has no executable case (abnormal execution): %s" % r.get("event"))
        core.report_violation("C17", path)
        return 1
    wd = core.workdir("C17", "replay")
    conf = core.Conformance("C17", core.Evidence("C17", "quick", 0), wd)
    conf.run("%s-%s-replay" % (f[0] if f[0] in ("ed255", "w8p8") else "ed255", kind), cfg, "ed", DRV,
             r["case"].split("\n"), SPEC, shards=1, bdir=bdir)
    for key in conf.known_hits:
        print("KNOWN-FINDING: property=C17 %s" % key)
    if conf.violations:
        core.report_violation("C17", path)
        return 1
    return 2 if conf.infra else 0
