"""C18 - every built-in parameter set is internally consistent (DESIGN.md section 4, C18)."""
import json
import os
import re
import time

from vlib import core

BASE = ["PrimeModulus", "MontConstants", "ResidueConstants", "GeneratorOnCurve", "Nonsingular", "OrderPrime",
        "OrderAnnihilatesGenerator", "HasseAndCofactor", "CofactorClears", "CurveFlags", "SecurityLevel",
        "GeneratorTable", "MapConstants"]
ENDOM = ["BetaCubeRoot", "LambdaRoot", "PsiIsLambda", "GlvBasis", "GlvShort", "GlvRounding"]
EXPECTED = {"std256": [12, 13, 14, 15, 23, 24], "ep-jacob": [12, 13, 14, 15, 23, 24]}     # ids of the pinned 256-bit build
PAIR = ["FamilyPolynomials", "CurveOrderFromTrace", "EmbeddingDegree", "TowerIsField", "TwistCoefficients",
        "TwistGenerator", "TwistOrder", "TwistCofactor", "FrobeniusOnG2", "TwistCofactorClears"]


def dump(cfg, wd):
    exe = core.cc_harness(cfg, "param", ["drv_param.c"])
    d = os.path.join(wd, "dump-" + cfg)
    os.makedirs(d, exist_ok=True)
    open(os.path.join(d, "ids.txt"), "w").write("ids\n")
    ids = core.run_driver(exe, os.path.join(d, "ids.txt"), os.path.join(d, "ids.ndjson"))[0]["ep"]
    open(os.path.join(d, "c.txt"), "w").write("".join("ep %d\n" % i for i in ids))
    return ids, core.run_driver(exe, os.path.join(d, "c.txt"), os.path.join(d, "t.ndjson"), timeout=600), exe


def relations_of(e):
    rels = list(BASE)
    if e.get("endom") == 1:
        rels += ENDOM
    if e.get("pairf"):
        rels += PAIR
    return rels


def run(tier, seed):
    ev = core.Evidence("C18", tier, seed)
    wd = core.workdir("C18", tier)
    quick = tier == "quick"
    ev.cov["trusted_base"] = core.TRUSTED
    ev.cov["rule"] = ("one evaluation per (accepted parameter id, relation of model/ParamSpec); every relation is "
                      "non-trivial for the sets it applies to; distinct by (build, id, relation)")
    core.run_models(ev, [("MCCurve", "MCCurve", "group axioms of lib/Curve for every curve over F_5, F_7, F_11", False),
                         ("MCTower", "MCTower_p3", "field axioms of lib/Tower, p = 3", False)] +
                    ([] if quick else [("MCTower", "MCTower", "field axioms of lib/Tower, p = 7", False)]))
    known_file = core.write_known_file("C18", wd)
    cfgs = ["std256"] if quick else ["std256", "b12-381", "ed255", "ep-jacob"]
    violations = []
    total = 0
    for cfg in cfgs:
        try:
            ids, dumps, exe = dump(cfg, wd)
        except core.InfraError as ex:
            if cfg == "std256":
                raise
            ev.cov["parts"][cfg] = dict(skipped=str(ex)[:300])
            continue
        events = []
        for want in EXPECTED.get(cfg, []):
            if want not in ids:
                rp = core.save_replay("C18", dict(property="C18", cfg=cfg, id=want, rel="Selectable", event={}),
                                      name="%s-%s-Selectable" % (cfg, want))
                violations.append((rp, "cfg=%s id=%s: a parameter set of the pinned build can no longer be selected" % (cfg, want)))
        for dct in list(dumps):
            if dct.get("id", -1) <= 0:
                # selectable in a fresh context (id scan) but not after the sets dumped before it
                rp = core.save_replay("C18", dict(property="C18", cfg=cfg, id=-dct.get("id", 0), rel="SelectableAfterOthers", event={}),
                                      name="%s-%s-SelectableAfterOthers" % (cfg, -dct.get("id", 0)))
                violations.append((rp, "cfg=%s id=%s: selection fails after other sets were selected in the same context"
                                   % (cfg, -dct.get("id", 0))))
                dumps.remove(dct)
            for rel in relations_of(dct):
                e = dict(dct)
                e["rel"] = rel
                e["i"] = len(events)
                events.append(e)
        v = core.validate_trace("trace/ParamTrace.tla", events, os.path.join(wd, "tlc-" + cfg), shards=core.NCPU,
                                env={"KNOWN": known_file}, min_per_shard=6, timeout=1500, continue_after=True,
                                heap="4g")
        core.log("C18/%s: ids %s, %d relation events, accepted %d, rejected %d, %.1fs"
                 % (cfg, ids, len(events), v.accepted, len(v.rejected), v.wall))
        if v.infra:
            raise core.InfraError("\n".join(v.infra)[:3000])
        for (e, shard, idx) in v.rejected:
            # confirm: dump the set again in a fresh process and re-evaluate the one relation
            ids2, dumps2, _ = dump(cfg, os.path.join(wd, "confirm"))
            e2 = [dict(x) for x in dumps2 if x.get("id") == e["id"]]
            confirmed = True
            if e2:
                e2[0]["rel"] = e["rel"]
                e2[0]["i"] = 0
                v2 = core.validate_trace("trace/ParamTrace.tla", e2[:1], os.path.join(wd, "tlc-confirm"), shards=1,
                                         env={"KNOWN": known_file}, timeout=900)
                confirmed = bool(v2.rejected)
            if confirmed:
                rp = core.save_replay("C18", dict(property="C18", cfg=cfg, id=e["id"], rel=e["rel"], event=e),
                                      name="%s-%s-%s" % (cfg, e["id"], e["rel"]))
                violations.append((rp, "cfg=%s id=%s relation=%s" % (cfg, e["id"], e["rel"])))
        total += len(events)
        ev.cov["traces_validated_against_impl"] += v.accepted
        ev.cov["evaluations"] += len(events)
        ev.cov["distinct_nontrivial"] += len(events)
        ev.cov["parts"][cfg] = dict(ids=ids, relation_events=len(events), accepted=v.accepted,
                                    rejected=len(v.rejected))
        ev.cov["configs"].append(cfg)
        if events:
            s = {k: events[0][k] for k in ("op", "id", "rel", "p", "level", "endom", "pairf") if k in events[0]}
            ev.add_samples([s], limit=1)
    if os.environ.get("C18_EXT") != "0":
        total += ext_sweep(ev, wd, known_file, violations, quick)
    # the binary-field polynomials and binary curves of the pinned build (model/FbSpec: polynomial irreducible,
    # generator on the curve, order prime and annihilating, Hasse interval, cofactor class, Koblitz flag, level),
    # through the driver and trace specification of C16
    from vlib.props import C16 as c16
    X = ["-DVH_FBX"]
    cf, fbs, ebs = c16.listing("std256", X)
    want_e, want_f = c16.EXPECTED_EB["std256"], c16.EXPECTED_FB["std256"]
    eids = sorted(set(want_e) | set(int(c.sel[1:]) for c in ebs))
    # every curve after every other one (a constant or flag left over from the previous selection is a stale parameter)
    bcases = ["E%d eb_select" % i for i in eids + eids[::-1][1:] + eids[1:2]] + \
             ["F%d fb_select" % i for i in sorted(set(want_f) | set(f[0] for f in fbs))]
    conf = core.Conformance("C18", ev, wd)
    conf.run("std256-binary", "std256", "fbx", c16.DRV, bcases, c16.SPEC, extra_cc=X, driver_args=["nofork"],
             nontrivial=lambda e: e.get("op") in ("eb_select", "fb_select"), min_per_shard=1, heap="4g")
    violations += conf.violations
    if conf.infra:
        raise core.InfraError("\n".join(conf.infra)[:2000])
    ev.cov["exhaustive"] = True
    ev.cov["exhaustive_note"] = ("every parameter id accepted by ep_param_set in the listed builds, every relation; every "
                                 "binary field polynomial and binary curve id of the pinned build")
    for rp, txt in violations:
        core.report_violation("C18", rp, txt)
    ev.violations = len(violations)
    ev.write()
    return 1 if violations else 0


# ----------------------------------------------------------------------------
# field-size sweep (C18_EXT): every id accepted in the builds of the k = 8, 16, 18, 24, 48 families and of
# the other BN / BLS12 sizes
# ----------------------------------------------------------------------------
SWEEP = ["fp315", "fp317", "fp330", "fp354", "fp377", "fp382", "fp383", "fp446", "fp455", "fp508", "fp509", "fp510", "fp511",
         "fp544", "fp569", "fp575", "fp638", "fp765", "fp766", "fp768"]
SWEEP_QUICK = ["fp315"]
# what ep_param_set accepts in these builds on the unchanged tree (probe): a set that can no longer be selected is a violation
EXPECTED_SWEEP = {"fp315": [25], "fp317": [26], "fp330": [27], "fp354": [28], "fp377": [29], "fp382": [16, 31], "fp383": [17, 32],
                  "fp446": [33, 34], "fp455": [35], "fp508": [36], "fp509": [37], "fp510": [38], "fp511": [19], "fp544": [40],
                  "fp569": [41], "fp575": [42], "fp638": [43, 44, 45, 46], "fp765": [47], "fp766": [48, 49], "fp768": [50]}


def ext_relations_of(e):
    rels = list(BASE)
    if e.get("endom") == 1:
        rels += ENDOM
    if e.get("pairf"):
        # the twist relations are written for the quadratic twist field of k = 12; the other embedding degrees keep the
        # relations that do not depend on the twist (the G2 generators of those families are judged by C04's sweep)
        rels += (PAIR if e.get("embed") == 12 else ["EmbeddingDegree"]) + ["FamilyAtSize"]
    return rels


def ext_sweep(ev, wd, known_file, violations, quick):
    only = os.environ.get("C18_EXT_ONLY")
    cfgs = only.split(",") if only else (SWEEP_QUICK if quick else SWEEP)
    shards = int(os.environ.get("C18_EXT_SHARDS", core.NCPU))
    total = 0
    known_hits = {}
    for cfg in cfgs:
        try:
            ids, dumps, exe = dump(cfg, wd)
        except core.InfraError as ex:
            ev.cov["parts"][cfg] = dict(skipped="build or dump failed on this tree: " + str(ex)[-300:])
            core.log("C18 sweep %s skipped: %s" % (cfg, str(ex)[-200:]))
            continue
        for want in EXPECTED_SWEEP.get(cfg, []):
            if want not in ids:
                rp = core.save_replay("C18", dict(property="C18", cfg=cfg, id=want, rel="Selectable", event={}),
                                      name="%s-%s-Selectable" % (cfg, want))
                violations.append((rp, "cfg=%s id=%s: a parameter set of this build can no longer be selected" % (cfg, want)))
        if not ids:
            ev.cov["parts"][cfg] = dict(skipped="no parameter id is accepted by ep_param_set in this build")
            continue
        events = []
        for dct in list(dumps):
            if dct.get("id", -1) <= 0:
                rp = core.save_replay("C18", dict(property="C18", cfg=cfg, id=-dct.get("id", 0), rel="SelectableAfterOthers", event={}),
                                      name="%s-%s-SelectableAfterOthers" % (cfg, -dct.get("id", 0)))
                violations.append((rp, "cfg=%s id=%s: selection fails after other sets were selected in the same context"
                                   % (cfg, -dct.get("id", 0))))
                continue
            for rel in ext_relations_of(dct):
                e = dict(dct)
                e["rel"] = rel
                e["i"] = len(events)
                events.append(e)
        v = core.validate_trace("trace/ParamTrace.tla", events, os.path.join(wd, "tlc-" + cfg), shards=shards,
                                env={"KNOWN": known_file}, min_per_shard=3, timeout=2400, continue_after=True, heap="4g")
        core.log("C18/%s: ids %s, %d relation events, accepted %d, rejected %d, %.1fs"
                 % (cfg, ids, len(events), v.accepted, len(v.rejected), v.wall))
        if v.infra:
            raise core.InfraError("\n".join(v.infra)[:3000])
        for k in v.known:
            key = k.split(",")[0].strip().strip('"')
            known_hits[key] = known_hits.get(key, 0) + 1
        for (e, shard, idx) in v.rejected:
            ids2, dumps2, _ = dump(cfg, os.path.join(wd, "confirm"))
            e2 = [dict(x) for x in dumps2 if x.get("id") == e["id"]]
            confirmed = True
            if e2:
                e2[0]["rel"] = e["rel"]
                e2[0]["i"] = 0
                v2 = core.validate_trace("trace/ParamTrace.tla", e2[:1], os.path.join(wd, "tlc-confirm"), shards=1,
                                         env={"KNOWN": known_file}, timeout=1200)
                confirmed = bool(v2.rejected)
            if confirmed:
                rp = core.save_replay("C18", dict(property="C18", cfg=cfg, id=e["id"], rel=e["rel"], event=e),
                                      name="%s-%s-%s" % (cfg, e["id"], e["rel"]))
                violations.append((rp, "cfg=%s id=%s relation=%s" % (cfg, e["id"], e["rel"])))
        total += len(events)
        ev.cov["traces_validated_against_impl"] += v.accepted
        ev.cov["evaluations"] += len(events)
        ev.cov["distinct_nontrivial"] += len(events)
        ev.cov["parts"][cfg] = dict(ids=ids, relation_events=len(events), accepted=v.accepted, rejected=len(v.rejected),
                                    sets=["%d: k=%s family=%s level=%s" % (d.get("id"), d.get("embed"), d.get("fam"), d.get("level"))
                                          for d in dumps if d.get("id", 0) > 0])
        ev.cov["configs"].append(cfg)
    for key, n in known_hits.items():
        kf = [k for k in core.known_findings("C18") if k.get("key") == key]
        print("KNOWN-FINDING: property=C18 %s (%d events) %s" % (key, n, (kf[0].get("what", "") if kf else "")[:200]))
    ev.cov.setdefault("known_hits", {}).update(known_hits)
    return total


def replay(path, seed):
    r = json.load(open(path))
    if "driver" in r:                       # a binary-parameter event (generic conformance replay)
        return core.replay_generic(path)
    wd = core.workdir("C18", "replay")
    ids, dumps, _ = dump(r["cfg"], wd)
    e = [dict(x) for x in dumps if x.get("id") == r["id"]]
    if not e:
        core.report_violation("C18", path, "parameter id no longer accepted")
        return 1
    if r["rel"] in ("Selectable", "SelectableAfterOthers"):
        return 0
    e[0]["rel"] = r["rel"]
    e[0]["i"] = 0
    v = core.validate_trace("trace/ParamTrace.tla", e[:1], os.path.join(wd, "tlc"), shards=1,
                            env={"KNOWN": core.write_known_file("C18", wd)}, timeout=900)
    if v.rejected:
        core.report_violation("C18", path, "relation %s" % r["rel"])
        return 1
    return 2 if v.infra else 0
