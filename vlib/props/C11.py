"""C11 - extension-field curves (twists over F_p2): group law, every scalar multiplication equals [k]Q,
Frobenius acts as [p] on the order-r subgroup, cofactor clearing lands in the subgroup
(DESIGN.md section 4, C11)."""
import os
import random

from vlib import core, gen_ep2

SPEC = "trace/Ep2Trace.tla"
DRV = ["drv_ep2.c"]

# parameter sets with a twist over F_p2 that ep_param_set accepts on the unchanged tree (include/relic_ep.h:
# BN_P256 = 23, SM9_P256 = 24; B12_P381 = 30): a set of this list that can no longer be selected is a
# VIOLATION (the driver reports BADCURVE, which the spec never accepts), not a discovery result.
EXPECTED = {"std256": [23, 24], "b12-381": [30]}


def nontrivial(e):
    """Non-trivial: a finite point is involved and (for multiplications) a scalar other than 0, +-1."""
    if e.get("op") in ("curve_probe", "restart", "BADCURVE"):
        return False
    pts = [e[k] for k in ("P", "Q") if k in e] + list(e.get("ps", []))
    if not any(any(any(c) for c in p["z"]) for p in pts):
        return False
    ks = [e[k] for k in ("k", "m") if k in e] + list(e.get("ks", []))
    if ks and all(sum(k["d"]) <= 1 for k in ks):
        return False
    return True


# the models are small: a modest heap keeps the JVMs out of the way of concurrently running checks
HEAP = dict(heap="2g")


def MC_RUNS(quick):
    runs = [("MCCurveX", "MCCurveX", "the definition (lib/CurveX over lib/Tower) is a group law: all 81 pairs (a, b) over F_9 = "
                                     "F_3[u]/(u^2+1), 72 nonsingular curves; closure, identity, inverse, commutativity on ALL pairs of "
                                     "points, associativity on ALL triples, [#E]P = O; XMulB = XMulNat (all points, k <= 40), "
                                     "TPowB = TExp, PMulB = PMulNat (balanced recursion = definition)", False, HEAP),
            ("MCFrbTwist", "MCFrbTwist", "tiny BN world (x = -1: p = 19, r = 13, t = 7, F_361 = F_19[u]/(u^2+1); every b with "
                                         "#E(F_p) = 13, every xi = c + u neither square nor cube: 12 leaf states): exactly one of the "
                                         "D/M twists has order 13 * 25; on it, with the Frobenius constants as ep2_curve_set_twist "
                                         "derives them, psi is an additive map of the curve, psi^2 - [t]psi + [p] = 0 on ALL 325 points, "
                                         "psi^i = [p^i mod r] (i = 1..3) on the 13 points annihilated by r, the cofactor map as coded in "
                                         "ep2_mul_cof_bn sends ALL points into the order-r subgroup", False, HEAP)]
    if not quick:
        runs += [("MCCurveX", "MCCurveX_p5", "a in {0, 1, u, -3}, all b over F_25 = F_5[u]/(u^2-2): 100 curves; all pairs; associativity "
                                             "on all triples (P, Q, R) with Q, R from every 6th point and the 2-torsion", False, HEAP),
                 ("MCCurveX", "MCCurveX_p7", "a in {0, 1, u, -3}, b = b0 + b1 u, b1 in {0, 1}, over F_49 = F_7[u]/(u^2+1): 56 curves; all "
                                             "pairs; associativity with Q, R from every 10th point and the 2-torsion", False, HEAP),
                 ("MCFrbTwist", "MCFrbTwist_b12", "tiny BLS12 world (x = -2: p = 37, r = 13, t = -1, F_p2 = F_37[u]/(u^2-2)): twist of "
                                                  "order 13 * 109, ALL 1417 points: psi endomorphism, characteristic equation, psi = [p] "
                                                  "on the subgroup, ep2_mul_cof_b12's formula lands in the subgroup", False, HEAP)]
    return runs


def missing_cases(cfg, curves):
    have = set(c.spec for c in curves)
    return ["ep2_is_infty id%d 0 inf" % i for i in EXPECTED.get(cfg, []) if "id%d" % i not in have]


def discover(cfg, wd, drv=None, name="ep2"):
    """Which curve identifiers select a pairing-friendly set with a twist over F_p2 in this build? (input discovery)"""
    exe = core.cc_harness(cfg, name, drv or DRV)
    d = os.path.join(wd, "probe-" + cfg)
    os.makedirs(d, exist_ok=True)
    cp = os.path.join(d, "cases.txt")
    open(cp, "w").write("\n".join(gen_ep2.probe_cases(range(1, 72))) + "\n")
    evs = core.run_driver(exe, cp, os.path.join(d, "trace.ndjson"), timeout=300)
    return [gen_ep2.Curve2(e) for e in evs if e.get("op") == "curve_probe" and e.get("ok") == 1]


def full_width(curves, rng, quick, scale=1.0):
    """Returns (group-law cases, multiplication cases, Frobenius / cofactor cases) over all curves."""
    grp, mul, endo = [], [], []
    for cv in curves:
        seeds = [rng.randrange(2, 1 << 64) for _ in range(3 if quick else 8)]
        # ---- group law: pairs of base multiples (identity, +-G, +-2G, 3G, (n-1)G, halves, random, opposite) and
        #      curve points outside the order-r subgroup, every coordinate system
        ms = gen_ep2.base_multiples(cv, rng, 2 if quick else 6)
        pairs = [(a, b) for a in ms for b in ms]
        if quick:
            special = [(a, b) for (a, b) in pairs if (a - b) % cv.n == 0 or (a + b) % cv.n == 0 or a == 0 or b == 0]
            rest = [pq for pq in pairs if pq not in special]
            pairs = special + rng.sample(rest, min(len(rest), int(50 * scale)))
        g = gen_ep2.group_cases(cv, rng, pairs, seeds, int((40 if quick else 200) * scale))
        g += gen_ep2.unary_cases(cv, rng, ms, seeds)
        g += gen_ep2.cmp_cases(cv, rng, pairs if not quick else rng.sample(pairs, min(len(pairs), 100)), seeds)
        g += gen_ep2.offcurve_cases(cv, rng, 12 if quick else 60)
        rng.shuffle(g)
        grp += g
        # ---- scalar multiplication: the corner set of scalars for every routine
        corners = gen_ep2.scalar_corners(cv, rng, nrand=4 if quick else 12, nlong=3 if quick else 10)
        per_op = max(6, int((10 if quick else 0.5 * len(corners)) * scale))

        must = [0, cv.n, 2 * cv.n, -cv.n, cv.n - 1, cv.n + 1, 1, -1]       # for EVERY routine

        def ks_for(op, corners=corners, per_op=per_op, must=must):
            if per_op >= len(corners):
                return list(corners)
            return must + rng.sample(corners, per_op)
        pms = [m for m in ms if m % cv.n != 0]
        # + scalars structured in the Frobenius basis (every zero pattern of the four GLS sub-scalars)
        frb = gen_ep2.frb_corners(cv, rng, per=1, variants=not quick)
        m = gen_ep2.mul_cases(cv, rng, ks_for, pms, seeds, frb=frb if not quick else rng.sample(frb, min(len(frb), 8)))
        m += gen_ep2.mul_cases(cv, rng, lambda op, frb=frb: frb, pms, seeds, ops=["ep2_mul", "ep2_mul_lwnaf", "ep2_mul_lwreg"]) if quick else []
        for op in gen_ep2.MUL_VAR:      # identity as the point operand
            m.append("%s %s 0 %s %s" % (op, cv.spec, gen_ep2.inf_token(cv.sys, rng), gen_ep2.hx(rng.choice(corners))))
        nsim = max(3, int((4 if quick else 30) * scale))

        def kp_for(op, corners=corners, nsim=nsim):
            out = [(rng.choice(corners), rng.choice(corners)) for _ in range(nsim)]
            out += [(rng.choice(corners), 0), (0, rng.choice(corners)), (cv.n, rng.choice(corners))][:2 if quick else 3]
            return out
        m += gen_ep2.sim_cases(cv, rng, kp_for, pms)
        m += gen_ep2.lot_cases(cv, rng, corners, pms, range(0, 5), per_count=1 if quick else 3)
        if not quick:
            m += gen_ep2.lot_cases(cv, rng, corners, pms, [11, 14], per_count=1)      # bucket path (n > 10)
        else:
            m += gen_ep2.lot_cases(cv, rng, [k for k in corners if abs(k) < cv.n], pms, [11], per_count=1)
        m += gen_ep2.simdig_cases(cv, rng, pms, range(1, 4), per_count=1 if quick else 4)
        rng.shuffle(m)
        mul += m
        # ---- Frobenius on subgroup points, cofactor clearing on curve points outside the subgroup
        f = gen_ep2.frb_cases(cv, rng, [1, 2, cv.n - 1, rng.randrange(cv.n)] + ([] if quick else [rng.randrange(cv.n) for _ in range(4)] + [0]),
                              seeds[:1 if quick else 4], powers=(0, 1, 2, 3) if quick else (0, 1, 2, 3, 4, 6, 12))
        f += gen_ep2.cof_cases(cv, rng, [0, 1, rng.randrange(cv.n)], seeds)
        rng.shuffle(f)
        endo += f
    return grp, mul, endo


def run(tier, seed):
    ev = core.Evidence("C11", tier, seed)
    wd = core.workdir("C11", tier)
    rng = random.Random(seed)
    quick = tier == "quick"
    ev.cov["trusted_base"] = core.TRUSTED
    ev.cov["rule"] = (
        "group law: pairs over {O, +-G2, +-2G2, 3G2, (r-1)G2, (r+-1)/2 G2, random and opposite multiples, curve points OUTSIDE the "
        "order-r subgroup (decompressed from arbitrary x), points of the cofactor part [r]Q, members [h2]Q} x every coordinate "
        "system x representation (affine, z=1 retagged, z in F_p2 incl. z in F_p, z = c*u, random), alias patterns; scalar "
        "multiplication: the C03 corner scalars relative to r (0,+-1,2,3,r-2..r+1,2r-1..2r+1,-r,3r, 2^j and 2^j+-1 at digit / "
        "bits(r) / recoding-capacity boundaries, 0x55/0xAA/0xFF patterns, long runs, sqrt(r) neighbourhoods, random below r and "
        "up to BN_PRECI bits) x every routine x every selectable parameter set; Frobenius powers 1..3 on subgroup points; "
        "cofactor map on curve points outside the subgroup, cofactor-part points, small-order points, members, identity. "
        "Non-trivial = a finite point and a scalar other than 0,+-1; distinct by full event")
    core.run_models(ev, MC_RUNS(quick))
    gen_ep2.BUDGET = gen_ep2.Budget(2 if quick else None)
    conf = core.Conformance("C11", ev, wd)
    cover = {}

    def part(label, cfg, cases, heavy=False):
        if not cases:
            return
        conf.run(label, cfg, "ep2", DRV, cases, SPEC, nontrivial=nontrivial,
                 min_per_shard=1 if heavy else 60, driver_timeout=1500, tlc_timeout=2400, heap="2g")

    def config(cfg, q, scale=1.0):
        curves = discover(cfg, wd)
        cover[cfg] = ["%s(%s,twist=%d)" % (c.spec, c.family, c.tw) for c in curves]
        grp, mul, endo = full_width(curves, rng, q, scale)
        part(cfg + "-grp", cfg, missing_cases(cfg, curves) + grp)
        part(cfg + "-mul", cfg, mul, heavy=True)
        part(cfg + "-endo", cfg, endo, heavy=True)

    config("std256", quick)
    if not quick:
        config("b12-381", False, scale=0.6)
    if os.environ.get("C11_EXT") != "0":
        # extension part (C11_EXT=0 switches it off - a debugging aid): twists over F_p3 / F_p4 at the other pairing field sizes
        from vlib import c11_ext
        c11_ext.run_ext(ev, conf, wd, rng, quick, cover)
    ev.cov["curves"] = cover
    return conf.finish()


def replay(path, seed):
    return core.replay_generic(path)
