"""C04 - the pairing is bilinear, non-degenerate and maps into the order-r target group."""
import random

from vlib import core

FAMS = {"oate": ("pc_map", ["pc_map", "oatep"], ["pc_map_sim", "sim_oatep"]),
        "tate": ("tatep", ["tatep"], ["sim_tatep"]),
        "weil": ("weilp", ["weilp"], ["sim_weilp"])}


def gen_cases(rng, ids, quick):
    """segments of <= CH events, each starting with the pairing of the generators"""
    cases = []
    CH = 10 if quick else 14
    small = ["0", "1", "2", "3", "-1", "-2", "r", "r-1", "r+1", "r-2", "r*2", "5", "%x" % rng.randrange(2, 1 << 16)]
    for pid in ids:
        for fam, (ref, singles, sims) in FAMS.items():
            body = []
            # single pairings: corner scalars in either slot
            pairs = [(a, b) for a in small for b in ("1", "2", "-1", "r-1", "0", "3")] + \
                    [(b, a) for a in small for b in ("1", "2", "r+1")]
            rng.shuffle(pairs)
            n_single = (30 if quick else 90) if fam == "oate" else (10 if quick else 30)
            for a, b in pairs[:n_single]:
                body.append("%s %d %d 1 %s %s" % (rng.choice(singles), pid, rng.choice([0, 0, 3]), a, b))
            # a few full-size scalars (full G2 multiplication + full exponent in the spec)
            for _ in range(2 if quick else 8):
                body.append("%s %d 0 1 %x %x" % (rng.choice(singles), pid, rng.getrandbits(250), rng.getrandbits(250)))
            # equal / opposite points, squares
            body.append("%s %d 2 1 2 2" % (singles[0], pid))
            body.append("%s %d 0 1 -1 -1" % (singles[0], pid))
            # multi-pairings: list lengths 0..4, identities at every position
            n_sim = (16 if quick else 60) if fam == "oate" else (6 if quick else 20)
            for _ in range(n_sim):
                n = rng.choice([0, 1, 2, 2, 3, 4])
                toks = []
                for j in range(n):
                    a, b = rng.choice(small[:8]), rng.choice(small[:8])
                    if rng.random() < 0.25:
                        a = rng.choice(["0", "r"])
                    if rng.random() < 0.2:
                        b = rng.choice(["0", "r"])
                    toks += [a, b]
                body.append("%s %d %d %d %s" % (rng.choice(sims), pid, rng.choice([0, 0, 2]), n, " ".join(toks)))
            rng.shuffle(body)
            for c in range(0, len(body), CH):
                tag = "%s#%d" % (fam, c // CH)
                cases.append(("%s %d 0 1 1 1" % (ref, pid), tag, True))
                for ln in body[c:c + CH]:
                    cases.append((ln, tag, False))
    return cases


def run(tier, seed):
    ev = core.Evidence("C04", tier, seed)
    wd = core.workdir("C04", tier)
    rng = random.Random(seed)
    quick = tier == "quick"
    ev.cov["trusted_base"] = core.TRUSTED
    ev.cov["rule"] = ("per (parameter set, pairing family) segments starting with e(G1,G2); events: [a]G1 x [b]G2 with a, b over "
                      "{0, 1, 2, 3, -1, -2, r, r+-1, r-2, 2r, small and full-size random}, projective (non-normalised) inputs, "
                      "multi-pairings of length 0..4 with identities at arbitrary positions, for optimal ate (pc_map), Tate and "
                      "Weil; non-trivial = every event other than the segment references; distinct by full event")
    core.run_models(ev, [("MCTower", "MCTower_p3", "field axioms of lib/Tower incl. F_p12 over p = 3", False),
                         ("MCCurve", "MCCurve", "group axioms of lib/Curve", False)] +
                    ([] if quick else [("MCTower", "MCTower", "field axioms of lib/Tower, p = 7", False)]))
    conf = core.Conformance("C04", ev, wd)
    for cfg in (["std256"] if quick else ["std256", "b12-381"]):
        bdir = core.build_relic(cfg)
        pexe = core.cc_harness(cfg, "param", ["drv_param.c"], bdir=bdir)
        import os
        d = os.path.join(wd, "ids-" + cfg)
        os.makedirs(d, exist_ok=True)
        open(os.path.join(d, "c.txt"), "w").write("ids\n")
        ids = core.run_driver(pexe, os.path.join(d, "c.txt"), os.path.join(d, "t.ndjson"))[0]["ep"]
        open(os.path.join(d, "c2.txt"), "w").write("".join("ep %d\n" % i for i in ids))
        pair_ids = [e["id"] for e in core.run_driver(pexe, os.path.join(d, "c2.txt"), os.path.join(d, "t2.ndjson"))
                    if e.get("pairf") and e.get("embed") == 12]
        if not pair_ids:
            raise core.InfraError("no pairing-friendly parameter set accepted in " + cfg)
        ev.cov["parts"]["ids-" + cfg] = pair_ids
        triples = gen_cases(rng, pair_ids, quick)
        cases = [t[0] for t in triples]
        tags = [t[1] for t in triples]
        starts = set(i for i, t in enumerate(triples) if t[2])

        def emap(e, tags=tags):
            if 0 <= e.get("i", -1) < len(tags):
                e["fam"] = tags[e["i"]]
            return e
        # segment starts are identified by position (the reference line text repeats)
        lines = ["%s" % c for c in cases]
        uniq = ["%s #%d" % (c, i) if i in starts else c for i, c in enumerate(lines)]   # comment token makes starts unique
        seg_lines = set(u for i, u in enumerate(uniq) if i in starts)
        conf.run("pairings-" + cfg, cfg, "pp", ["drv_pp.c"], uniq, "trace/PpTrace.tla", bdir=None,
                 case_seg_start=lambda ln: ln in seg_lines, event_map=emap,
                 nontrivial=lambda e: not (e.get("n") == 1 and e.get("zm") == 0 and
                                           e.get("pairs", [{}])[0].get("a", {}).get("d") == [1, 0, 0, 0, 0, 0, 0, 0]),
                 min_per_shard=8, tlc_timeout=2400, heap="4g")
        # the final exponentiation as a function of its own (out of place, in place, through pc_exp): stateless events
        ecases = ["exp %d 0 0 %x" % (pid, rng.getrandbits(64) | 1) for pid in pair_ids for _ in range(3 if quick else 12)]
        conf.run("finalexp-" + cfg, cfg, "pp", ["drv_pp.c"], ecases, "trace/PpExpTrace.tla",
                 nontrivial=lambda e: e.get("op") == "expo", min_per_shard=1, tlc_timeout=2400, heap="4g")
    return conf.finish()


def replay(path, seed):
    import json
    r = json.load(open(path))
    tag = "replay"

    def emap(e):
        e["fam"] = tag
        return e
    return core.replay_generic(path, event_map=emap)
