"""C04 - the pairing is bilinear, non-degenerate and maps into the order-r target group."""
import random

from vlib import core

FAMS = {"oate": ("pc_map", ["pc_map", "oatep"], ["pc_map_sim", "sim_oatep"]),
        "tate": ("tatep", ["tatep"], ["sim_tatep"]),
        "weil": ("weilp", ["weilp"], ["sim_weilp"])}


def gen_cases(rng, ids, quick):
    """segments of <= CH events, each starting with the pairing of the generators"""
    cases = []
    CH = 10 if quick else 14
    small = ["0", "1", "2", "3", "-1", "-2", "r", "r-1", "r+1", "r-2", "r*2", "5", "%x" % rng.randrange(2, 1 << 16)]
    for pid in ids:
        for fam, (ref, singles, sims) in FAMS.items():
            body = []
            # single pairings: corner scalars in either slot
            pairs = [(a, b) for a in small for b in ("1", "2", "-1", "r-1", "0", "3")] + \
                    [(b, a) for a in small for b in ("1", "2", "r+1")]
            rng.shuffle(pairs)
            n_single = (30 if quick else 90) if fam == "oate" else (10 if quick else 30)
            for a, b in pairs[:n_single]:
                body.append("%s %d %d 1 %s %s" % (rng.choice(singles), pid, rng.choice([0, 0, 3]), a, b))
            # a few full-size scalars (full G2 multiplication + full exponent in the spec)
            for _ in range(2 if quick else 8):
                body.append("%s %d 0 1 %x %x" % (rng.choice(singles), pid, rng.getrandbits(250), rng.getrandbits(250)))
            # equal / opposite points, squares
            body.append("%s %d 2 1 2 2" % (singles[0], pid))
            body.append("%s %d 0 1 -1 -1" % (singles[0], pid))
            # multi-pairings: list lengths 0..4, identities at every position
            n_sim = (16 if quick else 60) if fam == "oate" else (6 if quick else 20)
            for _ in range(n_sim):
                n = rng.choice([0, 1, 2, 2, 3, 4])
                toks = []
                for j in range(n):
                    a, b = rng.choice(small[:8]), rng.choice(small[:8])
                    if rng.random() < 0.25:
                        a = rng.choice(["0", "r"])
                    if rng.random() < 0.2:
                        b = rng.choice(["0", "r"])
                    toks += [a, b]
                body.append("%s %d %d %d %s" % (rng.choice(sims), pid, rng.choice([0, 0, 2]), n, " ".join(toks)))
            rng.shuffle(body)
            for c in range(0, len(body), CH):
                tag = "%s#%d" % (fam, c // CH)
                cases.append(("%s %d 0 1 1 1" % (ref, pid), tag, True))
                for ln in body[c:c + CH]:
                    cases.append((ln, tag, False))
    return cases


def run(tier, seed):
    ev = core.Evidence("C04", tier, seed)
    wd = core.workdir("C04", tier)
    rng = random.Random(seed)
    quick = tier == "quick"
    ev.cov["trusted_base"] = core.TRUSTED
    ev.cov["rule"] = ("per (parameter set, pairing family) segments starting with e(G1,G2); events: [a]G1 x [b]G2 with a, b over "
                      "{0, 1, 2, 3, -1, -2, r, r+-1, r-2, 2r, small and full-size random}, projective (non-normalised) inputs, "
                      "multi-pairings of length 0..4 with identities at arbitrary positions, for optimal ate (pc_map), Tate and "
                      "Weil; non-trivial = every event other than the segment references; distinct by full event")
    core.run_models(ev, [("MCTower", "MCTower_p3", "field axioms of lib/Tower incl. F_p12 over p = 3", False),
                         ("MCCurve", "MCCurve", "group axioms of lib/Curve", False)] +
                    ([] if quick else [("MCTower", "MCTower", "field axioms of lib/Tower, p = 7", False)]))
    conf = core.Conformance("C04", ev, wd)
    for cfg in (["std256"] if quick else ["std256", "b12-381"]):
        bdir = core.build_relic(cfg)
        pexe = core.cc_harness(cfg, "param", ["drv_param.c"], bdir=bdir)
        import os
        d = os.path.join(wd, "ids-" + cfg)
        os.makedirs(d, exist_ok=True)
        open(os.path.join(d, "c.txt"), "w").write("ids\n")
        ids = core.run_driver(pexe, os.path.join(d, "c.txt"), os.path.join(d, "t.ndjson"))[0]["ep"]
        open(os.path.join(d, "c2.txt"), "w").write("".join("ep %d\n" % i for i in ids))
        pair_ids = [e["id"] for e in core.run_driver(pexe, os.path.join(d, "c2.txt"), os.path.join(d, "t2.ndjson"))
                    if e.get("pairf") and e.get("embed") == 12]
        if not pair_ids:
            raise core.InfraError("no pairing-friendly parameter set accepted in " + cfg)
        ev.cov["parts"]["ids-" + cfg] = pair_ids
        triples = gen_cases(rng, pair_ids, quick)
        cases = [t[0] for t in triples]
        tags = [t[1] for t in triples]
        starts = set(i for i, t in enumerate(triples) if t[2])

        def emap(e, tags=tags):
            if 0 <= e.get("i", -1) < len(tags):
                e["fam"] = tags[e["i"]]
            return e
        # segment starts are identified by position (the reference line text repeats)
        lines = ["%s" % c for c in cases]
        uniq = ["%s #%d" % (c, i) if i in starts else c for i, c in enumerate(lines)]   # comment token makes starts unique
        seg_lines = set(u for i, u in enumerate(uniq) if i in starts)
        conf.run("pairings-" + cfg, cfg, "pp", ["drv_pp.c"], uniq, "trace/PpTrace.tla", bdir=None,
                 case_seg_start=lambda ln: ln in seg_lines, event_map=emap,
                 nontrivial=lambda e: not (e.get("n") == 1 and e.get("zm") == 0 and
                                           e.get("pairs", [{}])[0].get("a", {}).get("d") == [1, 0, 0, 0, 0, 0, 0, 0]),
                 min_per_shard=8, tlc_timeout=2400, heap="4g")
        # the final exponentiation as a function of its own (out of place, in place, through pc_exp): stateless events
        ecases = ["exp %d 0 0 %x" % (pid, rng.getrandbits(64) | 1) for pid in pair_ids for _ in range(3 if quick else 12)]
        conf.run("finalexp-" + cfg, cfg, "pp", ["drv_pp.c"], ecases, "trace/PpExpTrace.tla",
                 nontrivial=lambda e: e.get("op") == "expo", min_per_shard=1, tlc_timeout=2400, heap="4g")
    if os.environ.get("C04_EXT") != "0":
        run_sweep(ev, conf, tier, rng)
    return conf.finish()


# --------------------------------------------------------------------------
# field-size sweep: the k = 8, 16, 18, 24, 48 families at their own field sizes (gate C04_EXT=1)
# --------------------------------------------------------------------------
# build -> (embedding degree, pairing families offered there).  One build per k first (smaller fields first).
SWEEP = [("fp315", 24, ["oate"]), ("fp330", 16, ["oate", "tate", "weil"]), ("fp354", 18, ["oate", "tate", "weil"]),
         ("fp544", 8, ["oate"]), ("fp575", 48, ["oate"]), ("fp317", 24, ["oate"]), ("fp508", 18, ["oate"]),
         ("fp509", 24, ["oate"]), ("fp638", 18, ["oate"]), ("fp765", 16, ["oate"]), ("fp766", 16, ["oate"]),
         ("fp768", 18, ["oate"])]
XSMALL = ["0", "1", "2", "3", "-1", "-2", "r", "r-1", "r+1", "r*2", "5"]


def gen_sweep_cases(rng, fams, quick, first):
    """segments of <= 8 events per pairing family, each starting with the pairing of the generators;
    small |a b| keeps the specification side to a few GT products"""
    cases = []
    if quick:
        # one segment: the reference, six bilinearity / identity events, three multi-pairings (identity of G1 first,
        # identity of G2 in the middle, the empty list)
        body = ["pc_map 0 0 1 0 1", "oatep 0 0 1 r 2", "pc_map 0 0 1 -1 1", "oatep 0 0 1 2 3", "pc_map 0 2 1 r-1 r-1",
                "oatep 0 0 1 2 r", "pc_map_sim 0 0 2 r 1 2 3", "sim_oatep 0 2 3 1 2 5 0 3 -1", "pc_map_sim 0 0 0"]
        rng.shuffle(body)
        return [("pc_map 0 0 1 1 1", "oate#0", True)] + [(ln, "oate#0", False) for ln in body]
    for fam in fams:
        ref, singles, sims = FAMS[fam]
        body = []
        main = fam == "oate"
        pairs = [(a, b) for a in XSMALL for b in ("1", "2", "-1", "0", "3", "r")] + \
                [(b, a) for a in XSMALL for b in ("1", "2", "r+1")]
        rng.shuffle(pairs)
        must = [("0", "1"), ("1", "0"), ("r", "2"), ("2", "r"), ("-1", "1"), ("r-1", "r-1"), ("2", "3"), ("r*2", "1")]
        sel = (must if main else must[:4]) + pairs[:(2 if quick else (10 if main and first else 4))]
        for j, (a, b) in enumerate(sel):
            body.append("%s 0 %d 1 %s %s" % (singles[j % len(singles)], rng.choice([0, 0, 3]), a, b))
        body.append("%s 0 2 1 2 2" % singles[0])            # projective inputs, equal logarithms
        body.append("%s 0 0 1 -1 -1" % singles[-1])
        if main and first and not quick:
            body.append("%s 0 0 1 %x %x" % (singles[0], rng.getrandbits(200), rng.getrandbits(200)))   # one full-size pair
        # multi-pairings: lengths 0..3(4), identities at arbitrary positions
        lens = [0, 1, 2, 2, 3, 3] + ([4, 2, 3] if main and not quick else [])
        if quick:
            lens = [0, 2, 3]
        for jn, n in enumerate(lens):
            toks = []
            for j in range(n):
                a, b = rng.choice(XSMALL[:8]), rng.choice(XSMALL[:8])
                if rng.random() < 0.3:
                    a = rng.choice(["0", "r"])
                if rng.random() < 0.25:
                    b = rng.choice(["0", "r"])
                toks += [a, b]
            if n >= 2 and jn % 2 == 0:
                j = rng.randrange(n)            # an identity pair inside the list, at an arbitrary position
                toks[2 * j + rng.randrange(2)] = rng.choice(["0", "r"])
            body.append("%s 0 %d %d %s" % (sims[jn % len(sims)], rng.choice([0, 0, 2]), n, " ".join(toks)))
        rng.shuffle(body)
        CH = 8
        for c in range(0, len(body), CH):
            tag = "%s#%d" % (fam, c // CH)
            cases.append(("%s 0 0 1 1 1" % ref, tag, True))
            for ln in body[c:c + CH]:
                cases.append((ln, tag, False))
    return cases


def run_sweep(ev, conf, tier, rng):
    import os
    quick = tier == "quick"
    only = os.environ.get("C04_EXT_ONLY")
    # thorough: the builds whose segments have been run to the end on the unchanged tree (C04_EXT_ALL=1: every build of SWEEP)
    RUN = ("fp315", "fp330", "fp354", "fp544", "fp575", "fp765")
    todo = [s for s in SWEEP if (s[0] == "fp315" if quick else (s[0] in RUN or os.environ.get("C04_EXT_ALL") == "1"))]
    if only:
        todo = [s for s in SWEEP if s[0] in only.split(",")]
    ev.cov["rule_sweep"] = ("field-size sweep (k = 8, 16, 18, 24, 48; PpxSpec): per (build, pairing family) segments of <= 8 events "
                            "starting with e(G1,G2); [a]G1 x [b]G2 with a, b over {0, 1, 2, 3, 5, -1, -2, r, r+-1, 2r}, one "
                            "full-size pair per k, projective inputs, multi-pairings of length 0..4 with identity pairs at "
                            "arbitrary positions through pc_map / pc_map_sim and the pp_map_*_k<N> forms of that k; a build "
                            "whose parameter selection fails on the unchanged tree is recorded as skipped")
    core.run_models(ev, [("MCPairSim", "MCPairSim", "identity-pair compaction of pp_map_sim_*: product over the compacted list "
                          "= product over the full list, lists of length 0..3 over Z_3 x Z_3", False)])
    seen_k = set()
    for cfg, k, fams in todo:
        label = "sweep-" + cfg
        try:
            bdir = core.build_relic(cfg)
            exe = core.cc_harness(cfg, "ppx", ["drv_ppx.c"], bdir=bdir)
        except core.InfraError as ex:
            ev.cov["parts"][label] = dict(skipped="build failed: " + str(ex)[-200:])
            continue
        d = os.path.join(conf.wd if hasattr(conf, "wd") else core.workdir("C04", tier), "info-" + cfg)
        os.makedirs(d, exist_ok=True)
        open(os.path.join(d, "c.txt"), "w").write("info\n")
        info = core.run_driver(exe, os.path.join(d, "c.txt"), os.path.join(d, "t.ndjson"))
        if not info or info[0].get("op") != "info" or info[0].get("ok") != 1:
            ev.cov["parts"][label] = dict(skipped="pc_param_set_any() selects no pairing-friendly parameter set of embedding "
                                                  "degree %d in this build on the unchanged tree" % k)
            continue
        first = k not in seen_k
        seen_k.add(k)
        # the Tate / Weil forms are judged in a run of their own: a rejection there must not cut an optimal-ate segment short
        for part, pf in (("", ["oate"]), ("-tw", [f for f in fams if f != "oate"] if first and not quick else [])):
            if pf:
                _sweep_run(conf, label + part, cfg, gen_sweep_cases(rng, pf, quick, first))


def _sweep_run(conf, label, cfg, triples):
    tags = [t[1] for t in triples]
    starts = set(i for i, t in enumerate(triples) if t[2])
    uniq = ["%s #%d" % (t[0], i) if i in starts else t[0] for i, t in enumerate(triples)]
    seg_lines = set(u for i, u in enumerate(uniq) if i in starts)

    def emap(e, tags=tags):
        if 0 <= e.get("i", -1) < len(tags):
            e["fam"] = tags[e["i"]]
        return e
    conf.run(label, cfg, "ppx", ["drv_ppx.c"], uniq, "trace/PpxTrace.tla", shards=4,
             case_seg_start=lambda ln, S=seg_lines: ln in S, event_map=emap,
             nontrivial=lambda e: not (e.get("n") == 1 and e.get("zm") == 0 and
                                       e.get("pairs", [{}])[0].get("a", {}).get("d", [])[:1] == [1] and
                                       not any(e["pairs"][0]["a"]["d"][1:]) and
                                       e["pairs"][0]["b"]["d"][:1] == [1] and not any(e["pairs"][0]["b"]["d"][1:])),
             min_per_shard=8, tlc_timeout=3000, heap="3g")


def replay(path, seed):
    import json
    r = json.load(open(path))
    tag = "replay"

    def emap(e):
        e["fam"] = tag
        return e
    return core.replay_generic(path, event_map=emap)
