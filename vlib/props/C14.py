"""C14 - hashes, MAC, KDFs and the block cipher conform to their standards (DESIGN.md section 4, C14)."""
import os
import random

from vlib import core, gen_md


def nontrivial(e):
    # non-trivial: the call processes more than one compression / cipher block, or exercises a
    # refusal path (error return / invalid padding)
    op = e.get("op", "")
    n = len(e.get("msg", []))
    if op.startswith("bc_"):
        return n > 16 or e.get("ret") == 1
    if op.endswith("_stream"):
        return len(e.get("calls", [])) > 3
    if op in ("md_map_sh384", "md_map_sh512", "sha384_splits", "sha512_splits"):
        return n >= 112
    if op.startswith("md_xmd") or op in ("md_hmac", "md_kdf", "md_mgf"):
        return True
    return n >= 56


def run(tier, seed):
    ev = core.Evidence("C14", tier, seed)
    wd = core.workdir("C14", tier)
    rng = random.Random(seed)
    quick = tier == "quick"
    ev.cov["trusted_base"] = core.TRUSTED
    ev.cov["rule"] = ("cases = every message length 0..300 (SHA-224/256), 0..400 (SHA-384/512), 0..200 (BLAKE2s) with a "
                      "length-dependent byte pattern + fill corners (00/ff/80) at the padding boundaries + seeded random; "
                      "every 2-chunk split of every message up to 130 bytes and scripted streaming sessions "
                      "(Reset/Input/FinalBits/Result, context fields after each call); HMAC key lengths "
                      "{0,1,31..33,63..65,127..129,200} x message lengths at the boundaries; KDF2/MGF1 output lengths "
                      "{0,1,31,32,33,63,64,65,100}; XMD DST lengths {0,1,16,255,256} and outputs up to 255 blocks (+1 refused); "
                      "AES-128/192/256 CBC plaintext lengths 0..64, every final-block padding pattern on decryption, "
                      "capacity and key-size refusals; non-trivial = more than one compression/cipher block or a "
                      "refusal path; distinct by full event")
    # 1. design level: the streaming machine (abstract compression) + the published vectors (ASSUMEs of tla/lib)
    runs = [("ShaStream", "ShaStream", "B=8 LB=1 M=256 MaxLen=40 MaxChunks=3, FinalBits bits in {0,255,165,90}", True),
            ("ShaStream", "ShaStream_ovf", "B=8, length words modulo 16 (overflow at 32 bytes) MaxLen=40 MaxChunks=3", True),
            ("MCMdVectors", "MCMdVectors", "published vectors of FIPS 180-4, RFC 7693 (incl. self-test), RFC 4231, "
                                           "RFC 9380, FIPS 197, SP 800-38A; S-box = its definition", True)]
    if not quick:
        runs.append(("ShaStream", "ShaStream_b16", "B=16 LB=1 M=256 MaxLen=70 MaxChunks=4", True))
    core.run_models(ev, runs)
    # 2. conformance against the pinned build
    parts = gen_md.gen_cases(rng, tier)
    cases = []
    for k in ("hash", "stream", "mac_kdf", "xmd", "aes"):
        cases += parts[k]
    ev.cov["case_parts"] = {k: len(v) for k, v in parts.items()}
    # balance the TLC shards: the evaluation cost of a case is roughly proportional to its length
    rng.shuffle(cases)
    conf = core.Conformance("C14", ev, wd)
    conf.run("std256", "std256", "md", ["drv_md.c"], cases, "trace/MdTrace.tla", nontrivial=nontrivial,
             extra_cc=["-I", os.path.join(core.REPO, "src", "md")], min_per_shard=50,
             tlc_timeout=1500 if quick else 3000)
    return conf.finish()


def replay(path, seed):
    return core.replay_generic(path)
