"""C08 - no out-of-object access; overflow is reported, not performed (DESIGN.md section 4, C08).

Three parts, all decided by TLC on events:
  1. model/AllocFault: the try/finally temporaries discipline under an injected allocation failure
     (and its leaky control, which TLC must refute);
  2. allocation-fault replay in the ALLOC=DYNAMIC build (harness/drv_alloc.c): for every driven call
     and failure point k the outcome must be the one the model proves (reported, nothing left live,
     usable afterwards with the same result) - trace/SafeTrace;
  3. the case sets of the other properties' checks (integer layer incl. operands beyond the
     configured precision, field, curve, codecs with short/exact/long buffers, recodings with short
     lengths, hashes, generator, error macros ...) are harvested by running those checks in COLLECT mode
     and executed in the clang ASan+UBSan variant of their build configuration; a sanitizer report,
     crash or hang is an event no action of trace/SafeTrace explains.
"""
import importlib
import json
import os
import random

from vlib import core

ALLOC_WRAPS = ["malloc", "calloc", "realloc", "free", "posix_memalign"]
CALLS = ["bn_mul", "bn_mul_big", "bn_sqr_big", "bn_lsh_big", "bn_add_big", "bn_mul_dig_big", "bn_copy_big", "bn_sqr", "bn_div_rem", "bn_mod", "bn_gcd_ext", "bn_gcd_lehme", "bn_mod_inv", "bn_mxp_slide",
         "bn_mxp_monty", "bn_mxp_basic", "bn_srt", "bn_is_prime", "bn_write_str", "fp_inv", "fp_exp", "fp_srt",
         "ep_mul_basic", "ep_mul_lwnaf", "ep_mul_lwreg", "ep_mul_monty", "ep_mul_slide", "ep_mul_gen", "ep_mul_sim",
         "ep_mul_sim_gen", "ep_map", "ep_norm", "ep_write_read", "g2_mul", "pc_map", "gt_exp", "g1_map", "cp_ecdsa"]
# checks whose drivers and case sets are re-executed under the sanitizers
HARVEST = ["C01", "C02", "C03", "C07", "C09", "C14", "C15", "C19", "C16", "C17", "C10", "C05", "C06", "C13", "C11",
           "C12", "C04"]


def alloc_part(conf, ev, wd, rng, quick):
    exe = core.cc_harness("dyn", "alloc", ["drv_alloc.c"], wraps=ALLOC_WRAPS)
    # number of allocations per call (baseline), then one case line per failure point
    d = os.path.join(wd, "allocbase")
    os.makedirs(d, exist_ok=True)
    open(os.path.join(d, "c.txt"), "w").write("".join("%s 0\n" % c for c in CALLS))
    base = {}
    for e in core.run_driver(exe, os.path.join(d, "c.txt"), os.path.join(d, "t.ndjson"), timeout=600):
        if e.get("op") == "allocbase":
            base[e["call"]] = e["n"]
    missing = [c for c in CALLS if c not in base]
    if missing:
        raise core.InfraError("allocation baseline missing for %s" % missing)
    lines = []
    per = 30 if quick else 400
    for c in CALLS:
        n = base[c]
        ks = set(range(1, min(n, per) + 1)) | set(max(1, (n * j) // per) for j in range(1, per + 1))
        if not quick and n <= 3000:
            ks = set(range(1, n + 1))
        for k in sorted(ks):
            lines.append("%s %d" % (c, k))          # one line per k: a crash loses only that failure point
    ev.cov["alloc_failure_points"] = len(lines)
    ev.cov["alloc_calls"] = dict(base)

    def emap(e):
        if e.get("op") in ("CRASH", "TIMEOUT") and 0 <= e.get("i", -1) < len(lines):
            e["call"] = lines[e["i"]].split()[0]
            e["k"] = int(lines[e["i"]].split()[1])
            e["alloc"] = 1
        return e
    conf.run("allocfault", "dyn", "alloc", ["drv_alloc.c"], lines, "trace/SafeTrace.tla", wraps=ALLOC_WRAPS,
             event_map=emap, nontrivial=lambda e: e.get("op") == "allocfault", min_per_shard=400,
             driver_timeout=2400, max_restarts=5000)


HARVEST_QUICK = ["C01", "C02", "C03", "C07", "C09", "C15", "C19"]


def harvest(tier, seed, quick):
    """case sets of the other checks (collect mode: nothing is executed or judged there)"""
    out = []
    notes = {}
    for p in (HARVEST_QUICK if quick else HARVEST):
        if not os.path.exists(os.path.join(core.ROOT, "vlib", "props", p + ".py")):
            continue
        core.COLLECT = []
        try:
            mod = importlib.import_module("vlib.props." + p)
            mod.run(tier, seed)
            got = core.COLLECT
        except Exception as ex:                       # a check that cannot be harvested is skipped, and named
            got = core.COLLECT or []
            notes[p] = "collect mode stopped: %s" % str(ex)[:200]
        finally:
            core.COLLECT = None
        out += [g for g in got if g["cases"]]
    return out, notes


def asan_part(conf, ev, wd, rng, quick, tier, seed):
    sets, notes = harvest("quick", seed, quick)
    ev.cov["harvest_notes"] = notes
    done = []
    budget = 20000 if quick else 600000
    for g in sets:
        if g["custom_bdir"]:
            continue                                  # special builds (instrumented objects) are not re-run
        cfg = g["cfg"]
        if cfg not in core.CONFIGS or cfg in ("asan", "multi", "dyn"):
            continue
        if quick and cfg not in ("std256", "w8bn"):
            continue                                  # quick: the pinned build and the 8-bit integer world
        cases = g["cases"]
        if len(cases) > budget:
            cases = rng.sample(cases, budget)
        label = "asan-%s-%s" % (g["prop"], g["label"])

        def emap(e, cases=cases):
            if e.get("op") in ("CRASH", "TIMEOUT") and 0 <= e.get("i", -1) < len(cases):
                e["case"] = cases[e["i"]][:300]
                e["opname"] = cases[e["i"]].split()[0] if cases[e["i"]].split() else ""
                e["asan"] = 1
            return e

        def compress(events, cases=cases):
            """ordinary events are consumed unjudged: keep every abnormal one, a sample of the rest.  A driver that
            surrounds the caller's buffer with guard bytes reports a damaged guard in its event (g = 0 / over = 1):
            that is a write outside the object which the sanitizer cannot see (the guard absorbs it)"""
            ab = [e for e in events if e.get("op") in ("CRASH", "TIMEOUT")]
            for e in events:
                if e.get("g") == 0 or e.get("over") == 1:
                    ci = e.get("i", -1)
                    ab.append(dict(op="GUARD", i=ci, was=e.get("op"), asan=1,
                                   case=cases[ci][:300] if 0 <= ci < len(cases) else ""))
            rest = [e for e in events if e.get("op") not in ("CRASH", "TIMEOUT")]
            return ab + [dict(op="ran", i=e.get("i", 0)) for e in rest[:300]]
        try:
            conf.run(label, cfg + "-asan", g["driver_name"], g["driver_srcs"], cases, "trace/SafeTrace.tla",
                     extra_cc=g["extra_cc"], wraps=g["wraps"], driver_args=g["driver_args"], event_map=emap,
                     nontrivial=lambda e: e.get("op") == "ran", min_per_shard=400, driver_timeout=2400,
                     event_filter=compress, max_restarts=300)
            done.append(label)
        except core.InfraError as ex:
            notes[label] = str(ex)[:300]
    ev.cov["asan_parts"] = done


def run(tier, seed):
    ev = core.Evidence("C08", tier, seed)
    wd = core.workdir("C08", tier)
    rng = random.Random(seed)
    quick = tier == "quick"
    ev.cov["trusted_base"] = core.TRUSTED + ["clang AddressSanitizer / UndefinedBehaviorSanitizer as the observation of "
                                             "out-of-object accesses and undefined operations",
                                             "GNU ld --wrap of malloc/calloc/realloc/free/posix_memalign"]
    ev.cov["rule"] = ("(a) every driven call x failure point k (all k up to a bound, then evenly spaced) in the dynamic-"
                      "allocation build; (b) the case sets of the other checks (operands up to and beyond the configured "
                      "precision, buffer lengths size-1/size/size+1, counts n >= 0, recodings with short lengths) re-executed "
                      "under ASan+UBSan; non-trivial = allocation-fault events / executed sanitizer cases")
    core.run_models(ev, [("AllocFault", "AllocFault", "F with 4 and G with 3 temporaries, every failure point", False)])
    c = core.tlc("model/AllocFault.tla", "model/AllocFault_ctl.cfg", workers=2, timeout=300)
    if c.invariant_violated != "NoLeak":
        raise core.InfraError("control model: the leaky discipline was not refuted")
    ev.cov["model_control"] = "leaky discipline refuted by TLC (NoLeak violated) as expected"
    conf = core.Conformance("C08", ev, wd)
    alloc_part(conf, ev, wd, rng, quick)
    asan_part(conf, ev, wd, rng, quick, tier, seed)
    ev.assumptions += ["over-reads that stay inside a live object or stack frame and uninitialised reads are not observable "
                       "(no MSan-clean libc here)"]
    return conf.finish()


def replay(path, seed):
    return core.replay_generic(path)
