"""Input generation for the C06 extension (harness/drv_mpc.c): secret-shared group multiplications g1_mul_* / g2_mul_* /
gt_exp_* (lcl -> bct -> mpc, both parties) and cp_ped_com.  Python only builds INPUTS (share splittings, triples with
c = ab mod n or deliberately c != ab); every verdict is MpcSpec's."""
import os

from vlib import core


def hx(v):
    return "%x" % v


def probe(cfg, wd, drv):
    """(curve token, group order n) for every identifier that selects a pairing-friendly set with k = 12 in this build"""
    exe = core.cc_harness(cfg, "mpc", drv)
    d = os.path.join(wd, "probe-" + cfg)
    os.makedirs(d, exist_ok=True)
    cp = os.path.join(d, "cases.txt")
    open(cp, "w").write("".join("curve_probe id%d\n" % i for i in range(1, 72)))
    evs = core.run_driver(exe, cp, os.path.join(d, "trace.ndjson"), timeout=300)
    out = []
    for e in evs:
        if e.get("op") == "curve_probe" and e.get("ok") == 1:
            out.append((e["curve"], int.from_bytes(bytes(e["n"]["d"]), "little")))
    return out


def splits(v, n, rng, nrand=1):
    """additive 2-splittings of v mod n: a zero share on either side, a share equal to n - 1 on either side, 1, random"""
    v %= n
    s = [(0, v), (v, 0), (n - 1, (v + 1) % n), ((v + 1) % n, n - 1), (1, (v - 1) % n)]
    for _ in range(nrand):
        t = rng.randrange(n)
        s.append((t, (v - t) % n))
    return s


def gmul(curve, grp, al, bad, tri, x, p):
    return "gmul %s %d %d %d %s %s %s %s %s" % (curve, grp, al, bad, tri, hx(x[0]), hx(x[1]), hx(p[0]), hx(p[1]))


def vtri(a, b, c):
    return "v:" + ",".join(hx(v) for v in (a[0], a[1], b[0], b[1], c[0], c[1]))


def gmul_cases(curve, n, grp, rng, budget, cheap=False):
    """budget: number of honest corner runs (None = all); cheap: prefer small sums x, a (full-size shares that wrap) so that
    the spec's [x]P and [a]B are short - used for GT where one full exponentiation costs seconds in TLC."""
    rnd = lambda: rng.randrange(1, n)
    small = lambda: rng.randrange(2, 1 << 12)
    must, pool, bad = [], [], []
    # ---- the library's own triples (mpc_mt_gen), random sharings
    for j in range(2):
        x, p = rnd(), rnd()
        t = rng.randrange(n)
        u = rng.randrange(n)
        must.append(("lib", gmul(curve, grp, j, 0, "lib:%016x" % rng.getrandbits(64), (t, (x - t) % n), (u, (p - u) % n))))
    # ---- explicit triples: every splitting class of x, a, b, c, p (one dimension varied at a time + random mixes)
    xvals = [0, 1, 2, n - 1, small(), rnd()]
    avals = [0, 1, n - 1, small(), rnd()]
    bvals = [0, 1, n - 1, rnd()]
    pvals = [0, 1, n - 1, rnd()]

    def one(x, a, b, p, sx, sa, sb, sc, sp, al, cls):
        c = a * b % n
        return (cls, gmul(curve, grp, al, 0, vtri(sa(a), sb(b), sc(c)), sx(x), sp(p)))
    pick = lambda v: rng.choice(splits(v, n, rng))
    base = dict(x=(small() if cheap else rnd()), a=(small() if cheap else rnd()), b=rnd(), p=rnd())
    for k in range(6):      # splitting classes, one dimension at a time
        sel = lambda v, k=k: splits(v, n, rng)[k]
        pool.append(one(base["x"], base["a"], base["b"], base["p"], sel, pick, pick, pick, pick, k % 2, "split-x%d" % k))
        pool.append(one(base["x"], base["a"], base["b"], base["p"], pick, sel, pick, pick, pick, (k + 1) % 2, "split-a%d" % k))
        pool.append(one(base["x"], base["a"], base["b"], base["p"], pick, pick, sel, pick, pick, k % 2, "split-b%d" % k))
        pool.append(one(base["x"], base["a"], base["b"], base["p"], pick, pick, pick, sel, pick, (k + 1) % 2, "split-c%d" % k))
        pool.append(one(base["x"], base["a"], base["b"], base["p"], pick, pick, pick, pick, sel, k % 2, "split-p%d" % k))
    for x in xvals:         # values: x = 0 (product = identity), 1, n - 1, ...
        pool.append(one(x, base["a"], base["b"], base["p"], pick, pick, pick, pick, pick, 0, "x=%s" % ("r" if x > 2 and x != n - 1 else x if x <= 2 else "n-1")))
    for a in avals:
        pool.append(one(base["x"], a, base["b"], base["p"], pick, pick, pick, pick, pick, 1, "a=%s" % ("r" if a > 1 and a != n - 1 else a if a <= 1 else "n-1")))
    for b in bvals:
        pool.append(one(base["x"], base["a"], b, base["p"], pick, pick, pick, pick, pick, 0, "b=%s" % ("r" if b > 1 and b != n - 1 else b if b <= 1 else "n-1")))
    for p in pvals:         # P = identity, G, -G
        pool.append(one(base["x"], base["a"], base["b"], p, pick, pick, pick, pick, pick, 1, "p=%s" % ("r" if p > 1 and p != n - 1 else p if p <= 1 else "n-1")))
    # d = 0 (x = a), both d_i = 0 (x_i = a_i), Q = identity (p = b), both Q_i = identity (P_i = B_i), P_0 = -P_1, everything zero
    a, b = base["a"], base["b"]
    sa, sb = pick(a), pick(b)
    idn = lambda v: (lambda _: v)
    must.append(one(a, a, b, base["p"], pick, idn(sa), pick, pick, pick, 0, "d=0"))
    must.append(one(a, a, b, base["p"], idn(sa), idn(sa), pick, pick, pick, 1, "di=0"))
    must.append(one(base["x"], a, b, b, pick, pick, idn(sb), pick, pick, 0, "Q=O"))
    must.append(one(base["x"], a, b, b, pick, pick, idn(sb), pick, idn(sb), 1, "Qi=O"))
    must.append(one(base["x"], a, b, 0, pick, pick, pick, pick, idn((base["p"], n - base["p"])), 0, "P0=-P1"))
    must.append(one(0, 0, 0, 0, idn((0, 0)), idn((0, 0)), idn((0, 0)), idn((0, 0)), idn((0, 0)), 1, "all-zero"))
    must.append(one(n - 1, n - 1, n - 1, n - 1, idn((n - 1, 0)), idn((0, n - 1)), idn((n - 1, 0)), pick, idn((0, n - 1)), 0, "all-n-1"))
    # B_0 + Q = identity for party 0 (its [d](B_0 + Q) term vanishes): p = b_1
    must.append(one(base["x"], a, b, sb[1], pick, pick, idn(sb), pick, pick, 1, "B0+Q=O"))
    # ---- deviating triples (c != ab): the run must NOT reconstruct (soundness of the judge)
    for j, delta in enumerate([1, n - 1, rnd()]):
        x, aa, bb, p = base["x"], base["a"], rnd(), rnd()
        c = (aa * bb + delta) % n
        bad.append(("bad-c+%s" % ("r" if j == 2 else "1" if j == 0 else "(-1)"),
                    gmul(curve, grp, j % 2, 1, vtri(pick(aa), pick(bb), pick(c)), pick(x), pick(p))))
    rng.shuffle(pool)
    if budget is not None:
        pool = pool[:budget]
        bad = bad[:1]
    return must + pool + bad


def ped_cases(curve, n, rng, quick):
    rnd = lambda: rng.randrange(2, n)
    hs = ["m1", "m2", "m" + hx(n - 1), "m" + hx(rnd())]
    rs = [0, 1, n - 1, n, n + 1, rnd(), rng.getrandbits(300)]
    xs = [1, 2, n - 1, rnd()]
    out = []
    combos = [(h, r, x) for h in hs for r in rs for x in xs]
    rng.shuffle(combos)
    for h, r, x in combos[:(10 if quick else len(combos))]:
        out.append(("ped-ok", "ped %s %s %s %s" % (curve, h, hx(r), hx(x))))
    # [x]G + [r]h = identity (h = G, r = n - x); h = -G
    x = rnd()
    out.append(("ped-sum-identity", "ped %s m1 %s %s" % (curve, hx(n - x), hx(x))))
    out.append(("ped-sum-identity", "ped %s m%s %s %s" % (curve, hx(n - 1), hx(x), hx(x))))
    # declined inputs: h = O, x = 0, x = n, x > n
    out.append(("ped-declined", "ped %s inf %s %s" % (curve, hx(rnd()), hx(rnd()))))
    out.append(("ped-declined", "ped %s m%s %s 0" % (curve, hx(rnd()), hx(rnd()))))
    out.append(("ped-declined", "ped %s m%s %s %s" % (curve, hx(rnd()), hx(rnd()), hx(n))))
    out.append(("ped-declined", "ped %s m%s %s %s" % (curve, hx(rnd()), hx(rnd()), hx(n + rnd()))))
    return out
