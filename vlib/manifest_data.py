"""Texts of MANIFEST.json (kept here so the file is regenerated, never hand-edited)."""

HOOKS = {
    "guard": "RELIC_VERIF",
    "enable": "bin/check builds every configuration of /repo's working tree with "
              "-DCFLAGS=\"-Wno-error -DRELIC_VERIF\" into /verif/build/relic/<cfg>-<source hash>",
    "baseline_off_cmd": "cmake -G Ninja -S /repo -B /repo/_build -DCFLAGS=-Wno-error && cmake --build /repo/_build "
                        "&& ctest --test-dir /repo/_build -j8 --timeout 900",
    "source_commits": [],
    "add_only": True,
}

NOTES = ("Model-based verification with explicit TLA+ specifications (DESIGN.md). Every check = TLC model checking of "
         "the design-level modules (tla/model) + conformance of the real library, rebuilt from /repo's working tree, "
         "against the same operators (trace validation, tla/trace) and/or replay of TLC-generated behaviours. "
         "Known findings: /verif/known_findings.json.")

DEFAULT_NA = ("not yet built in this round (DESIGN.md section 5 build order); no check is registered until its spec "
              "and conformance binding exist and pass on the unchanged tree")

NOT_APPLICABLE = {}

_NOTE = ("Trusted: TLC 1.8.0 and the CommunityModules overrides; BigNat.java evaluation accelerator (its TLA+ "
         "definitions are model-checked against native integers, and the override against the definitions); the "
         "compiler/cmake; the projection code of the C drivers (harness/vh.h). Exhaustive only for the small "
         "instances named in the evidence; full-width conformance is by constructed corner cases + seeded random.")

CHECKS = {
    "C01": dict(
        text="Digit-vector primitives, long division (bn_divn_low) and the BigNat oracle are model-checked exhaustively "
             "with TLC at digit widths of 2-4 bits (every carry/quotient-correction/add-back pattern is reached); every "
             "public bn call executed by the drivers - 8-bit-digit build and shipped 64-bit build, corner digit vectors "
             "in every position, division families, all alias patterns and algorithm variants - is validated by TLC "
             "against the mathematical definition (BnSpec over BigInt), including normal form and input preservation.",
        ref="§4 C01, §2.4",
        note=_NOTE,
        technique="TLC model checking of transcribed algorithms + TLC trace validation of recorded bn calls against BigInt spec"),
    "C19": dict(
        text="The try/catch/finally/throw macros are transcribed into a TLA+ state machine (model/Err) whose programs "
             "are generated lazily; TLC checks nearest-handler, handler-neither-skipped-nor-spurious, finaliser-exactly-once, "
             "chain-restored and sticky-code for every program within the token budget (every nesting shape incl. blocks "
             "in handler and finaliser position). Every complete program of the model is replayed through the REAL macros "
             "(harness/err_vm.c) and seeded random longer/deeper token streams are executed and validated by driving the "
             "model's own actions with the recorded tokens (trace/ErrTrace): observation histories must coincide. Context half: model/Ctx (contexts, threads, multi-step selections, derived-"
             "constant groups tagged with their source parameter) is model-checked for NoStaleState and Independence; the real "
             "library is driven through every ordered pair and seeded longer sequences of the selectable parameter sets, "
             "context switches with core_set and concurrent threads (MULTI=PTHREAD build), running after each selection a "
             "probe workload that consults every derived-constant group; trace/CtxTrace requires each probe to equal that "
             "of a freshly initialised library (separate process) with the same last selection. The library as ONE machine "
             "across its layers (model/RelicSys: integer, field-element and point slots, the selected parameter set, the "
             "sticky code; a selection forgets field elements and points and everything afterwards is defined by the new "
             "constants alone) is model-checked over F_11 (cross-layer frame condition, known points on the selected curve) "
             "and call histories over numbered slots with selections changing in the MIDDLE of a history - every identifier "
             "of the 256-bit build and directly installed tiny curves in the 8-bit build - are executed by harness/relic_vm2.c "
             "and validated event by event with the raw projection of every slot of every type (trace/RelicSysTrace); the "
             "constants reported at a selection must equal those a fresh process reports.",
        ref="§4 C19, §4a-C, §7.8",
        note=_NOTE,
        technique="TLC model checking of the macro state machine + replay of all TLC-generated programs into the real macros + trace validation"),
    "C15": dict(
        text="The byte-wise state update of the generator is transcribed as coded (model/Drbg, reduced widths) and TLC "
             "checks V' = (V+H+C+reseed_counter) mod 2^seedlen for all corner V/C/H and counters up to 2^24. The real "
             "generator is run on call histories (instantiate/reseed/generate of every length class incl. refused requests, "
             "injected state corners, integer sampling, seeded random histories; thorough: a 33000-call history) with every "
             "internal SHA-256 call intercepted; TLC steps the SP 800-90A Hash_DRBG machine (model/DrbgSpec) over the trace: "
             "each hash input must be the prescribed one, outputs and (V,C,counter) must follow from the bound digests.",
        ref="§4 C15, §4a-D",
        note=_NOTE + " SHA-256 outputs are bound from the trace (their correctness is C14).",
        technique="TLC model checking of the coded state update + TLC trace validation of structural DRBG traces (ld --wrap) against the Hash_DRBG state machine"),
    "C02": dict(
        text="Montgomery multiplication/reduction (Comba and row-wise) and the add/sub/neg/dbl/hlv carry loops with their "
             "conditional corrections are transcribed digit by digit (model/FpMonty) and model-checked exhaustively with TLC at "
             "digit widths of 2-3 bits for every odd prime modulus of 1-3 digits, every residue pair and every double-length "
             "value below p*R (result < p, result*R = input mod p, no lost carry). Every public fp call executed by the driver - "
             "all parameter ids accepted by fp_param_set in the 256-bit build (NIST, Brainpool, secp256k1, SM2, BN-256, SM9; "
             "thorough: 2^255-19, H2ADC, BLS12-381), five one-digit and nine two-digit primes in 8-bit-digit builds (all "
             "residues; thorough: all pairs), every algorithm variant, alias pattern, exponent class and derived constant - is "
             "validated by TLC against arithmetic modulo p on abstract values (FpSpec over Field/FpRep) with a canonical-range "
             "clause on every output; inverses and roots by relation, inversion of zero must throw.",
        ref="§4 C02",
        note=_NOTE + " fp_smb_binar/fp_smb_divst are driven at 64-bit digits only (their signed-state arithmetic is not 8-bit clean); ARITH=easy only.",
        technique="TLC model checking of transcribed Montgomery/conditional-correction algorithms + TLC trace validation of recorded fp calls against the Z/pZ spec"),
    "C18": dict(
        text="Every parameter id accepted by ep_param_set in the built configurations (six prime curves incl. two BN pairing "
             "sets in the 256-bit build; thorough: the 381- and 255-bit builds and another coordinate system) is dumped "
             "through the getters and TLC evaluates the relations of model/ParamSpec on the dump with BigNat/Curve/Tower "
             "arithmetic whose definitions are themselves model-checked (MCCurve, MCTower): modulus prime, Montgomery and "
             "residue constants, generator on curve, order prime and annihilating, h*r the unique curve order in the Hasse "
             "interval, cofactor clearing, coefficient-class flags, comb generator table entries, beta^3=1, lambda^2+lambda+1=0, "
             "psi(G)=[lambda]G, GLV basis in the lattice with determinant r and short decompositions, BN family polynomials, "
             "embedding degree minimal, tower non-residues define fields, twist coefficients/generator/order/cofactor (also on twist "
             "points outside G2), Frobenius = [p] on G2, advertised security level, the GLV rounding constants as nearest integers of "
             "their defining quotients, the SSWU / SvdW / sqrt(-3) constants of the hash-to-curve maps. The two binary field "
             "polynomials and the two binary curves of the pinned build are judged through C16's driver against model/FbSpec "
             "(polynomial irreducible, generator on the curve, order prime and annihilating, Hasse interval, cofactor class, "
             "Koblitz flag, level). Field-size sweep: every identifier accepted in 20 further builds (FP_PRIME 315 .. 768; quick tier: 315) "
             "with the base and GLV relations, the twelve pairing relations at k = 12, EmbeddingDegree and the new relation FamilyAtSize "
             "(p and r are the family polynomials of BN, BLS12/24/48, KSS16, KSS18 at the curve parameter) elsewhere, j = 1728 endomorphism "
             "relations; the bit-length and r^2 > 16p clauses are demanded at 255 / 256 / 381 bits only (K18-P354 is a 345-bit prime; GMT8, "
             "FM16, AFG16, FM18 have r^2 < p).",
        ref="§4 C18, §7.8",
        note=_NOTE + " Primality of 256-bit values rests on the accelerator's isProbablePrime(128). Binary-curve and Edwards parameter sets are checked under C16/C17. "
             "Twist relations for k != 12 are judged by C04's sweep (G2 generator on the twist, [r]G2 = O). Known finding: AFG16_P510 cofactor (keyed).",
        technique="TLC evaluation of the parameter-set relations (ParamSpec) on getter dumps of every accepted id"),
    "C20": dict(
        text="Design level: the ladder and the regular w-NAF multiplication are transcribed as their digit loops over Z_n "
             "emitting one label per group-level operation; TLC checks that every secret scalar yields the reference label "
             "sequence (self-composition reduced to a reference run) and still computes k*P, and refutes the non-regular "
             "double-and-add control. Code level, purely relational: the objects holding dv_copy_sec/dv_swap_sec/dv_cmp_sec/"
             "util_cmp_sec/fp_copy_sec and the secret-scalar algorithm bodies (ep_mul_monty, ep_mul_lwreg, ep2 forms, "
             "g1/g2_mul_sec, gt_exp_sec, bn_mxp_monty, fp_exp_monty, regular recodings) are recompiled from the working tree "
             "with -fsanitize-coverage=trace-pc; per run the driver records the sequence of group-level callees (ld --wrap) and "
             "the basic-block sequence of the observed functions; trace/CtTrace requires all runs of a class (same algorithm, "
             "same public parameters, secrets of one bit length: extreme Hamming weights, long runs, n-1, random; every "
             "condition bit x data class for the primitives) to have the observation of the class's first run. Non-regular "
             "controls must differ (the observation is not blind).",
        ref="§4 C20",
        note=_NOTE + " Decides control flow only - nothing about time, caches or secret-dependent branches inside callees "
             "not declared constant-time (bn_mod, inversion in ep_norm, bn_rec_frb); compiler output of this build only.",
        technique="TLC model checking of label schedules (self-composition) + relational TLC trace validation of trace-pc / ld --wrap control-flow observations"),
    "C07": dict(
        text="TLA+ module Codec defines every external representation (bn binary/digit-vector/text radix 2..64; fp binary/text; "
             "fp2 plain + packed unitary, fp12 plain; ep and ep2 compressed/uncompressed; Edwards points) as Enc/Dec operators on "
             "byte strings, with the sign convention a parameter. TLC checks them exhaustively in tiny worlds (all 16.8 M byte "
             "strings of length <= 3 over F_251 in thorough, G2/fp2 formats over F_49/F_121/F_169, all integers below 2^10 x "
             "every radix): round trip, advertised size, canonicity, and Dec accepting exactly the image of Enc computed by brute "
             "force. drv_codec.c executes generated cases against the real library (w8p8 tiny world, std256 on all six "
             "selectable prime curves; thorough also b12-381 and ed255) and logs each call; trace/CodecTrace accepts an event iff "
             "Codec explains both verdict and value: valid values incl. zero/identity/maximal, every length 0..L+2, every tag "
             "byte, single-byte corruptions, coordinates >= p, abscissae without a point, wrong/negated ordinates, order-two "
             "points, garbage, buffer lengths size-1/size/size+1 with guard bytes, all radices.",
        ref="§4 C07",
        note=_NOTE + " Second part (drv_codec2 / CodecB / MCCodecB / Codec2Spec, same method): the binary-field text and binary "
             "forms (fb_size_str / fb_write_str / fb_read_str in every power-of-two radix, fb_write_bin / fb_read_bin at every length, "
             "unreduced values) and the binary-curve codecs (eb_size_bin / eb_write_bin / eb_read_bin compressed and uncompressed, "
             "eb_pck / eb_upk out of place and in place) on NIST-B283, NIST-K283 and the GF(2^17) tiny world, for affine, Lopez-Dahab "
             "projective and lambda representations, every tag byte and length, the point of order two; the definitions are "
             "model-checked exhaustively on all curves over GF(8), GF(16) (thorough GF(32)). The (de)compression routines of the "
             "prime-side types are also run in place and out of place (alias events). Third part: extension-field elements fp3 .. fp54 "
             "(fpN_size_bin / _write_bin / _read_bin, full form) and target-group elements (gt_* / the packed cyclotomic forms of fp12, "
             "fp18, fp24, thorough fp48; fp12_pck / fp12_upk) on the 256-bit pairing towers against model/CodecX + Codec3Spec: the bytes are "
             "the concatenation of big-endian coefficients, a packed string denotes its completion by Karabina's formulas iff that "
             "completion lies in the cyclotomic subgroup (g2 = g3 = 0 only for 1), every length band / coefficient >= p / damaged block is "
             "refused, guards around every output buffer; MCCodecX checks Dec(Enc(x)) = x and Enc(Dec(s)) = s on every element of the "
             "cyclotomic subgroup of F_7^12. Not decided: fp54 packed form, fp12_pck_max / upk_max (torus form), ep3/4/8 point codecs, "
             "other field sizes, *_print. The compression "
             "bit is the parity of the STORED representation (y*R mod p in Montgomery builds): self-consistent, not SEC 1 interoperable (observation).",
        technique="TLC model checking of Enc/Dec definitions in tiny worlds + TLC trace validation of recorded codec calls"),
    "C03": dict(
        text="The affine group law (lib/Curve) is model-checked to be a group law for every nonsingular curve over F_5, F_7, F_11. "
             "RELIC's addition and doubling formula programs (affine; complete projective for a=0, a=-3 and generic a incl. the mixed "
             "and Z=1 shortcuts; Jacobian) are transcribed statement by statement with their exceptional-case dispatch and ep_neg, "
             "ep_norm, ep_cmp (model/GroupLaw); TLC checks them against the affine law for every nonsingular curve over F_5..F_13, "
             "every ordered pair of points and every representation. Every multiplication algorithm and recoding (w-NAF, regular "
             "w-NAF, ladder, sliding window, single/double comb, fixed tables, interleaving, Shamir trick, JSF, many-point, GLV "
             "basis/split/interleave) is transcribed as coded over Z_n (model/ScalarMul): each returns k*P for every k in -2n..3n "
             "and 2^j(+-1), n <= 31, w 2..5. Every ep call executed by the driver is validated by TLC through the refinement "
             "mapping from raw Montgomery coordinates + coordinate tag: abstract output = Curve-defined result, multiplication "
             "outputs in normalised affine form, inputs unchanged, every alias pattern - on six curves of the pinned build "
             "(thorough: affine and Jacobian default-coordinate builds, BLS12-381) and five tiny 8-bit-field worlds (GLV, a=-3, "
             "generic a, cofactor 3, cofactor 2) with every ordered pair x {add, sub} and every k in [-2n,3n] x every routine "
             "(sampled in quick).",
        ref="§4 C03",
        note=_NOTE,
        technique="TLC model checking of transcribed formula programs and multiplication algorithms + TLC trace validation of recorded ep calls against the affine group law over BigNat"),
    "C14": dict(
        text="Explicit TLA+ transcriptions of FIPS 180-4 (SHA-224/256/384/512), RFC 7693 (BLAKE2s), RFC 2104, KDF2/MGF1, RFC 9380 "
             "expand_message_xmd and FIPS 197 / SP 800-38A CBC / PKCS#7, with published vectors pinned by ASSUMEs and MCMdVectors. "
             "TLC exhaustively checks the SHA-2 buffering machine (model/ShaStream, ShaCtx) against the standard padding for every "
             "chunking at reduced block and length-field sizes with the compression function abstract (blocks handed to compression "
             "= Pad(msg), length carry, overflow <=> Corrupted, Result idempotent, input after Result refused). Trace validation of "
             "the real library: every message length 0..300/400, every 2-chunk split of short messages and scripted streaming "
             "sessions with the context fields after every call, HMAC key lengths around the block size, KDF/MGF/XMD output "
             "lengths incl. the limits, AES-128/192/256 CBC for plaintext lengths 0..64 and every crafted final-block padding - "
             "each digest, MAC, key stream and ciphertext judged by TLC against the transcriptions.",
        ref="§4 C14",
        note=_NOTE + " Pure TLA+ evaluation (no accelerator) of hashes and AES with the CommunityModules Bitwise overrides.",
        technique="TLC model checking of the streaming/padding machine + TLC trace validation of recorded md/bc calls against TLA+ transcriptions of the standards"),
    "C08": dict(
        text="Claimed in part (see note). (1) model/AllocFault: the try/finally temporaries discipline under an allocation failure "
             "injected at every point - reported, every earlier temporary released once, nothing live afterwards - is model-checked, "
             "and a leaky control is refuted. (2) Allocation-fault replay in the ALLOC=DYNAMIC build with --wrapped allocators: for "
             "32 driven calls (bn, fp, ep, pairing, ECDSA) and every failure point k (all k up to a bound, then evenly spaced; "
             "thorough: all k up to 3000) TLC (trace/SafeTrace) requires the model's outcome: error caught and sticky code set, no "
             "allocation made during the call left live, and the same call repeated without fault reproduces the fault-free "
             "result. (3) The case sets of the other checks (integer operands up to and beyond the configured precision, buffer "
             "lengths size-1/size/size+1 with guard bytes, recodings with short lengths, counts n >= 0, codecs, generator "
             "histories, error-macro programs, re-parameterisation) are harvested in collect mode and re-executed in the clang "
             "ASan+UBSan variant of their configuration; a sanitizer report, crash or hang is an event no action explains.",
        ref="§4 C08",
        note=_NOTE + " 'No access outside its objects' is decided only as far as ASan/UBSan make the access an observable event: "
             "over-reads inside a live object or frame and uninitialised reads are not observable here.",
        technique="TLC model checking of the allocation-failure discipline + TLC trace validation of allocation-fault replays and of sanitizer-build executions (crash/timeout events)"),
    "C04": dict(
        text="Relational, over ghost logarithms: the driver builds P_i = [a_i]G1, Q_i = [b_i]G2 and evaluates a pairing; TLC first "
             "VERIFIES that the logged points are those multiples (lib/Curve over F_p, lib/CurveX over F_p2 - definitions "
             "model-checked by MCCurve/MCTower) and then requires g = g0^(sum a_i b_i mod r) in F_p12 computed by generic "
             "quotient-ring arithmetic (lib/Tower, never gt_exp), where g0 is the value on the generators at the start of the "
             "segment, with g0 != 1 and g0^r = 1. This contains bilinearity in both slots, identity in either slot, "
             "representation independence (projective inputs), and multi-pairings (lengths 0..4, identities at arbitrary "
             "positions) for the optimal ate (pc_map / pp_map_oatep_k12 / sim), Tate and Weil variants on BN-P256 and SM9-P256 "
             "(thorough: BLS12-381). Scalars: 0, 1, 2, 3, -1, -2, r, r+-1, r-2, 2r, small and full-size random. The final "
             "exponentiation is also judged as a function of its own on arbitrary elements of F_p12 (pp_exp_k12 out of place, in "
             "place, through pc_exp): same value, multiplicative, image non-trivial and of order dividing r. Field-size sweep "
             "(harness/drv_ppx.c, model/PpxSpec, trace/PpxTrace): the same relations for the k = 24 (BLS24-315; quick tier: a 10-event "
             "segment), k = 16 (KSS16-330), k = 18 (KSS18-354) and k = 8 (GMT8-544) pairings through pc_map, pp_map_* and the "
             "simultaneous forms, Tate and Weil at k = 16 / 18; MCPairSim checks the identity-pair compaction of the multi-pairings.",
        ref="§4 C04, §7.8",
        note=_NOTE + " Equality with a textbook Miller-loop value is not claimed (the property does not ask for it). k = 48 and the 765/766/768-bit "
             "sets cannot be selected in the portable configuration of the unchanged tree (skipped, named in the evidence). Known findings: the "
             "Tate and Weil pairings of the k = 16 and k = 18 families are not bilinear (keyed; the optimal ate pairings are).",
        technique="TLC trace validation of recorded pairing evaluations against the bilinear relation over ghost logarithms (Tower/CurveX arithmetic)"),
    "C09": dict(
        text="Implementation-shaped models checked exhaustively by TLC: model/Recode (w-NAF, sliding/fixed window, regular recoding, "
             "JSF as coded: all k < 2^10..2^12, w 2..8: exact representation, digit set, non-adjacency/regularity, Solinas' JSF "
             "conditions, length bounds), model/Gcd (double-digit Lehmer with the W-bit cosequence and Euclid fallback, extended "
             "Euclid, extended binary incl. the cofactor fix-up: all pairs below 2^7..2^10 at digit widths 2-4: gcd preserved, "
             "Bezout, termination), model/ModRed (Barrett/Montgomery with final subtractions), MCJacobi (reciprocity-law Jacobi vs "
             "definition). Conformance of 46 bn functions (reductions with their precomputed constants, exponentiations incl. 0 / "
             "negative / over-long exponents, inverses, gcd family incl. bn_gcd_ext_mid lattice conditions, lcm, Legendre/Jacobi, "
             "integer square root, primality tests on Carmichael numbers / strong pseudoprimes / prime squares / close-prime "
             "products, prime generators, Lagrange/evaluation, recodings with capacity errors and guard pages) on the 8-bit-digit "
             "build (exhaustive small ranges) and the shipped 64-bit build (operands to 1024 bits), each event judged by TLC against "
             "BntSpec (BigNat/BigInt; relation form where a witness exists).",
        ref="§4 C09",
        note=_NOTE + " Primality of numbers >= 2^31 rests on isProbablePrime(128); the Gordon structure of bn_gen_prime_stron is "
             "not observable (bit length and primality are). The tau-adic recodings bn_rec_tnaf_get / _mod / tnaf / rtnaf and the signed "
             "aligned column recoding bn_rec_sac are driven by harness/drv_tau.c against model/TauSpec (arithmetic in Z[tau], the "
             "representatives alpha_u by definition as least-norm residues, congruence modulo (tau^m - 1)/(tau - 1) by exact division and "
             "by the eigenvalue homomorphism, digit set / w-non-adjacency / length / regularity clauses, capacities) for m = 283 and tiny m, "
             "with the design model TauRecode (loops as coded, m = 5, 7, k < 2^10, w <= 4: 433 219 states).",
        technique="TLC model checking of transcribed recoding/gcd/reduction algorithms + TLC trace validation of recorded bn calls against the number-theoretic spec"),
    "C13": dict(
        text="The documented hash-to-curve constructions (expand_message_xmd by lib/Xmd; simplified SWU, Shallue-van de Woestijne, "
             "isogeny by Horner, SwiftEC, try-and-increment, Elligator 2; the sgn0 rule; addition and cofactor clearing over "
             "lib/Curve, CurveX, Edwards, BinCurve) are written in TLA+ over BigNat with the library's constants as parameters "
             "checked by their defining relations (RFC 9380 criteria, c[] formulas, sqrt(-3), the isogeny maps, the RFC J.9.1 "
             "vector for BLS12381G1). model/HashToCurve checks the SSWU/SvdW/isogeny programs as coded against RFC 9380 for every "
             "curve over F_5..F_23, every admissible Z, every u (incl. u = 0 and the exceptional u); model/SqrtMod against "
             "enumeration. Every recorded ep_map*/ep_map_rnd/ep2_map*/eb_map/ed_map call (messages of length 0..300 across hash "
             "block boundaries, uniform strings decoding to u = 0, the denominator zeros, multiples of p, too short/long) on "
             "every selectable curve (std256 incl. SWIFT/BASIC builds; thorough: BLS12-381 G1/G2, ed255) is validated: point = "
             "construction, on curve, [n]R = O, and identical on repetition after unrelated calls.",
        ref="§4 C13",
        note=_NOTE + " ep2_map_swift is validity-only; try-and-increment maps accept either root (sign undocumented). DST handling "
             "(6-byte 'RELIC\\0' vs 5-byte) and the upward Z search are documented parameters, not judged against the RFC suites.",
        technique="TLC model checking of transcribed map programs + TLC trace validation of recorded map calls against a TLA+ evaluation of the documented construction"),
    "C17": dict(
        text="lib/Edwards (affine unified law) is model-checked to be an abelian group law on all 74 complete twisted Edwards curves "
             "over F_5..F_13 (MCEdwards). The ed formula programs as coded (affine/projective/extended with T*Z = X*Y, negation, "
             "normalisation, comparison, on-curve, projective->extended conversion) are model-checked against it on the same curves "
             "for all point pairs and Z in {1,2,3} (EdFormulas; F_17 in thorough). Conformance: every exported ed_* group, "
             "multiplication (variable/fixed base, simultaneous), compression, byte-format and map routine of edwards25519 in "
             "PROJC/EXTND/BASIC builds, and of three tiny curves (cofactor 8 and 4) installed in an 8-bit-field world (exhaustive "
             "over all point pairs and a dense scalar range in thorough), validated event by event against the TLA+ definition; "
             "small-order points (order 2/4/8) are constructed by the generator and their order is verified by the spec; ed_map "
             "lands in the prime-order subgroup and is deterministic; parameter relations of the set (C18 style).",
        ref="§4 C17",
        note=_NOTE + " Tiny worlds are installed through the public ctx fields; the sign-bit convention of compression is a "
             "parameter (round trip judged); the Elligator value itself is specified under C13.",
        technique="TLC model checking of the Edwards law and the formula programs + TLC trace validation of recorded ed calls"),
    "C06": dict(
        text="Scheme definitions written out in TLA+ (RFC 8017 RSADP with EME-OAEP, EME-PKCS1-v1_5 and the basic block; Rabin with its "
             "redundancy format; Paillier, Damgard-Jurik (s = 1..3, 4 in thorough) and subgroup Paillier through the L-function; Benaloh; "
             "ECDH, ECMQV and ECIES over lib/Curve with transcribed SHA-256, KDF2, MGF1, HMAC and AES-CBC; Lagrange interpolation at 0; "
             "Beaver triples) are evaluated by TLC on every event of harness/drv_enc, which carries the generated private key; rand_bytes "
             "is interposed so the RSA ciphertext is predicted exactly. Plaintext lengths 0..max with leading-zero / all-FF contents, "
             "homomorphic operand pairs incl. sums that wrap, every (t, n) threshold with every t- and (t-1)-subset, and every byte-, "
             "length-, point- and padding-mutated ciphertext are judged by the same definition (refusal must leave the output untouched "
             "or cleared). Design models model/Enc (as-coded OAEP/PKCS#1 decoders vs RFC 8017 on a toy hash, Paillier/CRT for every "
             "n = pq <= 127, Shamir over Z_5/Z_7) and model/Flows (delegated pairing and pairing-based PSI over Z_3..Z_7, soundness against "
             "a tampering helper) are checked exhaustively, with the as-coded PKCS#1 decoder kept as an expected-to-fail control. "
             "IBE, BGN, SOK, delegated pairing, the three PSI protocols and pairing triples are judged at input/output-contract level "
             "(the set output must equal X intersect Y decided in TLA+; every tampered helper response must be refused) with the library "
             "as witness for pairing values (pairings themselves: C04).",
        ref="§4 C06",
        note=_NOTE + " Not decided: semantic security, collusion of several delegation helpers. A ciphertext representative c >= n of the "
             "right length may be refused or decrypted as c mod n (the property names padding, length and authentication only). "
             "The secret-shared group multiplications g1_mul / g2_mul / gt_exp _lcl, _bct, _mpc (both parties per run, R_0 + R_1 = [x]P "
             "judged in TLA+ on logged coordinates; deviating triples must not reconstruct), cp_ped_com (c = [x]G + [r]h; h = O, x = 0, "
             "x >= n declined) and Shamir reconstruction from every subset of every size >= 2 are driven by harness/drv_mpc.c against "
             "model/MpcSpec, with the flow model MpcFlows over Z_5 (thorough Z_7, Z_11; controls refuted).",
        technique="TLC evaluation of explicit TLA+ scheme definitions on recorded events (trace validation) + TLC model checking of padding/Paillier/sharing/delegation design models"),
    "C05": dict(
        text="Design models: model/Sig (ECDSA and EC-Schnorr over cyclic groups of order 7, 11, 13: every key, nonce, digest, every "
             "(r, s) in -1..2n and every key object incl. identity and off-curve; completeness, acceptance only of triples satisfying the "
             "definition, and coded-guards = definition) and model/RsaPad (the EMSA-PKCS1-v1_5 / basic scanners as coded against the "
             "canonical re-encoding, every byte string over a reduced alphabet) are checked exhaustively; the pinned guards are kept as "
             "expected-to-fail controls (identity public key, missing commitment check, 7-byte padding string, unchecked payload "
             "length, s = 0 not retried). Conformance: for ECDSA and EC-Schnorr on every selectable prime curve, RSA-PSS (1024/1023/522/"
             "521-bit moduli; PKCS#1 v1.5 and basic padding builds in thorough), BLS, Boneh-Boyen and ZSS, drv_sig produces honest "
             "signatures for every message-length class in both hash-then-sign and pre-hashed mode and applies the quantifier's mutation "
             "list (bit flips of message / components / key, r+n, s+n, n-s, n-r, 0, n, negative, sig+N, zero-prefixed and shortened "
             "encodings, mutated ENCODED messages re-signed with the private exponent, identity / off-curve / foreign / negated keys, "
             "forged pairs for the identity key); every verdict must equal the scheme definition evaluated in TLA+ (FIPS 186-4 6.4, "
             "RFC 8017 8.1.2/9.1.2 and 8.2.2/9.2 with transcribed SHA-256/MGF1, pairing schemes through verified ghost logarithms).",
        ref="§4 C05",
        note=_NOTE + " Second conformance part (drv_sig2 / Sig2Spec, same method): proofs and signatures of knowledge (cp_pokdl, cp_pokor, "
             "cp_sokdl, cp_sokor), vBNN-IBS, ring signatures (cp_ers, cp_smlers, cp_etrs with the interpolation in the exponent), "
             "Camenisch-Lysyanskaya A/B/C, Pointcheval-Sanders single/block and two-party forms, multi-key homomorphic signatures "
             "(cp_mklhs, cp_cmlhs with BLS tags): all 17 verifiers with completeness over message lengths / ring sizes / block lengths / "
             "signers x labels and the per-component mutation list, each verdict compared with the definition evaluated in TLA+ after "
             "VERIFYING the logged ghost logarithms (random scalars captured by interposing bn_rand_mod). Not driven: cp_cmlhs with "
             "ECDSA tags, the *_onv/*_off variants. Hash-to-curve values inside verifiers are bound from the execution (correctness: "
             "C13); G_T key elements of cp_cmlhs are bound to their exponents. Known finding (keyed): cp_etrs_ver does not enforce "
             "the interpolation.",
        technique="TLC model checking of signature guards and padding scanners + TLC trace validation of recorded sign/verify calls against TLA+ scheme definitions"),
    "C11": dict(
        text="The affine chord-and-tangent law over a tower level (lib/CurveX over lib/Tower) is model-checked to be a group law on every "
             "nonsingular curve over F_9 (all triples) and on 100/56 curves over F_25/F_49 (MCCurveX); the balanced double-and-add evaluator "
             "equals the linear definition and the k-fold repeated addition. In tiny BN (p=19, r=13) and BLS12 (p=37, r=13) worlds TLC checks "
             "on ALL points of the sextic twist that the untwist-Frobenius-twist map, with constants derived as ep2_curve_set_twist derives "
             "them, is an additive endomorphism satisfying psi^2 - [t]psi + [p] = 0, acts as [p^i] on the order-r subgroup, and that the "
             "cofactor formulas of ep2_mul_cof as coded send every point into the subgroup (MCFrbTwist; a wrong Frobenius exponent is refuted). "
             "Every ep2 call executed by drv_ep2 (group law in all coordinate systems with O in five forms, equal/opposite operands, "
             "non-normalised z; every mul / mul_fix with its pre / mul_sim / sim_lot / mul_dig routine with the C03 corner scalars up to "
             "1024 bits; ep2_frb powers 1..3; ep2_mul_cof on curve points outside the subgroup, small-order points) on the BN_P256 and "
             "SM9_P256 twists (thorough: BLS12-381) is validated by TLC through the refinement mapping from raw Montgomery F_p2 coordinates "
             "+ tag: the abstract output must equal the CurveX-defined result, the Frobenius must equal [p^i mod r]Q on subgroup points, "
             "the cofactor image must lie on the curve and be annihilated by r, inputs unchanged under every alias pattern. "
             "Twists over F_p3 and F_p4 (ep3_* / ep4_*, which exist only at the other pairing field sizes) are driven in builds with "
             "FP_PRIME = 315 (BLS24-315; quick tier: a slice) and, thorough, FP_PRIME = 508 (KSS18-508) by one driver (drv_epn.c) against "
             "model/EpNSpec = CurveX over the degree-3/4 tower the library reveals: group law in every coordinate system with all identity "
             "forms and alias patterns, cmp / norm / norm_sim, every multiplication routine with the same scalar classes plus scalars "
             "structured in the Frobenius basis, epN_frb = [p^i mod r] on subgroup points, epN_mul_cof into the order-r subgroup for "
             "points decompressed from arbitrary x; MCCurveX4 checks the group axioms and the Frobenius characteristic equation on "
             "curves over F_81 (thorough).",
        ref="§4 C11, §7.8",
        note=_NOTE + " BLS48-575 (twist over F_p8) and the 766-bit sets cannot be selected in the portable configuration of the unchanged tree "
             "(curve setup throws ERR_NO_PRECI) and are reported as skipped; the further quartic / cubic sets (fp330, fp638, fp317, fp509) "
             "are available through C11_EXT_SETS but not part of the registered thorough command; small-order point tokens are not generated "
             "for the F_p3 / F_p4 curves; the slope variants ep2_add_slp_basic/ep2_dbl_slp_basic are not driven; the GLS recodings are judged "
             "through the multiplication results only.",
        technique="TLC model checking of the F_p2 group law and of the twist endomorphism / cofactor formulas in tiny pairing-friendly worlds + TLC trace validation of recorded ep2 calls"),
    "C12": dict(
        text="Validity is specified by definition: x is not the identity, lies on the curve (lib/Curve, lib/CurveX) resp. satisfies x^r = 1 in "
             "F_p12 with r | Phi12(p) checked per event, and [r]x = identity, evaluated by double-and-add / square-and-multiply over BigNat. "
             "Every g1/g2/gt_is_valid verdict on members, identities, zero, off-curve coordinates, random curve / twist points, cofactor-part "
             "and small-order points, member + small-order points, arbitrary F_p12 elements, cyclotomic elements of order not dividing r and "
             "products with members must agree; flagged events also verify the intended input class with x^Phi12(p). Every g1/g2 "
             "multiplication form (plain, _sec, _any, _gen, _fix, _dig, _sim, _sim_gen, _sim_lot 0..16 terms, _sim_dig) and gt_exp form "
             "(plain, _sec, _gen, _dig, _sim) must return the k-fold group operation, computed in F_p12 = F_p2[v]/(v^3 - xi)[w]/(w^2 - v) by "
             "generic quotient-ring arithmetic, for scalars 0, +-1, 2, r-1, r, r+1, 2r, negative, random and longer than r, on BN_P256 and "
             "SM9_P256 (thorough: BLS12-381, cofactor > 1 in G1 and G2). In the tiny BN and BLS12 worlds TLC checks on all points of the "
             "twist that the endomorphism equation g2_is_valid evaluates holds exactly for the points annihilated by r (MCFrbTwist).",
        ref="§4 C12",
        note=_NOTE + " GT-input class claims are verified only on flagged events; the G1 and GT endomorphism shortcuts are judged by verdict "
             "only (no tiny-world model of them). Jacobian-tagged operands in the PROJC build are excluded from g1/g2_is_valid (misuse).",
        technique="TLC trace validation of recorded pc calls against definitional validity and exponentiation + TLC model checking of the membership equation in tiny pairing-friendly worlds"),
    "C10": dict(
        text="lib/Tower (generic quotient-ring arithmetic over a described tower, explicit tuples) is the definition. Design models: "
             "MCTowerFrb (p = 7, 11; 13 in thorough: balanced exponentiation = TExp and the semilinear Frobenius = p-th power on all of "
             "F_p2, F_p3 and lattices of F_p4..F_p18) and TowerAlg (the formula programs AS CODED - Karatsuba / complex squaring / "
             "mul_nor on all pairs of F_p2, fp6 Karatsuba, Chung-Hasan squaring, sparse and lazy-reduced products with accumulator "
             "range invariants, fp12 forms incl. both sparse patterns, Granger-Scott and Karabina squarings and decompression on ALL "
             "elements of the cyclotomic subgroup of F_7^12 (2353) resp. F_11^12 (14521) - for p = 7, 13, 19 covering the three residue "
             "classes mod 8) are checked exhaustively by TLC. Conformance: drv_fpx executes every exported fp2..fp54 operation "
             "(add, sub, neg, dbl, mul and sqr in every variant incl. lazy/unreduced and sparse forms, inv, inv_sim, frb for every power "
             "0..degree, exp, exp_dig, exp_cyc, exp_cyc_sim, exp_cyc_sps, conv/test/back/sqr_cyc and compressed forms, srt, is_sqr, "
             "field constants) on the BN_P256 and SM9_P256 towers and on every other selectable 256-bit prime whose residue classes "
             "admit a tower (thorough: BLS12-381, degrees 48 and 54), and in an 8-bit world for p = 7, 13, 19 (degree 2 exhaustively, "
             "cyclotomic subgroup densely); operands: zero, one, zero coefficients in every position, base-field / subfield elements, "
             "cyclotomic and order-r elements, exponents 0, negative, sparse, long. TLC validates every event through the refinement "
             "mapping raw Montgomery coefficients -> tower element against lib/Tower with the tower description (non-residues) revealed "
             "by the library and checked for irreducibility. Field-size sweep: the driver installs the build's own pairing curve "
             "(ep_param_set_any_pairf) and every admitted tower level is driven at FP_PRIME = 315 (quick tier: a 1631-event slice at levels "
             "4, 8, 24) and, thorough, 315, 317, 330, 354, 544, 575 (k = 24, 16, 18, 8, 48 towers), incl. the sparse products of "
             "fp16 / fp24 / fp48 / fp54 and the D-type shape of fp18 (FpxSpec!DxsPre); model/SparseHi checks the fpN_mul_dxs programs as "
             "coded against the schoolbook product on all operands satisfying the precondition (p = 3, 5; a control outside it is refuted).",
        ref="§4 C10, §7.8",
        note=_NOTE + " Known findings: fp54_frb on the 256-bit pairing primes and the Frobenius constants for p = 2 (mod 3) (keyed). Not driven: "
             "compressed squarings and decompression of degrees 24, 48, 54; fp569 (k = 54), fp638, fp766 towers.",
        technique="TLC model checking of transcribed tower formula programs against generic quotient-ring arithmetic + TLC trace validation of recorded fpN calls"),
    "C16": dict(
        text="lib/GF2m (polynomials over GF(2) modulo f, Bitwise-based with a model-checked Java accelerator) and lib/BinCurve (affine "
             "group law of y^2 + xy = x^3 + ax^2 + b) are the definitions: MCGF2m checks the field axioms, Frobenius, trace, half-trace and "
             "square-root identities for every irreducible f up to m = 9 (pure definitions up to m = 7), MCBinCurve the group law incl. the "
             "point of order two, halving = inverse of doubling on the odd-order subgroup and the Frobenius endomorphism on every curve "
             "over GF(2^m), m <= 5 (all a, b), FbLow the comb multiplication, table squaring, trinomial/pentanomial fast reduction, "
             "square-root and iterated-squaring table programs as coded at 8-bit digits. Conformance: drv_fb executes every fb_*, fb2_* "
             "and eb_* routine (all multiplication / squaring / reduction / inversion / solve / exponentiation variants; add, dbl, hlv, "
             "frb, neg, norm, cmp in affine and Lopez-Dahab projective forms; eb_mul basic, lodah, halve, lwnaf, rwnaf (tau-NAF on the "
             "Koblitz curve), fixed-base and simultaneous forms) at m = 283 on NIST-B283 and NIST-K283 and in an 8-bit world over eight "
             "tiny fields with installed random and Koblitz curves (every element for 13 routines, every scalar in [-n-40, 2^17) for "
             "lwnaf in thorough); TLC validates each event against GF2m / BinCurve (value, reduced form, normalised outputs, inputs unchanged).",
        ref="§4 C16",
        note=_NOTE + " GF2m.java accelerator is model-checked against the pure definitions (MCGF2m) and cross-checked at 283 bits in every run. "
             "Known findings (keyed): affine doubling of the order-two point, scalars longer than the order, projective operands of "
             "lodah/rwnaf/halve, fb_exp_slide exponent capacity.",
        technique="TLC model checking of GF(2^m) arithmetic, the binary-curve law and the low-level table programs + TLC trace validation of recorded fb/eb calls"),
}
