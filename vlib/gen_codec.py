"""Case generation for the external representations (C07).  Pure data: Python only
CHOOSES inputs (it may search for them with its own arithmetic, e.g. the first x
with a non-residue right-hand side); every verdict is TLC's (trace/CodecTrace)."""
import random

ALPHA = "0123456789ABCDEFGHIJKLMNOPQRSTUVWXYZabcdefghijklmnopqrstuvwxyz+/"
TINY251 = dict(p=251, a=1, b=60, gx=114, gy=124, r=127, h=2)    # order 254 = 2 * 127: one point of order two
TINY241 = dict(p=241, a=1, b=21, gx=65, gy=104, r=113, h=2)     # p = 1 mod 16 (Tonelli-Shanks with s = 4)


def tiny_spec(t):
    return "t:%x:%x:%x:%x:%x:%x:%x" % (t["p"], t["a"], t["b"], t["gx"], t["gy"], t["r"], t["h"])


def hx(v):
    if v == 0:
        return "0"
    return ("-" if v < 0 else "") + "%x" % abs(v)


def hb(bs):
    bs = bytes(bs)
    return bs.hex() if bs else "."


def be(v, n):
    return v.to_bytes(n, "big")


# ------------------------------------------------------------------ input search helpers
def legendre(a, p):
    a %= p
    if a == 0:
        return 0
    return 1 if pow(a, (p - 1) // 2, p) == 1 else -1


def sqrt_mod(a, p):
    """a square root of a mod p (p odd prime) or None (used only to pick inputs)"""
    a %= p
    if a == 0:
        return 0
    if legendre(a, p) != 1:
        return None
    if p % 4 == 3:
        return pow(a, (p + 1) // 4, p)
    q, s = p - 1, 0
    while q % 2 == 0:
        q //= 2
        s += 1
    z = 2
    while legendre(z, p) != -1:
        z += 1
    m, c, t, r = s, pow(z, q, p), pow(a, q, p), pow(a, (q + 1) // 2, p)
    while t != 1:
        i, t2 = 0, t
        while t2 != 1:
            t2 = t2 * t2 % p
            i += 1
        b = pow(c, 1 << (m - i - 1), p)
        m, c = i, b * b % p
        t, r = t * c % p, r * b % p
    return r


class Cv:
    """curve parameters as VALUES (from the driver's probe event or a tiny world)"""

    def __init__(self, spec, p, a, b, gx, gy, n, fb, pairf, pp=0, digs=16, w=8, cap=34, qnr=-1):
        self.spec, self.p, self.a, self.b, self.gx, self.gy, self.n = spec, p, a, b, gx, gy, n
        self.fb, self.pairf, self.pp, self.digs, self.w, self.cap, self.qnr = fb, pairf, pp, digs, w, cap, qnr

    def rhs(self, x):
        return (x * x * x + self.a * x + self.b) % self.p

    def lift(self, x):
        y = sqrt_mod(self.rhs(x), self.p)
        return None if y is None else (x, y)

    def add(self, P, Q):
        p = self.p
        if P is None:
            return Q
        if Q is None:
            return P
        if P[0] == Q[0]:
            if (P[1] + Q[1]) % p == 0:
                return None
            l = (3 * P[0] * P[0] + self.a) * pow(2 * P[1], -1, p) % p
        else:
            l = (Q[1] - P[1]) * pow(Q[0] - P[0], -1, p) % p
        x = (l * l - P[0] - Q[0]) % p
        return (x, (l * (P[0] - x) - P[1]) % p)

    def mul(self, k, P):
        R = None
        while k:
            if k & 1:
                R = self.add(R, P)
            P = self.add(P, P)
            k >>= 1
        return R

    def two_torsion_x(self, rng):
        """the abscissae with x^3 + ax + b = 0 (points of order two), by gcd(x^p - x, f) and
        random splitting; [] if the group order is odd (input search only)"""
        p = self.p
        f = [self.b % p, self.a % p, 0, 1]                       # little-endian coefficients

        def trim(u):
            while u and u[-1] == 0:
                u.pop()
            return u

        def pmod(u, m):
            u = u[:]
            dm = len(m) - 1
            inv = pow(m[-1], -1, p)
            while len(u) - 1 >= dm and trim(u):
                if len(u) - 1 < dm:
                    break
                k = u[-1] * inv % p
                sh = len(u) - 1 - dm
                for i, c in enumerate(m):
                    u[sh + i] = (u[sh + i] - k * c) % p
                trim(u)
            return u

        def pmul(u, w, m):
            r = [0] * (len(u) + len(w) - 1) if u and w else []
            for i, x in enumerate(u):
                for j, y in enumerate(w):
                    r[i + j] = (r[i + j] + x * y) % p
            return pmod(trim(r), m)

        def ppow(u, e, m):
            r = [1]
            while e:
                if e & 1:
                    r = pmul(r, u, m)
                u = pmul(u, u, m)
                e >>= 1
            return r

        def pgcd(u, w):
            u, w = trim(u[:]), trim(w[:])
            while w:
                u, w = w, pmod(u, w)
            if u:
                inv = pow(u[-1], -1, p)
                u = [c * inv % p for c in u]
            return u

        def psub(u, w):
            n = max(len(u), len(w))
            return trim([((u[i] if i < len(u) else 0) - (w[i] if i < len(w) else 0)) % p for i in range(n)])
        g = pgcd(f, psub(ppow([0, 1], p, f), [0, 1]))
        roots, work = [], [g]
        tries = 0
        while work and tries < 200:
            h = work.pop()
            if len(h) <= 1:
                continue
            if len(h) == 2:
                roots.append((-h[0]) % p)
                continue
            tries += 1
            r = rng.randrange(p)
            t = psub(ppow([r, 1], (p - 1) // 2, h), [1])
            d = pgcd(h, t)
            if 1 < len(d) < len(h):
                work.append(d)
                q = h[:]
                # exact division h / d
                quo = [0] * (len(h) - len(d) + 1)
                q = h[:]
                invd = pow(d[-1], -1, p)
                for i in range(len(quo) - 1, -1, -1):
                    k = q[i + len(d) - 1] * invd % p
                    quo[i] = k
                    for j, c in enumerate(d):
                        q[i + j] = (q[i + j] - k * c) % p
                work.append(trim(quo))
            else:
                work.append(h)
        return sorted(x for x in roots if self.rhs(x) == 0)

    def next_on(self, x):
        while self.lift(x % self.p) is None:
            x += 1
        return self.lift(x % self.p)

    def next_off(self, x):
        while legendre(self.rhs(x % self.p), self.p) != -1:
            x += 1
        return x % self.p


def from_le(bs):
    return int.from_bytes(bytes(bs), "little")


def curve_from_probe(e):
    """decode the driver's curve_probe event (raw, possibly Montgomery) into values"""
    p = from_le(e["p"])
    rinv = pow(1 << (8 * e["w"] * e["fd"]), -1, p) if e["mont"] == 1 else 1

    def val(raw):
        return from_le(raw) * rinv % p
    return Cv(e["curve"], p, val(e["ca"]), val(e["cb"]), val(e["G"]["x"]), val(e["G"]["y"]),
              from_le(e["n"]["d"]), e["fb"], e["pairf"], e.get("pp", 0), e.get("bndigs", 16), e["w"], e.get("bncap", 34), e.get("qnr", -1))


def tiny_curve(t, digs=4):
    return Cv(tiny_spec(t), t["p"], t["a"], t["b"], t["gx"], t["gy"], t["r"], 1, 0, 0, digs, 1)


# ------------------------------------------------------------------ integers
def numeral(v, radix):
    if v == 0:
        return "0"
    s, m = "", abs(v)
    while m:
        s = ALPHA[m % radix] + s
        m //= radix
    return ("-" if v < 0 else "") + s


def bn_values(w, digs, rng, nrand):
    bits = 8 * w * digs
    out = {0, 1, 2, 255, 256, 257, 65535, 65536}
    for k in sorted({7, 8, 9, 8 * w - 1, 8 * w, 8 * w + 1, 16 * w - 1, 16 * w, 16 * w + 1, bits // 2, bits - 8, bits - 1, bits}):
        if 0 < k <= bits:
            out |= {(1 << k) - 1, 1 << (k - 1)}
            if k < bits:
                out.add(1 << k)
                out.add((1 << k) + 1)
    for _ in range(nrand):
        out.add(rng.getrandbits(rng.randint(1, bits)))
    return sorted(v for v in out if v < (1 << bits))


def gen_bn(w, digs, cap, rng, tier):
    quick = tier == "quick"
    cases = []
    vals = bn_values(w, digs, rng, 12 if quick else 60)
    for v in vals:
        size = (v.bit_length() + 7) // 8
        cases.append("bn_size_bin %s" % hx(v))
        for ln in sorted({0, max(0, size - 1), size, size + 1, size + w + 1}):
            cases.append("bn_write_bin %s %d" % (hx(v), ln))
        enc = be(v, size)
        for lead in (0, 1, w, w + 1):
            cases.append("bn_read_bin %s" % hb(b"\0" * lead + enc))
        cases.append("bn_read_bin %s" % hb(enc + b"\0"))
        sr = max(1, (size + w - 1) // w)
        for ln in sorted({0, sr - 1, sr, sr + 1}):
            cases.append("bn_write_raw %s %d" % (hx(v), ln))
        for ln in sorted({sr, sr + 1, sr + 2}):
            cases.append("bn_read_raw %s %d" % (hx(v), ln))
    cases.append("bn_read_raw 0 0")
    # strings of every length around the precision and the physical capacity
    for ln in sorted(set(range(0, 2 * w + 2)) | {w * digs - 1, w * digs, w * digs + 1, w * cap - 1, w * cap, w * cap + 1, w * cap + w + 1}):
        cases.append("bn_read_bin %s" % hb(b"\xff" * ln))
        cases.append("bn_read_bin %s" % hb(b"\x01" + b"\0" * (ln - 1)) if ln else "bn_read_bin .")
    for ln in (digs, digs + 1, cap, cap + 1):
        cases.append("bn_read_raw %s %d" % (hx((1 << (8 * w * min(ln, cap))) - 1), ln))
    # text: every radix (and invalid ones)
    tbits = 8 * w * digs // 2 - 8          # numerals in radix 2 stay inside the precision
    for radix in list(range(2, 65)) + [0, 1, 65, 66, 100, 255]:
        r = min(max(radix, 2), 64)
        tv = {0, 1, r - 1, r, r + 1, r * r - 1, r * r, (1 << tbits) - 1, 1 << (tbits - 1)}
        for _ in range(2 if quick else 8):
            tv.add(rng.getrandbits(rng.randint(1, tbits)))
        tv = sorted(v for v in tv if v < (1 << tbits))
        for m in tv:
            for v in ({m, -m}):
                cases.append("bn_size_str %s %d" % (hx(v), radix))
                nm = numeral(v, r)
                size = len(nm) + 1
                for ln in sorted({0, size - 1, size, size + 1}):
                    cases.append("bn_write_str %s %d %d" % (hx(v), radix, ln))
                b = nm.encode()
                forms = [b + b"\0", b, b.lower() + b"\0", b.upper(), b"0" + b + b"\0" if v >= 0 else b"-0" + b[1:] + b"\0",
                         b + b"x\0", b + b"\0" + b"7", b[:1] + b"!" + b[1:]]
                for f in forms[:(4 if quick and m not in (0, r, r * r - 1) else len(forms))]:
                    cases.append("bn_read_str %s %d" % (hb(f), radix))
        # characters around the alphabet boundaries, empty string, bare sign, high bytes
        for s in (b"", b"\0", b"-", b"-\0", b"-0\0", b"+1\0", b" 1\0", b"1 \0", b".\0", b":\0", b"@\0", b"[\0", b"`\0", b"{\0",
                  b"\x80\0", b"\xff\0", b"1\xff\0", b"--1\0", ALPHA[r - 1].encode() + b"\0",
                  ALPHA[min(r, 63)].encode() + b"\0", b"1" + ALPHA[min(r, 63)].encode() + b"1\0", b"z\0", b"Z\0", b"+\0", b"/\0", b"a\0", b"A\0"):
            cases.append("bn_read_str %s %d" % (hb(s), radix))
    return cases


# ------------------------------------------------------------------ field elements
def fp_values(cv, rng, nrand):
    p, fb = cv.p, cv.fb
    out = {0, 1, 2, p - 1, p - 2, (p - 1) // 2, (p + 1) // 2}
    for k in range(1, fb + 1):
        for v in ((1 << (8 * k)) - 1, 1 << (8 * k - 1), 1 << (8 * (k - 1))):
            if v < p:
                out.add(v)
    for _ in range(nrand):
        out.add(rng.randrange(p))
    return sorted(out)


def mutations(enc):
    """valid body with single bytes replaced by 00 / FF / ^01"""
    out = []
    for i in range(len(enc)):
        for nb in (0x00, 0xFF, enc[i] ^ 1):
            if nb != enc[i]:
                out.append(enc[:i] + bytes([nb]) + enc[i + 1:])
    return out


def gen_fp(cv, rng, tier, text=True):
    quick = tier == "quick"
    c, p, fb = cv.spec, cv.p, cv.fb
    cases = []
    vals = fp_values(cv, rng, 4 if quick else 24)
    top = (1 << (8 * fb)) - 1
    for v in vals:
        for ln in sorted({0, fb - 1, fb, fb + 1, 2 * fb}):
            cases.append("fp_write_bin %s %s %d" % (c, hx(v), ln))
        cases.append("fp_read_bin %s %s" % (c, hb(be(v, fb))))
    for v in sorted({p, p + 1, top, top - 1, p + (top - p) // 2} | {min(top, p + (1 << (8 * k))) for k in range(fb)}):
        if p <= v <= top:
            cases.append("fp_read_bin %s %s" % (c, hb(be(v, fb))))
    body = be(vals[len(vals) // 2], fb)
    for ln in range(0, fb + 3):                                   # every length 0..L+2
        for src in (body, be(p - 1, fb), b"\0" * fb):
            s = (src + b"\0\0\0")[:ln]
            cases.append("fp_read_bin %s %s" % (c, hb(s)))
    cases.append("fp_read_bin %s %s" % (c, hb(b"\0" + body)))      # leading garbage
    cases.append("fp_read_bin %s %s" % (c, hb(b"\0" + body[:-1])))  # shifted
    for src in (body, be(p - 1, fb), be(p, fb)):
        muts = mutations(src)
        if quick and len(muts) > 40:
            muts = muts[:12] + rng.sample(muts[12:], 28)
        for m in muts:
            cases.append("fp_read_bin %s %s" % (c, hb(m)))
    if text:
        tvals = [0, 1, p - 1, vals[len(vals) // 2], rng.randrange(p)]
        for radix in list(range(2, 65)) + [0, 1, 65, 255]:
            for v in (tvals if not quick else tvals[:3] + [rng.randrange(p)]):
                cases.append("fp_size_str %s %s %d" % (c, hx(v), radix))
                nm = numeral(v, min(max(radix, 2), 64))
                size = len(nm) + 1
                for ln in sorted({0, size - 1, size, size + 1}):
                    cases.append("fp_write_str %s %s %d %d" % (c, hx(v), radix, ln))
                cases.append("fp_read_str %s %s %d" % (c, hb(nm.encode() + b"\0"), radix))
            r = min(max(radix, 2), 64)
            for v in (p, p + 1, -1, -(p - 1), -p, 2 * p + 3):                    # reading reduces modulo p
                cases.append("fp_read_str %s %s %d" % (c, hb(numeral(v, r).encode() + b"\0"), radix))
            cases.append("fp_read_str %s %s %d" % (c, hb(b"\0"), radix))
            cases.append("fp_read_str %s %s %d" % (c, hb(b"1x\0"), radix))
    return cases


def gen_fpx(cv, rng, tier):
    """fp2 / fp12, uncompressed form (only where a field element has more than one byte)"""
    quick = tier == "quick"
    c, p, fb = cv.spec, cv.p, cv.fb
    cases = []
    corner = [0, 1, p - 1, (p - 1) // 2, rng.randrange(p), rng.randrange(p)]
    for deg, name in ((2, "fp2"), (12, "fp12")):
        if deg == 12 and not cv.pp:
            continue
        z = deg * fb
        vecs = [[0] * deg, [1] + [0] * (deg - 1), [p - 1] * deg, [rng.choice(corner) for _ in range(deg)],
                [rng.randrange(p) for _ in range(deg)]]
        for i in range(deg if not quick else 3):
            vv = [0] * deg
            vv[(i * 5) % deg] = p - 1
            vecs.append(vv)
        skip = {fb + 1} if deg == 2 else {8 * fb}
        for vs in vecs:
            tok = ",".join(hx(v) for v in vs)
            for ln in sorted({0, z - 1, z, z + 1}):
                cases.append("%s_write_bin %s %s %d" % (name, c, tok, ln))
            enc = b"".join(be(v, fb) for v in vs)
            cases.append("%s_read_bin %s %s" % (name, c, hb(enc)))
        base = [rng.randrange(p) for _ in range(deg)]
        enc = b"".join(be(v, fb) for v in base)
        for i in range(deg):                                       # coefficient i out of range
            for bad in (p, p + 1, (1 << (8 * fb)) - 1):
                e2 = enc[:i * fb] + be(bad, fb) + enc[(i + 1) * fb:]
                cases.append("%s_read_bin %s %s" % (name, c, hb(e2)))
        lens = sorted(({0, 1, fb - 1, fb, fb + 2, z - fb, z - 1, z + 1, z + 2, z + fb} | skip) - {z})
        for ln in lens:
            cases.append("%s_read_bin %s %s" % (name, c, hb((enc + b"\0" * (2 * fb))[:ln])))
        muts = mutations(enc)
        for m in (rng.sample(muts, min(len(muts), 30 if quick else 200))):
            cases.append("%s_read_bin %s %s" % (name, c, hb(m)))
    return cases


# ------------------------------------------------------------------ points
def pt_tok(P, rep=""):
    if P is None:
        return "inf"
    return "%s,%s%s" % (hx(P[0]), hx(P[1]), rep)


def gen_ep(cv, rng, tier):
    quick = tier == "quick"
    c, p, fb = cv.spec, cv.p, cv.fb
    G = (cv.gx, cv.gy)
    cases = []
    top = (1 << (8 * fb)) - 1
    ks = [1, 2, 3, cv.n - 1, cv.n - 2] + [rng.randrange(1, cv.n) for _ in range(3 if quick else 16)]
    pts = [cv.mul(k, G) for k in ks]
    pts += [cv.next_on(0), cv.next_on(1), cv.next_on(rng.randrange(p)), cv.next_on(p - 20 if p > 40 else 0)]
    pts = [P for P in pts if P is not None]
    pts += [(P[0], (p - P[1]) % p) for P in pts[:6]]
    seen, upts = set(), []
    for P in pts:
        if P not in seen:
            seen.add(P)
            upts.append(P)
    pts = upts
    # ---- writers
    for pack in (0, 1):
        cases.append("ep_size_bin %s inf %d" % (c, pack))
        for ln in (0, 1, 2, fb + 1, 2 * fb + 2):
            cases.append("ep_write_bin %s inf %d %d" % (c, pack, ln))
    for j, P in enumerate(pts):
        reps = [""]
        if j < 6 or not quick:
            reps += ["/p%s" % hx(rng.randrange(2, p)), "/j%s" % hx(rng.randrange(2, p)), "/j%s" % hx(p - 1)]
        for rep in reps:
            for pack in (0, 1):
                size = 1 + fb * (1 if pack else 2)
                cases.append("ep_size_bin %s %s %d" % (c, pt_tok(P, rep), pack))
                for ln in sorted({0, 1, size - 1, size, size + 1}):
                    cases.append("ep_write_bin %s %s %d %d" % (c, pt_tok(P, rep), pack, ln))
        cases.append("ep_pck %s %s" % (c, pt_tok(P)))
        cases.append("alias %s ep_pck %s" % (c, pt_tok(P)))
        for bit in (0, 1):
            cases.append("ep_upk %s %s %d" % (c, hx(P[0]), bit))
            cases.append("alias %s ep_upk %s %d" % (c, hx(P[0]), bit))
    offs = sorted({cv.next_off(s) for s in (0, 1, 2, rng.randrange(p), p - 20 if p > 40 else 3)})
    for x in offs:
        for bit in (0, 1):
            cases.append("ep_upk %s %s %d" % (c, hx(x), bit))
    # ---- reader
    def rd(bs):
        cases.append("ep_read_bin %s %s" % (c, hb(bs)))
    rd(b"")
    for P in pts:
        x, y = be(P[0], fb), be(P[1], fb)
        for tag in (2, 3):
            rd(bytes([tag]) + x)                                   # both ordinates over x
        rd(b"\4" + x + y)
        rd(b"\4" + x + be((p - P[1]) % p, fb))                      # negated ordinate: the other point
        rd(b"\4" + x + be((P[1] + 1) % p, fb))                      # wrong ordinate: off the curve
        rd(b"\4" + y + x)                                           # coordinates swapped
    P = pts[len(pts) // 2]
    x, y = be(P[0], fb), be(P[1], fb)
    bodies = {1: b"", fb + 1: x, 2 * fb + 1: x + y}
    for ln, body in bodies.items():                                # every tag byte on a valid body
        for tag in range(256):
            rd(bytes([tag]) + body)
    for tag in (0, 2, 3, 4, 6):                                    # every length 0..L+2
        for ln in range(0, 2 * fb + 4):
            rd((bytes([tag]) + x + y + b"\0\0\0")[:ln])
    for Q in ([P] if quick else pts[:4]):
        xq, yq = be(Q[0], fb), be(Q[1], fb)
        for full in (b"\4" + xq + yq, bytes([2 + (Q[1] & 1)]) + xq, bytes([3 - (Q[1] & 1)]) + xq):
            for m in mutations(full):
                rd(m)
        rd(b"\0" + b"\4" + xq + yq)                                 # leading / trailing garbage
        rd(b"\4" + xq + yq + b"\0")
        rd(b"\2" + xq + b"\0")
        rd(b"\0" + b"\2" + xq)
        rd(b"\6" + xq + yq)                                        # hybrid forms are not accepted
        rd(b"\7" + xq + yq)
    for bad in sorted({p, p + 1, top, top - 1} | {min(top, p + (1 << (8 * k))) for k in range(fb)}):
        if bad > top or bad < p:
            continue
        bb = be(bad, fb)
        for tag in (2, 3):
            rd(bytes([tag]) + bb)                                  # x >= p
        rd(b"\4" + bb + y)
        rd(b"\4" + x + bb)                                         # y >= p
        rd(b"\4" + bb + bb)
        if bad - p < p and cv.lift(bad - p) is not None:           # x + p with x on the curve: must not be reduced
            rd(b"\4" + bb + be(cv.lift(bad - p)[1], fb))
    for x0 in offs:                                                # x with no point on the curve
        xb = be(x0, fb)
        rd(b"\2" + xb)
        rd(b"\3" + xb)
        rd(b"\4" + xb + y)
        rd(b"\4" + xb + be(0, fb))
        rd(b"\4" + xb + be(1, fb))
    rd(b"\4" + be(0, fb) + be(0, fb))
    rd(b"\2" + be(0, fb))
    rd(b"\3" + be(0, fb))
    for x0 in cv.two_torsion_x(rng):                               # points of order two (x, 0): only one sign bit is canonical
        xb = be(x0, fb)
        rd(b"\2" + xb)
        rd(b"\3" + xb)
        rd(b"\4" + xb + be(0, fb))
        cases.append("ep_upk %s %s 0" % (c, hx(x0)))
        cases.append("ep_upk %s %s 1" % (c, hx(x0)))
        for pack in (0, 1):
            cases.append("ep_write_bin %s %s %d %d" % (c, pt_tok((x0, 0)), pack, 1 + fb * (1 if pack else 2)))
    return cases


def gen_tiny_strings(cv, rng, tier):
    """tiny world (a field element is one byte): byte strings of length <= 3 into the three decoders"""
    quick = tier == "quick"
    c, p = cv.spec, cv.p
    cases = []
    two = []                                                       # abscissae with x^3 + ax + b = 0
    for x in range(p):
        if cv.rhs(x) == 0:
            two.append(x)
    strs = [b""] + [bytes([a]) for a in range(256)]
    if quick:
        strs += [bytes([t, x]) for t in (0, 2, 3, 4) for x in range(256)]
        strs += [bytes([rng.randrange(256), rng.randrange(256)]) for _ in range(1500)]
        on = [(x, y) for x in range(p) for y in range(p) if (y * y - cv.rhs(x)) % p == 0]
        strs += [bytes([4, x, y]) for (x, y) in on]                                 # every point
        strs += [bytes([4, x, (y + 1) % 256]) for (x, y) in on[::3]]
        strs += [bytes([4, rng.randrange(256), rng.randrange(256)]) for _ in range(3000)]
        strs += [bytes([rng.choice((0, 2, 3, 5, 6, 7, 255)), rng.randrange(256), rng.randrange(256)]) for _ in range(1500)]
        strs += [bytes([rng.randrange(256), rng.randrange(256), rng.randrange(256)]) for _ in range(1500)]
    else:
        strs += [bytes([t, x]) for t in range(256) for x in range(256)]              # all strings of length <= 2
        strs += [bytes([t, x, y]) for t in range(8) for x in range(256) for y in range(256)]   # all with first byte 0..7
        strs += [bytes([rng.randrange(8, 256), rng.randrange(256), rng.randrange(256)]) for _ in range(60000)]
    for s in strs:
        cases.append("ep_read_bin %s %s" % (c, hb(s)))
    for x in two:
        for t in (2, 3):
            cases.append("ep_read_bin %s %s" % (c, hb(bytes([t, x]))))
        cases.append("ep_upk %s %s 0" % (c, hx(x)))
        cases.append("ep_upk %s %s 1" % (c, hx(x)))
    sub = strs if not quick else strs[:257 + 1024] + rng.sample(strs[257 + 1024:], 1500)
    if not quick:
        sub = [s for s in strs if len(s) <= 2] + rng.sample([s for s in strs if len(s) == 3], 20000)
    for s in sub:
        cases.append("fp_read_bin %s %s" % (c, hb(s)))
        cases.append("bn_read_bin %s" % hb(s))
    # every field element and every point through the writers
    for v in range(p):
        cases.append("fp_write_bin %s %s 1" % (c, hx(v)))
    for v in (0, 1, p - 1):
        for ln in (0, 2, 3):
            cases.append("fp_write_bin %s %s %d" % (c, hx(v), ln))
    for x in range(p):
        P = cv.lift(x)
        if P is None:
            continue
        for Q in {P, (x, (p - P[1]) % p)}:
            for pack in (0, 1):
                size = 2 + (0 if pack else 1)
                for ln in ((size,) if quick and x % 8 else (size - 1, size, size + 1)):
                    cases.append("ep_write_bin %s %s %d %d" % (c, pt_tok(Q), pack, ln))
            if not quick or x % 4 == 0:
                cases.append("ep_pck %s %s" % (c, pt_tok(Q)))
    for x in range(p if not quick else 64):
        for bit in (0, 1):
            cases.append("ep_upk %s %s %d" % (c, hx(x), bit))
    return cases


def gen_tiny_text(rng, tier):
    """tiny world: every (value < 2^10, radix 2..64) through the text writers and back"""
    quick = tier == "quick"
    cases = []
    vals = list(range(0, 1024)) if not quick else sorted(set(list(range(0, 70)) + [127, 128, 255, 256, 511, 512, 1000, 1023]
                                                            + [rng.randrange(1024) for _ in range(20)]))
    for radix in range(2, 65):
        for m in vals:
            for v in ((m, -m) if (not quick or m % 7 == 0 or m > 500) else (m,)):
                nm = numeral(v, radix)
                cases.append("bn_write_str %s %d %d" % (hx(v), radix, len(nm) + 1))
                cases.append("bn_read_str %s %d" % (hb(nm.encode() + b"\0"), radix))
                if quick and m % 5:
                    continue
                cases.append("bn_size_str %s %d" % (hx(v), radix))
                cases.append("bn_write_str %s %d %d" % (hx(v), radix, len(nm)))
    return cases


# ------------------------------------------------------------------ points over F_p^2 (G2)
class F2:
    """F_p[i]/(i^2 = q) arithmetic, only to CHOOSE inputs (points with y in F_p)"""

    def __init__(self, p, q):
        self.p, self.q = p, q % p

    def mul(self, a, b):
        p = self.p
        return ((a[0] * b[0] + self.q * a[1] * b[1]) % p, (a[0] * b[1] + a[1] * b[0]) % p)

    def pw(self, a, e):
        r = (1, 0)
        while e:
            if e & 1:
                r = self.mul(r, a)
            a = self.mul(a, a)
            e >>= 1
        return r

    def cube_root(self, c, rng):
        """a cube root of c in F_p^2 or None (Adleman-Manders-Miller on the 3-Sylow subgroup)"""
        p = self.p
        N = p * p - 1
        if N % 3 or c == (0, 0):
            return None
        k, m = 0, N
        while m % 3 == 0:
            m //= 3
            k += 1
        if self.pw(c, N // 3) != (1, 0):
            return None
        while True:
            g = (rng.randrange(p), rng.randrange(p))
            if g != (0, 0) and self.pw(g, N // 3) != (1, 0):
                break
        z = self.pw(g, m)
        zi = self.pw(z, 3 ** k - 1)
        cur, e = self.pw(c, m), 0
        for i in range(1, k):
            for d in range(3):
                t = self.mul(cur, self.pw(zi, d * 3 ** i))
                if self.pw(t, 3 ** (k - 1 - i)) == (1, 0):
                    e += d * 3 ** i
                    cur = t
                    break
        if cur != (1, 0):
            return None
        a = pow(m, -1, 3)
        b = (1 - a * m) // 3
        r = self.mul(self.pw(z, (e * a // 3) % (3 ** k)), self.pw(c, b % N))
        return r if self.pw(r, 3) == c else None


def ep2_write_probe_cases(nk, rng, n):
    """writer cases whose outputs give the generator affine coordinates of valid G2 points"""
    ks = [1, 2, 3, n - 1] + [rng.randrange(1, n) for _ in range(nk)]
    return ks


def gen_ep2(pf, pts, rng, tier):
    """pf: dict(p, fb, qnr, b2=(b0,b1), n); pts: affine G2 points ((x0,x1),(y0,y1)) harvested from the
    library's own uncompressed writer (inputs only: every one of them is judged again by the spec)"""
    quick = tier == "quick"
    p, fb, n = pf["p"], pf["fb"], pf["n"]
    c = "pf"
    cases = []
    top = (1 << (8 * fb)) - 1

    def e2(v):
        return be(v[0], fb) + be(v[1], fb)

    def rd(bs):
        cases.append("ep2_read_bin %s %s" % (c, hb(bs)))
    # points with y in F_p (y1 = 0): y^2 = x^3 + b2  =>  x = cbrt(y^2 - b2)
    f2 = F2(p, pf["qnr"])
    special = []
    y0 = 1
    while len(special) < (2 if quick else 6) and y0 < 400:
        y0 += 1
        cc = ((y0 * y0 - pf["b2"][0]) % p, (-pf["b2"][1]) % p)
        x = f2.cube_root(cc, rng)
        if x is not None:
            special.append((x, (y0, 0)))
            special.append((x, (p - y0, 0)))
    # points whose deciding y coordinate sits on the boundary of the sign convention: (p-1)/2 and (p+1)/2
    h = (p - 1) // 2
    found = 0
    for ydec in (h, h + 1, h - 1, h + 2):
        for other in range(0, 60):
            for y in (((other, ydec),) if other else ((ydec, 0), (0, ydec))):
                yy = f2.mul(y, y)
                cc = ((yy[0] - pf["b2"][0]) % p, (yy[1] - pf["b2"][1]) % p)
                x = f2.cube_root(cc, rng)
                if x is not None:
                    special.append((x, y))
                    found += 1
            if found >= (2 if quick else 4):
                break
        found = 0
    # ---- writers
    toks = ["inf", "m1", "m2", "m3", "m%x" % (n - 1), "d1", "d%x" % rng.randrange(1, n)]
    toks += ["m%x" % rng.randrange(1, n) for _ in range(2 if quick else 10)]
    toks += ["x%x,%x,%x,%x" % (P[0][0], P[0][1], P[1][0], P[1][1]) for P in special]
    for t in toks:
        if t != "inf":
            cases.append("alias %s ep2_pck %s" % (c, t))
            cases.append("alias %s ep2_upk %s" % (c, t))
        for pack in (0, 1):
            size = 1 if t == "inf" else 1 + fb * (2 if pack else 4)
            cases.append("ep2_size_bin %s %s %d" % (c, t, pack))
            for ln in sorted({0, 1, size - 1, size, size + 1}):
                cases.append("ep2_write_bin %s %s %d %d" % (c, t, pack, ln))
    # ---- reader
    rd(b"")
    allpts = pts + special
    for (x, y) in allpts:
        ny = ((p - y[0]) % p, (p - y[1]) % p)
        rd(b"\2" + e2(x))
        rd(b"\3" + e2(x))
        rd(b"\4" + e2(x) + e2(y))
        rd(b"\4" + e2(x) + e2(ny))
        rd(b"\4" + e2(x) + e2(((y[0] + 1) % p, y[1])))              # off the curve
        rd(b"\4" + e2(y) + e2(x))
    (x, y) = pts[len(pts) // 2]
    for ln, body in ((1, b""), (2 * fb + 1, e2(x)), (4 * fb + 1, e2(x) + e2(y))):
        for tag in range(256):                                        # every tag byte on a valid body
            rd(bytes([tag]) + body)
    full = e2(x) + e2(y) + b"\0\0\0"
    lens = range(0, 4 * fb + 4) if not quick else sorted(set(range(0, 4)) | {fb, fb + 1, 2 * fb, 2 * fb + 2, 3 * fb + 1, 4 * fb,
                                                                           4 * fb + 2, 4 * fb + 3} | {2 * fb + 1, 4 * fb + 1})
    for tag in (0, 2, 3, 4):                                          # every length 0..L+2
        for ln in lens:
            rd((bytes([tag]) + full)[:ln])
    for fullenc in (b"\4" + e2(x) + e2(y), b"\2" + e2(x), b"\3" + e2(x)):
        muts = mutations(fullenc)
        if quick:
            muts = muts[:6] + rng.sample(muts[6:], 40)
        for m in muts:
            rd(m)
    for bad in (p, p + 1, top):
        if bad > top:
            continue
        for tag in (2, 3):
            rd(bytes([tag]) + be(bad, fb) + be(x[1], fb))             # x0 >= p
            rd(bytes([tag]) + be(x[0], fb) + be(bad, fb))             # x1 >= p
        rd(b"\4" + be(bad, fb) + be(x[1], fb) + e2(y))
        rd(b"\4" + e2(x) + be(bad, fb) + be(y[1], fb))
        rd(b"\4" + e2(x) + be(y[0], fb) + be(bad, fb))
    for _ in range(12 if quick else 60):                              # random abscissae: about half have no point
        xr = (rng.randrange(p), rng.randrange(p))
        rd(b"\2" + e2(xr))
        rd(b"\3" + e2(xr))
        rd(b"\4" + e2(xr) + e2(y))
    for xr in ((0, 0), (1, 0), (0, 1), (p - 1, 0), (p - 1, p - 1)):
        rd(b"\2" + e2(xr))
        rd(b"\3" + e2(xr))
        rd(b"\4" + e2(xr) + e2((0, 0)))
    rd(b"\0" + b"\4" + e2(x) + e2(y))
    rd(b"\4" + e2(x) + e2(y) + b"\0")
    rd(b"\6" + e2(x) + e2(y))
    return cases


def gen_fp2_packed(cv, rng, tier):
    """fp2 packed form of unitary elements: a0 || sign byte (fb + 1 bytes); needs fb > 1"""
    quick = tier == "quick"
    c, p, fb, q = cv.spec, cv.p, cv.fb, cv.qnr
    if fb < 2 or q == 0:
        return []
    f2 = F2(p, q)
    cases = []

    def unitary(z):
        n = (z[0] * z[0] - q * z[1] * z[1]) % p
        cz = (z[0], (-z[1]) % p)
        num = f2.mul(cz, cz)
        ni = pow(n, -1, p)
        return (num[0] * ni % p, num[1] * ni % p)
    us = [(1, 0), (p - 1, 0), unitary((3, 5)), unitary((1, 1))]
    us += [unitary((rng.randrange(1, p), rng.randrange(1, p))) for _ in range(2 if quick else 10)]
    us += [(a[0], (-a[1]) % p) for a in us[2:4]]
    top = (1 << (8 * fb)) - 1
    for a in us:
        tok = "%s,%s" % (hx(a[0]), hx(a[1]))
        for ln in sorted({0, fb, fb + 1, fb + 2, 2 * fb}):
            cases.append("fp2_write_bin %s %s %d 1" % (c, tok, ln))
        for byte in (0, 1, 2, 3, 7, 0x80, 0xFF):
            cases.append("fp2_read_bin %s %s" % (c, hb(be(a[0], fb) + bytes([byte]))))
    for a in us:                                                                # compression in place = out of place
        tok = "%s,%s" % (hx(a[0]), hx(a[1]))
        cases.append("alias %s fp2_pck %s" % (c, tok))
        cases.append("alias %s fp2_upk %s,%d" % (c, hx(a[0]), a[1] & 1))
        cases.append("alias %s fp2_upk %s,%d" % (c, hx(a[0]), 1 - (a[1] & 1)))
    for a in ((2, 3), (0, 1), (rng.randrange(p), rng.randrange(p))):          # not unitary: written in full
        tok = "%s,%s" % (hx(a[0]), hx(a[1]))
        for ln in (fb + 1, 2 * fb - 1, 2 * fb, 2 * fb + 1):
            cases.append("fp2_write_bin %s %s %d 1" % (c, tok, ln))
    for a0 in [0, 2, 3, p - 2, p, p + 1, top] + [rng.randrange(p) for _ in range(10 if quick else 60)]:
        if a0 > top:
            continue
        for byte in (0, 1):
            cases.append("fp2_read_bin %s %s" % (c, hb(be(a0, fb) + bytes([byte]))))
    return cases


# ------------------------------------------------------------------ Edwards points
def gen_ed(ed, pts, rng, tier):
    """ed: dict(p, fb, a, d, n); pts: affine points (x, y) harvested from the library's uncompressed
    writer (inputs only).  Wire format: 0 | 2+s y | 4 y x."""
    quick = tier == "quick"
    p, fb, n = ed["p"], ed["fb"], ed["n"]
    c = "ed"
    cases = []
    top = (1 << (8 * fb)) - 1

    def rd(bs):
        cases.append("ed_read_bin %s %s" % (c, hb(bs)))
    toks = ["inf", "m1", "m2", "m3", "m%x" % (n - 1), "d1", "d%x" % rng.randrange(1, n), "0,1", "0,%x" % (p - 1)]
    toks += ["m%x" % rng.randrange(1, n) for _ in range(3 if quick else 12)]
    toks += ["%x,%x" % P for P in pts[:3]] + ["%x,%x" % ((p - P[0]) % p, P[1]) for P in pts[:3]]
    for t in toks:
        if t != "inf":
            cases.append("alias %s ed_pck %s" % (c, t))
            cases.append("alias %s ed_upk %s" % (c, t))
        for pack in (0, 1):
            size = 1 if t in ("inf", "0,1") else 1 + fb * (1 if pack else 2)
            cases.append("ed_size_bin %s %s %d" % (c, t, pack))
            for ln in sorted({0, 1, size - 1, size, size + 1}):
                cases.append("ed_write_bin %s %s %d %d" % (c, t, pack, ln))
    rd(b"")
    for (x, y) in pts:
        xb, yb = be(x, fb), be(y, fb)
        rd(b"\2" + yb)
        rd(b"\3" + yb)
        rd(b"\4" + yb + xb)
        rd(b"\4" + yb + be((p - x) % p, fb))                        # the opposite point
        rd(b"\4" + yb + be((x + 1) % p, fb))                        # off the curve
        rd(b"\4" + xb + yb)                                         # coordinates in the other order
    (x, y) = pts[len(pts) // 2]
    xb, yb = be(x, fb), be(y, fb)
    for ln, body in ((1, b""), (fb + 1, yb), (2 * fb + 1, yb + xb)):
        for tag in range(256):
            rd(bytes([tag]) + body)
    for tag in (0, 2, 3, 4, 6):
        for ln in range(0, 2 * fb + 4):
            rd((bytes([tag]) + yb + xb + b"\0\0\0")[:ln])
    for full in (b"\4" + yb + xb, bytes([2 + (x & 1)]) + yb, bytes([3 - (x & 1)]) + yb):
        muts = mutations(full)
        if quick:
            muts = muts[:6] + rng.sample(muts[6:], 40)
        for m in muts:
            rd(m)
    for bad in (p, p + 1, top):
        if bad > top:
            continue
        bb = be(bad, fb)
        rd(b"\2" + bb)
        rd(b"\3" + bb)
        rd(b"\4" + bb + xb)
        rd(b"\4" + yb + bb)
    for _ in range(12 if quick else 60):                             # random ordinates: about half have no point
        yr = be(rng.randrange(p), fb)
        rd(b"\2" + yr)
        rd(b"\3" + yr)
        rd(b"\4" + yr + xb)
    # the neutral element (0, 1) and the point of order two (0, -1): long forms, both sign bits
    for yy in (1, p - 1, 0):
        rd(b"\2" + be(yy, fb))
        rd(b"\3" + be(yy, fb))
        rd(b"\4" + be(yy, fb) + be(0, fb))
    rd(b"\0" + b"\4" + yb + xb)
    rd(b"\4" + yb + xb + b"\0")
    return cases
