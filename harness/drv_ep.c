/*
 * drv_ep.c - conformance driver for prime curves (C03): group law and every
 * scalar multiplication.
 *
 * Case line:  <op> <curve> <alias> <args...>
 *   curve   id<N>                               ep_param_set(N)
 *           t:<p>:<a>:<b>:<gx>:<gy>:<r>:<h>[:<beta>:<lambda>]   (hex VALUES) tiny world:
 *                                               fp_prime_set_dense + ep_curve_set_plain/endom
 *   point   inf | infp | infj | inf0p | inf0j   identity (library form / (0:1:0) PROJC / (1:1:0) JACOB /
 *                                               (0,0,0) tagged PROJC / JACOB as the library's own routines return it)
 *           m<k>[/<rep>]                        [k]G, k hex with optional '-' (INPUT construction with
 *                                               ep_mul_basic + ep_norm; the spec reads the raw result back)
 *           xy<x>,<y>[/<rep>]                   affine VALUES as given (may be off the curve)
 *           rep: P | J (retag, z = 1)  p<z> (x*z, y*z, z; PROJC)  j<z> (x*z^2, y*z^3, z; JACOB)
 *   scalar  hex with optional '-'
 *
 * Event: {"op","i", p,w,fd,mont (field header), "ca","cb" raw a,b, "n" order (bn), "endom","add","fpb","wd","dep","dgb",
 *         "al", inputs "P","Q" raw points / "k","m" bn / "dg" digit / "ps","ks" lists (before the call),
 *         outputs "R" raw point / "ret" (after), "err","code","unch"}
 */
#include "vh.h"

static ep_t P, Q, R, P0, Q0, T, G;
static bn_t K, M, K0, M0, N, H;
static ep_t TAB[RLC_EP_TABLE_MAX];
#define LOT_MAX 96
static ep_t LP[LOT_MAX], LP0[LOT_MAX];
static bn_t LK[LOT_MAX], LK0[LOT_MAX];
static dig_t LD[LOT_MAX];

static char cur_curve[8192];
static int cur_ok = 0;

/* ------------------------------------------------------------ event buffering
 * An event is assembled in a memory stream and appended to the trace only when complete, so an
 * abnormal end inside the library call cannot leave half a line behind.  On a fatal signal inside
 * a call the inputs logged so far are written as an event of the SAME op with "crash":<signal>
 * (the spec judges it: never accepted), followed by a short {"op":"restart"} line that tells the
 * orchestrator where to resume. */
static FILE *real_out;
static char *mbuf;
static size_t mlen, safe_len;
static volatile int in_event;

static void ev_begin(const char *op) {
	mbuf = NULL; mlen = 0; safe_len = 0;
	vh_out = open_memstream(&mbuf, &mlen);
	if (!vh_out) { perror("open_memstream"); exit(2); }
	in_event = 1;
	vh_begin(op);
}
static void ev_end(void) {
	vh_end();
	fclose(vh_out);
	in_event = 0;
	fwrite(mbuf, 1, mlen, real_out);
	fflush(real_out);
	free(mbuf);
	vh_out = real_out;
}
/* the inputs are complete: remember how much of the event may be published if the call dies */
#define MARK() do { fflush(vh_out); safe_len = mlen; } while (0)

static void ep_fatal(int sig) {
	char buf[200];
	int n;
	const char *what = (sig == SIGALRM) ? "TIMEOUT" : "CRASH";
	if (in_event && safe_len > 0) {
		if (write(vh_outfd, mbuf, safe_len) < 0) {}
		n = snprintf(buf, sizeof(buf), ",\"crash\":%d,\"err\":0,\"code\":0,\"unch\":false}\n", sig);
		if (write(vh_outfd, buf, n) < 0) {}
		what = "restart";
	}
	n = snprintf(buf, sizeof(buf), "{\"op\":\"%s\",\"i\":%ld,\"sig\":%d}\n", what, (long)vh_case, sig);
	if (write(vh_outfd, buf, n) < 0) {}
	_exit(sig == SIGALRM ? 3 : 4);
}
static void ep_install(void) {
	signal(SIGSEGV, ep_fatal); signal(SIGBUS, ep_fatal); signal(SIGFPE, ep_fatal);
	signal(SIGABRT, ep_fatal); signal(SIGILL, ep_fatal); signal(SIGALRM, ep_fatal);
}

/* ------------------------------------------------------------ randomness
 * Builds with RAND=CALL (tiny worlds for ep_mul_monty, whose ep_blind multiplies by a random field
 * element): a deterministic source of NON-ZERO bytes 1..100 (< p for every 8-bit prime used), because
 * over an 8-bit field a uniformly random element is 0 with probability 1/p and the blinded ladder then
 * degenerates - an artefact of the tiny field, not of the algorithm. */
#if RAND == CALL
static uint32_t vh_rs = 12345;
static void vh_rand_cb(uint8_t *buf, size_t size, void *arg) {
	size_t i;
	(void)arg;
	for (i = 0; i < size; i++) {
		vh_rs = vh_rs * 1103515245u + 12345u;
		buf[i] = (uint8_t)(1 + ((vh_rs >> 16) % 100));
	}
}
#endif

/* ------------------------------------------------------------ curve */
static int set_tiny(char *spec) {
	/* t:p:a:b:gx:gy:r:h[:beta:lambda] */
	char *f[12];
	int nf = 0, err = 0, code;
	char *s = spec;
	fp_t a, b, beta;
	bn_t p, r, h, l;
	ep_t g;
	while (nf < 12) {
		f[nf++] = s;
		s = strchr(s, ':');
		if (!s) break;
		*s++ = 0;
	}
	if (nf != 8 && nf != 10) return 0;
	bn_null(p); bn_null(r); bn_null(h); bn_null(l); ep_null(g);
	bn_new(p); bn_new(r); bn_new(h); bn_new(l); ep_new(g);
	fp_null(a); fp_null(b); fp_null(beta);
	vh_bn_set(p, f[1]);
	VH_TRY(err, fp_prime_set_dense(p));
	code = vh_code();           /* always read: reading clears the sticky code */
	if (err || code) return 0;
	fp_new(a); fp_new(b); fp_new(beta);
	vh_fp_set(a, f[2]); vh_fp_set(b, f[3]);
	vh_fp_set(g->x, f[4]); vh_fp_set(g->y, f[5]); fp_set_dig(g->z, 1); g->coord = BASIC;
	vh_bn_set(r, f[6]); vh_bn_set(h, f[7]);
	if (nf == 10) {
		vh_fp_set(beta, f[8]); vh_bn_set(l, f[9]);
		VH_TRY(err, ep_curve_set_endom(a, b, g, r, h, beta, l, 0));
	} else {
		VH_TRY(err, ep_curve_set_plain(a, b, g, r, h, 0));
	}
	code = vh_code();
	if (err || code) return 0;
	return 1;
}

static int set_curve(const char *spec) {
	int err = 0;
	if (strcmp(spec, cur_curve) == 0) return cur_ok;
	if (strlen(spec) >= sizeof(cur_curve)) return 0;
	strcpy(cur_curve, spec);
	cur_ok = 0;
	if (spec[0] == 'i' && spec[1] == 'd') {
		int id = atoi(spec + 2);
		int code;
		VH_TRY(err, ep_param_set(id));
		code = vh_code();       /* always read: reading clears the sticky code */
		cur_ok = (err == 0) && (code == 0);
	} else if (spec[0] == 't' && spec[1] == ':') {
		static char tmp[8192];
		strcpy(tmp, spec);
		cur_ok = set_tiny(tmp);
	}
	if (cur_ok) {
		ep_curve_get_gen(G);
		ep_curve_get_ord(N);
		ep_curve_get_cof(H);
	}
	return cur_ok;
}

/* ------------------------------------------------------------ points */
static void set_point(ep_t p, char *tok) {
	char *rep = strchr(tok, '/');
	fp_t z, t;
	if (rep) *rep++ = 0;
	if (strcmp(tok, "inf") == 0) { ep_set_infty(p); return; }
	if (strcmp(tok, "infp") == 0) { fp_zero(p->x); fp_set_dig(p->y, 1); fp_zero(p->z); p->coord = PROJC; return; }
	if (strcmp(tok, "infj") == 0) { fp_set_dig(p->x, 1); fp_set_dig(p->y, 1); fp_zero(p->z); p->coord = JACOB; return; }
	/* the all-zero triple with a projective tag: what ep_add_jacob returns for P + (-P) (ep_set_infty, then the tag) */
	if (strcmp(tok, "inf0p") == 0) { ep_set_infty(p); p->coord = PROJC; return; }
	if (strcmp(tok, "inf0j") == 0) { ep_set_infty(p); p->coord = JACOB; return; }
	if (tok[0] == 'm') {
		bn_t k;
		bn_null(k); bn_new(k);
		vh_bn_set(k, tok + 1);
		ep_mul_basic(p, G, k);
		ep_norm(p, p);
		bn_free(k);
	} else if (tok[0] == 'x' && tok[1] == 'y') {
		vh_ep_set(p, tok + 2);
	} else {
		fprintf(stderr, "bad point token %s\n", tok);
		exit(2);
	}
	if (!rep || ep_is_infty(p)) return;
	if (rep[0] == 'P') { p->coord = PROJC; return; }
	if (rep[0] == 'J') { p->coord = JACOB; return; }
	fp_null(z); fp_null(t); fp_new(z); fp_new(t);
	vh_fp_set(z, rep + 1);
	if (rep[0] == 'p') {
		fp_mul(p->x, p->x, z); fp_mul(p->y, p->y, z); fp_copy(p->z, z); p->coord = PROJC;
	} else if (rep[0] == 'j') {
		fp_sqr(t, z); fp_mul(p->x, p->x, t); fp_mul(t, t, z); fp_mul(p->y, p->y, t); fp_copy(p->z, z);
		p->coord = JACOB;
	} else {
		fprintf(stderr, "bad representation %s\n", rep);
		exit(2);
	}
	fp_free(z); fp_free(t);
}

/* ------------------------------------------------------------ events */
static void hdr(const char *op, int al) {
	ev_begin(op);
	vh_fp_hdr();
	vh_fp("ca", ep_curve_get_a());
	vh_fp("cb", ep_curve_get_b());
	vh_bn("n", N);
	vh_bn("h", H);
	vh_int("endom", ep_curve_is_endom());
	vh_int("add", (long)EP_ADD);
	vh_int("fpb", (long)RLC_FP_BITS);
	vh_int("wd", (long)RLC_WIDTH);
	vh_int("dep", (long)RLC_DEPTH);
	vh_int("dgb", (long)RLC_DIG);
	vh_int("al", al);
}

static void fin(int err, int unch) {
	vh_int("crash", 0);
	vh_int("err", err);
	vh_int("code", vh_code());
	vh_bool("unch", unch);
	ev_end();
}

/* r = f(p): al 0 none, 1 r == p */
typedef void (*un_f)(ep_t, const ep_t);
static void do_un(const char *op, un_f f, int al) {
	int err, unch = 1;
	ep_st *pp = P, *pr = R;
	char stale[] = "m5/p2"; /* stale output content */
	set_point(P, vh_tok[3]);
	if (al == 1) pr = pp;
	ep_copy(P0, P);
	set_point(R, stale);
	hdr(op, al);
	vh_ep("P", pp);
	MARK();
	VH_TRY(err, f(pr, pp));
	vh_ep("R", pr);
	if (pr != pp) unch &= vh_ep_same(P, P0);
	fin(err, unch);
}

/* r = f(p, q): al 0 none, 1 r == p, 2 r == q, 3 p == q, 4 r == p == q */
typedef void (*bin_f)(ep_t, const ep_t, const ep_t);
static void do_bin(const char *op, bin_f f, int al) {
	int err, unch = 1;
	ep_st *pp = P, *pq = Q, *pr = R;
	char stale[] = "m7/p3";
	set_point(P, vh_tok[3]);
	set_point(Q, vh_tok[4]);
	if (al == 3 || al == 4) pq = pp;
	if (al == 1 || al == 4) pr = pp;
	if (al == 2) pr = pq;
	ep_copy(P0, P); ep_copy(Q0, Q);
	set_point(R, stale);
	hdr(op, al);
	vh_ep("P", pp); vh_ep("Q", pq);
	MARK();
	VH_TRY(err, f(pr, pp, pq));
	vh_ep("R", pr);
	if (pr != pp) unch &= vh_ep_same(P, P0);
	if (pr != pq && pq != pp) unch &= vh_ep_same(Q, Q0);
	fin(err, unch);
}

static void do_query(const char *op, int which) {
	int err;
	volatile long ret = 0;
	set_point(P, vh_tok[3]);
	ep_copy(P0, P);
	if (which == 0) { set_point(Q, vh_tok[4]); ep_copy(Q0, Q); }
	hdr(op, 0);
	vh_ep("P", P);
	if (which == 0) vh_ep("Q", Q);
	MARK();
	switch (which) {
		case 0: VH_TRY(err, ret = ep_cmp(P, Q)); break;
		case 1: VH_TRY(err, ret = ep_on_curve(P)); break;
		case 2: VH_TRY(err, ret = ep_is_infty(P)); break;
		default: err = 0;
	}
	vh_int("ret", ret);
	vh_int("EQ", RLC_EQ);
	fin(err, vh_ep_same(P, P0) && (which != 0 || vh_ep_same(Q, Q0)));
}

/* r = [k]p: al 0 none, 1 r == p */
typedef void (*mul_f)(ep_t, const ep_t, const bn_t);
static void do_mul(const char *op, mul_f f, int al) {
	int err, unch = 1;
	ep_st *pp = P, *pr = R;
	char stale[] = "m7/p3";
	set_point(P, vh_tok[3]);
	vh_bn_set(K, vh_tok[4]);
	if (al == 1) pr = pp;
	ep_copy(P0, P); bn_copy(K0, K);
	set_point(R, stale);
	hdr(op, al);
	vh_ep("P", pp); vh_bn("k", K);
	MARK();
	VH_TRY(err, f(pr, pp, K));
	vh_ep("R", pr);
	if (pr != pp) unch &= vh_ep_same(P, P0);
	unch &= vh_bn_same(K, K0);
	fin(err, unch);
}

static void do_mul_gen(const char *op) {
	int err, unch = 1;
	char stale[] = "m7/p3";
	ep_curve_get_gen(P);
	vh_bn_set(K, vh_tok[3]);
	bn_copy(K0, K);
	set_point(R, stale);
	hdr(op, 0);
	vh_ep("P", P); vh_bn("k", K);
	MARK();
	VH_TRY(err, ep_mul_gen(R, K));
	vh_ep("R", R);
	unch &= vh_bn_same(K, K0);
	fin(err, unch);
}

static void do_mul_dig(const char *op, int al) {
	int err, unch = 1;
	ep_st *pp = P, *pr = R;
	dig_t d = vh_dig_tok(vh_tok[4]);
	char stale[] = "m7/p3";
	set_point(P, vh_tok[3]);
	if (al == 1) pr = pp;
	ep_copy(P0, P);
	set_point(R, stale);
	hdr(op, al);
	vh_ep("P", pp); vh_dig("dg", d);
	MARK();
	VH_TRY(err, ep_mul_dig(pr, pp, d));
	vh_ep("R", pr);
	if (pr != pp) unch &= vh_ep_same(P, P0);
	fin(err, unch);
}

/* fixed base: table built by the matching builder from P (cached for the same curve/point/builder) */
typedef void (*pre_f)(ep_t *, const ep_t);
typedef void (*fix_f)(ep_t, const ep_t *, const bn_t);
static char tab_key[9000];
static void do_fix(const char *op, pre_f pre, fix_f fix) {
	int err = 0, err2 = 0, unch = 1;
	char key[9000], stale[] = "m7/p3";
	snprintf(key, sizeof(key), "%s|%s|%s", op, cur_curve, vh_tok[3]);
	set_point(P, vh_tok[3]);
	ep_copy(P0, P);
	vh_bn_set(K, vh_tok[4]);
	bn_copy(K0, K);
	if (strcmp(key, tab_key) != 0) {
		VH_TRY(err, pre(TAB, P));
		strcpy(tab_key, err ? "" : key);
	}
	set_point(R, stale);
	hdr(op, 0);
	vh_ep("P", P); vh_bn("k", K);
	vh_int("perr", err);
	MARK();
	if (!err) VH_TRY(err2, fix(R, (const ep_t *)TAB, K));
	vh_ep("R", R);
	unch &= vh_ep_same(P, P0) && vh_bn_same(K, K0);
	fin(err ? err : err2, unch);
}

/* r = [k]p + [m]q: al 0 none, 1 r == p, 2 r == q, 3 p == q */
typedef void (*sim_f)(ep_t, const ep_t, const bn_t, const ep_t, const bn_t);
static void do_sim(const char *op, sim_f f, int al) {
	int err, unch = 1;
	ep_st *pp = P, *pq = Q, *pr = R;
	char stale[] = "m7/p3";
	set_point(P, vh_tok[3]);
	vh_bn_set(K, vh_tok[4]);
	set_point(Q, vh_tok[5]);
	vh_bn_set(M, vh_tok[6]);
	if (al == 3) pq = pp;
	if (al == 1) pr = pp;
	if (al == 2) pr = pq;
	ep_copy(P0, P); ep_copy(Q0, Q); bn_copy(K0, K); bn_copy(M0, M);
	set_point(R, stale);
	hdr(op, al);
	vh_ep("P", pp); vh_bn("k", K); vh_ep("Q", pq); vh_bn("m", M);
	MARK();
	VH_TRY(err, f(pr, pp, K, pq, M));
	vh_ep("R", pr);
	if (pr != pp) unch &= vh_ep_same(P, P0);
	if (pr != pq && pq != pp) unch &= vh_ep_same(Q, Q0);
	unch &= vh_bn_same(K, K0) && vh_bn_same(M, M0);
	fin(err, unch);
}

/* r = [k]G + [m]q: al 0 none, 2 r == q */
static void do_sim_gen(const char *op, int al) {
	int err, unch = 1;
	ep_st *pq = Q, *pr = R;
	char stale[] = "m7/p3";
	ep_curve_get_gen(P);
	vh_bn_set(K, vh_tok[3]);
	set_point(Q, vh_tok[4]);
	vh_bn_set(M, vh_tok[5]);
	if (al == 2) pr = pq;
	ep_copy(Q0, Q); bn_copy(K0, K); bn_copy(M0, M);
	set_point(R, stale);
	hdr(op, al);
	vh_ep("P", P); vh_bn("k", K); vh_ep("Q", pq); vh_bn("m", M);
	MARK();
	VH_TRY(err, ep_mul_sim_gen(pr, K, pq, M));
	vh_ep("R", pr);
	if (pr != pq) unch &= vh_ep_same(Q, Q0);
	unch &= vh_bn_same(K, K0) && vh_bn_same(M, M0);
	fin(err, unch);
}

/* r = sum [k_i]p_i : <n> then n pairs (point, scalar | digit) */
static void do_lot(const char *op, int dig) {
	int err, unch = 1, i, n = atoi(vh_tok[3]);
	char stale[] = "m7/p3";
	if (n > LOT_MAX || vh_ntok < 4 + 2 * n) { fprintf(stderr, "bad lot case\n"); exit(2); }
	for (i = 0; i < n; i++) {
		set_point(LP[i], vh_tok[4 + 2 * i]);
		ep_copy(LP0[i], LP[i]);
		if (dig) LD[i] = vh_dig_tok(vh_tok[5 + 2 * i]);
		else { vh_bn_set(LK[i], vh_tok[5 + 2 * i]); bn_copy(LK0[i], LK[i]); }
	}
	set_point(R, stale);
	hdr(op, 0);
	vh_int("cnt", n);
	fputs(",\"ps\":[", vh_out);
	for (i = 0; i < n; i++) { if (i) fputc(',', vh_out); vh_ep_raw(LP[i]); }
	fputs("],\"ks\":[", vh_out);
	for (i = 0; i < n; i++) {
		if (i) fputc(',', vh_out);
		if (dig) { bn_set_dig(K, LD[i]); vh_bn_raw(K); } else vh_bn_raw(LK[i]);
	}
	fputc(']', vh_out);
	MARK();
	if (dig) VH_TRY(err, ep_mul_sim_dig(R, (const ep_t *)LP, LD, n));
	else VH_TRY(err, ep_mul_sim_lot(R, (const ep_t *)LP, (const bn_t *)LK, n));
	vh_ep("R", R);
	for (i = 0; i < n; i++) {
		unch &= vh_ep_same(LP[i], LP0[i]);
		if (!dig) unch &= vh_bn_same(LK[i], LK0[i]);
	}
	fin(err, unch);
}

/* which curve ids does ep_param_set accept in this build? (input discovery for the generator) */
static void do_probe(void) {
	int ok;
	cur_curve[0] = 0;
	ok = set_curve(vh_tok[1]);
	ev_begin("curve_probe");
	vh_str("curve", vh_tok[1]);
	vh_int("ok", ok);
	if (ok) {
		vh_fp_hdr();
		vh_bn("n", N); vh_bn("h", H);
		vh_int("endom", ep_curve_is_endom());
		vh_int("opta", ep_curve_opt_a());
		vh_int("fpb", (long)RLC_FP_BITS);
		vh_int("bnbits", (long)RLC_BN_BITS);
		vh_int("wd", (long)RLC_WIDTH);
		vh_int("dep", (long)RLC_DEPTH);
		vh_int("dgb", (long)RLC_DIG);
		vh_int("add", (long)EP_ADD);
#if defined(EP_ENDOM)
		if (ep_curve_is_endom()) {
			/* the constants of the GLV decomposition: inputs for the generator's rounding-boundary scalars */
			vh_bn("v10", (bn_st *)&ep_curve_get_v1()[0]); vh_bn("v20", (bn_st *)&ep_curve_get_v2()[0]);
		}
#endif
	}
	ev_end();
}

static void w_add(ep_t r, const ep_t p, const ep_t q) { ep_add(r, p, q); }
static void w_dbl(ep_t r, const ep_t p) { ep_dbl(r, p); }
static void w_mul(ep_t r, const ep_t p, const bn_t k) { ep_mul(r, p, k); }
static void w_pre(ep_t *t, const ep_t p) { ep_mul_pre(t, p); }
static void w_fix(ep_t r, const ep_t *t, const bn_t k) { ep_mul_fix(r, t, k); }
static void w_sim(ep_t r, const ep_t p, const bn_t k, const ep_t q, const bn_t m) { ep_mul_sim(r, p, k, q, m); }

static int run_case(void) {
	const char *op = vh_tok[0];
	int al = vh_ntok > 2 ? atoi(vh_tok[2]) : 0;
#define OP(n) (strcmp(op, n) == 0)
	if (OP("curve_probe")) { do_probe(); return 1; }
	if (!set_curve(vh_tok[1])) {
		ev_begin("BADCURVE"); vh_str("curve", vh_tok[1]); ev_end();
		return 1;
	}
	if (OP("ep_neg")) do_un(op, ep_neg, al);
	else if (OP("ep_norm")) do_un(op, ep_norm, al);
	else if (OP("ep_dbl")) do_un(op, w_dbl, al);
	else if (OP("ep_dbl_basic")) do_un(op, ep_dbl_basic, al);
	else if (OP("ep_dbl_projc")) do_un(op, ep_dbl_projc, al);
	else if (OP("ep_dbl_jacob")) do_un(op, ep_dbl_jacob, al);
	else if (OP("ep_add")) do_bin(op, w_add, al);
	else if (OP("ep_add_basic")) do_bin(op, ep_add_basic, al);
	else if (OP("ep_add_projc")) do_bin(op, ep_add_projc, al);
	else if (OP("ep_add_jacob")) do_bin(op, ep_add_jacob, al);
	else if (OP("ep_sub")) do_bin(op, ep_sub, al);
	else if (OP("ep_cmp")) do_query(op, 0);
	else if (OP("ep_on_curve")) do_query(op, 1);
	else if (OP("ep_is_infty")) do_query(op, 2);
	else if (OP("ep_mul")) do_mul(op, w_mul, al);
	else if (OP("ep_mul_basic")) do_mul(op, ep_mul_basic, al);
	else if (OP("ep_mul_slide")) do_mul(op, ep_mul_slide, al);
	else if (OP("ep_mul_monty")) do_mul(op, ep_mul_monty, al);
	else if (OP("ep_mul_lwnaf")) do_mul(op, ep_mul_lwnaf, al);
	else if (OP("ep_mul_lwreg")) do_mul(op, ep_mul_lwreg, al);
	else if (OP("ep_mul_gen")) do_mul_gen(op);
	else if (OP("ep_mul_dig")) do_mul_dig(op, al);
	else if (OP("ep_mul_fix")) do_fix(op, w_pre, w_fix);
	else if (OP("ep_mul_fix_basic")) do_fix(op, ep_mul_pre_basic, ep_mul_fix_basic);
	else if (OP("ep_mul_fix_combs")) do_fix(op, ep_mul_pre_combs, ep_mul_fix_combs);
	else if (OP("ep_mul_fix_combd")) do_fix(op, ep_mul_pre_combd, ep_mul_fix_combd);
	else if (OP("ep_mul_fix_lwnaf")) do_fix(op, ep_mul_pre_lwnaf, ep_mul_fix_lwnaf);
	else if (OP("ep_mul_sim")) do_sim(op, w_sim, al);
	else if (OP("ep_mul_sim_basic")) do_sim(op, ep_mul_sim_basic, al);
	else if (OP("ep_mul_sim_trick")) do_sim(op, ep_mul_sim_trick, al);
	else if (OP("ep_mul_sim_inter")) do_sim(op, ep_mul_sim_inter, al);
	else if (OP("ep_mul_sim_joint")) do_sim(op, ep_mul_sim_joint, al);
	else if (OP("ep_mul_sim_gen")) do_sim_gen(op, al);
	else if (OP("ep_mul_sim_lot")) do_lot(op, 0);
	else if (OP("ep_mul_sim_dig")) do_lot(op, 1);
	else return 0;
	return 1;
}

int main(int argc, char **argv) {
	long start, idx = 0;
	int i;
	FILE *in = vh_open(argc, argv, &start);
	real_out = vh_out;
	ep_install();
	if (core_init() != RLC_OK) return 2;
#if RAND == CALL
	rand_seed(vh_rand_cb, NULL);
#endif
	ep_null(P); ep_null(Q); ep_null(R); ep_null(P0); ep_null(Q0); ep_null(T); ep_null(G);
	ep_new(P); ep_new(Q); ep_new(R); ep_new(P0); ep_new(Q0); ep_new(T); ep_new(G);
	bn_null(K); bn_null(M); bn_null(K0); bn_null(M0); bn_null(N); bn_null(H);
	bn_new(K); bn_new(M); bn_new(K0); bn_new(M0); bn_new(N); bn_new(H);
	for (i = 0; i < (int)RLC_EP_TABLE_MAX; i++) { ep_null(TAB[i]); ep_new(TAB[i]); }
	for (i = 0; i < LOT_MAX; i++) {
		ep_null(LP[i]); ep_new(LP[i]); ep_null(LP0[i]); ep_new(LP0[i]);
		bn_null(LK[i]); bn_new(LK[i]); bn_null(LK0[i]); bn_new(LK0[i]);
	}
	while (vh_next(in)) {
		if (idx++ < start) continue;
		vh_case = idx - 1;
		alarm(30);
		if (!run_case()) { fprintf(stderr, "unknown op %s\n", vh_tok[0]); return 2; }
		alarm(0);
	}
	fclose(real_out);
	core_clean();
	return 0;
}
