/*
 * drv_fp.c - conformance driver for the prime-field layer (C02).
 *
 * Case line:  <sel> <op> <alias> <args...>
 *   sel = P<id> (fp_param_set(id)) | D<hex> (fp_prime_set_dense, tiny worlds); the field is
 *   re-selected only when sel changes, so every line can be replayed alone;
 *   values: <hex> = VALUE (converted by the library, read back raw),
 *   r:<hex> = RAW digits (Montgomery form as given).
 *
 * Event: {"op","i","p","w","fd","mont","pid","fb","al", inputs before (raw),
 *         outputs after (raw), "ret","err","code","unch"}
 *   a, b     raw digits of the input elements before the call
 *   c        raw digits of the output element after the call
 *   e, n     bn objects (raw projection: s, u, d)
 *   dg       a single digit (LE bytes)
 *   t        double-length raw input of the reduction variants
 *   unch     every non-aliased input is bit-identical after the call
 * `driver --list` prints one line "<id> <prime hex>" per accepted parameter id.
 */
#include "vh.h"

#define FD ((int)RLC_FP_DIGS)

static fp_t A, B, C, A0, B0, X[8], Y[8], X0[8];
static bn_t E, E0;
static dv_t T;
static int g_pid = 0;

static void hdr(const char *op, int al) {
	vh_begin(op);
	vh_fp_hdr();
	vh_int("pid", g_pid);
	vh_int("fb", (long)RLC_FP_BYTES);
	vh_int("fbits", (long)RLC_FP_BITS);
	vh_int("al", al);
}

static void fin(int err, int unch) {
	vh_int("err", err);
	vh_int("code", vh_code());
	vh_bool("unch", unch);
	vh_end();
}

static int same(const fp_t a, const fp_t b) { return memcmp(a, b, sizeof(dig_t) * FD) == 0; }

/* inputs must be canonical representatives: a generator slip must not look like a library fault */
static void set_in(fp_t a, const char *tok) {
	vh_fp_set(a, tok);
	if (dv_cmp(a, fp_prime_get(), FD) != RLC_LT) {
		fprintf(stderr, "case %ld: input %s is not below the modulus\n", (long)vh_case, tok);
		exit(2);
	}
}

static void stale(fp_t c) { int i; for (i = 0; i < FD; i++) c[i] = (dig_t)0x5a5a5a5a5a5a5a5aULL; }

/* ------------------------------------------------------------ wrappers (macros -> functions) */
typedef void (*bin_f)(fp_t, const fp_t, const fp_t);
typedef void (*un_f)(fp_t, const fp_t);
typedef void (*dig_f)(fp_t, const fp_t, dig_t);
typedef void (*exp_f)(fp_t, const fp_t, const bn_t);
typedef int (*pred_f)(const fp_t);
typedef int (*root_f)(fp_t, const fp_t);
typedef void (*rdc_f)(fp_t, dv_t);

static void w_add(fp_t c, const fp_t a, const fp_t b) { fp_add(c, a, b); }
static void w_sub(fp_t c, const fp_t a, const fp_t b) { fp_sub(c, a, b); }
static void w_mul(fp_t c, const fp_t a, const fp_t b) { fp_mul(c, a, b); }
static void w_neg(fp_t c, const fp_t a) { fp_neg(c, a); }
static void w_dbl(fp_t c, const fp_t a) { fp_dbl(c, a); }
static void w_hlv(fp_t c, const fp_t a) { fp_hlv(c, a); }
static void w_sqr(fp_t c, const fp_t a) { fp_sqr(c, a); }
static void w_inv(fp_t c, const fp_t a) { fp_inv(c, a); }
static void w_exp(fp_t c, const fp_t a, const bn_t b) { fp_exp(c, a, b); }
static int w_smb(const fp_t a) { return fp_smb(a); }
static void w_rdc(fp_t c, dv_t a) { fp_rdc(c, a); }
static void w_rdc_monty(fp_t c, dv_t a) { fp_rdc_monty(c, a); }

/* c = a op b; alias 0 none, 1 c==a, 2 c==b, 3 a==b, 4 c==a==b */
static void do_bin(const char *op, bin_f f, int al) {
	int err, unch = 1;
	dig_t *pa = A, *pb = B, *pc = C;
	set_in(A, vh_tok[2]);
	set_in(B, vh_tok[3]);
	if (al == 3 || al == 4) pb = pa;
	if (al == 1 || al == 4) pc = pa;
	if (al == 2) pc = pb;
	fp_copy(A0, A); fp_copy(B0, B);
	stale(C);
	hdr(op, al);
	vh_fp("a", pa); vh_fp("b", pb);
	VH_TRY(err, f(pc, pa, pb));
	vh_fp("c", pc);
	if (pc != pa) unch &= same(A, A0);
	if (pc != pb && pb != pa) unch &= same(B, B0);
	fin(err, unch);
}

static void do_un(const char *op, un_f f, int al) {
	int err, unch = 1;
	dig_t *pa = A, *pc = C;
	set_in(A, vh_tok[2]);
	if (al == 1) pc = pa;
	fp_copy(A0, A);
	stale(C);
	hdr(op, al);
	vh_fp("a", pa);
	VH_TRY(err, f(pc, pa));
	vh_fp("c", pc);
	if (pc != pa) unch &= same(A, A0);
	fin(err, unch);
}

static void do_dig(const char *op, dig_f f, int al) {
	int err, unch = 1;
	dig_t d = vh_dig_tok(vh_tok[3]);
	dig_t *pa = A, *pc = C;
	set_in(A, vh_tok[2]);
	if (al == 1) pc = pa;
	fp_copy(A0, A);
	stale(C);
	hdr(op, al);
	vh_fp("a", pa); vh_dig("dg", d);
	VH_TRY(err, f(pc, pa, d));
	vh_fp("c", pc);
	if (pc != pa) unch &= same(A, A0);
	fin(err, unch);
}

static void do_exp(const char *op, exp_f f, int al) {
	int err, unch = 1;
	dig_t *pa = A, *pc = C;
	set_in(A, vh_tok[2]);
	vh_bn_set(E, vh_tok[3]);
	if (al == 1) pc = pa;
	fp_copy(A0, A); bn_copy(E0, E);
	stale(C);
	hdr(op, al);
	vh_fp("a", pa); vh_bn("e", E);
	VH_TRY(err, f(pc, pa, E));
	vh_fp("c", pc);
	if (pc != pa) unch &= same(A, A0);
	unch &= vh_bn_same(E, E0);
	fin(err, unch);
}

/* int f(a) */
static void do_pred(const char *op, pred_f f) {
	int err;
	volatile long ret = -99;
	set_in(A, vh_tok[2]);
	fp_copy(A0, A);
	hdr(op, 0);
	vh_fp("a", A);
	VH_TRY(err, ret = f(A));
	vh_int("ret", ret);
	fin(err, same(A, A0));
}

/* int f(c, a): square / cube root */
static void do_root(const char *op, root_f f, int al) {
	int err, unch = 1;
	volatile long ret = -99;
	dig_t *pa = A, *pc = C;
	set_in(A, vh_tok[2]);
	if (al == 1) pc = pa;
	fp_copy(A0, A);
	stale(C);
	hdr(op, al);
	vh_fp("a", pa);
	VH_TRY(err, ret = f(pc, pa));
	vh_fp("c", pc);
	vh_int("ret", ret);
	if (pc != pa) unch &= same(A, A0);
	fin(err, unch);
}

static void do_cmp(const char *op, int al) {
	int err;
	volatile long ret = -99;
	dig_t *pa = A, *pb = B;
	set_in(A, vh_tok[2]);
	set_in(B, vh_tok[3]);
	if (al == 3) pb = pa;
	fp_copy(A0, A); fp_copy(B0, B);
	hdr(op, al);
	vh_fp("a", pa); vh_fp("b", pb);
	VH_TRY(err, ret = fp_cmp(pa, pb));
	vh_int("ret", ret);
	fin(err, same(A, A0) && same(B, B0));
}

static void do_cmp_dig(const char *op) {
	int err;
	volatile long ret = -99;
	dig_t d = vh_dig_tok(vh_tok[3]);
	set_in(A, vh_tok[2]);
	fp_copy(A0, A);
	hdr(op, 0);
	vh_fp("a", A); vh_dig("dg", d);
	VH_TRY(err, ret = fp_cmp_dig(A, d));
	vh_int("ret", ret);
	fin(err, same(A, A0));
}

/* c = conversion of a digit (fp_set_dig / fp_prime_conv_dig) */
static void do_setdig(const char *op, int which) {
	int err;
	dig_t d = vh_dig_tok(vh_tok[2]);
	stale(C);
	hdr(op, 0);
	vh_dig("dg", d);
	if (which == 0) VH_TRY(err, fp_set_dig(C, d)); else VH_TRY(err, fp_prime_conv_dig(C, d));
	vh_fp("c", C);
	fin(err, 1);
}

/* fp_prime_conv(c, n) for an arbitrary integer n */
static void do_conv(const char *op) {
	int err;
	vh_bn_set(E, vh_tok[2]);
	bn_copy(E0, E);
	stale(C);
	hdr(op, 0);
	vh_bn("n", E);
	VH_TRY(err, fp_prime_conv(C, E));
	vh_fp("c", C);
	fin(err, vh_bn_same(E, E0));
}

/* fp_prime_back(n, a) */
static void do_back(const char *op) {
	int err;
	set_in(A, vh_tok[2]);
	fp_copy(A0, A);
	bn_set_dig(E, 0x5a);
	hdr(op, 0);
	vh_fp("a", A);
	VH_TRY(err, fp_prime_back(E, A));
	vh_bn("n", E);
	fin(err, same(A, A0));
}

/* fp_inv_sim(c[], a[], n): alias 0 separate arrays, 1 c == a */
static void do_inv_sim(const char *op, int al) {
	int err, unch = 1, i, n = atoi(vh_tok[2]);
	fp_t *pc = (al == 1) ? X : Y;
	if (n < 1 || n > 8) { fprintf(stderr, "bad n\n"); exit(2); }
	for (i = 0; i < n; i++) { set_in(X[i], vh_tok[3 + i]); fp_copy(X0[i], X[i]); stale(Y[i]); }
	hdr(op, al);
	vh_int("n", n);
	fprintf(vh_out, ",\"as\":[");
	for (i = 0; i < n; i++) { if (i) fputc(',', vh_out); vh_fp_raw(X[i]); }
	fputc(']', vh_out);
	VH_TRY(err, fp_inv_sim(pc, (const fp_t *)X, n));
	fprintf(vh_out, ",\"cs\":[");
	for (i = 0; i < n; i++) { if (i) fputc(',', vh_out); vh_fp_raw(pc[i]); }
	fputc(']', vh_out);
	if (al != 1) for (i = 0; i < n; i++) unch &= same(X[i], X0[i]);
	fin(err, unch);
}

/* reduction variants on a double-length raw input */
static void do_rdc(const char *op, rdc_f f) {
	int err, i;
	bn_t t;
	bn_null(t); bn_new(t);
	vh_bn_set(t, vh_tok[2]);
	if ((int)t->used > 2 * FD) { fprintf(stderr, "rdc input too long\n"); exit(2); }
	dv_zero(T, RLC_DV_DIGS);
	for (i = 0; i < (int)t->used; i++) T[i] = t->dp[i];
	bn_free(t);
	stale(C);
	hdr(op, 0);
	vh_digs("t", T, 2 * FD);
	VH_TRY(err, f(C, T));
	vh_fp("c", C);
	fin(err, 1);
}

/* fp_read_bin(c, bin, len): token = hex of the bytes ("." = none) */
static void do_read_bin(const char *op) {
	static uint8_t buf[4096];
	int err;
	size_t n = vh_hex2bytes(vh_tok[2], buf, sizeof(buf), NULL);
	if (strlen(vh_tok[2]) % 2 && vh_tok[2][0] != '.') { fprintf(stderr, "odd hex\n"); exit(2); }
	stale(C);
	hdr(op, 0);
	vh_bytes("bin", buf, n);
	vh_int("len", (long)n);
	VH_TRY(err, fp_read_bin(C, buf, n));
	vh_fp("c", C);
	fin(err, 1);
}

static void do_write_bin(const char *op) {
	static uint8_t buf[4096];
	int err;
	size_t n = (size_t)atol(vh_tok[3]);
	set_in(A, vh_tok[2]);
	fp_copy(A0, A);
	memset(buf, 0x5a, sizeof(buf));
	hdr(op, 0);
	vh_fp("a", A);
	vh_int("len", (long)n);
	VH_TRY(err, fp_write_bin(buf, n, A));
	vh_bytes("bin", buf, n);
	fin(err, same(A, A0));
}

static void do_rand(const char *op) {
	int err;
	stale(C);
	hdr(op, 0);
	VH_TRY(err, fp_rand(C));
	vh_fp("c", C);
	fin(err, 1);
}

static void do_zero(const char *op) {
	int err;
	stale(C);
	hdr(op, 0);
	VH_TRY(err, fp_zero(C));
	vh_fp("c", C);
	fin(err, 1);
}

static void do_copy(const char *op) {
	int err;
	set_in(A, vh_tok[2]);
	fp_copy(A0, A);
	stale(C);
	hdr(op, 0);
	vh_fp("a", A);
	VH_TRY(err, fp_copy(C, A));
	vh_fp("c", C);
	fin(err, same(A, A0));
}

/* ------------------------------------------------------------ field selection */
/* every case line starts with a selector: P<id> = fp_param_set(id), D<hex> = fp_prime_set_dense(hex);
 * the field is (re)selected only when the selector differs from the current one, so any
 * single line can be replayed alone */
static char g_sel[1024] = "";
static int g_selerr = 0;

static void ensure_field(const char *sel) {
	int err = 0;
	if (strcmp(sel, g_sel) == 0) return;
	if (sel[0] == 'P') {
		g_pid = atoi(sel + 1);
		VH_TRY(err, fp_param_set(g_pid));
	} else if (sel[0] == 'D') {
		bn_t p;
		bn_null(p); bn_new(p);
		vh_bn_set(p, sel + 1);
		g_pid = 0;
		VH_TRY(err, fp_prime_set_dense(p));
		bn_free(p);
	} else { fprintf(stderr, "bad selector %s\n", sel); exit(2); }
	vh_code();
	g_selerr = err;
	strncpy(g_sel, sel, sizeof(g_sel) - 1);
}

/* "select": log every constant derived from the modulus, as the library stores it */
static void do_select(void) {
	ctx_t *ctx = core_get();
	hdr("fp_select", 0);
	vh_dig("u", ctx->u);
	vh_digs("one", ctx->one.dp, FD);
	vh_digs("conv", ctx->conv.dp, FD);
	vh_digs("srt", ctx->srt.dp, FD);
	vh_digs("crt", ctx->crt.dp, FD);
	vh_int("mod8", (long)ctx->mod8);
	vh_int("mod18", (long)ctx->mod18);
	vh_int("qnr", ctx->qnr);
	vh_int("cnr", ctx->cnr);
	vh_int("ad2", ctx->ad2);
	vh_int("sps", fp_prime_get_sps(NULL) != NULL);
	fin(g_selerr, 1);
}

static int run_case(void) {
	const char *op = vh_tok[0];
	int al = vh_ntok > 1 ? atoi(vh_tok[1]) : 0;
#define OP(n) (strcmp(op, n) == 0)
	if (OP("select")) do_select();
	else if (OP("fp_add")) do_bin(op, w_add, al);
	else if (OP("fp_add_basic")) do_bin(op, fp_add_basic, al);
	else if (OP("fp_add_integ")) do_bin(op, fp_add_integ, al);
	else if (OP("fp_sub")) do_bin(op, w_sub, al);
	else if (OP("fp_sub_basic")) do_bin(op, fp_sub_basic, al);
	else if (OP("fp_sub_integ")) do_bin(op, fp_sub_integ, al);
	else if (OP("fp_mul")) do_bin(op, w_mul, al);
	else if (OP("fp_mul_basic")) do_bin(op, fp_mul_basic, al);
	else if (OP("fp_mul_comba")) do_bin(op, fp_mul_comba, al);
	else if (OP("fp_mul_integ")) do_bin(op, fp_mul_integ, al);
	else if (OP("fp_mul_karat")) do_bin(op, fp_mul_karat, al);
	else if (OP("fp_neg")) do_un(op, w_neg, al);
	else if (OP("fp_neg_basic")) do_un(op, fp_neg_basic, al);
	else if (OP("fp_neg_integ")) do_un(op, fp_neg_integ, al);
	else if (OP("fp_dbl")) do_un(op, w_dbl, al);
	else if (OP("fp_dbl_basic")) do_un(op, fp_dbl_basic, al);
	else if (OP("fp_dbl_integ")) do_un(op, fp_dbl_integ, al);
	else if (OP("fp_trs")) do_un(op, fp_trs, al);
	else if (OP("fp_hlv")) do_un(op, w_hlv, al);
	else if (OP("fp_hlv_basic")) do_un(op, fp_hlv_basic, al);
	else if (OP("fp_hlv_integ")) do_un(op, fp_hlv_integ, al);
	else if (OP("fp_sqr")) do_un(op, w_sqr, al);
	else if (OP("fp_sqr_basic")) do_un(op, fp_sqr_basic, al);
	else if (OP("fp_sqr_comba")) do_un(op, fp_sqr_comba, al);
	else if (OP("fp_sqr_integ")) do_un(op, fp_sqr_integ, al);
	else if (OP("fp_sqr_karat")) do_un(op, fp_sqr_karat, al);
	else if (OP("fp_inv")) do_un(op, w_inv, al);
	else if (OP("fp_inv_basic")) do_un(op, fp_inv_basic, al);
	else if (OP("fp_inv_binar")) do_un(op, fp_inv_binar, al);
	else if (OP("fp_inv_monty")) do_un(op, fp_inv_monty, al);
	else if (OP("fp_inv_exgcd")) do_un(op, fp_inv_exgcd, al);
	else if (OP("fp_inv_divst")) do_un(op, fp_inv_divst, al);
	else if (OP("fp_inv_jmpds")) do_un(op, fp_inv_jmpds, al);
	else if (OP("fp_inv_lower")) do_un(op, fp_inv_lower, al);
	else if (OP("fp_inv_sim")) do_inv_sim(op, al);
	else if (OP("fp_exp")) do_exp(op, w_exp, al);
	else if (OP("fp_exp_basic")) do_exp(op, fp_exp_basic, al);
	else if (OP("fp_exp_slide")) do_exp(op, fp_exp_slide, al);
	else if (OP("fp_exp_monty")) do_exp(op, fp_exp_monty, al);
	else if (OP("fp_exp_dig")) do_dig(op, fp_exp_dig, al);
	else if (OP("fp_add_dig")) do_dig(op, fp_add_dig, al);
	else if (OP("fp_sub_dig")) do_dig(op, fp_sub_dig, al);
	else if (OP("fp_mul_dig")) do_dig(op, fp_mul_dig, al);
	else if (OP("fp_srt")) do_root(op, fp_srt, al);
	else if (OP("fp_crt")) do_root(op, fp_crt, al);
	else if (OP("fp_is_sqr")) do_pred(op, fp_is_sqr);
	else if (OP("fp_is_cub")) do_pred(op, fp_is_cub);
	else if (OP("fp_smb")) do_pred(op, w_smb);
	else if (OP("fp_smb_basic")) do_pred(op, fp_smb_basic);
	else if (OP("fp_smb_binar")) do_pred(op, fp_smb_binar);
	else if (OP("fp_smb_divst")) do_pred(op, fp_smb_divst);
	else if (OP("fp_smb_jmpds")) do_pred(op, fp_smb_jmpds);
	else if (OP("fp_smb_lower")) do_pred(op, fp_smb_lower);
	else if (OP("fp_is_zero")) do_pred(op, fp_is_zero);
	else if (OP("fp_is_even")) do_pred(op, fp_is_even);
	else if (OP("fp_cmp")) do_cmp(op, al);
	else if (OP("fp_cmp_dig")) do_cmp_dig(op);
	else if (OP("fp_set_dig")) do_setdig(op, 0);
	else if (OP("fp_prime_conv_dig")) do_setdig(op, 1);
	else if (OP("fp_prime_conv")) do_conv(op);
	else if (OP("fp_prime_back")) do_back(op);
	else if (OP("fp_rdc")) do_rdc(op, w_rdc);
	else if (OP("fp_rdc_basic")) do_rdc(op, fp_rdc_basic);
	else if (OP("fp_rdc_monty")) do_rdc(op, w_rdc_monty);
	else if (OP("fp_rdc_monty_basic")) do_rdc(op, fp_rdc_monty_basic);
	else if (OP("fp_rdc_monty_comba")) do_rdc(op, fp_rdc_monty_comba);
	else if (OP("fp_rdc_quick")) do_rdc(op, fp_rdc_quick);
	else if (OP("fp_read_bin")) do_read_bin(op);
	else if (OP("fp_write_bin")) do_write_bin(op);
	else if (OP("fp_rand")) do_rand(op);
	else if (OP("fp_zero")) do_zero(op);
	else if (OP("fp_copy")) do_copy(op);
	else return 0;
	return 1;
}

/* print the parameter ids this build accepts, with their primes */
static int list_params(void) {
	int id, i, err;
	ctx_t *ctx = core_get();
	for (id = 1; id < 120; id++) {
		/* poison the modulus: an id that is not handled leaves it untouched */
		ctx->prime.dp[0] = 0;
		ctx->sps_len = 0;
		VH_TRY(err, fp_param_set(id));
		vh_code();
		if (err == 0 && (ctx->prime.dp[0] & 1) && ctx->prime.used == RLC_FP_DIGS) {
			printf("%d ", id);
			for (i = FD - 1; i >= 0; i--) printf("%0*llx", (int)(2 * sizeof(dig_t)), (unsigned long long)ctx->prime.dp[i]);
			printf(" %d\n", fp_prime_get_sps(NULL) != NULL);
		}
	}
	return 0;
}

int main(int argc, char **argv) {
	long start, idx = 0;
	FILE *in;
	int i;
	if (argc > 1 && strcmp(argv[1], "--list") == 0) {
		if (core_init() != RLC_OK) return 2;
		return list_params();
	}
	in = vh_open(argc, argv, &start);
	if (core_init() != RLC_OK) return 2;
	bn_new(E); bn_new(E0);
	dv_new(T);
	for (i = 0; i < 8; i++) { fp_new(X[i]); fp_new(Y[i]); fp_new(X0[i]); }
	fp_new(A); fp_new(B); fp_new(C); fp_new(A0); fp_new(B0);
	while (vh_next(in)) {
		if (idx++ < start) continue;
		vh_case = idx - 1;
		alarm(30);
		ensure_field(vh_tok[0]);
		memmove(vh_tok, vh_tok + 1, sizeof(vh_tok[0]) * (size_t)(vh_ntok - 1));
		vh_ntok--;
		if (!run_case()) { fprintf(stderr, "unknown op %s\n", vh_tok[0]); return 2; }
		alarm(0);
	}
	fclose(vh_out);
	core_clean();
	return 0;
}
