/*
 * drv_epn.c - conformance driver for the twists over F_p3, F_p4 and F_p8 that carry the second pairing group
 * at the other pairing field sizes (C11, extension part): group law in every coordinate system, comparison,
 * normalisation, every scalar multiplication, Frobenius, cofactor clearing.  One source, compiled once per
 * extension degree with -DEPN=3 | 4 | 8 (the ep3_ / ep4_ / ep8_ modules have the same interface).
 *
 * Case line:  <op> <curve> <alias> <args...>      op = ep<N>_<name>
 *   curve   id<N>       ep_param_set(N) + ep<N>_curve_set_twist(type).  The twist type is the caller's knowledge
 *                       (ep_param_set_any_pairf hard-codes it per field size): the driver takes the type the library's
 *                       own ep_param_set_any_pairf uses when it selects the same identifier, otherwise the type under
 *                       which the Frobenius map sends the generator to [p]G (selection of INPUT only; every relation
 *                       is judged by the spec from the dump)
 *   point   inf | infp | infj | inf0p | inf0j     identity: library form / (0:1:0) PROJC / (1:1:0) JACOB /
 *                                                 all-zero triple tagged PROJC / JACOB
 *           m<k>[/rep]          [k]G2 (INPUT construction with mul_basic + norm; the spec reads the raw result)
 *           c<seed>[/rep]       a curve point NOT constructed from the generator: t = seed div 2, first
 *                               x = (t + j, t^2 + 1, t^3 + 2, ...), j = 0, 1, ... for which x^3 + a x + b is a square,
 *                               y the root fpN_srt returns (negated for odd seed): outside the order-r subgroup w.h.p.
 *           r<seed>[/rep]       [r] c<seed>      (a point of the cofactor part)
 *           h<seed>[/rep]       [h2] c<seed>     (a subgroup member not constructed from the generator)
 *           xy<x0>,..,<x(N-1)>,<y0>,..,<y(N-1)>[/rep]    affine VALUES as given (may be off the curve)
 *           rep: P | J (retag, z = 1)   p<z0>,..,<z(N-1)> (x z, y z, z; PROJC)   j<z0>,.. (x z^2, y z^3, z; JACOB)
 *   scalar  hex with optional '-'
 *
 * Event: {"op","i","g" (the name without the ep<N>_ prefix), field header (p, w, fd, mont), "N", "lv" = the tower as the
 *   library's own arithmetic reveals it: per level {"deg", "g": flat raw gen^deg}, "a","b" raw twist coefficients (flat:
 *   N raw F_p elements in storage order), "n","h2","par","pf","tw","emb","endom","add","fpb","wd","dep","dgb","al",
 *   inputs "P","Q" raw points {"x","y","z" flat, "c" tag} / "k","m" bn / "dg" / "pw" / "ps","ks" lists (before the call),
 *   outputs "R" / "rs" / "ret" (after), "crash","err","code","unch"}
 */
#include "vh.h"

#ifndef EPN
#error "compile with -DEPN=3, 4 or 8"
#endif
#define CAT3_(a, b, c) a##b##c
#define CAT3(a, b, c) CAT3_(a, b, c)
#define E(name) CAT3(ep, EPN, _##name)
#define F(name) CAT3(fp, EPN, _##name)
typedef E(t) ET;
typedef E(st) EST;
typedef F(t) FT;
#if EPN == 3
#define CO(a, i) ((a)[i])
#elif EPN == 4
#define CO(a, i) ((a)[(i) / 2][(i) % 2])
#elif EPN == 8
#define CO(a, i) ((a)[(i) / 4][((i) / 2) % 2][(i) % 2])
#else
#error "EPN must be 3, 4 or 8"
#endif

/* ------------------------------------------------------------ event buffering (see drv_ep.c / ep2_common.h) */
static FILE *real_out;
static char *mbuf;
static size_t mlen, safe_len;
static volatile int in_event;

static void ev_begin(const char *op) {
	mbuf = NULL; mlen = 0; safe_len = 0;
	vh_out = open_memstream(&mbuf, &mlen);
	if (!vh_out) { perror("open_memstream"); exit(2); }
	in_event = 1;
	vh_begin(op);
}
static void ev_end(void) {
	vh_end();
	fclose(vh_out);
	in_event = 0;
	fwrite(mbuf, 1, mlen, real_out);
	fflush(real_out);
	free(mbuf);
	vh_out = real_out;
}
#define MARK() do { fflush(vh_out); safe_len = mlen; } while (0)

static void x_fatal(int sig) {
	char buf[200];
	int n;
	const char *what = (sig == SIGALRM) ? "TIMEOUT" : "CRASH";
	if (in_event && safe_len > 0) {
		if (write(vh_outfd, mbuf, safe_len) < 0) {}
		n = snprintf(buf, sizeof(buf), ",\"crash\":%d,\"err\":0,\"code\":0,\"unch\":false}\n", sig);
		if (write(vh_outfd, buf, n) < 0) {}
		what = "restart";
	}
	n = snprintf(buf, sizeof(buf), "{\"op\":\"%s\",\"i\":%ld,\"sig\":%d}\n", what, (long)vh_case, sig);
	if (write(vh_outfd, buf, n) < 0) {}
	_exit(sig == SIGALRM ? 3 : 4);
}
static void x_install(void) {
	signal(SIGSEGV, x_fatal); signal(SIGBUS, x_fatal); signal(SIGFPE, x_fatal);
	signal(SIGABRT, x_fatal); signal(SIGILL, x_fatal); signal(SIGALRM, x_fatal);
}

/* ------------------------------------------------------------ raw projections */
static void vh_fx_raw(FT a) {
	int i;
	fputc('[', vh_out);
	for (i = 0; i < EPN; i++) { if (i) fputc(',', vh_out); vh_fp_raw(CO(a, i)); }
	fputc(']', vh_out);
}
static void vh_fx(const char *k, FT a) { fprintf(vh_out, ",\"%s\":", k); vh_fx_raw(a); }
static void vh_ex_raw(EST *p) {
	fputs("{\"x\":", vh_out); vh_fx_raw(p->x);
	fputs(",\"y\":", vh_out); vh_fx_raw(p->y);
	fputs(",\"z\":", vh_out); vh_fx_raw(p->z);
	fprintf(vh_out, ",\"c\":%d}", p->coord);
}
static void vh_ex(const char *k, EST *p) { fprintf(vh_out, ",\"%s\":", k); vh_ex_raw(p); }
static int fx_same(FT a, FT b) {
	int i;
	for (i = 0; i < EPN; i++) if (memcmp(CO(a, i), CO(b, i), sizeof(dig_t) * RLC_FP_DIGS) != 0) return 0;
	return 1;
}
static int ex_same(EST *a, EST *b) {
	return fx_same(a->x, b->x) && fx_same(a->y, b->y) && fx_same(a->z, b->z) && a->coord == b->coord;
}
/* "<hex0>,...,<hex(N-1)>[,rest]" VALUES -> fpN; returns the rest (after the N-th value) or NULL; the token is modified */
static char *fx_set(FT a, char *tok) {
	int i;
	char *c = tok, *nx = NULL;
	for (i = 0; i < EPN; i++) {
		if (!c) { fprintf(stderr, "bad fp%d token\n", EPN); exit(2); }
		nx = strchr(c, ',');
		if (nx) *nx++ = 0;
		vh_fp_set(CO(a, i), c);
		c = nx;
	}
	return nx;
}

/* ------------------------------------------------------------ curve */
static char cur_curve[64];
static int cur_ok = 0, cur_twist = 0;
static ET G2;
static bn_t N2, H2, PAR, H1;
static int any_id = -1, any_type = 0;       /* what ep_param_set_any_pairf selects in this build (once) */

static int twist_degree(void) {
	int k = ep_curve_embed();
	if (k == 18) return 3;
	if (k == 16 || k == 24) return 4;
	if (k == 48) return 8;
	return 0;
}

static int gen_ok(void) {
	ET g; int r;
	E(null)(g); E(new)(g);
	E(curve_get_gen)(g);
	r = E(on_curve)(g) && !E(is_infty)(g);
	E(free)(g);
	return r;
}

/* does the Frobenius map send the generator to [p]G under the twist type now installed? (selection only) */
static int frb_is_p(void) {
	ET g, f; bn_t pp; int r;
	E(null)(g); E(null)(f); bn_null(pp); E(new)(g); E(new)(f); bn_new(pp);
	E(curve_get_gen)(g);
	bn_grow(pp, RLC_FP_DIGS);
	pp->used = RLC_FP_DIGS; pp->sign = RLC_POS; dv_copy(pp->dp, fp_prime_get(), RLC_FP_DIGS);
	E(frb)(f, g, 1); E(mul_basic)(g, g, pp);
	r = E(cmp)(f, g) == RLC_EQ;
	E(free)(g); E(free)(f); bn_free(pp);
	return r;
}

static int try_twist(int type) {
	volatile int ok = 0;
	RLC_TRY {
		E(curve_set_twist)(type);
		ok = (err_get_code() == RLC_OK) && E(curve_is_twist)() == type && gen_ok();
	} RLC_CATCH_ANY { ok = 0; }
	if (err_get_code() != RLC_OK) ok = 0;
	return ok;
}

static int set_curve(const char *spec) {
	volatile int ok = 0;
	int id;
	if (strcmp(spec, cur_curve) == 0) return cur_ok;
	if (strlen(spec) >= sizeof(cur_curve) || spec[0] != 'i' || spec[1] != 'd') return 0;
	strcpy(cur_curve, spec);
	cur_ok = 0;
	id = atoi(spec + 2);
	if (any_id == -1) {
		any_id = 0;
		RLC_TRY {
			if (ep_param_set_any_pairf() == RLC_OK && err_get_code() == RLC_OK && twist_degree() == EPN) {
				any_id = ep_param_get();
				any_type = E(curve_is_twist)();
			}
		} RLC_CATCH_ANY { any_id = 0; }
		(void)err_get_code();
	}
	RLC_TRY {
		ep_param_set(id);
		if (err_get_code() == RLC_OK && ep_curve_is_pairf() && twist_degree() == EPN) {
			if (id == any_id && any_type != 0) {
				cur_twist = any_type;
				ok = try_twist(any_type);
			} else {
				cur_twist = RLC_EP_DTYPE;
				ok = try_twist(RLC_EP_DTYPE);
				if (!ok || !frb_is_p()) {
					int ok2 = try_twist(RLC_EP_MTYPE);
					if (ok2) { cur_twist = RLC_EP_MTYPE; ok = 1; }
					else if (ok) ok = try_twist(RLC_EP_DTYPE);
				}
			}
		}
	} RLC_CATCH_ANY { ok = 0; }
	if (err_get_code() != RLC_OK) ok = 0;
	cur_ok = ok;
	if (cur_ok) {
		E(curve_get_gen)(G2); E(curve_get_ord)(N2); E(curve_get_cof)(H2); fp_prime_get_par(PAR);
		ep_curve_get_cof(H1);
	}
	return cur_ok;
}

/* the tower's defining constants, revealed by the library's own arithmetic: per level the deg-th power of its generator */
static void x_tower(void) {
	FT g, t;
	int lvl, dim = 1;
	F(null)(g); F(null)(t); F(new)(g); F(new)(t);
	fputs(",\"lv\":[", vh_out);
#if EPN == 3
	F(zero)(g); fp_set_dig(CO(g, 1), 1);
	F(sqr)(t, g); F(mul)(t, t, g);
	fputs("{\"deg\":3,\"g\":", vh_out); vh_fx_raw(t); fputc('}', vh_out);
	(void)lvl; (void)dim;
#else
	for (lvl = 0; dim < EPN; lvl++, dim *= 2) {
		F(zero)(g); fp_set_dig(CO(g, dim), 1);
		F(sqr)(t, g);
		if (lvl) fputc(',', vh_out);
		fputs("{\"deg\":2,\"g\":", vh_out); vh_fx_raw(t); fputc('}', vh_out);
	}
#endif
	fputc(']', vh_out);
	F(free)(g); F(free)(t);
}

static void x_hdr(const char *op, int al) {
	ev_begin(op);
	vh_str("g", op + 4);
	vh_fp_hdr();
	vh_int("N", EPN);
	x_tower();
	vh_fx("a", E(curve_get_a)());
	vh_fx("b", E(curve_get_b)());
	vh_bn("n", N2);
	vh_bn("h2", H2);
	vh_bn("par", PAR);
	vh_int("pf", ep_curve_is_pairf());
	vh_int("emb", ep_curve_embed());
	vh_int("tw", cur_twist);
	vh_int("endom", ep_curve_is_endom());
	vh_int("add", (long)EP_ADD);
	vh_int("fpb", (long)RLC_FP_BITS);
	vh_int("wd", (long)RLC_WIDTH);
	vh_int("dep", (long)RLC_DEPTH);
	vh_int("dgb", (long)RLC_DIG);
	vh_int("al", al);
}

static void x_fin(int err, int unch) {
	vh_int("crash", 0);
	vh_int("err", err);
	vh_int("code", vh_code());
	vh_bool("unch", unch);
	ev_end();
}

/* ------------------------------------------------------------ twist points from tokens */
static void pt_from_seed(EST *p, const char *hex) {
	bn_t s; FT t; fp_t tt, pw; int i, j, odd;
	bn_null(s); F(null)(t); fp_null(tt); fp_null(pw); bn_new(s); F(new)(t); fp_new(tt); fp_new(pw);
	vh_bn_set(s, hex);
	odd = bn_is_zero(s) ? 0 : (int)(s->dp[0] & 1);
	bn_hlv(s, s);               /* seeds 2t and 2t + 1 give opposite points */
	bn_mod(s, s, &core_get()->prime);
	if (bn_is_zero(s)) fp_zero(tt); else fp_prime_conv(tt, s);
	fp_copy(CO(p->x, 0), tt);
	fp_copy(pw, tt);
	for (i = 1; i < EPN; i++) {
		fp_mul(pw, pw, tt);
		fp_add_dig(CO(p->x, i), pw, i);
	}
	for (j = 0; j < 1000; j++) {
		E(rhs)(t, p->x);
		if (F(srt)(p->y, t)) break;
		fp_add_dig(CO(p->x, 0), CO(p->x, 0), 1);
	}
	if (j == 1000) { fprintf(stderr, "no curve point for seed %s\n", hex); exit(2); }
	if (odd) F(neg)(p->y, p->y);
	F(set_dig)(p->z, 1);
	p->coord = BASIC;
	bn_free(s); F(free)(t); fp_free(tt); fp_free(pw);
}

static void set_point(EST *p, char *tok) {
	char *rep = strchr(tok, '/');
	FT z, t;
	bn_t k;
	if (rep) *rep++ = 0;
	if (strcmp(tok, "inf") == 0) { E(set_infty)(p); return; }
	if (strcmp(tok, "infp") == 0) { F(zero)(p->x); F(set_dig)(p->y, 1); F(zero)(p->z); p->coord = PROJC; return; }
	if (strcmp(tok, "infj") == 0) { F(set_dig)(p->x, 1); F(set_dig)(p->y, 1); F(zero)(p->z); p->coord = JACOB; return; }
	if (strcmp(tok, "inf0p") == 0) { E(set_infty)(p); p->coord = PROJC; return; }
	if (strcmp(tok, "inf0j") == 0) { E(set_infty)(p); p->coord = JACOB; return; }
	bn_null(k); bn_new(k);
	if (tok[0] == 'm') {
		vh_bn_set(k, tok + 1);
		E(mul_basic)(p, G2, k);
		E(norm)(p, p);
	} else if (tok[0] == 'c') {
		pt_from_seed(p, tok + 1);
	} else if (tok[0] == 'r') {
		pt_from_seed(p, tok + 1);
		E(mul_basic)(p, p, N2); E(norm)(p, p);
	} else if (tok[0] == 'h') {
		pt_from_seed(p, tok + 1);
		E(mul_basic)(p, p, H2); E(norm)(p, p);
	} else if (tok[0] == 'x' && tok[1] == 'y') {
		char *rest = fx_set(p->x, tok + 2);
		if (!rest) { fprintf(stderr, "bad point token\n"); exit(2); }
		fx_set(p->y, rest);
		F(set_dig)(p->z, 1); p->coord = BASIC;
	} else {
		fprintf(stderr, "bad point token %s\n", tok);
		exit(2);
	}
	bn_free(k);
	if (!rep || E(is_infty)(p)) return;
	if (rep[0] == 'P') { p->coord = PROJC; return; }
	if (rep[0] == 'J') { p->coord = JACOB; return; }
	F(null)(z); F(null)(t); F(new)(z); F(new)(t);
	fx_set(z, rep + 1);
	if (rep[0] == 'p') {
		F(mul)(p->x, p->x, z); F(mul)(p->y, p->y, z); F(copy)(p->z, z); p->coord = PROJC;
	} else if (rep[0] == 'j') {
		F(sqr)(t, z); F(mul)(p->x, p->x, t); F(mul)(t, t, z); F(mul)(p->y, p->y, t); F(copy)(p->z, z);
		p->coord = JACOB;
	} else {
		fprintf(stderr, "bad representation %s\n", rep);
		exit(2);
	}
	F(free)(z); F(free)(t);
}

/* ------------------------------------------------------------ operations */
static ET P, Q, R, P0, Q0;
static bn_t K, M, K0, M0;
static ET TAB[RLC_EP_TABLE_MAX];
#define LOT_MAX 24
static ET LP[LOT_MAX], LP0[LOT_MAX], LR[LOT_MAX];
static bn_t LK[LOT_MAX], LK0[LOT_MAX];
static dig_t LD[LOT_MAX];

static void stale(EST *r) {
	char st[200], *q; int i;
	q = st + sprintf(st, "m7/p3");
	for (i = 1; i < EPN; i++) q += sprintf(q, ",%d", i + 4);
	set_point(r, st);
}
#define STALE(r) stale(r)

/* r = f(p): al 0 none, 1 r == p */
typedef void (*un_f)(EST *, const EST *);
static void do_un(const char *op, un_f f, int al) {
	int err, unch = 1;
	EST *pp = P, *pr = R;
	set_point(P, vh_tok[3]);
	if (al == 1) pr = pp;
	E(copy)(P0, P);
	STALE(R);
	x_hdr(op, al);
	vh_ex("P", pp);
	MARK();
	VH_TRY(err, f(pr, pp));
	vh_ex("R", pr);
	if (pr != pp) unch &= ex_same(P, P0);
	x_fin(err, unch);
}

/* r = f(p, q): al 0 none, 1 r == p, 2 r == q, 3 p == q, 4 r == p == q */
typedef void (*bin_f)(EST *, const EST *, const EST *);
static void do_bin(const char *op, bin_f f, int al) {
	int err, unch = 1;
	EST *pp = P, *pq = Q, *pr = R;
	set_point(P, vh_tok[3]);
	set_point(Q, vh_tok[4]);
	if (al == 3 || al == 4) pq = pp;
	if (al == 1 || al == 4) pr = pp;
	if (al == 2) pr = pq;
	E(copy)(P0, P); E(copy)(Q0, Q);
	STALE(R);
	x_hdr(op, al);
	vh_ex("P", pp); vh_ex("Q", pq);
	MARK();
	VH_TRY(err, f(pr, pp, pq));
	vh_ex("R", pr);
	if (pr != pp) unch &= ex_same(P, P0);
	if (pr != pq && pq != pp) unch &= ex_same(Q, Q0);
	x_fin(err, unch);
}

static void do_query(const char *op, int which) {
	int err;
	volatile long ret = 0;
	set_point(P, vh_tok[3]);
	E(copy)(P0, P);
	if (which == 0) { set_point(Q, vh_tok[4]); E(copy)(Q0, Q); }
	x_hdr(op, 0);
	vh_ex("P", P);
	if (which == 0) vh_ex("Q", Q);
	MARK();
	switch (which) {
		case 0: VH_TRY(err, ret = E(cmp)(P, Q)); break;
		case 1: VH_TRY(err, ret = E(on_curve)(P)); break;
		case 2: VH_TRY(err, ret = E(is_infty)(P)); break;
		default: err = 0;
	}
	vh_int("ret", ret);
	vh_int("EQ", RLC_EQ);
	x_fin(err, ex_same(P, P0) && (which != 0 || ex_same(Q, Q0)));
}

/* r = [k]p: al 0 none, 1 r == p */
typedef void (*mul_f)(EST *, const EST *, const bn_t);
static void do_mul(const char *op, mul_f f, int al) {
	int err, unch = 1;
	EST *pp = P, *pr = R;
	set_point(P, vh_tok[3]);
	vh_bn_set(K, vh_tok[4]);
	if (al == 1) pr = pp;
	E(copy)(P0, P); bn_copy(K0, K);
	STALE(R);
	x_hdr(op, al);
	vh_ex("P", pp); vh_bn("k", K);
	MARK();
	VH_TRY(err, f(pr, pp, K));
	vh_ex("R", pr);
	if (pr != pp) unch &= ex_same(P, P0);
	unch &= vh_bn_same(K, K0);
	x_fin(err, unch);
}

static void do_mul_gen(const char *op) {
	int err, unch = 1;
	E(curve_get_gen)(P);
	vh_bn_set(K, vh_tok[3]);
	bn_copy(K0, K);
	STALE(R);
	x_hdr(op, 0);
	vh_ex("P", P); vh_bn("k", K);
	MARK();
	VH_TRY(err, E(mul_gen)(R, K));
	vh_ex("R", R);
	unch &= vh_bn_same(K, K0);
	x_fin(err, unch);
}

static void do_mul_dig(const char *op, int al) {
	int err, unch = 1;
	EST *pp = P, *pr = R;
	dig_t d = vh_dig_tok(vh_tok[4]);
	set_point(P, vh_tok[3]);
	if (al == 1) pr = pp;
	E(copy)(P0, P);
	STALE(R);
	x_hdr(op, al);
	vh_ex("P", pp); vh_dig("dg", d);
	MARK();
	VH_TRY(err, E(mul_dig)(pr, pp, d));
	vh_ex("R", pr);
	if (pr != pp) unch &= ex_same(P, P0);
	x_fin(err, unch);
}

/* r = cof(p) / r = frb^i(p): al 0 none, 1 r == p */
static void do_cof(const char *op, int al) {
	int err, unch = 1;
	EST *pp = P, *pr = R;
	set_point(P, vh_tok[3]);
	if (al == 1) pr = pp;
	E(copy)(P0, P);
	STALE(R);
	x_hdr(op, al);
	vh_ex("P", pp);
	MARK();
	VH_TRY(err, E(mul_cof)(pr, pp));
	vh_ex("R", pr);
	if (pr != pp) unch &= ex_same(P, P0);
	x_fin(err, unch);
}
static void do_frb(const char *op, int al) {
	int err, unch = 1, pw = atoi(vh_tok[4]);
	EST *pp = P, *pr = R;
	set_point(P, vh_tok[3]);
	if (al == 1) pr = pp;
	E(copy)(P0, P);
	STALE(R);
	x_hdr(op, al);
	vh_ex("P", pp); vh_int("pw", pw);
	MARK();
	VH_TRY(err, E(frb)(pr, pp, pw));
	vh_ex("R", pr);
	if (pr != pp) unch &= ex_same(P, P0);
	x_fin(err, unch);
}

/* fixed base: table built by the matching builder from P (cached for the same curve/point/builder) */
typedef void (*pre_f)(ET *, const EST *);
typedef void (*fix_f)(EST *, const ET *, const bn_t);
static char tab_key[4096];
static void do_fix(const char *op, pre_f pre, fix_f fix) {
	int err = 0, err2 = 0, unch = 1;
	char key[4096];
	snprintf(key, sizeof(key), "%s|%s|%s", op, cur_curve, vh_tok[3]);
	set_point(P, vh_tok[3]);
	E(copy)(P0, P);
	vh_bn_set(K, vh_tok[4]);
	bn_copy(K0, K);
	if (strcmp(key, tab_key) != 0) {
		VH_TRY(err, pre(TAB, P));
		strcpy(tab_key, err ? "" : key);
	}
	STALE(R);
	x_hdr(op, 0);
	vh_ex("P", P); vh_bn("k", K);
	vh_int("perr", err);
	MARK();
	if (!err) VH_TRY(err2, fix(R, (const ET *)TAB, K));
	vh_ex("R", R);
	unch &= ex_same(P, P0) && vh_bn_same(K, K0);
	x_fin(err ? err : err2, unch);
}

/* r = [k]p + [m]q: al 0 none, 1 r == p, 2 r == q, 3 p == q */
typedef void (*sim_f)(EST *, const EST *, const bn_t, const EST *, const bn_t);
static void do_sim(const char *op, sim_f f, int al) {
	int err, unch = 1;
	EST *pp = P, *pq = Q, *pr = R;
	set_point(P, vh_tok[3]);
	vh_bn_set(K, vh_tok[4]);
	set_point(Q, vh_tok[5]);
	vh_bn_set(M, vh_tok[6]);
	if (al == 3) pq = pp;
	if (al == 1) pr = pp;
	if (al == 2) pr = pq;
	E(copy)(P0, P); E(copy)(Q0, Q); bn_copy(K0, K); bn_copy(M0, M);
	STALE(R);
	x_hdr(op, al);
	vh_ex("P", pp); vh_bn("k", K); vh_ex("Q", pq); vh_bn("m", M);
	MARK();
	VH_TRY(err, f(pr, pp, K, pq, M));
	vh_ex("R", pr);
	if (pr != pp) unch &= ex_same(P, P0);
	if (pr != pq && pq != pp) unch &= ex_same(Q, Q0);
	unch &= vh_bn_same(K, K0) && vh_bn_same(M, M0);
	x_fin(err, unch);
}

/* r = [k]G + [m]q: al 0 none, 2 r == q */
static void do_sim_gen(const char *op, int al) {
	int err, unch = 1;
	EST *pq = Q, *pr = R;
	E(curve_get_gen)(P);
	vh_bn_set(K, vh_tok[3]);
	set_point(Q, vh_tok[4]);
	vh_bn_set(M, vh_tok[5]);
	if (al == 2) pr = pq;
	E(copy)(Q0, Q); bn_copy(K0, K); bn_copy(M0, M);
	STALE(R);
	x_hdr(op, al);
	vh_ex("P", P); vh_bn("k", K); vh_ex("Q", pq); vh_bn("m", M);
	MARK();
	VH_TRY(err, E(mul_sim_gen)(pr, K, pq, M));
	vh_ex("R", pr);
	if (pr != pq) unch &= ex_same(Q, Q0);
	unch &= vh_bn_same(K, K0) && vh_bn_same(M, M0);
	x_fin(err, unch);
}

/* r = sum [k_i]p_i : <n> then n pairs (point, scalar | digit) */
static void do_lot(const char *op, int dig) {
	int err, unch = 1, i, n = atoi(vh_tok[3]);
	if (n > LOT_MAX || vh_ntok < 4 + 2 * n) { fprintf(stderr, "bad lot case\n"); exit(2); }
	for (i = 0; i < n; i++) {
		set_point(LP[i], vh_tok[4 + 2 * i]);
		E(copy)(LP0[i], LP[i]);
		if (dig) LD[i] = vh_dig_tok(vh_tok[5 + 2 * i]);
		else { vh_bn_set(LK[i], vh_tok[5 + 2 * i]); bn_copy(LK0[i], LK[i]); }
	}
	STALE(R);
	x_hdr(op, 0);
	vh_int("cnt", n);
	fputs(",\"ps\":[", vh_out);
	for (i = 0; i < n; i++) { if (i) fputc(',', vh_out); vh_ex_raw(LP[i]); }
	fputs("],\"ks\":[", vh_out);
	for (i = 0; i < n; i++) {
		if (i) fputc(',', vh_out);
		if (dig) { bn_set_dig(K, LD[i]); vh_bn_raw(K); } else vh_bn_raw(LK[i]);
	}
	fputc(']', vh_out);
	MARK();
	if (dig) VH_TRY(err, E(mul_sim_dig)(R, (const ET *)LP, LD, n));
	else VH_TRY(err, E(mul_sim_lot)(R, (const ET *)LP, (const bn_t *)LK, n));
	vh_ex("R", R);
	for (i = 0; i < n; i++) {
		unch &= ex_same(LP[i], LP0[i]);
		if (!dig) unch &= vh_bn_same(LK[i], LK0[i]);
	}
	x_fin(err, unch);
}

/* norm_sim: <n> points; al 0 separate output array, 1 in place */
static void do_norm_sim(const char *op, int al) {
	int err, unch = 1, i, n = atoi(vh_tok[3]);
	ET *out = al == 1 ? LP : LR;
	if (n > LOT_MAX || n < 1 || vh_ntok < 4 + n) { fprintf(stderr, "bad norm_sim case\n"); exit(2); }
	for (i = 0; i < n; i++) {
		set_point(LP[i], vh_tok[4 + i]);
		E(copy)(LP0[i], LP[i]);
		STALE(LR[i]);
	}
	x_hdr(op, al);
	vh_int("cnt", n);
	fputs(",\"ps\":[", vh_out);
	for (i = 0; i < n; i++) { if (i) fputc(',', vh_out); vh_ex_raw(LP[i]); }
	fputc(']', vh_out);
	MARK();
	VH_TRY(err, E(norm_sim)(out, (const ET *)LP, n));
	fputs(",\"rs\":[", vh_out);
	for (i = 0; i < n; i++) { if (i) fputc(',', vh_out); vh_ex_raw(out[i]); }
	fputc(']', vh_out);
	if (al != 1) for (i = 0; i < n; i++) unch &= ex_same(LP[i], LP0[i]);
	x_fin(err, unch);
}

/* which curve ids select a pairing-friendly set with a twist over F_p^N in this build? (input discovery) */
static void do_probe(void) {
	int ok;
	cur_curve[0] = 0;
	ok = set_curve(vh_tok[1]);
	ev_begin("curve_probe");
	vh_str("curve", vh_tok[1]);
	vh_int("ok", ok);
	vh_int("N", EPN);
	if (ok) {
		vh_fp_hdr();
		vh_bn("n", N2); vh_bn("h2", H2); vh_bn("h1", H1); vh_bn("par", PAR);
		vh_int("pf", ep_curve_is_pairf());
		vh_int("BN", EP_BN); vh_int("B12", EP_B12);
		vh_int("emb", ep_curve_embed());
		vh_int("tw", cur_twist);
		vh_int("anyid", any_id);
		vh_int("endom", ep_curve_is_endom());
		vh_int("fpb", (long)RLC_FP_BITS);
		vh_int("bnbits", (long)RLC_BN_BITS);
		vh_int("wd", (long)RLC_WIDTH);
		vh_int("dep", (long)RLC_DEPTH);
		vh_int("dgb", (long)RLC_DIG);
		vh_int("add", (long)EP_ADD);
	}
	ev_end();
}

static void w_neg(EST *r, const EST *p) { E(neg)(r, p); }
static void w_norm(EST *r, const EST *p) { E(norm)(r, p); }
static void w_add(EST *r, const EST *p, const EST *q) { E(add)(r, p, q); }
static void w_add_basic(EST *r, const EST *p, const EST *q) { E(add_basic)(r, p, q); }
static void w_add_projc(EST *r, const EST *p, const EST *q) { E(add_projc)(r, p, q); }
static void w_add_jacob(EST *r, const EST *p, const EST *q) { E(add_jacob)(r, p, q); }
static void w_sub(EST *r, const EST *p, const EST *q) { E(sub)(r, p, q); }
static void w_dbl(EST *r, const EST *p) { E(dbl)(r, p); }
static void w_dbl_basic(EST *r, const EST *p) { E(dbl_basic)(r, p); }
static void w_dbl_projc(EST *r, const EST *p) { E(dbl_projc)(r, p); }
static void w_dbl_jacob(EST *r, const EST *p) { E(dbl_jacob)(r, p); }
static void w_mul(EST *r, const EST *p, const bn_t k) { E(mul)(r, p, k); }
static void w_mul_basic(EST *r, const EST *p, const bn_t k) { E(mul_basic)(r, p, k); }
static void w_mul_slide(EST *r, const EST *p, const bn_t k) { E(mul_slide)(r, p, k); }
static void w_mul_monty(EST *r, const EST *p, const bn_t k) { E(mul_monty)(r, p, k); }
static void w_mul_lwnaf(EST *r, const EST *p, const bn_t k) { E(mul_lwnaf)(r, p, k); }
static void w_mul_lwreg(EST *r, const EST *p, const bn_t k) { E(mul_lwreg)(r, p, k); }
static void w_pre(ET *t, const EST *p) { E(mul_pre)(t, p); }
static void w_fix(EST *r, const ET *t, const bn_t k) { E(mul_fix)(r, t, k); }
static void w_pre_basic(ET *t, const EST *p) { E(mul_pre_basic)(t, p); }
static void w_fix_basic(EST *r, const ET *t, const bn_t k) { E(mul_fix_basic)(r, t, k); }
static void w_pre_combs(ET *t, const EST *p) { E(mul_pre_combs)(t, p); }
static void w_fix_combs(EST *r, const ET *t, const bn_t k) { E(mul_fix_combs)(r, t, k); }
static void w_pre_combd(ET *t, const EST *p) { E(mul_pre_combd)(t, p); }
static void w_fix_combd(EST *r, const ET *t, const bn_t k) { E(mul_fix_combd)(r, t, k); }
static void w_pre_lwnaf(ET *t, const EST *p) { E(mul_pre_lwnaf)(t, p); }
static void w_fix_lwnaf(EST *r, const ET *t, const bn_t k) { E(mul_fix_lwnaf)(r, t, k); }
static void w_sim(EST *r, const EST *p, const bn_t k, const EST *q, const bn_t m) { E(mul_sim)(r, p, k, q, m); }
static void w_sim_basic(EST *r, const EST *p, const bn_t k, const EST *q, const bn_t m) { E(mul_sim_basic)(r, p, k, q, m); }
static void w_sim_trick(EST *r, const EST *p, const bn_t k, const EST *q, const bn_t m) { E(mul_sim_trick)(r, p, k, q, m); }
static void w_sim_inter(EST *r, const EST *p, const bn_t k, const EST *q, const bn_t m) { E(mul_sim_inter)(r, p, k, q, m); }
static void w_sim_joint(EST *r, const EST *p, const bn_t k, const EST *q, const bn_t m) { E(mul_sim_joint)(r, p, k, q, m); }

static int run_case(void) {
	const char *op = vh_tok[0], *g;
	int al = vh_ntok > 2 ? atoi(vh_tok[2]) : 0;
	char pre[8];
#define OP(n) (strcmp(g, n) == 0)
	if (strcmp(op, "curve_probe") == 0) { do_probe(); return 1; }
	snprintf(pre, sizeof(pre), "ep%d_", EPN);
	if (strncmp(op, pre, 4) != 0) return 0;
	g = op + 4;
	if (!set_curve(vh_tok[1])) {
		ev_begin("BADCURVE"); vh_str("curve", vh_tok[1]); ev_end();
		return 1;
	}
	if (OP("neg")) do_un(op, w_neg, al);
	else if (OP("norm")) do_un(op, w_norm, al);
	else if (OP("norm_sim")) do_norm_sim(op, al);
	else if (OP("dbl")) do_un(op, w_dbl, al);
	else if (OP("dbl_basic")) do_un(op, w_dbl_basic, al);
	else if (OP("dbl_projc")) do_un(op, w_dbl_projc, al);
	else if (OP("dbl_jacob")) do_un(op, w_dbl_jacob, al);
	else if (OP("add")) do_bin(op, w_add, al);
	else if (OP("add_basic")) do_bin(op, w_add_basic, al);
	else if (OP("add_projc")) do_bin(op, w_add_projc, al);
	else if (OP("add_jacob")) do_bin(op, w_add_jacob, al);
	else if (OP("sub")) do_bin(op, w_sub, al);
	else if (OP("cmp")) do_query(op, 0);
	else if (OP("on_curve")) do_query(op, 1);
	else if (OP("is_infty")) do_query(op, 2);
	else if (OP("mul")) do_mul(op, w_mul, al);
	else if (OP("mul_basic")) do_mul(op, w_mul_basic, al);
	else if (OP("mul_slide")) do_mul(op, w_mul_slide, al);
	else if (OP("mul_monty")) do_mul(op, w_mul_monty, al);
	else if (OP("mul_lwnaf")) do_mul(op, w_mul_lwnaf, al);
	else if (OP("mul_lwreg")) do_mul(op, w_mul_lwreg, al);
	else if (OP("mul_gen")) do_mul_gen(op);
	else if (OP("mul_dig")) do_mul_dig(op, al);
	else if (OP("mul_cof")) do_cof(op, al);
	else if (OP("frb")) do_frb(op, al);
	else if (OP("mul_fix")) do_fix(op, w_pre, w_fix);
	else if (OP("mul_fix_basic")) do_fix(op, w_pre_basic, w_fix_basic);
	else if (OP("mul_fix_combs")) do_fix(op, w_pre_combs, w_fix_combs);
	else if (OP("mul_fix_combd")) do_fix(op, w_pre_combd, w_fix_combd);
	else if (OP("mul_fix_lwnaf")) do_fix(op, w_pre_lwnaf, w_fix_lwnaf);
	else if (OP("mul_sim")) do_sim(op, w_sim, al);
	else if (OP("mul_sim_basic")) do_sim(op, w_sim_basic, al);
	else if (OP("mul_sim_trick")) do_sim(op, w_sim_trick, al);
	else if (OP("mul_sim_inter")) do_sim(op, w_sim_inter, al);
	else if (OP("mul_sim_joint")) do_sim(op, w_sim_joint, al);
	else if (OP("mul_sim_gen")) do_sim_gen(op, al);
	else if (OP("mul_sim_lot")) do_lot(op, 0);
	else if (OP("mul_sim_dig")) do_lot(op, 1);
	else return 0;
	return 1;
}

int main(int argc, char **argv) {
	long start, idx = 0;
	int i;
	FILE *in = vh_open(argc, argv, &start);
	real_out = vh_out;
	x_install();
	if (core_init() != RLC_OK) return 2;
	E(null)(G2); E(new)(G2);
	bn_null(N2); bn_null(H2); bn_null(PAR); bn_null(H1);
	bn_new(N2); bn_new(H2); bn_new(PAR); bn_new(H1);
	E(null)(P); E(null)(Q); E(null)(R); E(null)(P0); E(null)(Q0);
	E(new)(P); E(new)(Q); E(new)(R); E(new)(P0); E(new)(Q0);
	bn_null(K); bn_null(M); bn_null(K0); bn_null(M0);
	bn_new(K); bn_new(M); bn_new(K0); bn_new(M0);
	for (i = 0; i < (int)RLC_EP_TABLE_MAX; i++) { E(null)(TAB[i]); E(new)(TAB[i]); }
	for (i = 0; i < LOT_MAX; i++) {
		E(null)(LP[i]); E(new)(LP[i]); E(null)(LP0[i]); E(new)(LP0[i]); E(null)(LR[i]); E(new)(LR[i]);
		bn_null(LK[i]); bn_new(LK[i]); bn_null(LK0[i]); bn_new(LK0[i]);
	}
	while (vh_next(in)) {
		if (idx++ < start) continue;
		vh_case = idx - 1;
		alarm(120);
		if (!run_case()) { fprintf(stderr, "unknown op %s\n", vh_tok[0]); return 2; }
		alarm(0);
	}
	fclose(real_out);
	core_clean();
	return 0;
}
