/*
 * drv_fpx.c - conformance driver for the extension-field towers (C10).
 *
 * Case line:  <sel> <op> <alias> <args...>
 *   sel = P<id> (fp_param_set(id)) | A (ep_param_set_any_pairf: curve and twist of a sweep build) | E<curve name><d|m> (ep_param_set + ep2_curve_set_twist(D|M type):
 *   the sparse multiplications of the pairing towers choose their pattern by the twist type) |
 *   D<hex> (fp_prime_set_dense, tiny worlds);
 *   op  = full function name (fp12_mul_lazyr, ...) or "tower <levels...>";
 *   element token = [c:|n:|k:|K:]<coef>,<coef>,...  (one coefficient token per base-field
 *   coefficient in storage order; <hex> = VALUE converted by the library, r:<hex> = RAW digits)
 *     c: the library's fpN_conv_cyc is applied first (an element of the cyclotomic subgroup)
 *     n: x -> conj(x) / x with the library's inv and mul (a norm-1 element of a quadratic top level)
 *     k: conv_cyc, then the compressed squaring into a zeroed element (input of back_cyc)
 *     K: conv_cyc only, used as compressed form as it stands
 *     s: the library's fpN_sqr is applied first (a square)
 *     g: the library's final exponentiation pp_exp_k12 is applied first (order divides r)
 *   Inputs are always logged RAW after this preparation: the specification judges what
 *   the call under test received, whatever produced it.
 *
 * Event: {"op","f","lvl","i", field header p,w,fd,mont, "pid","tw","al",
 *         tower constants as the library computes them (read once per selection):
 *           "u2" = (0,1)^2 in fp2, "xi" = fp2_mul_nor(1), "u3" = u^3 in fp3, "x3" = fp3_mul_nor(1),
 *         inputs before (raw coefficient vectors "a","b","d"), outputs after ("c"), ...}
 */
#include "vh.h"

#if ALLOC != AUTO
#error "drv_fpx.c relies on the contiguous layout of ALLOC=AUTO"
#endif

#define FD ((int)RLC_FP_DIGS)
#define MAXD 54
#define MAXSIM 6

typedef fp_t S2;   typedef fp_t S3;   typedef fp2_t S4;  typedef fp2_t S6;
typedef fp4_t S8;  typedef fp3_t S9;  typedef fp6_t S12; typedef fp8_t S16;
typedef fp9_t S18; typedef fp8_t S24; typedef fp24_t S48; typedef fp18_t S54;

static fp_t A[MAXD], B[MAXD], C[MAXD], D[MAXD], A0[MAXD], B0[MAXD], D0[MAXD], T1[MAXD], T2[MAXD];
static fp_t XS[MAXSIM * MAXD], YS[MAXSIM * MAXD], XS0[MAXSIM * MAXD];
static dv_t DV[MAXD];
static bn_t E, E0, E2, E20;
static int g_pid = 0;

enum { K_BIN, K_UN, K_UNR2, K_UNR1, K_FRB, K_MFRB, K_DIG, K_SETDIG, K_CMPDIG, K_EXP, K_EXPSIM, K_SPS,
       K_PRED, K_ROOT, K_CMP, K_SIM, K_ZERO };

typedef void (*f_bin)(void *, void *, void *);
typedef void (*f_un)(void *, void *);
typedef void (*f_frb)(void *, void *, int);
typedef void (*f_mfrb)(void *, void *, int, int);
typedef void (*f_dig)(void *, void *, dig_t);
typedef void (*f_setdig)(void *, dig_t);
typedef int (*f_cmpdig)(void *, dig_t);
typedef void (*f_exp)(void *, void *, const bn_t);
typedef void (*f_expsim)(void *, void *, const bn_t, void *, const bn_t);
typedef void (*f_sps)(void *, void *, const int *, int, int);
typedef int (*f_pred)(void *);
typedef int (*f_root)(void *, void *);
typedef int (*f_cmp)(void *, void *);
typedef void (*f_sim)(void *, void *, int);
typedef void (*f_zero)(void *);

/* defined by the library, selected through the fp16_mul_dxs macro only */
void fp16_mul_dxs_basic(fp16_t c, const fp16_t a, const fp16_t b);
void fp16_mul_dxs_lazyr(fp16_t c, const fp16_t a, const fp16_t b);

/* ---- wrapper generators (most of the API are macros selecting a variant) ---- */
#define W_BIN(N, f) static void w##N##_##f(void *c, void *a, void *b) { fp##N##_##f((S##N *)c, (S##N *)a, (S##N *)b); }
#define W_UN(N, f) static void w##N##_##f(void *c, void *a) { fp##N##_##f((S##N *)c, (S##N *)a); }
#define W_UNR2(N, D_, f) static void w##N##_##f(void *c, void *a, void *b) { fp##N##_##f((D_ *)c, (S##N *)a, (S##N *)b); }
#define W_UNR1(N, D_, f) static void w##N##_##f(void *c, void *a) { fp##N##_##f((D_ *)c, (S##N *)a); }
#define W_FRB(N, f) static void w##N##_##f(void *c, void *a, int i) { fp##N##_##f((S##N *)c, (S##N *)a, i); }
#define W_MFRB(N, f) static void w##N##_##f(void *c, void *a, int i, int j) { fp##N##_##f((S##N *)c, (S##N *)a, i, j); }
#define W_DIG(N, f) static void w##N##_##f(void *c, void *a, dig_t d) { fp##N##_##f((S##N *)c, (S##N *)a, d); }
#define W_SETDIG(N, f) static void w##N##_##f(void *c, dig_t d) { fp##N##_##f((S##N *)c, d); }
#define W_CMPDIG(N, f) static int w##N##_##f(void *a, dig_t d) { return fp##N##_##f((S##N *)a, d); }
#define W_EXP(N, f) static void w##N##_##f(void *c, void *a, const bn_t b) { fp##N##_##f((S##N *)c, (S##N *)a, b); }
#define W_EXPSIM(N, f) static void w##N##_##f(void *e, void *a, const bn_t b, void *c, const bn_t d) { fp##N##_##f((S##N *)e, (S##N *)a, b, (S##N *)c, d); }
#define W_SPS(N, f) static void w##N##_##f(void *c, void *a, const int *b, int l, int s) { fp##N##_##f((S##N *)c, (S##N *)a, b, l, s); }
#define W_PRED(N, f) static int w##N##_##f(void *a) { return fp##N##_##f((S##N *)a); }
#define W_ROOT(N, f) static int w##N##_##f(void *c, void *a) { return fp##N##_##f((S##N *)c, (S##N *)a); }
#define W_CMP(N, f) static int w##N##_##f(void *a, void *b) { return fp##N##_##f((S##N *)a, (S##N *)b); }
#define W_SIM(N, f) static void w##N##_##f(void *c, void *a, int n) { fp##N##_##f((fp##N##_t *)c, (fp##N##_t *)a, n); }
#define W_ZERO(N, f) static void w##N##_##f(void *c) { fp##N##_##f((S##N *)c); }

/* ---- the operations per level ---- */
#define COMMON(X, N) \
	X(BIN, N, add) X(BIN, N, sub) X(BIN, N, mul) X(UN, N, neg) X(UN, N, dbl) X(UN, N, sqr) X(UN, N, inv) \
	X(UN, N, copy) X(UN, N, mul_art) X(FRB, N, frb) X(EXP, N, exp) X(SETDIG, N, set_dig) X(CMPDIG, N, cmp_dig) \
	X(PRED, N, is_zero) X(CMP, N, cmp) X(ZERO, N, zero) X(ZERO, N, rand)
#define LAZY(X, N) \
	X(BIN, N, mul_basic) X(BIN, N, mul_lazyr) X(UN, N, sqr_basic) X(UN, N, sqr_lazyr)
#define CYC(X, N) \
	X(UN, N, inv_cyc) X(UN, N, conv_cyc) X(PRED, N, test_cyc) X(EXP, N, exp_cyc) X(DIG, N, exp_dig)
#define PCK(X, N) \
	X(UN, N, sqr_cyc) X(UN, N, sqr_cyc_basic) X(UN, N, sqr_cyc_lazyr) X(UN, N, sqr_pck) X(UN, N, sqr_pck_basic) \
	X(UN, N, sqr_pck_lazyr) X(UN, N, back_cyc) X(SIM, N, back_cyc_sim) X(SPS, N, exp_cyc_sps)

#define OPS(X) \
	COMMON(X, 2) X(BIN, 2, add_basic) X(BIN, 2, add_integ) X(BIN, 2, sub_basic) X(BIN, 2, sub_integ) \
	X(BIN, 2, mul_basic) X(BIN, 2, mul_integ) X(UN, 2, dbl_basic) X(UN, 2, dbl_integ) X(UN, 2, sqr_basic) \
	X(UN, 2, sqr_integ) X(UN, 2, mul_nor) X(UN, 2, mul_nor_basic) X(UN, 2, mul_nor_integ) CYC(X, 2) \
	X(MFRB, 2, mul_frb) X(DIG, 2, mul_dig) X(DIG, 2, add_dig) X(DIG, 2, sub_dig) X(EXPSIM, 2, exp_cyc_sim) \
	X(PRED, 2, is_sqr) X(ROOT, 2, srt) X(SIM, 2, inv_sim) \
	COMMON(X, 3) X(BIN, 3, add_basic) X(BIN, 3, add_integ) X(BIN, 3, sub_basic) X(BIN, 3, sub_integ) \
	X(BIN, 3, mul_basic) X(BIN, 3, mul_integ) X(UN, 3, dbl_basic) X(UN, 3, dbl_integ) X(UN, 3, sqr_basic) \
	X(UN, 3, sqr_integ) X(UN, 3, mul_nor) X(DIG, 3, mul_dig) X(DIG, 3, add_dig) X(DIG, 3, sub_dig) \
	X(PRED, 3, is_sqr) X(ROOT, 3, srt) X(SIM, 3, inv_sim) \
	COMMON(X, 4) LAZY(X, 4) X(UNR2, 4, mul_unr) X(UNR1, 4, sqr_unr) X(UN, 4, inv_cyc) X(DIG, 4, mul_dig) \
	X(DIG, 4, add_dig) X(DIG, 4, sub_dig) X(PRED, 4, is_sqr) X(ROOT, 4, srt) X(SIM, 4, inv_sim) \
	COMMON(X, 6) LAZY(X, 6) X(UNR2, 6, mul_unr) X(UNR1, 6, sqr_unr) X(BIN, 6, mul_dxs) \
	COMMON(X, 8) LAZY(X, 8) X(UNR2, 8, mul_unr) X(UNR1, 8, sqr_unr) X(BIN, 8, mul_dxs) CYC(X, 8) X(UN, 8, sqr_cyc) \
	X(DIG, 8, mul_dig) X(EXPSIM, 8, exp_cyc_sim) X(PRED, 8, is_sqr) X(ROOT, 8, srt) X(SIM, 8, inv_sim) \
	COMMON(X, 9) LAZY(X, 9) X(UNR2, 9, mul_unr) X(UNR1, 9, sqr_unr) X(BIN, 9, mul_dxs) X(SIM, 9, inv_sim) \
	COMMON(X, 12) LAZY(X, 12) X(UNR2, 12, mul_unr) X(UNR1, 12, sqr_unr) X(BIN, 12, mul_dxs) X(BIN, 12, mul_dxs_basic) \
	X(BIN, 12, mul_dxs_lazyr) CYC(X, 12) PCK(X, 12) X(EXPSIM, 12, exp_cyc_sim) \
	COMMON(X, 16) LAZY(X, 16) CYC(X, 16) X(UN, 16, sqr_cyc) X(EXPSIM, 16, exp_cyc_sim) X(BIN, 16, mul_dxs) \
	X(BIN, 16, mul_dxs_basic) X(BIN, 16, mul_dxs_lazyr) X(PRED, 16, is_sqr) X(ROOT, 16, srt) \
	X(SIM, 16, inv_sim) \
	COMMON(X, 18) LAZY(X, 18) X(UNR2, 18, mul_unr) X(UNR1, 18, sqr_unr) X(BIN, 18, mul_dxs) X(BIN, 18, mul_dxs_basic) \
	X(BIN, 18, mul_dxs_lazyr) CYC(X, 18) PCK(X, 18) X(EXPSIM, 18, exp_cyc_sim) \
	COMMON(X, 24) LAZY(X, 24) CYC(X, 24) PCK(X, 24) X(EXPSIM, 24, exp_cyc_sim) X(BIN, 24, mul_dxs) \
	COMMON(X, 48) LAZY(X, 48) CYC(X, 48) PCK(X, 48) X(BIN, 48, mul_dxs) \
	COMMON(X, 54) LAZY(X, 54) CYC(X, 54) PCK(X, 54) X(BIN, 54, mul_dxs)

/* the unreduced variants write double-length accumulators */
#define W_UNR2_(N, f) W_UNR2(N, DV##N, f)
#define W_UNR1_(N, f) W_UNR1(N, DV##N, f)
typedef dv2_t DV4; typedef dv2_t DV6; typedef dv4_t DV8; typedef dv3_t DV9; typedef dv6_t DV12; typedef dv9_t DV18;

#define DEFW(K, N, f) DEFW_##K(N, f)
#define DEFW_BIN(N, f) W_BIN(N, f)
#define DEFW_UN(N, f) W_UN(N, f)
#define DEFW_UNR2(N, f) W_UNR2_(N, f)
#define DEFW_UNR1(N, f) W_UNR1_(N, f)
#define DEFW_FRB(N, f) W_FRB(N, f)
#define DEFW_MFRB(N, f) W_MFRB(N, f)
#define DEFW_DIG(N, f) W_DIG(N, f)
#define DEFW_SETDIG(N, f) W_SETDIG(N, f)
#define DEFW_CMPDIG(N, f) W_CMPDIG(N, f)
#define DEFW_EXP(N, f) W_EXP(N, f)
#define DEFW_EXPSIM(N, f) W_EXPSIM(N, f)
#define DEFW_SPS(N, f) W_SPS(N, f)
#define DEFW_PRED(N, f) W_PRED(N, f)
#define DEFW_ROOT(N, f) W_ROOT(N, f)
#define DEFW_CMP(N, f) W_CMP(N, f)
#define DEFW_SIM(N, f) W_SIM(N, f)
#define DEFW_ZERO(N, f) W_ZERO(N, f)
OPS(DEFW)

typedef struct { int lvl; const char *f; int kind; void (*fn)(void); } op_t;
#define ROW(K, N, f) { N, #f, K_##K, (void (*)(void))w##N##_##f },
static const op_t g_ops[] = { OPS(ROW) { 0, NULL, 0, NULL } };

static const op_t *find_op(int lvl, const char *f) {
	const op_t *o;
	for (o = g_ops; o->f; o++) if (o->lvl == lvl && strcmp(o->f, f) == 0) return o;
	return NULL;
}

/* ------------------------------------------------------------ tower constants */
static fp_t g_u2[2], g_xi[2], g_u3[3], g_x3[3];
static int g_has3 = 0, g_has2 = 0;

static void read_tower(void) {
	int err;
	fp_t t[3], s[3];
	g_has2 = fp_prime_get_qnr() != 0;
	g_has3 = fp_prime_get_cnr() != 0;
	memset(g_u2, 0, sizeof(g_u2)); memset(g_xi, 0, sizeof(g_xi)); memset(g_u3, 0, sizeof(g_u3)); memset(g_x3, 0, sizeof(g_x3));
	if (g_has2) {
		fp_zero(t[0]); fp_set_dig(t[1], 1);
		VH_TRY(err, fp2_sqr(g_u2, t));
		fp_set_dig(t[0], 1); fp_zero(t[1]);
		VH_TRY(err, fp2_mul_nor(g_xi, t));
	}
	if (g_has3) {
		fp_zero(t[0]); fp_set_dig(t[1], 1); fp_zero(t[2]);
		VH_TRY(err, fp3_sqr(s, t));
		VH_TRY(err, fp3_mul(g_u3, s, t));
		fp_set_dig(t[0], 1); fp_zero(t[1]); fp_zero(t[2]);
		VH_TRY(err, fp3_mul_nor(g_x3, t));
	}
	vh_code();
}

static void vh_el(const char *k, fp_t *a, int n) {
	int i;
	fprintf(vh_out, ",\"%s\":[", k);
	for (i = 0; i < n; i++) { if (i) fputc(',', vh_out); vh_fp_raw(a[i]); }
	fputc(']', vh_out);
}

static void hdr(const char *op, const char *f, int lvl, int al) {
	vh_begin(op);
	vh_str("f", f);
	vh_int("lvl", lvl);
	vh_fp_hdr();
	vh_int("pid", g_pid);
	vh_int("tw", ep2_curve_is_twist());
	vh_int("tw3", ep3_curve_is_twist());
	vh_int("al", al);
	vh_el("u2", g_u2, 2); vh_el("xi", g_xi, 2); vh_el("u3", g_u3, 3); vh_el("x3", g_x3, 3);
}

static void fin(int err, int unch) {
	vh_int("err", err);
	vh_int("code", vh_code());
	vh_bool("unch", unch);
	vh_end();
}

static int same(fp_t *a, fp_t *b, int n) {
	int i;
	for (i = 0; i < n; i++) if (memcmp(a[i], b[i], sizeof(dig_t) * FD) != 0) return 0;
	return 1;
}
static void cpy(fp_t *c, fp_t *a, int n) { int i; for (i = 0; i < n; i++) fp_copy(c[i], a[i]); }
static void stale(fp_t *c, int n) {
	int i, j;
	for (i = 0; i < n; i++) for (j = 0; j < FD; j++) c[i][j] = (dig_t)0x5a5a5a5a5a5a5a5aULL;
}

/* parse an element token into n coefficients */
static void set_el(fp_t *a, int lvl, const char *tok0) {
	static char buf[VH_LINE / 4];
	char *p, *q, mode = 0;
	int i = 0, n = lvl, err = 0;
	const char *tok = tok0;
	if (tok[0] && tok[1] == ':' && tok[0] != 'r') { mode = tok[0]; tok += 2; }
	strncpy(buf, tok, sizeof(buf) - 1);
	for (p = buf; p && i < n; p = q) {
		q = strchr(p, ',');
		if (q) *q++ = 0;
		vh_fp_set(a[i], p);
		if (dv_cmp(a[i], fp_prime_get(), FD) != RLC_LT) {
			fprintf(stderr, "case %ld: coefficient %s is not below the modulus\n", (long)vh_case, p);
			exit(2);
		}
		i++;
	}
	if (i != n || p) { fprintf(stderr, "case %ld: element %s does not have %d coefficients\n", (long)vh_case, tok0, n); exit(2); }
	if (mode == 'c' || mode == 'k' || mode == 'K') {
		const op_t *o = find_op(lvl, "conv_cyc");
		if (!o) { fprintf(stderr, "no conv_cyc at level %d\n", lvl); exit(2); }
		VH_TRY(err, ((f_un)o->fn)(T1, a));
		cpy(a, T1, n);
		if (mode == 'k') {
			o = find_op(lvl, "sqr_pck");
			if (!o) { fprintf(stderr, "no sqr_pck at level %d\n", lvl); exit(2); }
			for (i = 0; i < n; i++) fp_zero(T1[i]);
			VH_TRY(err, ((f_un)o->fn)(T1, a));
			cpy(a, T1, n);
		}
	} else if (mode == 'n') {
		/* conj(x) / x for a quadratic top level: the upper half changes sign */
		const op_t *oi = find_op(lvl, "inv"), *om = find_op(lvl, "mul");
		VH_TRY(err, ((f_un)oi->fn)(T1, a));
		for (i = n / 2; i < n; i++) fp_neg(a[i], a[i]);
		VH_TRY(err, ((f_bin)om->fn)(T2, a, T1));
		cpy(a, T2, n);
	} else if (mode == 'g') {
		/* an element of order dividing r: the final exponentiation of the pairing (dodecic towers only) */
		if (lvl != 12 || !ep_curve_is_pairf()) { fprintf(stderr, "g: needs a pairing-friendly curve with k = 12\n"); exit(2); }
		VH_TRY(err, pp_exp_k12((fp6_t *)T1, (fp6_t *)a));
		cpy(a, T1, n);
	} else if (mode == 's') {
		/* a square, by the library's own squaring */
		const op_t *o = find_op(lvl, "sqr");
		VH_TRY(err, ((f_un)o->fn)(T1, a));
		cpy(a, T1, n);
	} else if (mode) { fprintf(stderr, "bad element prefix in %s\n", tok0); exit(2); }
	if (err) { fprintf(stderr, "case %ld: preparing %s failed\n", (long)vh_case, tok0); vh_code(); }
}

/* ------------------------------------------------------------ executors */
static void do_bin(const char *op, const op_t *o, int al, int unr) {
	int err, unch = 1, n = o->lvl, i;
	fp_t *pa = A, *pb = B, *pc = C;
	set_el(A, n, vh_tok[2]); set_el(B, n, vh_tok[3]);
	if (!unr) {
		if (al == 3 || al == 4) pb = pa;
		if (al == 1 || al == 4) pc = pa;
		if (al == 2) pc = pb;
	} else if (al == 3) pb = pa;
	cpy(A0, A, n); cpy(B0, B, n);
	stale(C, n);
	hdr(op, o->f, n, al);
	vh_el("a", pa, n); vh_el("b", pb, n);
	if (unr) {
		for (i = 0; i < n; i++) memset(DV[i], 0x5a, sizeof(dig_t) * 2 * FD);
		VH_TRY(err, ((f_bin)o->fn)(DV, pa, pb));
		fprintf(vh_out, ",\"t\":[");
		for (i = 0; i < n; i++) { if (i) fputc(',', vh_out); vh_digs_raw(DV[i], 2 * FD); }
		fputc(']', vh_out);
	} else {
		VH_TRY(err, ((f_bin)o->fn)(pc, pa, pb));
		vh_el("c", pc, n);
	}
	if (pc != pa) unch &= same(A, A0, n);
	if (pc != pb && pb != pa) unch &= same(B, B0, n);
	fin(err, unch);
}

static void do_un(const char *op, const op_t *o, int al, int unr) {
	int err, unch = 1, n = o->lvl, i;
	fp_t *pa = A, *pc = C;
	set_el(A, n, vh_tok[2]);
	if (al == 1 && !unr) pc = pa;
	cpy(A0, A, n);
	stale(C, n);
	hdr(op, o->f, n, al);
	vh_el("a", pa, n);
	if (unr) {
		for (i = 0; i < n; i++) memset(DV[i], 0x5a, sizeof(dig_t) * 2 * FD);
		VH_TRY(err, ((f_un)o->fn)(DV, pa));
		fprintf(vh_out, ",\"t\":[");
		for (i = 0; i < n; i++) { if (i) fputc(',', vh_out); vh_digs_raw(DV[i], 2 * FD); }
		fputc(']', vh_out);
	} else {
		VH_TRY(err, ((f_un)o->fn)(pc, pa));
		vh_el("c", pc, n);
	}
	if (pc != pa) unch &= same(A, A0, n);
	fin(err, unch);
}

static void do_frb(const char *op, const op_t *o, int al) {
	int err, unch = 1, n = o->lvl, k = atoi(vh_tok[3]), x = vh_ntok > 4 ? atoi(vh_tok[4]) : 0;
	int j = o->kind == K_MFRB ? x : 0, full = o->kind == K_FRB ? x : 0;
	fp_t *pa = A, *pc = C;
	set_el(A, n, vh_tok[2]);
	if (al == 1) pc = pa;
	cpy(A0, A, n);
	stale(C, n);
	hdr(op, o->f, n, al);
	vh_el("a", pa, n); vh_int("k", k); vh_int("j", j);
	vh_int("full", full);
	if (o->kind == K_FRB) VH_TRY(err, ((f_frb)o->fn)(pc, pa, k));
	else VH_TRY(err, ((f_mfrb)o->fn)(pc, pa, k, j));
	vh_el("c", pc, n);
	if (pc != pa) unch &= same(A, A0, n);
	fin(err, unch);
}

static void do_dig(const char *op, const op_t *o, int al) {
	int err, unch = 1, n = o->lvl;
	dig_t d = vh_dig_tok(vh_tok[3]);
	fp_t *pa = A, *pc = C;
	set_el(A, n, vh_tok[2]);
	if (al == 1) pc = pa;
	cpy(A0, A, n);
	stale(C, n);
	hdr(op, o->f, n, al);
	vh_el("a", pa, n); vh_dig("dg", d);
	VH_TRY(err, ((f_dig)o->fn)(pc, pa, d));
	vh_el("c", pc, n);
	if (pc != pa) unch &= same(A, A0, n);
	fin(err, unch);
}

static void do_setdig(const char *op, const op_t *o) {
	int err, n = o->lvl;
	dig_t d = vh_dig_tok(vh_tok[2]);
	stale(C, n);
	hdr(op, o->f, n, 0);
	vh_dig("dg", d);
	VH_TRY(err, ((f_setdig)o->fn)(C, d));
	vh_el("c", C, n);
	fin(err, 1);
}

static void do_cmpdig(const char *op, const op_t *o) {
	int err, n = o->lvl;
	volatile long ret = -99;
	dig_t d = vh_dig_tok(vh_tok[3]);
	set_el(A, n, vh_tok[2]);
	cpy(A0, A, n);
	hdr(op, o->f, n, 0);
	vh_el("a", A, n); vh_dig("dg", d);
	VH_TRY(err, ret = ((f_cmpdig)o->fn)(A, d));
	vh_int("ret", ret);
	fin(err, same(A, A0, n));
}

static void do_exp(const char *op, const op_t *o, int al) {
	int err, unch = 1, n = o->lvl;
	fp_t *pa = A, *pc = C;
	set_el(A, n, vh_tok[2]);
	vh_bn_set(E, vh_tok[3]);
	if (al == 1) pc = pa;
	cpy(A0, A, n); bn_copy(E0, E);
	stale(C, n);
	hdr(op, o->f, n, al);
	vh_el("a", pa, n); vh_bn("e", E);
	VH_TRY(err, ((f_exp)o->fn)(pc, pa, E));
	vh_el("c", pc, n);
	if (pc != pa) unch &= same(A, A0, n);
	unch &= vh_bn_same(E, E0);
	fin(err, unch);
}

/* e = a^b * d^e2 */
static void do_expsim(const char *op, const op_t *o, int al) {
	int err, unch = 1, n = o->lvl;
	fp_t *pa = A, *pc = C;
	set_el(A, n, vh_tok[2]); vh_bn_set(E, vh_tok[3]);
	set_el(D, n, vh_tok[4]); vh_bn_set(E2, vh_tok[5]);
	if (al == 1) pc = pa;
	cpy(A0, A, n); cpy(D0, D, n); bn_copy(E0, E); bn_copy(E20, E2);
	stale(C, n);
	hdr(op, o->f, n, al);
	vh_el("a", pa, n); vh_bn("e", E); vh_el("d", D, n); vh_bn("e2", E2);
	/* the dodecic variant switches to a Frobenius decomposition modulo the group order when a
	 * pairing-friendly curve with embedding degree 12 is configured: log what it looks at */
	{
		bn_t r; int pf = ep_curve_is_pairf();
		bn_null(r); bn_new(r);
		if (pf) ep_curve_get_ord(r); else bn_zero(r);
		vh_int("pf", pf); vh_int("ek", pf ? ep_curve_embed() : 0);
		vh_digs("r", r->dp, r->used);
		bn_free(r);
	}
	VH_TRY(err, ((f_expsim)o->fn)(pc, pa, E, D, E2));
	vh_el("c", pc, n);
	if (pc != pa) unch &= same(A, A0, n);
	unch &= same(D, D0, n) && vh_bn_same(E, E0) && vh_bn_same(E2, E20);
	fin(err, unch);
}

/* sparse exponent: <el> <sign 0|1> <len> <b0> <b1> ... (signed bit positions, ascending magnitude) */
static void do_sps(const char *op, const op_t *o, int al) {
	int err, unch = 1, n = o->lvl, sg = atoi(vh_tok[3]), len = atoi(vh_tok[4]), i;
	static int sp[256];
	fp_t *pa = A, *pc = C;
	set_el(A, n, vh_tok[2]);
	if (len < 0 || len > 200 || vh_ntok < 5 + len) { fprintf(stderr, "bad sparse exponent\n"); exit(2); }
	for (i = 0; i < len; i++) sp[i] = atoi(vh_tok[5 + i]);
	if (al == 1) pc = pa;
	cpy(A0, A, n);
	stale(C, n);
	hdr(op, o->f, n, al);
	vh_el("a", pa, n); vh_int("sg", sg);
	fprintf(vh_out, ",\"sp\":[");
	for (i = 0; i < len; i++) fprintf(vh_out, "%s%d", i ? "," : "", sp[i]);
	fputc(']', vh_out);
	VH_TRY(err, ((f_sps)o->fn)(pc, pa, sp, len, sg ? RLC_NEG : RLC_POS));
	vh_el("c", pc, n);
	if (pc != pa) unch &= same(A, A0, n);
	fin(err, unch);
}

static void do_pred(const char *op, const op_t *o) {
	int err, n = o->lvl;
	volatile long ret = -99;
	set_el(A, n, vh_tok[2]);
	cpy(A0, A, n);
	hdr(op, o->f, n, 0);
	vh_el("a", A, n);
	VH_TRY(err, ret = ((f_pred)o->fn)(A));
	vh_int("ret", ret);
	fin(err, same(A, A0, n));
}

static void do_root(const char *op, const op_t *o, int al) {
	int err, unch = 1, n = o->lvl;
	volatile long ret = -99;
	fp_t *pa = A, *pc = C;
	set_el(A, n, vh_tok[2]);
	if (al == 1) pc = pa;
	cpy(A0, A, n);
	stale(C, n);
	hdr(op, o->f, n, al);
	vh_el("a", pa, n);
	VH_TRY(err, ret = ((f_root)o->fn)(pc, pa));
	vh_el("c", pc, n);
	vh_int("ret", ret);
	if (pc != pa) unch &= same(A, A0, n);
	fin(err, unch);
}

static void do_cmp(const char *op, const op_t *o, int al) {
	int err, n = o->lvl;
	volatile long ret = -99;
	fp_t *pa = A, *pb = B;
	set_el(A, n, vh_tok[2]); set_el(B, n, vh_tok[3]);
	if (al == 3) pb = pa;
	cpy(A0, A, n); cpy(B0, B, n);
	hdr(op, o->f, n, al);
	vh_el("a", pa, n); vh_el("b", pb, n);
	VH_TRY(err, ret = ((f_cmp)o->fn)(pa, pb));
	vh_int("ret", ret);
	fin(err, same(A, A0, n) && same(B, B0, n));
}

/* f(c[], a[], m): inv_sim / back_cyc_sim; alias 1: c == a */
static void do_sim(const char *op, const op_t *o, int al) {
	int err, unch = 1, n = o->lvl, m = atoi(vh_tok[2]), i;
	fp_t *pc = (al == 1) ? XS : YS;
	if (m < 1 || m > MAXSIM) { fprintf(stderr, "bad count\n"); exit(2); }
	for (i = 0; i < m; i++) set_el(XS + i * n, n, vh_tok[3 + i]);
	cpy(XS0, XS, m * n);
	stale(YS, m * n);
	hdr(op, o->f, n, al);
	vh_int("n", m);
	fprintf(vh_out, ",\"as\":[");
	for (i = 0; i < m; i++) { int j; if (i) fputc(',', vh_out); fputc('[', vh_out);
		for (j = 0; j < n; j++) { if (j) fputc(',', vh_out); vh_fp_raw(XS[i * n + j]); } fputc(']', vh_out); }
	fputc(']', vh_out);
	VH_TRY(err, ((f_sim)o->fn)(pc, XS, m));
	fprintf(vh_out, ",\"cs\":[");
	for (i = 0; i < m; i++) { int j; if (i) fputc(',', vh_out); fputc('[', vh_out);
		for (j = 0; j < n; j++) { if (j) fputc(',', vh_out); vh_fp_raw(pc[i * n + j]); } fputc(']', vh_out); }
	fputc(']', vh_out);
	if (al != 1) unch &= same(XS, XS0, m * n);
	fin(err, unch);
}

static void do_zero(const char *op, const op_t *o) {
	int err, n = o->lvl;
	stale(C, n);
	hdr(op, o->f, n, 0);
	VH_TRY(err, ((f_zero)o->fn)(C));
	vh_el("c", C, n);
	fin(err, 1);
}

/* "tower <lvl> <lvl> ...": the constants that define the towers the generator is about to use */
static void do_tower(void) {
	int i;
	ctx_t *ctx = core_get();
	hdr("tower", "tower", 0, 0);
	fprintf(vh_out, ",\"lvls\":[");
	for (i = 1; i < vh_ntok; i++) fprintf(vh_out, "%s%d", i > 1 ? "," : "", atoi(vh_tok[i]));
	fputc(']', vh_out);
	vh_int("qnr", fp_prime_get_qnr());
	vh_int("cnr", fp_prime_get_cnr());
	vh_int("qnr2", g_has2 ? fp2_field_get_qnr() : 0);
	vh_int("cnr3", g_has3 ? fp3_field_get_cnr() : 0);
	vh_int("mod8", (long)ctx->mod8);
	vh_int("mod18", (long)ctx->mod18);
	fin(0, 1);
}

/* ------------------------------------------------------------ field selection */
static char g_sel[1024] = "";

static void ensure_field(const char *sel) {
	int err = 0;
	if (strcmp(sel, g_sel) == 0) return;
	if (sel[0] == 'P') {
		g_pid = atoi(sel + 1);
		VH_TRY(err, fp_param_set(g_pid));
	} else if (sel[0] == 'E') {
		/* E<name>d | E<name>m : the pairing-friendly curve and the twist type the sparse forms look at */
		int id = -1, tw = sel[strlen(sel) - 1] == 'm' ? RLC_EP_MTYPE : RLC_EP_DTYPE;
		if (strncmp(sel + 1, "BN_P256", 7) == 0) id = BN_P256;
		else if (strncmp(sel + 1, "SM9_P256", 8) == 0) id = SM9_P256;
		else if (strncmp(sel + 1, "B12_P381", 8) == 0) id = B12_P381;
		else { fprintf(stderr, "unknown curve %s\n", sel); exit(2); }
		VH_TRY(err, ep_param_set(id));
		if (!err) VH_TRY(err, ep2_curve_set_twist(tw));
		if (!err) g_pid = fp_param_get();
	} else if (sel[0] == 'A') {
		/* the pairing-friendly curve of this build with the twist type the library itself installs
		 * (ep_param_set_any_pairf): the towers of the field-size sweep (k = 8, 16, 18, 24, 48) */
		volatile int rc = RLC_ERR;
		VH_TRY(err, rc = ep_param_set_any_pairf());
		if (!err && rc != RLC_OK) err = 1;
		if (!err) g_pid = fp_param_get();
	} else if (sel[0] == 'D') {
		bn_t p;
		bn_null(p); bn_new(p);
		vh_bn_set(p, sel + 1);
		g_pid = 0;
		VH_TRY(err, fp_prime_set_dense(p));
		bn_free(p);
	} else { fprintf(stderr, "bad selector %s\n", sel); exit(2); }
	vh_code();
	if (err) { fprintf(stderr, "selection %s failed\n", sel); exit(2); }
	read_tower();
	strncpy(g_sel, sel, sizeof(g_sel) - 1);
}

static int run_case(void) {
	const char *op = vh_tok[0];
	int al = vh_ntok > 1 ? atoi(vh_tok[1]) : 0, lvl = 0, k = 0;
	const op_t *o;
	if (strcmp(op, "tower") == 0) { do_tower(); return 1; }
	if (sscanf(op, "fp%d_%n", &lvl, &k) < 1 || k == 0) return 0;
	o = find_op(lvl, op + k);
	if (!o) return 0;
	switch (o->kind) {
		case K_BIN: do_bin(op, o, al, 0); break;
		case K_UNR2: do_bin(op, o, al, 1); break;
		case K_UN: do_un(op, o, al, 0); break;
		case K_UNR1: do_un(op, o, al, 1); break;
		case K_FRB: case K_MFRB: do_frb(op, o, al); break;
		case K_DIG: do_dig(op, o, al); break;
		case K_SETDIG: do_setdig(op, o); break;
		case K_CMPDIG: do_cmpdig(op, o); break;
		case K_EXP: do_exp(op, o, al); break;
		case K_EXPSIM: do_expsim(op, o, al); break;
		case K_SPS: do_sps(op, o, al); break;
		case K_PRED: do_pred(op, o); break;
		case K_ROOT: do_root(op, o, al); break;
		case K_CMP: do_cmp(op, o, al); break;
		case K_SIM: do_sim(op, o, al); break;
		case K_ZERO: do_zero(op, o); break;
		default: return 0;
	}
	return 1;
}

/* parameter ids this build accepts: "<id> <prime hex> <qnr> <cnr> <xi0 xi1 as values> <x3...>" is left to the
 * tower event; here only id and prime */
static void bn_print_hex(const bn_t t) {
	int i;
	if (bn_is_zero(t)) { printf("0"); return; }
	for (i = (int)t->used - 1; i >= 0; i--) printf(i == (int)t->used - 1 ? "%llx" : "%0*llx",
		i == (int)t->used - 1 ? (unsigned long long)t->dp[i] : (int)(2 * sizeof(dig_t)), (unsigned long long)t->dp[i]);
}
static void list_line(int id) {
	int i, k;
	bn_t t;
	ctx_t *ctx = core_get();
	printf("%d ", id);
	for (i = FD - 1; i >= 0; i--) printf("%0*llx", (int)(2 * sizeof(dig_t)), (unsigned long long)ctx->prime.dp[i]);
	printf(" %d %d", fp_prime_get_qnr(), fp_prime_get_cnr());
	read_tower();
	/* the next-level non-residues as VALUES (input selection only: which towers are fields) */
	bn_null(t); bn_new(t);
	for (k = 0; k < 5; k++) {
		fp_prime_back(t, k < 2 ? g_xi[k] : g_x3[k - 2]);
		printf(" "); bn_print_hex(t);
	}
	bn_free(t);
	printf("\n");
}

static int list_params(void) {
	int id, err;
	ctx_t *ctx = core_get();
	for (id = 1; id < 120; id++) {
		ctx->prime.dp[0] = 0;
		VH_TRY(err, fp_param_set(id));
		vh_code();
		if (err == 0 && (ctx->prime.dp[0] & 1) && ctx->prime.used == RLC_FP_DIGS) list_line(id);
	}
	/* does the build offer a pairing-friendly curve of its own (selector A)?  "A <ok> <fp id> <embedding degree> <tw2> <tw3>" */
	{
		volatile int rc = RLC_ERR;
		VH_TRY(err, rc = ep_param_set_any_pairf());
		vh_code();
		if (err == 0 && rc == RLC_OK)
			printf("A 1 %d %d %d %d\n", fp_param_get(), ep_curve_embed(), ep2_curve_is_twist(), ep3_curve_is_twist());
		else printf("A 0 0 0 0 0\n");
	}
	return 0;
}

/* --dense <hex> ... : the same line for primes installed with fp_prime_set_dense (tiny worlds) */
static int list_dense(int argc, char **argv) {
	int i, err;
	bn_t p;
	bn_null(p); bn_new(p);
	for (i = 2; i < argc; i++) {
		vh_bn_set(p, argv[i]);
		VH_TRY(err, fp_prime_set_dense(p));
		vh_code();
		if (err == 0) list_line(0);
	}
	return 0;
}

int main(int argc, char **argv) {
	long start, idx = 0;
	FILE *in;
	if (argc > 1 && strcmp(argv[1], "--list") == 0) {
		if (core_init() != RLC_OK) return 2;
		return list_params();
	}
	if (argc > 2 && strcmp(argv[1], "--dense") == 0) {
		if (core_init() != RLC_OK) return 2;
		return list_dense(argc, argv);
	}
	if (argc > 1 && strcmp(argv[1], "--ops") == 0) {
		const op_t *o;
		static const char *kn[] = { "BIN", "UN", "UNR2", "UNR1", "FRB", "MFRB", "DIG", "SETDIG", "CMPDIG", "EXP", "EXPSIM",
			"SPS", "PRED", "ROOT", "CMP", "SIM", "ZERO" };
		for (o = g_ops; o->f; o++) printf("%d %s %s\n", o->lvl, o->f, kn[o->kind]);
		return 0;
	}
	in = vh_open(argc, argv, &start);
	if (core_init() != RLC_OK) return 2;
	bn_new(E); bn_new(E0); bn_new(E2); bn_new(E20);
	while (vh_next(in)) {
		if (idx++ < start) continue;
		vh_case = idx - 1;
		alarm(60);
		ensure_field(vh_tok[0]);
		memmove(vh_tok, vh_tok + 1, sizeof(vh_tok[0]) * (size_t)(vh_ntok - 1));
		vh_ntok--;
		if (!run_case()) { fprintf(stderr, "unknown op %s\n", vh_tok[0]); return 2; }
		alarm(0);
	}
	fclose(vh_out);
	core_clean();
	return 0;
}
