/*
 * drv_pp.c - pairings with ghost logarithms (C04).
 * The driver constructs P_i = [a_i]G1 and Q_i = [b_i]G2 (optionally in a
 * non-normalised projective representation) and logs the scalars, the points
 * (as VALUES, so the spec can verify they are the claimed multiples) and the
 * pairing value (12 base-field coefficients, storage order).  The first event
 * of a (parameter, function) segment is the pairing of the generators.
 *
 * Case line:  <fn> <param id> <zmode> <n> <a_1> <b_1> ... <a_n> <b_n>
 *   fn: pc_map | oatep | tatep | weilp | pc_map_sim | sim_oatep | sim_tatep | sim_weilp
 *   zmode: 0 normalised, k > 0: coordinates scaled by Z = k (projective inputs)
 *   scalars: hex with optional '-', "r" = group order, "r+1", "r-1" tokens allowed via prefix
 */
#include "vh.h"

static int cur = -1;
static void select_param(int id) {
	if (id == cur) return;
	RLC_TRY {
		ep_param_set(id);
		if (ep_curve_is_pairf() && ep_curve_embed() == 12) {
			ep2_t g, f; bn_t pp;
			ep2_null(g); ep2_null(f); bn_null(pp); ep2_new(g); ep2_new(f); bn_new(pp);
			ep2_curve_set_twist(RLC_EP_DTYPE);
			ep2_curve_get_gen(g);
			pp->used = RLC_FP_DIGS; pp->sign = RLC_POS; dv_copy(pp->dp, fp_prime_get(), RLC_FP_DIGS);
			ep2_frb(f, g, 1); ep2_mul_basic(g, g, pp);
			if (ep2_cmp(f, g) != RLC_EQ) ep2_curve_set_twist(RLC_EP_MTYPE);
			ep2_free(g); ep2_free(f); bn_free(pp);
		}
	} RLC_CATCH_ANY { }
	err_get_code();
	cur = id;
}

static void val_raw(const fp_t a) {
	bn_t t; bn_null(t); bn_new(t);
	fp_prime_back(t, a);
	vh_digs_raw(t->dp, bn_is_zero(t) ? 0 : t->used);
	bn_free(t);
}
static void out_fp12(const char *k, fp12_t g) {
	int i, j, l, first = 1;
	fprintf(vh_out, ",\"%s\":[", k);
	for (i = 0; i < 2; i++) for (j = 0; j < 3; j++) for (l = 0; l < 2; l++) {
		if (!first) fputc(',', vh_out);
		first = 0;
		val_raw(g[i][j][l]);
	}
	fputc(']', vh_out);
}
static void scalar(bn_t k, const char *tok, const bn_t r) {
	if (tok[0] == 'r') {
		bn_copy(k, r);
		if (tok[1] == '+') bn_add_dig(k, k, (dig_t)atoi(tok + 2));
		if (tok[1] == '-') bn_sub_dig(k, k, (dig_t)atoi(tok + 2));
		if (tok[1] == '*') bn_mul_dig(k, k, (dig_t)atoi(tok + 2));
	} else vh_bn_set(k, tok);
}

static void all_exps(fp12_t c1, fp12_t c2, fp12_t c3, fp12_t d1, fp12_t e1, fp12_t x, fp12_t y, fp12_t xy) {
	pp_exp_k12(c1, x);          /* out of place */
	pp_exp_k12(c2, c2);         /* in place (c2 holds a copy of x) */
	pc_exp(c3, x);              /* the pc-level name */
	pp_exp_k12(d1, y);
	pp_exp_k12(e1, xy);
}

#define MAXN 6
int main(int argc, char **argv) {
	long start, idx = 0;
	bn_t a[MAXN], b[MAXN], r; ep_t p[MAXN], g1; ep2_t q[MAXN], g2; fp12_t g; fp_t z; fp2_t z2;
	int i;
	FILE *in = vh_open(argc, argv, &start);
	if (!freopen("/dev/null", "w", stderr)) return 2;
	if (core_init() != RLC_OK) return 2;
	bn_null(r); bn_new(r); ep_null(g1); ep_new(g1); ep2_null(g2); ep2_new(g2); fp12_null(g); fp12_new(g);
	fp_null(z); fp_new(z); fp2_null(z2); fp2_new(z2);
	for (i = 0; i < MAXN; i++) { bn_null(a[i]); bn_null(b[i]); bn_new(a[i]); bn_new(b[i]); ep_null(p[i]); ep_new(p[i]); ep2_null(q[i]); ep2_new(q[i]); }
	while (vh_next(in)) {
		const char *fn = vh_tok[0];
		int id = atoi(vh_tok[1]), zm = atoi(vh_tok[2]), n = atoi(vh_tok[3]), err = 0;
		fp2_t e2;
		if (idx++ < start) continue;
		vh_case = idx - 1;
		alarm(300);
		select_param(id);
		if (n > MAXN) n = MAXN;
		ep_curve_get_ord(r); ep_curve_get_gen(g1); ep2_curve_get_gen(g2);
		for (i = 0; i < n; i++) {
			scalar(a[i], vh_tok[4 + 2 * i], r); scalar(b[i], vh_tok[5 + 2 * i], r);
			ep_mul_basic(p[i], g1, a[i]); ep_norm(p[i], p[i]);
			ep2_mul_basic(q[i], g2, b[i]); ep2_norm(q[i], q[i]);
		}
		if (strcmp(fn, "exp") == 0) {
			/* the final exponentiation as a function of its own: exp <id> 0 0 <seed hex> */
			fp12_t x, y, xy, c1, c2, c3, d1, e1; uint8_t seed[32]; size_t sl = strlen(vh_tok[4]);
			fp2_t e2;
			fp12_null(x); fp12_null(y); fp12_null(xy); fp12_null(c1); fp12_null(c2); fp12_null(c3); fp12_null(d1); fp12_null(e1);
			fp12_new(x); fp12_new(y); fp12_new(xy); fp12_new(c1); fp12_new(c2); fp12_new(c3); fp12_new(d1); fp12_new(e1);
			for (i = 0; i < 32; i++) seed[i] = (uint8_t)(vh_tok[4][i % sl] * 7 + i);
			core_get()->seeded = 0; rand_seed(seed, 32);
			fp12_rand(x); fp12_rand(y); fp12_mul(xy, x, y);
			fp12_set_dig(c1, 7); fp12_set_dig(c3, 9); fp12_copy(c2, x);
			VH_TRY(err, all_exps(c1, c2, c3, d1, e1, x, y, xy));
			vh_begin("expo");
			vh_str("fn", fn); vh_int("id", id);
			vh_digs("p", fp_prime_get(), RLC_FP_DIGS);
			fputs(",\"r\":", vh_out); vh_bn_raw(r);
			fp2_null(e2); fp2_new(e2);
			fp2_zero(e2); fp_set_dig(e2[1], 1); fp2_sqr(e2, e2); fputs(",\"usq0\":", vh_out); val_raw(e2[0]); fputs(",\"usq1\":", vh_out); val_raw(e2[1]);
			fp2_zero(e2); fp_set_dig(e2[0], 1); fp2_mul_nor(e2, e2); fputs(",\"xi0\":", vh_out); val_raw(e2[0]); fputs(",\"xi1\":", vh_out); val_raw(e2[1]);
			fp2_free(e2);
			out_fp12("x", x); out_fp12("y", y); out_fp12("xy", xy);
			out_fp12("c1", c1); out_fp12("c2", c2); out_fp12("c3", c3); out_fp12("d1", d1); out_fp12("e1", e1);
			vh_int("err", err); vh_int("code", vh_code());
			vh_end();
			fp12_free(x); fp12_free(y); fp12_free(xy); fp12_free(c1); fp12_free(c2); fp12_free(c3); fp12_free(d1); fp12_free(e1);
			alarm(0);
			continue;
		}
		vh_begin("pair");
		vh_str("fn", fn); vh_int("id", id); vh_int("zm", zm); vh_int("n", n);
		vh_digs("p", fp_prime_get(), RLC_FP_DIGS);
		fputs(",\"r\":", vh_out); vh_bn_raw(r);
		fp2_null(e2); fp2_new(e2);
		fp2_zero(e2); fp_set_dig(e2[1], 1); fp2_sqr(e2, e2); fputs(",\"usq0\":", vh_out); val_raw(e2[0]); fputs(",\"usq1\":", vh_out); val_raw(e2[1]);
		fp2_zero(e2); fp_set_dig(e2[0], 1); fp2_mul_nor(e2, e2); fputs(",\"xi0\":", vh_out); val_raw(e2[0]); fputs(",\"xi1\":", vh_out); val_raw(e2[1]);
		fputs(",\"cb\":", vh_out); val_raw(ep_curve_get_b());
		fputs(",\"b20\":", vh_out); val_raw(ep2_curve_get_b()[0]); fputs(",\"b21\":", vh_out); val_raw(ep2_curve_get_b()[1]);
		fputs(",\"g1\":{\"x\":", vh_out); val_raw(g1->x); fputs(",\"y\":", vh_out); val_raw(g1->y); fputs("}", vh_out);
		fputs(",\"g2\":{\"x0\":", vh_out); val_raw(g2->x[0]); fputs(",\"x1\":", vh_out); val_raw(g2->x[1]);
		fputs(",\"y0\":", vh_out); val_raw(g2->y[0]); fputs(",\"y1\":", vh_out); val_raw(g2->y[1]); fputs("}", vh_out);
		fputs(",\"pairs\":[", vh_out);
		for (i = 0; i < n; i++) {
			fprintf(vh_out, "%s{\"a\":", i ? "," : ""); vh_bn_raw(a[i]); fputs(",\"b\":", vh_out); vh_bn_raw(b[i]);
			fprintf(vh_out, ",\"pinf\":%d,\"px\":", ep_is_infty(p[i])); val_raw(p[i]->x); fputs(",\"py\":", vh_out); val_raw(p[i]->y);
			fprintf(vh_out, ",\"qinf\":%d,\"qx0\":", ep2_is_infty(q[i])); val_raw(q[i]->x[0]); fputs(",\"qx1\":", vh_out); val_raw(q[i]->x[1]);
			fputs(",\"qy0\":", vh_out); val_raw(q[i]->y[0]); fputs(",\"qy1\":", vh_out); val_raw(q[i]->y[1]);
			fputs("}", vh_out);
		}
		fputs("]", vh_out);
		/* optional non-normalised representation: (X Z, Y Z, Z) projective */
		if (zm > 0) {
			for (i = 0; i < n; i++) {
				if (!ep_is_infty(p[i])) {
					fp_set_dig(z, (dig_t)(zm + i));
					fp_mul(p[i]->x, p[i]->x, z); fp_mul(p[i]->y, p[i]->y, z); fp_copy(p[i]->z, z); p[i]->coord = PROJC;
				}
				if (!ep2_is_infty(q[i])) {
					fp2_zero(z2); fp_set_dig(z2[0], (dig_t)(zm + 1)); fp_set_dig(z2[1], (dig_t)(i + 2));
					fp2_mul(q[i]->x, q[i]->x, z2); fp2_mul(q[i]->y, q[i]->y, z2); fp2_copy(q[i]->z, z2); q[i]->coord = PROJC;
				}
			}
		}
		fp12_set_dig(g, 7);
		if (strcmp(fn, "pc_map") == 0) VH_TRY(err, pc_map(g, p[0], q[0]));
		else if (strcmp(fn, "oatep") == 0) VH_TRY(err, pp_map_oatep_k12(g, p[0], q[0]));
		else if (strcmp(fn, "tatep") == 0) VH_TRY(err, pp_map_tatep_k12(g, p[0], q[0]));
		else if (strcmp(fn, "weilp") == 0) VH_TRY(err, pp_map_weilp_k12(g, p[0], q[0]));
		else if (strcmp(fn, "pc_map_sim") == 0) VH_TRY(err, pc_map_sim(g, p, q, n));
		else if (strcmp(fn, "sim_oatep") == 0) VH_TRY(err, pp_map_sim_oatep_k12(g, p, q, n));
		else if (strcmp(fn, "sim_tatep") == 0) VH_TRY(err, pp_map_sim_tatep_k12(g, p, q, n));
		else if (strcmp(fn, "sim_weilp") == 0) VH_TRY(err, pp_map_sim_weilp_k12(g, p, q, n));
		else { fprintf(stdout, "unknown fn %s\n", fn); return 2; }
		out_fp12("g", g);
		vh_int("err", err); vh_int("code", vh_code());
		vh_end();
		fp2_free(e2);
		alarm(0);
	}
	fclose(vh_out);
	core_clean();
	return 0;
}
