/*
 * drv_pc.c - conformance driver for the three pairing groups (C12): validity predicates
 * (g1_is_valid, g2_is_valid, gt_is_valid) and exponentiation / multiplication in G1, G2, GT.
 *
 * Case line:  <op> <curve> <alias> <args...>      (curve, G2 point tokens, scalars: see ep2_common.h)
 *   G1 point  inf | m<k>[/rep] ([k]G1 by ep_mul_basic) | c<seed>[/rep] (first x = seed div 2 + j with a square
 *             right-hand side, y negated for odd seed: a curve point not constructed from the generator) |
 *             r<seed> ([r]c) | o<ell>,<seed> (the ell-primary part [(h r)/ell^e]c) | s<ell>,<seed>,<k> ([k]G1 + o<ell>,<seed>) |
 *             xy<x>,<y>[/rep] (VALUES as given);
 *             rep: P | J | p<z> | j<z>
 *   GT elem   one | zero | g<k> (e(G1,G2)^k by the generic fp12_exp) | n<k> (-(g^k)) |
 *             u<seed> (an arbitrary element of F_p12 derived from the seed) | e<seed> (its easy-part power
 *             u^((p^6-1)(p^2+1)): cyclotomic) | t<seed> ((e<seed>)^r: cyclotomic, order coprime to r) |
 *             x<k>,<seed> (g^k * t<seed>: a cyclotomic non-member next to a member)
 * Event: header of ep2_common.h + "ca","cb" raw G1 coefficients, "h1", "vcu" = v^3 (raw F_p6), "wsq" = w^2 (raw F_p12)
 *        as the library's own multiplication reveals them; inputs "P","Q" (G1: raw ep points, G2: raw ep2 points),
 *        "A","C" raw F_p12, "k","m" bn, "dg", "ps","ks"; outputs "R" / "ret"; "cls" the class the generator
 *        intended (informative; checked by the spec only when "full" = 1); "crash","err","code","unch".
 */
#include "ep2_common.h"

static ep_t P1, Q1, R1, P10, Q10;
static ep2_t P, Q, R, P0, Q0;
static fp12_t A, C, E, A0, C0;
static bn_t K, M, K0, M0;
static ep_t TAB1[RLC_EP_TABLE_MAX];
static ep2_t TAB2[RLC_EP_TABLE_MAX];
#define LOT_MAX 24
static ep_t L1[LOT_MAX];
static ep2_t L2[LOT_MAX];
static bn_t LK[LOT_MAX];
static dig_t LD[LOT_MAX];

/* ------------------------------------------------------------ header */
static void pc_hdr(const char *op, int al) {
	fp6_t v; fp12_t w;
	fp6_null(v); fp12_null(w); fp6_new(v); fp12_new(w);
	x_hdr(op, al);
	vh_fp("ca", ep_curve_get_a());
	vh_fp("cb", ep_curve_get_b());
	vh_bn("h1", H1);
	/* v^3 in F_p6 and w^2 in F_p12 by the library's own arithmetic */
	fp6_zero(v); fp2_set_dig(v[1], 1); fp6_sqr(w[0], v); fp6_mul(w[1], w[0], v);
	fprintf(vh_out, ",\"vcu\":"); vh_fp6_raw(w[1]);
	fp12_zero(w); fp6_set_dig(w[1], 1); fp12_sqr(w, w);
	vh_fp12("wsq", w);
	fp6_free(v); fp12_free(w);
}

/* ------------------------------------------------------------ G1 points */
static void ep_from_seed(ep_t p, const char *hex) {
	bn_t s; fp_t t; int j, odd;
	bn_null(s); fp_null(t); bn_new(s); fp_new(t);
	vh_bn_set(s, hex);
	odd = bn_is_zero(s) ? 0 : (int)(s->dp[0] & 1);
	bn_hlv(s, s);
	bn_mod(s, s, &core_get()->prime);
	if (bn_is_zero(s)) fp_zero(p->x); else fp_prime_conv(p->x, s);
	for (j = 0; j < 1000; j++) {
		ep_rhs(t, p->x);
		if (fp_srt(p->y, t)) break;
		fp_add_dig(p->x, p->x, 1);
	}
	if (j == 1000) { fprintf(stderr, "no curve point for seed %s\n", hex); exit(2); }
	if (odd) fp_neg(p->y, p->y);
	fp_set_dig(p->z, 1);
	p->coord = BASIC;
	bn_free(s); fp_free(t);
}

static void set_point1(ep_t p, char *tok) {
	char *rep = strchr(tok, '/');
	fp_t z, t;
	bn_t k;
	if (rep) *rep++ = 0;
	if (strcmp(tok, "inf") == 0) { ep_set_infty(p); return; }
	bn_null(k); bn_new(k);
	if (tok[0] == 'm') {
		vh_bn_set(k, tok + 1);
		ep_mul_basic(p, G1, k); ep_norm(p, p);
	} else if (tok[0] == 'c') {
		ep_from_seed(p, tok + 1);
	} else if (tok[0] == 'r') {
		ep_from_seed(p, tok + 1);
		ep_mul_basic(p, p, N1); ep_norm(p, p);
	} else if (tok[0] == 'o') {
		char *sd = strchr(tok, ',');
		bn_t l; bn_null(l); bn_new(l);
		if (!sd) { fprintf(stderr, "bad point token %s\n", tok); exit(2); }
		*sd++ = 0;
		vh_bn_set(l, tok + 1);
		ep_from_seed(p, sd);
		bn_mul(k, H1, N1); vh_strip_prime(k, l);
		ep_mul_basic(p, p, k); ep_norm(p, p);
		bn_free(l);
	} else if (tok[0] == 's') {
		/* s<ell>,<seed>,<k>: [k]G1 + (point of order ell) */
		char *sd = strchr(tok, ','), *ks = sd ? strchr(sd + 1, ',') : NULL;
		bn_t l; ep_t t1;
		if (!ks) { fprintf(stderr, "bad point token %s\n", tok); exit(2); }
		bn_null(l); bn_new(l); ep_null(t1); ep_new(t1);
		*sd++ = 0; *ks++ = 0;
		vh_bn_set(l, tok + 1);
		ep_from_seed(p, sd);
		bn_mul(k, H1, N1); vh_strip_prime(k, l);
		ep_mul_basic(p, p, k);
		vh_bn_set(k, ks);
		ep_mul_basic(t1, G1, k);
		ep_add(p, p, t1); ep_norm(p, p);
		bn_free(l); ep_free(t1);
	} else if (tok[0] == 'x' && tok[1] == 'y') {
		vh_ep_set(p, tok + 2);
	} else { fprintf(stderr, "bad point token %s\n", tok); exit(2); }
	bn_free(k);
	if (!rep || ep_is_infty(p)) return;
	if (rep[0] == 'P') { p->coord = PROJC; return; }
	if (rep[0] == 'J') { p->coord = JACOB; return; }
	fp_null(z); fp_null(t); fp_new(z); fp_new(t);
	vh_fp_set(z, rep + 1);
	if (rep[0] == 'p') {
		fp_mul(p->x, p->x, z); fp_mul(p->y, p->y, z); fp_copy(p->z, z); p->coord = PROJC;
	} else if (rep[0] == 'j') {
		fp_sqr(t, z); fp_mul(p->x, p->x, t); fp_mul(t, t, z); fp_mul(p->y, p->y, t); fp_copy(p->z, z);
		p->coord = JACOB;
	} else { fprintf(stderr, "bad representation %s\n", rep); exit(2); }
	fp_free(z); fp_free(t);
}

/* ------------------------------------------------------------ GT elements */
static void fp12_from_seed(fp12_t a, const char *hex) {
	bn_t s, t; int i, j, k;
	bn_null(s); bn_null(t); bn_new(s); bn_new(t);
	vh_bn_set(s, hex);
	bn_add_dig(s, s, 3);
	for (i = 0; i < 2; i++) for (j = 0; j < 3; j++) for (k = 0; k < 2; k++) {
		/* coefficient = seed^(2 + position) mod p: arbitrary, reproducible */
		bn_sqr(t, s); bn_add_dig(t, t, (dig_t)(1 + 6 * i + 2 * j + k)); bn_mul(t, t, s);
		bn_mod(t, t, &core_get()->prime);
		if (bn_is_zero(t)) fp_zero(a[i][j][k]); else fp_prime_conv(a[i][j][k], t);
		bn_add_dig(s, t, 7);
	}
	bn_free(s); bn_free(t);
}
static const char *cur_cls = "";
static void set_gt(fp12_t a, char *tok) {
	bn_t k;
	if (strcmp(tok, "one") == 0) { fp12_set_dig(a, 1); cur_cls = "one"; return; }
	if (strcmp(tok, "zero") == 0) { fp12_zero(a); cur_cls = "zero"; return; }
	bn_null(k); bn_new(k);
	if (tok[0] == 'g' || tok[0] == 'n') {
		vh_bn_set(k, tok + 1);
		gt_get_gen(a);
		fp12_exp(a, a, k);
		cur_cls = "member";
		if (tok[0] == 'n') { fp12_neg(a, a); cur_cls = "noncyc"; }
	} else if (tok[0] == 'u') {
		fp12_from_seed(a, tok + 1); cur_cls = "noncyc";
	} else if (tok[0] == 'e') {
		fp12_from_seed(a, tok + 1); fp12_conv_cyc(a, a); cur_cls = "cyc";
	} else if (tok[0] == 't' || tok[0] == 'x') {
		/* t<seed>: (easy-part power)^r; x<k>,<seed>: g^k times that element (a non-member next to a member) */
		fp12_t b; int i;
		char *sd = tok + 1;
		if (tok[0] == 'x') {
			sd = strchr(tok, ',');
			if (!sd) { fprintf(stderr, "bad gt token %s\n", tok); exit(2); }
			*sd++ = 0;
		}
		fp12_null(b); fp12_new(b);
		fp12_from_seed(a, sd); fp12_conv_cyc(a, a);
		/* a^r by plain square-and-multiply */
		fp12_copy(b, a);
		for (i = bn_bits(N1) - 2; i >= 0; i--) { fp12_sqr(b, b); if (bn_get_bit(N1, i)) fp12_mul(b, b, a); }
		fp12_copy(a, b);
		if (tok[0] == 'x') {
			vh_bn_set(k, tok + 1);
			gt_get_gen(b); fp12_exp(b, b, k); fp12_mul(a, a, b);
		}
		fp12_free(b);
		cur_cls = "cyc";
	} else { fprintf(stderr, "bad gt token %s\n", tok); exit(2); }
	bn_free(k);
}

/* ------------------------------------------------------------ validity predicates */
static void do_valid(const char *op, int grp, int full) {
	int err;
	volatile long ret = 0;
	cur_cls = "";
	if (grp == 1) { set_point1(P1, vh_tok[3]); ep_copy(P10, P1); }
	if (grp == 2) { set_point2(P, vh_tok[3]); ep2_copy(P0, P); }
	if (grp == 3) { set_gt(A, vh_tok[3]); fp12_copy(A0, A); }
	pc_hdr(op, 0);
	if (grp == 1) vh_ep("P", P1);
	if (grp == 2) vh_ep2("P", P);
	if (grp == 3) { vh_fp12("A", A); vh_str("cls", cur_cls); }
	vh_int("full", full);
	MARK();
	if (grp == 1) VH_TRY(err, ret = g1_is_valid(P1));
	if (grp == 2) VH_TRY(err, ret = g2_is_valid(P));
	if (grp == 3) VH_TRY(err, ret = gt_is_valid(A));
	vh_int("ret", ret);
	x_fin(err, grp == 1 ? vh_ep_same(P1, P10) : (grp == 2 ? vh_ep2_same(P, P0) : vh_fp12_same(A, A0)));
}

/* ------------------------------------------------------------ G1 multiplication */
#define STALE1(r) do { char st_[] = "m7/p3"; set_point1(r, st_); } while (0)
#define STALE2(r) do { char st_[] = "m7/p3,5"; set_point2(r, st_); } while (0)

static void w1_mul(ep_t r, const ep_t p, const bn_t k) { g1_mul(r, p, k); }
static void w1_sec(ep_t r, const ep_t p, const bn_t k) { g1_mul_sec(r, p, k); }
static void w1_any(ep_t r, const ep_t p, const bn_t k) { g1_mul_any(r, p, k); }
static void w2_mul(ep2_t r, const ep2_t p, const bn_t k) { g2_mul(r, p, k); }
static void w2_sec(ep2_t r, const ep2_t p, const bn_t k) { g2_mul_sec(r, p, k); }
static void w2_any(ep2_t r, const ep2_t p, const bn_t k) { g2_mul_any(r, p, k); }

typedef void (*mul1_f)(ep_t, const ep_t, const bn_t);
typedef void (*mul2_f)(ep2_t, const ep2_t, const bn_t);

/* which: 0 f(r, p, k); 1 mul_gen(r, k); 2 mul_dig(r, p, d); 3 mul_fix(r, pre(p), k) */
static char tab_key[1024];
static void do_mul1(const char *op, mul1_f f, int which, int al) {
	int err = 0, perr = 0, unch = 1;
	ep_st *pp = P1, *pr = R1;
	dig_t d = 0;
	if (which == 1) { ep_copy(P1, G1); vh_bn_set(K, vh_tok[3]); }
	else {
		set_point1(P1, vh_tok[3]);
		if (which == 2) d = vh_dig_tok(vh_tok[4]); else vh_bn_set(K, vh_tok[4]);
	}
	if (al == 1 && which != 3 && which != 1) pr = pp;
	ep_copy(P10, P1); bn_copy(K0, K);
	if (which == 3) {
		char key[1024];
		snprintf(key, sizeof(key), "%s|%s|%s", op, cur_curve, vh_tok[3]);
		if (strcmp(key, tab_key) != 0) { VH_TRY(perr, g1_mul_pre(TAB1, P1)); strcpy(tab_key, perr ? "" : key); }
	}
	STALE1(R1);
	pc_hdr(op, al);
	vh_ep("P", pp);
	if (which == 2) vh_dig("dg", d); else vh_bn("k", K);
	MARK();
	switch (which) {
		case 0: VH_TRY(err, f(pr, pp, K)); break;
		case 1: VH_TRY(err, g1_mul_gen(pr, K)); break;
		case 2: VH_TRY(err, g1_mul_dig(pr, pp, d)); break;
		case 3: if (!perr) VH_TRY(err, g1_mul_fix(pr, (const ep_t *)TAB1, K)); else err = perr; break;
	}
	vh_ep("R", pr);
	if (pr != pp) unch &= vh_ep_same(P1, P10);
	unch &= vh_bn_same(K, K0);
	x_fin(err, unch);
}
static void do_mul2(const char *op, mul2_f f, int which, int al) {
	int err = 0, perr = 0, unch = 1;
	ep2_st *pp = P, *pr = R;
	dig_t d = 0;
	if (which == 1) { ep2_copy(P, G2); vh_bn_set(K, vh_tok[3]); }
	else {
		set_point2(P, vh_tok[3]);
		if (which == 2) d = vh_dig_tok(vh_tok[4]); else vh_bn_set(K, vh_tok[4]);
	}
	if (al == 1 && which != 3 && which != 1) pr = pp;
	ep2_copy(P0, P); bn_copy(K0, K);
	if (which == 3) {
		char key[1024];
		snprintf(key, sizeof(key), "%s|%s|%s", op, cur_curve, vh_tok[3]);
		if (strcmp(key, tab_key) != 0) { VH_TRY(perr, g2_mul_pre(TAB2, P)); strcpy(tab_key, perr ? "" : key); }
	}
	STALE2(R);
	pc_hdr(op, al);
	vh_ep2("P", pp);
	if (which == 2) vh_dig("dg", d); else vh_bn("k", K);
	MARK();
	switch (which) {
		case 0: VH_TRY(err, f(pr, pp, K)); break;
		case 1: VH_TRY(err, g2_mul_gen(pr, K)); break;
		case 2: VH_TRY(err, g2_mul_dig(pr, pp, d)); break;
		case 3: if (!perr) VH_TRY(err, g2_mul_fix(pr, (const ep2_t *)TAB2, K)); else err = perr; break;
	}
	vh_ep2("R", pr);
	if (pr != pp) unch &= vh_ep2_same(P, P0);
	unch &= vh_bn_same(K, K0);
	x_fin(err, unch);
}

/* r = [k]p + [m]q (gen: p = generator, case line has k q m) */
static void do_sim1(const char *op, int gen, int al) {
	int err, unch = 1, b = 3;
	ep_st *pp = P1, *pq = Q1, *pr = R1;
	if (gen) ep_copy(P1, G1); else set_point1(P1, vh_tok[b++]);
	vh_bn_set(K, vh_tok[b++]);
	set_point1(Q1, vh_tok[b++]);
	vh_bn_set(M, vh_tok[b++]);
	if (al == 1 && !gen) pr = pp;
	if (al == 2) pr = pq;
	ep_copy(P10, P1); ep_copy(Q10, Q1); bn_copy(K0, K); bn_copy(M0, M);
	STALE1(R1);
	pc_hdr(op, al);
	vh_ep("P", pp); vh_bn("k", K); vh_ep("Q", pq); vh_bn("m", M);
	MARK();
	if (gen) VH_TRY(err, g1_mul_sim_gen(pr, K, pq, M)); else VH_TRY(err, g1_mul_sim(pr, pp, K, pq, M));
	vh_ep("R", pr);
	if (pr != pp) unch &= vh_ep_same(P1, P10);
	if (pr != pq) unch &= vh_ep_same(Q1, Q10);
	unch &= vh_bn_same(K, K0) && vh_bn_same(M, M0);
	x_fin(err, unch);
}
static void do_sim2(const char *op, int gen, int al) {
	int err, unch = 1, b = 3;
	ep2_st *pp = P, *pq = Q, *pr = R;
	if (gen) ep2_copy(P, G2); else set_point2(P, vh_tok[b++]);
	vh_bn_set(K, vh_tok[b++]);
	set_point2(Q, vh_tok[b++]);
	vh_bn_set(M, vh_tok[b++]);
	if (al == 1 && !gen) pr = pp;
	if (al == 2) pr = pq;
	ep2_copy(P0, P); ep2_copy(Q0, Q); bn_copy(K0, K); bn_copy(M0, M);
	STALE2(R);
	pc_hdr(op, al);
	vh_ep2("P", pp); vh_bn("k", K); vh_ep2("Q", pq); vh_bn("m", M);
	MARK();
	if (gen) VH_TRY(err, g2_mul_sim_gen(pr, K, pq, M)); else VH_TRY(err, g2_mul_sim(pr, pp, K, pq, M));
	vh_ep2("R", pr);
	if (pr != pp) unch &= vh_ep2_same(P, P0);
	if (pr != pq) unch &= vh_ep2_same(Q, Q0);
	unch &= vh_bn_same(K, K0) && vh_bn_same(M, M0);
	x_fin(err, unch);
}

/* r = sum [k_i]p_i : <n> then n pairs (point, scalar | digit) */
static void do_lot(const char *op, int grp, int dig) {
	int err, i, n = atoi(vh_tok[3]);
	if (n > LOT_MAX || vh_ntok < 4 + 2 * n) { fprintf(stderr, "bad lot case\n"); exit(2); }
	for (i = 0; i < n; i++) {
		if (grp == 1) set_point1(L1[i], vh_tok[4 + 2 * i]); else set_point2(L2[i], vh_tok[4 + 2 * i]);
		if (dig) LD[i] = vh_dig_tok(vh_tok[5 + 2 * i]); else vh_bn_set(LK[i], vh_tok[5 + 2 * i]);
	}
	if (grp == 1) STALE1(R1); else STALE2(R);
	pc_hdr(op, 0);
	vh_int("cnt", n);
	fputs(",\"ps\":[", vh_out);
	for (i = 0; i < n; i++) { if (i) fputc(',', vh_out); if (grp == 1) vh_ep_raw(L1[i]); else vh_ep2_raw(L2[i]); }
	fputs("],\"ks\":[", vh_out);
	for (i = 0; i < n; i++) {
		if (i) fputc(',', vh_out);
		if (dig) { bn_set_dig(K, LD[i]); vh_bn_raw(K); } else vh_bn_raw(LK[i]);
	}
	fputc(']', vh_out);
	MARK();
	if (grp == 1) {
		if (dig) VH_TRY(err, g1_mul_sim_dig(R1, (const ep_t *)L1, LD, n));
		else VH_TRY(err, g1_mul_sim_lot(R1, (const ep_t *)L1, (const bn_t *)LK, n));
		vh_ep("R", R1);
	} else {
		if (dig) VH_TRY(err, g2_mul_sim_dig(R, (const ep2_t *)L2, LD, n));
		else VH_TRY(err, g2_mul_sim_lot(R, (const ep2_t *)L2, (const bn_t *)LK, n));
		vh_ep2("R", R);
	}
	x_fin(err, 1);
}

/* ------------------------------------------------------------ GT exponentiation */
/* which: 0 gt_exp, 1 gt_exp_sec, 2 gt_exp_dig, 3 gt_exp_gen (case: k), 4 gt_exp_sim (case: a k c m) */
static void do_exp(const char *op, int which, int al) {
	int err = 0, unch = 1;
	fp6_t *pa = A, *pr = E;
	dig_t d = 0;
	if (which == 3) { gt_get_gen(A); vh_bn_set(K, vh_tok[3]); }
	else {
		set_gt(A, vh_tok[3]);
		if (which == 2) d = vh_dig_tok(vh_tok[4]); else vh_bn_set(K, vh_tok[4]);
	}
	if (which == 4) { set_gt(C, vh_tok[5]); vh_bn_set(M, vh_tok[6]); fp12_copy(C0, C); bn_copy(M0, M); }
	if (al == 1 && which != 3) pr = pa;
	fp12_copy(A0, A); bn_copy(K0, K);
	fp12_from_seed(E, "1234567");        /* stale output content */
	pc_hdr(op, al);
	vh_fp12("A", pa);
	if (which == 2) vh_dig("dg", d); else vh_bn("k", K);
	if (which == 4) { vh_fp12("C", C); vh_bn("m", M); }
	MARK();
	switch (which) {
		case 0: VH_TRY(err, gt_exp(pr, pa, K)); break;
		case 1: VH_TRY(err, gt_exp_sec(pr, pa, K)); break;
		case 2: VH_TRY(err, gt_exp_dig(pr, pa, d)); break;
		case 3: VH_TRY(err, gt_exp_gen(pr, K)); break;
		case 4: VH_TRY(err, gt_exp_sim(pr, pa, K, C, M)); break;
	}
	vh_fp12("R", pr);
	if (pr != pa) unch &= vh_fp12_same(A, A0);
	unch &= vh_bn_same(K, K0);
	if (which == 4) unch &= vh_fp12_same(C, C0) && vh_bn_same(M, M0);
	x_fin(err, unch);
}

static void do_probe(void) {
	int ok;
	cur_curve[0] = 0;
	ok = set_curve(vh_tok[1]);
	ev_begin("curve_probe");
	vh_str("curve", vh_tok[1]);
	vh_int("ok", ok);
	if (ok) {
		vh_fp_hdr();
		vh_bn("n", N2); vh_bn("h2", H2); vh_bn("h1", H1); vh_bn("par", PAR);
		vh_int("pf", ep_curve_is_pairf());
		vh_int("BN", EP_BN); vh_int("B12", EP_B12);
		vh_int("tw", cur_twist);
		vh_int("endom", ep_curve_is_endom());
		vh_int("fpb", (long)RLC_FP_BITS);
		vh_int("bnbits", (long)RLC_BN_BITS);
		vh_int("wd", (long)RLC_WIDTH);
		vh_int("dep", (long)RLC_DEPTH);
		vh_int("dgb", (long)RLC_DIG);
		vh_int("add", (long)EP_ADD);
	}
	ev_end();
}

static int run_case(void) {
	const char *op = vh_tok[0];
	int al = vh_ntok > 2 ? atoi(vh_tok[2]) : 0;
#define OP(n) (strcmp(op, n) == 0)
	if (OP("curve_probe")) { do_probe(); return 1; }
	if (!set_curve(vh_tok[1])) {
		ev_begin("BADCURVE"); vh_str("curve", vh_tok[1]); ev_end();
		return 1;
	}
	if (OP("g1_is_valid")) do_valid(op, 1, al);
	else if (OP("g2_is_valid")) do_valid(op, 2, al);
	else if (OP("gt_is_valid")) do_valid(op, 3, al);
	else if (OP("g1_mul")) do_mul1(op, w1_mul, 0, al);
	else if (OP("g1_mul_sec")) do_mul1(op, w1_sec, 0, al);
	else if (OP("g1_mul_any")) do_mul1(op, w1_any, 0, al);
	else if (OP("g1_mul_gen")) do_mul1(op, NULL, 1, al);
	else if (OP("g1_mul_dig")) do_mul1(op, NULL, 2, al);
	else if (OP("g1_mul_fix")) do_mul1(op, NULL, 3, al);
	else if (OP("g1_mul_sim")) do_sim1(op, 0, al);
	else if (OP("g1_mul_sim_gen")) do_sim1(op, 1, al);
	else if (OP("g1_mul_sim_lot")) do_lot(op, 1, 0);
	else if (OP("g1_mul_sim_dig")) do_lot(op, 1, 1);
	else if (OP("g2_mul")) do_mul2(op, w2_mul, 0, al);
	else if (OP("g2_mul_sec")) do_mul2(op, w2_sec, 0, al);
	else if (OP("g2_mul_any")) do_mul2(op, w2_any, 0, al);
	else if (OP("g2_mul_gen")) do_mul2(op, NULL, 1, al);
	else if (OP("g2_mul_dig")) do_mul2(op, NULL, 2, al);
	else if (OP("g2_mul_fix")) do_mul2(op, NULL, 3, al);
	else if (OP("g2_mul_sim")) do_sim2(op, 0, al);
	else if (OP("g2_mul_sim_gen")) do_sim2(op, 1, al);
	else if (OP("g2_mul_sim_lot")) do_lot(op, 2, 0);
	else if (OP("g2_mul_sim_dig")) do_lot(op, 2, 1);
	else if (OP("gt_exp")) do_exp(op, 0, al);
	else if (OP("gt_exp_sec")) do_exp(op, 1, al);
	else if (OP("gt_exp_dig")) do_exp(op, 2, al);
	else if (OP("gt_exp_gen")) do_exp(op, 3, al);
	else if (OP("gt_exp_sim")) do_exp(op, 4, al);
	else return 0;
	return 1;
}

int main(int argc, char **argv) {
	long start, idx = 0;
	int i;
	FILE *in = vh_open(argc, argv, &start);
	real_out = vh_out;
	x_install();
	if (core_init() != RLC_OK) return 2;
	x_init_common();
	ep_null(P1); ep_null(Q1); ep_null(R1); ep_null(P10); ep_null(Q10);
	ep_new(P1); ep_new(Q1); ep_new(R1); ep_new(P10); ep_new(Q10);
	ep2_null(P); ep2_null(Q); ep2_null(R); ep2_null(P0); ep2_null(Q0);
	ep2_new(P); ep2_new(Q); ep2_new(R); ep2_new(P0); ep2_new(Q0);
	fp12_null(A); fp12_null(C); fp12_null(E); fp12_null(A0); fp12_null(C0);
	fp12_new(A); fp12_new(C); fp12_new(E); fp12_new(A0); fp12_new(C0);
	bn_null(K); bn_null(M); bn_null(K0); bn_null(M0);
	bn_new(K); bn_new(M); bn_new(K0); bn_new(M0);
	for (i = 0; i < (int)RLC_EP_TABLE_MAX; i++) { ep_null(TAB1[i]); ep_new(TAB1[i]); ep2_null(TAB2[i]); ep2_new(TAB2[i]); }
	for (i = 0; i < LOT_MAX; i++) {
		ep_null(L1[i]); ep_new(L1[i]); ep2_null(L2[i]); ep2_new(L2[i]); bn_null(LK[i]); bn_new(LK[i]);
	}
	while (vh_next(in)) {
		if (idx++ < start) continue;
		vh_case = idx - 1;
		alarm(60);
		if (!run_case()) { fprintf(stderr, "unknown op %s\n", vh_tok[0]); return 2; }
		alarm(0);
	}
	fclose(real_out);
	core_clean();
	return 0;
}
