/*
 * drv_ppx.c - pairings of the k = 8, 16, 18, 24, 48 families with ghost logarithms (C04, field-size sweep).
 * Written against the pc layer (g1_t / g2_t / gt_t): the parameter set is the one pc_param_set_any() selects
 * at the built field size.  P_i = [a_i]G1, Q_i = [b_i]G2 are constructed by the basic multiplications and
 * logged as VALUES (fp_prime_back) - G2 coordinates and the GT value as flat lists of base-field coefficients
 * in storage order (= Tower!TFlat order) - together with the curve coefficients of both groups and the tower
 * constants, so that the spec can verify every input and judge the value by generic quotient-ring arithmetic.
 *
 * Case line:  <fn> <ignored> <zmode> <n> <a_1> <b_1> ... <a_n> <b_n>
 *   fn: info | pc_map | pc_map_sim | oatep | tatep | weilp | sim_oatep | sim_tatep | sim_weilp
 *       (oatep = pp_map_oatep_k8/16/18, pp_map_k24, pp_map_k48; tatep / weilp exist for k = 16, 18)
 *   zmode: 0 normalised, z > 0: coordinates scaled by a Z built from z (projective inputs)
 *   scalars: hex with optional '-', "r", "r+N", "r-N", "r*N"
 * A function the built k does not offer gives {"op":"nofn"}; a build without selectable parameters {"op":"noparam"}.
 */
#include "vh.h"

#if RLC_GT_EMBED == 8 || RLC_GT_EMBED == 12
#define G2F(f) RLC_CAT(fp2_, f)
#elif RLC_GT_EMBED == 16 || RLC_GT_EMBED == 24
#define G2F(f) RLC_CAT(fp4_, f)
#elif RLC_GT_EMBED == 18
#define G2F(f) RLC_CAT(fp3_, f)
#elif RLC_GT_EMBED == 48
#define G2F(f) RLC_CAT(fp8_, f)
#endif
#define G2C(f) RLC_CAT(RLC_G2_LOWER, f)
#define GTF(f) RLC_CAT(RLC_GT_LOWER, f)

static void val_raw(const fp_t a) {
	bn_t t; bn_null(t); bn_new(t);
	fp_prime_back(t, a);
	vh_digs_raw(t->dp, bn_is_zero(t) ? 0 : t->used);
	bn_free(t);
}
static void vals_raw(const fp_t *a, int n) {
	int i;
	fputc('[', vh_out);
	for (i = 0; i < n; i++) { if (i) fputc(',', vh_out); val_raw(a[i]); }
	fputc(']', vh_out);
}
static void vals(const char *k, const fp_t *a, int n) { fprintf(vh_out, ",\"%s\":", k); vals_raw(a, n); }
static void scalar(bn_t k, const char *tok, const bn_t r) {
	if (tok[0] == 'r') {
		bn_copy(k, r);
		if (tok[1] == '+') bn_add_dig(k, k, (dig_t)atoi(tok + 2));
		if (tok[1] == '-') bn_sub_dig(k, k, (dig_t)atoi(tok + 2));
		if (tok[1] == '*') bn_mul_dig(k, k, (dig_t)atoi(tok + 2));
	} else vh_bn_set(k, tok);
}

static fp2_t c_u2, c_xi; static fp3_t c_u3, c_x3; static int have3;
static void consts(void) {
	fp2_t t; fp3_t s; int err = 0;
	fp2_null(t); fp2_new(t); fp3_null(s); fp3_new(s);
	fp2_zero(c_u2); fp2_zero(c_xi); fp3_zero(c_u3); fp3_zero(c_x3);
	fp2_zero(t); fp_set_dig(t[1], 1); fp2_sqr(c_u2, t);
	fp2_zero(t); fp_set_dig(t[0], 1); fp2_mul_nor(c_xi, t);
	have3 = 0;
#if RLC_GT_EMBED == 18
	fp3_zero(s); fp_set_dig(s[1], 1);
	VH_TRY(err, { fp3_sqr(c_u3, s); fp3_mul(c_u3, c_u3, s); fp3_zero(s); fp_set_dig(s[0], 1); fp3_mul_nor(c_x3, s); });
	have3 = (err == 0 && err_get_code() == RLC_OK);
#endif
	(void)err; (void)s;
	err_get_code();
}

#define MAXN 6
#define D2 ((int)(sizeof(((G2C(st) *)0)->x) / sizeof(fp_t)))
int main(int argc, char **argv) {
	long start, idx = 0;
	bn_t a[MAXN], b[MAXN], r; g1_t p[MAXN], g1; g2_t q[MAXN], g2; gt_t g; fp_t z; fp_t zz[RLC_GT_EMBED];
	int i, ok = 0;
	FILE *in = vh_open(argc, argv, &start);
	if (!freopen("/dev/null", "w", stderr)) return 2;
	if (core_init() != RLC_OK) return 2;
	RLC_TRY { ok = (pc_param_set_any() == RLC_OK); } RLC_CATCH_ANY { ok = 0; }
	err_get_code();
	if (ok) RLC_TRY { ok = ep_curve_is_pairf() && ep_curve_embed() == RLC_GT_EMBED; } RLC_CATCH_ANY { ok = 0; }
	err_get_code();
	bn_null(r); bn_new(r); g1_null(g1); g1_new(g1); g2_null(g2); g2_new(g2); gt_null(g); gt_new(g);
	fp_null(z); fp_new(z);
	for (i = 0; i < MAXN; i++) { bn_null(a[i]); bn_null(b[i]); bn_new(a[i]); bn_new(b[i]); g1_null(p[i]); g1_new(p[i]); g2_null(q[i]); g2_new(q[i]); }
	if (ok) consts();
	while (vh_next(in)) {
		const char *fn = vh_tok[0];
		int zm, n, err = 0, known = 1;
		if (idx++ < start) continue;
		vh_case = idx - 1;
		alarm(600);
		if (strcmp(fn, "info") == 0 || !ok) {
			vh_begin(ok ? "info" : "noparam");
			vh_int("fp", FP_PRIME); vh_int("k", RLC_GT_EMBED); vh_int("d2", D2); vh_int("ok", ok);
			if (ok) { vh_int("id", ep_param_get()); vh_int("pairf", ep_curve_is_pairf()); }
			vh_end();
			alarm(0);
			continue;
		}
		zm = atoi(vh_tok[2]); n = atoi(vh_tok[3]);
		if (n > MAXN) n = MAXN;
		pc_get_ord(r); g1_get_gen(g1); g2_get_gen(g2);
		for (i = 0; i < n; i++) {
			scalar(a[i], vh_tok[4 + 2 * i], r); scalar(b[i], vh_tok[5 + 2 * i], r);
			ep_mul_basic(p[i], g1, a[i]); ep_norm(p[i], p[i]);
			G2C(mul_basic)(q[i], g2, b[i]); g2_norm(q[i], q[i]);
		}
		vh_begin("pair");
		vh_str("fn", fn); vh_int("id", ep_param_get()); vh_int("zm", zm); vh_int("n", n);
		vh_int("k", RLC_GT_EMBED); vh_int("d2", D2); vh_int("have3", have3);
		vh_digs("p", fp_prime_get(), RLC_FP_DIGS);
		fputs(",\"r\":", vh_out); vh_bn_raw(r);
		vals("u2", (const fp_t *)c_u2, 2); vals("xi", (const fp_t *)c_xi, 2);
		vals("u3", (const fp_t *)c_u3, 3); vals("x3", (const fp_t *)c_x3, 3);
		fputs(",\"ca\":", vh_out); val_raw(ep_curve_get_a()); fputs(",\"cb\":", vh_out); val_raw(ep_curve_get_b());
		vals("a2", (const fp_t *)G2C(curve_get_a)(), D2); vals("b2", (const fp_t *)G2C(curve_get_b)(), D2);
		fputs(",\"g1\":{\"x\":", vh_out); val_raw(g1->x); fputs(",\"y\":", vh_out); val_raw(g1->y); fputs("}", vh_out);
		fputs(",\"g2\":{\"x\":", vh_out); vals_raw((const fp_t *)g2->x, D2); fputs(",\"y\":", vh_out); vals_raw((const fp_t *)g2->y, D2); fputs("}", vh_out);
		fputs(",\"pairs\":[", vh_out);
		for (i = 0; i < n; i++) {
			fprintf(vh_out, "%s{\"a\":", i ? "," : ""); vh_bn_raw(a[i]); fputs(",\"b\":", vh_out); vh_bn_raw(b[i]);
			fprintf(vh_out, ",\"pinf\":%d,\"px\":", ep_is_infty(p[i])); val_raw(p[i]->x); fputs(",\"py\":", vh_out); val_raw(p[i]->y);
			fprintf(vh_out, ",\"qinf\":%d,\"qx\":", g2_is_infty(q[i])); vals_raw((const fp_t *)q[i]->x, D2);
			fputs(",\"qy\":", vh_out); vals_raw((const fp_t *)q[i]->y, D2);
			fputs("}", vh_out);
		}
		fputs("]", vh_out);
		/* optional non-normalised representation: (X Z, Y Z, Z) projective */
		if (zm > 0) {
			for (i = 0; i < n; i++) {
				if (!ep_is_infty(p[i])) {
					fp_set_dig(z, (dig_t)(zm + i));
					fp_mul(p[i]->x, p[i]->x, z); fp_mul(p[i]->y, p[i]->y, z); fp_copy(p[i]->z, z); p[i]->coord = PROJC;
				}
				if (!g2_is_infty(q[i])) {
					int j;
					for (j = 0; j < D2; j++) fp_zero(zz[j]);
					fp_set_dig(zz[0], (dig_t)(zm + 1)); fp_set_dig(zz[1], (dig_t)(i + 2)); fp_set_dig(zz[D2 - 1], (dig_t)(i + 3));
					G2F(mul)(q[i]->x, q[i]->x, (void *)zz); G2F(mul)(q[i]->y, q[i]->y, (void *)zz); G2F(copy)(q[i]->z, (void *)zz);
					q[i]->coord = PROJC;
				}
			}
		}
		GTF(set_dig)(g, 7);
		if (strcmp(fn, "pc_map") == 0) VH_TRY(err, pc_map(g, p[0], q[0]));
		else if (strcmp(fn, "pc_map_sim") == 0) VH_TRY(err, pc_map_sim(g, p, q, n));
#if RLC_GT_EMBED == 8
		else if (strcmp(fn, "oatep") == 0) VH_TRY(err, pp_map_oatep_k8(g, p[0], q[0]));
		else if (strcmp(fn, "sim_oatep") == 0) VH_TRY(err, pp_map_sim_oatep_k8(g, p, q, n));
#elif RLC_GT_EMBED == 16
		else if (strcmp(fn, "oatep") == 0) VH_TRY(err, pp_map_oatep_k16(g, p[0], q[0]));
		else if (strcmp(fn, "tatep") == 0) VH_TRY(err, pp_map_tatep_k16(g, p[0], q[0]));
		else if (strcmp(fn, "weilp") == 0) VH_TRY(err, pp_map_weilp_k16(g, p[0], q[0]));
		else if (strcmp(fn, "sim_oatep") == 0) VH_TRY(err, pp_map_sim_oatep_k16(g, p, q, n));
		else if (strcmp(fn, "sim_tatep") == 0) VH_TRY(err, pp_map_sim_tatep_k16(g, p, q, n));
		else if (strcmp(fn, "sim_weilp") == 0) VH_TRY(err, pp_map_sim_weilp_k16(g, p, q, n));
#elif RLC_GT_EMBED == 18
		else if (strcmp(fn, "oatep") == 0) VH_TRY(err, pp_map_oatep_k18(g, p[0], q[0]));
		else if (strcmp(fn, "tatep") == 0) VH_TRY(err, pp_map_tatep_k18(g, p[0], q[0]));
		else if (strcmp(fn, "weilp") == 0) VH_TRY(err, pp_map_weilp_k18(g, p[0], q[0]));
		else if (strcmp(fn, "sim_oatep") == 0) VH_TRY(err, pp_map_sim_oatep_k18(g, p, q, n));
		else if (strcmp(fn, "sim_tatep") == 0) VH_TRY(err, pp_map_sim_tatep_k18(g, p, q, n));
		else if (strcmp(fn, "sim_weilp") == 0) VH_TRY(err, pp_map_sim_weilp_k18(g, p, q, n));
#elif RLC_GT_EMBED == 24
		else if (strcmp(fn, "oatep") == 0) VH_TRY(err, pp_map_k24(g, p[0], q[0]));
		else if (strcmp(fn, "sim_oatep") == 0) VH_TRY(err, pp_map_sim_k24(g, p, q, n));
#elif RLC_GT_EMBED == 48
		else if (strcmp(fn, "oatep") == 0) VH_TRY(err, pp_map_k48(g, p[0], q[0]));
		else if (strcmp(fn, "sim_oatep") == 0) VH_TRY(err, pp_map_sim_k48(g, p, q, n));
#endif
		else known = 0;
		vals("g", (const fp_t *)g, RLC_GT_EMBED);
		vh_int("known", known);
		vh_int("err", err); vh_int("code", vh_code());
		vh_end();
		alarm(0);
	}
	fclose(vh_out);
	core_clean();
	return 0;
}
