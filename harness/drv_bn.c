/*
 * drv_bn.c - conformance driver for the integer layer (C01; shared with C09).
 * Case line:  <op> <alias> <args...>     (see the table in run_case)
 * Event:      {"op","i","w","digs","cap","al","a","b",...,"c","d","ret","err","code","unch"}
 *   a, b, m  inputs as read back from the objects before the call (raw projection)
 *   c, d, e  outputs after the call (raw projection)
 *   unch     every non-aliased input object is bit-identical after the call
 */
#include "vh.h"

static bn_t A, B, M, U, C, D, E, F, A0, B0, M0, U0;

static void hdr(const char *op, int al) {
	vh_begin(op);
	vh_int("w", (long)sizeof(dig_t));
	vh_int("digs", (long)RLC_BN_DIGS);
	vh_int("cap", (long)RLC_BN_SIZE);
	vh_int("al", al);
}

static void fin(int err, int unch) {
	vh_int("err", err);
	vh_int("code", vh_code());
	vh_bool("unch", unch);
	vh_end();
}

/* three-address c = a op b with alias patterns 0 none, 1 c==a, 2 c==b, 3 a==b, 4 c==a==b */
typedef void (*bin_f)(bn_t, const bn_t, const bn_t);
static void do_bin(const char *op, bin_f f, int al) {
	int err, unch = 1;
	bn_st *pa = A, *pb = B, *pc = C;
	vh_bn_set(A, vh_tok[2]);
	vh_bn_set(B, vh_tok[3]);
	if (al == 3 || al == 4) pb = pa;
	if (al == 1 || al == 4) pc = pa;
	if (al == 2) pc = pb;
	bn_copy(A0, A); bn_copy(B0, B);
	bn_set_dig(C, 0x5a); /* stale output content */
	hdr(op, al);
	vh_bn("a", pa); vh_bn("b", pb);
	VH_TRY(err, f(pc, pa, pb));
	vh_bn("c", pc);
	if (pc != pa) unch &= vh_bn_same(A, A0);
	if (pc != pb && pb != pa) unch &= vh_bn_same(B, B0);
	fin(err, unch);
}

typedef void (*un_f)(bn_t, const bn_t);
static void do_un(const char *op, un_f f, int al) {
	int err, unch = 1;
	bn_st *pa = A, *pc = C;
	vh_bn_set(A, vh_tok[2]);
	if (al == 1) pc = pa;
	bn_copy(A0, A);
	bn_set_dig(C, 0x5a);
	hdr(op, al);
	vh_bn("a", pa);
	VH_TRY(err, f(pc, pa));
	vh_bn("c", pc);
	if (pc != pa) unch &= vh_bn_same(A, A0);
	fin(err, unch);
}

/* c = f(a, k) with k a small integer */
static void do_sh(const char *op, int which, int al) {
	int err, unch = 1;
	long k = atol(vh_tok[3]);
	bn_st *pa = A, *pc = C;
	vh_bn_set(A, vh_tok[2]);
	if (al == 1) pc = pa;
	bn_copy(A0, A);
	bn_set_dig(C, 0x5a);
	hdr(op, al);
	vh_bn("a", pa); vh_int("k", k);
	switch (which) {
		case 0: VH_TRY(err, bn_lsh(pc, pa, (uint_t)k)); break;
		case 1: VH_TRY(err, bn_rsh(pc, pa, (uint_t)k)); break;
		case 2: VH_TRY(err, bn_mod_2b(pc, pa, (int)k)); break;
		default: err = 0;
	}
	vh_bn("c", pc);
	if (pc != pa) unch &= vh_bn_same(A, A0);
	fin(err, unch);
}

typedef void (*dig_f)(bn_t, const bn_t, dig_t);
static void do_dig(const char *op, dig_f f, int al) {
	int err, unch = 1;
	dig_t d = vh_dig_tok(vh_tok[3]);
	bn_st *pa = A, *pc = C;
	vh_bn_set(A, vh_tok[2]);
	if (al == 1) pc = pa;
	bn_copy(A0, A);
	bn_set_dig(C, 0x5a);
	hdr(op, al);
	vh_bn("a", pa); vh_dig("dg", d);
	VH_TRY(err, f(pc, pa, d));
	vh_bn("c", pc);
	if (pc != pa) unch &= vh_bn_same(A, A0);
	fin(err, unch);
}

/* bn_div_rem: aliases 0 none, 1 q==a, 2 q==b, 3 r==a, 4 r==b, 5 q==a r==b, 6 q==b r==a, 7 a==b */
static void do_divrem(int al) {
	int err, unch = 1;
	bn_st *pa = A, *pb = B, *pq = C, *pr = D;
	vh_bn_set(A, vh_tok[2]);
	vh_bn_set(B, vh_tok[3]);
	if (al == 7) pb = pa;
	if (al == 1 || al == 5) pq = pa;
	if (al == 2 || al == 6) pq = pb;
	if (al == 3 || al == 6) pr = pa;
	if (al == 4 || al == 5) pr = pb;
	bn_copy(A0, A); bn_copy(B0, B);
	bn_set_dig(C, 0x5a); bn_set_dig(D, 0x5b);
	hdr("bn_div_rem", al);
	vh_bn("a", pa); vh_bn("b", pb);
	VH_TRY(err, bn_div_rem(pq, pr, pa, pb));
	vh_bn("c", pq); vh_bn("d", pr);
	if (pq != pa && pr != pa) unch &= vh_bn_same(A, A0);
	if (pq != pb && pr != pb && pb != pa) unch &= vh_bn_same(B, B0);
	fin(err, unch);
}

static void do_divrem_dig(int al) {
	int err, unch = 1;
	dig_t d = vh_dig_tok(vh_tok[3]), r = 0x5b;
	bn_st *pa = A, *pc = C;
	vh_bn_set(A, vh_tok[2]);
	if (al == 1) pc = pa;
	bn_copy(A0, A);
	bn_set_dig(C, 0x5a);
	hdr("bn_div_rem_dig", al);
	vh_bn("a", pa); vh_dig("dg", d);
	VH_TRY(err, bn_div_rem_dig(pc, &r, pa, d));
	vh_bn("c", pc); vh_dig("rd", r);
	if (pc != pa) unch &= vh_bn_same(A, A0);
	fin(err, unch);
}

/* queries returning an int */
static void do_query(const char *op, int which) {
	int err;
	volatile long ret = 0;
	dig_t dg = 0;
	long k = 0;
	vh_bn_set(A, vh_tok[2]);
	bn_copy(A0, A);
	hdr(op, 0);
	vh_bn("a", A);
	if (which == 0 || which == 1) { vh_bn_set(B, vh_tok[3]); bn_copy(B0, B); vh_bn("b", B); }
	if (which == 2) { dg = vh_dig_tok(vh_tok[3]); vh_dig("dg", dg); }
	if (which == 3) { k = atol(vh_tok[3]); vh_int("k", k); }
	switch (which) {
		case 0: VH_TRY(err, ret = bn_cmp(A, B)); break;
		case 1: VH_TRY(err, ret = bn_cmp_abs(A, B)); break;
		case 2: VH_TRY(err, ret = bn_cmp_dig(A, dg)); break;
		case 3: VH_TRY(err, ret = bn_get_bit(A, (uint_t)k)); break;
		case 4: VH_TRY(err, ret = (long)bn_bits(A)); break;
		case 5: VH_TRY(err, ret = (long)bn_ham(A)); break;
		case 6: VH_TRY(err, ret = bn_is_zero(A)); break;
		case 7: VH_TRY(err, ret = bn_is_even(A)); break;
		case 8: VH_TRY(err, ret = bn_sign(A)); break;
		case 9: VH_TRY(err, bn_get_dig(&dg, A)); vh_dig("rd", dg); break;
		default: err = 0;
	}
	vh_int("ret", ret);
	fin(err, vh_bn_same(A, A0) && ((which > 1) || vh_bn_same(B, B0)));
}

/* in-place setters */
static void do_set(const char *op, int which) {
	int err = 0;
	long k = 0, v = 0;
	dig_t dg = 0;
	vh_bn_set(A, vh_tok[2]);
	hdr(op, 1);
	vh_bn("a", A);
	switch (which) {
		case 0: k = atol(vh_tok[3]); v = atol(vh_tok[4]); vh_int("k", k); vh_int("v", v);
			VH_TRY(err, bn_set_bit(A, (uint_t)k, (int)v)); break;
		case 1: k = atol(vh_tok[3]); vh_int("k", k);
			VH_TRY(err, bn_set_2b(A, (size_t)k)); break;
		case 2: dg = vh_dig_tok(vh_tok[3]); vh_dig("dg", dg);
			VH_TRY(err, bn_set_dig(A, dg)); break;
		case 3: VH_TRY(err, bn_zero(A)); break;
	}
	vh_bn("c", A);
	fin(err, 1);
}

static void w_mul(bn_t c, const bn_t a, const bn_t b) { bn_mul(c, a, b); }
static void w_sqr(bn_t c, const bn_t a) { bn_sqr(c, a); }

static int run_case(void) {
	const char *op = vh_tok[0];
	int al = vh_ntok > 1 ? atoi(vh_tok[1]) : 0;
#define OP(n) (strcmp(op, n) == 0)
	if (OP("bn_add")) do_bin(op, bn_add, al);
	else if (OP("bn_sub")) do_bin(op, bn_sub, al);
	else if (OP("bn_mul")) do_bin(op, w_mul, al);
	else if (OP("bn_mul_basic")) do_bin(op, bn_mul_basic, al);
	else if (OP("bn_mul_comba")) do_bin(op, bn_mul_comba, al);
	else if (OP("bn_mul_karat")) do_bin(op, bn_mul_karat, al);
	else if (OP("bn_div")) do_bin(op, bn_div, al);
	else if (OP("bn_sqr")) do_un(op, w_sqr, al);
	else if (OP("bn_sqr_basic")) do_un(op, bn_sqr_basic, al);
	else if (OP("bn_sqr_comba")) do_un(op, bn_sqr_comba, al);
	else if (OP("bn_sqr_karat")) do_un(op, bn_sqr_karat, al);
	else if (OP("bn_neg")) do_un(op, bn_neg, al);
	else if (OP("bn_abs")) do_un(op, bn_abs, al);
	else if (OP("bn_copy")) do_un(op, bn_copy, al);
	else if (OP("bn_dbl")) do_un(op, bn_dbl, al);
	else if (OP("bn_hlv")) do_un(op, bn_hlv, al);
	else if (OP("bn_lsh")) do_sh(op, 0, al);
	else if (OP("bn_rsh")) do_sh(op, 1, al);
	else if (OP("bn_mod_2b")) do_sh(op, 2, al);
	else if (OP("bn_add_dig")) do_dig(op, bn_add_dig, al);
	else if (OP("bn_sub_dig")) do_dig(op, (dig_f)bn_sub_dig, al);
	else if (OP("bn_mul_dig")) do_dig(op, bn_mul_dig, al);
	else if (OP("bn_div_dig")) do_dig(op, bn_div_dig, al);
	else if (OP("bn_div_rem")) do_divrem(al);
	else if (OP("bn_div_rem_dig")) do_divrem_dig(al);
	else if (OP("bn_cmp")) do_query(op, 0);
	else if (OP("bn_cmp_abs")) do_query(op, 1);
	else if (OP("bn_cmp_dig")) do_query(op, 2);
	else if (OP("bn_get_bit")) do_query(op, 3);
	else if (OP("bn_bits")) do_query(op, 4);
	else if (OP("bn_ham")) do_query(op, 5);
	else if (OP("bn_is_zero")) do_query(op, 6);
	else if (OP("bn_is_even")) do_query(op, 7);
	else if (OP("bn_sign")) do_query(op, 8);
	else if (OP("bn_get_dig")) do_query(op, 9);
	else if (OP("bn_set_bit")) do_set(op, 0);
	else if (OP("bn_set_2b")) do_set(op, 1);
	else if (OP("bn_set_dig")) do_set(op, 2);
	else if (OP("bn_zero")) do_set(op, 3);
	else return 0;
	return 1;
}

int main(int argc, char **argv) {
	long start, idx = 0;
	FILE *in = vh_open(argc, argv, &start);
	if (core_init() != RLC_OK) return 2;
	bn_new(A); bn_new(B); bn_new(M); bn_new(U); bn_new(C); bn_new(D); bn_new(E); bn_new(F);
	bn_new(A0); bn_new(B0); bn_new(M0); bn_new(U0);
	while (vh_next(in)) {
		if (idx++ < start) continue;
		vh_case = idx - 1;
		alarm(20);
		if (!run_case()) { fprintf(stderr, "unknown op %s\n", vh_tok[0]); return 2; }
		alarm(0);
	}
	fclose(vh_out);
	core_clean();
	return 0;
}
