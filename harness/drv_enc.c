/*
 * drv_enc.c - encryption, key agreement, secret sharing (C06).
 *
 * Every event is ONE call (or one short protocol run) of the library with everything the
 * spec needs to evaluate the scheme's definition independently: the private key the key
 * generator returned, the inputs, the outputs and return codes, the bytes rand_bytes
 * handed out during an encryption (ld --wrap=rand_bytes) where the ciphertext is to be
 * predicted.  Wide integers: raw bn projection (vh_bn); byte strings in order; field
 * elements and points as VALUES (little-endian digits of fp_prime_back).
 * Decryptions of mutated ciphertexts run in a forked child: an abnormal end (signal, or
 * the 4 s alarm) becomes the field "crash" of THAT event instead of the end of the driver.
 *
 * Case lines (seeds are hex strings fed to rand_seed; keys are cached by their key token):
 *   rsa    <bits>:<kseed> <cseed> <msghex> <cap> <mut>...      enc + honest dec + mutated decs
 *            mut: x<pos>:<xor> | t (drop last byte) | T (drop first) | z (prepend 00) | a (append 00)
 *                 | n (c + n) | raw:<EMhex> (c = EM^e mod n) | cap:<n> (honest c, output capacity n)
 *   rabin  <bits>:<kseed> <cseed> <msghex> <cap> <mut>...      same; raw:<hex> squares the given root; zero
 *   ecdh   <curve id> <seed> <keylen>
 *   ecmqv  <curve id> <seed> <keylen>
 *   ecies  <curve id> <kseed> <cseed> <msghex> <cap> <mut>...
 *            mut: x<pos>:<xor> | len:<n> | R:x<bit> | R:y<bit> | R:neg | R:dbl | R:inf | pad (drop last block, re-tag)
 *   phpe   <bits>:<kseed> <cseed> <m1> <m2>          m: hex | n-<dec> | r
 *   ghpe   <bits>:<kseed> <cseed> <s> <m1> <m2>      (n means n^s)
 *   shpe   <sbits>:<nbits>:<kseed> <cseed> <m1> <m2>
 *   bdpe   <t>:<bits>:<kseed> <cseed> <m1> <m2> <mut>...       mut: t | z
 *   sss    <qhex> <cseed> <secret: hex|r> <k> <n>
 *   mt     <qhex> <cseed> <x> <y>
 *   + the pairing-based protocols, see the second half of the file
 */
#include "vh.h"
#include <sys/wait.h>

#define MAXB 4096
#define FILL 0xA5

/* ------------------------------------------------------------ rand capture */
void __real_rand_bytes(uint8_t *buf, size_t size);
static int cap_on; static uint8_t cap_buf[8192]; static size_t cap_len; static int cap_calls;
void __wrap_rand_bytes(uint8_t *buf, size_t size) {
	__real_rand_bytes(buf, size);
	if (cap_on) {
		cap_calls++;
		if (cap_len + size <= sizeof(cap_buf)) { memcpy(cap_buf + cap_len, buf, size); cap_len += size; }
	}
}
static void cap_start(void) { cap_on = 1; cap_len = 0; cap_calls = 0; }
static void cap_stop(void) { cap_on = 0; }

static void reseed(const char *tok) {
	static uint8_t sd[512];
	size_t n = vh_hex2bytes(tok, sd, sizeof(sd), NULL);
	if (n == 0) { sd[0] = 0x5a; n = 1; }
	core_get()->seeded = 0;
	rand_seed(sd, n);
}

/* ------------------------------------------------------------ guarded calls */
typedef struct {
	int ret, err, code, crash, touched, over;
	size_t olen;
	dig_t dig;
	uint8_t out[MAXB + 16];
} res_t;
typedef void (*call_fn)(res_t *r, void *ctx);

static void res_prepare(res_t *r, size_t cap) {
	memset(r, 0, sizeof(*r));
	memset(r->out, FILL, sizeof(r->out));
	r->olen = cap; r->ret = -1;
}
static void res_finish(res_t *r, size_t cap) {
	size_t i;
	r->code = vh_code();
	/* touched: 0 = output area as it was, 1 = only zero bytes were stored, 2 = other data was stored */
	for (i = 0; i < cap && i < MAXB; i++) if (r->out[i] != FILL) { if (r->out[i] != 0) r->touched = 2; else if (!r->touched) r->touched = 1; }
	for (i = cap; i < MAXB + 16; i++) if (r->out[i] != FILL) r->over = 1;
}
/* run f(r, ctx) here, or in a forked child reporting through a pipe */
static void run_call(call_fn f, void *ctx, res_t *r, size_t cap, int guarded) {
	if (!guarded) { res_prepare(r, cap); f(r, ctx); res_finish(r, cap); return; }
	{
		int fd[2], st = 0; pid_t pid; ssize_t got = 0, n;
		fflush(vh_out);
		if (pipe(fd) != 0) exit(2);
		pid = fork();
		if (pid < 0) exit(2);
		if (pid == 0) {
			signal(SIGSEGV, SIG_DFL); signal(SIGBUS, SIG_DFL); signal(SIGABRT, SIG_DFL); signal(SIGILL, SIG_DFL);
			signal(SIGFPE, SIG_DFL); signal(SIGALRM, SIG_DFL);
			close(fd[0]);
			alarm(4);
			res_prepare(r, cap); f(r, ctx); res_finish(r, cap);
			n = 0;
			while ((size_t)n < sizeof(*r)) { ssize_t w = write(fd[1], (char *)r + n, sizeof(*r) - n); if (w <= 0) break; n += w; }
			_exit(0);
		}
		close(fd[1]);
		res_prepare(r, cap);
		while ((size_t)got < sizeof(*r) && (n = read(fd[0], (char *)r + got, sizeof(*r) - got)) > 0) got += n;
		close(fd[0]);
		waitpid(pid, &st, 0);
		if (WIFSIGNALED(st)) { res_prepare(r, cap); r->crash = WTERMSIG(st); }
		else if (!WIFEXITED(st) || WEXITSTATUS(st) != 0 || (size_t)got != sizeof(*r)) { res_prepare(r, cap); r->crash = 255; }
	}
}
static void res_out(const res_t *r, size_t cap) {
	vh_int("cap", (long)cap);
	vh_int("ret", r->ret); vh_int("err", r->err); vh_int("code", r->code); vh_int("crash", r->crash);
	vh_int("olen", (long)r->olen); vh_int("touched", r->touched); vh_int("over", r->over);
	vh_bytes("out", r->out, (r->ret == RLC_OK && r->olen <= cap && r->olen <= MAXB) ? r->olen : 0);
}

/* ------------------------------------------------------------ helpers */
static bn_t T0, T1, T2, T3;
static uint8_t msg[MAXB], ct[MAXB], ct2[MAXB];
static size_t mlen, clen, clen2;

static void bn_arr(const char *k, bn_t *a, int n) {
	int i;
	fprintf(vh_out, ",\"%s\":[", k);
	for (i = 0; i < n; i++) { if (i) fputc(',', vh_out); vh_bn_raw(a[i]); }
	fputc(']', vh_out);
}
/* scalar token relative to a modulus N: hex | n-<dec> | n+<dec> | n | r (uniform below N) | h (N / 2) */
static void mtok(bn_t m, const char *tok, const bn_t N) {
	if (tok[0] == 'n') {
		bn_copy(m, N);
		if (tok[1] == '-') bn_sub_dig(m, m, (dig_t)atol(tok + 2));
		if (tok[1] == '+') bn_add_dig(m, m, (dig_t)atol(tok + 2));
	} else if (tok[0] == 'r') bn_rand_mod(m, N);
	else if (tok[0] == 'h') bn_hlv(m, N);
	else vh_bn_set(m, tok);
}

/* apply a byte-string mutation to (src, n) into dst; returns the new length, -1 = not applicable */
static long mutate(const char *mut, const uint8_t *src, size_t n, uint8_t *dst) {
	memcpy(dst, src, n);
	if (mut[0] == 'x') {
		long pos = atol(mut + 1); const char *c = strchr(mut, ':');
		if (pos < 0 || (size_t)pos >= n || !c) return -1;
		dst[pos] ^= (uint8_t)strtol(c + 1, NULL, 16);
		return (long)n;
	}
	if (!strcmp(mut, "t")) return n ? (long)n - 1 : -1;
	if (!strcmp(mut, "T")) { if (!n) return -1; memmove(dst, src + 1, n - 1); return (long)n - 1; }
	if (!strcmp(mut, "z")) { dst[0] = 0; memcpy(dst + 1, src, n); return (long)n + 1; }
	if (!strcmp(mut, "a")) { dst[n] = 0; return (long)n + 1; }
	if (!strncmp(mut, "len:", 4)) { long l = atol(mut + 4); if (l < 0 || (size_t)l > n) return -1; return l; }
	if (!strcmp(mut, "zero")) { memset(dst, 0, n); return (long)n; }
	return -2;   /* not a generic mutation */
}

#if defined(WITH_CP)
/* ==================================================================== RSA */
static rsa_t rpub, rprv;
static char rsa_key[128];
static int rsa_ok;
static const char *pad_name(void) {
#if CP_RSAPD == BASIC
	return "basic";
#elif CP_RSAPD == PKCS1
	return "pkcs1";
#else
	return "oaep";
#endif
}
static void rsa_fields(void) {
	vh_str("pad", pad_name()); vh_int("mdl", (long)RLC_MD_LEN);
	vh_bn("N", rpub->crt->n); vh_bn("E", rpub->e); vh_bn("D", rprv->d); vh_bn("P", rprv->crt->p); vh_bn("Q", rprv->crt->q);
}
typedef struct { const uint8_t *in; size_t len; } buf_ctx;
static void call_rsa_enc(res_t *r, void *c) { buf_ctx *b = c; VH_TRY(r->err, r->ret = cp_rsa_enc(r->out, &r->olen, b->in, b->len, rpub)); }
static void call_rsa_dec(res_t *r, void *c) { buf_ctx *b = c; VH_TRY(r->err, r->ret = cp_rsa_dec(r->out, &r->olen, b->in, b->len, rprv)); }

static void do_rsa(void) {
	int bits = atoi(vh_tok[1]), err, ret = -1, i;
	size_t cap, k;
	res_t r; buf_ctx b;
	const char *ks = strchr(vh_tok[1], ':') + 1;
	if (strcmp(vh_tok[1], rsa_key) != 0) {
		snprintf(rsa_key, sizeof(rsa_key), "%s", vh_tok[1]);
		reseed(ks);
		VH_TRY(err, ret = cp_rsa_gen(rpub, rprv, bits));
		rsa_ok = (err == 0 && ret == RLC_OK);
		vh_begin("rsa_gen");
		vh_int("bits", bits); vh_int("ret", ret); vh_int("err", err); vh_int("code", vh_code());
		rsa_fields();
		vh_bn("DP", rprv->crt->dp); vh_bn("DQ", rprv->crt->dq); vh_bn("QI", rprv->crt->qi);
		vh_bn("N2", rprv->crt->n);
		vh_end();
	}
	if (!rsa_ok) return;
	k = bn_size_bin(rpub->crt->n);
	mlen = vh_hex2bytes(vh_tok[3], msg, MAXB, NULL);
	if (strncmp(vh_tok[2], "hunt", 4) == 0) {
		/* INPUT SELECTION: hunt<class>:<tries>:<base seed> - try encryption seeds until the encoded message (recovered
		 * with the private exponent) has a zero byte at the position of the class: 1 = first byte of the masked seed,
		 * 2 = first byte of the masked data block (the bytes that vanish from a digit-wise view of the integer); the
		 * case then proceeds with that seed exactly like an ordinary one (the events below are judged as usual) */
		static char sbuf[96]; static uint8_t tc[MAXB], em[MAXB];
		int cls = vh_tok[2][4] - '0', tries = atoi(vh_tok[2] + 6), t, found = 0;
		const char *base = strchr(vh_tok[2] + 6, ':'); size_t pos = (cls == 1) ? 1 : 1 + RLC_MD_LEN;
		bn_t c; bn_null(c); bn_new(c);
		base = base ? base + 1 : "00";
		for (t = 0; t < tries && !found; t++) {
			size_t cl = sizeof(tc); volatile int e2 = 0, r2 = RLC_ERR;
			snprintf(sbuf, sizeof(sbuf), "%s%04x", base, t);
			reseed(sbuf);
			VH_TRY(e2, r2 = cp_rsa_enc(tc, &cl, msg, mlen, rpub));
			if (e2 || r2 != RLC_OK) break;
			VH_TRY(e2, (bn_read_bin(c, tc, cl), bn_mxp(c, c, rprv->d, rprv->crt->n), bn_write_bin(em, k, c)));
			if (!e2 && pos < k && em[pos] == 0) found = 1;
		}
		(void)vh_code();
		bn_free(c);
		vh_tok[2] = sbuf;
	}
	reseed(vh_tok[2]);
	cap = (size_t)atol(vh_tok[4]);
	b.in = msg; b.len = mlen;
	cap_start();
	run_call(call_rsa_enc, &b, &r, cap, 0);
	cap_stop();
	vh_begin("rsa_enc");
	rsa_fields(); vh_bytes("m", msg, mlen); vh_bytes("rnd", cap_buf, cap_len); vh_int("rndn", cap_calls);
	res_out(&r, cap);
	vh_end();
	clen = 0;
	if (r.ret == RLC_OK && r.olen <= MAXB) { clen = r.olen; memcpy(ct, r.out, clen); }
	if (clen) {
		/* honest decryption */
		b.in = ct; b.len = clen;
		run_call(call_rsa_dec, &b, &r, MAXB, 0);
		vh_begin("rsa_dec");
		rsa_fields(); vh_str("mut", "honest"); vh_int("honest", 1); vh_bytes("m0", msg, mlen); vh_bytes("c", ct, clen);
		res_out(&r, MAXB);
		vh_end();
	}
	for (i = 5; i < vh_ntok; i++) {
		const char *mut = vh_tok[i];
		long l;
		size_t dcap = MAXB;
		int honest = 0;
		if (!strncmp(mut, "raw:", 4)) {
			vh_bn_set(T0, mut + 4);
			if (bn_cmp(T0, rpub->crt->n) != RLC_LT) continue;
			bn_mxp(T1, T0, rpub->e, rpub->crt->n);
			memset(ct2, 0, k); bn_write_bin(ct2, k, T1); l = (long)k;
		} else if (!strcmp(mut, "n")) {
			if (!clen) continue;
			bn_read_bin(T0, ct, clen); bn_add(T0, T0, rpub->crt->n);
			if (bn_size_bin(T0) > k) continue;
			bn_write_bin(ct2, k, T0); l = (long)k;
		} else if (!strncmp(mut, "cap:", 4)) {
			if (!clen) continue;
			memcpy(ct2, ct, clen); l = (long)clen; dcap = (size_t)atol(mut + 4); honest = 1;
		} else {
			if (!clen) continue;
			l = mutate(mut, ct, clen, ct2);
			if (l < 0) continue;
		}
		b.in = ct2; b.len = (size_t)l;
		run_call(call_rsa_dec, &b, &r, dcap, 1);
		vh_begin("rsa_dec");
		rsa_fields(); vh_str("mut", mut); vh_int("honest", honest); vh_bytes("m0", msg, honest ? mlen : 0); vh_bytes("c", ct2, (size_t)l);
		res_out(&r, dcap);
		vh_end();
	}
}

/* ================================================================== Rabin */
static rabin_t bpub, bprv;
static char rabin_key[128];
static int rabin_ok;
static void rabin_fields(void) { vh_bn("N", bprv->n); vh_bn("P", bprv->p); vh_bn("Q", bprv->q); }
static void call_rabin_enc(res_t *r, void *c) { buf_ctx *b = c; VH_TRY(r->err, r->ret = cp_rabin_enc(r->out, &r->olen, b->in, b->len, bpub)); }
static void call_rabin_dec(res_t *r, void *c) { buf_ctx *b = c; VH_TRY(r->err, r->ret = cp_rabin_dec(r->out, &r->olen, b->in, b->len, bprv)); }

static void do_rabin(void) {
	int bits = atoi(vh_tok[1]), err, ret = -1, i;
	size_t cap, k;
	res_t r; buf_ctx b;
	const char *ks = strchr(vh_tok[1], ':') + 1;
	if (strcmp(vh_tok[1], rabin_key) != 0) {
		snprintf(rabin_key, sizeof(rabin_key), "%s", vh_tok[1]);
		reseed(ks);
		VH_TRY(err, ret = cp_rabin_gen(bpub, bprv, bits));
		rabin_ok = (err == 0 && ret == RLC_OK);
		vh_begin("rabin_gen");
		vh_int("bits", bits); vh_int("ret", ret); vh_int("err", err); vh_int("code", vh_code());
		rabin_fields(); vh_bn("NP", bpub->n);
		vh_end();
	}
	if (!rabin_ok) return;
	reseed(vh_tok[2]);
	k = bn_size_bin(bpub->n);
	mlen = vh_hex2bytes(vh_tok[3], msg, MAXB, NULL);
	cap = (size_t)atol(vh_tok[4]);
	b.in = msg; b.len = mlen;
	run_call(call_rabin_enc, &b, &r, cap, 0);
	vh_begin("rabin_enc");
	rabin_fields(); vh_bytes("m", msg, mlen);
	res_out(&r, cap);
	vh_end();
	clen = 0;
	if (r.ret == RLC_OK && r.olen <= MAXB) { clen = r.olen; memcpy(ct, r.out, clen); }
	if (clen) {
		b.in = ct; b.len = clen;
		run_call(call_rabin_dec, &b, &r, MAXB, 0);
		vh_begin("rabin_dec");
		rabin_fields(); vh_str("mut", "honest"); vh_int("honest", 1); vh_bytes("m0", msg, mlen); vh_bytes("c", ct, clen);
		res_out(&r, MAXB);
		vh_end();
	}
	for (i = 5; i < vh_ntok; i++) {
		const char *mut = vh_tok[i];
		long l;
		if (!strncmp(mut, "raw:", 4)) {
			vh_bn_set(T0, mut + 4);
			if (bn_cmp(T0, bpub->n) != RLC_LT) continue;
			bn_sqr(T1, T0); bn_mod(T1, T1, bpub->n);
			memset(ct2, 0, k); bn_write_bin(ct2, k, T1); l = (long)k;
		} else {
			if (!clen) continue;
			l = mutate(mut, ct, clen, ct2);
			if (l < 0) continue;
		}
		b.in = ct2; b.len = (size_t)l;
		run_call(call_rabin_dec, &b, &r, MAXB, 1);
		vh_begin("rabin_dec");
		rabin_fields(); vh_str("mut", mut); vh_int("honest", 0); vh_bytes("m0", msg, 0); vh_bytes("c", ct2, (size_t)l);
		res_out(&r, MAXB);
		vh_end();
	}
}

/* =============================================================== Paillier */
static phpe_t hprv; static bn_t hpub;
static char phpe_key[128];
static bn_t M1, M2, C1, C2, C3, D1, D2, D3;

static void do_phpe(void) {
	int bits = atoi(vh_tok[1]), err, ret = -1, re[3], rd[3], ra, ee[7];
	const char *ks = strchr(vh_tok[1], ':') + 1;
	if (strcmp(vh_tok[1], phpe_key) != 0) {
		snprintf(phpe_key, sizeof(phpe_key), "%s", vh_tok[1]);
		reseed(ks);
		VH_TRY(err, ret = cp_phpe_gen(hpub, hprv, bits));
		vh_begin("phpe_gen");
		vh_int("bits", bits); vh_int("ret", ret); vh_int("err", err); vh_int("code", vh_code());
		vh_bn("N", hprv->n); vh_bn("P", hprv->p); vh_bn("Q", hprv->q); vh_bn("NP", hpub);
		vh_end();
	}
	reseed(vh_tok[2]);
	mtok(M1, vh_tok[3], hpub); mtok(M2, vh_tok[4], hpub);
	bn_zero(C1); bn_zero(C2); bn_zero(C3); bn_zero(D1); bn_zero(D2); bn_zero(D3);
	VH_TRY(ee[0], re[0] = cp_phpe_enc(C1, M1, hpub));
	VH_TRY(ee[1], re[1] = cp_phpe_enc(C2, M2, hpub));
	VH_TRY(ee[2], ra = cp_phpe_add(C3, C1, C2, hpub));
	VH_TRY(ee[3], rd[0] = cp_phpe_dec(D1, C1, hprv));
	VH_TRY(ee[4], rd[1] = cp_phpe_dec(D2, C2, hprv));
	/* the third decryption runs IN PLACE (output object = ciphertext object), the alias pattern of an accumulator */
	bn_copy(D3, C3);
	VH_TRY(ee[5], rd[2] = cp_phpe_dec(D3, D3, hprv));
	vh_begin("phpe");
	vh_bn("N", hprv->n); vh_bn("P", hprv->p); vh_bn("Q", hprv->q);
	vh_bn("m1", M1); vh_bn("m2", M2); vh_bn("c1", C1); vh_bn("c2", C2); vh_bn("c3", C3);
	vh_bn("d1", D1); vh_bn("d2", D2); vh_bn("d3", D3);
	vh_int("ret", re[0] | re[1] | ra | rd[0] | rd[1] | rd[2]);
	vh_int("err", ee[0] | ee[1] | ee[2] | ee[3] | ee[4] | ee[5]); vh_int("code", vh_code());
	vh_end();
}

/* generalised (Damgaard-Jurik) */
static bn_t gpub, gprv;
static char ghpe_key[128];
static void do_ghpe(void) {
	int bits = atoi(vh_tok[1]), err, ret = -1, re[2], rd[3], ee[6], s = atoi(vh_tok[3]), i;
	const char *ks = strchr(vh_tok[1], ':') + 1;
	if (strcmp(vh_tok[1], ghpe_key) != 0) {
		snprintf(ghpe_key, sizeof(ghpe_key), "%s", vh_tok[1]);
		reseed(ks);
		VH_TRY(err, ret = cp_ghpe_gen(gpub, gprv, bits));
		vh_begin("ghpe_gen");
		vh_int("bits", bits); vh_int("ret", ret); vh_int("err", err); vh_int("code", vh_code());
		vh_bn("N", gpub); vh_bn("L", gprv);
		vh_end();
	}
	reseed(vh_tok[2]);
	bn_copy(T0, gpub);
	for (i = 1; i < s; i++) bn_mul(T0, T0, gpub);          /* plaintext modulus n^s */
	mtok(M1, vh_tok[4], T0); mtok(M2, vh_tok[5], T0);
	bn_mul(T1, T0, gpub);                                   /* n^(s+1) */
	bn_zero(C1); bn_zero(C2); bn_zero(C3); bn_zero(D1); bn_zero(D2); bn_zero(D3);
	VH_TRY(ee[0], re[0] = cp_ghpe_enc(C1, M1, gpub, s));
	VH_TRY(ee[1], re[1] = cp_ghpe_enc(C2, M2, gpub, s));
	bn_mul(C3, C1, C2); bn_mod(C3, C3, T1);                 /* combination: input construction */
	VH_TRY(ee[2], rd[0] = cp_ghpe_dec(D1, C1, gpub, gprv, s));
	VH_TRY(ee[3], rd[1] = cp_ghpe_dec(D2, C2, gpub, gprv, s));
	bn_copy(D3, C3);                       /* in place, as for the other homomorphic schemes */
	VH_TRY(ee[4], rd[2] = cp_ghpe_dec(D3, D3, gpub, gprv, s));
	vh_begin("ghpe");
	vh_int("s", s); vh_bn("N", gpub); vh_bn("L", gprv);
	vh_bn("m1", M1); vh_bn("m2", M2); vh_bn("c1", C1); vh_bn("c2", C2); vh_bn("c3", C3);
	vh_bn("d1", D1); vh_bn("d2", D2); vh_bn("d3", D3);
	vh_int("ret", re[0] | re[1] | rd[0] | rd[1] | rd[2]);
	vh_int("err", ee[0] | ee[1] | ee[2] | ee[3] | ee[4]); vh_int("code", vh_code());
	vh_end();
}

/* subgroup variant */
static shpe_t spub, sprv;
static char shpe_key[128];
static void do_shpe(void) {
	int sbits = atoi(vh_tok[1]), nbits = atoi(strchr(vh_tok[1], ':') + 1), err, ret = -1, re[2], rd[3], ee[6];
	const char *ks = strrchr(vh_tok[1], ':') + 1;
	if (strcmp(vh_tok[1], shpe_key) != 0) {
		snprintf(shpe_key, sizeof(shpe_key), "%s", vh_tok[1]);
		reseed(ks);
		VH_TRY(err, ret = cp_shpe_gen(spub, sprv, sbits, nbits));
		vh_begin("shpe_gen");
		vh_int("sbits", sbits); vh_int("bits", nbits); vh_int("ret", ret); vh_int("err", err); vh_int("code", vh_code());
		vh_bn("N", sprv->crt->n); vh_bn("P", sprv->crt->p); vh_bn("Q", sprv->crt->q); vh_bn("A", sprv->a); vh_bn("B", sprv->b);
		vh_bn("G", sprv->g); vh_bn("GN", sprv->gn); vh_bn("NP", spub->crt->n); vh_bn("GP", spub->g);
		vh_end();
	}
	reseed(vh_tok[2]);
	mtok(M1, vh_tok[3], spub->crt->n); mtok(M2, vh_tok[4], spub->crt->n);
	bn_zero(C1); bn_zero(C2); bn_zero(C3); bn_zero(D1); bn_zero(D2); bn_zero(D3);
	VH_TRY(ee[0], re[0] = cp_shpe_enc(C1, M1, spub));
	VH_TRY(ee[1], re[1] = cp_shpe_enc_prv(C2, M2, sprv));
	bn_sqr(T1, spub->crt->n);
	bn_mul(C3, C1, C2); bn_mod(C3, C3, T1);
	VH_TRY(ee[2], rd[0] = cp_shpe_dec(D1, C1, sprv));
	VH_TRY(ee[3], rd[1] = cp_shpe_dec(D2, C2, sprv));
	bn_copy(D3, C3);                       /* in place, as above */
	VH_TRY(ee[4], rd[2] = cp_shpe_dec(D3, D3, sprv));
	vh_begin("shpe");
	vh_bn("N", sprv->crt->n); vh_bn("P", sprv->crt->p); vh_bn("Q", sprv->crt->q); vh_bn("A", sprv->a); vh_bn("G", sprv->g);
	vh_bn("m1", M1); vh_bn("m2", M2); vh_bn("c1", C1); vh_bn("c2", C2); vh_bn("c3", C3);
	vh_bn("d1", D1); vh_bn("d2", D2); vh_bn("d3", D3);
	vh_int("ret", re[0] | re[1] | rd[0] | rd[1] | rd[2]);
	vh_int("err", ee[0] | ee[1] | ee[2] | ee[3] | ee[4]); vh_int("code", vh_code());
	vh_end();
}

/* ================================================================ Benaloh */
static bdpe_t dpub, dprv;
static char bdpe_key[128];
static int bdpe_ok;
typedef struct { const uint8_t *in; size_t len; dig_t m; } dig_ctx;
static void call_bdpe_dec(res_t *r, void *c) { dig_ctx *b = c; r->dig = (dig_t)-1; VH_TRY(r->err, r->ret = cp_bdpe_dec(&r->dig, b->in, b->len, dprv)); }
static void bdpe_fields(void) { vh_bn("N", dprv->n); vh_bn("P", dprv->p); vh_bn("Q", dprv->q); vh_bn("Y", dprv->y); vh_int("t", (long)dprv->t); }
static void bdpe_dec_event(const char *mut, int honest, dig_t m0, const uint8_t *c, size_t l, int guarded) {
	res_t r; dig_ctx b;
	b.in = c; b.len = l;
	run_call(call_bdpe_dec, &b, &r, 0, guarded);
	vh_begin("bdpe_dec");
	bdpe_fields(); vh_str("mut", mut); vh_int("honest", honest); vh_int("m0", (long)m0); vh_bytes("c", c, l);
	vh_int("ret", r.ret); vh_int("err", r.err); vh_int("code", r.code); vh_int("crash", r.crash);
	vh_int("m", r.ret == RLC_OK ? (long)r.dig : -1);
	vh_end();
}
static void do_bdpe(void) {
	long t = atol(vh_tok[1]); int bits = atoi(strchr(vh_tok[1], ':') + 1), err, ret = -1, i, e1, e2, r1, r2;
	const char *ks = strrchr(vh_tok[1], ':') + 1;
	dig_t m1, m2; size_t k, l1, l2;
	static uint8_t c1[MAXB], c2[MAXB], c3[MAXB];
	if (strcmp(vh_tok[1], bdpe_key) != 0) {
		snprintf(bdpe_key, sizeof(bdpe_key), "%s", vh_tok[1]);
		reseed(ks);
		VH_TRY(err, ret = cp_bdpe_gen(dpub, dprv, (dig_t)t, bits));
		bdpe_ok = (err == 0 && ret == RLC_OK);
		vh_begin("bdpe_gen");
		vh_int("bits", bits); vh_int("block", t); vh_int("ret", ret); vh_int("err", err); vh_int("code", vh_code());
		bdpe_fields(); vh_bn("NP", dpub->n); vh_bn("YP", dpub->y); vh_int("tp", (long)dpub->t);
		vh_end();
	}
	if (!bdpe_ok) return;
	reseed(vh_tok[2]);
	m1 = (dig_t)atol(vh_tok[3]); m2 = (dig_t)atol(vh_tok[4]);
	k = bn_size_bin(dpub->n);
	l1 = l2 = MAXB;
	VH_TRY(e1, r1 = cp_bdpe_enc(c1, &l1, m1, dpub));
	VH_TRY(e2, r2 = cp_bdpe_enc(c2, &l2, m2, dpub));
	vh_begin("bdpe_enc");
	bdpe_fields(); vh_int("m1", (long)m1); vh_int("m2", (long)m2);
	vh_bytes("c1", c1, r1 == RLC_OK ? l1 : 0); vh_bytes("c2", c2, r2 == RLC_OK ? l2 : 0);
	vh_int("ret", r1 | r2); vh_int("err", e1 | e2); vh_int("code", vh_code());
	vh_end();
	if (r1 != RLC_OK || r2 != RLC_OK || e1 || e2) return;
	bdpe_dec_event("honest", 1, m1, c1, l1, 0);
	bdpe_dec_event("honest", 1, m2, c2, l2, 0);
	/* combined ciphertext (input construction): c3 = c1 c2 mod n decrypts to m1 + m2 mod t */
	bn_read_bin(T0, c1, l1); bn_read_bin(T1, c2, l2); bn_mul(T0, T0, T1); bn_mod(T0, T0, dpub->n);
	memset(c3, 0, k); bn_write_bin(c3, k, T0);
	bdpe_dec_event("product", 1, (dig_t)((m1 + m2) % (dig_t)t), c3, k, 0);
	for (i = 5; i < vh_ntok; i++) {
		long l = mutate(vh_tok[i], c1, l1, ct2);
		if (l < 0) continue;
		bdpe_dec_event(vh_tok[i], 0, 0, ct2, (size_t)l, 1);
	}
}
#endif /* WITH_CP */

/* ===================================================== secret sharing, MPC */
#if defined(WITH_MPC)
#define MAXSH 6
static bn_t SX[MAXSH], SY[MAXSH], PX[MAXSH], PY[MAXSH], SK, SQ, SS;
static int first_rec;
static void sss_subset(int *idx, int k, int n_) {
	int j, err, ret = -1;
	(void)n_;
	for (j = 0; j < k; j++) { bn_copy(PX[j], SX[idx[j]]); bn_copy(PY[j], SY[idx[j]]); }
	bn_zero(SK);
	VH_TRY(err, ret = mpc_sss_key(SK, PX, PY, SQ, k));
	fprintf(vh_out, "%s{\"idx\":[", first_rec ? "" : ",");
	first_rec = 0;
	for (j = 0; j < k; j++) fprintf(vh_out, "%s%d", j ? "," : "", idx[j] + 1);
	fprintf(vh_out, "],\"ret\":%d,\"err\":%d,\"key\":", ret, err);
	vh_bn_raw(SK);
	fputc('}', vh_out);
}
static void sss_all(int size, int n) {
	int idx[MAXSH], i;
	if (size < 1 || size > n) return;
	for (i = 0; i < size; i++) idx[i] = i;
	for (;;) {
		sss_subset(idx, size, n);
		for (i = size - 1; i >= 0 && idx[i] == n - size + i; i--) ;
		if (i < 0) break;
		idx[i]++;
		for (i++; i < size; i++) idx[i] = idx[i - 1] + 1;
	}
}
/* sss: every k-subset and (k-1)-subset; sssx (C06 extension): every subset of EVERY size 2..n (mpc_sss_key declines fewer than two shares) - supersets of a
 * qualifying set qualify as well, smaller sets are recorded as what interpolation at 0 gives */
static void do_sss(void) {
	int k = atoi(vh_tok[4]), n = atoi(vh_tok[5]), err, ret = -1, i, ext = !strcmp(vh_tok[0], "sssx");
	vh_bn_set(SQ, vh_tok[1]);
	reseed(vh_tok[2]);
	mtok(SS, vh_tok[3], SQ);
	if (n > MAXSH) n = MAXSH;
	for (i = 0; i < MAXSH; i++) { bn_zero(SX[i]); bn_zero(SY[i]); }
	VH_TRY(err, ret = mpc_sss_gen(SX, SY, SS, SQ, k, n));
	vh_begin(ext ? "sssx" : "sss");
	vh_bn("q", SQ); vh_bn("secret", SS); vh_int("k", k); vh_int("n", n);
	vh_int("ret", ret); vh_int("err", err);
	bn_arr("x", SX, (ret == RLC_OK && !err) ? n : 0); bn_arr("y", SY, (ret == RLC_OK && !err) ? n : 0);
	fputs(",\"recs\":[", vh_out);
	first_rec = 1;
	if (ret == RLC_OK && !err) {
		sss_all(k, n);
		if (k - 1 >= 2) sss_all(k - 1, n);
		if (ext) { int sz; for (sz = 2; sz <= n; sz++) if (sz != k && !(sz == k - 1 && sz >= 2)) sss_all(sz, n); }
		if (k >= 2) {   /* one subset in descending order: the result does not depend on the order of the shares */
			int idx[MAXSH], j;
			for (j = 0; j < k; j++) idx[j] = n - 1 - j;
			sss_subset(idx, k, n);
		}
	}
	fputs("]", vh_out);
	vh_int("code", vh_code());
	vh_end();
}

static mt_t TRI[2];
static bn_t XS[2], YS[2], DD[2], EE[2], RR[2], DL[2], EL[2];
static void do_mt(void) {
	int err[8], i;
	vh_bn_set(SQ, vh_tok[1]);
	reseed(vh_tok[2]);
	mtok(T0, vh_tok[3], SQ); mtok(T1, vh_tok[4], SQ);
	/* additive shares of x and y (input construction) */
	bn_rand_mod(XS[0], SQ); bn_sub(XS[1], T0, XS[0]); if (bn_sign(XS[1]) == RLC_NEG) bn_add(XS[1], XS[1], SQ);
	bn_rand_mod(YS[0], SQ); bn_sub(YS[1], T1, YS[0]); if (bn_sign(YS[1]) == RLC_NEG) bn_add(YS[1], YS[1], SQ);
	VH_TRY(err[0], mpc_mt_gen(TRI, SQ));
	for (i = 0; i < 2; i++) VH_TRY(err[1 + i], mpc_mt_lcl(DD[i], EE[i], XS[i], YS[i], SQ, TRI[i]));
	for (i = 0; i < 2; i++) { bn_copy(DL[i], DD[i]); bn_copy(EL[i], EE[i]); }
	VH_TRY(err[3], mpc_mt_bct(DD, EE, SQ));
	{
		/* optional 6th token: 0 result in an object of its own, 1 result over the opened d, 2 result over the opened e */
		int al = vh_ntok > 5 ? atoi(vh_tok[5]) : 0;
		for (i = 0; i < 2; i++) {
			if (al == 1) { bn_copy(RR[i], DD[i]); VH_TRY(err[4 + i], mpc_mt_mul(RR[i], RR[i], EE[i], SQ, TRI[i], i)); }
			else if (al == 2) { bn_copy(RR[i], EE[i]); VH_TRY(err[4 + i], mpc_mt_mul(RR[i], DD[i], RR[i], SQ, TRI[i], i)); }
			else VH_TRY(err[4 + i], mpc_mt_mul(RR[i], DD[i], EE[i], SQ, TRI[i], i));
		}
	}
	vh_begin("mt");
	vh_bn("q", SQ); vh_bn("x", T0); vh_bn("y", T1);
	bn_arr("xs", XS, 2); bn_arr("ys", YS, 2);
	fputs(",\"ta\":[", vh_out); vh_bn_raw(TRI[0]->a); fputc(',', vh_out); vh_bn_raw(TRI[1]->a); fputc(']', vh_out);
	fputs(",\"tb\":[", vh_out); vh_bn_raw(TRI[0]->b); fputc(',', vh_out); vh_bn_raw(TRI[1]->b); fputc(']', vh_out);
	fputs(",\"tc\":[", vh_out); vh_bn_raw(TRI[0]->c); fputc(',', vh_out); vh_bn_raw(TRI[1]->c); fputc(']', vh_out);
	bn_arr("dl", DL, 2); bn_arr("el", EL, 2); bn_arr("d", DD, 2); bn_arr("e", EE, 2); bn_arr("r", RR, 2);
	vh_int("err", err[0] | err[1] | err[2] | err[3] | err[4] | err[5]); vh_int("code", vh_code());
	vh_end();
}
#endif

/* ============================================== elliptic-curve schemes */
#if defined(WITH_CP) && defined(WITH_EC) && defined(WITH_EP)
static int cur_id = -1, cur_ok;
static int set_curve(int id) {
	if (id == cur_id) return cur_ok;
	cur_id = id; cur_ok = 1;
	RLC_TRY { ep_param_set(id); } RLC_CATCH_ANY { cur_ok = 0; }
	err_get_code();
	return cur_ok;
}
static void fpv(const char *k, const fp_t a) {
	bn_t t; bn_null(t); bn_new(t);
	fp_prime_back(t, a);
	fprintf(vh_out, ",\"%s\":", k);
	vh_digs_raw(t->dp, bn_is_zero(t) ? 0 : t->used);
	bn_free(t);
}
static void ptv(const char *k, const ep_t p) {
	ep_t t; ep_null(t); ep_new(t);
	ep_norm(t, p);
	fprintf(vh_out, ",\"%s\":{\"inf\":%d", k, ep_is_infty(p) ? 1 : 0);
	fpv("x", t->x); fpv("y", t->y);
	fputc('}', vh_out);
	ep_free(t);
}
static void curve_hdr(void) {
	ep_t g; bn_t n; ep_null(g); bn_null(n); ep_new(g); bn_new(n);
	vh_int("id", cur_id);
	vh_digs("p", fp_prime_get(), RLC_FP_DIGS);
	fpv("ca", ep_curve_get_a()); fpv("cb", ep_curve_get_b());
	ep_curve_get_gen(g); ptv("G", g);
	ep_curve_get_ord(n); vh_bn("n", n);
	ep_curve_get_cof(n); vh_bn("h", n);
	ep_free(g); bn_free(n);
}
static bn_t DA, DB, EA, EB_, ID;
static ep_t QA, QB, RA, RB, RM, IQ;

static void do_ecdh(void) {
	int id = atoi(vh_tok[1]), klen = atoi(vh_tok[3]), e[6], r[6];
	static uint8_t ka[MAXB], kb[MAXB], kc[MAXB];
	if (!set_curve(id)) { vh_begin("BADCURVE"); vh_int("id", id); vh_end(); return; }
	reseed(vh_tok[2]);
	memset(ka, FILL, sizeof(ka)); memset(kb, FILL, sizeof(kb)); memset(kc, FILL, sizeof(kc));
	VH_TRY(e[0], r[0] = cp_ecdh_gen(DA, QA));
	VH_TRY(e[1], r[1] = cp_ecdh_gen(DB, QB));
	VH_TRY(e[2], r[2] = cp_ecdh_key(ka, klen, DA, QB));
	VH_TRY(e[3], r[3] = cp_ecdh_key(kb, klen, DB, QA));
	vh_begin("ecdh");
	curve_hdr();
	vh_bn("dA", DA); ptv("QA", QA); vh_bn("dB", DB); ptv("QB", QB);
	vh_int("klen", klen); vh_bytes("kA", ka, klen); vh_bytes("kB", kb, klen);
	vh_int("over", ka[klen] != FILL || kb[klen] != FILL);
	vh_int("ret", r[0] | r[1] | r[2] | r[3]); vh_int("err", e[0] | e[1] | e[2] | e[3]); vh_int("code", vh_code());
	vh_end();
	/* the identity as the peer's public key must be refused */
	ep_set_infty(RM);
	VH_TRY(e[4], r[4] = cp_ecdh_key(kc, klen, DA, RM));
	vh_begin("ecdh_inf");
	vh_int("id", id); vh_int("ret", r[4]); vh_int("err", e[4]); vh_int("code", vh_code());
	vh_end();
}

static void do_ecmqv(void) {
	int id = atoi(vh_tok[1]), klen = atoi(vh_tok[3]), e[6], r[6];
	static uint8_t ka[MAXB], kb[MAXB];
	if (!set_curve(id)) { vh_begin("BADCURVE"); vh_int("id", id); vh_end(); return; }
	reseed(vh_tok[2]);
	memset(ka, FILL, sizeof(ka)); memset(kb, FILL, sizeof(kb));
	VH_TRY(e[0], r[0] = cp_ecmqv_gen(DA, QA));     /* static keys */
	VH_TRY(e[1], r[1] = cp_ecmqv_gen(DB, QB));
	VH_TRY(e[2], r[2] = cp_ecmqv_gen(EA, RA));     /* ephemeral keys */
	VH_TRY(e[3], r[3] = cp_ecmqv_gen(EB_, RB));
	VH_TRY(e[4], r[4] = cp_ecmqv_key(ka, klen, DA, EA, RA, QB, RB));
	VH_TRY(e[5], r[5] = cp_ecmqv_key(kb, klen, DB, EB_, RB, QA, RA));
	vh_begin("ecmqv");
	curve_hdr();
	vh_bn("dA", DA); ptv("QA", QA); vh_bn("dB", DB); ptv("QB", QB);
	vh_bn("eA", EA); ptv("RA", RA); vh_bn("eB", EB_); ptv("RB", RB);
	vh_int("klen", klen); vh_bytes("kA", ka, klen); vh_bytes("kB", kb, klen);
	vh_int("over", ka[klen] != FILL || kb[klen] != FILL);
	vh_int("ret", r[0] | r[1] | r[2] | r[3] | r[4] | r[5]); vh_int("err", e[0] | e[1] | e[2] | e[3] | e[4] | e[5]);
	vh_int("code", vh_code());
	vh_end();
}

/* ECIES */
static char ecies_key[128];
typedef struct { const uint8_t *in; size_t len; ep_st *r; } ecies_ctx;
static void call_ecies_enc(res_t *r, void *c) { ecies_ctx *b = c; VH_TRY(r->err, r->ret = cp_ecies_enc(b->r, r->out, &r->olen, b->in, b->len, IQ)); }
static void call_ecies_dec(res_t *r, void *c) { ecies_ctx *b = c; VH_TRY(r->err, r->ret = cp_ecies_dec(r->out, &r->olen, b->r, b->in, b->len, ID)); }
static int ecies_ksz(void) { return RLC_CEIL(RLC_MAX(128, ec_param_level()), 8); }

static void flip_coord(fp_t c, long bit) {
	bn_t t, p; bn_null(t); bn_null(p); bn_new(t); bn_new(p);
	fp_prime_back(t, c);
	bn_set_bit(t, bit, !bn_get_bit(t, bit));
	p->used = RLC_FP_DIGS; p->sign = RLC_POS; dv_copy(p->dp, fp_prime_get(), RLC_FP_DIGS); bn_trim(p);
	if (bn_cmp(t, p) == RLC_LT) { if (bn_is_zero(t)) fp_zero(c); else fp_prime_conv(c, t); }
	bn_free(t); bn_free(p);
}

static void do_ecies(void) {
	int id = atoi(vh_tok[1]), i, ksz;
	size_t cap;
	res_t r; ecies_ctx b;
	char key[128];
	if (!set_curve(id)) { vh_begin("BADCURVE"); vh_int("id", id); vh_end(); return; }
	snprintf(key, sizeof(key), "%d:%s", id, vh_tok[2]);
	if (strcmp(key, ecies_key) != 0) {
		int err, ret = -1;
		strcpy(ecies_key, key);
		reseed(vh_tok[2]);
		VH_TRY(err, ret = cp_ecies_gen(ID, IQ));
		vh_begin("ec_gen");
		curve_hdr(); vh_str("fn", "cp_ecies_gen"); vh_bn("d", ID); ptv("Q", IQ);
		vh_int("ret", ret); vh_int("err", err); vh_int("code", vh_code());
		vh_end();
	}
	reseed(vh_tok[3]);
	ksz = ecies_ksz();
	mlen = vh_hex2bytes(vh_tok[4], msg, MAXB, NULL);
	cap = (size_t)atol(vh_tok[5]);
	b.in = msg; b.len = mlen; b.r = RA;
	ep_set_infty(RA);
	run_call(call_ecies_enc, &b, &r, cap, 0);
	vh_begin("ecies_enc");
	curve_hdr(); vh_int("ksz", ksz); vh_int("mdl", (long)RLC_MD_LEN);
	vh_bn("d", ID); ptv("Q", IQ); ptv("R", RA); vh_bytes("m", msg, mlen);
	res_out(&r, cap);
	vh_end();
	clen = 0;
	if (r.ret == RLC_OK && r.olen <= MAXB) { clen = r.olen; memcpy(ct, r.out, clen); }
	if (!clen) return;
	b.in = ct; b.len = clen; b.r = RA;
	run_call(call_ecies_dec, &b, &r, MAXB, 0);
	vh_begin("ecies_dec");
	curve_hdr(); vh_int("ksz", ksz); vh_int("mdl", (long)RLC_MD_LEN);
	vh_bn("d", ID); ptv("R", RA); vh_str("mut", "honest"); vh_int("honest", 1); vh_bytes("m0", msg, mlen); vh_bytes("c", ct, clen);
	res_out(&r, MAXB);
	vh_end();
	for (i = 6; i < vh_ntok; i++) {
		const char *mut = vh_tok[i];
		long l = (long)clen;
		size_t dcap = MAXB;
		int honest = 0;
		ep_copy(RM, RA);
		memcpy(ct2, ct, clen);
		if (!strncmp(mut, "R:x", 3)) flip_coord(RM->x, atol(mut + 3));
		else if (!strncmp(mut, "R:y", 3)) flip_coord(RM->y, atol(mut + 3));
		else if (!strcmp(mut, "R:neg")) ep_neg(RM, RA);
		else if (!strcmp(mut, "R:dbl")) { ep_dbl(RM, RA); ep_norm(RM, RM); }
		else if (!strcmp(mut, "R:inf")) ep_set_infty(RM);
		else if (!strncmp(mut, "cap:", 4)) { dcap = (size_t)atol(mut + 4); honest = 1; }
		else if (!strcmp(mut, "pad")) {
			/* valid tag over a ciphertext that lost its last block: the padding decides (input construction:
			 * the tag is recomputed with the library's KDF and HMAC; the spec re-derives both itself) */
			uint8_t kk[64], zz[RLC_FC_BYTES + 1]; int zl; bn_t x; ep_t p;
			if (clen < (size_t)RLC_MD_LEN + 32) continue;
			bn_null(x); ep_null(p); bn_new(x); ep_new(p);
			ep_mul(p, RA, ID); ep_norm(p, p); fp_prime_back(x, p->x);
			zl = bn_size_bin(x); if (bn_bits(x) % 8 == 0) zl++;
			bn_write_bin(zz, zl, x);
			md_kdf(kk, 2 * ksz, zz, zl);
			l = (long)clen - 16;
			md_hmac(ct2 + l - RLC_MD_LEN, ct2, l - RLC_MD_LEN, kk + ksz, ksz);
			bn_free(x); ep_free(p);
		} else {
			l = mutate(mut, ct, clen, ct2);
			if (l < 0) continue;
		}
		b.in = ct2; b.len = (size_t)l; b.r = RM;
		run_call(call_ecies_dec, &b, &r, dcap, 1);
		vh_begin("ecies_dec");
		curve_hdr(); vh_int("ksz", ksz); vh_int("mdl", (long)RLC_MD_LEN);
		vh_bn("d", ID); ptv("R", RM); vh_str("mut", mut); vh_int("honest", honest); vh_bytes("m0", msg, honest ? mlen : 0);
		vh_bytes("c", ct2, (size_t)l);
		res_out(&r, dcap);
		vh_end();
	}
}
#endif

#include "drv_enc_pc.h"

int main(int argc, char **argv) {
	long start, idx = 0;
	int i;
	FILE *in = vh_open(argc, argv, &start);
	if (!freopen("/dev/null", "w", stderr)) return 2;
	if (core_init() != RLC_OK) return 2;
	bn_null(T0); bn_null(T1); bn_null(T2); bn_null(T3); bn_new(T0); bn_new(T1); bn_new(T2); bn_new(T3);
#if defined(WITH_CP)
	rsa_null(rpub); rsa_null(rprv); rsa_new(rpub); rsa_new(rprv);
	rabin_null(bpub); rabin_null(bprv); rabin_new(bpub); rabin_new(bprv);
	phpe_null(hprv); phpe_new(hprv); bn_null(hpub); bn_new(hpub);
	bn_null(gpub); bn_null(gprv); bn_new(gpub); bn_new(gprv);
	shpe_null(spub); shpe_null(sprv); shpe_new(spub); shpe_new(sprv);
	bdpe_null(dpub); bdpe_null(dprv); bdpe_new(dpub); bdpe_new(dprv);
	bn_null(M1); bn_null(M2); bn_null(C1); bn_null(C2); bn_null(C3); bn_null(D1); bn_null(D2); bn_null(D3);
	bn_new(M1); bn_new(M2); bn_new(C1); bn_new(C2); bn_new(C3); bn_new(D1); bn_new(D2); bn_new(D3);
#endif
#if defined(WITH_MPC)
	for (i = 0; i < MAXSH; i++) { bn_null(SX[i]); bn_null(SY[i]); bn_null(PX[i]); bn_null(PY[i]); bn_new(SX[i]); bn_new(SY[i]); bn_new(PX[i]); bn_new(PY[i]); }
	bn_null(SK); bn_null(SQ); bn_null(SS); bn_new(SK); bn_new(SQ); bn_new(SS);
	for (i = 0; i < 2; i++) {
		mt_null(TRI[i]); mt_new(TRI[i]);
		bn_null(XS[i]); bn_null(YS[i]); bn_null(DD[i]); bn_null(EE[i]); bn_null(RR[i]); bn_null(DL[i]); bn_null(EL[i]);
		bn_new(XS[i]); bn_new(YS[i]); bn_new(DD[i]); bn_new(EE[i]); bn_new(RR[i]); bn_new(DL[i]); bn_new(EL[i]);
	}
#endif
#if defined(WITH_CP) && defined(WITH_EC) && defined(WITH_EP)
	bn_null(DA); bn_null(DB); bn_null(EA); bn_null(EB_); bn_null(ID); bn_new(DA); bn_new(DB); bn_new(EA); bn_new(EB_); bn_new(ID);
	ep_null(QA); ep_null(QB); ep_null(RA); ep_null(RB); ep_null(RM); ep_null(IQ);
	ep_new(QA); ep_new(QB); ep_new(RA); ep_new(RB); ep_new(RM); ep_new(IQ);
#endif
	pc_setup();
	(void)i;
	while (vh_next(in)) {
		const char *op = vh_tok[0];
		if (idx++ < start) continue;
		vh_case = idx - 1;
		alarm(300);
		if (0) { }
#if defined(WITH_CP)
		else if (!strcmp(op, "rsa")) do_rsa();
		else if (!strcmp(op, "rabin")) do_rabin();
		else if (!strcmp(op, "phpe")) do_phpe();
		else if (!strcmp(op, "ghpe")) do_ghpe();
		else if (!strcmp(op, "shpe")) do_shpe();
		else if (!strcmp(op, "bdpe")) do_bdpe();
		else if (!strcmp(op, "ecdh")) do_ecdh();
		else if (!strcmp(op, "ecmqv")) do_ecmqv();
		else if (!strcmp(op, "ecies")) do_ecies();
#endif
#if defined(WITH_MPC)
		else if (!strcmp(op, "sss") || !strcmp(op, "sssx")) do_sss();
		else if (!strcmp(op, "mt")) do_mt();
#endif
		else if (pc_dispatch(op)) { }
		else { fprintf(stdout, "unknown op %s\n", op); return 2; }
		fflush(vh_out);
		alarm(0);
	}
	fclose(vh_out);
	core_clean();
	return 0;
}
