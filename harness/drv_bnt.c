/*
 * drv_bnt.c - conformance driver for the modular / number-theoretic integer
 * functions and the scalar recodings (C09).  Same family as drv_bn.c.
 * Case line:  <op> <args...>      (see run_case)
 * Event:      {"op","i","w","digs","cap","bnmod", inputs..., outputs..., "err","code","unch"}
 *   inputs are read back from the objects before the call (raw projection),
 *   outputs after the call; digit arrays of recodings are JSON int arrays.
 * Recoding buffers live in front of an inaccessible guard page and are filled
 * with a sentinel, so a write beyond the capacity passed in *len is observed
 * ("ovf") and a runaway write faults at once.
 */
#include "vh.h"
#include <sys/mman.h>

#define MAXN 32
static bn_t A, B, M, U, C, D, E, F, A0, B0, M0;
static bn_t AS[MAXN], CS[MAXN + 1], AS0[MAXN];

/* -------------------------------------------------------------- abnormal ends */
static const char *cur_op = "-";
static volatile long cur_kb = -1, cur_w = -1;
static void bnt_fatal(int sig) {
	char buf[200];
	int n;
	/* complete events were flushed before this case started; the partial one is dropped */
	n = snprintf(buf, sizeof(buf), "{\"op\":\"%s\",\"i\":%ld,\"sig\":%d,\"in\":\"%s\",\"kb\":%ld,\"rw\":%ld}\n",
			sig == SIGALRM ? "TIMEOUT" : "CRASH", (long)vh_case, sig, cur_op, (long)cur_kb, (long)cur_w);
	if (vh_outfd >= 0) { if (write(vh_outfd, buf, n) < 0) {} }
	_exit(sig == SIGALRM ? 3 : 4);
}

/* -------------------------------------------------------------- helpers */
#if BN_MOD == MONTY
#define BNMOD "monty"
#elif BN_MOD == BARRT
#define BNMOD "barrt"
#elif BN_MOD == PMERS
#define BNMOD "pmers"
#else
#define BNMOD "basic"
#endif

static void hdr(const char *op, int al) {
	cur_op = op;
	vh_begin(op);
	vh_int("w", (long)sizeof(dig_t));
	vh_int("digs", (long)RLC_BN_DIGS);
	vh_int("cap", (long)RLC_BN_SIZE);
	vh_str("bnmod", BNMOD);
	vh_int("al", al);
}

static void fin(int err, int unch) {
	vh_int("err", err);
	vh_int("code", vh_code());
	vh_bool("unch", unch);
	vh_end();
}

static void bn_arr(const char *k, bn_t *v, int n) {
	int i;
	fprintf(vh_out, ",\"%s\":[", k);
	for (i = 0; i < n; i++) { if (i) fputc(',', vh_out); vh_bn_raw(v[i]); }
	fputc(']', vh_out);
}
static void bnst_arr(const char *k, const bn_st *v, int n) {
	int i;
	fprintf(vh_out, ",\"%s\":[", k);
	for (i = 0; i < n; i++) {
		if (i) fputc(',', vh_out);
		fprintf(vh_out, "{\"s\":%d,\"u\":%lu,\"d\":", v[i].sign == RLC_NEG ? 1 : 0, (unsigned long)v[i].used);
		vh_digs_raw(v[i].dp, v[i].used);
		fputc('}', vh_out);
	}
	fputc(']', vh_out);
}
static void i8_arr(const char *k, const int8_t *v, long n) {
	long i;
	fprintf(vh_out, ",\"%s\":[", k);
	for (i = 0; i < n; i++) { if (i) fputc(',', vh_out); fprintf(vh_out, "%d", (int)v[i]); }
	fputc(']', vh_out);
}
static void u8_arr(const char *k, const uint8_t *v, long n) {
	long i;
	fprintf(vh_out, ",\"%s\":[", k);
	for (i = 0; i < n; i++) { if (i) fputc(',', vh_out); fprintf(vh_out, "%u", (unsigned)v[i]); }
	fputc(']', vh_out);
}

static void seed_rng(void) {
	uint8_t s[64];
	int i;
	for (i = 0; i < 64; i++) s[i] = (uint8_t)(0xA5 ^ (i * 37) ^ (vh_case >> (8 * (i % 4))));
	rand_seed(s, sizeof(s));
}

/* recoding buffer: REC_SZ usable bytes followed by a PROT_NONE page */
#define REC_SZ 16384
#define SENT 0x55
static uint8_t *rec;
static void rec_init(void) {
	long pg = sysconf(_SC_PAGESIZE);
	uint8_t *p = mmap(NULL, REC_SZ + pg, PROT_READ | PROT_WRITE, MAP_PRIVATE | MAP_ANONYMOUS, -1, 0);
	if (p == MAP_FAILED) { perror("mmap"); exit(2); }
	mprotect(p + REC_SZ, pg, PROT_NONE);
	rec = p;
}
static void rec_fill(void) { memset(rec, SENT, REC_SZ); }
/* any byte in [from, REC_SZ) modified? */
static int rec_ovf(long from) {
	long i;
	if (from < 0) from = 0;
	for (i = from; i < REC_SZ; i++) if (rec[i] != SENT) return 1;
	return 0;
}

/* -------------------------------------------------------------- reductions */
/* which: 0 basic, 1 barrt, 2 monty_basic, 3 monty_comba, 4 pmers, 5 monty_conv, 6 monty_back */
static void do_mod(const char *op, int which, int al) {
	int err = 0, perr = 0, unch = 1;
	bn_st *pa = A, *pc = C;
	vh_bn_set(A, vh_tok[2]);
	vh_bn_set(M, vh_tok[3]);
	if (al == 1) pc = pa;
	bn_copy(A0, A); bn_copy(M0, M);
	bn_set_dig(C, 0x5a); bn_set_dig(U, 0x5b);
	hdr(op, al);
	vh_bn("a", pa); vh_bn("m", M);
	switch (which) {
		case 1: VH_TRY(perr, bn_mod_pre_barrt(U, M)); break;
		case 2: case 3: VH_TRY(perr, bn_mod_pre_monty(U, M)); break;
		case 4: VH_TRY(perr, bn_mod_pre_pmers(U, M)); break;
		default: break;
	}
	vh_int("perr", perr);
	if (perr) (void)vh_code();
	vh_bn("u", U);
	if (!perr) {
		switch (which) {
			case 0: VH_TRY(err, bn_mod_basic(pc, pa, M)); break;
			case 1: VH_TRY(err, bn_mod_barrt(pc, pa, M, U)); break;
			case 2: VH_TRY(err, bn_mod_monty_basic(pc, pa, M, U)); break;
			case 3: VH_TRY(err, bn_mod_monty_comba(pc, pa, M, U)); break;
			case 4: VH_TRY(err, bn_mod_pmers(pc, pa, M, U)); break;
			case 5: VH_TRY(err, bn_mod_monty_conv(pc, pa, M)); break;
			case 6: VH_TRY(err, bn_mod_monty_back(pc, pa, M)); break;
		}
	}
	vh_bn("c", pc);
	if (pc != pa) unch &= vh_bn_same(A, A0);
	unch &= vh_bn_same(M, M0);
	fin(err, unch);
}

/* -------------------------------------------------------------- exponentiation */
/* which: 0 basic, 1 slide, 2 monty */
static void do_mxp(const char *op, int which, int al) {
	int err = 0, unch = 1;
	bn_st *pa = A, *pc = C;
	vh_bn_set(A, vh_tok[2]);
	vh_bn_set(B, vh_tok[3]);
	vh_bn_set(M, vh_tok[4]);
	if (al == 1) pc = pa;
	bn_copy(A0, A); bn_copy(B0, B); bn_copy(M0, M);
	bn_set_dig(C, 0x5a);
	hdr(op, al);
	vh_bn("a", pa); vh_bn("b", B); vh_bn("m", M);
	switch (which) {
		case 0: VH_TRY(err, bn_mxp_basic(pc, pa, B, M)); break;
		case 1: VH_TRY(err, bn_mxp_slide(pc, pa, B, M)); break;
		case 2: VH_TRY(err, bn_mxp_monty(pc, pa, B, M)); break;
	}
	vh_bn("c", pc);
	if (pc != pa) unch &= vh_bn_same(A, A0);
	unch &= vh_bn_same(B, B0) && vh_bn_same(M, M0);
	fin(err, unch);
}

static void do_mxp_dig(const char *op) {
	int err = 0, unch = 1;
	dig_t d = vh_dig_tok(vh_tok[3]);
	vh_bn_set(A, vh_tok[2]);
	vh_bn_set(M, vh_tok[4]);
	bn_copy(A0, A); bn_copy(M0, M);
	bn_set_dig(C, 0x5a);
	hdr(op, 0);
	vh_bn("a", A); vh_dig("dg", d); vh_bn("m", M);
	VH_TRY(err, bn_mxp_dig(C, A, d, M));
	vh_bn("c", C);
	unch &= vh_bn_same(A, A0) && vh_bn_same(M, M0);
	fin(err, unch);
}

/* bn_mxp_sim a b d e m */
static void do_mxp_sim(const char *op) {
	int err = 0, unch = 1;
	vh_bn_set(A, vh_tok[2]); vh_bn_set(B, vh_tok[3]);
	vh_bn_set(D, vh_tok[4]); vh_bn_set(E, vh_tok[5]);
	vh_bn_set(M, vh_tok[6]);
	bn_copy(A0, A); bn_copy(B0, B); bn_copy(M0, M);
	bn_set_dig(C, 0x5a);
	hdr(op, 0);
	vh_bn("a", A); vh_bn("b", B); vh_bn("d", D); vh_bn("e", E); vh_bn("m", M);
	VH_TRY(err, bn_mxp_sim(C, A, B, D, E, M));
	vh_bn("c", C);
	unch &= vh_bn_same(A, A0) && vh_bn_same(B, B0) && vh_bn_same(M, M0);
	fin(err, unch);
}

/* bn_mxp_sim_lot n m a0 b0 a1 b1 ...   (c = prod a_i^b_i mod m) */
static void do_mxp_sim_lot(const char *op) {
	static bn_t BS[MAXN];
	static int init = 0;
	int err = 0, unch = 1, i, n = atoi(vh_tok[2]);
	if (n > MAXN) n = MAXN;
	if (!init) { for (i = 0; i < MAXN; i++) { bn_null(BS[i]); bn_new(BS[i]); } init = 1; }
	vh_bn_set(M, vh_tok[3]);
	for (i = 0; i < n; i++) { vh_bn_set(AS[i], vh_tok[4 + 2 * i]); bn_copy(AS0[i], AS[i]); vh_bn_set(BS[i], vh_tok[5 + 2 * i]); }
	bn_copy(M0, M);
	bn_set_dig(C, 0x5a);
	hdr(op, 0);
	vh_int("n", n);
	bn_arr("as", AS, n); bn_arr("bs", BS, n); vh_bn("m", M);
	VH_TRY(err, bn_mxp_sim_lot(C, (const bn_t *)AS, (const bn_t *)BS, M, n));
	vh_bn("c", C);
	for (i = 0; i < n; i++) unch &= vh_bn_same(AS[i], AS0[i]);
	unch &= vh_bn_same(M, M0);
	fin(err, unch);
}

/* bn_mxp_crt a b c p q qi   (sqr = 0) */
static void do_mxp_crt(const char *op) {
	int err = 0;
	crt_t crt;
	crt_null(crt);
	crt_new(crt);
	vh_bn_set(A, vh_tok[2]); vh_bn_set(B, vh_tok[3]); vh_bn_set(E, vh_tok[4]);
	vh_bn_set(crt->p, vh_tok[5]); vh_bn_set(crt->q, vh_tok[6]); vh_bn_set(crt->qi, vh_tok[7]);
	bn_mul(crt->n, crt->p, crt->q);
	bn_set_dig(C, 0x5a);
	hdr(op, 0);
	vh_bn("a", A); vh_bn("b", B); vh_bn("e", E);
	vh_bn("p", crt->p); vh_bn("q", crt->q); vh_bn("qi", crt->qi);
	VH_TRY(err, bn_mxp_crt(C, A, B, E, crt, 0));
	vh_bn("c", C);
	fin(err, 1);
	crt_free(crt);
}

/* -------------------------------------------------------------- inverse */
static void do_inv(const char *op, int al) {
	int err = 0, unch = 1;
	bn_st *pa = A, *pc = C;
	vh_bn_set(A, vh_tok[2]);
	vh_bn_set(M, vh_tok[3]);
	if (al == 1) pc = pa;
	bn_copy(A0, A); bn_copy(M0, M);
	bn_set_dig(C, 0x5a);
	hdr(op, al);
	vh_bn("a", pa); vh_bn("m", M);
	VH_TRY(err, bn_mod_inv(pc, pa, M));
	vh_bn("c", pc);
	if (pc != pa) unch &= vh_bn_same(A, A0);
	unch &= vh_bn_same(M, M0);
	fin(err, unch);
}

/* bn_mod_inv_sim n m a1 .. an */
static void do_inv_sim(const char *op) {
	int err = 0, unch = 1, i, n = atoi(vh_tok[2]);
	if (n > MAXN) n = MAXN;
	vh_bn_set(M, vh_tok[3]);
	for (i = 0; i < n; i++) { vh_bn_set(AS[i], vh_tok[4 + i]); bn_copy(AS0[i], AS[i]); bn_set_dig(CS[i], 0x5a); }
	bn_copy(M0, M);
	hdr(op, 0);
	vh_int("n", n);
	bn_arr("as", AS, n); vh_bn("m", M);
	VH_TRY(err, bn_mod_inv_sim(CS, (const bn_t *)AS, M, n));
	bn_arr("cs", CS, n);
	for (i = 0; i < n; i++) unch &= vh_bn_same(AS[i], AS0[i]);
	unch &= vh_bn_same(M, M0);
	fin(err, unch);
}

/* -------------------------------------------------------------- gcd */
/* which: 0 basic, 1 lehme, 2 binar; al: 0 none, 1 c==a, 2 c==b */
static void do_gcd(const char *op, int which, int al) {
	int err = 0, unch = 1;
	bn_st *pa = A, *pb = B, *pc = C;
	vh_bn_set(A, vh_tok[2]);
	vh_bn_set(B, vh_tok[3]);
	if (al == 1) pc = pa;
	if (al == 2) pc = pb;
	bn_copy(A0, A); bn_copy(B0, B);
	bn_set_dig(C, 0x5a);
	hdr(op, al);
	vh_bn("a", pa); vh_bn("b", pb);
	switch (which) {
		case 0: VH_TRY(err, bn_gcd_basic(pc, pa, pb)); break;
		case 1: VH_TRY(err, bn_gcd_lehme(pc, pa, pb)); break;
		case 2: VH_TRY(err, bn_gcd_binar(pc, pa, pb)); break;
		case 3: VH_TRY(err, bn_lcm(pc, pa, pb)); break;
	}
	vh_bn("c", pc);
	if (pc != pa) unch &= vh_bn_same(A, A0);
	if (pc != pb) unch &= vh_bn_same(B, B0);
	fin(err, unch);
}

static void do_gcd_dig(const char *op) {
	int err = 0;
	dig_t d = vh_dig_tok(vh_tok[3]);
	vh_bn_set(A, vh_tok[2]);
	bn_copy(A0, A);
	bn_set_dig(C, 0x5a);
	hdr(op, 0);
	vh_bn("a", A); vh_dig("dg", d);
	VH_TRY(err, bn_gcd_dig(C, A, d));
	vh_bn("c", C);
	fin(err, vh_bn_same(A, A0));
}

/* which: 0 basic, 1 lehme, 2 binar, 3 dig (b is a digit), 4 mid */
static void do_gcd_ext(const char *op, int which) {
	int err = 0, unch = 1;
	dig_t dg = 0;
	vh_bn_set(A, vh_tok[2]);
	if (which == 3) dg = vh_dig_tok(vh_tok[3]); else vh_bn_set(B, vh_tok[3]);
	bn_copy(A0, A); bn_copy(B0, B);
	bn_set_dig(C, 0x5a); bn_set_dig(D, 0x5b); bn_set_dig(E, 0x5c); bn_set_dig(F, 0x5d);
	hdr(op, 0);
	vh_bn("a", A);
	if (which == 3) vh_dig("dg", dg); else vh_bn("b", B);
	switch (which) {
		case 0: VH_TRY(err, bn_gcd_ext_basic(C, D, E, A, B)); break;
		case 1: VH_TRY(err, bn_gcd_ext_lehme(C, D, E, A, B)); break;
		case 2: VH_TRY(err, bn_gcd_ext_binar(C, D, E, A, B)); break;
		case 3: VH_TRY(err, bn_gcd_ext_dig(C, D, E, A, dg)); break;
		case 4: VH_TRY(err, bn_gcd_ext_mid(C, D, E, F, A, B)); break;
	}
	vh_bn("c", C); vh_bn("d", D); vh_bn("e", E);
	if (which == 4) vh_bn("f", F);
	unch &= vh_bn_same(A, A0);
	if (which != 3) unch &= vh_bn_same(B, B0);
	fin(err, unch);
}

/* -------------------------------------------------------------- symbols, sqrt, primes */
/* which: 0 leg, 1 jac, 2 is_prime, 3 basic, 4 rabin, 5 solov, 6 is_factor(c=a, a=b) */
static void do_pred(const char *op, int which) {
	int err = 0, unch = 1;
	volatile long ret = -99;
	vh_bn_set(A, vh_tok[2]);
	bn_copy(A0, A);
	if (which < 2 || which == 6) { vh_bn_set(B, vh_tok[3]); bn_copy(B0, B); }
	if (which == 5) seed_rng();
	hdr(op, 0);
	vh_bn("a", A);
	if (which < 2 || which == 6) vh_bn("b", B);
	switch (which) {
		case 0: VH_TRY(err, ret = bn_smb_leg(A, B)); break;
		case 1: VH_TRY(err, ret = bn_smb_jac(A, B)); break;
		case 2: VH_TRY(err, ret = bn_is_prime(A)); break;
		case 3: VH_TRY(err, ret = bn_is_prime_basic(A)); break;
		case 4: VH_TRY(err, ret = bn_is_prime_rabin(A)); break;
		case 5: VH_TRY(err, ret = bn_is_prime_solov(A)); break;
		case 6: VH_TRY(err, ret = bn_is_factor(A, B)); break;
	}
	vh_int("ret", ret);
	unch &= vh_bn_same(A, A0);
	if (which < 2 || which == 6) unch &= vh_bn_same(B, B0);
	fin(err, unch);
}

static void do_srt(const char *op, int al) {
	int err = 0, unch = 1;
	bn_st *pa = A, *pc = C;
	vh_bn_set(A, vh_tok[2]);
	if (al == 1) pc = pa;
	bn_copy(A0, A);
	bn_set_dig(C, 0x5a);
	hdr(op, al);
	vh_bn("a", pa);
	VH_TRY(err, bn_srt(pc, pa));
	vh_bn("c", pc);
	if (pc != pa) unch &= vh_bn_same(A, A0);
	fin(err, unch);
}

/* which: 0 basic, 1 safep, 2 stron */
static void do_gen(const char *op, int which) {
	int err = 0;
	long bits = atol(vh_tok[2]);
	seed_rng();
	bn_set_dig(C, 0x5a);
	hdr(op, 0);
	vh_int("bits", bits);
	alarm(120);
	switch (which) {
		case 0: VH_TRY(err, bn_gen_prime_basic(C, (size_t)bits)); break;
		case 1: VH_TRY(err, bn_gen_prime_safep(C, (size_t)bits)); break;
		case 2: VH_TRY(err, bn_gen_prime_stron(C, (size_t)bits)); break;
	}
	vh_bn("c", C);
	fin(err, 1);
}

static void do_factor(const char *op) {
	int err = 0;
	volatile long ret = -99;
	vh_bn_set(A, vh_tok[2]);
	bn_copy(A0, A);
	bn_set_dig(C, 0x5a);
	hdr(op, 0);
	vh_bn("a", A);
	alarm(120);
	VH_TRY(err, ret = bn_factor(C, A));
	vh_int("ret", ret);
	vh_bn("c", C);
	fin(err, vh_bn_same(A, A0));
}

/* -------------------------------------------------------------- polynomials */
/* bn_lag n b a0 .. a(n-1) */
static void do_lag(const char *op) {
	int err = 0, unch = 1, i, n = atoi(vh_tok[2]);
	if (n > MAXN) n = MAXN;
	vh_bn_set(M, vh_tok[3]);
	for (i = 0; i < n; i++) { vh_bn_set(AS[i], vh_tok[4 + i]); bn_copy(AS0[i], AS[i]); }
	for (i = 0; i <= n; i++) bn_set_dig(CS[i], 0x5a);
	bn_copy(M0, M);
	hdr(op, 0);
	vh_int("n", n);
	bn_arr("as", AS, n); vh_bn("m", M);
	VH_TRY(err, bn_lag(CS, (const bn_t *)AS, M, (size_t)n));
	bn_arr("cs", CS, n + 1);
	for (i = 0; i < n; i++) unch &= vh_bn_same(AS[i], AS0[i]);
	unch &= vh_bn_same(M, M0);
	fin(err, unch);
}

/* bn_evl n x b a0 .. a(n-1)     (n coefficients) */
static void do_evl(const char *op) {
	int err = 0, unch = 1, i, n = atoi(vh_tok[2]);
	if (n > MAXN) n = MAXN;
	vh_bn_set(A, vh_tok[3]);
	vh_bn_set(M, vh_tok[4]);
	for (i = 0; i < n; i++) { vh_bn_set(AS[i], vh_tok[5 + i]); bn_copy(AS0[i], AS[i]); }
	bn_copy(A0, A); bn_copy(M0, M);
	bn_set_dig(C, 0x5a);
	hdr(op, 0);
	vh_int("n", n);
	bn_arr("as", AS, n); vh_bn("x", A); vh_bn("m", M);
	VH_TRY(err, bn_evl(C, (const bn_t *)AS, A, M, (size_t)n));
	vh_bn("c", C);
	for (i = 0; i < n; i++) unch &= vh_bn_same(AS[i], AS0[i]);
	unch &= vh_bn_same(A, A0) && vh_bn_same(M, M0);
	fin(err, unch);
}

/* -------------------------------------------------------------- recodings */
/* bn_rec_win|slw|naf k w cap ; which: 0 win, 1 slw, 2 naf */
static void do_rec(const char *op, int which) {
	int err = 0;
	long w = atol(vh_tok[3]), cap = atol(vh_tok[4]);
	size_t len;
	vh_bn_set(A, vh_tok[2]);
	bn_copy(A0, A);
	if (cap > REC_SZ - 64) cap = REC_SZ - 64;
	len = (size_t)cap;
	rec_fill();
	cur_kb = (long)bn_bits(A); cur_w = w;
	hdr(op, 0);
	vh_bn("k", A); vh_int("rw", w); vh_int("rcap", cap);
	switch (which) {
		case 0: VH_TRY(err, bn_rec_win(rec, &len, A, (size_t)w)); break;
		case 1: VH_TRY(err, bn_rec_slw(rec, &len, A, (size_t)w)); break;
		case 2: VH_TRY(err, bn_rec_naf((int8_t *)rec, &len, A, (size_t)w)); break;
	}
	cur_kb = cur_w = -1;
	vh_int("len", (long)len);
	if ((long)len > cap) len = (size_t)cap;
	if (which == 2) i8_arr("ds", (int8_t *)rec, (long)len); else u8_arr("ds", rec, (long)len);
	vh_bool("ovf", rec_ovf(cap));
	fin(err, vh_bn_same(A, A0));
}

/* bn_rec_reg k n w cap */
static void do_rec_reg(const char *op) {
	int err = 0;
	long n = atol(vh_tok[3]), w = atol(vh_tok[4]), cap = atol(vh_tok[5]);
	size_t len;
	vh_bn_set(A, vh_tok[2]);
	bn_copy(A0, A);
	if (cap > REC_SZ - 64) cap = REC_SZ - 64;
	len = (size_t)cap;
	rec_fill();
	cur_kb = (long)bn_bits(A); cur_w = w;
	hdr(op, 0);
	vh_bn("k", A); vh_int("n", n); vh_int("rw", w); vh_int("rcap", cap);
	VH_TRY(err, bn_rec_reg((int8_t *)rec, &len, A, (size_t)n, (size_t)w));
	cur_kb = cur_w = -1;
	vh_int("len", (long)len);
	if ((long)len > cap) len = (size_t)cap;
	i8_arr("ds", (int8_t *)rec, (long)len);
	vh_bool("ovf", rec_ovf(cap));
	fin(err, vh_bn_same(A, A0));
}

/* bn_rec_jsf k l cap */
static void do_rec_jsf(const char *op) {
	int err = 0;
	long cap = atol(vh_tok[4]), off, n;
	size_t len;
	vh_bn_set(A, vh_tok[2]);
	vh_bn_set(B, vh_tok[3]);
	bn_copy(A0, A); bn_copy(B0, B);
	if (cap > REC_SZ - 64) cap = REC_SZ - 64;
	len = (size_t)cap;
	rec_fill();
	cur_kb = (long)bn_bits(A); cur_w = (long)bn_bits(B);
	/* the layout contract used by every caller: second row starts at max(bits) + 1 */
	off = (long)RLC_MAX(bn_bits(A), bn_bits(B)) + 1;
	hdr(op, 0);
	vh_bn("k", A); vh_bn("l", B); vh_int("rcap", cap); vh_int("off", off);
	VH_TRY(err, bn_rec_jsf((int8_t *)rec, &len, A, B));
	cur_kb = cur_w = -1;
	vh_int("len", (long)len);
	n = (long)len;
	if (n > off) n = off;
	if (off + n > REC_SZ) n = 0;
	i8_arr("ds", (int8_t *)rec, n);
	i8_arr("es", (int8_t *)rec + off, n);
	vh_bool("ovf", rec_ovf(cap));
	fin(err, vh_bn_same(A, A0) && vh_bn_same(B, B0));
}

#if defined(WITH_EP)
/* bn_rec_glv <curve id> k lambda : basis and group order are the library's own */
static void do_rec_glv(const char *op) {
	int err = 0, perr = 0, id = -1;
#if FP_PRIME == 256
	if (strcmp(vh_tok[2], "SECG_K256") == 0) id = SECG_K256;
	if (strcmp(vh_tok[2], "BN_P256") == 0) id = BN_P256;
#endif
	if (id < 0) perr = 1; else VH_TRY(perr, ep_param_set(id));
	if (perr || !ep_curve_is_endom()) {
		(void)vh_code();
		hdr(op, 0); vh_int("skip", 1); fin(0, 1);
		return;
	}
	vh_bn_set(A, vh_tok[3]);
	vh_bn_set(B, vh_tok[4]);
	ep_curve_get_ord(M);
	bn_copy(A0, A);
	bn_set_dig(C, 0x5a); bn_set_dig(D, 0x5b);
	hdr(op, 0);
	vh_int("skip", 0);
	vh_int("curve", id);
	vh_bn("k", A); vh_bn("lam", B); vh_bn("n", M);
	bnst_arr("v1", ep_curve_get_v1(), 3);
	bnst_arr("v2", ep_curve_get_v2(), 3);
	VH_TRY(err, bn_rec_glv(C, D, A, M, ep_curve_get_v1(), ep_curve_get_v2()));
	vh_bn("c", C); vh_bn("d", D);
	fin(err, vh_bn_same(A, A0));
}
#endif

/* bn_rec_frb <al> k x n sub cof : decomposition of k in the Frobenius basis (cof = 0: signed base-x digits;
 * cof = 1: the Barreto-Naehrig lattice, n = n(x), eigenvalue 6x^2) */
static void do_rec_frb(const char *op) {
	int err = 0, i, sub = atoi(vh_tok[5]), cof = atoi(vh_tok[6]);
	bn_t ki[4];
	if (sub < 1 || sub > 4) { fprintf(stderr, "bad sub\n"); exit(2); }
	for (i = 0; i < 4; i++) { bn_null(ki[i]); bn_new(ki[i]); bn_set_dig(ki[i], 0x5a + i); }
	vh_bn_set(A, vh_tok[2]); vh_bn_set(B, vh_tok[3]); vh_bn_set(M, vh_tok[4]);
	bn_copy(A0, A); bn_copy(B0, B);
	hdr(op, 0);
	vh_int("sub", sub); vh_int("cof", cof);
	vh_bn("k", A); vh_bn("x", B); vh_bn("n", M);
	VH_TRY(err, bn_rec_frb(ki, sub, A, B, M, cof));
	fputs(",\"ki\":[", vh_out);
	for (i = 0; i < sub; i++) { if (i) fputc(',', vh_out); vh_bn_raw(ki[i]); }
	fputc(']', vh_out);
	fin(err, vh_bn_same(A, A0) && vh_bn_same(B, B0));
	for (i = 0; i < 4; i++) bn_free(ki[i]);
}

static int run_case(void) {
	const char *op = vh_tok[0];
	int al = vh_ntok > 1 ? atoi(vh_tok[1]) : 0;
#define OP(n) (strcmp(op, n) == 0)
	if (OP("bn_mod_basic")) do_mod(op, 0, al);
	else if (OP("bn_mod_barrt")) do_mod(op, 1, al);
	else if (OP("bn_mod_monty_basic")) do_mod(op, 2, al);
	else if (OP("bn_mod_monty_comba")) do_mod(op, 3, al);
	else if (OP("bn_mod_pmers")) do_mod(op, 4, al);
	else if (OP("bn_mod_monty_conv")) do_mod(op, 5, al);
	else if (OP("bn_mod_monty_back")) do_mod(op, 6, al);
	else if (OP("bn_mxp_basic")) do_mxp(op, 0, al);
	else if (OP("bn_mxp_slide")) do_mxp(op, 1, al);
	else if (OP("bn_mxp_monty")) do_mxp(op, 2, al);
	else if (OP("bn_mxp_dig")) do_mxp_dig(op);
	else if (OP("bn_mxp_sim")) do_mxp_sim(op);
	else if (OP("bn_mxp_sim_lot")) do_mxp_sim_lot(op);
	else if (OP("bn_mxp_crt")) do_mxp_crt(op);
	else if (OP("bn_mod_inv")) do_inv(op, al);
	else if (OP("bn_mod_inv_sim")) do_inv_sim(op);
	else if (OP("bn_gcd_basic")) do_gcd(op, 0, al);
	else if (OP("bn_gcd_lehme")) do_gcd(op, 1, al);
	else if (OP("bn_gcd_binar")) do_gcd(op, 2, al);
	else if (OP("bn_lcm")) do_gcd(op, 3, al);
	else if (OP("bn_gcd_dig")) do_gcd_dig(op);
	else if (OP("bn_gcd_ext_basic")) do_gcd_ext(op, 0);
	else if (OP("bn_gcd_ext_lehme")) do_gcd_ext(op, 1);
	else if (OP("bn_gcd_ext_binar")) do_gcd_ext(op, 2);
	else if (OP("bn_gcd_ext_dig")) do_gcd_ext(op, 3);
	else if (OP("bn_gcd_ext_mid")) do_gcd_ext(op, 4);
	else if (OP("bn_smb_leg")) do_pred(op, 0);
	else if (OP("bn_smb_jac")) do_pred(op, 1);
	else if (OP("bn_is_prime")) do_pred(op, 2);
	else if (OP("bn_is_prime_basic")) do_pred(op, 3);
	else if (OP("bn_is_prime_rabin")) do_pred(op, 4);
	else if (OP("bn_is_prime_solov")) do_pred(op, 5);
	else if (OP("bn_is_factor")) do_pred(op, 6);
	else if (OP("bn_srt")) do_srt(op, al);
	else if (OP("bn_gen_prime_basic")) do_gen(op, 0);
	else if (OP("bn_gen_prime_safep")) do_gen(op, 1);
	else if (OP("bn_gen_prime_stron")) do_gen(op, 2);
	else if (OP("bn_factor")) do_factor(op);
	else if (OP("bn_lag")) do_lag(op);
	else if (OP("bn_evl")) do_evl(op);
	else if (OP("bn_rec_win")) do_rec(op, 0);
	else if (OP("bn_rec_slw")) do_rec(op, 1);
	else if (OP("bn_rec_naf")) do_rec(op, 2);
	else if (OP("bn_rec_reg")) do_rec_reg(op);
	else if (OP("bn_rec_jsf")) do_rec_jsf(op);
#if defined(WITH_EP)
	else if (OP("bn_rec_glv")) do_rec_glv(op);
#endif
	else if (OP("bn_rec_frb")) do_rec_frb(op);
	else return 0;
	return 1;
}

int main(int argc, char **argv) {
	long start, idx = 0;
	int i;
	FILE *in = vh_open(argc, argv, &start);
	signal(SIGSEGV, bnt_fatal); signal(SIGBUS, bnt_fatal); signal(SIGFPE, bnt_fatal);
	signal(SIGABRT, bnt_fatal); signal(SIGILL, bnt_fatal); signal(SIGALRM, bnt_fatal);
	if (core_init() != RLC_OK) return 2;
	rec_init();
	bn_new(A); bn_new(B); bn_new(M); bn_new(U); bn_new(C); bn_new(D); bn_new(E); bn_new(F);
	bn_new(A0); bn_new(B0); bn_new(M0);
	for (i = 0; i < MAXN; i++) { bn_new(AS[i]); bn_new(AS0[i]); }
	for (i = 0; i <= MAXN; i++) bn_new(CS[i]);
	while (vh_next(in)) {
		if (idx++ < start) continue;
		vh_case = idx - 1;
		cur_op = vh_tok[0];
		fflush(vh_out);
		alarm(30);
		if (!run_case()) { fprintf(stderr, "unknown op %s\n", vh_tok[0]); return 2; }
		alarm(0);
	}
	fclose(vh_out);
	core_clean();
	return 0;
}
