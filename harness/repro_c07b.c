/* repro for the two C07 findings in the binary-field / binary-curve codecs (pinned build, NIST-B283 / NIST-K283) */
#include <relic.h>
#include <stdio.h>
#include <string.h>

static void hex(const char *k, const uint8_t *b, size_t n) { printf("%s=", k); for (size_t i = 0; i < n; i++) printf("%02x", b[i]); printf("\n"); }

int main(void) {
	uint8_t buf[2 * RLC_FB_BYTES + 1], out[2 * RLC_FB_BYTES + 1];
	fb_t a; eb_t p, q, t; int err;
	if (core_init() != RLC_OK) return 1;
	fb_null(a); eb_null(p); eb_null(q); eb_null(t);
	fb_new(a); eb_new(p); eb_new(q); eb_new(t);
	eb_param_set(NIST_B283);

	/* 1. fb_read_bin: 36 bytes hold 288 bits, the field has 283: bit 287 set is accepted */
	memset(buf, 0, sizeof(buf)); buf[0] = 0x80; buf[RLC_FB_BYTES - 1] = 1;
	err = 0; RLC_TRY { fb_read_bin(a, buf, RLC_FB_BYTES); } RLC_CATCH_ANY { err = 1; }
	printf("fb_read_bin(80 00..01): err=%d code=%d fb_bits=%d (RLC_FB_BITS=%d)\n", err, err_get_code() != RLC_OK, (int)fb_bits(a), (int)RLC_FB_BITS);

	/* 1b. eb_read_bin: 04 || (Gx + f) || Gy is a second encoding of G */
	eb_curve_get_gen(p);
	eb_write_bin(buf, 2 * RLC_FB_BYTES + 1, p, 0);
	{
		fb_t xf; fb_null(xf); fb_new(xf);
		fb_add(xf, p->x, fb_poly_get());
		/* raw big-endian bytes of the unreduced x + f (bit 283 set) */
		for (int i = 0; i < (int)RLC_FB_BYTES; i++) buf[1 + i] = (uint8_t)(xf[(RLC_FB_BYTES - 1 - i) / 8] >> (8 * ((RLC_FB_BYTES - 1 - i) % 8)));
	}
	err = 0; RLC_TRY { eb_read_bin(q, buf, 2 * RLC_FB_BYTES + 1); } RLC_CATCH_ANY { err = 1; }
	printf("eb_read_bin(04 || Gx+f || Gy): err=%d code=%d on_curve=%d fb_bits(x)=%d fb_cmp(x, Gx)=%s\n", err, err_get_code() != RLC_OK,
		eb_on_curve(q), (int)fb_bits(q->x), fb_cmp(q->x, p->x) == RLC_EQ ? "EQ" : "NE");

	/* 2. the point of order two T = (0, sqrt b): on the curve, but it has no packed form */
	fb_zero(t->x); fb_srt(t->y, eb_curve_get_b()); fb_set_dig(t->z, 1); t->coord = BASIC;
	printf("T=(0,sqrt b): on_curve=%d size_bin(pack=1)=%d\n", eb_on_curve(t), (int)eb_size_bin(t, 1));
	err = 0; RLC_TRY { eb_write_bin(out, RLC_FB_BYTES + 1, t, 1); } RLC_CATCH_ANY { err = 1; }
	printf("eb_write_bin(T, pack=1): err=%d code=%d\n", err, err_get_code() != RLC_OK);
	err = 0; RLC_TRY { eb_write_bin(out, 2 * RLC_FB_BYTES + 1, t, 0); } RLC_CATCH_ANY { err = 1; }
	printf("eb_write_bin(T, pack=0): err=%d code=%d\n", err, err_get_code() != RLC_OK);
	err = 0; RLC_TRY { eb_read_bin(q, out, 2 * RLC_FB_BYTES + 1); } RLC_CATCH_ANY { err = 1; }
	printf("eb_read_bin(04 || 0 || sqrt b): err=%d code=%d cmp=%s\n", err, err_get_code() != RLC_OK, eb_cmp(q, t) == RLC_EQ ? "EQ" : "NE");
	memset(buf, 0, sizeof(buf)); buf[0] = 2;
	err = 0; RLC_TRY { eb_read_bin(q, buf, RLC_FB_BYTES + 1); } RLC_CATCH_ANY { err = 1; }
	printf("eb_read_bin(02 || 0): err=%d code=%d\n", err, err_get_code() != RLC_OK);
	core_clean();
	return 0;
}
