/*
 * relic_vm.c - call-history interpreter for the integer layer (model/Relic).
 * Program lines over numbered slots 1..NS (one program per segment, "reset" starts one):
 *   reset | set <o> <hex> | getcode | <op> <o> <a> <b> <k>
 * After every line one event with the raw projection of ALL slots and the sticky code
 * (read WITHOUT clearing it, except for getcode).
 */
#include "vh.h"
#define NS 4
static bn_t S[NS + 1];
static void all_slots(void) {
	int s;
	fputs(",\"slots\":[", vh_out);
	for (s = 1; s <= NS; s++) { if (s > 1) fputc(',', vh_out); vh_bn_raw(S[s]); }
	fputs("]", vh_out);
	vh_int("code", core_get()->code == RLC_OK ? 0 : 1);
	vh_int("w", (long)sizeof(dig_t));
}
int main(int argc, char **argv) {
	long start, idx = 0;
	int s;
	FILE *in = vh_open(argc, argv, &start);
	if (!freopen("/dev/null", "w", stderr)) return 2;
	if (core_init() != RLC_OK) return 2;
	for (s = 1; s <= NS; s++) { bn_null(S[s]); bn_new(S[s]); bn_zero(S[s]); }
	while (vh_next(in)) {
		const char *op = vh_tok[0];
		int err = 0;
		if (idx++ < start) continue;
		vh_case = idx - 1;
		alarm(30);
		if (strcmp(op, "reset") == 0) {
			for (s = 1; s <= NS; s++) bn_zero(S[s]);
			err_get_code();
			vh_begin("reset"); all_slots(); vh_end();
		} else if (strcmp(op, "set") == 0) {
			int o = atoi(vh_tok[1]);
			vh_bn_set(S[o], vh_tok[2]);
			vh_begin("set"); vh_int("o", o); vh_bn("v", S[o]); all_slots(); vh_end();
		} else if (strcmp(op, "getcode") == 0) {
			int r = err_get_code() == RLC_OK ? 0 : 1;
			vh_begin("getcode"); vh_int("ret", r); all_slots(); vh_end();
		} else {
			int o = atoi(vh_tok[1]), a = atoi(vh_tok[2]), b = atoi(vh_tok[3]);
			long k = atol(vh_tok[4]);
#define OP(n) (strcmp(op, n) == 0)
			if (OP("bn_add")) VH_TRY(err, bn_add(S[o], S[a], S[b]));
			else if (OP("bn_sub")) VH_TRY(err, bn_sub(S[o], S[a], S[b]));
			else if (OP("bn_mul")) VH_TRY(err, bn_mul(S[o], S[a], S[b]));
			else if (OP("bn_div")) VH_TRY(err, bn_div(S[o], S[a], S[b]));
			else if (OP("bn_sqr")) VH_TRY(err, bn_sqr(S[o], S[a]));
			else if (OP("bn_neg")) VH_TRY(err, bn_neg(S[o], S[a]));
			else if (OP("bn_abs")) VH_TRY(err, bn_abs(S[o], S[a]));
			else if (OP("bn_copy")) VH_TRY(err, bn_copy(S[o], S[a]));
			else if (OP("bn_dbl")) VH_TRY(err, bn_dbl(S[o], S[a]));
			else if (OP("bn_lsh")) VH_TRY(err, bn_lsh(S[o], S[a], (uint_t)k));
			else if (OP("bn_rsh")) VH_TRY(err, bn_rsh(S[o], S[a], (uint_t)k));
			else { fprintf(stdout, "unknown op %s\n", op); return 2; }
			vh_begin(op); vh_int("o", o); vh_int("a", a); vh_int("b", b); vh_int("k", k); vh_int("err", err != 0);
			all_slots(); vh_end();
		}
		alarm(0);
	}
	fclose(vh_out);
	core_clean();
	return 0;
}
