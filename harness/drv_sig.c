/*
 * drv_sig.c - conformance driver for the signature schemes (C05).
 *
 * One case line = one key pair + one honest signature + a list of (mutated) verifications.
 * Every verification is one self-contained event (domain parameters, public key, signature
 * components, message, flag, library verdict); the trace spec (tla/model/SigSpec.tla) evaluates
 * the scheme's DEFINITION on exactly these values and demands the same verdict.
 *
 *   ecdsa <curve-id> <seedhex> <flag> <msghex> <mut>...      flag: 0 = hash-then-sign, 1 = msg is a digest
 *   ecss  <curve-id> <seedhex> 0      <msghex> <mut>...
 *   rsa   <bits> <keyseedhex> <flag> <msghex> <mut>...
 *   bls   <seedhex> <msghex> <mut>...                         (pc_param_set_any)
 *   bbs | zss <seedhex> <flag> <msghex> <mut>...              Boneh-Boyen short signatures / Zhang-Safavi-Naini-Susilo
 *   --list                                                    print the curve ids ep_param_set accepts
 *
 * Mutations (applied to a fresh copy of the honest triple; the library is used only to CONSTRUCT
 * inputs - the verdict on them is the spec's):
 *   honest | m=<hex> | f=<flag>:<hex> (other flag + message)
 *   EC (r = first, s = second component): rx:<bit> sx:<bit> r+n s+n n-s n-r r=0 s=0 r=n s=n r=1 s=1 -r -s swap
 *       q=inf qx:<bit> qy:<bit> q=-q q=2q q=G q=foreign q=other (a point of y^2 = x^3 + ax + b + 1)
 *       infkey (identity key with the matching forged pair)  k0 (ECSS: commitment at infinity, made with d)
 *   RSA: sx:<bit> s+N zp:<j> droplast lz s=0 s=1 s=N s=N-1 N-s q=foreign emx:<off>:<xx> emtop em=<hex> emp=<hex>
 *   BLS: sx:<bit> sy:<bit> s=inf s=-s s=2s s=H s=foreign q=foreign q=inf q=-q q=2q qx:<bit> q+T infpair
 *   BBS (sig in G1, key in G2) / ZSS (sig in G2, key in G1): the same point mutations, s+T (ZSS), infkey
 */
#include "vh.h"

#define MAXM 4096
static bn_t N, H, D, D2, R0, S0, R, S, T, U, V;
static ep_t G, Q0, Q2, Q, P;
static uint8_t msg0[MAXM], msg[MAXM], buf[MAXM], buf2[MAXM];
static size_t len0, len;
static int flag0, flag;

static void reseed(const char *tok) {
	static uint8_t sd[512];
	size_t n = vh_hex2bytes(tok, sd, sizeof(sd), NULL);
	if (n == 0) { sd[0] = 0x5a; n = 1; }
	core_get()->seeded = 0;
	rand_seed(sd, n);
}

static size_t tok_bytes(const char *t, uint8_t *out) {
	return vh_hex2bytes(t, out, MAXM, NULL);
}

/* -------------------------------------------------------------------- EC */
static int cur_id = -1, cur_ok;
static int set_curve(int id) {
	int err, code;
	if (id == cur_id) return cur_ok;
	cur_id = id;
	VH_TRY(err, ep_param_set(id));
	code = vh_code();
	cur_ok = (err == 0 && code == 0);
	if (cur_ok) { ep_curve_get_gen(G); ep_curve_get_ord(N); ep_curve_get_cof(H); }
	return cur_ok;
}

static void curve_hdr(void) {
	vh_fp_hdr();
	vh_fp("ca", ep_curve_get_a());
	vh_fp("cb", ep_curve_get_b());
	vh_ep("G", G);
	vh_bn("n", N);
	vh_bn("h", H);
	vh_int("fcb", (long)RLC_FC_BYTES);
	vh_int("mdl", (long)RLC_MD_LEN);
}

static void flip_fp(fp_t a, long bit) {
	bn_t t;
	bn_null(t); bn_new(t);
	fp_prime_back(t, a);
	if (bn_get_bit(t, bit)) bn_set_bit(t, bit, 0); else bn_set_bit(t, bit, 1);
	bn_mod(t, t, &core_get()->prime);
	if (bn_is_zero(t)) fp_zero(a); else fp_prime_conv(a, t);
	bn_free(t);
}

static void flip_bn(bn_t a, long bit) {
	if (bn_get_bit(a, bit)) bn_set_bit(a, bit, 0); else bn_set_bit(a, bit, 1);
	bn_trim(a);
}

/* the integer the scheme derives from a digest: leftmost min(bits(n), 8*l) bits (input construction only) */
static void digest_int(bn_t e, const uint8_t *h, size_t l) {
	if (8 * l > bn_bits(N)) {
		l = RLC_CEIL(bn_bits(N), 8);
		bn_read_bin(e, h, l);
		bn_rsh(e, e, 8 * l - bn_bits(N));
	} else if (l == 0) {
		bn_zero(e);
	} else {
		bn_read_bin(e, h, l);
	}
}

/* common signature / key mutations of the two EC schemes; returns 0 if the token is not one of them */
static int ec_mut(const char *m, int ecss) {
	if (strncmp(m, "rx:", 3) == 0) { flip_bn(R, atol(m + 3)); return 1; }
	if (strncmp(m, "sx:", 3) == 0) { flip_bn(S, atol(m + 3)); return 1; }
	if (!strcmp(m, "r+n")) { bn_add(R, R, N); return 1; }
	if (!strcmp(m, "s+n")) { bn_add(S, S, N); return 1; }
	if (!strcmp(m, "n-s")) { bn_sub(S, N, S); return 1; }
	if (!strcmp(m, "n-r")) { bn_sub(R, N, R); return 1; }
	if (!strcmp(m, "r=0")) { bn_zero(R); return 1; }
	if (!strcmp(m, "s=0")) { bn_zero(S); return 1; }
	if (!strcmp(m, "r=n")) { bn_copy(R, N); return 1; }
	if (!strcmp(m, "s=n")) { bn_copy(S, N); return 1; }
	if (!strcmp(m, "r=1")) { bn_set_dig(R, 1); return 1; }
	if (!strcmp(m, "s=1")) { bn_set_dig(S, 1); return 1; }
	if (!strcmp(m, "-r")) { bn_neg(R, R); return 1; }
	if (!strcmp(m, "-s")) { bn_neg(S, S); return 1; }
	if (!strcmp(m, "swap")) { bn_copy(T, R); bn_copy(R, S); bn_copy(S, T); return 1; }
	if (!strcmp(m, "q=inf")) { ep_set_infty(Q); return 1; }
	if (strncmp(m, "qx:", 3) == 0) { flip_fp(Q->x, atol(m + 3)); return 1; }
	if (strncmp(m, "qy:", 3) == 0) { flip_fp(Q->y, atol(m + 3)); return 1; }
	if (!strcmp(m, "q=-q")) { ep_neg(Q, Q); return 1; }
	if (!strcmp(m, "q=2q")) { ep_dbl(Q, Q); ep_norm(Q, Q); return 1; }
	if (!strcmp(m, "q=G")) { ep_copy(Q, G); return 1; }
	if (!strcmp(m, "q=foreign")) { ep_copy(Q, Q2); return 1; }
	if (!strcmp(m, "q=other")) {
		/* a point of the curve with b + 1: same field, same a, not on the configured curve */
		fp_t t;
		fp_null(t); fp_new(t);
		fp_copy(Q->x, Q0->x);
		for (;;) {
			ep_rhs(t, Q->x);
			fp_add_dig(t, t, 1);
			if (fp_srt(Q->y, t)) break;
			fp_add_dig(Q->x, Q->x, 1);
		}
		fp_set_dig(Q->z, 1); Q->coord = BASIC;
		fp_free(t);
		return 1;
	}
	(void)ecss;
	return 0;
}

static void ec_event(const char *op, const char *mut, int ret, int err) {
	vh_begin(op);
	curve_hdr();
	vh_str("mut", mut);
	vh_int("honest", strcmp(mut, "honest") == 0);
	vh_ep("Q", Q);
	vh_bn("r", R); vh_bn("s", S);
	vh_bytes("msg", msg, len);
	vh_int("flag", flag);
	vh_int("ret", ret); vh_int("err", err); vh_int("code", vh_code());
	vh_end();
}

static void do_ec(int ecss) {
	int id = atoi(vh_tok[1]), err, ret = -1, i;
	const char *gen_op = ecss ? "ecss_gen" : "ecdsa_gen", *ver_op = ecss ? "ecss_ver" : "ecdsa_ver";
	if (!set_curve(id)) { vh_begin("BADCURVE"); vh_int("id", id); vh_end(); return; }
	reseed(vh_tok[2]);
	flag0 = atoi(vh_tok[3]);
	len0 = tok_bytes(vh_tok[4], msg0);
	/* key generation: the spec checks 1 <= d < n and Q = [d]G */
	VH_TRY(err, ret = ecss ? cp_ecss_gen(D, Q0) : cp_ecdsa_gen(D, Q0));
	vh_begin(gen_op);
	curve_hdr();
	vh_bn("d", D); vh_ep("Q", Q0);
	vh_int("ret", ret); vh_int("err", err); vh_int("code", vh_code());
	vh_end();
	if (ecss) cp_ecss_gen(D2, Q2); else cp_ecdsa_gen(D2, Q2);
	VH_TRY(err, ret = ecss ? cp_ecss_sig(R0, S0, msg0, len0, D) : cp_ecdsa_sig(R0, S0, msg0, len0, flag0, D));
	vh_begin(ecss ? "ecss_sig" : "ecdsa_sig");
	vh_bn("n", N); vh_bn("r", R0); vh_bn("s", S0);
	vh_int("ret", ret); vh_int("err", err); vh_int("code", vh_code());
	vh_end();
	for (i = 5; i < vh_ntok; i++) {
		const char *m = vh_tok[i];
		bn_copy(R, R0); bn_copy(S, S0); ep_copy(Q, Q0);
		memcpy(msg, msg0, len0); len = len0; flag = flag0;
		if (!strcmp(m, "honest")) {
		} else if (m[0] == 'm' && m[1] == '=') {
			len = tok_bytes(m + 2, msg);
		} else if (m[0] == 'f' && m[1] == '=') {
			flag = atoi(m + 2);
			len = tok_bytes(strchr(m, ':') + 1, msg);
		} else if (ec_mut(m, ecss)) {
		} else if (!strcmp(m, "infkey")) {
			/* public key = identity; the pair that the verification equation then accepts for ANY message */
			uint8_t h[RLC_MD_LEN + MAXM];
			ep_set_infty(Q);
			if (!ecss) {
				if (!flag) { md_map(h, msg, len); digest_int(T, h, RLC_MD_LEN); }
				else digest_int(T, msg, len);
				bn_mod(T, T, N);
				ep_mul_gen(P, T);              /* [e]G = [e * 1^-1]G + [r]O */
				ep_norm(P, P);
				fp_prime_back(R, P->x);
				bn_mod(R, R, N);
				bn_set_dig(S, 1);
			} else {
				bn_rand_mod(S, N);
				ep_mul_gen(P, S);              /* [s]G + [e]O */
				ep_norm(P, P);
				fp_prime_back(T, P->x);
				bn_mod(T, T, N);
				memcpy(h, msg, len);
				bn_write_bin(h + len, RLC_FC_BYTES, T);
				md_map(buf, h, len + RLC_FC_BYTES);
				digest_int(R, buf, RLC_MD_LEN);
				bn_mod(R, R, N);
			}
		} else if (ecss && !strcmp(m, "k0")) {
			/* s = -e*d with e = H(m || x-of-infinity as the library reads it (0)): [s]G + [e]Q = O */
			uint8_t h[RLC_MD_LEN + MAXM];
			memcpy(h, msg, len);
			memset(h + len, 0, RLC_FC_BYTES);
			md_map(buf, h, len + RLC_FC_BYTES);
			digest_int(R, buf, RLC_MD_LEN);
			bn_mod(R, R, N);
			bn_mul(S, R, D); bn_mod(S, S, N); bn_sub(S, N, S); bn_mod(S, S, N);
		} else { fprintf(stderr, "unknown mutation %s\n", m); exit(2); }
		ret = -1; vh_code();       /* input construction above must not leak a sticky error code into the event */
		VH_TRY(err, ret = ecss ? cp_ecss_ver(R, S, msg, len, Q) : cp_ecdsa_ver(R, S, msg, len, flag, Q));
		ec_event(ver_op, m, ret, err);
	}
}

/* -------------------------------------------------------------------- RSA */
#if defined(WITH_CP)
static rsa_t pub, prv, pub2, prv2;
static char rsa_key[600];
static int rsa_ok;

static const char *pad_name(void) {
#if CP_RSAPD == BASIC
	return "basic";
#elif CP_RSAPD == PKCS1
	return "pkcs1";
#else
	return "pss";
#endif
}

static uint8_t sig0[MAXM], sig[MAXM];
static size_t slen0, slen;

static int rsa_crash;
static void rsa_event(const char *mut, rsa_t pk, int ret, int err) {
	vh_begin("rsa_ver");
	vh_int("crash", rsa_crash);
	vh_str("pad", pad_name());
	vh_int("w", (long)sizeof(dig_t));
	vh_int("mdl", (long)RLC_MD_LEN);
	vh_str("mut", mut);
	vh_int("honest", strcmp(mut, "honest") == 0);
	vh_bn("N", pk->crt->n); vh_bn("E", pk->e);
	vh_bytes("sig", sig, slen);
	vh_bytes("msg", msg, len);
	vh_int("flag", flag);
	vh_int("ret", ret); vh_int("err", err); vh_int("code", rsa_crash ? 0 : vh_code());
	vh_end();
}

#if CP_RSAPD == BASIC
#include <sys/wait.h>
/* The basic-padding verifier writes the recovered payload into a fixed-size stack buffer; an abnormal end of
 * the call must become a field of THIS event (so that it can be judged), not the end of the driver: the call
 * runs in a forked child that reports ret / err through a pipe. */
static int guarded_ver(uint8_t *sg, size_t sl, const uint8_t *m, size_t ml, int fl, rsa_t pk, int *err) {
	int fd[2], st = 0, res[2] = { -1, 0 };
	pid_t pid;
	rsa_crash = 0;
	fflush(vh_out);
	if (pipe(fd) != 0) exit(2);
	pid = fork();
	if (pid < 0) exit(2);
	if (pid == 0) {
		int e, r = -1;
		signal(SIGSEGV, SIG_DFL); signal(SIGBUS, SIG_DFL); signal(SIGABRT, SIG_DFL); signal(SIGILL, SIG_DFL); signal(SIGFPE, SIG_DFL);
		close(fd[0]);
		VH_TRY(e, r = cp_rsa_ver(sg, sl, m, ml, fl, pk));
		res[0] = r; res[1] = e;
		if (write(fd[1], res, sizeof(res)) < 0) {}
		_exit(0);
	}
	close(fd[1]);
	if (read(fd[0], res, sizeof(res)) != (ssize_t)sizeof(res)) { res[0] = -1; res[1] = 0; }
	close(fd[0]);
	waitpid(pid, &st, 0);
	if (WIFSIGNALED(st)) rsa_crash = WTERMSIG(st);
	else if (!WIFEXITED(st) || WEXITSTATUS(st) != 0) rsa_crash = 255;
	*err = res[1];
	return res[0];
}
#endif

/* sig <- EM^d mod N as a k-byte string; returns 0 when EM >= N */
static int raw_sign(const bn_t em) {
	size_t k = bn_size_bin(pub->crt->n);
	if (bn_cmp(em, pub->crt->n) != RLC_LT) return 0;
	bn_mxp(U, em, prv->d, pub->crt->n);
	memset(sig, 0, sizeof(sig));
	bn_write_bin(sig, k, U);
	slen = k;
	return 1;
}

static void do_rsa(void) {
	int bits = atoi(vh_tok[1]), err, ret = -1, i;
	size_t k;
	char key[600];
	snprintf(key, sizeof(key), "%d:%s", bits, vh_tok[2]);
	if (strcmp(key, rsa_key) != 0) {
		strcpy(rsa_key, key);
		reseed(vh_tok[2]);
		VH_TRY(err, ret = cp_rsa_gen(pub, prv, bits));
		rsa_ok = (err == 0 && ret == RLC_OK);
		if (rsa_ok) { VH_TRY(err, ret = cp_rsa_gen(pub2, prv2, bits)); rsa_ok = (err == 0 && ret == RLC_OK); }
		vh_code();
	}
	vh_begin("rsa_gen");
	vh_int("bits", bits); vh_int("ok", rsa_ok);
	if (rsa_ok) { vh_bn("N", pub->crt->n); vh_bn("E", pub->e); vh_bn("D", prv->d); vh_bn("P", prv->crt->p); vh_bn("Q", prv->crt->q); }
	vh_end();
	if (!rsa_ok) return;
	k = bn_size_bin(pub->crt->n);
	flag0 = atoi(vh_tok[3]);
	len0 = tok_bytes(vh_tok[4], msg0);
	slen0 = sizeof(sig0);
	memset(sig0, 0, sizeof(sig0));
	VH_TRY(err, ret = cp_rsa_sig(sig0, &slen0, msg0, len0, flag0, prv));
	vh_begin("rsa_sig");
	vh_str("pad", pad_name()); vh_int("flag", flag0); vh_int("mlen", (long)len0);
	vh_int("ret", ret); vh_int("err", err); vh_int("code", vh_code()); vh_int("slen", (long)slen0); vh_int("k", (long)k);
	vh_end();
	if (err || ret != RLC_OK) return;
	for (i = 5; i < vh_ntok; i++) {
		const char *m = vh_tok[i];
		_rsa_st *pk = pub;
		int skip = 0;
		memset(sig, 0, sizeof(sig));
		memcpy(sig, sig0, slen0); slen = slen0;
		memcpy(msg, msg0, len0); len = len0; flag = flag0;
		bn_read_bin(V, sig0, slen0);
		if (!strcmp(m, "honest")) {
		} else if (m[0] == 'm' && m[1] == '=') {
			len = tok_bytes(m + 2, msg);
		} else if (m[0] == 'f' && m[1] == '=') {
			flag = atoi(m + 2);
			len = tok_bytes(strchr(m, ':') + 1, msg);
		} else if (strncmp(m, "sx:", 3) == 0) {
			long b = atol(m + 3);
			sig[slen - 1 - b / 8] ^= (uint8_t)(1u << (b % 8));
		} else if (!strcmp(m, "s+N")) {
			bn_add(V, V, pub->crt->n);
			slen = bn_size_bin(V) > k ? bn_size_bin(V) : k;
			bn_write_bin(sig, slen, V);
		} else if (strncmp(m, "zp:", 3) == 0) {
			size_t j = (size_t)atol(m + 3);
			memset(sig, 0, j); memcpy(sig + j, sig0, slen0); slen = slen0 + j;
		} else if (!strcmp(m, "droplast")) {
			slen = slen0 - 1;
		} else if (!strcmp(m, "lz")) {
			/* a message (msg0 || 2-byte counter) whose signature starts with a zero byte, submitted in k-1 bytes */
			unsigned c;
			skip = 1;
			if (flag0) { c = 70000; } else
			for (c = 0; c < 65536; c++) {
				size_t sl = sizeof(sig);
				memcpy(msg, msg0, len0); msg[len0] = (uint8_t)(c >> 8); msg[len0 + 1] = (uint8_t)c; len = len0 + 2;
				if (cp_rsa_sig(sig, &sl, msg, len, flag, prv) != RLC_OK) break;
				if (sig[0] == 0) { memmove(sig, sig + 1, sl - 1); slen = sl - 1; skip = 0; break; }
			}
		} else if (!strcmp(m, "s=0")) { memset(sig, 0, slen);
		} else if (!strcmp(m, "s=1")) { memset(sig, 0, slen); sig[slen - 1] = 1;
		} else if (!strcmp(m, "s=N")) { bn_write_bin(sig, k, pub->crt->n); slen = k;
		} else if (!strcmp(m, "s=N-1")) { bn_sub_dig(V, pub->crt->n, 1); bn_write_bin(sig, k, V); slen = k;
		} else if (!strcmp(m, "N-s")) { bn_sub(V, pub->crt->n, V); bn_write_bin(sig, k, V); slen = k;
		} else if (!strcmp(m, "q=foreign")) { pk = pub2;
		} else if (strncmp(m, "emx:", 4) == 0) {
			long off = atol(m + 4);
			unsigned xx = (unsigned)strtoul(strchr(m + 4, ':') + 1, NULL, 16);
			bn_mxp(T, V, pub->e, pub->crt->n);          /* the encoded message of the honest signature */
			bn_write_bin(buf, k, T);
			if (off < 0) off += (long)k;
			buf[off] ^= (uint8_t)xx;
			bn_read_bin(T, buf, k);
			skip = !raw_sign(T);
		} else if (!strcmp(m, "emtop")) {
			/* set bit modBits - 1 of the encoded message (the first bit above emBits = modBits - 1 bits) */
			bn_mxp(T, V, pub->e, pub->crt->n);
			bn_set_bit(T, bn_bits(pub->crt->n) - 1, 1);
			skip = !raw_sign(T);
		} else if (strncmp(m, "emp=", 4) == 0) {
			/* a PSS-shaped encoded message built by the generator; its bits from emBits = modBits - 1 upwards are cleared */
			size_t l = tok_bytes(m + 4, buf), b;
			bn_read_bin(T, buf, l);
			for (b = bn_bits(pub->crt->n) - 1; b < 8 * l; b++) bn_set_bit(T, b, 0);
			bn_trim(T);
			skip = !raw_sign(T);
		} else if (m[0] == 'e' && m[1] == 'm' && m[2] == '=') {
			size_t l = tok_bytes(m + 3, buf);
			if (l == 0) bn_zero(T); else bn_read_bin(T, buf, l);
			skip = !raw_sign(T);
		} else { fprintf(stderr, "unknown mutation %s\n", m); exit(2); }
		if (skip) { vh_begin("skip"); vh_str("mut", m); vh_end(); continue; }
		ret = -1; vh_code();
		memcpy(buf2, sig, slen);
#if CP_RSAPD == BASIC
		ret = guarded_ver(buf2, slen, msg, len, flag, pk, &err);
#else
		VH_TRY(err, ret = cp_rsa_ver(buf2, slen, msg, len, flag, pk));
#endif
		rsa_event(m, pk, ret, err);
	}
}
#endif

/* -------------------------------------------------------------------- BLS */
#if defined(WITH_PC)
static g1_t SG0, SG, HP, SG2;
static g2_t PK0, PK, PK2, TT, G2G;
static int pc_ok = -1;

/* cp_bls_ver's call of the hash-to-curve routine, captured by ld --wrap */
static int hm_n;
static uint8_t hm_in[MAXM];
static size_t hm_len;
static ep_t hm_out;
void __real_ep_map_sswum(ep_t p, const uint8_t *m, size_t l);
void __wrap_ep_map_sswum(ep_t p, const uint8_t *m, size_t l) {
	__real_ep_map_sswum(p, m, l);
	if (hm_n == 0 && l <= MAXM) { memcpy(hm_in, m, l); hm_len = l; ep_copy(hm_out, p); }
	hm_n++;
}

static void vh_fp2_raw(const fp2_t a) {
	fputc('[', vh_out); vh_fp_raw(a[0]); fputc(',', vh_out); vh_fp_raw(a[1]); fputc(']', vh_out);
}
static void vh_ep2(const char *k, const ep2_t p) {
	fprintf(vh_out, ",\"%s\":{\"x\":", k); vh_fp2_raw(((ep2_st *)p)->x);
	fputs(",\"y\":", vh_out); vh_fp2_raw(((ep2_st *)p)->y);
	fputs(",\"z\":", vh_out); vh_fp2_raw(((ep2_st *)p)->z);
	fprintf(vh_out, ",\"c\":%d}", p->coord);
}

static void bls_hdr(void) {
	vh_fp_hdr();
	vh_fp("ca", ep_curve_get_a());
	vh_fp("cb", ep_curve_get_b());
	vh_bn("n", N);
	vh_int("qnr", (long)fp_prime_get_qnr());
	fprintf(vh_out, ",\"ta\":"); vh_fp2_raw(ep2_curve_get_a());
	fprintf(vh_out, ",\"tb\":"); vh_fp2_raw(ep2_curve_get_b());
	vh_ep2("G2", G2G);
}

static void twist_torsion(ep2_t tt);

static void do_bls(void) {
	int err, ret = -1, i;
	if (pc_ok < 0) {
		VH_TRY(err, ret = pc_param_set_any());
		pc_ok = (err == 0 && ret == RLC_OK && vh_code() == 0);
		cur_id = -1;
	}
	if (!pc_ok) { vh_begin("BADCURVE"); vh_int("id", -1); vh_end(); return; }
	if (cur_id != -2) { pc_param_set_any(); cur_id = -2; }
	pc_get_ord(N);
	g2_get_gen(G2G);
	reseed(vh_tok[1]);
	len0 = tok_bytes(vh_tok[2], msg0);
	VH_TRY(err, ret = cp_bls_gen(D, PK0));
	vh_begin("bls_gen");
	bls_hdr();
	vh_bn("d", D); vh_ep2("pk", PK0);
	vh_int("ret", ret); vh_int("err", err); vh_int("code", vh_code());
	vh_end();
	cp_bls_gen(D2, PK2);
	VH_TRY(err, ret = cp_bls_sig(SG0, msg0, len0, D));
	vh_begin("bls_sig");
	vh_int("ret", ret); vh_int("err", err); vh_int("code", vh_code());
	vh_end();
	for (i = 3; i < vh_ntok; i++) {
		const char *m = vh_tok[i];
		/* ghost: the discrete logarithm of the submitted public key (0 = none: the key is claimed INVALID) */
		g1_copy(SG, SG0); g2_copy(PK, PK0); bn_copy(U, D);
		memcpy(msg, msg0, len0); len = len0;
		if (!strcmp(m, "honest")) {
		} else if (m[0] == 'm' && m[1] == '=') { len = tok_bytes(m + 2, msg);
		} else if (strncmp(m, "sx:", 3) == 0) { flip_fp(SG->x, atol(m + 3));
		} else if (strncmp(m, "sy:", 3) == 0) { flip_fp(SG->y, atol(m + 3));
		} else if (!strcmp(m, "s=inf")) { g1_set_infty(SG);
		} else if (!strcmp(m, "s=-s")) { g1_neg(SG, SG);
		} else if (!strcmp(m, "s=2s")) { g1_dbl(SG, SG); g1_norm(SG, SG);
		} else if (!strcmp(m, "s=H")) { g1_map(SG, msg, len);
		} else if (!strcmp(m, "s=foreign")) { cp_bls_sig(SG, msg, len, D2);
		} else if (!strcmp(m, "q=foreign")) { g2_copy(PK, PK2); bn_copy(U, D2);
		} else if (!strcmp(m, "q=inf")) { g2_set_infty(PK); bn_zero(U);
		} else if (!strcmp(m, "infpair")) { g2_set_infty(PK); g1_set_infty(SG); bn_zero(U);
		} else if (!strcmp(m, "q=-q")) { g2_neg(PK, PK); bn_sub(U, N, D);
		} else if (!strcmp(m, "q=2q")) { g2_dbl(PK, PK); g2_norm(PK, PK); bn_dbl(U, D); bn_mod(U, U, N);
		} else if (strncmp(m, "qx:", 3) == 0) { flip_fp(((ep2_st *)PK)->x[0], atol(m + 3)); bn_zero(U);
		} else if (!strcmp(m, "q+T")) {
			/* T = [n]X for a random point X of the twist: order coprime to n; pk + T is on the twist, outside G2 */
			twist_torsion(TT);
			ep2_add(PK, PK, TT); ep2_norm(PK, PK);
			bn_zero(U);
		} else { fprintf(stderr, "unknown mutation %s\n", m); exit(2); }
		ret = -1; hm_n = 0; vh_code();
		VH_TRY(err, ret = cp_bls_ver(SG, msg, len, PK));
		vh_begin("bls_ver");
		bls_hdr();
		vh_str("mut", m);
		vh_int("honest", strcmp(m, "honest") == 0);
		vh_ep("S", SG); vh_ep2("pk", PK); vh_bn("gd", U);
		vh_bytes("msg", msg, len);
		vh_int("hn", hm_n); vh_bytes("hin", hm_in, hm_n ? hm_len : 0);
		if (hm_n) vh_ep("hP", hm_out); else vh_ep("hP", SG);
		vh_int("ret", ret); vh_int("err", err); vh_int("code", vh_code());
		vh_end();
	}
}
/* a point T # O of the twist with order coprime to n: [n]X for a random point X of E'(F_p^2) */
static void twist_torsion(ep2_t tt) {
	fp2_t t;
	fp2_null(t); fp2_new(t);
	do {
		do {
			fp2_rand(((ep2_st *)tt)->x);
			ep2_rhs(t, ((ep2_st *)tt)->x);
		} while (!fp2_srt(((ep2_st *)tt)->y, t));
		fp2_set_dig(((ep2_st *)tt)->z, 1);
		tt->coord = BASIC;
		ep2_mul_basic(tt, tt, N);
	} while (ep2_is_infty(tt));
	fp2_free(t);
}

/* mutations of a G1 point A (ghost logarithm LA w.r.t. the G1 generator, 0 = unknown/invalid), other honest value A2/LA2 */
static int g1_mut(const char *m, char c, g1_t A, bn_t LA, const g1_t A2, const bn_t LA2) {
	if (m[0] != c) return 0;
	if (m[1] == 'x' && m[2] == ':') { flip_fp(A->x, atol(m + 3)); bn_zero(LA); return 1; }
	if (m[1] == 'y' && m[2] == ':') { flip_fp(A->y, atol(m + 3)); bn_zero(LA); return 1; }
	if (!strcmp(m + 1, "=inf")) { g1_set_infty(A); bn_zero(LA); return 1; }
	if (!strncmp(m + 1, "=-", 2)) { g1_neg(A, A); if (!bn_is_zero(LA)) bn_sub(LA, N, LA); return 1; }
	if (!strncmp(m + 1, "=2", 2)) { g1_dbl(A, A); g1_norm(A, A); bn_dbl(LA, LA); bn_mod(LA, LA, N); return 1; }
	if (!strcmp(m + 1, "=foreign")) { g1_copy(A, A2); bn_copy(LA, LA2); return 1; }
	return 0;
}
static int g2_mut(const char *m, char c, g2_t A, bn_t LA, const g2_t A2, const bn_t LA2) {
	if (m[0] != c) return 0;
	if (m[1] == 'x' && m[2] == ':') { flip_fp(((ep2_st *)A)->x[0], atol(m + 3)); bn_zero(LA); return 1; }
	if (m[1] == 'y' && m[2] == ':') { flip_fp(((ep2_st *)A)->y[1], atol(m + 3)); bn_zero(LA); return 1; }
	if (!strcmp(m + 1, "=inf")) { g2_set_infty(A); bn_zero(LA); return 1; }
	if (!strncmp(m + 1, "=-", 2)) { g2_neg(A, A); if (!bn_is_zero(LA)) bn_sub(LA, N, LA); return 1; }
	if (!strncmp(m + 1, "=2", 2)) { g2_dbl(A, A); g2_norm(A, A); bn_dbl(LA, LA); bn_mod(LA, LA, N); return 1; }
	if (!strcmp(m + 1, "=foreign")) { g2_copy(A, A2); bn_copy(LA, LA2); return 1; }
	if (!strcmp(m + 1, "+T")) { twist_torsion(TT); ep2_add(A, A, TT); ep2_norm(A, A); bn_zero(LA); return 1; }
	return 0;
}

/* Boneh-Boyen (zss = 0: signature in G1, key in G2) and ZSS (zss = 1: signature in G2, key in G1):
 * sigma = [1 / (H(m) + d)] generator; every event carries the ghost logarithms of key and signature */
static gt_t ZZ;
static g1_t A1, A1o, A1f;
static g2_t A2, A2o, A2f;
static void do_inv(int zss) {
	int err, ret = -1, i;
	bn_t LS, LK, LSo, LSf;
	if (pc_ok < 0) {
		VH_TRY(err, ret = pc_param_set_any());
		pc_ok = (err == 0 && ret == RLC_OK && vh_code() == 0);
		cur_id = -1;
	}
	if (!pc_ok) { vh_begin("BADCURVE"); vh_int("id", -1); vh_end(); return; }
	if (cur_id != -2) { pc_param_set_any(); cur_id = -2; }
	bn_null(LS); bn_null(LK); bn_null(LSo); bn_null(LSf); bn_new(LS); bn_new(LK); bn_new(LSo); bn_new(LSf);
	pc_get_ord(N);
	g2_get_gen(G2G); g1_get_gen(HP);
	reseed(vh_tok[1]);
	flag0 = atoi(vh_tok[2]);
	len0 = tok_bytes(vh_tok[3], msg0);
	/* honest key (A?o), foreign key (A?f) */
	if (zss) { VH_TRY(err, ret = cp_zss_gen(D, A1o, ZZ)); cp_zss_gen(D2, A1f, ZZ); }
	else { VH_TRY(err, ret = cp_bbs_gen(D, A2o, ZZ)); cp_bbs_gen(D2, A2f, ZZ); }
	vh_begin(zss ? "zss_gen" : "bbs_gen");
	bls_hdr(); vh_ep("G1", HP);
	vh_bn("d", D);
	if (zss) vh_ep("pk", A1o); else vh_ep2("pk", A2o);
	vh_int("ret", ret); vh_int("err", err); vh_int("code", vh_code());
	vh_end();
	if (zss) { VH_TRY(err, ret = cp_zss_sig(PK0, msg0, len0, flag0, D)); }
	else { VH_TRY(err, ret = cp_bbs_sig(SG0, msg0, len0, flag0, D)); }
	vh_begin(zss ? "zss_sig" : "bbs_sig");
	vh_int("ret", ret); vh_int("err", err); vh_int("code", vh_code());
	vh_end();
	for (i = 4; i < vh_ntok; i++) {
		const char *m = vh_tok[i];
		memcpy(msg, msg0, len0); len = len0; flag = flag0;
		bn_copy(LK, D);
		if (zss) { g2_copy(PK, PK0); g1_copy(A1, A1o); } else { g1_copy(SG, SG0); g2_copy(A2, A2o); }
		/* the signature's logarithm is not needed by the spec (it recomputes the point); LS is scratch */
		bn_set_dig(LS, 1); bn_set_dig(LSf, 1);
		if (!strcmp(m, "honest")) {
		} else if (m[0] == 'm' && m[1] == '=') { len = tok_bytes(m + 2, msg);
		} else if (m[0] == 'f' && m[1] == '=') { flag = atoi(m + 2); len = tok_bytes(strchr(m, ':') + 1, msg);
		} else if (!strcmp(m, "s=foreign")) {
			if (zss) cp_zss_sig(PK, msg, len, flag, D2); else cp_bbs_sig(SG, msg, len, flag, D2);
		} else if (!strcmp(m, "infkey")) {
			/* identity public key and sigma = [1 / H(m)] generator */
			uint8_t h[RLC_MD_LEN];
			if (flag) { if (len) bn_read_bin(T, msg, len); else bn_zero(T); }
			else { md_map(h, msg, len); bn_read_bin(T, h, RLC_MD_LEN); }
			bn_mod(T, T, N); bn_mod_inv(T, T, N);
			bn_zero(LK);
			if (zss) { g1_set_infty(A1); g2_mul_gen(PK, T); } else { g2_set_infty(A2); g1_mul_gen(SG, T); }
		} else if (!zss && (g1_mut(m, 's', SG, LS, SG0, LSf) || g2_mut(m, 'q', A2, LK, A2f, D2))) {
		} else if (zss && (g2_mut(m, 's', PK, LS, PK0, LSf) || g1_mut(m, 'q', A1, LK, A1f, D2))) {
		} else { fprintf(stderr, "unknown mutation %s\n", m); exit(2); }
		ret = -1; vh_code();
		if (zss) { VH_TRY(err, ret = cp_zss_ver(PK, msg, len, flag, A1, ZZ)); }
		else { VH_TRY(err, ret = cp_bbs_ver(SG, msg, len, flag, A2, ZZ)); }
		vh_begin(zss ? "zss_ver" : "bbs_ver");
		bls_hdr(); vh_ep("G1", HP);
		vh_str("mut", m);
		vh_int("honest", strcmp(m, "honest") == 0);
		if (zss) { vh_ep2("S", PK); vh_ep("pk", A1); } else { vh_ep("S", SG); vh_ep2("pk", A2); }
		vh_bn("gd", LK);
		vh_bytes("msg", msg, len);
		vh_int("flag", flag);
		vh_int("mdl", (long)RLC_MD_LEN);
		vh_int("ret", ret); vh_int("err", err); vh_int("code", vh_code());
		vh_end();
	}
	bn_free(LS); bn_free(LK); bn_free(LSo); bn_free(LSf);
}
#endif

int main(int argc, char **argv) {
	long start, idx = 0;
	FILE *in;
	if (argc > 1 && strcmp(argv[1], "--list") == 0) {
		int id;
		if (core_init() != RLC_OK) return 2;
		bn_null(N); bn_new(N);
		for (id = 1; id < 400; id++) {
			int err, code;
			VH_TRY(err, ep_param_set(id));
			code = vh_code();               /* always read: reading clears the sticky code */
			if (!err && code == 0) {
				ep_curve_get_ord(N);
				printf("%d %d\n", id, (int)bn_bits(N));
			}
		}
		return 0;
	}
	in = vh_open(argc, argv, &start);
	if (core_init() != RLC_OK) return 2;
	bn_null(N); bn_null(H); bn_null(D); bn_null(D2); bn_null(R0); bn_null(S0); bn_null(R); bn_null(S);
	bn_null(T); bn_null(U); bn_null(V);
	bn_new(N); bn_new(H); bn_new(D); bn_new(D2); bn_new(R0); bn_new(S0); bn_new(R); bn_new(S);
	bn_new(T); bn_new(U); bn_new(V);
	ep_null(G); ep_null(Q0); ep_null(Q2); ep_null(Q); ep_null(P);
	ep_new(G); ep_new(Q0); ep_new(Q2); ep_new(Q); ep_new(P);
#if defined(WITH_CP)
	rsa_null(pub); rsa_null(prv); rsa_null(pub2); rsa_null(prv2);
	rsa_new(pub); rsa_new(prv); rsa_new(pub2); rsa_new(prv2);
#endif
#if defined(WITH_PC)
	g1_null(SG0); g1_null(SG); g1_null(HP); g1_null(SG2); ep_null(hm_out);
	g1_new(SG0); g1_new(SG); g1_new(HP); g1_new(SG2); ep_new(hm_out);
	g2_null(PK0); g2_null(PK); g2_null(PK2); g2_null(TT); g2_null(G2G);
	g2_new(PK0); g2_new(PK); g2_new(PK2); g2_new(TT); g2_new(G2G);
	gt_null(ZZ); gt_new(ZZ);
	g1_null(A1); g1_null(A1o); g1_null(A1f); g1_new(A1); g1_new(A1o); g1_new(A1f);
	g2_null(A2); g2_null(A2o); g2_null(A2f); g2_new(A2); g2_new(A2o); g2_new(A2f);
#endif
	while (vh_next(in)) {
		const char *op = vh_tok[0];
		if (idx++ < start) continue;
		vh_case = idx - 1;
		alarm(300);
		if (!strcmp(op, "ecdsa")) do_ec(0);
		else if (!strcmp(op, "ecss")) do_ec(1);
#if defined(WITH_CP)
		else if (!strcmp(op, "rsa")) do_rsa();
#endif
#if defined(WITH_PC)
		else if (!strcmp(op, "bls")) do_bls();
		else if (!strcmp(op, "bbs")) do_inv(0);
		else if (!strcmp(op, "zss")) do_inv(1);
#endif
		else { fprintf(stderr, "unknown op %s\n", op); return 2; }
		fflush(vh_out);
		alarm(0);
	}
	fclose(vh_out);
	core_clean();
	return 0;
}
