/* repro_c05.c - stand-alone reproduction of the C05 findings with the plain RELIC API (no harness).
 * gcc -I<build>/include -I/repo/include -I/repo/include/low repro_c05.c <build>/lib/librelic_s.a -lm -lpthread */
#include <relic.h>
#include <stdio.h>
#include <string.h>
int main(void) {
	bn_t n, r, s, e, d, t; ec_t q, p; rsa_t pub, prv;
	uint8_t h[RLC_MD_LEN], sig[300], sig2[300], buf[300], m[64 + RLC_FC_BYTES];
	const uint8_t msg[] = "any message at all";
	size_t sl, k;
	core_init(); ec_param_set_any();
	bn_null(n); bn_null(r); bn_null(s); bn_null(e); bn_null(d); bn_null(t); ec_null(q); ec_null(p);
	bn_new(n); bn_new(r); bn_new(s); bn_new(e); bn_new(d); bn_new(t); ec_new(q); ec_new(p);
	ec_curve_get_ord(n);
	/* 1. ECDSA: identity public key, s = 1, r = x([e]G) mod n */
	md_map(h, msg, sizeof(msg)); bn_read_bin(e, h, RLC_MD_LEN); bn_mod(e, e, n);
	ec_mul_gen(p, e); ec_get_x(r, p); bn_mod(r, r, n); bn_set_dig(s, 1);
	ec_set_infty(q);
	printf("1 ecdsa identity key, forged (r,1): ver = %d (expected 0)\n", cp_ecdsa_ver(r, s, msg, sizeof(msg), 0, q));
	/* 2. EC-Schnorr: identity public key, any s, e = H(m || x([s]G) mod n) */
	bn_rand_mod(s, n); ec_mul_gen(p, s); ec_get_x(t, p); bn_mod(t, t, n);
	memcpy(m, msg, sizeof(msg)); bn_write_bin(m + sizeof(msg), RLC_FC_BYTES, t);
	md_map(h, m, sizeof(msg) + RLC_FC_BYTES); bn_read_bin(e, h, RLC_MD_LEN); bn_mod(e, e, n);
	printf("2 ecss identity key, forged (e,s): ver = %d (expected 0)\n", cp_ecss_ver(e, s, msg, sizeof(msg), q));
	/* 3. EC-Schnorr: commitment [s]G + [e]Q = O accepted (made with the private key) */
	cp_ecss_gen(d, q);
	memset(m + sizeof(msg), 0, RLC_FC_BYTES);
	md_map(h, m, sizeof(msg) + RLC_FC_BYTES); bn_read_bin(e, h, RLC_MD_LEN); bn_mod(e, e, n);
	bn_mul(s, e, d); bn_mod(s, s, n); bn_sub(s, n, s);
	printf("3 ecss commitment at infinity: ver = %d (expected 0)\n", cp_ecss_ver(e, s, msg, sizeof(msg), q));
#if CP_RSAPD == PKCS2
	rsa_null(pub); rsa_null(prv); rsa_new(pub); rsa_new(prv);
	cp_rsa_gen(pub, prv, 1024); k = bn_size_bin(pub->crt->n);
	sl = sizeof(sig); cp_rsa_sig(sig, &sl, msg, sizeof(msg), 0, prv);
	printf("4 rsa honest: ver = %d (expected 1), sig_len = %zu, k = %zu\n", cp_rsa_ver(sig, sl, msg, sizeof(msg), 0, pub), sl, k);
	bn_read_bin(t, sig, sl); bn_add(t, t, pub->crt->n); bn_write_bin(sig2, k + 1, t);
	printf("5 rsa sig + N (%zu bytes): ver = %d (expected 0)\n", k + 1, cp_rsa_ver(sig2, k + 1, msg, sizeof(msg), 0, pub));
	memset(sig2, 0, 3); memcpy(sig2 + 3, sig, sl);
	printf("6 rsa 3 zero bytes prepended (%zu bytes): ver = %d (expected 0)\n", sl + 3, cp_rsa_ver(sig2, sl + 3, msg, sizeof(msg), 0, pub));
	/* 7. PSS: encoded message with bit modBits-1 set is accepted */
	for (int c = 0; c < 200; c++) {
		uint8_t mm[8]; memcpy(mm, "msg-000", 8); mm[4] = '0' + c / 100; mm[5] = '0' + (c / 10) % 10; mm[6] = '0' + c % 10;
		sl = sizeof(sig); cp_rsa_sig(sig, &sl, mm, 8, 0, prv);
		bn_read_bin(t, sig, sl); bn_mxp(e, t, pub->e, pub->crt->n);
		bn_set_bit(e, bn_bits(pub->crt->n) - 1, 1);
		if (bn_cmp(e, pub->crt->n) != RLC_LT) continue;
		bn_mxp(t, e, prv->d, pub->crt->n); bn_write_bin(sig2, k, t);
		printf("7 rsa-pss EM with leftmost bit (bit emBits) set, message %s: ver = %d (expected 0)\n", mm, cp_rsa_ver(sig2, k, mm, 8, 0, pub));
		break;
	}
	/* 8. PSS completeness: modulus of 8j+1 bits */
	for (int c = 0; c < 50; c++) {
		cp_rsa_gen(pub, prv, 522);
		if (bn_bits(pub->crt->n) != 521) continue;
		sl = sizeof(sig); int rs = cp_rsa_sig(sig, &sl, msg, sizeof(msg), 0, prv);
		printf("8 rsa-pss honest signature, %zu-bit modulus: sig = %d, ver = %d (expected 1)\n", bn_bits(pub->crt->n), rs, cp_rsa_ver(sig, sl, msg, sizeof(msg), 0, pub));
		break;
	}
	/* 13. PSS: DB bits above the used digits of maskedDB are never inspected (522-bit modulus: EM bit 520) */
	for (int c = 0, done = 0; c < 200 && !done; c++) {
		cp_rsa_gen(pub, prv, 522);
		if (bn_bits(pub->crt->n) != 522) continue;
		k = bn_size_bin(pub->crt->n);
		for (int j = 0; j < 50 && !done; j++) {
			uint8_t mm[4] = { 'm', (uint8_t)j, 0, 0 };
			sl = sizeof(sig); cp_rsa_sig(sig, &sl, mm, 4, 0, prv);
			bn_read_bin(t, sig, sl); bn_mxp(e, t, pub->e, pub->crt->n);
			if (!bn_get_bit(e, 520)) continue;
			bn_set_bit(e, 520, 0);                      /* a data bit of maskedDB: DB gets a 1 in its zero padding */
			bn_mxp(t, e, prv->d, pub->crt->n); memset(sig2, 0, k); bn_write_bin(sig2, k, t);
			printf("13 rsa-pss 522-bit key, EM bit 520 cleared (DB padding bit set): ver = %d (expected 0)\n", cp_rsa_ver(sig2, k, mm, 4, 0, pub));
			done = 1;
		}
	}
	/* 14. pre-hashed mode with an empty digest: every valid signature verifies */
	cp_rsa_gen(pub, prv, 1024);
	sl = sizeof(sig); cp_rsa_sig(sig, &sl, msg, sizeof(msg), 0, prv);
	printf("14 rsa-pss pre-hashed, msg_len = 0, signature of another message: ver = %d (expected 0)\n", cp_rsa_ver(sig, sl, msg, 0, 1, pub));
#endif
#if CP_RSAPD == PKCS1 || CP_RSAPD == BASIC
	rsa_null(pub); rsa_null(prv); rsa_new(pub); rsa_new(prv);
	cp_rsa_gen(pub, prv, 1024);
	md_map(h, msg, sizeof(msg));
	sl = sizeof(sig); cp_rsa_sig(sig, &sl, h, RLC_MD_LEN, 1, prv);
	printf("15 rsa pre-hashed: 31-byte prefix of the signed digest: ver = %d (expected 0); empty digest: ver = %d (expected 0)\n",
		cp_rsa_ver(sig, sl, h, RLC_MD_LEN - 1, 1, pub), cp_rsa_ver(sig, sl, h, 0, 1, pub));
#endif
#if CP_RSAPD == PKCS1
	cp_rsa_gen(pub, prv, 488);
	sl = sizeof(sig); int rs = cp_rsa_sig(sig, &sl, msg, sizeof(msg), 0, prv);
	printf("16 rsa-pkcs1 %zu-byte modulus (tLen + 10; RFC 8017: modulus too short): sig = %d, ver = %d (expected refusal)\n",
		bn_size_bin(pub->crt->n), rs, cp_rsa_ver(sig, sl, msg, sizeof(msg), 0, pub));
#endif
#if defined(WITH_PC)
	if (pc_param_set_any() == RLC_OK) {
		g1_t s1; g2_t s2, q2; g1_t q1; gt_t z;
		g1_null(s1); g2_null(s2); g2_null(q2); g1_null(q1); gt_null(z);
		g1_new(s1); g2_new(s2); g2_new(q2); g1_new(q1); gt_new(z);
		pc_get_ord(n); gt_get_gen(z);
		md_map(h, msg, sizeof(msg)); bn_read_bin(e, h, RLC_MD_LEN); bn_mod(e, e, n); bn_mod_inv(e, e, n);
		/* 11. Boneh-Boyen: identity public key, sigma = [1/H(m)]G1 */
		g2_set_infty(q2); g1_mul_gen(s1, e);
		printf("11 bbs identity key, forged sigma: ver = %d (expected 0)\n", cp_bbs_ver(s1, msg, sizeof(msg), 0, q2, z));
		/* 12. ZSS: identity public key, sigma = [1/H(m)]G2 */
		g1_set_infty(q1); g2_mul_gen(s2, e);
		printf("12 zss identity key, forged sigma: ver = %d (expected 0)\n", cp_zss_ver(s2, msg, sizeof(msg), 0, q1, z));
	}
#endif
#if CP_RSAPD == BASIC
	rsa_null(pub); rsa_null(prv); rsa_new(pub); rsa_new(prv);
	cp_rsa_gen(pub, prv, 1024); k = bn_size_bin(pub->crt->n);
	md_map(h, msg, sizeof(msg));
	/* EM = FF || H || 4 bytes */
	buf[0] = 0xff; memcpy(buf + 1, h, 32); memset(buf + 33, 0xab, 4);
	bn_read_bin(e, buf, 37); bn_mxp(t, e, prv->d, pub->crt->n); bn_write_bin(sig, k, t);
	printf("9 rsa-basic EM = FF || H || 4 garbage bytes: ver = %d (expected 0)\n", cp_rsa_ver(sig, k, msg, sizeof(msg), 0, pub));
	memset(buf + 33, 0xab, 90);
	bn_read_bin(e, buf, 33 + 90); bn_mxp(t, e, prv->d, pub->crt->n); bn_write_bin(sig, k, t);
	printf("10 rsa-basic EM = FF || H || 90 bytes (payload 122 > 40-byte stack buffer) ...\n"); fflush(stdout);
	printf("   ver = %d\n", cp_rsa_ver(sig, k, msg, sizeof(msg), 0, pub));
#endif
	return 0;
}
