/*
 * err_vm.c - interpreter of try/throw/catch/finally token streams over the REAL
 * RLC_TRY / RLC_CATCH / RLC_CATCH_ANY / RLC_FINALLY / RLC_THROW macros (C19).
 *
 * Input (one program per line):   tokens separated by blanks
 *     oa / of   open try with CATCH_ANY, without / with FINALLY
 *     va / vf   open try with CATCH(e),  without / with FINALLY
 *     t1 / tc   RLC_THROW(ERR_NO_MEMORY) / RLC_THROW(ERR_CAUGHT)
 *     gc        err_get_code()
 *     gm        err_get_msg()  (skipped unless at top level with the ctx frame installed)
 *     e         end of the current statement sequence
 * Output (one ndjson line per program): {"op":"err","i":n,"toks":[effective tokens],"obs":[events]}
 * The event vocabulary is that of tla/model/Err.tla's `obs` history variable.
 *
 * The token position is global: after a longjmp the interpreter simply
 * continues reading tokens in the landing context, exactly as the model
 * continues choosing there.
 */
#include "vh.h"

#define MAXD 12
#define MAXID 256

static char **toks;
static int ntoks, pos;
static int depth;
static int next_id;
static sts_t *frame_of[MAXID];  /* id -> address of its _this frame */
static int first_tok, first_obs;
static char tokbuf[1 << 16], obsbuf[1 << 18];
static size_t tokn, obsn;

static void tok_out(const char *s) {
	tokn += snprintf(tokbuf + tokn, sizeof(tokbuf) - tokn, "%s%s", first_tok ? "" : ",", s);
	first_tok = 0;
}
static void obs_out(const char *fmt, ...) {
	va_list ap;
	obsn += snprintf(obsbuf + obsn, sizeof(obsbuf) - obsn, "%s", first_obs ? "" : ",");
	first_obs = 0;
	va_start(ap, fmt);
	obsn += vsnprintf(obsbuf + obsn, sizeof(obsbuf) - obsn, fmt, ap);
	va_end(ap);
}

/* what ctx->last points to: -1 NULL, 0 the context's own frame, else the try id, -2 unknown */
static int last_id(void) {
	ctx_t *ctx = core_get();
	int i;
	if (ctx->last == NULL) return -1;
	if (ctx->last == &(ctx->error)) return 0;
	for (i = next_id - 1; i >= 1; i--) if (frame_of[i] == ctx->last) return i;
	return -2;
}
static const char *ename(int e) {
	if (e == ERR_NO_MEMORY) return "E1";
	if (e == ERR_CAUGHT) return "CAUGHT";
	return "NONE";
}

static void run_seq(void);

/* one function per construct variant, built from the real macros */
#define BODY(id)     do { frame_of[id] = core_get()->last; run_seq(); } while (0)
#define HANDLER(id, slot) do { obs_out("[\"catch\",%d,\"%s\",%d]", id, ename(slot), last_id()); run_seq(); } while (0)
#define FINAL(id)    do { obs_out("[\"finally\",%d,%d]", id, last_id()); run_seq(); } while (0)

static void try_any(volatile int id) {
	RLC_TRY { BODY(id); } RLC_CATCH_ANY { HANDLER(id, -1); }
}
static void try_any_fin(volatile int id) {
	RLC_TRY { BODY(id); } RLC_CATCH_ANY { HANDLER(id, -1); } RLC_FINALLY { FINAL(id); }
}
static void try_var(volatile int id) {
	err_t e = -1;
	RLC_TRY { BODY(id); } RLC_CATCH(e) { HANDLER(id, e); }
}
static void try_var_fin(volatile int id) {
	err_t e = -1;
	RLC_TRY { BODY(id); } RLC_CATCH(e) { HANDLER(id, e); } RLC_FINALLY { FINAL(id); }
}

static void do_open(const char *t) {
	volatile int id = next_id;
	volatile int d0 = depth;
	obs_out("[\"enter\",%d,%d]", id, last_id());
	frame_of[id] = NULL;
	next_id++;
	depth++;
	if (t[0] == 'o' && t[1] == 'a') try_any(id);
	else if (t[0] == 'o') try_any_fin(id);
	else if (t[1] == 'a') try_var(id);
	else try_var_fin(id);
	depth = d0;         /* also after a jump landed in this construct */
	obs_out("[\"exit\",%d,%d]", id, last_id());
}

static void do_throw(int e) {
	ctx_t *ctx = core_get();
	obs_out("[\"throw\",\"%s\"]", ename(e));
	if (e == ERR_NO_MEMORY) { RLC_THROW(ERR_NO_MEMORY); } else { RLC_THROW(ERR_CAUGHT); }
	/* only reached when the throw did not jump */
	obs_out("[\"cont\",%d,\"%s\"]", last_id(), last_id() == 0 ? ename(ctx->number) : "NONE");
}

static int halted;

static void run_seq(void) {
	for (;;) {
		const char *t;
		if (halted) return;
		if (pos >= ntoks) t = "e";            /* auto-close at the end of the stream */
		else t = toks[pos++];
		if (t[0] == 'e') {
			tok_out("[\"end\"]");
			return;
		} else if (t[0] == 'o' || t[0] == 'v') {
			if (depth >= MAXD || next_id >= MAXID) continue;     /* skipped */
			tok_out(t[0] == 'o' ? (t[1] == 'a' ? "[\"open\",\"any\",false]" : "[\"open\",\"any\",true]")
			                    : (t[1] == 'a' ? "[\"open\",\"var\",false]" : "[\"open\",\"var\",true]"));
			do_open(t);
		} else if (t[0] == 't') {
			tok_out(t[1] == '1' ? "[\"throw\",\"E1\"]" : "[\"throw\",\"CAUGHT\"]");
			do_throw(t[1] == '1' ? ERR_NO_MEMORY : ERR_CAUGHT);
		} else if (t[0] == 'g' && t[1] == 'c') {
			tok_out("[\"getcode\"]");
			obs_out("[\"code\",\"%s\"]", err_get_code() == RLC_OK ? "OK" : "ERR");
		} else if (t[0] == 'g' && t[1] == 'm') {
			err_t e;
			char *msg;
			if (depth != 0 || last_id() != 0) continue;          /* skipped */
			tok_out("[\"getmsg\"]");
			err_get_msg(&e, &msg);
			obs_out("[\"msg\",\"%s\"]", ename(e));
		}
	}
}

static void run_program(void) {
	ctx_t *ctx = core_get();
	/* fresh error state, as after core_init */
	ctx->last = NULL; ctx->code = RLC_OK; ctx->caught = 0; ctx->number = 0;
	pos = 0; depth = 0; next_id = 1; halted = 0;
	memset(frame_of, 0, sizeof(frame_of));
	first_tok = first_obs = 1; tokn = obsn = 0; tokbuf[0] = obsbuf[0] = 0;
	run_seq();
	halted = 1;
	obs_out("[\"halt\",%d,\"%s\"]", last_id(), ctx->code == RLC_OK ? "OK" : "ERR");
	vh_begin("err");
	fprintf(vh_out, ",\"toks\":[%s],\"obs\":[%s]", tokbuf, obsbuf);
	vh_end();
	ctx->last = NULL; ctx->code = RLC_OK;
}

int main(int argc, char **argv) {
	long start, idx = 0;
	FILE *in = vh_open(argc, argv, &start);
	if (core_init() != RLC_OK) return 2;
	if (!freopen("/dev/null", "w", stderr)) return 2;   /* the macros print every throw */
	while (vh_next(in)) {
		if (idx++ < start) continue;
		vh_case = idx - 1;
		toks = vh_tok; ntoks = vh_ntok;
		alarm(20);
		run_program();
		alarm(0);
	}
	fclose(vh_out);
	core_clean();
	return 0;
}
