/*
 * drv_enc_pc.h - pairing-based and set-intersection part of drv_enc.c (C06).
 * These protocols are observed at the level of their INPUT/OUTPUT contract: messages in and out,
 * both parties' keys, the set that comes out, the verdict on an honest and on a tampered helper
 * response ("same" = the delegated result equals pc_map(P, Q) computed by the library itself - the
 * pairing's own correctness is C04).
 *
 *   sokaka <seed> <idA> <idB> <klen>
 *   ibe    <seed> <id> <msghex> <cap>
 *   bgn    <seed> <m1> <m2>
 *   pdel   <pdpub|pdprv|lvpub|lvprv> <seed> <tamper index or -1> <kind g|u|z>
 *   psi    <rsa|shi|pb> <seed> <x1,x2,..|-> <y1,y2,..|->       (decimal / hex elements, "-" = empty set)
 *   pct    <seed>                                               (mpc pairing triples)
 */
#if defined(WITH_PC) && defined(WITH_CP)
#define PSI_MAX 8
static bn_t PA[PSI_MAX + 1], PXs[PSI_MAX + 1], PYs[PSI_MAX + 1], PZ[PSI_MAX * PSI_MAX + 1], PV[PSI_MAX + 1], PW[PSI_MAX + 1], PG, PN, PQ, PR;
static g1_t PU[PSI_MAX + 1], PSS;
static g2_t PD[PSI_MAX + 2], PS[PSI_MAX + 2];
static gt_t PT[PSI_MAX + 1];
static crt_t PCRT;
static int pc_ok;

static void pc_setup(void) {
	int i;
	pc_ok = (pc_param_set_any() == RLC_OK);
	err_get_code();
	for (i = 0; i <= PSI_MAX; i++) {
		bn_null(PA[i]); bn_null(PXs[i]); bn_null(PYs[i]); bn_null(PV[i]); bn_null(PW[i]);
		bn_new(PA[i]); bn_new(PXs[i]); bn_new(PYs[i]); bn_new(PV[i]); bn_new(PW[i]);
		g1_null(PU[i]); g1_new(PU[i]); gt_null(PT[i]); gt_new(PT[i]);
	}
	for (i = 0; i <= PSI_MAX * PSI_MAX; i++) { bn_null(PZ[i]); bn_new(PZ[i]); }
	for (i = 0; i <= PSI_MAX + 1; i++) { g2_null(PD[i]); g2_new(PD[i]); g2_null(PS[i]); g2_new(PS[i]); }
	bn_null(PG); bn_null(PN); bn_null(PQ); bn_null(PR); bn_new(PG); bn_new(PN); bn_new(PQ); bn_new(PR);
	g1_null(PSS); g1_new(PSS); crt_null(PCRT); crt_new(PCRT);
}

static void do_sokaka(void) {
	sokaka_t ka, kb; bn_t s; int e[5], r[5], klen = atoi(vh_tok[4]);
	static uint8_t k1[MAXB], k2[MAXB];
	sokaka_null(ka); sokaka_null(kb); bn_null(s); sokaka_new(ka); sokaka_new(kb); bn_new(s);
	reseed(vh_tok[1]);
	memset(k1, FILL, sizeof(k1)); memset(k2, FILL, sizeof(k2));
	VH_TRY(e[0], r[0] = cp_sokaka_gen(s));
	VH_TRY(e[1], r[1] = cp_sokaka_gen_prv(ka, vh_tok[2], s));
	VH_TRY(e[2], r[2] = cp_sokaka_gen_prv(kb, vh_tok[3], s));
	VH_TRY(e[3], r[3] = cp_sokaka_key(k1, klen, vh_tok[2], ka, vh_tok[3]));
	VH_TRY(e[4], r[4] = cp_sokaka_key(k2, klen, vh_tok[3], kb, vh_tok[2]));
	vh_begin("sokaka");
	vh_str("idA", vh_tok[2]); vh_str("idB", vh_tok[3]); vh_int("klen", klen);
	vh_bytes("kA", k1, klen); vh_bytes("kB", k2, klen); vh_int("over", k1[klen] != FILL || k2[klen] != FILL);
	vh_int("ret", r[0] | r[1] | r[2] | r[3] | r[4]); vh_int("err", e[0] | e[1] | e[2] | e[3] | e[4]); vh_int("code", vh_code());
	vh_end();
	sokaka_free(ka); sokaka_free(kb); bn_free(s);
}

typedef struct { const uint8_t *in; size_t len; const char *id; g1_st *pub; g2_st *prv; } ibe_ctx;
static void call_ibe_enc(res_t *r, void *c) { ibe_ctx *b = c; VH_TRY(r->err, r->ret = cp_ibe_enc(r->out, &r->olen, b->in, b->len, b->id, b->pub)); }
static void call_ibe_dec(res_t *r, void *c) { ibe_ctx *b = c; VH_TRY(r->err, r->ret = cp_ibe_dec(r->out, &r->olen, b->in, b->len, b->prv)); }
static void do_ibe(void) {
	bn_t s; g1_t pub; g2_t prv; int e0, r0 = -1, e1, r1 = -1; size_t cap = (size_t)atol(vh_tok[4]), hdr = 2 * RLC_FP_BYTES + 1;
	res_t r; ibe_ctx b;
	bn_null(s); g1_null(pub); g2_null(prv); bn_new(s); g1_new(pub); g2_new(prv);
	reseed(vh_tok[1]);
	VH_TRY(e0, r0 = cp_ibe_gen(s, pub));
	VH_TRY(e1, r1 = cp_ibe_gen_prv(prv, vh_tok[2], s));
	mlen = vh_hex2bytes(vh_tok[3], msg, MAXB, NULL);
	b.in = msg; b.len = mlen; b.id = vh_tok[2]; b.pub = pub; b.prv = prv;
	run_call(call_ibe_enc, &b, &r, cap, 0);
	vh_begin("ibe_enc");
	vh_int("hdr", (long)hdr); vh_int("mdl", RLC_MD_LEN); vh_bytes("m", msg, mlen); vh_int("gen", r0 | r1 | e0 | e1);
	res_out(&r, cap);
	vh_end();
	if (r.ret == RLC_OK && r.olen <= MAXB) {
		size_t lens[4]; int j;
		clen = r.olen; memcpy(ct, r.out, clen);
		lens[0] = clen; lens[1] = hdr; lens[2] = hdr - 1; lens[3] = 0;
		for (j = 0; j < 4; j++) {
			b.in = ct; b.len = lens[j];
			run_call(call_ibe_dec, &b, &r, MAXB, j > 0);
			vh_begin("ibe_dec");
			vh_int("hdr", (long)hdr); vh_int("mdl", RLC_MD_LEN); vh_int("honest", j == 0); vh_bytes("m0", msg, j == 0 ? mlen : 0);
			vh_int("clen", (long)lens[j]);
			res_out(&r, MAXB);
			vh_end();
		}
	}
	bn_free(s); g1_free(pub); g2_free(prv);
}

static void do_bgn(void) {
	bgn_t pub, prv; g1_t c[2], d[2]; g2_t f[2]; gt_t g[4];
	dig_t m1 = (dig_t)atol(vh_tok[2]), m2 = (dig_t)atol(vh_tok[3]), o[6] = { 0 };
	int e[12], r[12], i;
	bgn_null(pub); bgn_null(prv); bgn_new(pub); bgn_new(prv);
	for (i = 0; i < 2; i++) { g1_null(c[i]); g1_new(c[i]); g1_null(d[i]); g1_new(d[i]); g2_null(f[i]); g2_new(f[i]); }
	for (i = 0; i < 4; i++) { gt_null(g[i]); gt_new(g[i]); }
	for (i = 0; i < 12; i++) { e[i] = 0; r[i] = 0; }
	reseed(vh_tok[1]);
	VH_TRY(e[0], r[0] = cp_bgn_gen(pub, prv));
	VH_TRY(e[1], r[1] = cp_bgn_enc1(c, m1, pub));
	VH_TRY(e[2], r[2] = cp_bgn_dec1(&o[0], c, prv));
	VH_TRY(e[3], r[3] = cp_bgn_enc2(f, m2, pub));
	VH_TRY(e[4], r[4] = cp_bgn_dec2(&o[1], f, prv));
	VH_TRY(e[5], r[5] = cp_bgn_enc1(d, m2, pub));
	g1_add(d[0], d[0], c[0]); g1_add(d[1], d[1], c[1]);             /* sum in G1 (combination: input construction) */
	g1_norm(d[0], d[0]); g1_norm(d[1], d[1]);
	VH_TRY(e[6], r[6] = cp_bgn_dec1(&o[2], d, prv));
	VH_TRY(e[7], r[7] = cp_bgn_mul(g, c, f));
	VH_TRY(e[8], r[8] = cp_bgn_dec(&o[3], g, prv));
	VH_TRY(e[9], r[9] = cp_bgn_add(g, g, g));
	VH_TRY(e[10], r[10] = cp_bgn_dec(&o[4], g, prv));
	vh_begin("bgn");
	vh_int("m1", (long)m1); vh_int("m2", (long)m2);
	vh_int("d1", (long)o[0]); vh_int("d2", (long)o[1]); vh_int("dsum", (long)o[2]); vh_int("dmul", (long)o[3]); vh_int("dadd", (long)o[4]);
	{ int rr = 0, ee = 0; for (i = 0; i < 11; i++) { rr |= r[i]; ee |= e[i]; } vh_int("ret", rr); vh_int("err", ee); }
	vh_int("code", vh_code());
	vh_end();
	bgn_free(pub); bgn_free(prv);
}

/* replace a helper response element: g = another member of GT | u = the unit | z = zero (not a member) */
static void tamper(gt_t x, char kind) {
	gt_t t; gt_null(t); gt_new(t);
	if (kind == 'g') { gt_get_gen(t); gt_mul(x, x, t); }
	else if (kind == 'u') { if (gt_is_unity(x)) { gt_get_gen(x); } else gt_set_unity(x); }
	else gt_zero(x);
	gt_free(t);
}
static void do_pdel(void) {
	const char *pr = vh_tok[1]; int tj = atoi(vh_tok[3]); char kind = vh_tok[4][0];
	bn_t c, rr[3]; g1_t p, u1[2], v1[3]; g2_t q, u2[2], v2[4], w2[4]; gt_t e[2], r, g[4], ref;
	int i, er[5] = { 0 }, rt[5] = { 0 }, ver = -1, prv = (pr[2] == 'p' && pr[3] == 'r') , lv = (pr[0] == 'l'), ng;
	bn_null(c); bn_new(c); g1_null(p); g1_new(p); g2_null(q); g2_new(q); gt_null(r); gt_new(r); gt_null(ref); gt_new(ref);
	for (i = 0; i < 3; i++) { bn_null(rr[i]); bn_new(rr[i]); g1_null(v1[i]); g1_new(v1[i]); }
	for (i = 0; i < 2; i++) { g1_null(u1[i]); g1_new(u1[i]); g2_null(u2[i]); g2_new(u2[i]); gt_null(e[i]); gt_new(e[i]); }
	for (i = 0; i < 4; i++) { g2_null(v2[i]); g2_new(v2[i]); g2_null(w2[i]); g2_new(w2[i]); gt_null(g[i]); gt_new(g[i]); }
	reseed(vh_tok[2]);
	g1_rand(p); g2_rand(q);
	if (!prv && !lv) {
		VH_TRY(er[0], rt[0] = cp_pdpub_gen(c, rr[0], u1[0], u2[0], v2[0], e[0]));
		VH_TRY(er[1], rt[1] = cp_pdpub_ask(v1[0], w2[0], p, q, c, rr[0], u1[0], u2[0], v2[0]));
		VH_TRY(er[2], rt[2] = cp_pdpub_ans(g, p, q, v1[0], v2[0], w2[0]));
		ng = 3;
	} else if (!prv && lv) {
		VH_TRY(er[0], rt[0] = cp_lvpub_gen(rr[0], u1[0], u2[0], v2[0], e[0]));
		VH_TRY(er[1], rt[1] = cp_lvpub_ask(c, v1[0], w2[0], p, q, rr[0], u1[0], u2[0], v2[0]));
		VH_TRY(er[2], rt[2] = cp_lvpub_ans(g, p, q, v1[0], v2[0], w2[0]));
		ng = 2;
	} else if (prv && !lv) {
		VH_TRY(er[0], rt[0] = cp_pdprv_gen(c, rr, u1, u2, v2, e));
		VH_TRY(er[1], rt[1] = cp_pdprv_ask(v1, w2, p, q, c, rr, u1, u2, v2));
		VH_TRY(er[2], rt[2] = cp_pdprv_ans(g, v1, w2));
		ng = 4;
	} else {
		VH_TRY(er[0], rt[0] = cp_lvprv_gen(c, rr, u1, u2, v2, e));
		VH_TRY(er[1], rt[1] = cp_lvprv_ask(v1, w2, p, q, c, rr, u1, u2, v2));
		VH_TRY(er[2], rt[2] = cp_lvprv_ans(g, v1, w2));
		ng = 3;
	}
	if (tj >= 0 && tj < ng) tamper(g[tj], kind);
	gt_set_unity(r);
	if (!prv && !lv) VH_TRY(er[3], ver = cp_pdpub_ver(r, g, c, e[0]));
	else if (!prv && lv) VH_TRY(er[3], ver = cp_lvpub_ver(r, g, c, e[0]));
	else if (prv && !lv) VH_TRY(er[3], ver = cp_pdprv_ver(r, g, c, e));
	else VH_TRY(er[3], ver = cp_lvprv_ver(r, g, c, e));
	pc_map(ref, p, q);
	vh_begin("pdel");
	vh_str("proto", pr); vh_int("tamper", (tj >= 0 && tj < ng) ? tj : -1); vh_str("kind", vh_tok[4]); vh_int("ng", ng);
	vh_int("ver", ver); vh_int("same", gt_cmp(r, ref) == RLC_EQ); vh_int("unity", gt_is_unity(r)); vh_int("refunity", gt_is_unity(ref));
	vh_bn("c", c);
	vh_int("ret", rt[0] | rt[1] | rt[2]); vh_int("err", er[0] | er[1] | er[2] | er[3]); vh_int("code", vh_code());
	vh_end();
}

static int parse_set(char *tok, bn_t *a) {
	int n = 0; char *p;
	if (!strcmp(tok, "-")) return 0;
	for (p = strtok(tok, ","); p && n < PSI_MAX; p = strtok(NULL, ",")) vh_bn_set(a[n++], p);
	return n;
}
static void do_psi(void) {
	const char *kind = vh_tok[1]; int m, n, e[4] = { 0 }, r[4] = { 0 }; size_t len = 0;
	char xs[512], ys[512];
	snprintf(xs, sizeof(xs), "%s", vh_tok[3]); snprintf(ys, sizeof(ys), "%s", vh_tok[4]);
	reseed(vh_tok[2]);
	m = parse_set(xs, PXs); n = parse_set(ys, PYs);
	if (!strcmp(kind, "rsa")) {
		VH_TRY(e[0], r[0] = cp_rsapsi_gen(PG, PN, RLC_BN_BITS));
		VH_TRY(e[1], r[1] = cp_rsapsi_ask(PQ, PR, PA, PG, PN, PXs, m));
		VH_TRY(e[2], r[2] = cp_rsapsi_ans(PV, PW, PQ, PG, PN, PYs, n));
		VH_TRY(e[3], r[3] = cp_rsapsi_int(PZ, &len, PR, PA, PN, PXs, m, PV, PW, n));
	} else if (!strcmp(kind, "shi")) {
		VH_TRY(e[0], r[0] = cp_shipsi_gen(PG, PCRT, RLC_BN_BITS));
		VH_TRY(e[1], r[1] = cp_shipsi_ask(PQ, PR, PA, PG, PCRT->n, PXs, m));
		VH_TRY(e[2], r[2] = cp_shipsi_ans(PV, PW[0], PQ, PG, PCRT, PYs, n));
		VH_TRY(e[3], r[3] = cp_shipsi_int(PZ, &len, PR, PA, PCRT->n, PXs, m, PV, PW[0], n));
	} else {
		VH_TRY(e[0], r[0] = cp_pbpsi_gen(PQ, PSS, PS, m));
		VH_TRY(e[1], r[1] = cp_pbpsi_ask(PD, PR, PXs, PS, m));
		VH_TRY(e[2], r[2] = cp_pbpsi_ans(PT, PU, PSS, PD[0], PYs, n));
		VH_TRY(e[3], r[3] = cp_pbpsi_int(PZ, &len, PD, PXs, m, PT, PU, n));
	}
	vh_begin("psi");
	vh_str("kind", kind);
	bn_arr("x", PXs, m); bn_arr("y", PYs, n); bn_arr("z", PZ, len <= PSI_MAX * PSI_MAX ? (int)len : 0); vh_int("len", (long)len);
	vh_int("ret", r[0] | r[1] | r[2] | r[3]); vh_int("err", e[0] | e[1] | e[2] | e[3]); vh_int("code", vh_code());
	vh_end();
}

#if defined(WITH_MPC)
/* pairing triples: c0 c1 = e(a0 + a1, b0 + b1); a shared pairing computed with the triple equals e(P, Q) */
static void do_pct(void) {
	pt_t t[2]; g1_t p[2], d[2], ps; g2_t q[2], ee[2], qs; gt_t r[2], f, ref; int i, er[6] = { 0 }, tri_ok, map_ok;
	for (i = 0; i < 2; i++) {
		pt_null(t[i]); pt_new(t[i]); g1_null(p[i]); g1_new(p[i]); g1_null(d[i]); g1_new(d[i]);
		g2_null(q[i]); g2_new(q[i]); g2_null(ee[i]); g2_new(ee[i]); gt_null(r[i]); gt_new(r[i]);
	}
	g1_null(ps); g1_new(ps); g2_null(qs); g2_new(qs); gt_null(f); gt_new(f); gt_null(ref); gt_new(ref);
	reseed(vh_tok[1]);
	VH_TRY(er[0], pc_map_tri(t));
	g1_add(ps, t[0]->a, t[1]->a); g1_norm(ps, ps); g2_add(qs, t[0]->b, t[1]->b); g2_norm(qs, qs);
	gt_mul(f, t[0]->c, t[1]->c); pc_map(ref, ps, qs);
	tri_ok = gt_cmp(f, ref) == RLC_EQ;
	for (i = 0; i < 2; i++) { g1_rand(p[i]); g2_rand(q[i]); }
	g1_add(ps, p[0], p[1]); g1_norm(ps, ps); g2_add(qs, q[0], q[1]); g2_norm(qs, qs);
	pc_map(ref, ps, qs);
	for (i = 0; i < 2; i++) VH_TRY(er[1 + i], pc_map_lcl(d[i], ee[i], p[i], q[i], t[i]));
	VH_TRY(er[3], pc_map_bct(d, ee));
	for (i = 0; i < 2; i++) VH_TRY(er[4 + i], pc_map_mpc(r[i], d[i], ee[i], t[i], i));
	gt_mul(f, r[0], r[1]);
	map_ok = gt_cmp(f, ref) == RLC_EQ;
	vh_begin("pct");
	vh_int("tri", tri_ok); vh_int("map", map_ok); vh_int("bct", g1_cmp(d[0], d[1]) == RLC_EQ && g2_cmp(ee[0], ee[1]) == RLC_EQ);
	vh_int("refunity", gt_is_unity(ref));
	vh_int("err", er[0] | er[1] | er[2] | er[3] | er[4] | er[5]); vh_int("code", vh_code());
	vh_end();
}
#endif

static int pc_dispatch(const char *op) {
	if (!pc_ok) { if (!strcmp(op, "sokaka") || !strcmp(op, "ibe") || !strcmp(op, "bgn") || !strcmp(op, "pdel") || !strcmp(op, "psi") || !strcmp(op, "pct")) { vh_begin("NOPAIRING"); vh_end(); return 1; } return 0; }
	if (strcmp(op, "sokaka") && strcmp(op, "ibe") && strcmp(op, "bgn") && strcmp(op, "pdel") && strcmp(op, "psi") && strcmp(op, "pct")) return 0;
	if (cur_id != -2) { pc_param_set_any(); err_get_code(); cur_id = -2; }      /* the elliptic-curve cases may have selected another curve */
	if (!strcmp(op, "sokaka")) do_sokaka();
	else if (!strcmp(op, "ibe")) do_ibe();
	else if (!strcmp(op, "bgn")) do_bgn();
	else if (!strcmp(op, "pdel")) do_pdel();
	else if (!strcmp(op, "psi")) do_psi();
#if defined(WITH_MPC)
	else if (!strcmp(op, "pct")) do_pct();
#endif
	else return 0;
	return 1;
}
#else
static void pc_setup(void) { }
static int pc_dispatch(const char *op) { (void)op; return 0; }
#endif
