/* drv_enc_pc.h - pairing-based part of drv_enc.c (C06) */
static void pc_setup(void) { }
static int pc_dispatch(const char *op) { (void)op; return 0; }
